import Mimium.Proofs.CoreRename
/-!
Equivariance of the reference evaluator under an injective renaming of ALL variables of a program, closures included:
the renaming acts on expressions, environments, values (closures carry parameter names, a body and an environment),
stores, state trees and programs; `eval (π•P) (π•env) (π•e) (π•σ) (π•st) = π•(eval P env e σ st)`.
-/
namespace Mimium.Core

mutual
def renV (π : String → String) : Val → Val
  | .num b => .num b
  | .tup vs => .tup (renVL π vs)
  | .clo ps body env => .clo (ps.map π) (renE π body) (renEnv π env)
def renVL (π : String → String) : List Val → List Val
  | [] => []
  | v :: vs => renV π v :: renVL π vs
end

mutual
def renS (π : String → String) : SNode → SNode
  | .mk s cells => .mk (s.map (renV π)) (renCells π cells)
def renC (π : String → String) : SCell → SCell
  | .mem w => .mem w
  | .delay r => .delay r
  | .child n => .child (renS π n)
def renCells (π : String → String) : List (Nat × SCell) → List (Nat × SCell)
  | [] => []
  | (k, c) :: rest => (k, renC π c) :: renCells π rest
end

def renF (π : String → String) (d : FnDecl) : FnDecl := ⟨d.name, d.params.map π, renE π d.body, d.selfShape⟩

def renP (π : String → String) (P : Prog) : Prog :=
  ⟨P.globals.map (fun g => (π g.1, renE π g.2)), P.fns.map (renF π), renF π P.dsp⟩

/-- action on a successful result -/
def renR (π : String → String) (r : Val × Store × SNode) : Val × Store × SNode := (renV π r.1, renVL π r.2.1, renS π r.2.2)
def renRL (π : String → String) (r : List Val × Store × SNode) : List Val × Store × SNode := (renVL π r.1, renVL π r.2.1, renS π r.2.2)

/-- the renamed run yields the renamed result of the original run (or both fail) -/
def RR {α : Type} (act : α → α) (r' r : Res α) : Prop :=
  match r', r with
  | .ok a', .ok a => a' = act a
  | .error _, .error _ => True
  | _, _ => False

theorem RR.err {α : Type} (act : α → α) (e e' : Err) : RR act (.error e) (.error e') := by simp [RR]

theorem RR.andThen {α β : Type} {actA : α → α} {actB : β → β} {r' r : Res α} {f' f : α → Res β}
    (h : RR actA r' r) (hf : ∀ a, RR actB (f' (actA a)) (f a)) : RR actB (andThen r' f') (andThen r f) := by
  cases r' <;> cases r <;> simp_all [RR, Core.andThen]

/-! ### commutation lemmas -/
theorem renVL_length (π : String → String) : ∀ (vs : List Val), (renVL π vs).length = vs.length
  | [] => rfl
  | _ :: vs => by simp [renVL, renVL_length π vs]

theorem renVL_append (π : String → String) : ∀ (a b : List Val), renVL π (a ++ b) = renVL π a ++ renVL π b
  | [], b => rfl
  | x :: a, b => by simp [renVL, renVL_append π a b]

theorem renVL_getElem? (π : String → String) : ∀ (vs : List Val) (i : Nat), (renVL π vs)[i]? = (vs[i]?).map (renV π)
  | [], i => by simp [renVL]
  | v :: vs, 0 => by simp [renVL]
  | v :: vs, i + 1 => by simp [renVL, renVL_getElem? π vs i]

theorem renVL_set (π : String → String) : ∀ (vs : List Val) (i : Nat) (v : Val),
    renVL π (List.set vs i v) = List.set (renVL π vs) i (renV π v)
  | [], i, v => by simp [renVL]
  | x :: vs, 0, v => by simp [renVL]
  | x :: vs, i + 1, v => by simp [renVL, renVL_set π vs i v]

theorem bindAll_ren (π : String → String) : ∀ (xs : List String) (vs : List Val) (env : Env) (σ : Store),
    bindAll (renEnv π env) (renVL π σ) (xs.map π) (renVL π vs) =
      (renEnv π (bindAll env σ xs vs).1, renVL π (bindAll env σ xs vs).2)
  | [], vs, env, σ => by simp [bindAll]
  | x :: xs, [], env, σ => by simp [bindAll, renVL]
  | x :: xs, v :: vs, env, σ => by
    simp only [List.map_cons, renVL, bindAll]
    have := bindAll_ren π xs vs ((x, σ.length) :: env) (σ ++ [v])
    simpa [renEnv, renVL_length, renVL_append, renVL] using this

mutual
theorem renV_zeroOf (π : String → String) : ∀ (s : Shape), renV π (zeroOf s) = zeroOf s
  | .num => by simp [zeroOf, renV]
  | .tup ss => by simp [zeroOf, renV, renVL_zeroOfL π ss]
theorem renVL_zeroOfL (π : String → String) : ∀ (ss : List Shape), renVL π (zeroOf.zeroOfL ss) = zeroOf.zeroOfL ss
  | [] => by simp [zeroOf.zeroOfL, renVL]
  | s :: ss => by simp [zeroOf.zeroOfL, renVL, renV_zeroOf π s, renVL_zeroOfL π ss]
end

theorem lookupCell_ren (π : String → String) : ∀ (cs : List (Nat × SCell)) (site : Nat),
    lookupCell (renCells π cs) site = (lookupCell cs site).map (renC π)
  | [], site => by simp [renCells, lookupCell]
  | (k, c) :: rest, site => by
    simp only [renCells, lookupCell]
    split <;> simp [lookupCell_ren π rest site]

theorem setCell_ren (π : String → String) : ∀ (cs : List (Nat × SCell)) (site : Nat) (c : SCell),
    renCells π (setCell cs site c) = setCell (renCells π cs) site (renC π c)
  | [], site, c => by simp [renCells, setCell]
  | (k, c') :: rest, site, c => by
    simp only [renCells, setCell]
    split <;> simp [renCells, setCell_ren π rest site c]

theorem renS_selfv (π : String → String) (st : SNode) : (renS π st).selfv = st.selfv.map (renV π) := by
  cases st; simp [renS, SNode.selfv]

theorem renS_setSelf (π : String → String) (st : SNode) (v : Val) : renS π (st.setSelf v) = (renS π st).setSelf (renV π v) := by
  cases st; simp [renS, SNode.setSelf]

theorem renS_setCell (π : String → String) (st : SNode) (site : Nat) (c : SCell) :
    renS π (st.setCell site c) = (renS π st).setCell site (renC π c) := by
  cases st; simp [renS, SNode.setCell, setCell_ren]

theorem renS_memAt (π : String → String) (st : SNode) (site : Nat) : (renS π st).memAt site = st.memAt site := by
  cases st with
  | mk s cs =>
    simp only [renS, SNode.memAt, SNode.cells, lookupCell_ren]
    cases lookupCell cs site with
    | none => rfl
    | some c => cases c <;> simp [renC]

theorem renS_ringAt (π : String → String) (st : SNode) (n site : Nat) : (renS π st).ringAt n site = st.ringAt n site := by
  cases st with
  | mk s cs =>
    simp only [renS, SNode.ringAt, SNode.cells, lookupCell_ren]
    cases lookupCell cs site with
    | none => rfl
    | some c => cases c <;> simp [renC]

theorem renS_empty (π : String → String) : renS π SNode.empty = SNode.empty := by
  simp [SNode.empty, renS, renCells]

theorem renS_childAt (π : String → String) (st : SNode) (site : Nat) : (renS π st).childAt site = renS π (st.childAt site) := by
  cases st with
  | mk s cs =>
    simp only [renS, SNode.childAt, SNode.cells, lookupCell_ren]
    cases lookupCell cs site with
    | none => simp [renS_empty]
    | some c => cases c <;> simp [renC, renS_empty]

end Mimium.Core

namespace Mimium.Core

theorem globalEnv_renP (π : String → String) (P : Prog) : globalEnv (renP π P) = renEnv π (globalEnv P) := by
  simp [globalEnv, renP, renEnv, List.zipIdx_map, List.map_reverse]

theorem findFn_renP (π : String → String) (P : Prog) (f : String) :
    findFn (renP π P).fns f = (findFn P.fns f).map (renF π) := by
  simp only [findFn, renP, List.find?_map]
  congr 1

section unfold2
variable (P : Prog) (rt : Rt) (n : Nat) (env : Env) (σ : Store) (st : SNode)

theorem eval_lam (ps : List String) (body : Expr) : eval (n + 1) P rt env (.lam ps body) σ st = .ok (.clo ps body env, σ, st) := by
  rw [eval]

theorem eval_app (f : Expr) (args : List Expr) : eval (n + 1) P rt env (.app f args) σ st =
    andThen (eval n P rt env f σ st) (fun r => match r with
      | (.clo ps body cenv, σ, st) =>
        andThen (evalList n P rt env args σ st) (fun rs =>
          if ps.length != rs.1.length then .error (.type "argument count") else
          andThen (eval n P rt (bindAll cenv rs.2.1 ps rs.1).1 body (bindAll cenv rs.2.1 ps rs.1).2 SNode.empty)
            (fun r => .ok (r.1, r.2.1, rs.2.2)))
      | _ => .error (.type "application of a non-function")) := by
  rw [eval]
  cases eval n P rt env f σ st with
  | error e => rfl
  | ok r =>
    obtain ⟨v, σ', st'⟩ := r
    cases v with
    | clo ps body cenv =>
      simp only [andThen]
      cases evalList n P rt env args σ' st' with
      | error e => rfl
      | ok rs =>
        obtain ⟨vs, σ'', st''⟩ := rs
        simp only
        split
        · rfl
        · cases eval n P rt (bindAll cenv σ'' ps vs).1 body (bindAll cenv σ'' ps vs).2 SNode.empty with
          | error e => rfl
          | ok r => obtain ⟨v, σ3, st3⟩ := r; rfl
    | _ => rfl
end unfold2

end Mimium.Core

namespace Mimium.Core

theorem renS_initSelf (π : String → String) (child : SNode) (sh : Option Shape) :
    renS π (initSelf child sh) = initSelf (renS π child) sh := by
  simp only [initSelf, renS_selfv]
  cases child.selfv <;> cases sh <;> simp [renS_setSelf, renV_zeroOf]

theorem renS_finishSelf (π : String → String) (child : SNode) (sh : Option Shape) (v : Val) :
    renS π (finishSelf child sh v) = finishSelf (renS π child) sh (renV π v) := by
  simp only [finishSelf]
  split <;> simp [renS_setSelf]

/-- the part of a call after the arguments: equivariant given equivariance of `eval` at smaller fuel -/
theorem callRest_ren (P : Prog) (rt : Rt) (π : String → String) (n : Nat)
    (ihE : ∀ (e : Expr) (env : Env) (σ : Store) (st : SNode),
      RR (renR π) (eval n (renP π P) rt (renEnv π env) (renE π e) (renVL π σ) (renS π st)) (eval n P rt env e σ st))
    (f : String) (site : Nat) (r : List Val × Store × SNode) :
    RR (renR π) (callRest (renP π P) rt n f site (renRL π r)) (callRest P rt n f site r) := by
  obtain ⟨vs, σ, st⟩ := r
  simp only [callRest, renRL, findFn_renP]
  cases findFn P.fns f with
  | none => exact RR.err _ _ _
  | some d =>
    simp only [Option.map_some, renF, List.length_map, renVL_length]
    split
    · exact RR.err _ _ _
    · simp only [globalEnv_renP, bindAll_ren, renS_childAt, ← renS_initSelf]
      refine RR.andThen (ihE d.body _ _ _) (fun q => ?_)
      simp [RR, renR, renS_setCell, renC, renS_finishSelf]

end Mimium.Core

namespace Mimium.Core

/-- **Equivariance, closures included.** For an injective renaming `π` of the variables of a whole program: the renamed
expression in the renamed program / environment / store / state evaluates to the renamed result (or both runs fail). -/
theorem equivariantV (P : Prog) (rt : Rt) (π : String → String) (hπ : ∀ a b, π a = π b → a = b) :
    ∀ (fuel : Nat),
      (∀ (e : Expr) (env : Env) (σ : Store) (st : SNode),
        RR (renR π) (eval fuel (renP π P) rt (renEnv π env) (renE π e) (renVL π σ) (renS π st)) (eval fuel P rt env e σ st)) ∧
      (∀ (es : List Expr) (env : Env) (σ : Store) (st : SNode),
        RR (renRL π) (evalList fuel (renP π P) rt (renEnv π env) (renL π es) (renVL π σ) (renS π st))
          (evalList fuel P rt env es σ st)) := by
  intro fuel
  induction fuel with
  | zero =>
    constructor
    · intro e env σ st; rw [eval_zero, eval_zero]; exact RR.err _ _ _
    · intro es env σ st; rw [evalList_zero, evalList_zero]; exact RR.err _ _ _
  | succ n ih =>
    obtain ⟨ihE, ihL⟩ := ih
    constructor
    · intro e env σ st
      cases e with
      | lit b => simp [renE, eval_lit, RR, renR, renV]
      | var x =>
        simp only [renE, eval_var, lookup_renEnv π hπ, renVL_getElem?]
        cases env.lookup x with
        | none => exact RR.err _ _ _
        | some l => rcases hσ : σ[l]? with _ | v <;> simp [RR, renR, hσ]
      | un op a =>
        simp only [renE, eval_un]
        refine RR.andThen (ihE a env σ st) (fun r => ?_)
        obtain ⟨v, σ', st'⟩ := r
        cases v <;> simp [RR, renR, renV]
      | bin op a b =>
        simp only [renE, eval_bin]
        refine RR.andThen (ihE a env σ st) (fun r => ?_)
        obtain ⟨v, σ', st'⟩ := r
        cases v with
        | num x =>
          simp only [renR, renV]
          refine RR.andThen (ihE b env σ' st') (fun r => ?_)
          obtain ⟨v, σ'', st''⟩ := r
          cases v <;> simp [RR, renR, renV]
        | _ => simp [RR, renR, renV]
      | ite c a b =>
        simp only [renE, eval_ite]
        refine RR.andThen (ihE c env σ st) (fun r => ?_)
        obtain ⟨v, σ', st'⟩ := r
        cases v with
        | num x =>
          simp only [renR, renV]
          split
          · exact ihE a env σ' st'
          · exact ihE b env σ' st'
        | _ => simp [RR, renR, renV]
      | letE x a body =>
        simp only [renE, eval_letE]
        refine RR.andThen (ihE a env σ st) (fun r => ?_)
        have := ihE body ((x, r.2.1.length) :: env) (r.2.1 ++ [r.1]) r.2.2
        simpa [renR, renEnv, renVL_length, renVL_append, renVL] using this
      | letTup xs a body =>
        simp only [renE, eval_letTup]
        refine RR.andThen (ihE a env σ st) (fun r => ?_)
        obtain ⟨v, σ', st'⟩ := r
        cases v with
        | tup vs =>
          simp only [renR, renV, renVL_length, List.length_map, bindAll_ren]
          split
          · exact ihE body _ _ _
          · exact RR.err _ _ _
        | _ => simp [RR, renR, renV]
      | tup es =>
        simp only [renE, eval_tup]
        refine RR.andThen (ihL es env σ st) (fun r => ?_)
        simp [RR, renR, renRL, renV]
      | proj a i =>
        simp only [renE, eval_proj]
        refine RR.andThen (ihE a env σ st) (fun r => ?_)
        obtain ⟨v, σ', st'⟩ := r
        cases v with
        | tup vs =>
          simp only [renR, renV, renVL_getElem?]
          cases vs[i]? <;> simp [RR, renR]
        | _ => simp [RR, renR, renV]
      | call f args site =>
        simp only [renE, eval_call]
        exact RR.andThen (ihL args env σ st) (fun r => callRest_ren P rt π n ihE f site r)
      | app f args =>
        simp only [renE, eval_app]
        refine RR.andThen (ihE f env σ st) (fun r => ?_)
        obtain ⟨v, σ', st'⟩ := r
        cases v with
        | clo ps body cenv =>
          simp only [renR, renV]
          refine RR.andThen (ihL args env σ' st') (fun rs => ?_)
          obtain ⟨vs, σ'', st''⟩ := rs
          simp only [renRL, List.length_map, renVL_length, bindAll_ren]
          split
          · exact RR.err _ _ _
          · have := ihE body (bindAll cenv σ'' ps vs).1 (bindAll cenv σ'' ps vs).2 SNode.empty
            rw [renS_empty] at this
            refine RR.andThen this (fun r => ?_)
            simp [RR, renR]
        | _ => simp [RR, renR, renV]
      | lam ps b => simp [renE, eval_lam, RR, renR, renV]
      | self =>
        simp only [renE, eval_self, renS_selfv]
        cases st.selfv <;> simp [RR, renR]
      | mem a site =>
        simp only [renE, eval_mem]
        refine RR.andThen (ihE a env σ st) (fun r => ?_)
        obtain ⟨v, σ', st'⟩ := r
        cases v <;> simp [RR, renR, renV, renS_memAt, renS_setCell, renC]
      | delay k a t site =>
        simp only [renE, eval_delay]
        refine RR.andThen (ihE a env σ st) (fun r => ?_)
        obtain ⟨v, σ', st'⟩ := r
        cases v with
        | num x =>
          simp only [renR, renV]
          refine RR.andThen (ihE t env σ' st') (fun r => ?_)
          obtain ⟨v, σ'', st''⟩ := r
          cases v <;> simp [RR, renR, renV, renS_ringAt, renS_setCell, renC]
        | _ => simp [RR, renR, renV]
      | now => simp [renE, eval_now, RR, renR, renV]
      | samplerate => simp [renE, eval_sr, RR, renR, renV]
      | assign x a rest =>
        simp only [renE, eval_assign, lookup_renEnv π hπ]
        refine RR.andThen (ihE a env σ st) (fun r => ?_)
        cases env.lookup x with
        | none => exact RR.err _ _ _
        | some l =>
          have := ihE rest env (List.set r.2.1 l r.1) r.2.2
          simpa [renR, renVL_set] using this
    · intro es env σ st
      cases es with
      | nil => simp [renL, evalList_nil, RR, renRL, renVL]
      | cons e es =>
        simp only [renL, evalList_cons]
        refine RR.andThen (ihE e env σ st) (fun r => ?_)
        simp only [renR]
        refine RR.andThen (ihL es env r.2.1 r.2.2) (fun rs => ?_)
        simp [RR, renRL, renVL]

end Mimium.Core
