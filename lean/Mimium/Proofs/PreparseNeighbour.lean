import Mimium.Proofs.Preparse
/-! `token_indices` = the syntax tokens in order; every attached trivia index lies between its owner and the next
syntax token (trailing) or before the first syntax token (leading). -/
namespace Mimium.Preparse
open Mimium.Gen (Kind)

/-! ### token_indices -/

theorem step_tokenIndices (st : St) (i : Nat) (k : Kind) :
    (step st i k).tokenIndices = st.tokenIndices ++ (if isSyntax k = true then [i] else []) := by
  rcases kind_cases k with rfl | ⟨ht, hl⟩ | hs | rfl
  · have hns : isSyntax Kind.LineBreak = false := by simp [isSyntax, linebreak_trivia]
    cases h : st.lastTokenIdx with
    | none => rw [step_lb_none st i h]; simp [hns]
    | some l => rw [step_lb_some st i l h]; simp [hns]
  · have hns : isSyntax k = false := by simp [isSyntax, ht]
    rw [step_trivia st i k ht hl]; simp [hns]
  · rw [step_syntax st i k hs]; simp [hs, attach_tokenIndices]
  · rw [step_eof]; simp [isSyntax]

theorem loop_tokenIndices : ∀ (ks : List Kind) (st : St) (i : Nat),
    (loop st i ks).tokenIndices = st.tokenIndices ++ syntaxIndices i ks := by
  intro ks
  induction ks with
  | nil => intros; simp [loop, syntaxIndices]
  | cons k ks ih =>
    intro st i
    simp only [loop, ih, step_tokenIndices, syntaxIndices]
    split <;> simp

theorem finish_tokenIndices (st : St) : (finish st).tokenIndices = st.tokenIndices := by
  unfold finish; split
  · rfl
  · split <;> rfl

theorem preparse_tokenIndices (ks : List Kind) : (preparse ks).tokenIndices = syntaxIndices 0 ks := by
  simp [preparse, finish_tokenIndices, loop_tokenIndices]

theorem mem_syntaxIndices : ∀ (ks : List Kind) (off x : Nat),
    x ∈ syntaxIndices off ks ↔ off ≤ x ∧ x - off < ks.length ∧ isSyntax (ks.getD (x - off) Kind.Eof) = true := by
  intro ks
  induction ks with
  | nil => intro off x; simp [syntaxIndices]
  | cons k ks ih =>
    intro off x
    have hrec : x ∈ syntaxIndices (off + 1) ks ↔
        off + 1 ≤ x ∧ x - off < (k :: ks).length ∧ isSyntax ((k :: ks).getD (x - off) Kind.Eof) = true := by
      rw [ih]
      constructor
      · rintro ⟨h1, h2, h3⟩
        have e : x - off = (x - (off + 1)) + 1 := by omega
        refine ⟨h1, by simp; omega, ?_⟩
        rw [e]; simpa using h3
      · rintro ⟨h1, h2, h3⟩
        have e : x - off = (x - (off + 1)) + 1 := by omega
        rw [e] at h3
        refine ⟨h1, by simp at h2; omega, by simpa using h3⟩
    simp only [syntaxIndices]
    by_cases hx : x = off
    · subst hx
      have hno : ¬ x ∈ syntaxIndices (x + 1) ks := by rw [hrec]; omega
      by_cases hs : isSyntax k = true
      · simp [hs]
      · simp [hs, hno]
    · have hiff : (off ≤ x ∧ x - off < (k :: ks).length ∧ isSyntax ((k :: ks).getD (x - off) Kind.Eof) = true) ↔
          (off + 1 ≤ x ∧ x - off < (k :: ks).length ∧ isSyntax ((k :: ks).getD (x - off) Kind.Eof) = true) := by
        constructor
        · rintro ⟨a, b⟩; exact ⟨by omega, b⟩
        · rintro ⟨a, b⟩; exact ⟨by omega, b⟩
      rw [hiff, ← hrec]
      split
      · simp [hx]
      · rfl

theorem syntaxIndices_pairwise : ∀ (ks : List Kind) (off : Nat), (syntaxIndices off ks).Pairwise (· < ·) := by
  intro ks
  induction ks with
  | nil => intro off; simp [syntaxIndices]
  | cons k ks ih =>
    intro off
    simp only [syntaxIndices]
    split
    · rw [List.pairwise_cons]
      refine ⟨?_, ih _⟩
      intro x hx
      have := (mem_syntaxIndices ks (off + 1) x).mp hx
      omega
    · exact ih _

/-! ### neighbours -/

/-- trailing entries: the trivia index lies after its owner and before the next syntax token seen so far -/
def TrailOk (ti : List Nat) (n : Nat) (m : TMap) : Prop :=
  ∀ k x, (k, x) ∈ TMap.pairs m → x < n ∧ ∃ t, ti[k]? = some t ∧ t < x ∧ ∀ t', ti[k + 1]? = some t' → x < t'

/-- leading entries: only the first syntax token has leading trivia, and they precede it -/
def LeadOk (ti : List Nat) (m : TMap) : Prop :=
  ∀ k x, (k, x) ∈ TMap.pairs m → k = 0 ∧ ∃ t, ti[0]? = some t ∧ x < t

theorem TrailOk.mono {ti n n' m} (h : TrailOk ti n m) (hn : n ≤ n') : TrailOk ti n' m := by
  intro k x hm
  have ⟨a, b⟩ := h k x hm
  exact ⟨by omega, b⟩

theorem TrailOk.push {ti n m} (h : TrailOk ti n m) : TrailOk (ti ++ [n]) (n + 1) m := by
  intro k x hm
  obtain ⟨a, t, b, c, d⟩ := h k x hm
  have hk : k < ti.length := by
    have := List.getElem?_eq_some_iff.mp b; exact this.1
  refine ⟨by omega, t, by rw [List.getElem?_append_left hk]; exact b, c, ?_⟩
  intro t' ht'
  by_cases hk1 : k + 1 < ti.length
  · rw [List.getElem?_append_left hk1] at ht'; exact d t' ht'
  · have e : k + 1 = ti.length := by omega
    rw [List.getElem?_append_right (by omega)] at ht'
    simp [e] at ht'; omega

theorem TrailOk.append {ti n m l xs} (h : TrailOk ti n m) (hl : l + 1 = ti.length)
    (hx : ∀ x ∈ xs, x < n ∧ ∀ t ∈ ti, t < x) : TrailOk ti n (appendAt m l xs) := by
  intro k x hm
  rw [pairs_appendAt] at hm
  rcases hm with hm | ⟨rfl, hm⟩
  · exact h k x hm
  · have ⟨a, b⟩ := hx x hm
    have hlt : k < ti.length := by omega
    refine ⟨a, ti[k], List.getElem?_eq_getElem hlt, b _ (List.getElem_mem hlt), ?_⟩
    intro t' ht'
    have : ti[k + 1]? = none := List.getElem?_eq_none (by omega)
    rw [this] at ht'; simp at ht'

theorem LeadOk.push {ti m} (n : Nat) (h : LeadOk ti m) : LeadOk (ti ++ [n]) m := by
  intro k x hm
  obtain ⟨a, t, b, c⟩ := h k x hm
  have hk : 0 < ti.length := (List.getElem?_eq_some_iff.mp b).1
  exact ⟨a, t, by rw [List.getElem?_append_left hk]; exact b, c⟩

/-- invariant of the loop at token index `n` -/
structure NInv (n : Nat) (st : St) : Prop where
  lt : ∀ t ∈ st.tokenIndices, t < n
  lastNone : st.lastTokenIdx = none → st.tokenIndices = []
  lastSome : ∀ l, st.lastTokenIdx = some l → l + 1 = st.tokenIndices.length
  pend : ∀ x ∈ st.pending, x < n ∧ ∀ t ∈ st.tokenIndices, t < x
  trail : TrailOk st.tokenIndices n st.trailing
  lead : LeadOk st.tokenIndices st.leading
  lwl : st.lastWasLinebreak = true → st.pending = []

theorem pend_snoc {n : Nat} {st : St} (h : NInv n st) :
    ∀ x ∈ st.pending ++ [n], x < n + 1 ∧ ∀ t ∈ st.tokenIndices, t < x := by
  intro x hx
  rw [List.mem_append] at hx
  rcases hx with hx | hx
  · have ⟨a, b⟩ := h.pend x hx; exact ⟨by omega, b⟩
  · simp at hx; subst hx; exact ⟨by omega, h.lt⟩

theorem NInv.attach {n : Nat} {st : St} (h : NInv n st) :
    (attach st).pending = [] ∧ (attach st).tokenIndices = st.tokenIndices ∧
    TrailOk st.tokenIndices n (attach st).trailing ∧
    (∀ k x, (k, x) ∈ TMap.pairs (attach st).leading → (k, x) ∈ TMap.pairs st.leading ∨ (st.tokenIndices = [] ∧ k = 0 ∧ x < n)) := by
  unfold Preparse.attach
  split
  · rename_i hp
    exact ⟨by simpa using hp, rfl, h.trail, fun k x hm => Or.inl hm⟩
  · rename_i hp
    have hp' : st.pending ≠ [] := by simpa using hp
    split
    · rename_i hc
      have hnone : st.lastTokenIdx = none := by
        simp only [Bool.or_eq_true] at hc
        rcases hc with hc | hc
        · exact absurd (h.lwl hc) hp'
        · simpa using hc
      have hti := h.lastNone hnone
      refine ⟨rfl, rfl, h.trail, ?_⟩
      intro k x hm
      rw [pairs_appendAt] at hm
      rcases hm with hm | ⟨hk, hm⟩
      · exact Or.inl hm
      · exact Or.inr ⟨hti, by simpa [hti] using hk, (h.pend x hm).1⟩
    · rename_i hc
      cases hl : st.lastTokenIdx with
      | none => exact absurd (by simp [hl]) hc
      | some l =>
        exact ⟨rfl, rfl, h.trail.append (h.lastSome l hl) h.pend, fun k x hm => Or.inl hm⟩

theorem NInv.step {n : Nat} {st : St} (h : NInv n st) (k : Kind) : NInv (n + 1) (step st n k) := by
  rcases kind_cases k with rfl | ⟨ht, hl⟩ | hs | rfl
  · cases hlast : st.lastTokenIdx with
    | none =>
      rw [step_lb_none st n hlast]
      exact ⟨fun t ht => by have := h.lt t ht; omega, fun _ => h.lastNone hlast, fun l hl => by simp [hlast] at hl,
        by simp, h.trail.mono (by omega), h.lead, fun _ => rfl⟩
    | some l =>
      rw [step_lb_some st n l hlast]
      refine ⟨fun t ht => by have := h.lt t ht; omega, fun hn => by simp [hlast] at hn, fun l' hl' => h.lastSome l' hl',
        by simp, ?_, h.lead, fun _ => rfl⟩
      exact (h.trail.mono (by omega)).append (h.lastSome l hlast) (pend_snoc h)
  · rw [step_trivia st n k ht hl]
    exact ⟨fun t ht => by have := h.lt t ht; omega, h.lastNone, h.lastSome, pend_snoc h, h.trail.mono (by omega), h.lead,
      fun hf => by simp at hf⟩
  · rw [step_syntax st n k hs]
    obtain ⟨a1, a2, a3, a4⟩ := h.attach
    refine ⟨?_, ?_, ?_, ?_, ?_, ?_, ?_⟩
    · intro t ht
      simp only [a2, List.mem_append, List.mem_singleton] at ht
      rcases ht with ht | rfl
      · have := h.lt t ht; omega
      · omega
    · intro hn; simp at hn
    · intro l hl; simp at hl; simp [a2, hl]
    · simp [a1]
    · simpa [a2] using a3.push
    · intro k' x hm
      rcases a4 k' x hm with hm' | ⟨hti, rfl, hx⟩
      · simpa [a2] using (h.lead.push n) k' x hm'
      · exact ⟨rfl, n, by simp [a2, hti], hx⟩
    · intro hf; simp at hf
  · rw [step_eof]
    exact ⟨fun t ht => by have := h.lt t ht; omega, h.lastNone, h.lastSome,
      fun x hx => by have ⟨a, b⟩ := h.pend x hx; exact ⟨by omega, b⟩, h.trail.mono (by omega), h.lead, h.lwl⟩

theorem NInv.loop : ∀ (ks : List Kind) (n : Nat) (st : St), NInv n st → NInv (n + ks.length) (loop st n ks) := by
  intro ks
  induction ks with
  | nil => intro n st h; simpa [Preparse.loop] using h
  | cons k ks ih =>
    intro n st h
    have := ih (n + 1) _ (h.step k)
    simp only [Preparse.loop, List.length_cons]
    rw [show n + (ks.length + 1) = n + 1 + ks.length by omega]
    exact this

theorem NInv.init : NInv 0 ({} : St) :=
  ⟨by simp, fun _ => rfl, by simp, by simp, by intro k x h; simp [TMap.pairs] at h, by intro k x h; simp [TMap.pairs] at h,
   by simp⟩

theorem NInv.finish {n : Nat} {st : St} (h : NInv n st) :
    TrailOk st.tokenIndices n (finish st).trailing ∧ (finish st).leading = st.leading := by
  unfold Preparse.finish
  split
  · exact ⟨h.trail, rfl⟩
  · split
    · rename_i l hl
      exact ⟨h.trail.append (h.lastSome l hl) h.pend, rfl⟩
    · exact ⟨h.trail, rfl⟩

/-- result-level statement of the neighbour property -/
theorem preparse_neighbour (ks : List Kind) :
    TrailOk (preparse ks).tokenIndices ks.length (preparse ks).trailing ∧
    LeadOk (preparse ks).tokenIndices (preparse ks).leading := by
  have h := NInv.loop ks 0 {} NInv.init
  have ⟨a, b⟩ := h.finish
  simp only [Nat.zero_add] at a
  simp only [preparse, finish_tokenIndices]
  exact ⟨a, by rw [b]; exact h.lead⟩

theorem pairwise_getElem_mono {l : List Nat} (h : l.Pairwise (· < ·)) (a b : Nat) (ha : a < l.length) (hb : b < l.length)
    (hab : a ≤ b) : l[a] ≤ l[b] := by
  by_cases e : a = b
  · subst e; exact Nat.le_refl _
  · exact Nat.le_of_lt ((List.pairwise_iff_getElem.mp h) a b ha hb (by omega))

/-- no syntax token lies strictly between the owner of a trailing trivia token and that trivia token -/
theorem trailing_no_syntax_between (ks : List Kind) (k x : Nat) (hm : (k, x) ∈ TMap.pairs (preparse ks).trailing) :
    ∃ t, (preparse ks).tokenIndices[k]? = some t ∧ t < x ∧ x < ks.length ∧
      ∀ j, t < j → j ≤ x → isSyntax (ks.getD j Kind.Eof) = false := by
  obtain ⟨hx, t, ht, htx, hnext⟩ := (preparse_neighbour ks).1 k x hm
  refine ⟨t, ht, htx, hx, ?_⟩
  intro j h1 h2
  cases hs : isSyntax (ks.getD j Kind.Eof) with
  | false => rfl
  | true =>
    exfalso
    have hpw : (preparse ks).tokenIndices.Pairwise (· < ·) := by rw [preparse_tokenIndices]; exact syntaxIndices_pairwise ks 0
    have hj : j ∈ (preparse ks).tokenIndices := by
      rw [preparse_tokenIndices, mem_syntaxIndices]; exact ⟨by omega, by omega, by simpa using hs⟩
    obtain ⟨m, hm1, hm2⟩ := List.mem_iff_getElem.mp hj
    obtain ⟨hk, hkt⟩ := List.getElem?_eq_some_iff.mp ht
    by_cases hmk : m ≤ k
    · have := pairwise_getElem_mono hpw m k hm1 hk hmk
      omega
    · have hk1 : k + 1 < (preparse ks).tokenIndices.length := by omega
      have h3 := hnext _ (List.getElem?_eq_getElem hk1)
      have := pairwise_getElem_mono hpw (k + 1) m hk1 hm1 (by omega)
      omega

/-- leading trivia belong to the first syntax token and no syntax token lies between them and it -/
theorem leading_no_syntax_before (ks : List Kind) (k x : Nat) (hm : (k, x) ∈ TMap.pairs (preparse ks).leading) :
    k = 0 ∧ ∃ t, (preparse ks).tokenIndices[0]? = some t ∧ x < t ∧
      ∀ j, x ≤ j → j < t → isSyntax (ks.getD j Kind.Eof) = false := by
  obtain ⟨hk, t, ht, hxt⟩ := (preparse_neighbour ks).2 k x hm
  refine ⟨hk, t, ht, hxt, ?_⟩
  intro j h1 h2
  cases hs : isSyntax (ks.getD j Kind.Eof) with
  | false => rfl
  | true =>
    exfalso
    have hpw : (preparse ks).tokenIndices.Pairwise (· < ·) := by rw [preparse_tokenIndices]; exact syntaxIndices_pairwise ks 0
    obtain ⟨h0, h0t⟩ := List.getElem?_eq_some_iff.mp ht
    have htmem : t ∈ (preparse ks).tokenIndices := List.mem_of_getElem? ht
    have htl : t < ks.length := by
      rw [preparse_tokenIndices, mem_syntaxIndices] at htmem; omega
    have hj : j ∈ (preparse ks).tokenIndices := by
      rw [preparse_tokenIndices, mem_syntaxIndices]; exact ⟨by omega, by omega, by simpa using hs⟩
    obtain ⟨m, hm1, hm2⟩ := List.mem_iff_getElem.mp hj
    have := pairwise_getElem_mono hpw 0 m h0 hm1 (by omega)
    omega

end Mimium.Preparse
