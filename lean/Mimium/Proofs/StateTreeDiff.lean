import Mimium.Proofs.StateTree
/-! Main invariant of `build_patches_recursive`: the patch list is sorted (in source *and* destination
order, ranges pairwise disjoint) and inside both nodes; every patch joins two matching subtrees. -/
namespace Mimium.StateTree

/-- `p` lies completely before `q`, in the old storage and in the new storage -/
def Patch.Before (p q : Patch) : Prop := p.src + p.size ≤ q.src ∧ p.dst + p.size ≤ q.dst

def Sorted (ps : List Patch) : Prop := ps.Pairwise Patch.Before

def Within (a b : Nat) (ps : List Patch) : Prop := ∀ p ∈ ps, p.src + p.size ≤ a ∧ p.dst + p.size ≤ b

/-- `sub` is the subtree of `root` whose first word is at relative address `addr` -/
inductive SubAt : Sk → Nat → Sk → Prop
  | root (s : Sk) : SubAt s 0 s
  | child {cs : List Sk} {i : Nat} {a : Nat} {s : Sk} (h : i < cs.length) :
      SubAt cs[i] a s → SubAt (.fn cs) (offsetOf cs i + a) s

/-- every patch copies a whole subtree of the old layout onto a whole subtree of the new layout of matching shape -/
def Shaped (o n : Sk) (ps : List Patch) : Prop :=
  ∀ p ∈ ps, ∃ so sn, SubAt o p.src so ∧ SubAt n p.dst sn ∧ so.matches sn = true ∧ p.size = so.size ∧ p.size = sn.size

structure Good (o n : Sk) (ps : List Patch) : Prop where
  sorted : Sorted ps
  within : Within o.size n.size ps
  shaped : Shaped o n ps

theorem sorted_map_shift (a b : Nat) {ps : List Patch} (h : Sorted ps) : Sorted (ps.map (Patch.shift a b)) := by
  unfold Sorted at *
  rw [List.pairwise_map]
  refine h.imp ?_
  intro p q hpq
  simp only [Patch.Before, Patch.shift] at *
  omega

theorem collect_good (ocs ncs : List Sk) (tbl : List (List (List Patch))) :
    ∀ (cm : List (Nat × Nat)) (i0 j0 : Nat),
      IncFrom ocs.length ncs.length i0 j0 cm →
      (∀ i j, (hi : i < ocs.length) → (hj : j < ncs.length) → Good ocs[i] ncs[j] (tblGet tbl i j)) →
      Sorted (collect ocs ncs tbl cm) ∧
      (∀ p ∈ collect ocs ncs tbl cm, offsetOf ocs i0 ≤ p.src ∧ offsetOf ncs j0 ≤ p.dst ∧
          p.src + p.size ≤ sizeL ocs ∧ p.dst + p.size ≤ sizeL ncs) ∧
      Shaped (.fn ocs) (.fn ncs) (collect ocs ncs tbl cm) := by
  intro cm
  induction cm with
  | nil => intro i0 j0 _ _; simp [collect, Sorted, Shaped]
  | cons ij rest ih =>
    obtain ⟨i, j⟩ := ij
    intro i0 j0 hinc hgood
    simp only [IncFrom] at hinc
    obtain ⟨hi0, hj0, hi, hj, hrest⟩ := hinc
    obtain ⟨ihS, ihB, ihSh⟩ := ih (i+1) (j+1) hrest hgood
    have g := hgood i j hi hj
    have hoi := offsetOf_succ ocs i hi
    have hnj := offsetOf_succ ncs j hj
    have hoi' := offsetOf_succ_le ocs i hi
    have hnj' := offsetOf_succ_le ncs j hj
    have hmi := offsetOf_mono ocs hi0
    have hmj := offsetOf_mono ncs hj0
    simp only [collect]
    refine ⟨?_, ?_, ?_⟩
    · unfold Sorted
      rw [List.pairwise_append]
      refine ⟨sorted_map_shift _ _ g.sorted, ihS, ?_⟩
      intro a ha b hb
      rw [List.mem_map] at ha
      obtain ⟨p, hp, rfl⟩ := ha
      have w := g.within p hp
      have bb := ihB b hb
      simp only [Patch.Before, Patch.shift]
      omega
    · intro p hp
      rw [List.mem_append] at hp
      rcases hp with hp | hp
      · rw [List.mem_map] at hp
        obtain ⟨q, hq, rfl⟩ := hp
        have w := g.within q hq
        simp only [Patch.shift]
        omega
      · have bb := ihB p hp
        have m1 := offsetOf_mono ocs (show i0 ≤ i + 1 by omega)
        have m2 := offsetOf_mono ncs (show j0 ≤ j + 1 by omega)
        omega
    · intro p hp
      rw [List.mem_append] at hp
      rcases hp with hp | hp
      · rw [List.mem_map] at hp
        obtain ⟨q, hq, rfl⟩ := hp
        obtain ⟨so, sn, h1, h2, h3, h4, h5⟩ := g.shaped q hq
        refine ⟨so, sn, ?_, ?_, h3, h4, h5⟩
        · have := SubAt.child (cs := ocs) hi h1
          simpa [Patch.shift, Nat.add_comm] using this
        · have := SubAt.child (cs := ncs) hj h2
          simpa [Patch.shift, Nat.add_comm] using this
      · exact ihSh p hp

theorem good_single (o n : Sk) (h : o.matches n = true) : Good o n [⟨0, 0, o.size⟩] := by
  have hs := matches_size o n h
  refine ⟨by simp [Sorted], ?_, ?_⟩
  · intro p hp; simp at hp; subst hp; simp; omega
  · intro p hp; simp at hp; subst hp
    exact ⟨o, n, SubAt.root o, SubAt.root n, h, rfl, hs⟩

theorem good_nil (o n : Sk) : Good o n [] :=
  ⟨by simp [Sorted], by intro p hp; simp at hp, by intro p hp; simp at hp⟩

theorem good_of_sublist {o n : Sk} {ps qs : List Patch} (h : qs.Sublist ps) (g : Good o n ps) : Good o n qs :=
  ⟨g.sorted.sublist h, fun p hp => g.within p (h.subset hp), fun p hp => g.shaped p (h.subset hp)⟩

mutual
theorem diff_good : ∀ (o n : Sk), Good o n (diff o n)
  | .delay a, n => by
    unfold diff; split
    · rename_i h; exact good_single _ _ h
    · exact good_nil _ _
  | .mem a, n => by
    unfold diff; split
    · rename_i h; exact good_single _ _ h
    · exact good_nil _ _
  | .feed a, n => by
    unfold diff; split
    · rename_i h; exact good_single _ _ h
    · exact good_nil _ _
  | .fn ocs, n => by
    unfold diff; split
    · rename_i h; simpa using good_single _ _ h
    · cases n with
      | fn ncs =>
        simp only
        apply good_of_sublist (dedup_sublist _)
        have hall := diffL_good ocs
        have hinc := lcs_in_order ocs.length ncs.length (fun i j => (tblGet (diffTbl ocs ncs) i j).length)
        obtain ⟨s, b, sh⟩ := collect_good ocs ncs (diffTbl ocs ncs) _ 0 0 hinc (by
          intro i j hi hj
          rw [tblGet_diffTbl ocs ncs i j hi hj]
          exact hall i hi _)
        refine ⟨s, ?_, sh⟩
        intro p hp
        have := b p hp
        simp only [size_fn]; omega
      | delay _ => exact good_nil _ _
      | mem _ => exact good_nil _ _
      | feed _ => exact good_nil _ _
theorem diffL_good : ∀ (ocs : List Sk) (i : Nat) (hi : i < ocs.length) (n : Sk), Good ocs[i] n (diff ocs[i] n)
  | [], i, hi, _ => by simp at hi
  | o :: os, 0, _, n => by simpa using diff_good o n
  | o :: os, i+1, hi, n => by simpa using diffL_good os i (by simpa using hi) n
end

end Mimium.StateTree
