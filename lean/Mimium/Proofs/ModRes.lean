import Mimium.Model.ModRes
/-! Helper lemmas for C17 (module privacy and name resolution). -/
namespace Mimium.ModRes

/-! ### association lists -/

theorem get?_mem {α : Type} : ∀ {l : List (Sym × α)} {s : Sym} {v : α}, get? l s = some v → (s, v) ∈ l
  | [], _, _, h => by simp [get?] at h
  | (k, w) :: rest, s, v, h => by
    unfold get? at h
    split at h
    · rename_i hk
      simp only [Option.some.injEq] at h
      subst hk; subst h
      exact List.mem_cons_self
    · exact List.mem_cons_of_mem _ (get?_mem h)

theorem get?_none_of_keys {α : Type} {l : List (Sym × α)} {s : Sym} (h : ∀ p ∈ l, p.1 ≠ s) : get? l s = none := by
  cases hg : get? l s with
  | none => rfl
  | some v => exact absurd rfl (h _ (get?_mem hg))

theorem get?_append {α : Type} (l₁ l₂ : List (Sym × α)) (s : Sym) :
    get? (l₁ ++ l₂) s = match get? l₁ s with | some v => some v | none => get? l₂ s := by
  induction l₁ with
  | nil => simp [get?]
  | cons p rest ih =>
    obtain ⟨k, w⟩ := p
    simp only [List.cons_append, get?]
    split
    · rfl
    · exact ih

/-- with pairwise distinct keys, membership determines the lookup -/
theorem get?_of_mem_nodup {α : Type} : ∀ {l : List (Sym × α)} {s : Sym} {v : α},
    (l.map (·.1)).Nodup → (s, v) ∈ l → get? l s = some v
  | [], _, _, _, h => by simp at h
  | (k, w) :: rest, s, v, hnd, h => by
    simp only [List.map_cons, List.nodup_cons] at hnd
    unfold get?
    rcases List.mem_cons.mp h with heq | hmem
    · simp only [Prod.mk.injEq] at heq
      simp [heq.1, heq.2]
    · split
      · rename_i hk
        subst hk
        exact absurd (List.mem_map.mpr ⟨(k, v), hmem, rfl⟩) hnd.1
      · exact get?_of_mem_nodup hnd.2 hmem

/-! ### `resolve_qualified_path` -/

theorem resolveQualifiedPath_cases (segs cur : List Name) (ex : Sym → Bool) :
    resolveQualifiedPath segs segs cur ex = (segs, segs) ∨
    (cur ≠ [] ∧ resolveQualifiedPath segs segs cur ex = (cur ++ segs, cur ++ segs)) := by
  unfold resolveQualifiedPath
  split
  · exact Or.inl rfl
  · split
    · rename_i h
      simp only [Bool.and_eq_true, Bool.not_eq_true', List.isEmpty_eq_false_iff] at h
      exact Or.inr ⟨h.1, rfl⟩
    · exact Or.inl rfl

theorem resolveQualifiedPath_fst_eq_snd (segs cur : List Name) (ex : Sym → Bool) :
    (resolveQualifiedPath segs segs cur ex).1 = (resolveQualifiedPath segs segs cur ex).2 := by
  rcases resolveQualifiedPath_cases segs cur ex with h | ⟨_, h⟩ <;> rw [h]

theorem resolveQualifiedPath_length (segs cur : List Name) (ex : Sym → Bool) :
    segs.length ≤ (resolveQualifiedPath segs segs cur ex).1.length := by
  rcases resolveQualifiedPath_cases segs cur ex with h | ⟨_, h⟩ <;> rw [h] <;> simp

/-! ### alias chains -/

theorem aliasChainGo_of_none (alias : List (Sym × Sym)) (fuel : Nat) (visited : List Sym) (s : Sym)
    (h : get? alias s = none) : aliasChainGo alias fuel visited s = s := by
  cases fuel with
  | zero => rfl
  | succ n =>
    unfold aliasChainGo
    split
    · rfl
    · simp [h]

theorem aliasChain_of_none (alias : List (Sym × Sym)) (s : Sym) (h : get? alias s = none) :
    aliasChain alias s = s := aliasChainGo_of_none alias _ _ s h

/-! ### the fuel of `aliasChainGo` is never exhausted (the Rust `while` loop ends by itself) -/

theorem filter_length_mono {K : List Sym} {p q : Sym → Bool} (hqp : ∀ k, q k = true → p k = true) :
    (K.filter q).length ≤ (K.filter p).length := by
  induction K with
  | nil => simp
  | cons k rest ih =>
    simp only [List.filter_cons]
    cases hq : q k with
    | true => simp [hqp k hq]; exact ih
    | false =>
      simp only [Bool.false_eq_true, ↓reduceIte]
      split
      · simp; omega
      · exact ih

theorem filter_length_lt {K : List Sym} {p q : Sym → Bool} (hqp : ∀ k, q k = true → p k = true) {a : Sym}
    (ha : a ∈ K) (hpa : p a = true) (hqa : q a = false) : (K.filter q).length < (K.filter p).length := by
  induction K with
  | nil => simp at ha
  | cons k rest ih =>
    have mono := filter_length_mono (K := rest) hqp
    simp only [List.filter_cons]
    rcases List.mem_cons.mp ha with rfl | hmem
    · simp [hpa, hqa]; omega
    · have := ih hmem
      cases hq : q k with
      | true => simp [hqp k hq]; exact this
      | false =>
        simp only [Bool.false_eq_true, ↓reduceIte]
        split
        · simp; omega
        · exact this

/-- keys of the alias map that the loop has not visited yet -/
def keysLeft (alias : List (Sym × Sym)) (visited : List Sym) : Nat :=
  ((alias.map (·.1)).filter (fun k => !visited.contains k)).length

theorem aliasChainGo_succ (alias : List (Sym × Sym)) : ∀ (fuel : Nat) (visited : List Sym) (cur : Sym),
    keysLeft alias visited < fuel →
    aliasChainGo alias (fuel + 1) visited cur = aliasChainGo alias fuel visited cur := by
  intro fuel
  induction fuel with
  | zero => intro visited cur h; omega
  | succ n ih =>
    intro visited cur h
    rw [aliasChainGo, aliasChainGo]
    split
    · rfl
    · rename_i hnv
      split
      · rename_i next hg
        split
        · apply ih
          have hk : cur ∈ alias.map (·.1) := List.mem_map.mpr ⟨(cur, next), get?_mem hg, rfl⟩
          have : keysLeft alias (cur :: visited) < keysLeft alias visited := by
            unfold keysLeft
            apply filter_length_lt (a := cur) _ hk
            · simpa using hnv
            · simp
            · intro k hk'
              simp only [List.contains_cons, Bool.not_eq_true', Bool.or_eq_false_iff] at hk'
              have := hk'.2
              simpa using this
          omega
        · rfl
      · rfl

theorem aliasChainGo_add (alias : List (Sym × Sym)) (fuel d : Nat) (visited : List Sym) (cur : Sym)
    (h : keysLeft alias visited < fuel) :
    aliasChainGo alias (fuel + d) visited cur = aliasChainGo alias fuel visited cur := by
  induction d with
  | zero => rfl
  | succ d ih =>
    rw [← Nat.add_assoc, aliasChainGo_succ alias (fuel + d) visited cur (by omega)]
    exact ih

theorem keysLeft_le (alias : List (Sym × Sym)) (visited : List Sym) : keysLeft alias visited ≤ alias.length := by
  unfold keysLeft
  have := List.length_filter_le (fun k => !visited.contains k) (alias.map (·.1))
  simpa using this

/-! ### the hierarchy test -/

theorem isWithinHierarchy_prefix {cur p : List Name} (h : isWithinHierarchy cur p = true) :
    p.dropLast <+: cur := by
  unfold isWithinHierarchy at h
  split at h
  · simp at h
  · exact List.isPrefixOf_iff_prefix.mp h

/-- no error from `privErr` on a key that the visibility map marks private means: same hierarchy -/
theorem privErr_nil {cur : List Name} {vis : List (Sym × Bool)} {key : Sym} {path : List Name}
    (h : privErr cur vis key path = []) (hv : get? vis key = some false) : path.dropLast <+: cur := by
  unfold privErr at h
  rw [hv] at h
  simp only at h
  split at h
  · simp at h
  · rename_i hh
    simp only [Bool.not_eq_true', Bool.not_eq_false] at hh
    exact isWithinHierarchy_prefix hh

/-! ### `convert_var` / `convert_qualified_var` against the visibility map (any `ModuleInfo`) -/

theorem mem_relativeCandidates {cur : List Name} {name r : Sym} (h : r ∈ relativeCandidates cur name) :
    ∃ k, k < cur.length ∧ r = cur.take (k + 1) ++ name := by
  unfold relativeCandidates at h
  simp only [List.mem_map, List.mem_reverse, List.mem_range] at h
  obtain ⟨k, hk, rfl⟩ := h
  exact ⟨k, hk, rfl⟩

/-- Whatever `convert_var` returns without an error is, as far as the *visibility map* knows, not private,
or lives in an enclosing module of the use site, or is the plain name itself. -/
theorem convertVar_sound (c : RCtx) (x : Name) (sym : Sym)
    (h : convertVar c [x] = (sym, [])) (hv : get? c.info.vis sym = some false) (hl : 2 ≤ sym.length) :
    sym.dropLast <+: c.cur := by
  unfold convertVar at h
  split at h
  · simp only [Prod.mk.injEq] at h
    rw [← h.1] at hl; simp at hl
  · split at h
    · rename_i r hr
      simp only [Prod.mk.injEq, and_true] at h
      subst h
      split at hr
      · simp at hr
      · obtain ⟨k, hk, rfl⟩ := mem_relativeCandidates (List.mem_of_find?_eq_some hr)
        have : (List.take (k + 1) c.cur ++ [x]).dropLast = List.take (k + 1) c.cur := by simp
        rw [this]
        exact List.take_prefix _ _
    · split at h
      · simp only [Prod.mk.injEq] at h
        obtain ⟨h1, h2⟩ := h
        subst h1
        exact privErr_nil h2 hv
      · split at h
        · rename_i m hm
          simp only [Prod.mk.injEq, and_true] at h
          subst h
          unfold resolveThroughWildcards at hm
          obtain ⟨base, _, hb⟩ := List.exists_of_findSome?_eq_some hm
          simp only at hb
          split at hb
          · split at hb
            · simp only [Option.some.injEq] at hb
              subst hb
              rename_i hvt
              rw [hvt] at hv; simp at hv
            · simp at hb
            · simp only [Option.some.injEq] at hb
              subst hb
              rename_i hvn
              rw [hvn] at hv; simp at hv
          · simp at hb
        · simp only [Prod.mk.injEq] at h
          rw [← h.1] at hl; simp at hl

/-- `convert_qualified_var` checks the *resolved* name, returns the end of its alias chain, and — since /repo 3b64798 —
when the chain moved and the resolved name has a visibility entry, checks the end of the chain as well. -/
theorem convertQVar_sound (c : RCtx) (segs : List Name) (sym : Sym) (h2 : 2 ≤ segs.length)
    (h : convertQVar c segs = (sym, [])) :
    let r := (resolveQualifiedPath segs segs c.cur c.known).1
    sym = aliasChain c.info.alias r ∧ (get? c.info.vis r = some false → r.dropLast <+: c.cur) ∧
    (sym ≠ r → (get? c.info.vis r).isSome → get? c.info.vis sym = some false → 2 ≤ sym.length →
      sym.dropLast <+: c.cur) := by
  intro r
  unfold convertQVar at h
  simp only [Prod.mk.injEq] at h
  obtain ⟨h1, hE⟩ := h
  have hlen : 1 < (resolveQualifiedPath segs segs c.cur c.known).2.length := by
    rw [← resolveQualifiedPath_fst_eq_snd]
    have := resolveQualifiedPath_length segs c.cur c.known
    omega
  rw [if_pos hlen, ← resolveQualifiedPath_fst_eq_snd, h1] at hE
  refine ⟨h1.symm, ?_, ?_⟩
  · intro hv
    rw [show get? c.info.vis (resolveQualifiedPath segs segs c.cur c.known).1 = some false from hv] at hE
    simp only at hE
    split at hE
    · simp at hE
    · rename_i hh
      simp only [Bool.not_false, Bool.true_and, Bool.not_eq_true', Bool.not_eq_false] at hh
      exact isWithinHierarchy_prefix hh
  · intro hne hsome hv hl
    obtain ⟨pub, hpub⟩ := Option.isSome_iff_exists.mp hsome
    rw [show get? c.info.vis (resolveQualifiedPath segs segs c.cur c.known).1 = some pub from hpub] at hE
    simp only at hE
    split at hE
    · simp at hE
    · rw [if_pos ⟨hne, hl⟩] at hE
      exact privErr_nil hE hv

/-- invariant of every `ModuleInfo` the flattening builds: an alias key with a module part is a re-exported name, and
`register_alias` writes its visibility entry together with it (nothing ever removes an entry) -/
def AliasKeysVis (i : Info) : Prop := ∀ k : Sym, 2 ≤ k.length → (get? i.alias k).isSome → (get? i.vis k).isSome

/-- under that invariant the member a path reference *returns* is checked, whether or not the alias chain moved -/
theorem convertQVar_sound_target (c : RCtx) (hinv : AliasKeysVis c.info) (segs : List Name) (sym : Sym)
    (h2 : 2 ≤ segs.length) (h : convertQVar c segs = (sym, [])) (hv : get? c.info.vis sym = some false)
    (hl : 2 ≤ sym.length) : sym.dropLast <+: c.cur := by
  obtain ⟨hs, hp, ht⟩ := convertQVar_sound c segs sym h2 h
  have hr2 : 2 ≤ (resolveQualifiedPath segs segs c.cur c.known).1.length := by
    have := resolveQualifiedPath_length segs c.cur c.known; omega
  by_cases hne : sym = (resolveQualifiedPath segs segs c.cur c.known).1
  · rw [hne] at hv ⊢
    exact hp hv
  · apply ht hne _ hv hl
    apply hinv _ hr2
    cases hg : get? c.info.alias (resolveQualifiedPath segs segs c.cur c.known).1 with
    | some t => rfl
    | none => exact absurd (hs.trans (aliasChain_of_none _ _ hg)) hne

/-! ### `ModuleInfo` of a tree without re-exports -/

theorem registerAlias_private (i : Info) (pre : List Name) (a : Name) (m : Sym) :
    (registerAlias i false pre a m).vis = i.vis ∧
    (registerAlias i false pre a m).alias = ([a], m) :: i.alias := by
  simp [registerAlias]

/-- invariant: every alias key is a plain identifier -/
def AliasKeysPlain (i : Info) : Prop := ∀ p ∈ i.alias, p.1.length = 1

theorem processUse_private (path : List Name) (t : UseTarget) (pre : List Name) (i : Info)
    (hk : AliasKeysPlain i) :
    (processUse false path t pre i).vis = i.vis ∧ AliasKeysPlain (processUse false path t pre i) := by
  unfold processUse
  cases t with
  | single =>
    simp only
    split
    · refine ⟨(registerAlias_private ..).1, ?_⟩
      intro p hp
      rw [(registerAlias_private ..).2] at hp
      rcases List.mem_cons.mp hp with rfl | hp
      · rfl
      · exact hk p hp
    · exact ⟨rfl, hk⟩
  | wildcard => exact ⟨rfl, hk⟩
  | multiple names =>
    simp only
    induction names generalizing i with
    | nil => exact ⟨rfl, hk⟩
    | cons n rest ih =>
      simp only [List.foldl_cons]
      have hk' : AliasKeysPlain (registerAlias i false pre n (resolveUseMangled (path ++ [n]) pre i)) := by
        intro p hp
        rw [(registerAlias_private ..).2] at hp
        rcases List.mem_cons.mp hp with rfl | hp
        · rfl
        · exact hk p hp
      obtain ⟨h1, h2⟩ := ih _ hk'
      exact ⟨h1.trans (registerAlias_private ..).1, h2⟩

theorem lower_noPubUse (evs : List Ev) (h : noPubUse evs = true) (i : Info) (hk : AliasKeysPlain i) :
    (evs.foldl step i).vis = (fnDecls evs).reverse ++ i.vis ∧ AliasKeysPlain (evs.foldl step i) := by
  induction evs generalizing i with
  | nil => exact ⟨by simp [fnDecls], hk⟩
  | cons ev rest ih =>
    simp only [List.foldl_cons]
    cases ev with
    | fn pre pub x ps b =>
      have hk' : AliasKeysPlain (step i (.fn pre pub x ps b)) := hk
      obtain ⟨h1, h2⟩ := ih (by simpa [noPubUse] using h) _ hk'
      refine ⟨?_, h2⟩
      rw [h1]
      simp [fnDecls, step]
    | modOpen pre x =>
      have hk' : AliasKeysPlain (step i (.modOpen pre x)) := hk
      obtain ⟨h1, h2⟩ := ih (by simpa [noPubUse] using h) _ hk'
      exact ⟨by rw [h1]; simp [fnDecls, step], h2⟩
    | letS pre pub x e =>
      have hk' : AliasKeysPlain (step i (.letS pre pub x e)) := hk
      obtain ⟨h1, h2⟩ := ih (by simpa [noPubUse] using h) _ hk'
      exact ⟨by rw [h1]; simp [fnDecls, step], h2⟩
    | use pre pub path t =>
      simp only [noPubUse, Bool.and_eq_true, Bool.not_eq_true'] at h
      obtain ⟨hp, hrest⟩ := h
      subst hp
      -- the loaded-module bookkeeping touches neither `vis` nor `alias`
      have key : ∀ j : Info, j.vis = i.vis → j.alias = i.alias →
          (processUse false path t pre j).vis = i.vis ∧ AliasKeysPlain (processUse false path t pre j) := by
        intro j hv ha
        have hkj : AliasKeysPlain j := by intro p hp; rw [ha] at hp; exact hk p hp
        obtain ⟨a, b⟩ := processUse_private path t pre j hkj
        exact ⟨a.trans hv, b⟩
      have hstep : (step i (.use pre false path t)).vis = i.vis ∧ AliasKeysPlain (step i (.use pre false path t)) := by
        unfold step
        simp only
        split
        · split
          · exact key _ rfl rfl
          · exact key _ rfl rfl
        · exact key _ rfl rfl
      obtain ⟨h1, h2⟩ := ih hrest _ hstep.2
      exact ⟨by rw [h1, hstep.1]; simp [fnDecls], h2⟩

theorem lowerInfo_noPubUse (evs : List Ev) (h : noPubUse evs = true) :
    (lowerInfo evs).vis = (fnDecls evs).reverse ∧ AliasKeysPlain (lowerInfo evs) := by
  have := lower_noPubUse evs h {} (by intro p hp; simp at hp)
  simpa [lowerInfo] using this

/-- in a tree without re-exports and without duplicate definitions the visibility map *is* the declaration -/
theorem vis_of_decl (evs : List Ev) (h : noPubUse evs = true) (hnd : ((fnDecls evs).map (·.1)).Nodup)
    {sym : Sym} {b : Bool} (hm : (sym, b) ∈ fnDecls evs) : get? (lowerInfo evs).vis sym = some b := by
  rw [(lowerInfo_noPubUse evs h).1]
  apply get?_of_mem_nodup
  · rw [List.map_reverse, List.Nodup, List.pairwise_reverse]
    exact hnd.imp (fun h => Ne.symm h)
  · exact List.mem_reverse.mpr hm

theorem aliasChain_id_of_plain {i : Info} (hk : AliasKeysPlain i) {s : Sym} (hs : 2 ≤ s.length) :
    aliasChain i.alias s = s := by
  apply aliasChain_of_none
  apply get?_none_of_keys
  intro p hp heq
  have := hk p hp
  rw [heq] at this
  omega

end Mimium.ModRes
