import Mimium.Proofs.MirStateBlock
/-! From one block to all runs of all checked functions (induction on the block fuel, then on the call depth). -/
namespace Mimium.Mir
open Mimium.StateMachine Mimium.Layout Mimium.StateTree Mimium.RustGen

theorem allBlocks_get (p : Nat → List Ins → Bool) : ∀ (bs : List (List Ins)) (i j : Nat) (blk : List Ins),
    allBlocks p i bs = true → bs[j]? = some blk → p (i + j) blk = true := by
  intro bs
  induction bs with
  | nil => intro i j blk _ h; simp at h
  | cons b bs ih =>
    intro i j blk hall hj
    simp only [allBlocks, Bool.and_eq_true] at hall
    cases j with
    | zero =>
      simp only [List.getElem?_cons_zero, Option.some.injEq] at hj
      subst hj
      exact hall.1
    | succ j =>
      simp only [List.getElem?_cons_succ] at hj
      have := ih (i + 1) j blk hall.2 hj
      rwa [show i + 1 + j = i + (j + 1) by omega] at this

theorem runBlocks_sound {P : Prog} {ok : List Nat} {callF : CallF} (hspec : CallSpec P ok callF) (f : Fn) (cert : Cert)
    (hok : stateOkFn P ok f cert = true) (b : Nat) (tr0 : List Access) :
    ∀ (n bb pred : Nat) (s : MSt) (a : Abs), cert[bb]? = some (some a) → Rel b tr0 (expectedTrace f.sk 0) a s →
      ∀ out s', runBlocksM callF P f n bb pred s = .ret (.ok (out, s')) →
        s'.tr = tr0 ++ (expectedTrace f.sk 0).map (shiftAcc b) ∧ s'.st.pos = b := by
  intro n
  induction n with
  | zero => intro bb pred s a _ _ out s' h; simp [runBlocksM] at h
  | succ n ih =>
    intro bb pred s a hcert hrel out s' h
    simp only [runBlocksM] at h
    cases hb : f.blocks[bb]? with
    | none => simp [hb] at h
    | some blk =>
      simp only [hb] at h
      simp only [stateOkFn, Bool.and_eq_true] at hok
      have hblk := allBlocks_get _ f.blocks 0 bb blk hok.2 hb
      simp only [Nat.zero_add, hcert] at hblk
      have hpost := absBlock_sound hspec b tr0 (expectedTrace f.sk 0) f.arms cert bb (f.preds.getD bb []) blk none a pred s
        hblk hrel (lcOk_none _)
      cases hx : execBlockM callF P f.arms (f.preds.getD bb []) bb blk pred s with
      | next bb' pred' s1 =>
        simp only [hx] at h hpost
        obtain ⟨a', hc', hr'⟩ := hpost
        exact ih bb' pred' s1 a' hc' hr' out s' h
      | ret r =>
        simp only [hx, OutM.ret.injEq] at h hpost
        subst h
        exact hpost
      | err e => simp only [hx] at h; cases h

/-- every checked function, at every call depth, does to the storage what its layout says -/
theorem runFn_sound {P : Prog} {ok : List Nat}
    (hset : ∀ g ∈ ok, ∃ f cert, P.fns[g]? = some f ∧ stateOkFn P ok f cert = true) :
    ∀ n, CallSpec P ok (runFn P n) := by
  intro n
  induction n with
  | zero => intro g _ ws clo glob st tr out glob' st' tr' h; simp [runFn] at h
  | succ n ih =>
    intro g hg ws clo glob st tr out glob' st' tr' h
    obtain ⟨f, cert, hf, hok⟩ := hset g hg
    refine ⟨f, hf, ?_⟩
    simp only [runFn, hf] at h
    have h0 : cert[0]? = some (some ⟨0, 0⟩) := by
      simp only [stateOkFn, Bool.and_eq_true] at hok
      exact (certIs_iff _ _ _).mp hok.1
    have hrel : Rel st.pos tr (expectedTrace f.sk 0) ⟨0, 0⟩
        ⟨(enterFrame f g clo glob ws).1, (enterFrame f g clo glob ws).2, st, tr⟩ := ⟨by simp, by simp⟩
    have key := runBlocks_sound ih f cert hok st.pos tr (f.blocks.length + 1) 0 0 _ ⟨0, 0⟩ h0 hrel
    cases hx : runBlocksM (runFn P n) P f (f.blocks.length + 1) 0 0
        ⟨(enterFrame f g clo glob ws).1, (enterFrame f g clo glob ws).2, st, tr⟩ with
    | ret r =>
      cases r with
      | error e => simp [hx] at h
      | ok v =>
        obtain ⟨o, s1⟩ := v
        simp only [hx, Except.ok.injEq, Prod.mk.injEq] at h
        obtain ⟨_, _, hst, htr⟩ := h
        have := key o s1 hx
        rw [← hst, ← htr, expected_at f.sk st.pos]
        exact this
    | err e => simp [hx] at h
    | more bb pred s1 => simp [hx] at h

end Mimium.Mir
