import Mimium.Proofs.UnifyMeasure
/-! Termination of unification, part 1: what it takes for a call to be made (`Ready`), how that passes to the calls it makes
(`Via`), the variable arms, and the list walkers. -/
namespace Mimium.Unify
open Mimium.Occurs (parent Acyclic)

section
variable (B : Nat) (V : List Nat) (L : Nat)

/-- in EVERY store of the class that extends `σ`, both heights are at most `M` and their sum at most `S` -/
def Bnd (σ : Store) (a b : Ty) (M S : Nat) : Prop :=
  ∀ σ'', Cl B V L σ'' → Ext σ σ'' →
    ∃ n1 n2, HA (absS σ'') (abs a) n1 ∧ HA (absS σ'') (abs b) n2 ∧ n1 ≤ M ∧ n2 ≤ M ∧ n1 + n2 ≤ S

/-- everything the termination argument needs to know at a call `u σ a b` -/
structure Ready (σ : Store) (a b : Ty) (M S : Nat) : Prop where
  cl : Cl B V L σ
  oka : AOK B V (abs a)
  okb : AOK B V (abs b)
  bnd : Bnd B V L σ a b M S

/-- the call returns, into a store of the class that keeps the old bindings -/
def Ret (u : U) (σ : Store) (a b : Ty) : Prop := ∃ σ' r, u σ a b = some (σ', r) ∧ Cl B V L σ' ∧ Ext σ σ'

/-- `u` returns on every call whose heights are bounded by `(M, S)` -/
def Tm (u : U) (M S : Nat) : Prop := ∀ σ a b, Ready B V L σ a b M S → Ret B V L u σ a b

/-- how an argument `c` of a nested call comes from an argument `x` of the call: bounds kept, height not larger (`s`: smaller),
in every later store -/
def Via (σ : Store) (s : Bool) (x c : Ty) : Prop :=
  (AOK B V (abs x) → AOK B V (abs c)) ∧
  (∀ σ'', Ext σ σ'' → ∀ n, HA (absS σ'') (abs x) n → ∃ m, HA (absS σ'') (abs c) m ∧ (if s then m < n else m ≤ n))

end

section
variable {B : Nat} {V : List Nat} {L : Nat}

theorem Via.refl (σ : Store) (x : Ty) : Via B V σ false x x := ⟨fun h => h, fun _ _ n h => ⟨n, h, Nat.le_refl n⟩⟩

theorem Via.weaken {σ : Store} {x c : Ty} (h : Via B V σ true x c) : Via B V σ false x c :=
  ⟨h.1, fun σ'' he n hn => by obtain ⟨m, hm, hlt⟩ := h.2 σ'' he n hn; exact ⟨m, hm, Nat.le_of_lt (by simpa using hlt)⟩⟩

theorem Via.ext {σ σ1 : Store} {s : Bool} {x c : Ty} (h : Via B V σ s x c) (he : Ext σ σ1) : Via B V σ1 s x c :=
  ⟨h.1, fun σ'' he' n hn => h.2 σ'' (he.trans he') n hn⟩

/-- from the argument to a member of its root -/
theorem Via.ofRoot {σ : Store} (hcl : Cl B V L σ) {g : Nat} {x xr c : Ty} {s : Bool} (hr : root σ g x = some xr) (d : Desc s xr c) :
    Via B V σ s x c := by
  refine ⟨fun hx => d.1 B V (root_aok hcl g x xr hx hr), fun σ'' he n hn => ?_⟩
  have c1 : Chain σ'' x xr := (chain_of_root σ g x xr hr).mono he
  exact d.2 _ n (HA.chain c1 hn)

theorem Via.ofRootSelf {σ : Store} (hcl : Cl B V L σ) {g : Nat} {x xr : Ty} (hr : root σ g x = some xr) : Via B V σ false x xr :=
  Via.ofRoot hcl hr (Desc.refl xr)

theorem Ready.ext {σ σ1 : Store} {a b : Ty} {M S : Nat} (h : Ready B V L σ a b M S) (hcl : Cl B V L σ1) (he : Ext σ σ1) :
    Ready B V L σ1 a b M S :=
  ⟨hcl, h.oka, h.okb, fun σ'' hc he' => h.bnd σ'' hc (he.trans he')⟩

theorem Ready.swap {σ : Store} {a b : Ty} {M S : Nat} (h : Ready B V L σ a b M S) : Ready B V L σ b a M S :=
  ⟨h.cl, h.okb, h.oka, fun σ'' hc he => by
    obtain ⟨n1, n2, h1, h2, l1, l2, ls⟩ := h.bnd σ'' hc he
    exact ⟨n2, n1, h2, h1, l2, l1, by omega⟩⟩

/-- nothing gets smaller (the arms of `unify_types_args` that re-dispatch) -/
theorem Ready.same {σ : Store} {a b c1 c2 : Ty} {M S : Nat} (h : Ready B V L σ a b M S) (v1 : Via B V σ false a c1)
    (v2 : Via B V σ false b c2) : Ready B V L σ c1 c2 M S :=
  ⟨h.cl, v1.1 h.oka, v2.1 h.okb, fun σ'' hc he => by
    obtain ⟨n1, n2, h1, h2, l1, l2, ls⟩ := h.bnd σ'' hc he
    obtain ⟨m1, hm1, le1⟩ := v1.2 σ'' he n1 h1
    obtain ⟨m2, hm2, le2⟩ := v2.2 σ'' he n2 h2
    simp only [Bool.false_eq_true, if_false] at le1 le2
    exact ⟨m1, m2, hm1, hm2, by omega, by omega, by omega⟩⟩

/-- one side gets smaller -/
theorem Ready.one {σ : Store} {a b c1 c2 : Ty} {M S : Nat} {s1 s2 : Bool} (h : Ready B V L σ a b M S) (v1 : Via B V σ s1 a c1)
    (v2 : Via B V σ s2 b c2) (hs : (s1 || s2) = true) : Ready B V L σ c1 c2 M (S - 1) :=
  ⟨h.cl, v1.1 h.oka, v2.1 h.okb, fun σ'' hc he => by
    obtain ⟨n1, n2, h1, h2, l1, l2, ls⟩ := h.bnd σ'' hc he
    obtain ⟨m1, hm1, le1⟩ := v1.2 σ'' he n1 h1
    obtain ⟨m2, hm2, le2⟩ := v2.2 σ'' he n2 h2
    refine ⟨m1, m2, hm1, hm2, ?_, ?_, ?_⟩
    · cases s1 <;> simp at le1 <;> omega
    · cases s2 <;> simp at le2 <;> omega
    · cases s1 <;> cases s2 <;> simp at le1 le2 hs <;> omega⟩

/-- both arguments of the nested call are strictly below an argument of the call (whichever) -/
theorem Ready.both {σ : Store} {a b c1 c2 : Ty} {M S : Nat} (h : Ready B V L σ a b M S)
    (v1 : Via B V σ true a c1 ∨ Via B V σ true b c1) (v2 : Via B V σ true a c2 ∨ Via B V σ true b c2) :
    Ready B V L σ c1 c2 (M - 1) (2 * (M - 1)) := by
  refine ⟨h.cl, ?_, ?_, fun σ'' hc he => ?_⟩
  · rcases v1 with v | v
    · exact v.1 h.oka
    · exact v.1 h.okb
  · rcases v2 with v | v
    · exact v.1 h.oka
    · exact v.1 h.okb
  · obtain ⟨n1, n2, h1, h2, l1, l2, ls⟩ := h.bnd σ'' hc he
    have e1 : ∃ m1, HA (absS σ'') (abs c1) m1 ∧ m1 + 1 ≤ M := by
      rcases v1 with v | v
      · obtain ⟨m, hm, lt⟩ := v.2 σ'' he n1 h1; exact ⟨m, hm, by simp at lt; omega⟩
      · obtain ⟨m, hm, lt⟩ := v.2 σ'' he n2 h2; exact ⟨m, hm, by simp at lt; omega⟩
    have e2 : ∃ m2, HA (absS σ'') (abs c2) m2 ∧ m2 + 1 ≤ M := by
      rcases v2 with v | v
      · obtain ⟨m, hm, lt⟩ := v.2 σ'' he n1 h1; exact ⟨m, hm, by simp at lt; omega⟩
      · obtain ⟨m, hm, lt⟩ := v.2 σ'' he n2 h2; exact ⟨m, hm, by simp at lt; omega⟩
    obtain ⟨m1, hm1, lm1⟩ := e1
    obtain ⟨m2, hm2, lm2⟩ := e2
    exact ⟨m1, m2, hm1, hm2, by omega, by omega, by omega⟩

theorem Ret.mono {u : U} {σ0 σ : Store} {a b : Ty} (he : Ext σ0 σ) (h : Ret B V L u σ a b) :
    ∃ σ' r, u σ a b = some (σ', r) ∧ Cl B V L σ' ∧ Ext σ0 σ' := by
  obtain ⟨σ', r, h1, h2, h3⟩ := h
  exact ⟨σ', r, h1, h2, he.trans h3⟩

/-! ## the variable arms -/

/-- fuel that suffices for `get_root` and `occur_check` on every store of the class -/
def gNeed (B L : Nat) : Nat := B + L * B + L + 1

theorem occurs_total {σ : Store} (hcl : Cl B V L σ) {g : Nat} (hg : gNeed B L ≤ g) (v : Nat) {t : Ty} (ht : AOK B V (abs t)) :
    ∃ b, occurs g σ v t = some b := by
  unfold occurs
  refine Occurs.occ_total_bound (absS σ) hcl.1 false v (abs t) g ?_
  have := hcl.total_le; have := ht.1
  unfold gNeed at hg
  omega

theorem root_total' {σ : Store} (hcl : Cl B V L σ) {g : Nat} (hg : gNeed B L ≤ g) (t : Ty) : ∃ r, root σ g t = some r := by
  refine root_total hcl.1 g ?_ t
  have := hcl.length_le
  unfold gNeed at hg
  omega

theorem var_mem {v : Nat} (h : AOK B V (abs (.var v))) : v ∈ V := h.2 v (by simp [abs, Occurs.vars])

theorem bind_tm {σ : Store} (hcl : Cl B V L σ) {g : Nat} (hg : gNeed B L ≤ g) {v : Nat} (hv : AOK B V (abs (.var v)))
    (hu : parent σ v = none) {t : Ty} (ht : AOK B V (abs t)) :
    ∃ σ' r, bind g σ v t = some (σ', r) ∧ Cl B V L σ' ∧ Ext σ σ' := by
  obtain ⟨b, hb⟩ := occurs_total hcl hg v ht
  have hp := bind_pres g hcl.1 hu t
  unfold bind at hp ⊢
  rw [hb] at hp ⊢
  cases b with
  | true => exact ⟨σ, _, rfl, hcl, Ext.refl σ⟩
  | false =>
    have i := hp _ _ rfl
    exact ⟨_, _, rfl, hcl.cons i.1 ht (var_mem hv) hu, i.2⟩

theorem varVar_tm {σ : Store} (hcl : Cl B V L σ) {g : Nat} (hg : gNeed B L ≤ g) {v1 v2 : Nat} (h1 : AOK B V (abs (.var v1)))
    (h2 : AOK B V (abs (.var v2))) (hu1 : parent σ v1 = none) (hu2 : parent σ v2 = none) {t2 : Ty} (ht2 : AOK B V (abs t2)) :
    ∃ σ' r, varVar g σ v1 v2 t2 = some (σ', r) ∧ Cl B V L σ' ∧ Ext σ σ' := by
  have hp := varVar_pres g hcl.1 hu1 hu2 t2
  unfold varVar at hp ⊢
  by_cases he : v1 = v2
  · simp only [he, if_true]; exact ⟨σ, _, rfl, hcl, Ext.refl σ⟩
  · simp only [he, if_false] at hp ⊢
    obtain ⟨b, hb⟩ := occurs_total hcl hg v1 ht2
    rw [hb] at hp ⊢
    cases b with
    | true => exact ⟨σ, _, rfl, hcl, Ext.refl σ⟩
    | false =>
      simp only at hp ⊢
      by_cases hgt : v1 > v2
      · simp only [hgt, if_true] at hp ⊢
        have i := hp _ _ rfl
        exact ⟨_, _, rfl, hcl.cons i.1 h1 (var_mem h2) hu2, i.2⟩
      · simp only [hgt, if_false] at hp ⊢
        have i := hp _ _ rfl
        exact ⟨_, _, rfl, hcl.cons i.1 h2 (var_mem h1) hu1, i.2⟩

theorem varArms_tm {σ : Store} (hcl : Cl B V L σ) {g : Nat} (hg : gNeed B L ≤ g) {t1 t2 t1r t2r : Ty}
    (a1 : AOK B V (abs t1)) (a2 : AOK B V (abs t2)) (hr1 : root σ g t1 = some t1r) (hr2 : root σ g t2 = some t2r) {out : Out}
    (h : varArms g σ t2 t1r t2r = some out) : ∃ σ' r, out = some (σ', r) ∧ Cl B V L σ' ∧ Ext σ σ' := by
  have b1 := root_aok hcl g t1 t1r a1 hr1
  have b2 := root_aok hcl g t2 t2r a2 hr2
  unfold varArms at h
  split at h
  · rename_i v1 v2 e1 e2
    have := asVar_eq e1; have := asVar_eq e2; subst_vars
    simp only [Option.some.injEq] at h; subst h
    exact varVar_tm hcl hg b1 b2 (root_var_unbound σ g t1 v1 hr1) (root_var_unbound σ g t2 v2 hr2) a2
  · rename_i v1 e1 _
    have := asVar_eq e1; subst this
    simp only [Option.some.injEq] at h; subst h
    exact bind_tm hcl hg b1 (root_var_unbound σ g t1 v1 hr1) b2
  · rename_i v2 _ e2
    have := asVar_eq e2; subst this
    simp only [Option.some.injEq] at h; subst h
    exact bind_tm hcl hg b2 (root_var_unbound σ g t2 v2 hr2) b1
  · cases h

/-! ## the list walkers -/

theorem vecPass_tm {u : U} {M S : Nat} (ht : Tm B V L u M S) : ∀ (as bs : List Ty) (σ0 σ : Store), Cl B V L σ → Ext σ0 σ →
    (∀ p ∈ as.zip bs, Ready B V L σ0 p.1 p.2 M S) →
    ∃ σ' rs, vecPass u σ as bs = some (σ', rs) ∧ Cl B V L σ' ∧ Ext σ0 σ' := by
  intro as
  induction as with
  | nil => intro bs σ0 σ hcl he _; exact ⟨σ, [], by simp [vecPass], hcl, he⟩
  | cons a as ih =>
    intro bs σ0 σ hcl he hp
    cases bs with
    | nil => exact ⟨σ, [], by simp [vecPass], hcl, he⟩
    | cons b bs =>
      have r0 := (hp (a, b) (by simp)).ext hcl he
      obtain ⟨σ1, r, h1, c1, e1⟩ := ht σ a b r0
      obtain ⟨σ2, rs, h2, c2, e2⟩ := ih bs σ0 σ1 c1 (he.trans e1) (fun p hp' => hp p (by simp [hp']))
      exact ⟨σ2, r :: rs, by simp [vecPass, h1, h2], c2, e2⟩

/-- the pairs of `searchresults` whose two sides are present can be unified -/
def PairsReady (B : Nat) (V : List Nat) (L : Nat) (σ0 : Store) (ps : List (Option F × Option F)) (M S : Nat) : Prop :=
  ∀ p ∈ ps, ∀ f g, p = (some f, some g) → Ready B V L σ0 f.ty g.ty M S

theorem pairRes_tm {u : U} {M S : Nat} (ht : Tm B V L u M S) {σ0 σ : Store} (hcl : Cl B V L σ) (he : Ext σ0 σ)
    (p : Option F × Option F) (hp : ∀ f g, p = (some f, some g) → Ready B V L σ0 f.ty g.ty M S) :
    ∃ σ' r, pairRes u σ p = some (σ', r) ∧ Cl B V L σ' ∧ Ext σ0 σ' := by
  obtain ⟨x, y⟩ := p
  cases x with
  | none => cases y <;> exact ⟨σ, _, rfl, hcl, he⟩
  | some f =>
    cases y with
    | none => exact ⟨σ, _, rfl, hcl, he⟩
    | some g =>
      obtain ⟨σ1, r, h1, c1, e1⟩ := ht σ f.ty g.ty ((hp f g rfl).ext hcl he)
      cases r with
      | ok x => exact ⟨σ1, .ok .both, by simp [pairRes, h1], c1, he.trans e1⟩
      | error e => exact ⟨σ1, .error e, by simp [pairRes, h1], c1, he.trans e1⟩

theorem passUntil_tm {u : U} {M S : Nat} (ht : Tm B V L u M S) (stop : SRes → Bool) : ∀ (ps : List (Option F × Option F))
    (σ0 σ : Store), Cl B V L σ → Ext σ0 σ → PairsReady B V L σ0 ps M S →
    ∃ σ' b, passUntil u stop σ ps = some (σ', b) ∧ Cl B V L σ' ∧ Ext σ0 σ' := by
  intro ps
  induction ps with
  | nil => intro σ0 σ hcl he _; exact ⟨σ, false, by simp [passUntil], hcl, he⟩
  | cons p ps ih =>
    intro σ0 σ hcl he hp
    obtain ⟨σ1, r, h1, c1, e1⟩ := pairRes_tm ht hcl he p (fun f g e => hp p (by simp) f g e)
    by_cases hs : stop r = true
    · exact ⟨σ1, true, by simp [passUntil, h1, hs], c1, e1⟩
    · obtain ⟨σ2, b, h2, c2, e2⟩ := ih σ0 σ1 c1 e1 (fun q hq => hp q (by simp [hq]))
      exact ⟨σ2, b, by simp [passUntil, h1, hs, h2], c2, e2⟩

theorem passErrs_tm {u : U} {M S : Nat} (ht : Tm B V L u M S) : ∀ (ps : List (Option F × Option F))
    (σ0 σ : Store), Cl B V L σ → Ext σ0 σ → PairsReady B V L σ0 ps M S →
    ∃ σ' es, passErrs u σ ps = some (σ', es) ∧ Cl B V L σ' ∧ Ext σ0 σ' := by
  intro ps
  induction ps with
  | nil => intro σ0 σ hcl he _; exact ⟨σ, [], by simp [passErrs], hcl, he⟩
  | cons p ps ih =>
    intro σ0 σ hcl he hp
    obtain ⟨σ1, r, h1, c1, e1⟩ := pairRes_tm ht hcl he p (fun f g e => hp p (by simp) f g e)
    obtain ⟨σ2, es, h2, c2, e2⟩ := ih σ0 σ1 c1 e1 (fun q hq => hp q (by simp [hq]))
    cases r with
    | ok x => exact ⟨σ2, [] ++ es, by simp only [passErrs, h1, h2], c2, e2⟩
    | error e => exact ⟨σ2, e ++ es, by simp only [passErrs, h1, h2], c2, e2⟩

theorem recordArm_tm {u : U} {M S : Nat} (ht : Tm B V L u M S) {σ : Store} (hcl : Cl B V L σ) (a1 a2 : List F)
    (hp : PairsReady B V L σ (recPairs a1 a2) M S) : ∃ σ' r, recordArm u σ a1 a2 = some (σ', r) ∧ Cl B V L σ' ∧ Ext σ σ' := by
  obtain ⟨σ1, b1, h1, c1, e1⟩ := passUntil_tm ht (fun r => !isBoth r) _ σ σ hcl (Ext.refl σ) hp
  obtain ⟨σ2, es, h2, c2, e2⟩ := passErrs_tm ht _ σ σ1 c1 e1 hp
  obtain ⟨σ3, b3, h3, c3, e3⟩ := passUntil_tm ht isA _ σ σ2 c2 e2 hp
  obtain ⟨σ4, b4, h4, c4, e4⟩ := passUntil_tm ht isB _ σ σ3 c3 e3 hp
  unfold recordArm
  simp only [h1, h2, h3, h4]
  repeat' split
  all_goals exact ⟨σ4, _, rfl, c4, e4⟩

theorem firstHit_tm {try1 : Store → Ty → Out} (hit : Res → Bool) : ∀ (ms : List Ty) (σ0 σ : Store), Cl B V L σ → Ext σ0 σ →
    (∀ m ∈ ms, ∀ σ1, Cl B V L σ1 → Ext σ0 σ1 → ∃ σ' r, try1 σ1 m = some (σ', r) ∧ Cl B V L σ' ∧ Ext σ1 σ') →
    ∃ σ' b, firstHit try1 hit σ ms = some (σ', b) ∧ Cl B V L σ' ∧ Ext σ0 σ' := by
  intro ms
  induction ms with
  | nil => intro σ0 σ hcl he _; exact ⟨σ, false, by simp [firstHit], hcl, he⟩
  | cons m ms ih =>
    intro σ0 σ hcl he ht
    obtain ⟨σ1, r, h1, c1, e1⟩ := ht m (by simp) σ hcl he
    by_cases hs : hit r = true
    · exact ⟨σ1, true, by simp [firstHit, h1, hs], c1, he.trans e1⟩
    · obtain ⟨σ2, b, h2, c2, e2⟩ := ih σ0 σ1 c1 (he.trans e1) (fun q hq => ht q (by simp [hq]))
      exact ⟨σ2, b, by simp [firstHit, h1, hs, h2], c2, e2⟩

theorem allOf_tm {ok1 : Store → Ty → Option (Store × Bool)} : ∀ (ms : List Ty) (σ0 σ : Store), Cl B V L σ → Ext σ0 σ →
    (∀ m ∈ ms, ∀ σ1, Cl B V L σ1 → Ext σ0 σ1 → ∃ σ' b, ok1 σ1 m = some (σ', b) ∧ Cl B V L σ' ∧ Ext σ1 σ') →
    ∃ σ' b, allOf ok1 σ ms = some (σ', b) ∧ Cl B V L σ' ∧ Ext σ0 σ' := by
  intro ms
  induction ms with
  | nil => intro σ0 σ hcl he _; exact ⟨σ, true, by simp [allOf], hcl, he⟩
  | cons m ms ih =>
    intro σ0 σ hcl he ht
    obtain ⟨σ1, b, h1, c1, e1⟩ := ht m (by simp) σ hcl he
    cases b with
    | false => exact ⟨σ1, false, by simp [allOf, h1], c1, he.trans e1⟩
    | true =>
      obtain ⟨σ2, b, h2, c2, e2⟩ := ih σ0 σ1 c1 (he.trans e1) (fun q hq => ht q (by simp [hq]))
      exact ⟨σ2, b, by simp [allOf, h1, h2], c2, e2⟩

end
end Mimium.Unify
