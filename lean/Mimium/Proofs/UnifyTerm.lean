import Mimium.Proofs.UnifyTermBase
/-! Termination of unification, part 2: every arm of the two tables, and the induction on the fuel. -/
namespace Mimium.Unify
open Mimium.Occurs (parent Acyclic)

/-! ## which fields the record arm pairs up -/

theorem mem_insertByKey (x : F) : ∀ (ys : List F) (y : F), y ∈ insertByKey x ys → y = x ∨ y ∈ ys := by
  intro ys
  induction ys with
  | nil => intro y h; simp [insertByKey] at h; exact .inl h
  | cons z zs ih =>
    intro y h
    simp only [insertByKey] at h
    split at h
    · simpa using h
    · rcases List.mem_cons.mp h with rfl | h'
      · simp
      · rcases ih y h' with rfl | h''
        · simp
        · simp [h'']

theorem mem_sortByKey : ∀ (xs : List F) (y : F), y ∈ sortByKey xs → y ∈ xs := by
  intro xs
  induction xs with
  | nil => intro y h; simp [sortByKey] at h
  | cons x xs ih =>
    intro y h
    simp only [sortByKey] at h
    rcases mem_insertByKey x _ y h with rfl | h'
    · simp
    · simp [ih y h']

theorem mem_uniqueByKey : ∀ (xs : List F) (seen : List Nat) (y : F), y ∈ uniqueByKey xs seen → y ∈ xs := by
  intro xs
  induction xs with
  | nil => intro seen y h; simp [uniqueByKey] at h
  | cons x xs ih =>
    intro seen y h
    simp only [uniqueByKey] at h
    split at h
    · simp [ih _ y h]
    · rcases List.mem_cons.mp h with rfl | h'
      · simp
      · simp [ih _ y h']

theorem mem_sparse (a allkeys : List F) (f : F) (h : some f ∈ sparse a allkeys) : f ∈ a ∨ f ∈ allkeys := by
  simp only [sparse, List.mem_map] at h
  obtain ⟨p, hp, he⟩ := h
  split at he
  · rename_i f' hf
    simp only [Option.some.injEq] at he; subst he
    exact .inl (List.mem_of_find?_eq_some hf)
  · split at he
    · simp only [Option.some.injEq] at he; subst he; exact .inr hp
    · cases he

theorem recPairs_mem (a1 a2 : List F) (f g : F) (h : (some f, some g) ∈ recPairs a1 a2) :
    (f ∈ a1 ∨ f ∈ a2) ∧ (g ∈ a1 ∨ g ∈ a2) := by
  unfold recPairs at h
  simp only at h
  obtain ⟨h1, h2⟩ := List.of_mem_zip h
  have key : ∀ x, x ∈ uniqueByKey (sortByKey a1 ++ sortByKey a2) [] → x ∈ a1 ∨ x ∈ a2 := by
    intro x hx
    rcases List.mem_append.mp (mem_uniqueByKey _ _ x hx) with h | h
    · exact .inl (mem_sortByKey _ x h)
    · exact .inr (mem_sortByKey _ x h)
  constructor
  · rcases mem_sparse _ _ f h1 with h | h
    · exact .inl h
    · exact key f h
  · rcases mem_sparse _ _ g h2 with h | h
    · exact .inr h
    · exact key g h

section
variable {B : Nat} {V : List Nat} {L : Nat} {g : Nat} {u ua : U} {M S : Nat}

/-- what every arm has at hand: the call is `Ready`, its roots are known -/
structure At (B : Nat) (V : List Nat) (L : Nat) (g : Nat) (σ : Store) (t1 t2 t1r t2r : Ty) (M S : Nat) : Prop where
  rdy : Ready B V L σ t1 t2 M S
  r1 : root σ g t1 = some t1r
  r2 : root σ g t2 = some t2r

theorem At.via1 {σ : Store} {t1 t2 t1r t2r c : Ty} {s : Bool} (h : At B V L g σ t1 t2 t1r t2r M S) (d : Desc s t1r c) :
    Via B V σ s t1 c := Via.ofRoot h.rdy.cl h.r1 d
theorem At.via2 {σ : Store} {t1 t2 t1r t2r c : Ty} {s : Bool} (h : At B V L g σ t1 t2 t1r t2r M S) (d : Desc s t2r c) :
    Via B V σ s t2 c := Via.ofRoot h.rdy.cl h.r2 d

/-- the result of a call, post-processed -/
theorem ret_post {σ0 σ : Store} {a b : Ty} (h : Ret B V L u σ a b) (he : Ext σ0 σ) (k : Store → Res → Out)
    (hk : ∀ σ' r, ∃ r', k σ' r = some (σ', r')) :
    ∃ σ' r, (match u σ a b with | none => none | some (σ', r) => k σ' r) = some (σ', r) ∧ Cl B V L σ' ∧ Ext σ0 σ' := by
  obtain ⟨σ1, r, h1, c1, e1⟩ := h
  obtain ⟨r', hr'⟩ := hk σ1 r
  exact ⟨σ1, r', by simp only [h1, hr'], c1, he.trans e1⟩

variable (hC : Tm B V L u (M - 1) (2 * (M - 1))) (hO : Tm B V L u M (S - 1))
include hC hO

theorem structuralD_tm {σ : Store} {t1 t2 t1r t2r : Ty} (h : At B V L g σ t1 t2 t1r t2r M S) :
    ∃ σ' r, structuralD u σ t1r t2r = some (σ', r) ∧ Cl B V L σ' ∧ Ext σ σ' := by
  unfold structuralD
  split
  · split <;> exact ⟨σ, _, rfl, h.rdy.cl, Ext.refl σ⟩
  · split
    · rename_i b1 b2 e1 e2
      have := asBoxed_eq e1; have := asBoxed_eq e2; subst_vars
      exact hC σ b1 b2 (h.rdy.both (.inl (h.via1 (desc_boxed b1))) (.inr (h.via2 (desc_boxed b2))))
    · rename_i inner e1 _
      have := asBoxed_eq e1; subst this
      obtain ⟨σ1, r, h1, c1, e1⟩ := hO σ inner t2r (h.rdy.one (h.via1 (desc_boxed inner)) (h.via2 (Desc.refl t2r)) rfl)
      simp only [h1]
      cases r <;> exact ⟨σ1, _, rfl, c1, e1⟩
    · rename_i inner _ e2
      have := asBoxed_eq e2; subst this
      obtain ⟨σ1, r, h1, c1, e1⟩ := hO σ t1r inner (h.rdy.one (h.via1 (Desc.refl t1r)) (h.via2 (desc_boxed inner)) rfl)
      simp only [h1]
      cases r <;> exact ⟨σ1, _, rfl, c1, e1⟩
    · exact ⟨σ, _, rfl, h.rdy.cl, Ext.refl σ⟩

theorem structuralC_tm {σ : Store} {t1 t2 t1r t2r : Ty} (h : At B V L g σ t1 t2 t1r t2r M S) :
    ∃ σ' r, structuralC u σ t1r t2r = some (σ', r) ∧ Cl B V L σ' ∧ Ext σ σ' := by
  unfold structuralC
  split
  · rename_i p1 p2 e1 e2
    have := asCode_eq e1; have := asCode_eq e2; subst_vars
    exact hC σ p1 p2 (h.rdy.both (.inl (h.via1 (desc_code p1))) (.inr (h.via2 (desc_code p2))))
  · split
    · rename_i us1 us2 e1 e2
      have := asUnion_eq e1; have := asUnion_eq e2; subst_vars
      split
      · exact ⟨σ, _, rfl, h.rdy.cl, Ext.refl σ⟩
      · have hall := allOf_tm (B := B) (V := V) (L := L)
            (ok1 := fun σ m1 => firstHit (fun σ m2 => u σ m1 m2) isIdent σ us2) us1 σ σ h.rdy.cl (Ext.refl σ) (by
          intro m1 hm1 σ1 c1 e1
          refine firstHit_tm isIdent us2 σ1 σ1 c1 (Ext.refl σ1) ?_
          intro m2 hm2 σ2 c2 e2
          exact hC σ2 m1 m2 ((h.rdy.both (.inl (h.via1 (desc_union hm1))) (.inr (h.via2 (desc_union hm2)))).ext c2 (e1.trans e2)))
        obtain ⟨σ1, b, h1, c1, e1⟩ := hall
        rw [h1]
        cases b <;> exact ⟨σ1, _, rfl, c1, e1⟩
    · rename_i us2 _ e2
      have := asUnion_eq e2; subst this
      have hf := firstHit_tm (B := B) (V := V) (L := L) (try1 := fun σ m => u σ t1r m) isOk us2 σ σ h.rdy.cl (Ext.refl σ) (by
        intro m hm σ1 c1 e1
        exact hO σ1 t1r m ((h.rdy.one (h.via1 (Desc.refl t1r)) (h.via2 (desc_union hm)) rfl).ext c1 e1))
      obtain ⟨σ1, b, h1, c1, e1⟩ := hf
      simp only [h1]
      cases b <;> exact ⟨σ1, _, rfl, c1, e1⟩
    · rename_i us1 e1 _
      have := asUnion_eq e1; subst this
      have hall := allOf_tm (B := B) (V := V) (L := L)
          (ok1 := okOf u t2r) us1 σ σ h.rdy.cl (Ext.refl σ) (by
        intro m hm σ1 c1 e1
        obtain ⟨σ2, r, h2, c2, e2⟩ := hO σ1 m t2r ((h.rdy.one (h.via1 (desc_union hm)) (h.via2 (Desc.refl t2r)) rfl).ext c1 e1)
        exact ⟨σ2, isOk r, by simp only [okOf, h2], c2, e2⟩)
      obtain ⟨σ1, b, h1, c1, e1⟩ := hall
      simp only [h1]
      cases b <;> exact ⟨σ1, _, rfl, c1, e1⟩
    · exact structuralD_tm hC hO h

theorem structuralB_tm {σ : Store} {t1 t2 t1r t2r : Ty} (h : At B V L g σ t1 t2 t1r t2r M S) :
    ∃ σ' r, structuralB u σ t1 t2 t1r t2r = some (σ', r) ∧ Cl B V L σ' ∧ Ext σ σ' := by
  have const : ∀ r : Res, ∃ σ' r', (some (σ, r) : Out) = some (σ', r') ∧ Cl B V L σ' ∧ Ext σ σ' :=
    fun r => ⟨σ, r, rfl, h.rdy.cl, Ext.refl σ⟩
  unfold structuralB
  split
  · exact const _
  · split
    · exact const _
    · split
      · exact const _
      · split
        · exact const _
        · split
          · rename_i v e2
            have := asTuple1_eq e2; subst this
            exact hO σ t1 v (h.rdy.one (Via.refl σ t1) (h.via2 (desc_tuple (by simp))) rfl)
          · split
            · rename_i v e1
              have := asTuple1_eq e1; subst this
              exact hO σ v t2 (h.rdy.one (h.via1 (desc_tuple (by simp))) (Via.refl σ t2) rfl)
            · split
              · exact const _
              · split
                · exact const _
                · split
                  · exact const _
                  · exact structuralC_tm hC hO h

omit hO in
theorem tupleArm_tm {σ : Store} {t1 t2 : Ty} {a1 a2 : List Ty} (h : At B V L g σ t1 t2 (.tuple a1) (.tuple a2) M S) :
    ∃ σ' r, tupleArm u σ a1 a2 = some (σ', r) ∧ Cl B V L σ' ∧ Ext σ σ' := by
  unfold tupleArm
  split
  · obtain ⟨σ1, rs, h1, c1, e1⟩ := vecPass_tm hC a1 a2 σ σ h.rdy.cl (Ext.refl σ) (by
      intro p hp
      obtain ⟨m1, m2⟩ := List.of_mem_zip hp
      exact h.rdy.both (.inl (h.via1 (desc_tuple m1))) (.inr (h.via2 (desc_tuple m2))))
    simp only [h1]
    cases vecVerdict rs <;> exact ⟨σ1, _, rfl, c1, e1⟩
  · exact ⟨σ, _, rfl, h.rdy.cl, Ext.refl σ⟩

omit hO in
theorem arrayArm_tm {σ : Store} {t1 t2 : Ty} {a1 a2 : Ty} (h : At B V L g σ t1 t2 (.array a1) (.array a2) M S) :
    ∃ σ' r, arrayArm u σ a1 a2 = some (σ', r) ∧ Cl B V L σ' ∧ Ext σ σ' := by
  unfold arrayArm
  obtain ⟨σ1, r, h1, c1, e1⟩ := hC σ a1 a2 (h.rdy.both (.inl (h.via1 (desc_array a1))) (.inr (h.via2 (desc_array a2))))
  simp only [h1]
  cases r with
  | ok x => cases x <;> exact ⟨σ1, _, rfl, c1, e1⟩
  | error e => exact ⟨σ1, _, rfl, c1, e1⟩

omit hO in
theorem recordArm_tm' {σ : Store} {t1 t2 : Ty} {a1 a2 : List F} (h : At B V L g σ t1 t2 (.record a1) (.record a2) M S) :
    ∃ σ' r, recordArm u σ a1 a2 = some (σ', r) ∧ Cl B V L σ' ∧ Ext σ σ' := by
  refine recordArm_tm hC h.rdy.cl a1 a2 ?_
  intro p hp f g' e
  subst e
  obtain ⟨m1, m2⟩ := recPairs_mem a1 a2 f g' hp
  refine h.rdy.both ?_ ?_
  · rcases m1 with m | m
    · exact .inl (h.via1 (desc_record m))
    · exact .inr (h.via2 (desc_record m))
  · rcases m2 with m | m
    · exact .inl (h.via1 (desc_record m))
    · exact .inr (h.via2 (desc_record m))

omit hO in
theorem fnArm_tm (hCA : Tm B V L ua (M - 1) (2 * (M - 1))) {σ : Store} {t1 t2 a1 r1 a2 r2 : Ty}
    (h : At B V L g σ t1 t2 (.fn a1 r1) (.fn a2 r2) M S) :
    ∃ σ' r, fnArm u ua σ a1 r1 a2 r2 = some (σ', r) ∧ Cl B V L σ' ∧ Ext σ σ' := by
  unfold fnArm
  obtain ⟨σ1, x, h1, c1, e1⟩ := hCA σ a1 a2 (h.rdy.both (.inl (h.via1 (desc_fn_arg a1 r1))) (.inr (h.via2 (desc_fn_arg a2 r2))))
  obtain ⟨σ2, y, h2, c2, e2⟩ := hC σ1 r1 r2
    ((h.rdy.both (.inl (h.via1 (desc_fn_ret a1 r1))) (.inr (h.via2 (desc_fn_ret a2 r2)))).ext c1 e1)
  exact ⟨σ2, fnVerdict x y, by simp only [h1, h2], c2, e1.trans e2⟩

theorem structural_tm (hCA : Tm B V L ua (M - 1) (2 * (M - 1))) {σ : Store} {t1 t2 t1r t2r : Ty}
    (h : At B V L g σ t1 t2 t1r t2r M S) :
    ∃ σ' r, structural u ua σ t1 t2 t1r t2r = some (σ', r) ∧ Cl B V L σ' ∧ Ext σ σ' := by
  unfold structural
  split
  · rename_i x1 x2 e1 e2
    have := asArray_eq e1; have := asArray_eq e2; subst_vars
    exact arrayArm_tm hC h
  · split
    · rename_i x1 x2 e1 e2
      have := asRef_eq e1; have := asRef_eq e2; subst_vars
      exact hC σ x1 x2 (h.rdy.both (.inl (h.via1 (desc_ref x1))) (.inr (h.via2 (desc_ref x2))))
    · split
      · rename_i x1 x2 e1 e2
        have := asTuple_eq e1; have := asTuple_eq e2; subst_vars
        exact tupleArm_tm hC h
      · split
        · rename_i x1 x2 e1 e2
          have := asRecord_eq e1; have := asRecord_eq e2; subst_vars
          exact recordArm_tm' hC h
        · split
          · rename_i arg1 ret1 arg2 ret2 e1 e2
            have := asFn_eq e1; have := asFn_eq e2; subst_vars
            exact fnArm_tm hC hCA h
          · exact structuralB_tm hC hO h

end

/-! ## `unify_types_args` -/

/-- how many arms of `unify_types_args` may still re-dispatch without descending -/
def need (ar br : Ty) : Nat := if isTuple ar && isRecord br then 3 else if isRecord ar && isTuple br then 2 else 1

section
variable {B : Nat} {V : List Nat} {L : Nat} {g : Nat} {u ua : U} {M S : Nat}

/-- `ua` returns on calls bounded by `(M, S)` whose roots leave at most `ph` re-dispatches -/
def TmPh (B : Nat) (V : List Nat) (L : Nat) (g : Nat) (ua : U) (M S ph : Nat) : Prop :=
  ∀ σ a b, Ready B V L σ a b M S → (∀ ar br, root σ g a = some ar → root σ g b = some br → need ar br ≤ ph) → Ret B V L ua σ a b

theorem root_nonvar {σ : Store} {g : Nat} (hg : 1 ≤ g) {t : Ty} (h : asVar t = none) : root σ g t = some t := by
  obtain ⟨g', rfl⟩ : ∃ g', g = g' + 1 := ⟨g - 1, by omega⟩
  cases t <;> simp_all [root, asVar]

theorem argsHead_tm (hU : Tm B V L u M S) (hOA : Tm B V L ua M (S - 1)) {σ : Store} {t1 t2 t1r t2r : Ty}
    (h : At B V L g σ t1 t2 t1r t2r M S) {out : Out} (ho : argsHead u ua σ t1 t2 t1r t2r = some out) :
    ∃ σ' r, out = some (σ', r) ∧ Cl B V L σ' ∧ Ext σ σ' := by
  unfold argsHead at ho
  split at ho
  · simp only [Option.some.injEq] at ho; subst ho
    exact hU σ t1 t2 h.rdy
  · split at ho
    · rename_i fl e1
      have := asRecord1_eq e1; subst this
      simp only [Option.some.injEq] at ho; subst ho
      exact hOA σ fl.ty t2 (h.rdy.one (h.via1 (desc_record (by simp))) (Via.refl σ t2) rfl)
    · split at ho
      · rename_i fl e2
        simp only [Option.some.injEq] at ho; subst ho
        split at e2
        · rename_i fl' e2'
          have := asRecord1_eq e2'; subst this
          split at e2
          · cases e2
          · simp only [Option.some.injEq] at e2; subst e2
            exact hOA σ t1 fl'.ty (h.rdy.one (Via.refl σ t1) (h.via2 (desc_record (by simp))) rfl)
        · cases e2
      · split at ho
        · rename_i v e2
          have := asTuple1_eq e2; subst this
          simp only [Option.some.injEq] at ho; subst ho
          exact hOA σ t1 v (h.rdy.one (Via.refl σ t1) (h.via2 (desc_tuple (by simp))) rfl)
        · split at ho
          · rename_i v e1
            have := asTuple1_eq e1; subst this
            simp only [Option.some.injEq] at ho; subst ho
            exact hOA σ v t2 (h.rdy.one (h.via1 (desc_tuple (by simp))) (Via.refl σ t2) rfl)
          · cases ho

theorem argsTail_tm (hg : 1 ≤ g) (hU : Tm B V L u M S) (hOA : Tm B V L ua M (S - 1)) {σ : Store} {t1 t2 t1r t2r : Ty}
    (h : At B V L g σ t1 t2 t1r t2r M S)
    (hA1 : isRecord t1r = true → isTuple t2r = true → TmPh B V L g ua M S 1)
    (hA2 : isTuple t1r = true → isRecord t2r = true → TmPh B V L g ua M S 2) :
    ∃ σ' r, argsTail u ua σ t1 t2 t1r t2r = some (σ', r) ∧ Cl B V L σ' ∧ Ext σ σ' := by
  unfold argsTail
  split
  · rename_i kvs e1 e2
    have := asRecord_eq e1; subst this
    refine hA1 (by simp [isRecord, asRecord]) e2 σ _ t2 (h.rdy.same (h.via1 (desc_record_tuple kvs)) (Via.refl σ t2)) ?_
    intro ar br ha hb
    rw [root_nonvar hg (by simp [asVar])] at ha
    rw [h.r2] at hb
    simp only [Option.some.injEq] at ha hb; subst ha; subst hb
    obtain ⟨as, rfl⟩ := isTuple_eq e2
    simp [need, isTuple, isRecord, asTuple, asRecord]
  · split
    · rename_i hc
      simp only [Bool.and_eq_true] at hc
      refine hA2 hc.1 hc.2 σ t2 t1 h.rdy.swap ?_
      intro ar br ha hb
      rw [h.r2] at ha; rw [h.r1] at hb
      simp only [Option.some.injEq] at ha hb; subst ha; subst hb
      obtain ⟨as, rfl⟩ := isTuple_eq hc.1
      obtain ⟨fs, rfl⟩ := isRecord_eq hc.2
      simp [need, isTuple, isRecord, asTuple, asRecord]
    · split
      · rename_i us e1
        have := asUnion_eq e1; subst this
        have hf := firstHit_tm (B := B) (V := V) (L := L) (try1 := fun σ m => ua σ m t2r) isOk us σ σ h.rdy.cl (Ext.refl σ) (by
          intro m hm σ1 c1 e1
          exact hOA σ1 m t2r ((h.rdy.one (h.via1 (desc_union hm)) (h.via2 (Desc.refl t2r)) rfl).ext c1 e1))
        obtain ⟨σ1, b, h1, c1, e1⟩ := hf
        simp only [h1]
        cases b <;> exact ⟨σ1, _, rfl, c1, e1⟩
      · exact hU σ t1 t2 h.rdy

end

/-! ## the induction on the fuel -/

theorem HA.pos {τ : AS} {x : AT} {n : Nat} (h : HA τ x n) : 1 ≤ n := by
  obtain ⟨r, hr⟩ := h
  cases n with
  | zero => simp [TypeRec.subst] at hr
  | succ m => omega

theorem Ready.pos {B : Nat} {V : List Nat} {L : Nat} {σ : Store} {a b : Ty} {M S : Nat} (h : Ready B V L σ a b M S) : 1 ≤ M ∧ 2 ≤ S := by
  obtain ⟨n1, n2, h1, h2, l1, l2, ls⟩ := h.bnd σ h.cl (Ext.refl σ)
  have := h1.pos; have := h2.pos
  omega

theorem need_le (ar br : Ty) : need ar br ≤ 3 := by unfold need; split <;> (try split) <;> omega
theorem need_pos (ar br : Ty) : 1 ≤ need ar br := by unfold need; split <;> (try split) <;> omega

/-- **termination**: a call whose heights are bounded by `(M, S)` in every store of the class returns when the fuel exceeds
`4 (M K + S)` (+ the re-dispatches of `unify_types_args`), `K ≥ 2 M` -/
theorem go_tm {B : Nat} {V : List Nat} {L : Nat} {g : Nat} (hg : gNeed B L ≤ g) (K : Nat) :
    ∀ (f : Nat) (k : Bool) (M S : Nat) (σ : Store) (a b : Ty), 2 * M ≤ K → Ready B V L σ a b M S →
      (∀ ar br, root σ g a = some ar → root σ g b = some br → 4 * (M * K + S) + (if k then need ar br else 0) < f) →
      Ret B V L (go g f k) σ a b := by
  have hg1 : 1 ≤ g := by unfold gNeed at hg; omega
  intro f
  induction f with
  | zero =>
    intro k M S σ a b _ hr hf
    obtain ⟨ar, har⟩ := root_total' hr.cl hg a
    obtain ⟨br, hbr⟩ := root_total' hr.cl hg b
    have := hf ar br har hbr
    omega
  | succ f ih =>
    intro k M S σ a b hK hr hf
    obtain ⟨ar, har⟩ := root_total' hr.cl hg a
    obtain ⟨br, hbr⟩ := root_total' hr.cl hg b
    have hfuel := hf ar br har hbr
    obtain ⟨hM, hS⟩ := hr.pos
    obtain ⟨m, rfl⟩ : ∃ m, M = m + 1 := ⟨M - 1, by omega⟩
    have hmul : (m + 1) * K = m * K + K := by rw [Nat.add_mul, Nat.one_mul]
    have hat : At B V L g σ a b ar br (m + 1) S := ⟨hr, har, hbr⟩
    -- the calls an arm may make
    have hC : ∀ k', Tm B V L (go g f k') (m + 1 - 1) (2 * (m + 1 - 1)) := by
      intro k' σ1 a1 b1 r1
      refine ih k' _ _ σ1 a1 b1 (by simp only [Nat.add_sub_cancel]; omega) r1 ?_
      intro ar1 br1 _ _
      have := need_le ar1 br1
      simp only [Nat.add_sub_cancel]
      split at hfuel <;> split <;> omega
    have hO : ∀ k', Tm B V L (go g f k') (m + 1) (S - 1) := by
      intro k' σ1 a1 b1 r1
      refine ih k' _ _ σ1 a1 b1 hK r1 ?_
      intro ar1 br1 _ _
      have := need_le ar1 br1
      split at hfuel <;> split <;> omega
    cases k with
    | false =>
      unfold Ret
      simp only [go, har, hbr]
      split
      · rename_i out hv
        exact varArms_tm hr.cl hg hr.oka hr.okb har hbr hv
      · exact structural_tm (hC false) (hO false) (hC true) hat
    | true =>
      simp only [if_true] at hfuel
      have hU : Tm B V L (go g f false) (m + 1) S := by
        intro σ1 a1 b1 r1
        refine ih false _ _ σ1 a1 b1 hK r1 ?_
        intro _ _ _ _
        have := need_pos ar br
        simp only [Bool.false_eq_true, if_false]
        omega
      unfold Ret
      simp only [go, har, hbr]
      split
      · rename_i out hh
        exact argsHead_tm hU (hO true) hat hh
      · split
        · rename_i out hv
          exact varArms_tm hr.cl hg hr.oka hr.okb har hbr hv
        · refine argsTail_tm hg1 hU (hO true) hat ?_ ?_
          · intro h1 h2 σ1 a1 b1 r1 hph
            refine ih true _ _ σ1 a1 b1 hK r1 ?_
            intro ar1 br1 q1 q2
            have := hph ar1 br1 q1 q2
            have hn : need ar br = 2 := by
              obtain ⟨fs, rfl⟩ := isRecord_eq h1
              obtain ⟨as, rfl⟩ := isTuple_eq h2
              simp [need, isTuple, isRecord, asTuple, asRecord]
            simp only [if_true]
            omega
          · intro h1 h2 σ1 a1 b1 r1 hph
            refine ih true _ _ σ1 a1 b1 hK r1 ?_
            intro ar1 br1 q1 q2
            have := hph ar1 br1 q1 q2
            have hn : need ar br = 3 := by
              obtain ⟨as, rfl⟩ := isTuple_eq h1
              obtain ⟨fs, rfl⟩ := isRecord_eq h2
              simp [need, isTuple, isRecord, asTuple, asRecord]
            simp only [if_true]
            omega

end Mimium.Unify
