import Mimium.Proofs.CoreFuel
import Mimium.Proofs.CoreSoundMachine
/-!
Fuel independence lifted to the per-sample machine: `initGlobals`, `Machine.init`, `Machine.step` and a run of any
number of samples (`runSamples`, the run function of `CoreSoundMachine`) are monotone in the fuel in the sense of
`FuelLe`; plus the compositionality of runs (`runSamples_add`) and the length of the output stream.
-/
namespace Mimium.Core

theorem initGlobals_fuel_le (P : Prog) (rt : Rt) {n m : Nat} (h : n ≤ m) : ∀ (gs : List (String × Expr)) (env : Env) (σ : Store),
    FuelLe (initGlobals n P rt gs env σ) (initGlobals m P rt gs env σ)
  | [], env, σ => by rw [initGlobals, initGlobals]; exact FuelLe.refl _
  | (x, e) :: gs, env, σ => by
    rw [initGlobals_cons, initGlobals_cons]
    exact FuelLe.andThen (eval_fuel_le P rt h e _ _ _) (fun _ => initGlobals_fuel_le P rt h gs _ _)

theorem init_eq (fuel : Nat) (P : Prog) (sr : UInt64) :
    Machine.init fuel P sr =
      andThen (initGlobals fuel P ⟨natToF64Bits 0, sr⟩ P.globals [] []) (fun σ => .ok ⟨σ, SNode.empty, 0⟩) := by
  unfold Machine.init
  cases initGlobals fuel P ⟨natToF64Bits 0, sr⟩ P.globals [] [] <;> rfl

theorem init_fuel_le (P : Prog) (sr : UInt64) {n m : Nat} (h : n ≤ m) :
    FuelLe (Machine.init n P sr) (Machine.init m P sr) := by
  rw [init_eq, init_eq]
  exact FuelLe.andThen (initGlobals_fuel_le P _ h _ _ _) (fun _ => FuelLe.refl _)

theorem step_fuel_le (P : Prog) (sr : UInt64) {n m : Nat} (h : n ≤ m) (mc : Machine) (inputs : List UInt64) :
    FuelLe (Machine.step n P sr mc inputs) (Machine.step m P sr mc inputs) := by
  rw [step_eq, step_eq]
  exact FuelLe.andThen (eval_fuel_le P _ h _ _ _ _) (fun _ => FuelLe.refl _)

theorem runSamples_fuel_le (P : Prog) (sr : UInt64) (inputs : Nat → List UInt64) {n m : Nat} (h : n ≤ m) :
    ∀ (k : Nat) (mc : Machine), FuelLe (runSamples n P sr inputs k mc) (runSamples m P sr inputs k mc)
  | 0, mc => by rw [runSamples, runSamples]; exact FuelLe.refl _
  | k + 1, mc => by
    rw [runSamples, runSamples]
    exact FuelLe.andThen (step_fuel_le P sr h mc _)
      (fun r => FuelLe.andThen (runSamples_fuel_le P sr inputs h k r.2) (fun _ => FuelLe.refl _))

/-! ### a whole execution: initialise, then run `k` samples -/
/-- initialise the globals, then run `k` samples from sample 0 -/
def runFrom0 (fuel : Nat) (P : Prog) (sr : UInt64) (inputs : Nat → List UInt64) (k : Nat) : Res (List (List UInt64) × Machine) :=
  andThen (Machine.init fuel P sr) (fun m => runSamples fuel P sr inputs k m)

theorem runFrom0_fuel_le (P : Prog) (sr : UInt64) (inputs : Nat → List UInt64) (k : Nat) {n m : Nat} (h : n ≤ m) :
    FuelLe (runFrom0 n P sr inputs k) (runFrom0 m P sr inputs k) :=
  FuelLe.andThen (init_fuel_le P sr h) (fun mc => runSamples_fuel_le P sr inputs h k mc)

/-! ### the stream semantics is compositional -/
theorem andThen_assoc {α β γ : Type} (r : Res α) (f : α → Res β) (g : β → Res γ) :
    andThen (andThen r f) g = andThen r (fun a => andThen (f a) g) := by
  cases r <;> rfl

theorem andThen_congr {α β : Type} (r : Res α) {f g : α → Res β} (h : ∀ a, f a = g a) : andThen r f = andThen r g := by
  cases r with
  | error e => rfl
  | ok a => exact h a

/-- running `n + m` samples = running `n` samples, then `m` more from the machine reached -/
theorem runSamples_add (fuel : Nat) (P : Prog) (sr : UInt64) (inputs : Nat → List UInt64) (m : Nat) :
    ∀ (n : Nat) (mc : Machine), runSamples fuel P sr inputs (n + m) mc =
      andThen (runSamples fuel P sr inputs n mc) (fun r =>
        andThen (runSamples fuel P sr inputs m r.2) (fun q => .ok (r.1 ++ q.1, q.2)))
  | 0, mc => by
    rw [Nat.zero_add, runSamples]
    simp only [andThen]
    cases runSamples fuel P sr inputs m mc with
    | error e => rfl
    | ok q => simp
  | n + 1, mc => by
    rw [show n + 1 + m = (n + m) + 1 by omega, runSamples, runSamples, andThen_assoc]
    refine andThen_congr _ (fun r => ?_)
    rw [runSamples_add fuel P sr inputs m n r.2, andThen_assoc, andThen_assoc]
    refine andThen_congr _ (fun q => ?_)
    simp only [andThen]
    cases runSamples fuel P sr inputs m q.2 with
    | error e => rfl
    | ok q' => simp

/-- a successful step advances the sample counter by one -/
theorem step_t {fuel : Nat} {P : Prog} {sr : UInt64} {mc mc' : Machine} {inputs out : List UInt64}
    (hs : Machine.step fuel P sr mc inputs = .ok (out, mc')) : mc'.t = mc.t + 1 := by
  rw [step_eq] at hs
  cases he : eval fuel P ⟨natToF64Bits mc.t, sr⟩ _ P.dsp.body _ (initSelf mc.root P.dsp.selfShape) with
  | error e => rw [he] at hs; simp [andThen] at hs
  | ok r =>
    rw [he] at hs
    simp only [andThen, Except.ok.injEq, Prod.mk.injEq] at hs
    rw [← hs.2]

/-- a successful initialisation starts at sample 0 with an empty state tree -/
theorem init_t {fuel : Nat} {P : Prog} {sr : UInt64} {mc : Machine} (h : Machine.init fuel P sr = .ok mc) :
    mc.t = 0 ∧ mc.root = SNode.empty := by
  rw [init_eq] at h
  cases hi : initGlobals fuel P ⟨natToF64Bits 0, sr⟩ P.globals [] [] with
  | error e => rw [hi] at h; simp [andThen] at h
  | ok σ =>
    rw [hi] at h
    simp only [andThen, Except.ok.injEq] at h
    rw [← h]; exact ⟨rfl, rfl⟩

/-- a successful run of `k` samples yields exactly `k` output frames and advances the sample counter by `k` -/
theorem runSamples_length (fuel : Nat) (P : Prog) (sr : UInt64) (inputs : Nat → List UInt64) :
    ∀ (k : Nat) (mc mc' : Machine) (out : List (List UInt64)),
      runSamples fuel P sr inputs k mc = .ok (out, mc') → out.length = k ∧ mc'.t = mc.t + k
  | 0, mc, mc', out, h => by
    rw [runSamples] at h
    simp only [Except.ok.injEq, Prod.mk.injEq] at h
    obtain ⟨rfl, rfl⟩ := h
    simp
  | k + 1, mc, mc', out, h => by
    rw [runSamples] at h
    cases hs : Machine.step fuel P sr mc (inputs mc.t) with
    | error e => rw [hs] at h; simp [andThen] at h
    | ok r =>
      obtain ⟨o, m1⟩ := r
      rw [hs] at h
      simp only [andThen] at h
      cases hr : runSamples fuel P sr inputs k m1 with
      | error e => rw [hr] at h; simp at h
      | ok q =>
        obtain ⟨os, m2⟩ := q
        rw [hr] at h
        simp only [Except.ok.injEq, Prod.mk.injEq] at h
        obtain ⟨rfl, rfl⟩ := h
        have ih := runSamples_length fuel P sr inputs k m1 m2 os hr
        have ht : m1.t = mc.t + 1 := step_t hs
        refine ⟨by simp [ih.1], ?_⟩
        rw [ih.2, ht]; omega

end Mimium.Core
