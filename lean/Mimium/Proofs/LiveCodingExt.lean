import Mimium.Proofs.LiveCoding
/-!
# lemmas about `Model/LiveCoding.lean` (3): a layout and its extension by stateless cells

In the wide class of C05 (`noStatefulInArms`) mirgen publishes no cell for the calls of functions WITHOUT state inside the
`else` arm of an `if`, whereas the reference semantics gives every named call site a child node.  `ExtL cs fs`: the
layout cells `fs` are the cells `cs` with additional ZERO-SIZED cells (children that own no word) inserted anywhere,
recursively inside children.  Then

* `confSL_ext`: conformance to the larger layout implies conformance to the smaller one;
* `agree_deser_ser_ext`: the tree read back (under the small layout) from the words of a tree `A` agrees with `A` on the
  cells of the LARGE layout, provided `A` conforms to the large layout (its stateless children store no `self`).
-/
namespace Mimium.LiveCoding
open Mimium.Core Mimium.Cells Mimium.StateTree Mimium.FlatTree Mimium.Publish

mutual
/-- `f` is `c` with zero-sized cells added inside (recursion on the larger cell) -/
def ExtC : LCell → LCell → Prop
  | .mem s, .mem s' => s = s'
  | .delay s n, .delay s' n' => s = s' ∧ n = n'
  | .child s self cs, .child s' self' fs => s = s' ∧ self = self' ∧ ExtL cs fs
  | _, _ => False
/-- `fs` is `cs` with zero-sized cells added (anywhere in the list and inside the children) -/
def ExtL : List LCell → List LCell → Prop
  | cs, [] => cs = []
  | cs, f :: fs => (∃ c cs', cs = c :: cs' ∧ ExtC c f ∧ ExtL cs' fs) ∨ (f.size = 0 ∧ ExtL cs fs)
end

mutual
theorem confS_ext : ∀ (f c : LCell) (st : SNode), ExtC c f → ConfS f st → ConfS c st
  | .mem s, c, st, h, _ => by
    cases c <;> simp only [ExtC] at h
    simp [ConfS]
  | .delay s n, c, st, h, hf => by
    cases c <;> simp only [ExtC] at h
    obtain ⟨rfl, rfl⟩ := h; exact hf
  | .child s self fs, c, st, h, hf => by
    cases c <;> simp only [ExtC] at h
    obtain ⟨rfl, rfl, h3⟩ := h
    simp only [ConfS] at hf ⊢
    exact ⟨hf.1, confSL_ext fs _ _ h3 hf.2⟩
theorem confSL_ext : ∀ (fs cs : List LCell) (st : SNode), ExtL cs fs → ConfSL fs st → ConfSL cs st
  | [], cs, st, h, _ => by simp only [ExtL] at h; subst h; simp [ConfSL]
  | f :: fs, cs, st, h, hf => by
    simp only [ExtL] at h
    simp only [ConfSL] at hf
    rcases h with ⟨c, cs', rfl, h1, h2⟩ | ⟨_, h2⟩
    · simp only [ConfSL]; exact ⟨confS_ext f c st h1 hf.1, confSL_ext fs cs' st h2 hf.2⟩
    · exact confSL_ext fs cs st h2 hf.2
end

mutual
theorem extC_site : ∀ (f c : LCell), ExtC c f → c.site = f.site
  | .mem s, c, h => by cases c <;> simp only [ExtC] at h; subst h; rfl
  | .delay s n, c, h => by cases c <;> simp only [ExtC] at h; obtain ⟨rfl, rfl⟩ := h; rfl
  | .child s self fs, c, h => by cases c <;> simp only [ExtC] at h; obtain ⟨rfl, rfl, _⟩ := h; rfl
end

theorem extL_sites : ∀ (fs cs : List LCell), ExtL cs fs → ∀ s ∈ sitesOf cs, s ∈ sitesOf fs
  | [], cs, h => by simp only [ExtL] at h; subst h; simp [sitesOf]
  | f :: fs, cs, h => by
    simp only [ExtL] at h
    rcases h with ⟨c, cs', rfl, h1, h2⟩ | ⟨_, h2⟩
    · intro s hs
      simp only [sitesOf, List.mem_cons] at hs ⊢
      rcases hs with rfl | hs
      · exact Or.inl (extC_site f c h1)
      · exact Or.inr (extL_sites fs cs' h2 s hs)
    · intro s hs
      simp only [sitesOf, List.mem_cons]
      exact Or.inr (extL_sites fs cs h2 s hs)

/-! ### trees without cells outside a layout -/

mutual
/-- the children of `T` at the child cells of the layout have no cells outside their layout, recursively -/
def OnlyC : LCell → SNode → Prop
  | .mem _, _ => True
  | .delay _ _, _ => True
  | .child s _ ccs, T => (∀ s', s' ∉ sitesOf ccs → lookupCell (T.childAt s).cells s' = none) ∧ OnlyL ccs (T.childAt s)
def OnlyL : List LCell → SNode → Prop
  | [], _ => True
  | c :: cs, T => OnlyC c T ∧ OnlyL cs T
end

theorem initSelf_none (x : SNode) : FlatTree.initSelf none x = x := by
  unfold FlatTree.initSelf; split <;> simp_all

theorem childAt_empty (s : Nat) : SNode.empty.childAt s = SNode.empty := by
  simp [SNode.childAt, SNode.empty, SNode.cells, lookupCell]

theorem delay_size_pos (s n : Nat) : (LCell.delay s n).size ≠ 0 := by
  simp [LCell.size, delayExtra_eq]

mutual
/-- a zero-sized cell: the empty node conforms -/
theorem confS_zero_empty : ∀ (f : LCell) (T : SNode), f.size = 0 → lookupCell T.cells f.site = none → ConfS f T
  | .mem _, _, h, _ => by simp [LCell.size] at h
  | .delay s n, _, h, _ => absurd h (delay_size_pos s n)
  | .child s self cells, T, h, hn => by
    simp only [LCell.size] at h
    simp only [LCell.site] at hn
    have hch : T.childAt s = SNode.empty := by simp [SNode.childAt, hn]
    simp only [ConfS, hch]
    refine ⟨?_, confSL_zero_empty cells (by omega)⟩
    cases self with
    | none => simp [SelfOkS, SNode.empty, SNode.selfv]
    | some sh => intro v hv; simp [SNode.empty, SNode.selfv] at hv
theorem confSL_zero_empty : ∀ (fs : List LCell), sizeCells fs = 0 → ConfSL fs SNode.empty
  | [], _ => by simp [ConfSL]
  | f :: fs, h => by
    simp only [sizeCells] at h
    simp only [ConfSL]
    exact ⟨confS_zero_empty f SNode.empty (by omega) rfl, confSL_zero_empty fs (by omega)⟩
end

theorem childAt_of_lookup_none (T : SNode) (s : Nat) (h : lookupCell T.cells s = none) : T.childAt s = SNode.empty := by
  simp [SNode.childAt, h]

mutual
theorem agreeC_ext : ∀ (f c : LCell) (T A : SNode), ExtC c f → LayOk f → OnlyC c T → ConfS c T → ConfS f A →
    serCell c T = serCell c A → AgreeC f T A
  | .mem s, c, T, A, h, _, _, _, _, hw => by
    cases c <;> simp only [ExtC] at h
    subst h
    simpa [serCell, AgreeC] using hw
  | .delay s n, c, T, A, h, _, _, hT, hA, hw => by
    cases c <;> simp only [ExtC] at h
    obtain ⟨rfl, rfl⟩ := h
    exact agreeC_of_words _ T A hT hA hw
  | .child s self fs, c, T, A, h, hl, ho, hT, hA, hw => by
    cases c <;> simp only [ExtC] at h
    obtain ⟨rfl, rfl, h3⟩ := h
    rename_i s self cs
    simp only [ConfS] at hT hA
    simp only [OnlyC] at ho
    simp only [LayOk] at hl
    simp only [serCell] at hw
    have hAc : ConfSL cs (A.childAt s) := confSL_ext fs cs _ h3 hA.2
    have hlen : (selfWords self (T.childAt s)).length = (selfWords self (A.childAt s)).length := by
      rw [selfWords_length _ _ (selfOkS_selfOk _ _ hT.1), selfWords_length _ _ (selfOkS_selfOk _ _ hA.1)]
    have := List.append_inj hw hlen
    simp only [AgreeC]
    exact ⟨selfv_of_words self _ _ hT.1 hA.1 this.1,
      agreeL_ext fs cs _ _ h3 hl (fun s' _ hn => ho.1 s' hn) ho.2 hT.2 hA.2 this.2⟩
theorem agreeL_ext : ∀ (fs cs : List LCell) (T A : SNode), ExtL cs fs → LayOkL fs →
    (∀ s ∈ sitesOf fs, s ∉ sitesOf cs → lookupCell T.cells s = none) → OnlyL cs T → ConfSL cs T → ConfSL fs A →
    serCells cs T = serCells cs A → AgreeL fs T A
  | [], _, _, _, _, _, _, _, _, _, _ => by simp [AgreeL]
  | f :: fs, cs, T, A, h, hl, hs, ho, hT, hA, hw => by
    simp only [ExtL] at h
    simp only [LayOkL] at hl
    simp only [ConfSL] at hA
    simp only [AgreeL]
    rcases h with ⟨c, cs', rfl, h1, h2⟩ | ⟨h1, h2⟩
    · simp only [OnlyL] at ho
      simp only [ConfSL] at hT
      simp only [serCells] at hw
      have hcA : ConfS c A := confS_ext f c A h1 hA.1
      have hlen : (serCell c T).length = (serCell c A).length := by
        rw [serCell_length c T (confS_conf c T hT.1), serCell_length c A (confS_conf c A hcA)]
      have := List.append_inj hw hlen
      refine ⟨agreeC_ext f c T A h1 hl.1 ho.1 hT.1 hA.1 this.1,
        agreeL_ext fs cs' T A h2 hl.2.2 (fun s hsf hn => hs s ?_ ?_) ho.2 hT.2 hA.2 this.2⟩
      · simp [sitesOf, hsf]
      · simp only [sitesOf, List.mem_cons, not_or]
        refine ⟨?_, hn⟩
        rw [extC_site f c h1]
        intro e; exact hl.2.1 (e ▸ hsf)
    · have hnot : f.site ∉ sitesOf cs := fun hm => hl.2.1 (extL_sites fs cs h2 _ hm)
      have hnone : lookupCell T.cells f.site = none := hs f.site (by simp [sitesOf]) hnot
      refine ⟨?_, agreeL_ext fs cs T A h2 hl.2.2 (fun s hsf hn => hs s (by simp [sitesOf, hsf]) hn) ho hT hA.2 hw⟩
      have hT' : ConfS f T := confS_zero_empty f T h1 hnone
      refine agreeC_of_words f T A hT' hA.1 ?_
      have l1 := serCell_length f T (confS_conf f T hT')
      have l2 := serCell_length f A (confS_conf f A hA.1)
      rw [h1] at l1 l2
      rw [List.eq_nil_of_length_eq_zero l1, List.eq_nil_of_length_eq_zero l2]
end

/-! ### canonical trees have no cells outside their layout -/

theorem lookup_canon_notin : ∀ (cs : List LCell) (xs : List (Nat × SCell)), CanonCells cs xs →
    ∀ s, s ∉ sitesOf cs → lookupCell xs s = none
  | [], [], _, _, _ => rfl
  | [], _ :: _, h, _, _ => by simp [CanonCells] at h
  | _ :: _, [], h, _, _ => by simp [CanonCells] at h
  | c :: cs, x :: xs, h, s, hs => by
    simp only [CanonCells] at h
    simp only [sitesOf, List.mem_cons, not_or] at hs
    obtain ⟨k, cell⟩ := x
    have hk : k = c.site := canon_site c (k, cell) h.1
    have : (k == s) = false := by
      simp only [beq_eq_false_iff_ne, ne_eq, hk]; exact fun e => hs.1 e.symm
    simp [lookupCell, this, lookup_canon_notin cs xs h.2 s hs.2]

mutual
theorem onlyC_canon : ∀ (c : LCell) (x : Nat × SCell) (T : SNode), CanonCell c x → LayOk c →
    lookupCell T.cells c.site = some x.2 → OnlyC c T
  | .mem _, _, _, _, _, _ => by simp [OnlyC]
  | .delay _ _, _, _, _, _, _ => by simp [OnlyC]
  | .child s self ccs, (k, cell), T, h, hl, hlk => by
    cases cell with
    | mem _ => simp [CanonCell] at h
    | delay _ => simp [CanonCell] at h
    | child nd =>
      simp only [CanonCell] at h
      simp only [LayOk] at hl
      simp only [LCell.site] at hlk
      have hch : T.childAt s = nd := by simp [SNode.childAt, hlk]
      simp only [OnlyC, hch]
      exact ⟨lookup_canon_notin ccs nd.cells h.2.2, onlyL_canon ccs nd.cells nd h.2.2 hl (fun _ _ => rfl)⟩
theorem onlyL_canon : ∀ (cs : List LCell) (xs : List (Nat × SCell)) (T : SNode), CanonCells cs xs → LayOkL cs →
    (∀ s ∈ sitesOf cs, lookupCell T.cells s = lookupCell xs s) → OnlyL cs T
  | [], _, _, _, _, _ => by simp [OnlyL]
  | _ :: _, [], _, h, _, _ => by simp [CanonCells] at h
  | c :: cs, x :: xs, T, h, hl, hlk => by
    simp only [CanonCells] at h
    simp only [LayOkL] at hl
    obtain ⟨k, cell⟩ := x
    have hk : k = c.site := canon_site c (k, cell) h.1
    simp only [OnlyL]
    refine ⟨onlyC_canon c (k, cell) T h.1 hl.1 ?_, onlyL_canon cs xs T h.2 hl.2.2 ?_⟩
    · rw [hlk c.site (by simp [sitesOf])]
      simp [lookupCell, hk]
    · intro s hs
      rw [hlk s (by simp [sitesOf, hs])]
      have : (k == s) = false := by
        simp only [beq_eq_false_iff_ne, ne_eq, hk]; intro e; exact hl.2.1 (e ▸ hs)
      simp [lookupCell, this]
end

/-- **the tree read back under the published layout agrees, on the cells of the extended layout, with the tree whose words
it was read from** -/
theorem agree_deser_ser_ext (lay full : LNode) (hl : lay.Ok) (hf : full.Ok) (hself : full.self = lay.self)
    (hext : ExtL lay.cells full.cells) (A : SNode) (hA : ConformsS full A) :
    Agree full (deserialize lay (serialize lay A)) A := by
  have hAl : ConformsS lay A := ⟨hself ▸ hA.1, confSL_ext full.cells lay.cells A hext hA.2⟩
  have hlen : (serialize lay A).length = lay.size := serialize_length lay A (conformsS_conforms _ _ hAl)
  have hr := serialize_deserialize lay _ hl hlen
  have hT := canon_conformsS lay _ hl hr.2
  have hw := hr.1
  simp only [serialize] at hw
  have hlen2 : (selfWords lay.self (deserialize lay (serialize lay A))).length = (selfWords lay.self A).length := by
    rw [selfWords_length _ _ (selfOkS_selfOk _ _ hT.1), selfWords_length _ _ (selfOkS_selfOk _ _ hAl.1)]
  have hsplit := List.append_inj hw hlen2
  refine ⟨hself ▸ selfv_of_words lay.self _ A hT.1 hAl.1 hsplit.1, ?_⟩
  refine agreeL_ext full.cells lay.cells _ A hext hf ?_ ?_ hT.2 hA.2 hsplit.2
  · intro s _ hn
    exact lookup_canon_notin lay.cells _ hr.2.2 s hn
  · exact onlyL_canon lay.cells _ _ hr.2.2 hl (fun _ _ => rfl)

/-! ### the session theorem with two layouts: `lay` is what the swap serialises with, `full` is what the evaluator sees -/

theorem swapMany_same_ext (fuel : Nat) (sr : UInt64) (P : Prog) (lay full : LNode) (hpub : publishFn P P.dsp = some lay)
    (hl : lay.Ok) (hf : full.Ok) (hsf : full.self = lay.self) (hext : ExtL lay.cells full.cells)
    (mi : Machine) (hinit : Machine.init fuel P sr = .ok mi) (B : Machine)
    (hstore : B.store = mi.store) (hB : ConformsS full B.root) :
    ∀ (qs : List Prog), (∀ Q ∈ qs, Q = P) → ∀ (A : Machine), MAgree full A B →
      ∃ A', swapMany fuel sr qs P A = some (P, A') ∧ MAgree full A' B
  | [], _, A, h => ⟨A, rfl, h⟩
  | Q :: qs, hq, A, h => by
    have hQ : Q = P := hq Q (by simp)
    subst hQ
    have hA : ConformsS full A.root := conformsS_of_agree full _ _ h.2.2 hB
    have h1 : swapOne fuel sr Q A Q = some (Q, ⟨mi.store, deserialize lay (serialize lay A.root), A.t⟩) := by
      simp [swapOne, hpub, swapState_same Q lay hpub, hinit]
    have h2 : MAgree full ⟨mi.store, deserialize lay (serialize lay A.root), A.t⟩ B :=
      ⟨hstore.symm, h.2.1, Agree.trans (agree_deser_ser_ext lay full hl hf hsf hext _ hA) h.2.2⟩
    obtain ⟨A', e, hA'⟩ := swapMany_same_ext fuel sr Q lay full hpub hl hf hsf hext mi hinit B hstore hB qs
      (fun Q' hQ' => hq Q' (by simp [hQ'])) _ h2
    exact ⟨A', by simp [swapMany, h1, e], hA'⟩

/-- `sessionFrom_same_program` for a published layout `lay` and an extension `full` of it by stateless cells that covers
`dsp`'s body -/
theorem sessionFrom_same_program_ext (fuel : Nat) (sr : UInt64) (inputs : Nat → List UInt64) (P : Prog) (lay full : LNode)
    (hpub : publishFn P P.dsp = some lay) (hl : lay.Ok) (hf : full.Ok) (hsf : full.self = lay.self)
    (hext : ExtL lay.cells full.cells) (hself : P.dsp.selfShape = full.self)
    (hc : Covers P full.cells P.dsp.body) (mi : Machine) (hinit : Machine.init fuel P sr = .ok mi)
    (swaps : List (Nat × Prog)) (hsame : ∀ e ∈ swaps, e.2 = P) :
    ∀ (k : Nat) (A B : Machine), MAgree full A B →
      (∀ j m, machineAfter fuel P sr inputs j B = some m → m.store = mi.store ∧ ConformsS full m.root) →
      sessionFrom fuel sr swaps inputs k P A = sessionFrom fuel sr [] inputs k P B
  | 0, _, _, _, _ => rfl
  | k + 1, A, B, hag, hgood => by
    obtain ⟨hst, hconf⟩ := hgood 0 B rfl
    obtain ⟨A', e, hA'⟩ := swapMany_same_ext fuel sr P lay full hpub hl hf hsf hext mi hinit B hst hconf (eventsAt swaps A.t)
      (eventsAt_same swaps P hsame A.t) A hag
    have hs := step_agree fuel P sr full hf hself hc A' B (inputs B.t) hA'
    have e0 : swapMany fuel sr (eventsAt [] B.t) P B = some (P, B) := rfl
    rw [sessionFrom, sessionFrom, e, e0]
    simp only [hA'.2.1]
    cases h1 : Machine.step fuel P sr A' (inputs B.t) with
    | error e1 =>
      cases h2 : Machine.step fuel P sr B (inputs B.t) with
      | error e2 => rfl
      | ok r2 => simp [h1, h2, SRel] at hs
    | ok r1 =>
      cases h2 : Machine.step fuel P sr B (inputs B.t) with
      | error e2 => simp [h1, h2, SRel] at hs
      | ok r2 =>
        obtain ⟨o1, A1⟩ := r1
        obtain ⟨o2, B1⟩ := r2
        simp only [h1, h2, SRel] at hs
        have hg' : ∀ j m, machineAfter fuel P sr inputs j B1 = some m → m.store = mi.store ∧ ConformsS full m.root := by
          intro j m hm
          exact hgood (j + 1) m (by simp [machineAfter, h2, hm])
        simp only [hs.1, sessionFrom_same_program_ext fuel sr inputs P lay full hpub hl hf hsf hext hself hc mi hinit swaps
          hsame k A1 B1 hs.2 hg']

end Mimium.LiveCoding
