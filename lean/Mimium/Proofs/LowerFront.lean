import Mimium.Proofs.Lower
/-!
# Parser + lowering: the AST does not depend on trivia

`lowerParsed_layout`: `parse_trivia_independent` (the parse tree of two token lists that agree on the syntax-token kinds, the
line-break oracle and adjacency has the same shape and the same relabelled kinds) composed with `lowerGreen_congr` (the lowering
of trees of the same shape whose leaves show the same kinds and texts is the same).
-/
namespace Mimium.Lower
open Mimium.Gen (Kind SK)
open Mimium.Cst (Green)
open Mimium.Grammar Mimium.Preparse

/-- `parse_cst` then `lower_program` on a token list (kinds, lengths, texts) -/
def lowerParsed (ks : List Kind) (widths : List Nat) (texts : Array Sym) (fuel : Nat) : List (PStmt × Sp) :=
  let r := parse (mkEnv ks widths (preparse ks)) fuel ks.toArray
  match r.b.root with
  | some g => lowerGreen r.kinds texts g
  | none => []

/-- text of the `i`-th SYNTAX token -/
def tview (E : Env) (texts : Array Sym) (i : Nat) : Option Sym :=
  match E.idx[i]? with | none => none | some r => texts[r]?

theorem mkEnv_idx_toList (ks : List Kind) (widths : List Nat) :
    (mkEnv ks widths (preparse ks)).idx.toList = syntaxIndices 0 ks := by
  simp [mkEnv, preparse_tokenIndices]

theorem mkEnv_idx_getElem? (ks : List Kind) (widths : List Nat) (j : Nat) :
    (mkEnv ks widths (preparse ks)).idx[j]? = (syntaxIndices 0 ks)[j]? := by
  rw [← mkEnv_idx_toList ks widths]; simp

/-- the leaves (all syntax tokens, in order) show the same kinds and texts when the views agree -/
theorem syntax_info_eq (ks ks' : List Kind) (widths widths' : List Nat) (kinds kinds' : Array Kind) (texts texts' : Array Sym)
    (hsize : (syntaxIndices 0 ks).length = (syntaxIndices 0 ks').length)
    (hview : ∀ i, view (mkEnv ks widths (preparse ks)) kinds i = view (mkEnv ks' widths' (preparse ks')) kinds' i)
    (htext : ∀ i, tview (mkEnv ks widths (preparse ks)) texts i = tview (mkEnv ks' widths' (preparse ks')) texts' i) :
    (syntaxIndices 0 ks).map (tokInfo kinds texts) = (syntaxIndices 0 ks').map (tokInfo kinds' texts') := by
  apply List.ext_getElem?
  intro j
  have hv := hview j
  have ht := htext j
  simp only [view, tview, mkEnv_idx_getElem?] at hv ht
  simp only [List.getElem?_map]
  by_cases hj : j < (syntaxIndices 0 ks).length
  · have hj' : j < (syntaxIndices 0 ks').length := hsize ▸ hj
    rw [List.getElem?_eq_getElem hj, List.getElem?_eq_getElem hj'] at hv ht ⊢
    simp only [Option.map_some, tokInfo] at hv ht ⊢
    rw [hv, ht]
  · have hj' : ¬ j < (syntaxIndices 0 ks').length := hsize ▸ hj
    rw [List.getElem?_eq_none (Nat.le_of_not_lt hj), List.getElem?_eq_none (Nat.le_of_not_lt hj')]
    rfl

/-- LAYOUT INVARIANCE of parser + lowering -/
theorem lowerParsed_layout (ks ks' : List Kind) (widths widths' : List Nat) (texts texts' : Array Sym)
    (hw : widths.length = ks.length) (hw' : widths'.length = ks'.length) (fuel : Nat)
    (hsize : (mkEnv ks widths (preparse ks)).idx.size = (mkEnv ks' widths' (preparse ks')).idx.size)
    (hview : ∀ i, view (mkEnv ks widths (preparse ks)) ks.toArray i = view (mkEnv ks' widths' (preparse ks')) ks'.toArray i)
    (hnl : ∀ i, (mkEnv ks widths (preparse ks)).nl i = (mkEnv ks' widths' (preparse ks')).nl i)
    (hadj : ∀ i, adjacent (mkEnv ks widths (preparse ks)) i = adjacent (mkEnv ks' widths' (preparse ks')) i)
    (htext : ∀ i, tview (mkEnv ks widths (preparse ks)) texts i = tview (mkEnv ks' widths' (preparse ks')) texts' i) :
    lowerParsed ks widths texts fuel = lowerParsed ks' widths' texts' fuel := by
  have inc : ∀ (k : List Kind) (w : List Nat), IdxInc (mkEnv k w (preparse k)) := by
    intro k w
    apply idxInc_of_pairwise
    rw [mkEnv_idx_toList]; exact syntaxIndices_pairwise k 0
  obtain ⟨hshape, hcur, _, _, hkv⟩ := parse_trivia_independent _ _ (mkEnv_ok ks widths hw) (mkEnv_ok ks' widths' hw')
    (inc ks widths) (inc ks' widths') ks.toArray ks'.toArray fuel hsize hview hnl hadj
  obtain ⟨g, hg, _, hleaves, _⟩ := parse_tokens_spec ks widths hw fuel
  obtain ⟨g', hg', _, hleaves', _⟩ := parse_tokens_spec ks' widths' hw' fuel
  have hlen : (syntaxIndices 0 ks).length = (syntaxIndices 0 ks').length := by
    have := hsize
    rw [← Array.length_toList, ← Array.length_toList, mkEnv_idx_toList, mkEnv_idx_toList] at this
    exact this
  unfold lowerParsed
  simp only [hg, hg']
  rw [hg, hg'] at hshape
  apply lowerGreen_congr
  · simpa using hshape
  · rw [hleaves, hleaves', hcur, List.map_take, List.map_take, syntax_info_eq ks ks' widths widths' _ _ texts texts' hlen hkv htext]

end Mimium.Lower
