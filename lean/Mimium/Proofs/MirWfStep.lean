import Mimium.Proofs.MirWfCore
/-! One instruction: no `undefReg` / `badBlock` when its operands are defined; afterwards everything that was defined still is,
and so is the destination. -/
namespace Mimium.Mir
open Mimium.StateMachine Mimium.RustGen

/-- the invariant of the block walk: the register file has its size and the claimed registers are defined -/
def DInv (nregs : Nat) (D : List Nat) (regs : Array (Option Region)) : Prop :=
  regs.size = nregs + 1 ∧ ∀ r ∈ D, Defined regs r

theorem defined_set {regs : Array (Option Region)} {d r : Nat} {v : Region} (h : Defined regs r) :
    Defined (regs.setIfInBounds d (some v)) r := by
  obtain ⟨rg, hrg⟩ := h
  by_cases hdr : d = r
  · subst hdr
    have hlt : d < regs.size := by
      rcases Array.getElem?_eq_some_iff.mp hrg with ⟨hlt, _⟩; exact hlt
    exact ⟨v, Array.getElem?_setIfInBounds_self_of_lt hlt⟩
  · exact ⟨rg, by rw [Array.getElem?_setIfInBounds_ne hdr]; exact hrg⟩

theorem defined_set_self {regs : Array (Option Region)} {d : Nat} {v : Region} (h : d < regs.size) :
    Defined (regs.setIfInBounds d (some v)) d := ⟨v, Array.getElem?_setIfInBounds_self_of_lt h⟩

/-- what `bind` / an alias do to the invariant -/
theorem dinv_set {nregs : Nat} {D : List Nat} {regs : Array (Option Region)} (h : DInv nregs D regs) (d : Option Nat)
    (regs' : Array (Option Region))
    (hr : regs' = regs ∧ d = none ∨ ∃ d' v, d = some d' ∧ regs' = regs.setIfInBounds d' (some v)) :
    DInv nregs (addDst nregs D d) regs' := by
  rcases hr with ⟨h1, h2⟩ | ⟨d', v, h1, h2⟩
  · subst h1; subst h2; exact h
  · subst h1; subst h2
    refine ⟨by simp [h.1], ?_⟩
    intro r hr
    simp only [addDst] at hr
    split at hr
    · rename_i hle
      rcases List.mem_cons.mp hr with hrd | hrD
      · subst hrd; exact defined_set_self (by rw [h.1]; omega)
      · exact defined_set (h.2 r hrD)
    · exact defined_set (h.2 r hr)

theorem applyEff_regs (fr : Frame) (r : CoreRes) :
    (applyEff fr r).fr.regs = fr.regs ∧ r.2.2.dst = none ∨
    ∃ d v, r.2.2.dst = some d ∧ (applyEff fr r).fr.regs = fr.regs.setIfInBounds d (some v) := by
  obtain ⟨g, um, e⟩ := r
  cases e with
  | none => exact Or.inl ⟨rfl, rfl⟩
  | val d ws => exact Or.inr ⟨d, _, rfl, rfl⟩
  | alias d rg => exact Or.inr ⟨d, _, rfl, rfl⟩

theorem safe_stateOp (s : MSt) (op : SOp) : Safe (stateOp s op) := by
  unfold stateOp; split
  · exact Safe.stuck _
  · exact Safe.ok _

/-- instructions `execBlockM` hands to `stepIns` and `wfBlock` to `wfIns` -/
theorem safe_stepIns {callF : CallF} {P : Prog} (hcall : CallSafe callF) (i : Ins) (s : MSt) (lc : Option (Nat × Nat))
    (D : List Nat) (hwf : wfIns P lc D i = true) (hD : ∀ r ∈ D, Defined s.fr.regs r) (hlc : LcOkR lc s.rest) :
    Safe (stepIns callF P i s) := by
  by_cases hp : i.plain = true
  · rw [stepIns_plain_eq callF P i s hp]
    have := safe_stepCore hcall i s.rest lc D hwf hD hlc
    intro e he
    simp only [stepRest, Bind.bind, Except.bind, Except.map] at he
    cases hc : stepCore callF P i s.rest with
    | error e' => simp only [hc] at he; cases he; exact this _ hc
    | ok r => simp [hc] at he
  · have hu : ∀ r ∈ i.uses, Defined s.fr.regs r := by
      intro r hr
      refine hD r (subsetB_mem ?_ r hr)
      cases i <;> first | (simp [Ins.plain] at hp; done) | (simpa [wfIns] using hwf)
    cases i with
    | push k => exact Safe.bind (safe_stateOp _ _) (fun _ => Safe.ok _)
    | pop k => exact Safe.bind (safe_stateOp _ _) (fun _ => Safe.ok _)
    | getState d n => exact Safe.bind (safe_stateOp _ _) (fun _ => Safe.ok _)
    | mem d src =>
      exact Safe.bind (safe_readWord _ _ (fun r hr => hu r (by simp [Ins.uses, hr])))
        (fun _ => Safe.bind (safe_stateOp _ _) (fun _ => Safe.ok _))
    | delay d len src t =>
      exact Safe.bind (safe_readWord _ _ (fun r hr => hu r (by simp [Ins.uses, hr])))
        (fun _ => Safe.bind (safe_readWord _ _ (fun r hr => hu r (by simp [Ins.uses, hr])))
          (fun _ => Safe.bind (safe_stateOp _ _) (fun _ => Safe.ok _)))
    | call d f args n =>
      cases f with
      | reg r =>
        refine Safe.bind (safe_readArgs _ _ (fun r' hr => hu r' (by simp [Ins.uses, hr])))
          (fun _ => Safe.bind (safe_readWord _ _ (fun r' hr => hu r' (by simp [Ins.uses, opdRegs] at hr ⊢; exact Or.inl hr)))
            (fun _ => Safe.bind (hcall _ _ _ _ _ _) (fun _ => ?_)))
        split
        split
        · exact Safe.stuck _
        · exact Safe.ok _
      | _ => simp [Ins.plain] at hp
    | _ => simp [Ins.plain] at hp

theorem lcOkR_none (s : RSt) : LcOkR none s := by intro r w h; simp at h

theorem bind_regs (s : RSt) (d : Nat) (ws : List UInt64) :
    (bind s d ws).fr.regs = s.fr.regs.setIfInBounds d (some ⟨s.g.mem.size, ws.length⟩) := rfl

theorem stepIns_dinv {callF : CallF} {P : Prog} {i : Ins} {s s' : MSt} {nregs : Nat} {D : List Nat}
    (hstep : stepIns callF P i s = .ok s') (h : DInv nregs D s.fr.regs) :
    DInv nregs (addDst nregs D i.dst) s'.fr.regs ∧ LcOkR (lcAfter i) s'.rest := by
  by_cases hp : i.plain = true
  · rw [stepIns_plain_eq callF P i s hp] at hstep
    simp only [stepRest, Bind.bind, Except.bind, Except.map] at hstep
    cases hc : stepCore callF P i s.rest with
    | error e => simp [hc] at hstep
    | ok r =>
      simp only [hc, Except.ok.injEq] at hstep
      subst hstep
      have hdst := stepCore_dst hp hc
      refine ⟨?_, ?_⟩
      · refine dinv_set h i.dst _ ?_
        rcases applyEff_regs s.rest.fr r with ⟨h1, h2⟩ | ⟨d, v, h1, h2⟩
        · exact Or.inl ⟨h1, by rw [← hdst]; exact h2⟩
        · exact Or.inr ⟨d, v, by rw [← hdst]; exact h1, h2⟩
      · cases i with
        | const d w =>
          intro r' v hrv x hx
          simp only [lcAfter, Option.some.injEq, Prod.mk.injEq] at hrv
          obtain ⟨h1, h2⟩ := hrv
          subst h1; subst h2
          simp only [stepCore, res, Except.ok.injEq] at hc
          subst hc
          have := readWord_bind_const' s.rest d w x (by simpa [MSt.rest, MSt.withRest, applyEff] using hx)
          rw [this]
        | _ => exact lcOkR_none _
  · cases i with
    | push k =>
      simp only [stepIns, Bind.bind, Except.bind] at hstep
      cases hop : stateOp s (.push k) with
      | error e => simp [hop] at hstep
      | ok p =>
        simp only [hop, Except.ok.injEq] at hstep
        subst hstep
        obtain ⟨hfr, _, _, _⟩ := stateOp_ok (s' := p.1) (out := p.2) hop
        exact ⟨by rw [hfr]; exact h, lcOkR_none _⟩
    | pop k =>
      simp only [stepIns, Bind.bind, Except.bind] at hstep
      cases hop : stateOp s (.pop k) with
      | error e => simp [hop] at hstep
      | ok p =>
        simp only [hop, Except.ok.injEq] at hstep
        subst hstep
        obtain ⟨hfr, _, _, _⟩ := stateOp_ok (s' := p.1) (out := p.2) hop
        exact ⟨by rw [hfr]; exact h, lcOkR_none _⟩
    | getState d n =>
      simp only [stepIns, Bind.bind, Except.bind] at hstep
      cases hop : stateOp s (.get n) with
      | error e => simp [hop] at hstep
      | ok p =>
        obtain ⟨s1, ws⟩ := p
        simp only [hop, Except.ok.injEq] at hstep
        subst hstep
        obtain ⟨hfr, _, _, _⟩ := stateOp_ok hop
        refine ⟨dinv_set h _ _ (Or.inr ⟨d, ⟨s1.g.mem.size, ws.length⟩, rfl, ?_⟩), lcOkR_none _⟩
        show (bind s1.rest d ws).fr.regs = _
        rw [bind_regs, MSt.rest, hfr]
    | mem d src =>
      simp only [stepIns, Bind.bind, Except.bind] at hstep
      cases hx : readWord s.rest src with
      | error e => simp [hx] at hstep
      | ok x =>
        simp only [hx] at hstep
        cases hop : stateOp s (.mem x) with
        | error e => simp [hop] at hstep
        | ok p =>
          obtain ⟨s1, ws⟩ := p
          simp only [hop, Except.ok.injEq] at hstep
          subst hstep
          obtain ⟨hfr, _, _, _⟩ := stateOp_ok hop
          refine ⟨dinv_set h _ _ (Or.inr ⟨d, ⟨s1.g.mem.size, ws.length⟩, rfl, ?_⟩), lcOkR_none _⟩
          show (bind s1.rest d ws).fr.regs = _
          rw [bind_regs, MSt.rest, hfr]
    | delay d len src t =>
      simp only [stepIns, Bind.bind, Except.bind] at hstep
      cases hx : readWord s.rest src with
      | error e => simp [hx] at hstep
      | ok x =>
        simp only [hx] at hstep
        cases ht : readWord s.rest t with
        | error e => simp [ht] at hstep
        | ok tv =>
          simp only [ht] at hstep
          cases hop : stateOp s (.delay len x tv) with
          | error e => simp [hop] at hstep
          | ok p =>
            obtain ⟨s1, ws⟩ := p
            simp only [hop, Except.ok.injEq] at hstep
            subst hstep
            obtain ⟨hfr, _, _, _⟩ := stateOp_ok hop
            refine ⟨dinv_set h _ _ (Or.inr ⟨d, ⟨s1.g.mem.size, ws.length⟩, rfl, ?_⟩), lcOkR_none _⟩
            show (bind s1.rest d ws).fr.regs = _
            rw [bind_regs, MSt.rest, hfr]
    | call d f args n =>
      cases f with
      | reg r =>
        simp only [stepIns, Bind.bind, Except.bind] at hstep
        cases hargs : readArgs s.rest args with
        | error e => simp [hargs] at hstep
        | ok ws =>
          simp only [hargs] at hstep
          cases hw : readWord s.rest (.reg r) with
          | error e => simp [hw] at hstep
          | ok w =>
            simp only [hw] at hstep
            cases hcall : callF w.toNat ws none s.g s.st s.tr with
            | error e => simp [hcall] at hstep
            | ok res =>
              obtain ⟨out, g', st', tr'⟩ := res
              simp only [hcall] at hstep
              split at hstep
              · simp at hstep
              · simp only [Except.ok.injEq] at hstep
                subst hstep
                exact ⟨dinv_set h _ _ (Or.inr ⟨d, ⟨g'.mem.size, (out.take n).length⟩, rfl, rfl⟩), lcOkR_none _⟩
      | _ => simp [Ins.plain] at hp
    | _ => simp [Ins.plain] at hp

end Mimium.Mir
