import Mimium.Proofs.CstPrintContent
import Mimium.Model.CstStrict
/-!
# Shape ⇒ `ok` tests, for `print_grouped_list`: a list node `open item (, item)* ,? close` passes every test of the loop

`ItemOk`: the children of one list item — not empty, brackets balanced, no comma and no closing bracket at depth 0 (`itemRun`).
`SepTail`: what the `while self.check(Comma)` loops of the parser leave: `(, item)*` with an optional trailing comma.
-/
namespace Mimium.CstPrint
open Mimium.Gen (Kind SK)
open Mimium.Cst (Green)
open SDoc

theorem chL_append (c : Ctx) (a b : List Green) : chL c (a ++ b) = chL c a ++ chL c b := by
  induction a with
  | nil => rfl
  | cons x xs ih => simp [chL, ih]

theorem chL_singleton (c : Ctx) (g : Green) : chL c [g] = [(g, cstToDoc c g)] := rfl

theorem allOk_append {σ : Type} (step : σ → Ch → σ) (ok : σ → Ch → Bool) (st : σ) (a b : List Ch) :
    allOk step ok st (a ++ b) = (allOk step ok st a && allOk step ok (a.foldl step st) b) := by
  induction a generalizing st with
  | nil => simp [allOk]
  | cons x xs ih => simp [allOk, ih, Bool.and_assoc]

/-- a token child of the given original kind -/
def IsTok (c : Ctx) (k : Kind) (g : Green) : Prop := ∃ i w, g = .token i w ∧ c.kind i = k

def IsNode (g : Green) : Prop := ∃ k a, g = .node k a

/-- bracket depth after the children of one list item; `none`: a comma or a closing bracket at depth 0 -/
def itemRun (c : Ctx) : Nat → List Green → Option Nat
  | d, [] => some d
  | d, .node _ _ :: gs => itemRun c d gs
  | d, .token i _ :: gs =>
    if isOpenDelim (c.kind i) then itemRun c (d + 1) gs
    else if isCloseDelim (c.kind i) then (if d > 0 then itemRun c (d - 1) gs else none)
    else if c.kind i == .Comma && d == 0 then none
    else itemRun c d gs

def ItemOk (c : Ctx) (w : List Green) : Prop := w ≠ [] ∧ itemRun c 0 w = some 0

/-- `(, item)*` with an optional trailing comma -/
inductive SepTail (c : Ctx) (P : List Green → Prop) : List Green → Prop
  | nil : SepTail c P []
  | trail (g : Green) : IsTok c .Comma g → SepTail c P [g]
  | cons (g : Green) (item tail : List Green) : IsTok c .Comma g → P item → SepTail c P tail → SepTail c P (g :: (item ++ tail))

theorem SepTail.mono {c : Ctx} {P Q : List Green → Prop} (h : ∀ w, P w → Q w) {w : List Green} (hw : SepTail c P w) : SepTail c Q w := by
  induction hw with
  | nil => exact .nil
  | trail g hg => exact .trail g hg
  | cons g item tail hg hp _ ih => exact .cons g item tail hg (h _ hp) ih

/-- the control part of the loop state between the delimiters -/
structure LInv (st : ListSt) (d : Nat) : Prop where
  fo : st.foundOpen = true
  cl : st.closeDoc = nil
  len : st.seps.length = st.items.length
  dep : st.depth = d

theorem emp_nil (c : Ctx) : emp c nil = true := rfl

section Steps
variable (c : Ctx)

theorem lstep_node (st : ListSt) (d : Nat) (h : LInv st d) (k : Nat) (gs : List Green) (doc : SDoc) :
    listOk c st (.node k gs, doc) = true ∧ LInv (listStep c st (.node k gs, doc)) d ∧
      (listStep c st (.node k gs, doc)).current.isSome = true := by
  refine ⟨by simp [listOk, h.fo, h.cl, emp_nil, h.len], ?_, ?_⟩
  · simp only [listStep, listOther, h.fo, if_true]
    refine ⟨?_, ?_, ?_, ?_⟩ <;> simp [h.fo, h.cl, h.len, h.dep]
  · simp [listStep, listOther, h.fo]

theorem lstep_open (st : ListSt) (d : Nat) (h : LInv st d) (i w : Nat) (doc : SDoc) (hk : isOpenDelim (c.kind i) = true) :
    listOk c st (.token i w, doc) = true ∧ LInv (listStep c st (.token i w, doc)) (d + 1) ∧
      (listStep c st (.token i w, doc)).current.isSome = true := by
  refine ⟨by simp [listOk, hk, h.fo, h.cl, emp_nil, h.len], ?_, ?_⟩
  · simp only [listStep, listOther, hk, h.fo, Bool.and_self, if_true]
    refine ⟨?_, ?_, ?_, ?_⟩ <;> simp [h.fo, h.cl, h.len, h.dep]
  · simp [listStep, listOther, hk, h.fo]

theorem lstep_close_inner (st : ListSt) (d : Nat) (h : LInv st (d + 1)) (i w : Nat) (doc : SDoc)
    (hk : isCloseDelim (c.kind i) = true) :
    listOk c st (.token i w, doc) = true ∧ LInv (listStep c st (.token i w, doc)) d ∧
      (listStep c st (.token i w, doc)).current.isSome = true := by
  have ho : isOpenDelim (c.kind i) = false := by
    revert hk; cases c.kind i <;> simp [isOpenDelim, isCloseDelim]
  have hd : decide (st.depth > 0) = true := by simp [h.dep]
  refine ⟨by simp [listOk, ho, hk, hd, h.fo, h.cl, emp_nil, h.len], ?_, ?_⟩
  · simp only [listStep, listOther, ho, hk, hd, h.fo, Bool.false_and, Bool.false_eq_true, if_false, Bool.and_self, if_true]
    refine ⟨?_, ?_, ?_, ?_⟩ <;> simp [h.fo, h.cl, h.len, h.dep]
  · simp [listStep, listOther, ho, hk, hd, h.fo]

theorem lstep_other (st : ListSt) (d : Nat) (h : LInv st d) (i w : Nat) (doc : SDoc)
    (ho : isOpenDelim (c.kind i) = false) (hc : isCloseDelim (c.kind i) = false) (hcm : (c.kind i == .Comma && d == 0) = false) :
    listOk c st (.token i w, doc) = true ∧ LInv (listStep c st (.token i w, doc)) d ∧
      (listStep c st (.token i w, doc)).current.isSome = true := by
  have hcm' : (c.kind i == .Comma && st.depth == 0) = false := by rw [h.dep]; exact hcm
  refine ⟨by simp [listOk, ho, hc, hcm', h.fo, h.cl, emp_nil, h.len], ?_, ?_⟩
  · simp only [listStep, listOther, ho, hc, hcm', h.fo, Bool.false_and, Bool.false_eq_true, if_false, if_true]
    refine ⟨?_, ?_, ?_, ?_⟩ <;> simp [h.fo, h.cl, h.len, h.dep]
  · simp [listStep, listOther, ho, hc, hcm', h.fo]

theorem lstep_comma (st : ListSt) (h : LInv st 0) (hcur : st.current.isSome = true) (i w : Nat) (doc : SDoc)
    (hk : c.kind i = .Comma) :
    listOk c st (.token i w, doc) = true ∧ LInv (listStep c st (.token i w, doc)) 0 := by
  have ho : isOpenDelim (c.kind i) = false := by rw [hk]; rfl
  have hc : isCloseDelim (c.kind i) = false := by rw [hk]; rfl
  have hcm : (c.kind i == .Comma && st.depth == 0) = true := by simp [hk, h.dep]
  obtain ⟨item, hitem⟩ := Option.isSome_iff_exists.mp hcur
  refine ⟨by simp [listOk, ho, hc, hcm, h.cl, emp_nil, h.len, hcur], ?_⟩
  simp only [listStep, ho, hc, hcm, Bool.false_and, Bool.false_eq_true, if_false, if_true, hitem]
  rw [pushCommaComments_eq c st.seps _ i (by simp [h.len])]
  refine ⟨?_, ?_, ?_, ?_⟩ <;> simp [h.fo, h.cl, h.len, h.dep]

theorem lstep_close_final (st : ListSt) (h : LInv st 0) (i w : Nat) (doc : SDoc) (hk : isCloseDelim (c.kind i) = true) :
    listOk c st (.token i w, doc) = true := by
  have ho : isOpenDelim (c.kind i) = false := by
    revert hk; cases c.kind i <;> simp [isOpenDelim, isCloseDelim]
  have hd : decide (st.depth > 0) = false := by simp [h.dep]
  simp [listOk, ho, hk, hd, h.cl, emp_nil]

theorem lstep_first (i w : Nat) (doc : SDoc) (hk : isOpenDelim (c.kind i) = true) :
    listOk c {} (.token i w, doc) = true ∧ LInv (listStep c {} (.token i w, doc)) 0 ∧
      (listStep c {} (.token i w, doc)).current = none := by
  refine ⟨by simp [listOk, hk, emp_nil], ?_, ?_⟩
  · simp only [listStep, hk, Bool.and_false, Bool.false_eq_true, if_false, if_true]
    exact ⟨rfl, rfl, rfl, rfl⟩
  · simp [listStep, hk]

/-- the children of an item -/
theorem litem (w : List Green) : ∀ (st : ListSt) (d d' : Nat), LInv st d → itemRun c d w = some d' →
    allOk (listStep c) (listOk c) st (chL c w) = true ∧ LInv ((chL c w).foldl (listStep c) st) d' ∧
    ((w ≠ [] ∨ st.current.isSome = true) → ((chL c w).foldl (listStep c) st).current.isSome = true) := by
  induction w with
  | nil =>
    intro st d d' h hr
    simp only [itemRun, Option.some.injEq] at hr
    subst hr
    exact ⟨rfl, h, fun hh => by rcases hh with hh | hh; exact absurd rfl hh; exact hh⟩
  | cons g gs ih =>
    intro st d d' h hr
    cases g with
    | node k a =>
      simp only [itemRun] at hr
      obtain ⟨o1, o2, o3⟩ := lstep_node c st d h k a (cstToDoc c (.node k a))
      obtain ⟨i1, i2, i3⟩ := ih _ d d' o2 hr
      simp only [chL, allOk, List.foldl_cons, o1, Bool.true_and]
      exact ⟨i1, i2, fun _ => i3 (Or.inr o3)⟩
    | token i w =>
      simp only [itemRun] at hr
      by_cases ho : isOpenDelim (c.kind i) = true
      · simp only [ho, if_true] at hr
        obtain ⟨o1, o2, o3⟩ := lstep_open c st d h i w (cstToDoc c (.token i w)) ho
        obtain ⟨i1, i2, i3⟩ := ih _ (d + 1) d' o2 hr
        simp only [chL, allOk, List.foldl_cons, o1, Bool.true_and]
        exact ⟨i1, i2, fun _ => i3 (Or.inr o3)⟩
      · have ho' : isOpenDelim (c.kind i) = false := by simpa using ho
        simp only [ho', Bool.false_eq_true, if_false] at hr
        by_cases hc : isCloseDelim (c.kind i) = true
        · simp only [hc, if_true] at hr
          cases d with
          | zero => simp at hr
          | succ d0 =>
            simp only [Nat.zero_lt_succ, decide_true, if_true, Nat.add_sub_cancel, gt_iff_lt] at hr
            obtain ⟨o1, o2, o3⟩ := lstep_close_inner c st d0 h i w (cstToDoc c (.token i w)) hc
            obtain ⟨i1, i2, i3⟩ := ih _ d0 d' o2 hr
            simp only [chL, allOk, List.foldl_cons, o1, Bool.true_and]
            exact ⟨i1, i2, fun _ => i3 (Or.inr o3)⟩
        · have hc' : isCloseDelim (c.kind i) = false := by simpa using hc
          simp only [hc', Bool.false_eq_true, if_false] at hr
          by_cases hcm : (c.kind i == .Comma && d == 0) = true
          · simp [hcm] at hr
          · have hcm' : (c.kind i == .Comma && d == 0) = false := by simpa using hcm
            simp only [hcm', Bool.false_eq_true, if_false] at hr
            obtain ⟨o1, o2, o3⟩ := lstep_other c st d h i w (cstToDoc c (.token i w)) ho' hc' hcm'
            obtain ⟨i1, i2, i3⟩ := ih _ d d' o2 hr
            simp only [chL, allOk, List.foldl_cons, o1, Bool.true_and]
            exact ⟨i1, i2, fun _ => i3 (Or.inr o3)⟩

/-- `(, item)* ,?` after an item -/
theorem ltail (w : List Green) (hw : SepTail c (ItemOk c) w) : ∀ (st : ListSt), LInv st 0 → st.current.isSome = true →
    allOk (listStep c) (listOk c) st (chL c w) = true ∧ LInv ((chL c w).foldl (listStep c) st) 0 := by
  induction hw with
  | nil => intro st h _; exact ⟨rfl, h⟩
  | trail g hg =>
    intro st h hcur
    obtain ⟨i, w, rfl, hk⟩ := hg
    obtain ⟨o1, o2⟩ := lstep_comma c st h hcur i w (cstToDoc c (.token i w)) hk
    simp only [chL, allOk, List.foldl_cons, List.foldl_nil, o1, Bool.true_and]
    exact ⟨trivial, o2⟩
  | cons g item tail hg hitem _ ih =>
    intro st h hcur
    obtain ⟨i, w, rfl, hk⟩ := hg
    obtain ⟨o1, o2⟩ := lstep_comma c st h hcur i w (cstToDoc c (.token i w)) hk
    obtain ⟨i1, i2, i3⟩ := litem c item _ 0 0 o2 hitem.2
    obtain ⟨t1, t2⟩ := ih _ i2 (i3 (Or.inl hitem.1))
    simp only [chL, allOk, List.foldl_cons, o1, Bool.true_and, chL_append, allOk_append, List.foldl_append, i1, t1]
    exact ⟨trivial, t2⟩

/-- the body of a list: nothing, or `item (, item)* ,?` -/
def ListBody (w : List Green) : Prop := w = [] ∨ ∃ item tail, w = item ++ tail ∧ ItemOk c item ∧ SepTail c (ItemOk c) tail

/-- a list node: opening delimiter, body, closing delimiter -/
def ListShape (cs : List Green) : Prop :=
  ∃ o body cl io wo ic wc, cs = o :: (body ++ [cl]) ∧ o = .token io wo ∧ isOpenDelim (c.kind io) = true ∧
    cl = .token ic wc ∧ isCloseDelim (c.kind ic) = true ∧ ListBody c body

theorem listShape_ok (cs : List Green) (h : ListShape c cs) : allOk (listStep c) (listOk c) {} (chL c cs) = true := by
  obtain ⟨o, body, cl, io, wo, ic, wc, rfl, rfl, ho, rfl, hc, hb⟩ := h
  obtain ⟨f1, f2, f3⟩ := lstep_first c io wo (cstToDoc c (.token io wo)) ho
  simp only [chL, allOk, List.foldl_cons, f1, Bool.true_and, chL_append, allOk_append, Bool.and_eq_true]
  rcases hb with rfl | ⟨item, tail, rfl, hitem, htail⟩
  · have hf := lstep_close_final c _ f2 ic wc (cstToDoc c (.token ic wc)) hc
    simp [chL, allOk, hf]
  · obtain ⟨i1, i2, i3⟩ := litem c item _ 0 0 f2 hitem.2
    obtain ⟨t1, t2⟩ := ltail c tail htail _ i2 (i3 (Or.inl hitem.1))
    have hf := lstep_close_final c _ t2 ic wc (cstToDoc c (.token ic wc)) hc
    simp [chL_append, allOk_append, List.foldl_append, i1, t1, chL, allOk, hf]

end Steps

end Mimium.CstPrint
