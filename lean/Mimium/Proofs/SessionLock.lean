import Mimium.Model.SessionLock
/-! Lock discipline lemmas for `Model/SessionLock.lean` (used by `Props/C19.lean`). -/
namespace Mimium.SessionLock

theorem good_start (todo : Nat → Nat) : Good (start todo) := by
  refine ⟨?_, ?_, ?_⟩ <;> intro j <;> simp [start]

theorem set_same {β : Type} (f : Nat → β) (j : Nat) (v : β) : set f j v j = v := by simp [set]
theorem set_other {β : Type} (f : Nat → β) {j k : Nat} (v : β) (h : k ≠ j) : set f j v k = f k := by simp [set, h]

theorem good_step {a b : LSt} (g : Good a) (s : Step a b) : Good b := by
  cases s with
  | acquire j hnone hidle htodo =>
    refine ⟨?_, ?_, ?_⟩
    · intro k hk
      have : j = k := Option.some.inj hk
      subst this; exact set_same _ _ _
    · intro k hk
      by_cases e : k = j
      · subst e; rfl
      · have hk' : a.phase k = .inside := by rw [← set_other a.phase .inside e]; exact hk
        have := g.2.1 k hk'; rw [hnone] at this; cases this
    · intro k
      by_cases e : k = j
      · subst e; show set a.phase k .inside k ≠ .nested; rw [set_same]; simp
      · show set a.phase j .inside k ≠ .nested; rw [set_other _ _ e]; exact g.2.2 k
  | release j hh hin =>
    refine ⟨?_, ?_, ?_⟩
    · intro k hk; cases hk
    · intro k hk
      by_cases e : k = j
      · subst e
        have : set a.phase k .idle k = .inside := hk
        rw [set_same] at this; cases this
      · have hk' : a.phase k = .inside := by rw [← set_other a.phase .idle e]; exact hk
        have := g.2.1 k hk'; rw [hh] at this
        exact absurd (Option.some.inj this).symm e
    · intro k
      by_cases e : k = j
      · subst e; show set a.phase k .idle k ≠ .nested; rw [set_same]; simp
      · show set a.phase j .idle k ≠ .nested; rw [set_other _ _ e]; exact g.2.2 k

theorem good_reach {s0 st : LSt} (g : Good s0) (r : Reach s0 st) : Good st := by
  induction r with
  | refl => exact g
  | step _ s ih => exact good_step ih s

end Mimium.SessionLock
