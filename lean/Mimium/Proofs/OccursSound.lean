import Mimium.Proofs.Occurs
/-! Soundness of the `||` occurs check (an answer `false` means that the variable cannot be reached from the type through
`vars` and parent pointers — on ANY store), and: binding a variable to a type from which it cannot be reached keeps the
store acyclic. -/
namespace Mimium.Occurs

/-- `RV σ w v`: from variable `w` one gets to variable `v` by following parent pointers and picking a variable of the parent -/
inductive RV (σ : Store) : Nat → Nat → Prop where
  | refl (w : Nat) : RV σ w w
  | step {w u v : Nat} {p : Ty} : parent σ w = some p → u ∈ vars p → RV σ u v → RV σ w v

/-- `v` can be reached from the type `t` -/
def Reach (σ : Store) (v : Nat) (t : Ty) : Prop := ∃ w ∈ vars t, RV σ w v

theorem RV.trans {σ : Store} {a b c : Nat} (h1 : RV σ a b) (h2 : RV σ b c) : RV σ a c := by
  induction h1 with
  | refl => exact h2
  | step hp hu _ ih => exact .step hp hu (ih h2)

/-- from an unbound variable one gets nowhere -/
theorem RV.of_unbound {σ : Store} {w v : Nat} (hp : parent σ w = none) (h : RV σ w v) : w = v := by
  cases h with
  | refl => rfl
  | step h1 _ _ => rw [hp] at h1; cases h1

/-- ranks do not increase along a path -/
theorem RV.rank_le {σ : Store} {rk : Nat → Nat} (hrk : ∀ v t, parent σ v = some t → ∀ w ∈ vars t, rk w < rk v)
    {w v : Nat} (h : RV σ w v) : rk v ≤ rk w := by
  induction h with
  | refl => exact Nat.le_refl _
  | step hp hu _ ih => have := hrk _ _ hp _ hu; omega

/-- on an acyclic store no variable of a parent leads back to the bound variable -/
theorem not_rv_of_acyclic {σ : Store} (h : Acyclic σ) {v u : Nat} {p : Ty} (hp : parent σ v = some p) (hu : u ∈ vars p) :
    ¬ RV σ u v := by
  obtain ⟨rk, hrk⟩ := h
  intro hr
  have h1 := RV.rank_le hrk hr
  have h2 := hrk v p hp u hu
  omega

/-- SOUNDNESS of the `||` form, on every store: if the check answers `false`, `v` cannot be reached from `t`. -/
theorem occ_sound (σ : Store) (v : Nat) : ∀ (fuel : Nat) (t : Ty), occ σ false v fuel t = some false →
    ∀ w ∈ vars t, ¬ RV σ w v := by
  intro fuel
  induction fuel with
  | zero => intro t h; simp [occ] at h
  | succ f ih =>
    intro t h w hw hr
    cases t with
    | other => simp [vars] at hw
    | var u =>
      simp only [vars, List.mem_singleton] at hw
      subst hw
      simp only [occ] at h
      cases hp : parent σ w with
      | none =>
        simp only [hp] at h
        have := RV.of_unbound hp hr
        subst this
        simp at h
      | some p =>
        simp only [hp] at h
        by_cases he : v = w
        · simp [he] at h
        · simp only [he, if_false] at h
          cases hr with
          | refl => exact he rfl
          | step h1 h2 h3 =>
            rw [hp] at h1
            cases h1
            exact ih p h _ h2 h3
    | unary t =>
      simp only [occ] at h
      exact ih t h w (by simpa [vars] using hw) hr
    | anyOf a b =>
      simp only [occ] at h
      cases ha : occ σ false v f a with
      | none => simp [ha] at h
      | some x =>
        cases x with
        | true => simp [ha] at h
        | false =>
          simp only [ha] at h
          simp only [vars, List.mem_append] at hw
          rcases hw with hw | hw
          · exact ih a ha w hw hr
          · exact ih b h w hw hr
    | fn a r =>
      simp only [occ] at h
      cases ha : occ σ false v f a with
      | none => simp [ha] at h
      | some x =>
        cases x with
        | true => simp [ha] at h
        | false =>
          simp [ha] at h
          simp only [vars, List.mem_append] at hw
          rcases hw with hw | hw
          · exact ih a ha w hw hr
          · exact ih r h w hw hr

theorem occ_sound_reach (σ : Store) (v fuel : Nat) (t : Ty) (h : occ σ false v fuel t = some false) : ¬ Reach σ v t := by
  rintro ⟨w, hw, hr⟩
  exact occ_sound σ v fuel t h w hw hr

/-- COMPLETENESS of the `||` form, on every store: an answer `true` exhibits a path. -/
theorem occ_complete (σ : Store) (v : Nat) : ∀ (fuel : Nat) (t : Ty), occ σ false v fuel t = some true → Reach σ v t := by
  intro fuel
  induction fuel with
  | zero => intro t h; simp [occ] at h
  | succ f ih =>
    intro t h
    cases t with
    | other => simp [occ] at h
    | var u =>
      simp only [occ] at h
      cases hp : parent σ u with
      | none =>
        simp only [hp] at h
        have : v = u := by simpa using h
        subst this
        exact ⟨v, by simp [vars], .refl v⟩
      | some p =>
        simp only [hp] at h
        by_cases he : v = u
        · subst he; exact ⟨v, by simp [vars], .refl v⟩
        · simp only [he, if_false] at h
          obtain ⟨w, hw, hr⟩ := ih p h
          exact ⟨u, by simp [vars], .step hp hw hr⟩
    | unary t =>
      simp only [occ] at h
      obtain ⟨w, hw, hr⟩ := ih t h
      exact ⟨w, by simpa [vars] using hw, hr⟩
    | anyOf a b =>
      simp only [occ] at h
      cases ha : occ σ false v f a with
      | none => simp [ha] at h
      | some x =>
        cases x with
        | true =>
          obtain ⟨w, hw, hr⟩ := ih a ha
          exact ⟨w, by simp [vars, hw], hr⟩
        | false =>
          simp only [ha] at h
          obtain ⟨w, hw, hr⟩ := ih b h
          exact ⟨w, by simp [vars, hw], hr⟩
    | fn a r =>
      simp only [occ] at h
      cases ha : occ σ false v f a with
      | none => simp [ha] at h
      | some x =>
        cases x with
        | true =>
          obtain ⟨w, hw, hr⟩ := ih a ha
          exact ⟨w, by simp [vars, hw], hr⟩
        | false =>
          simp [ha] at h
          obtain ⟨w, hw, hr⟩ := ih r h
          exact ⟨w, by simp [vars, hw], hr⟩

/-- a bound above the ranks of a list of variables -/
theorem rank_bound (rk : Nat → Nat) (l : List Nat) : ∃ n, ∀ w ∈ l, rk w < n := by
  induction l with
  | nil => exact ⟨0, by simp⟩
  | cons x xs ih =>
    obtain ⟨n, hn⟩ := ih
    refine ⟨max n (rk x + 1), ?_⟩
    intro w hw
    rcases List.mem_cons.mp hw with rfl | hw
    · omega
    · have := hn w hw; omega

/-- RANKING ARGUMENT: (re)binding `v` to a type from which `v` cannot be reached keeps the store acyclic — lift everything
that leads to `v` above the variables of `t`. No assumption on whether `v` was bound before (an older binding is shadowed). -/
theorem acyclic_cons (σ : Store) (v : Nat) (t : Ty) (h : Acyclic σ) (hn : ∀ w ∈ vars t, ¬ RV σ w v) :
    Acyclic ((v, t) :: σ) := by
  classical
  obtain ⟨rk, hrk⟩ := h
  obtain ⟨M, hM⟩ := rank_bound rk (vars t)
  refine ⟨fun u => if RV σ u v then rk u + M else rk u, ?_⟩
  intro u p hp w hw
  simp only [parent] at hp
  by_cases huv : v = u
  · subst huv
    simp only [if_true, Option.some.injEq] at hp
    subst hp
    have h1 := hn w hw
    have h2 := hM w hw
    simp only [h1, if_false, RV.refl, if_true]
    omega
  · simp only [huv, if_false] at hp
    have hlt := hrk u p hp w hw
    by_cases hwv : RV σ w v
    · have huv' : RV σ u v := .step hp hw hwv
      simp only [hwv, huv', if_true]
      omega
    · simp only [hwv, if_false]
      split <;> omega

theorem acyclic_nil : Acyclic [] := ⟨fun _ => 0, by intro v t h; simp [parent] at h⟩

end Mimium.Occurs
