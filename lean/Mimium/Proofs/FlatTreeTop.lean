import Mimium.Proofs.FlatTreeRun
import Mimium.Proofs.FlatTreeTrace
import Mimium.Proofs.FlatTreeRound
/-!
Node-level consequences of the mutual induction: one whole call, one cell of a node at its layout offset, `self`
get / set, several calls in a row.
-/
namespace Mimium.FlatTree
open Mimium.Core Mimium.Cells Mimium.StateTree Mimium.Layout Mimium.StateMachine

/-- one whole call of a function instance whose region starts at `pre.length` -/
theorem flat_node (lay : LNode) (pay : NPay) (st : SNode) (pre post : List UInt64)
    (hl : lay.Ok) (hc : Conforms lay st) (hp : NPayOk lay pay) :
    vmRun ⟨pre.length, pre ++ serialize lay st ++ post⟩ (flatNode lay pay) =
      some (⟨pre.length, pre ++ serialize lay (treeNode lay pay st).1 ++ post⟩, (treeNode lay pay st).2)
    ∧ Conforms lay (treeNode lay pay st).1 := by
  have hcells : CellsSpec lay.cells pay.cells := fun st base off pre post hconf hlen =>
    flat_cells lay.cells pay.cells st base off pre post hl hconf hp.2 hlen
  have := flat_nodeWith lay.self lay.cells pay.cells pay.ret hcells st pre post hc.1 hc.2 hp.1
  exact ⟨this.1, this.2.1, this.2.2⟩

/-- several calls in a row: the flat machine started on the serialised tree never leaves the storage and
produces the tree semantics' outputs -/
theorem flat_run (lay : LNode) (hl : lay.Ok) : ∀ (pays : List NPay) (st : SNode) (pre post : List UInt64),
    Conforms lay st → (∀ p ∈ pays, NPayOk lay p) →
    flatRun lay pays ⟨pre.length, pre ++ serialize lay st ++ post⟩ = some (treeRun lay pays st)
  | [], _, _, _, _, _ => by simp [flatRun, treeRun]
  | p :: ps, st, pre, post, hc, hp => by
    have h1 := flat_node lay p st pre post hl hc (hp p (by simp))
    have h2 := flat_run lay hl ps (treeNode lay p st).1 pre post h1.2 (fun q hq => hp q (by simp [hq]))
    simp only [flatRun, treeRun, h1.1, h2, Option.map_some]

theorem serCells_append : ∀ (a b : List LCell) (st : SNode), serCells (a ++ b) st = serCells a st ++ serCells b st
  | [], b, st => by simp [serCells]
  | c :: a, b, st => by simp [serCells, serCells_append a b st]

theorem sitesOf_append : ∀ (a b : List LCell), sitesOf (a ++ b) = sitesOf a ++ sitesOf b
  | [], b => by simp [sitesOf]
  | c :: a, b => by simp [sitesOf, sitesOf_append a b]

theorem layOkL_mid : ∀ (a : List LCell) (c : LCell) (b : List LCell), LayOkL (a ++ c :: b) →
    LayOk c ∧ c.site ∉ sitesOf a ∧ c.site ∉ sitesOf b
  | [], c, b, h => by simp only [List.nil_append, LayOkL] at h; exact ⟨h.1, by simp [sitesOf], h.2.1⟩
  | x :: a, c, b, h => by
    simp only [List.cons_append, LayOkL] at h
    have ih := layOkL_mid a c b h.2.2
    refine ⟨ih.1, ?_, ih.2.2⟩
    have hx : x.site ∉ sitesOf (a ++ c :: b) := h.2.1
    simp only [sitesOf_append, sitesOf, List.mem_append, List.mem_cons, not_or] at hx
    simp only [sitesOf, List.mem_cons, not_or]
    exact ⟨fun e => hx.2.1 e.symm, ih.2.1⟩

theorem confL_append : ∀ (a b : List LCell) (st : SNode), ConfL (a ++ b) st ↔ ConfL a st ∧ ConfL b st
  | [], b, st => by simp [ConfL]
  | c :: a, b, st => by simp [ConfL, confL_append a b st, and_assoc]

theorem sizeCells_append : ∀ (a b : List LCell), sizeCells (a ++ b) = sizeCells a + sizeCells b
  | [], b => by simp [sizeCells]
  | c :: a, b => by simp [sizeCells, sizeCells_append a b, Nat.add_assoc]

/-- ONE cell of a node (mem, delay, or a whole child call), executed at its layout offset
`selfSize + Σ sizes of the cells before it`, bracketed by `PushStatePos`/`PopStatePos`: the flat storage afterwards is
the serialisation of the tree after the evaluator's operation at that site; every other word is unchanged -/
theorem flat_cell_at (self : Option Shape) (before : List LCell) (c : LCell) (after : List LCell) (p : CPay)
    (st : SNode) (pre post : List UInt64)
    (hl : LNode.Ok ⟨self, before ++ c :: after⟩) (hc : Conforms ⟨self, before ++ c :: after⟩ st) (hp : PayOk c p) :
    vmRun ⟨pre.length, pre ++ serialize ⟨self, before ++ c :: after⟩ st ++ post⟩
        ([.push (selfSize self + sizeCells before)] ++ flatCell c p ++ [.pop (selfSize self + sizeCells before)]) =
      some (⟨pre.length, pre ++ serialize ⟨self, before ++ c :: after⟩ (treeCell c p st).1 ++ post⟩, (treeCell c p st).2)
    ∧ Conforms ⟨self, before ++ c :: after⟩ (treeCell c p st).1 := by
  obtain ⟨hso, hcl⟩ := hc
  simp only [LNode.Ok] at hl
  simp only at hso hcl
  have hmid := layOkL_mid before c after hl
  rw [confL_append] at hcl
  simp only [ConfL] at hcl
  have hb : ∀ s ∈ sitesOf before, lookupCell st.cells s = lookupCell (treeCell c p st).1.cells s := fun s hs =>
    (treeCell_lookup_ne c p st s (fun e => hmid.2.1 (e ▸ hs))).symm
  have ha : ∀ s ∈ sitesOf after, lookupCell st.cells s = lookupCell (treeCell c p st).1.cells s := fun s hs =>
    (treeCell_lookup_ne c p st s (fun e => hmid.2.2 (e ▸ hs))).symm
  have hsw : selfWords self (treeCell c p st).1 = selfWords self st := by
    cases self <;> simp [selfWords, treeCell_selfv]
  have h1 := flat_cell c p st (pre ++ selfWords self st ++ serCells before st) (serCells after st ++ post)
    hmid.1 hcl.2.1 hp
  have hoff : (pre ++ selfWords self st ++ serCells before st).length = pre.length + (selfSize self + sizeCells before) := by
    simp only [List.length_append, selfWords_length _ _ hso, serCells_length _ _ hcl.1]; omega
  rw [hoff] at h1
  have h2 := vmRun_bracket h1.1
  refine ⟨?_, ?_, ?_⟩
  · simp only [serialize, serCells_append, serCells, hsw, ← serCells_congr before _ _ hb, ← serCells_congr after _ _ ha]
    simp only [List.append_assoc] at h2 ⊢
    exact h2
  · intro v hv
    rw [treeCell_selfv] at hv
    exact hso v hv
  · show ConfL (before ++ c :: after) (treeCell c p st).1
    rw [confL_append]
    simp only [ConfL]
    exact ⟨(ConfL_congr before _ _ hb).1 hcl.1, h1.2, (ConfL_congr after _ _ ha).1 hcl.2.2⟩

/-- `GetState`: reading `self` at the start of the region returns the words of the stored value (zeros at first) -/
theorem flat_self_get (lay : LNode) (st : SNode) (pre post : List UInt64) (hc : Conforms lay st) :
    vmStep ⟨pre.length, pre ++ serialize lay st ++ post⟩ (.get (selfSize lay.self)) =
      some (⟨pre.length, pre ++ serialize lay st ++ post⟩, selfWords lay.self st) := by
  have := step_get pre (selfWords lay.self st) (serCells lay.cells st ++ post)
  rw [selfWords_length _ _ hc.1] at this
  simpa [serialize, List.append_assoc] using this

/-- `SetState`: writing the returned value at the start of the region is `setSelf` on the tree -/
theorem flat_self_set (lay : LNode) (st : SNode) (v : Val) (sh : Shape) (pre post : List UInt64)
    (hs : lay.self = some sh) (hc : Conforms lay st) (hv : RetOk lay.self v) :
    vmStep ⟨pre.length, pre ++ serialize lay st ++ post⟩ (.set (flattenVal v)) =
      some (⟨pre.length, pre ++ serialize lay (st.setSelf v) ++ post⟩, []) ∧ Conforms lay (st.setSelf v) := by
  have hlen := selfWords_length _ _ hc.1
  rw [hs] at hv hlen
  simp only [RetOk] at hv
  simp only [selfSize] at hlen
  have := step_set pre (selfWords lay.self st) (serCells lay.cells st ++ post) (flattenVal v) (by rw [hs, hlen, hv])
  refine ⟨?_, ?_, (ConfL_setSelf _ _ _).2 hc.2⟩
  · simp only [serialize, serCells_setSelf, hs, selfWords, selfv_setSelf]
    rw [hs] at this
    simpa [List.append_assoc, selfWords] using this
  · intro w hw
    simp only [selfv_setSelf, Option.some.injEq] at hw
    subst hw
    simpa [hs, selfSize] using hv

end Mimium.FlatTree
