import Mimium.Proofs.CstPrintMain
import Mimium.Proofs.Pretty
/-! From the symbolic document to the rendered text, and the split of the expected content into comments and syntax tokens. -/
namespace Mimium.CstPrint
open Mimium.Gen (Kind SK)
open Mimium.Cst (Green)
open SDoc

/-- the string a text leaf is rendered as -/
def leafText (txt : Nat → Nat × String) : Leaf → String
  | .tok i => (txt i).2
  | .lit s => s

theorem texts_toDoc (ind : Nat) (txt : Nat → Nat × String) (d : SDoc) :
    Pretty.texts (d.toDoc ind txt) = d.leaves.map (leafText txt) := by
  induction d with
  | nil => rfl
  | hardline => rfl
  | line => rfl
  | leaf l => cases l <;> rfl
  | append a b iha ihb => simp [SDoc.toDoc, Pretty.texts, SDoc.leaves, iha, ihb]
  | group d ih => simpa [SDoc.toDoc, Pretty.texts, SDoc.leaves] using ih
  | nest d ih => simpa [SDoc.toDoc, Pretty.texts, SDoc.leaves] using ih

theorem tok_leaf_of_content (c : Ctx) (d : SDoc) (x : Nat) (h : NItem.idx x ∈ content c d) : Leaf.tok x ∈ d.leaves := by
  simp only [content, List.mem_filterMap] at h
  obtain ⟨l, hl, hn⟩ := h
  cases l with
  | tok i =>
    simp only [norm] at hn
    split at hn
    · simp at hn
    · split at hn
      · simp at hn
      · simp only [Option.some.injEq, NItem.idx.injEq] at hn; subst hn; exact hl
  | lit s =>
    simp only [norm] at hn
    split at hn <;> simp at hn

/-- a normalised item is a comment -/
def isCommentItem (c : Ctx) : NItem → Bool
  | .idx i => isComment c i
  | .brace => false

theorem triviaItems_all_comments (c : Ctx) (is : List Nat) : ∀ it ∈ triviaItems c is, isCommentItem c it = true := by
  intro it h
  simp only [triviaItems, List.mem_map, List.mem_filter] at h
  obtain ⟨i, ⟨_, hi⟩, rfl⟩ := h
  exact hi

theorem filter_comments_trivia (c : Ctx) (is : List Nat) : (triviaItems c is).filter (isCommentItem c) = triviaItems c is :=
  List.filter_eq_self.mpr (triviaItems_all_comments c is)

theorem filter_noncomments_trivia (c : Ctx) (is : List Nat) : (triviaItems c is).filter (fun it => !isCommentItem c it) = [] := by
  apply List.filter_eq_nil_iff.mpr
  intro it h
  simp [triviaItems_all_comments c is it h]

theorem norm_tok_not_comment (c : Ctx) (ti : Nat) (h : isComment c ti = false) :
    ∀ it ∈ (norm c (.tok ti)).toList, isCommentItem c it = false := by
  intro it hit
  simp only [norm] at hit
  split at hit
  · simp at hit
  · split at hit
    · simp at hit; subst hit; rfl
    · simp at hit; subst hit; exact h

theorem tokItems_comments (c : Ctx) (ti : Nat) (h : isComment c ti = false) :
    (tokItems c ti).filter (isCommentItem c) = triviaItems c (leadingTrivia c ti) ++ triviaItems c (trailingTrivia c ti) := by
  have h0 : (norm c (.tok ti)).toList.filter (isCommentItem c) = [] :=
    List.filter_eq_nil_iff.mpr (fun it hit => by simp [norm_tok_not_comment c ti h it hit])
  simp [tokItems, List.filter_append, filter_comments_trivia, h0]

theorem tokItems_syntax (c : Ctx) (ti : Nat) (h : isComment c ti = false) :
    (tokItems c ti).filter (fun it => !isCommentItem c it) = (norm c (.tok ti)).toList := by
  have h0 : (norm c (.tok ti)).toList.filter (fun it => !isCommentItem c it) = (norm c (.tok ti)).toList :=
    List.filter_eq_self.mpr (fun it hit => by simp [norm_tok_not_comment c ti h it hit])
  simp [tokItems, List.filter_append, filter_noncomments_trivia, h0]

theorem flatMap_filter_congr {α β : Type} (p : β → Bool) (f g : α → List β) (l : List α)
    (h : ∀ a ∈ l, (f a).filter p = g a) : (l.flatMap f).filter p = l.flatMap g := by
  induction l with
  | nil => rfl
  | cons a l ih =>
    simp only [List.flatMap_cons, List.filter_append]
    rw [h a (by simp), ih (fun b hb => h b (by simp [hb]))]

end Mimium.CstPrint
