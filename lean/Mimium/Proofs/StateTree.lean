import Mimium.Model.StateTree
/-! Helper lemmas for C08 (state-tree diff). Property theorems are in `Props/C08.lean`. -/
namespace Mimium.StateTree

/-! ## sizes and offsets -/

@[simp] theorem sizeL_nil : sizeL [] = 0 := by simp [sizeL]
@[simp] theorem sizeL_cons (c : Sk) (cs : List Sk) : sizeL (c :: cs) = c.size + sizeL cs := by simp [sizeL]
@[simp] theorem size_fn (cs : List Sk) : (Sk.fn cs).size = sizeL cs := by simp [Sk.size]

theorem sizeL_append (a b : List Sk) : sizeL (a ++ b) = sizeL a + sizeL b := by
  induction a with
  | nil => simp
  | cons c cs ih => simp [ih]; omega

@[simp] theorem offsetOf_zero (cs : List Sk) : offsetOf cs 0 = 0 := by simp [offsetOf]

theorem offsetOf_succ (cs : List Sk) (i : Nat) (h : i < cs.length) :
    offsetOf cs (i+1) = offsetOf cs i + (cs[i]).size := by
  induction cs generalizing i with
  | nil => simp at h
  | cons c cs ih =>
    cases i with
    | zero => simp [offsetOf]
    | succ i =>
      have := ih i (by simpa using h)
      simp [offsetOf] at this ⊢
      omega

theorem offsetOf_le_sizeL (cs : List Sk) (i : Nat) : offsetOf cs i ≤ sizeL cs := by
  unfold offsetOf
  have h := sizeL_append (cs.take i) (cs.drop i)
  rw [List.take_append_drop] at h
  omega

theorem offsetOf_mono (cs : List Sk) {i k : Nat} (h : i ≤ k) : offsetOf cs i ≤ offsetOf cs k := by
  induction k with
  | zero => have : i = 0 := by omega
            subst this; exact Nat.le_refl _
  | succ k ih =>
    by_cases hik : i = k + 1
    · subst hik; exact Nat.le_refl _
    · have h1 := ih (by omega)
      by_cases hk : k < cs.length
      · rw [offsetOf_succ cs k hk]; omega
      · have e1 : offsetOf cs (k+1) = sizeL cs := by
          unfold offsetOf; rw [List.take_of_length_le (by omega)]
        rw [e1]; exact offsetOf_le_sizeL cs i

theorem offsetOf_succ_le (cs : List Sk) (i : Nat) (h : i < cs.length) :
    offsetOf cs i + (cs[i]).size ≤ sizeL cs := by
  rw [← offsetOf_succ cs i h]; exact offsetOf_le_sizeL cs (i+1)

/-! ## `nodes_match` -/

mutual
theorem matches_size : ∀ (a b : Sk), a.matches b = true → a.size = b.size
  | .delay x, .delay y, h => by simp [Sk.matches] at h; simp [Sk.size, h]
  | .mem x, .mem y, h => by simp [Sk.matches] at h; simp [Sk.size, h]
  | .feed x, .feed y, h => by simp [Sk.matches] at h; simp [Sk.size, h]
  | .fn x, .fn y, h => by
      simp only [Sk.matches] at h
      simpa using matchesL_size x y h
  | .delay _, .mem _, h | .delay _, .feed _, h | .delay _, .fn _, h
  | .mem _, .delay _, h | .mem _, .feed _, h | .mem _, .fn _, h
  | .feed _, .delay _, h | .feed _, .mem _, h | .feed _, .fn _, h
  | .fn _, .delay _, h | .fn _, .mem _, h | .fn _, .feed _, h => by simp [Sk.matches] at h
theorem matchesL_size : ∀ (a b : List Sk), matchesL a b = true → sizeL a = sizeL b
  | [], [], _ => rfl
  | a :: as, b :: bs, h => by
      simp only [matchesL, Bool.and_eq_true] at h
      simp [matches_size a b h.1, matchesL_size as bs h.2]
  | [], _ :: _, h | _ :: _, [], h => by simp [matchesL] at h
end

mutual
theorem matches_refl : ∀ (a : Sk), a.matches a = true
  | .delay _ | .mem _ | .feed _ => by simp [Sk.matches]
  | .fn cs => by simp only [Sk.matches]; exact matchesL_refl cs
theorem matchesL_refl : ∀ (a : List Sk), matchesL a a = true
  | [] => rfl
  | a :: as => by simp [matchesL, matches_refl a, matchesL_refl as]
end

/-! ## the backtracking loop only ever produces in-order, in-range `Common` pairs -/

/-- strictly increasing in both components, bounded below by `(i,j)` and above by `(n,m)` -/
def IncFrom (n m : Nat) : Nat → Nat → List (Nat × Nat) → Prop
  | _, _, [] => True
  | i, j, (o, k) :: rest => i ≤ o ∧ j ≤ k ∧ o < n ∧ k < m ∧ IncFrom n m (o+1) (k+1) rest

theorem IncFrom.mono {n m i j i' j' : Nat} {l} (h : IncFrom n m i j l) (hi : i' ≤ i) (hj : j' ≤ j) :
    IncFrom n m i' j' l := by
  cases l with
  | nil => trivial
  | cons p rest =>
    obtain ⟨o, k⟩ := p
    simp only [IncFrom] at h ⊢
    exact ⟨by omega, by omega, h.2.2.1, h.2.2.2.1, h.2.2.2.2⟩

theorem backtrack_inc (n m : Nat) (t : List (List Nat)) (score : Nat → Nat → Nat) :
    ∀ (fuel i j : Nat) (acc : List Diff), i ≤ n → j ≤ m → IncFrom n m i j (commons acc) →
      IncFrom n m 0 0 (commons (backtrack t score fuel i j acc)) := by
  intro fuel
  induction fuel with
  | zero => intro i j acc _ _ h; simpa [backtrack] using h.mono (Nat.zero_le _) (Nat.zero_le _)
  | succ fuel ih =>
    intro i j acc hi hj h
    unfold backtrack
    split
    · rename_i hij
      split
      · apply ih _ _ _ (by omega) (by omega)
        simp only [commons, IncFrom]
        refine ⟨Nat.le_refl _, Nat.le_refl _, by omega, by omega, ?_⟩
        have e1 : i - 1 + 1 = i := by omega
        have e2 : j - 1 + 1 = j := by omega
        rw [e1, e2]; exact h
      · split
        · apply ih _ _ _ hi (by omega); simp only [commons]; exact h.mono (Nat.le_refl _) (by omega)
        · apply ih _ _ _ (by omega) hj; simp only [commons]; exact h.mono (by omega) (Nat.le_refl _)
    · split
      · apply ih _ _ _ hi (by omega); simp only [commons]; exact h.mono (Nat.le_refl _) (by omega)
      · split
        · apply ih _ _ _ (by omega) hj; simp only [commons]; exact h.mono (by omega) (Nat.le_refl _)
        · exact h.mono (Nat.zero_le _) (Nat.zero_le _)

theorem lcs_in_order (n m : Nat) (score : Nat → Nat → Nat) :
    IncFrom n m 0 0 (commons (lcsByScore n m score)) := by
  unfold lcsByScore
  exact backtrack_inc n m _ _ _ _ _ [] (Nat.le_refl _) (Nat.le_refl _) trivial

/-! ## dedup -/

theorem dedup_sublist : ∀ (ps : List Patch), (dedup ps).Sublist ps
  | [] => by simp [dedup]
  | p :: ps => by
    simp only [dedup]
    exact List.Sublist.cons_cons p ((List.filter_sublist).trans (dedup_sublist ps))

theorem mem_dedup : ∀ (ps : List Patch) (x : Patch), x ∈ dedup ps ↔ x ∈ ps
  | [], x => by simp [dedup]
  | p :: ps, x => by
    simp only [dedup, List.mem_cons, List.mem_filter, mem_dedup ps x]
    constructor
    · rintro (h | h)
      · exact Or.inl h
      · exact Or.inr h.1
    · rintro (h | h)
      · exact Or.inl h
      · by_cases hx : x = p
        · exact Or.inl hx
        · exact Or.inr ⟨h, by simpa using hx⟩

theorem dedup_nodup : ∀ (ps : List Patch), (dedup ps).Nodup
  | [] => by simp [dedup]
  | p :: ps => by
    simp only [dedup, List.nodup_cons, List.mem_filter]
    refine ⟨by simp, (dedup_nodup ps).filter _⟩

/-! ## the child-patch table -/

theorem tblGet_diffTbl : ∀ (ocs ncs : List Sk) (i j : Nat) (hi : i < ocs.length) (hj : j < ncs.length),
    tblGet (diffTbl ocs ncs) i j = diff ocs[i] ncs[j]
  | [], _, i, _, hi, _ => by simp at hi
  | o :: os, ncs, 0, j, _, hj => by
    simp [tblGet, diffTbl, List.getD, hj]
  | o :: os, ncs, i+1, j, hi, hj => by
    have := tblGet_diffTbl os ncs i j (by simpa using hi) hj
    simpa [tblGet, diffTbl, List.getD] using this

end Mimium.StateTree
