import Mimium.Proofs.StateTreeDp
/-!
What the backtracking loop of `lcs_by_score` achieves, proved from the recurrence of the table.

The loop takes `Common (i-1, j-1)` whenever that pair's score is positive and consults the table only
otherwise.  Three situations in which this is harmless:

* `backtrack_rows`  — scores are *row constant* (`score i j ∈ {0, c i}`) and the table reaches the sum of the
  row constants (= every old element that is similar to anything can be matched, in order): then every such old
  element ends up in a `Common` pair.  ("only additions")
* `backtrack_cols`  — the mirror image for columns. ("only removals")
* `backtrack_opt`   — every positive score is maximal in its row and in its column (e.g. all scores are 0/1):
  the total score of the `Common` pairs is the table optimum `dpS score n m`, and `dpS_ge_chain` says that
  no order preserving matching has a larger total.
-/
namespace Mimium.StateTree

variable (s : Nat → Nat → Nat)

/-! ### elementary facts about the recurrence -/

theorem dpS_mono_right : ∀ (i j : Nat), dpS s i j ≤ dpS s i (j+1)
  | 0, j => by simp
  | i+1, j => by rw [dpS_succ]; unfold dpCell; split <;> omega

theorem dpS_mono_left : ∀ (i j : Nat), dpS s i j ≤ dpS s (i+1) j
  | i, 0 => by simp
  | i, j+1 => by rw [dpS_succ]; unfold dpCell; split <;> omega

theorem dpS_mono {i i' j j' : Nat} (hi : i ≤ i') (hj : j ≤ j') : dpS s i j ≤ dpS s i' j' := by
  induction hi with
  | refl =>
    induction hj with
    | refl => exact Nat.le_refl _
    | step _ ih => exact Nat.le_trans ih (dpS_mono_right s _ _)
  | step _ ih => exact Nat.le_trans ih (dpS_mono_left s _ _)

/-- taking a pair is always possible -/
theorem dpS_take (i j : Nat) : dpS s i j + s i j ≤ dpS s (i+1) (j+1) := by
  rw [dpS_succ]; unfold dpCell
  have := dpS_mono_right s i j
  split <;> omega

def sumTo (c : Nat → Nat) : Nat → Nat
  | 0 => 0
  | i+1 => sumTo c i + c i

@[simp] theorem sumTo_zero (c : Nat → Nat) : sumTo c 0 = 0 := rfl
@[simp] theorem sumTo_succ (c : Nat → Nat) (i : Nat) : sumTo c (i+1) = sumTo c i + c i := rfl

theorem sumTo_mono (c : Nat → Nat) {a b : Nat} (h : a ≤ b) : sumTo c a ≤ sumTo c b := by
  induction h with
  | refl => exact Nat.le_refl _
  | step _ ih => simp; omega

theorem sumTo_eq_of_zero (c : Nat → Nat) {a b : Nat} (h : a ≤ b) (hz : ∀ k, a ≤ k → k < b → c k = 0) :
    sumTo c a = sumTo c b := by
  induction h with
  | refl => rfl
  | @step b' hb ih =>
    have h1 := ih (fun k h1 h2 => hz k h1 (by omega))
    have h2 := hz b' hb (by omega)
    simp; omega

/-- adding old element `i` raises the optimum by at most the largest score in its row -/
theorem dpS_row_step (i w : Nat) (h : ∀ j, s i j ≤ w) : ∀ j, dpS s (i+1) j ≤ dpS s i j + w
  | 0 => by simp
  | j+1 => by
    have ih := dpS_row_step i w h j
    have m := dpS_mono_right s i j
    have hw := h j
    rw [dpS_succ]; unfold dpCell; split <;> omega

/-- adding new element `j` raises the optimum by at most the largest score in its column -/
theorem dpS_col_step (j w : Nat) (h : ∀ i, s i j ≤ w) : ∀ i, dpS s i (j+1) ≤ dpS s i j + w
  | 0 => by simp
  | i+1 => by
    have ih := dpS_col_step j w h i
    have m := dpS_mono_left s i j
    have hw := h i
    rw [dpS_succ]; unfold dpCell; split <;> omega

theorem dpS_le_rows (c : Nat → Nat) (hc : ∀ i j, s i j ≤ c i) (i j : Nat) : dpS s i j ≤ sumTo c i := by
  induction i with
  | zero => simp
  | succ i ih =>
    have := dpS_row_step s i (c i) (hc i) j
    simp; omega

theorem dpS_le_cols (d : Nat → Nat) (hd : ∀ i j, s i j ≤ d j) (i j : Nat) : dpS s i j ≤ sumTo d j := by
  induction j with
  | zero => simp
  | succ j ih =>
    have := dpS_col_step s j (d j) (fun i => hd i j) i
    simp; omega

/-! ### chains: order preserving matchings -/

/-- total score of a list of pairs -/
def wsum : List (Nat × Nat) → Nat
  | [] => 0
  | (i, j) :: rest => s i j + wsum rest

/-- **the table is an upper bound for every order preserving matching** -/
theorem dpS_ge_chain (n m : Nat) : ∀ (cm : List (Nat × Nat)) (i0 j0 : Nat), IncFrom n m i0 j0 cm →
    i0 ≤ n → j0 ≤ m → dpS s i0 j0 + wsum s cm ≤ dpS s n m
  | [], i0, j0, _, hi, hj => by simpa [wsum] using dpS_mono s hi hj
  | (o, k) :: rest, i0, j0, h, _, _ => by
    simp only [IncFrom] at h
    obtain ⟨h1, h2, h3, h4, h5⟩ := h
    have ih := dpS_ge_chain n m rest (o+1) (k+1) h5 (by omega) (by omega)
    have t := dpS_take s o k
    have mo := dpS_mono s h1 h2
    simp only [wsum]; omega

/-! ### the backtracking loop -/

variable (T : List (List Nat))

theorem backtrack_acc_mem : ∀ (fuel i j : Nat) (acc : List Diff) (p : Nat × Nat),
    p ∈ commons acc → p ∈ commons (backtrack T s fuel i j acc) := by
  intro fuel
  induction fuel with
  | zero => intro i j acc p h; simpa [backtrack] using h
  | succ fuel ih =>
    intro i j acc p h
    unfold backtrack
    split
    · split
      · apply ih; simp [commons, h]
      · split <;> (apply ih; simpa [commons] using h)
    · split
      · apply ih; simpa [commons] using h
      · split
        · apply ih; simpa [commons] using h
        · exact h

/-- a `Common` pair is only ever emitted for a positive score -/
theorem backtrack_pos : ∀ (fuel i j : Nat) (acc : List Diff) (p : Nat × Nat),
    p ∈ commons (backtrack T s fuel i j acc) → p ∈ commons acc ∨ 0 < s p.1 p.2 := by
  intro fuel
  induction fuel with
  | zero => intro i j acc p h; left; simpa [backtrack] using h
  | succ fuel ih =>
    intro i j acc p h
    unfold backtrack at h
    split at h
    · split at h
      · rename_i hs
        rcases ih _ _ _ p h with h' | h'
        · simp only [commons, List.mem_cons] at h'
          rcases h' with h' | h'
          · right; subst h'; exact hs
          · left; exact h'
        · right; exact h'
      · split at h <;>
        · rcases ih _ _ _ p h with h' | h'
          · left; simpa [commons] using h'
          · right; exact h'
    · split at h
      · rcases ih _ _ _ p h with h' | h'
        · left; simpa [commons] using h'
        · right; exact h'
      · split at h
        · rcases ih _ _ _ p h with h' | h'
          · left; simpa [commons] using h'
          · right; exact h'
        · left; exact h

variable (n m : Nat) (hT : ∀ i j, i ≤ n → j ≤ m → dpGet T i j = dpS s i j)
include hT

/-- **only additions.**  If every old element `i` has the same score `c i` against all new elements it is
similar to, and the table at `(i, j)` reaches the sum of these constants, then the loop started at `(i, j)`
puts every old element `k < i` with `c k > 0` into a `Common` pair. -/
theorem backtrack_rows (c : Nat → Nat) (hc : ∀ i j, s i j = 0 ∨ s i j = c i) :
    ∀ (fuel i j : Nat) (acc : List Diff), i ≤ n → j ≤ m → i + j ≤ fuel → dpS s i j = sumTo c i →
      ∀ k, k < i → 0 < c k → ∃ l, (k, l) ∈ commons (backtrack T s fuel i j acc) := by
  have hc' : ∀ i j, s i j ≤ c i := fun i j => by rcases hc i j with h | h <;> omega
  intro fuel
  induction fuel with
  | zero => intro i j acc _ _ hf _ k hk; omega
  | succ fuel ih =>
    intro i j acc hi hj hf hinv k hk hck
    unfold backtrack
    split
    · rename_i hij
      obtain ⟨i', rfl⟩ : ∃ i', i = i' + 1 := ⟨i - 1, by omega⟩
      obtain ⟨j', rfl⟩ : ∃ j', j = j' + 1 := ⟨j - 1, by omega⟩
      simp only [Nat.add_sub_cancel]
      rw [dpS_succ] at hinv
      unfold dpCell at hinv
      simp only [sumTo_succ] at hinv
      have u1 := dpS_le_rows s c hc' i' j'
      have u2 := dpS_le_rows s c hc' i' (j'+1)
      have u3 := dpS_le_rows s c hc' (i'+1) j'
      have r := dpS_row_step s i' (c i') (hc' i') j'
      simp only [sumTo_succ] at u3
      split
      · rename_i hs
        have e : s i' j' = c i' := by rcases hc i' j' with h | h <;> omega
        rw [if_pos hs, e] at hinv
        have hinv' : dpS s i' j' = sumTo c i' := by omega
        by_cases hk' : k = i'
        · subst hk'
          exact ⟨j', backtrack_acc_mem s T _ _ _ _ _ (by simp [commons])⟩
        · exact ih _ _ _ (by omega) (by omega) (by omega) hinv' k (by omega) hck
      · rename_i hs
        rw [if_neg hs] at hinv
        rw [hT (i'+1) j' hi (by omega), hT i' (j'+1) (by omega) hj]
        split
        · rename_i hge
          exact ih _ _ _ hi (by omega) (by omega) (by simp only [sumTo_succ]; omega) k hk hck
        · rename_i hge
          have hz : c i' = 0 := by omega
          have hk' : k ≠ i' := by intro h; subst h; omega
          exact ih _ _ _ (by omega) hj (by omega) (by omega) k (by omega) hck
    · split
      · omega
      · split
        · rename_i h1 h2 h3
          have hj0 : j = 0 := by omega
          subst hj0
          obtain ⟨i', rfl⟩ : ∃ i', i = i' + 1 := ⟨i - 1, by omega⟩
          simp only [Nat.add_sub_cancel]
          simp only [dpS_zero_right, sumTo_succ] at hinv
          have hk' : k ≠ i' := by intro h; subst h; omega
          exact ih _ _ _ (by omega) hj (by omega) (by simp; omega) k (by omega) hck
        · omega

/-- **only removals** — the mirror image of `backtrack_rows` -/
theorem backtrack_cols (d : Nat → Nat) (hd : ∀ i j, s i j = 0 ∨ s i j = d j) :
    ∀ (fuel i j : Nat) (acc : List Diff), i ≤ n → j ≤ m → i + j ≤ fuel → dpS s i j = sumTo d j →
      ∀ l, l < j → 0 < d l → ∃ k, (k, l) ∈ commons (backtrack T s fuel i j acc) := by
  have hd' : ∀ i j, s i j ≤ d j := fun i j => by rcases hd i j with h | h <;> omega
  intro fuel
  induction fuel with
  | zero => intro i j acc _ _ hf _ l hl; omega
  | succ fuel ih =>
    intro i j acc hi hj hf hinv l hl hdl
    unfold backtrack
    split
    · rename_i hij
      obtain ⟨i', rfl⟩ : ∃ i', i = i' + 1 := ⟨i - 1, by omega⟩
      obtain ⟨j', rfl⟩ : ∃ j', j = j' + 1 := ⟨j - 1, by omega⟩
      simp only [Nat.add_sub_cancel]
      rw [dpS_succ] at hinv
      unfold dpCell at hinv
      simp only [sumTo_succ] at hinv
      have u1 := dpS_le_cols s d hd' i' j'
      have u2 := dpS_le_cols s d hd' i' (j'+1)
      have u3 := dpS_le_cols s d hd' (i'+1) j'
      have r := dpS_col_step s j' (d j') (fun i => hd' i j') i'
      simp only [sumTo_succ] at u2
      split
      · rename_i hs
        have e : s i' j' = d j' := by rcases hd i' j' with h | h <;> omega
        rw [if_pos hs, e] at hinv
        have hinv' : dpS s i' j' = sumTo d j' := by omega
        by_cases hl' : l = j'
        · subst hl'
          exact ⟨i', backtrack_acc_mem s T _ _ _ _ _ (by simp [commons])⟩
        · exact ih _ _ _ (by omega) (by omega) (by omega) hinv' l (by omega) hdl
      · rename_i hs
        rw [if_neg hs] at hinv
        rw [hT (i'+1) j' hi (by omega), hT i' (j'+1) (by omega) hj]
        split
        · rename_i hge
          have hz : d j' = 0 := by omega
          have hl' : l ≠ j' := by intro h; subst h; omega
          exact ih _ _ _ hi (by omega) (by omega) (by omega) l (by omega) hdl
        · rename_i hge
          exact ih _ _ _ (by omega) hj (by omega) (by simp only [sumTo_succ]; omega) l hl hdl
    · split
      · rename_i h1 h2
        have hi0 : i = 0 := by omega
        subst hi0
        obtain ⟨j', rfl⟩ : ∃ j', j = j' + 1 := ⟨j - 1, by omega⟩
        simp only [Nat.add_sub_cancel]
        simp only [dpS_zero_left, sumTo_succ] at hinv
        have hl' : l ≠ j' := by intro h; subst h; omega
        exact ih _ _ _ hi (by omega) (by omega) (by simp; omega) l (by omega) hdl
      · omega

/-- **optimality.**  If every positive score is maximal in its row and in its column (in particular if all
scores are 0 or 1) the `Common` pairs found by the loop have the optimal total score. -/
theorem backtrack_opt (hdom : ∀ i j, 0 < s i j → (∀ j', s i j' ≤ s i j) ∧ (∀ i', s i' j ≤ s i j)) :
    ∀ (fuel i j : Nat) (acc : List Diff), i ≤ n → j ≤ m → i + j ≤ fuel →
      wsum s (commons (backtrack T s fuel i j acc)) = dpS s i j + wsum s (commons acc) := by
  intro fuel
  induction fuel with
  | zero =>
    intro i j acc _ _ hf
    have hi0 : i = 0 := by omega
    subst hi0
    simp [backtrack]
  | succ fuel ih =>
    intro i j acc hi hj hf
    unfold backtrack
    split
    · rename_i hij
      obtain ⟨i', rfl⟩ : ∃ i', i = i' + 1 := ⟨i - 1, by omega⟩
      obtain ⟨j', rfl⟩ : ∃ j', j = j' + 1 := ⟨j - 1, by omega⟩
      simp only [Nat.add_sub_cancel]
      rw [dpS_succ]
      unfold dpCell
      split
      · rename_i hs
        obtain ⟨hr, hc⟩ := hdom i' j' hs
        have r := dpS_row_step s i' (s i' j') hr j'
        have c := dpS_col_step s j' (s i' j') hc i'
        rw [ih _ _ _ (by omega) (by omega) (by omega)]
        simp only [commons, wsum]; omega
      · rename_i hs
        rw [hT (i'+1) j' hi (by omega), hT i' (j'+1) (by omega) hj]
        split
        · rw [ih _ _ _ hi (by omega) (by omega)]; simp only [commons]; omega
        · rw [ih _ _ _ (by omega) hj (by omega)]; simp only [commons]; omega
    · split
      · rename_i h1 h2
        have hi0 : i = 0 := by omega
        subst hi0
        rw [ih _ _ _ hi (by omega) (by omega)]; simp [commons]
      · split
        · have hj0 : j = 0 := by omega
          subst hj0
          rw [ih _ _ _ (by omega) hj (by omega)]; simp [commons]
        · have hi0 : i = 0 := by omega
          subst hi0
          simp

end Mimium.StateTree
