import Mimium.Model.Lexer
/-! Lemmas about `Model/Lexer.lean`: every alternative consumes between 1 and `length` characters, the loop never
runs out of fuel, lexemes concatenate to the input, positions tile the byte range. -/
namespace Mimium.Lexer
open Mimium.Gen (Kind)

theorem spanLen_le (p : Char → Bool) (cs : List Char) : spanLen p cs ≤ cs.length := by
  induction cs with
  | nil => simp [spanLen]
  | cons c cs ih => simp only [spanLen]; split <;> simp <;> omega

theorem prefix_length_le {p cs : List Char} (h : p.isPrefixOf cs = true) : p.length ≤ cs.length :=
  (List.isPrefixOf_iff_prefix.mp h).length_le

theorem findSub_bound (pat : List Char) : ∀ (cs : List Char) (i : Nat), findSub pat cs = some i → i + pat.length ≤ cs.length := by
  intro cs
  induction cs with
  | nil =>
    intro i h
    simp only [findSub] at h
    split at h
    · rename_i hp; have := prefix_length_le hp; simp at h; subst h; simpa using this
    · simp at h
  | cons c cs ih =>
    intro i h
    simp only [findSub] at h
    split at h
    · rename_i hp; have := prefix_length_le hp; simp at h; subst h; simpa using this
    · cases hf : findSub pat cs with
      | none => simp [hf] at h
      | some j =>
        simp [hf] at h; subst h
        have := ih j hf
        simp; omega

theorem findChar_bound (d : Char) : ∀ (cs : List Char) (i : Nat), findChar d cs = some i → i < cs.length := by
  intro cs
  induction cs with
  | nil => intro i h; simp [findChar] at h
  | cons c cs ih =>
    intro i h
    simp only [findChar] at h
    split at h
    · simp at h; subst h; simp
    · cases hf : findChar d cs with
      | none => simp [hf] at h
      | some j => simp [hf] at h; subst h; have := ih j hf; simp; omega

/-- an alternative's answer is acceptable on `cs`: it consumes at least one and at most `cs.length` characters,
and does not produce the end marker -/
def Good (cs : List Char) (r : Option (Kind × Nat)) : Prop :=
  ∀ k n, r = some (k, n) → 1 ≤ n ∧ n ≤ cs.length ∧ k ≠ Kind.Eof

structure TablesOkP (T : Tables) : Prop where
  ops : ∀ r ∈ T.ops, r.1 ≠ []
  puncts : ∀ r ∈ T.puncts, r.1 ≠ []
  lineStart : T.lineStart ≠ []
  blockStart : T.blockStart ≠ []
  noEof : ∀ k ∈ T.kinds, k ≠ Kind.Eof

theorem tablesOk_iff (T : Tables) : TablesOk T = true → TablesOkP T := by
  intro h
  simp only [TablesOk, Bool.and_eq_true, List.all_eq_true, Bool.not_eq_true', bne_iff_ne, ne_eq] at h
  obtain ⟨⟨⟨⟨h1, h2⟩, h3⟩, h4⟩, h5⟩ := h
  refine ⟨?_, ?_, ?_, ?_, h5⟩
  · intro r hr; have := h1 r hr; intro e; simp [e] at this
  · intro r hr; have := h2 r hr; intro e; simp [e] at this
  · intro e; simp [e] at h3
  · intro e; simp [e] at h4

theorem intLen_bound : ∀ (cs : List Char) (n : Nat), intLen cs = some n → 1 ≤ n ∧ n ≤ cs.length := by
  intro cs n h
  unfold intLen at h
  split at h
  · simp at h
  · rename_i c rest
    split at h
    · simp at h; subst h
      have := spanLen_le isDigit rest
      simp; omega
    · split at h
      · simp at h; subst h; simp
      · simp at h

theorem lookupKw_mem (tbl : List (List Char × Kind)) (d : Kind) (t : List Char) :
    lookupKw tbl d t = d ∨ lookupKw tbl d t ∈ tbl.map (·.2) := by
  induction tbl with
  | nil => simp [lookupKw]
  | cons e rest ih =>
    obtain ⟨s, k⟩ := e
    simp only [lookupKw]
    split
    · simp
    · rcases ih with h | h
      · exact Or.inl h
      · right; simp only [List.map_cons, List.mem_cons]; exact Or.inr h

theorem altTable_good (tbl : List (List Char × Kind)) (hne : ∀ r ∈ tbl, r.1 ≠ [])
    (hk : ∀ r ∈ tbl, r.2 ≠ Kind.Eof) (cs : List Char) :
    Good cs (altTable tbl cs) := by
  induction tbl with
  | nil => intro k n h; simp [altTable] at h
  | cons e rest ih =>
    obtain ⟨s, k0⟩ := e
    intro k n h
    simp only [altTable] at h
    split at h
    · rename_i hp
      simp at h
      obtain ⟨rfl, rfl⟩ := h
      have := prefix_length_le hp
      have h0 : s ≠ [] := hne (s, k0) (by simp)
      have : 0 < s.length := List.length_pos_iff.mpr h0
      exact ⟨by omega, by omega, hk (s, k0) (by simp)⟩
    · exact ih (fun r hr => hne r (by simp [hr])) (fun r hr => hk r (by simp [hr])) k n h

theorem firstMatch_good (as : List Alt) (cs : List Char) (h : ∀ a ∈ as, Good cs (a cs)) : Good cs (firstMatch as cs) := by
  induction as with
  | nil => intro k n e; simp [firstMatch] at e
  | cons a rest ih =>
    intro k n e
    simp only [firstMatch] at e
    split at e
    · rename_i r hr
      have := h a (by simp) k n
      rw [hr] at this
      exact this e
    · exact ih (fun b hb => h b (by simp [hb])) k n e

section alts
variable {T : Tables} (ok : TablesOkP T)
include ok

theorem kind_ne_eof {k : Kind} (h : k ∈ T.kinds) : k ≠ Kind.Eof := ok.noEof k h

theorem altComment_good (cs : List Char) : Good cs (altComment T cs) := by
  intro k n h
  simp only [altComment] at h
  split at h
  · rename_i hp
    simp at h
    obtain ⟨rfl, rfl⟩ := h
    have h1 := prefix_length_le hp
    have h2 := spanLen_le (fun c => !T.nlChars.contains c) (cs.drop T.lineStart.length)
    have h3 : 0 < T.lineStart.length := List.length_pos_iff.mpr ok.lineStart
    simp at h2
    refine ⟨by omega, by omega, ?_⟩
    apply kind_ne_eof ok; simp [Tables.kinds]
  · split at h
    · rename_i hp
      split at h
      · rename_i i hi
        simp at h
        obtain ⟨rfl, rfl⟩ := h
        have h1 := prefix_length_le hp
        have h2 := findSub_bound _ _ _ hi
        have h3 : 0 < T.blockStart.length := List.length_pos_iff.mpr ok.blockStart
        simp at h2
        refine ⟨by omega, by omega, ?_⟩
        apply kind_ne_eof ok; simp [Tables.kinds]
      · simp at h
    · simp at h

theorem altLinebreak_good (cs : List Char) : Good cs (altLinebreak T cs) := by
  intro k n h
  simp only [altLinebreak] at h
  split at h
  · simp at h
  · simp at h
    obtain ⟨rfl, rfl⟩ := h
    have := spanLen_le T.nlChars.contains cs
    refine ⟨by omega, by omega, ?_⟩
    apply kind_ne_eof ok; simp [Tables.kinds]

theorem altWhitespace_good (cs : List Char) : Good cs (altWhitespace T cs) := by
  intro k n h
  simp only [altWhitespace] at h
  split at h
  · simp at h
  · simp at h
    obtain ⟨rfl, rfl⟩ := h
    have := spanLen_le T.wsChars.contains cs
    refine ⟨by omega, by omega, ?_⟩
    apply kind_ne_eof ok; simp [Tables.kinds]

theorem altString_good (cs : List Char) : Good cs (altString T cs) := by
  intro k n h
  unfold altString at h
  split at h
  · simp at h
  · rename_i c rest
    split at h
    · split at h
      · rename_i i hi
        simp at h
        obtain ⟨rfl, rfl⟩ := h
        have := findChar_bound _ _ _ hi
        refine ⟨by omega, by simp; omega, ?_⟩
        apply kind_ne_eof ok; simp [Tables.kinds]
      · simp at h
    · simp at h

theorem altNumber_good (cs : List Char) : Good cs (altNumber T cs) := by
  intro k n h
  have hi : T.intKind ≠ Kind.Eof := by apply kind_ne_eof ok; simp [Tables.kinds]
  have hf : T.floatKind ≠ Kind.Eof := by apply kind_ne_eof ok; simp [Tables.kinds]
  unfold altNumber at h
  split at h
  · simp at h
  · rename_i m hm
    have ⟨b1, b2⟩ := intLen_bound _ _ hm
    split at h
    · simp at h; obtain ⟨rfl, rfl⟩ := h; exact ⟨b1, b2, hi⟩
    · rename_i p r hd
      have hlen : (cs.drop m).length = r.length + 1 := by rw [hd]; simp
      simp at hlen
      split at h
      · simp only at h
        split at h
        · simp at h; obtain ⟨rfl, rfl⟩ := h; exact ⟨b1, b2, hi⟩
        · have hs := spanLen_le isDigit r
          split at h
          · simp at h; obtain ⟨rfl, rfl⟩ := h; exact ⟨by omega, by omega, hf⟩
          · split at h
            · simp at h; obtain ⟨rfl, rfl⟩ := h; exact ⟨b1, b2, hi⟩
            · simp at h; obtain ⟨rfl, rfl⟩ := h; exact ⟨by omega, by omega, hf⟩
      · simp at h; obtain ⟨rfl, rfl⟩ := h; exact ⟨b1, b2, hi⟩

theorem altIdent_good (C : Classes) (cs : List Char) : Good cs (altIdent C T cs) := by
  intro k n h
  unfold altIdent at h
  split at h
  · simp at h
  · rename_i c rest
    split at h
    · simp at h
      obtain ⟨rfl, rfl⟩ := h
      have := spanLen_le C.xidContinue rest
      refine ⟨by omega, by simp; omega, ?_⟩
      apply kind_ne_eof ok
      rcases lookupKw_mem T.keywords T.identDefault (c :: List.take (spanLen C.xidContinue rest) rest) with h | h
      · rw [h]; simp [Tables.kinds]
      · simp only [Tables.kinds, List.mem_append]; exact Or.inl (Or.inr h)
    · simp at h

theorem alts_good (C : Classes) (cs : List Char) : ∀ a ∈ alts C T, Good cs (a cs) := by
  intro a ha
  simp only [alts, List.mem_cons, List.mem_nil_iff, or_false] at ha
  rcases ha with rfl | rfl | rfl | rfl | rfl | rfl | rfl | rfl
  · exact altComment_good ok cs
  · exact altLinebreak_good ok cs
  · exact altWhitespace_good ok cs
  · exact altString_good ok cs
  · exact altNumber_good ok cs
  · exact altIdent_good ok C cs
  · apply altTable_good _ ok.ops
    intro r hr; apply kind_ne_eof ok; simp only [Tables.kinds, List.mem_append, List.mem_map]
    exact Or.inl (Or.inl (Or.inl ⟨r, hr, rfl⟩))
  · apply altTable_good _ ok.puncts
    intro r hr; apply kind_ne_eof ok; simp only [Tables.kinds, List.mem_append, List.mem_map]
    exact Or.inl (Or.inl (Or.inr ⟨r, hr, rfl⟩))

/-- every step of the tokenizer loop consumes at least one and at most all remaining characters, and never yields `Eof` -/
theorem lexStep_progress (C : Classes) (cs : List Char) (hne : cs ≠ []) :
    1 ≤ (lexStep C T cs).2 ∧ (lexStep C T cs).2 ≤ cs.length ∧ (lexStep C T cs).1 ≠ Kind.Eof := by
  unfold lexStep
  cases h : firstMatch (alts C T) cs with
  | none =>
    have : 0 < cs.length := List.length_pos_iff.mpr hne
    refine ⟨by simp, by simp; omega, by simp⟩
  | some r =>
    obtain ⟨k, n⟩ := r
    exact firstMatch_good (alts C T) cs (alts_good ok C cs) k n h

end alts

def texts (ls : List Lexeme) : List Char := ls.flatMap (·.text)

/-- with fuel ≥ remaining length the loop consumes the whole input: the lexeme texts concatenate to it,
no lexeme is empty, none is `Eof` -/
theorem lexLoop_spec {T : Tables} (ok : TablesOkP T) (C : Classes) :
    ∀ (fuel : Nat) (cs : List Char), cs.length ≤ fuel →
      texts (lexLoop C T fuel cs) = cs ∧ ∀ l ∈ lexLoop C T fuel cs, l.text ≠ [] ∧ l.kind ≠ Kind.Eof := by
  intro fuel
  induction fuel with
  | zero =>
    intro cs h
    have : cs = [] := List.eq_nil_of_length_eq_zero (by omega)
    subst this; simp [lexLoop, texts]
  | succ fuel ih =>
    intro cs h
    cases cs with
    | nil => simp [lexLoop, texts]
    | cons c cs =>
      have ⟨p1, p2, p3⟩ := lexStep_progress ok C (c :: cs) (by simp)
      simp only [lexLoop]
      have hlen : ((c :: cs).drop (lexStep C T (c :: cs)).2).length ≤ fuel := by
        simp only [List.length_drop]; simp at h p2 ⊢; omega
      have ⟨i1, i2⟩ := ih _ hlen
      constructor
      · simp only [texts, List.flatMap_cons] at i1 ⊢
        rw [i1]; exact List.take_append_drop _ _
      · intro l hl
        simp only [List.mem_cons] at hl
        rcases hl with rfl | hl
        · refine ⟨?_, p3⟩
          intro e
          have := congrArg List.length e
          simp only [List.length_take, List.length_nil] at this
          simp at p2; simp at this; omega
        · exact i2 l hl

/-- extra fuel changes nothing: the loop is total on the remaining input -/
theorem lexLoop_fuel {T : Tables} (ok : TablesOkP T) (C : Classes) :
    ∀ (fuel : Nat) (cs : List Char), cs.length ≤ fuel → ∀ fuel', cs.length ≤ fuel' →
      lexLoop C T fuel cs = lexLoop C T fuel' cs := by
  intro fuel
  induction fuel with
  | zero =>
    intro cs h fuel' _
    have : cs = [] := List.eq_nil_of_length_eq_zero (by omega)
    subst this; cases fuel' <;> rfl
  | succ fuel ih =>
    intro cs h fuel' h'
    cases cs with
    | nil => cases fuel' <;> simp [lexLoop]
    | cons c cs =>
      cases fuel' with
      | zero => simp at h'
      | succ fuel' =>
        have ⟨p1, p2, _⟩ := lexStep_progress ok C (c :: cs) (by simp)
        simp only [lexLoop]
        have hlen : ((c :: cs).drop (lexStep C T (c :: cs)).2).length ≤ fuel := by
          simp only [List.length_drop]; simp at h p2 ⊢; omega
        have hlen2 : ((c :: cs).drop (lexStep C T (c :: cs)).2).length ≤ fuel' := by
          simp only [List.length_drop]; simp at h' p2 ⊢; omega
        rw [ih _ hlen _ hlen2]

end Mimium.Lexer
