import Mimium.Proofs.CstShapeParams
/-!
# Types (`parse_type` & co., whose parenthesised types have no node of their own) and lambdas
-/
namespace Mimium.Grammar
open Mimium.Gen (Kind SK)
open Mimium.Cst (PState Frame Green)
open Mimium.CstPrint (Ctx IsTok IsNode SepTail ItemOk itemRun ListShape ListBody commasFollowItems NoBar)

variable {E : Env} {c : Ctx} {rec : Tag → St → St}

theorem app_tb (s s' : St) (h : App P1 s s') : App (TB c) s s' := by
  obtain ⟨w, e, k, a, rfl⟩ := h; exact ⟨_, e, .node k a⟩

theorem vc_typePrimary (s : St) (hW : W E c s) (h : Em E c rec (R E c) (body .typePrimary) s) :
    Rs E c .typePrimary s (exec E rec (body .typePrimary) s) := by
  revert h
  show Em E c rec (R E c) (body .typePrimary) s → AppE E (TB c) s (exec E rec (body .typePrimary) s)
  simp only [body, switch, List.foldr]
  refine ite_vc _ _ _ _ (fun _ h => Or.inl (app_tb _ _ (em_node_app _ _ _ h))) (fun _ => ?_)
  refine ite_vc _ _ _ _ (fun _ h => Or.inl (And.left h)) (fun _ => ?_)
  refine ite_vc _ _ _ _ (fun _ h => Or.inl (app_tb _ _ (And.left h))) (fun _ => ?_)
  refine ite_vc _ _ _ _ (fun _ h => Or.inl (app_tb _ _ (em_node_app _ _ _ h))) (fun _ => ?_)
  refine ite_vc _ _ _ _ (fun _ h => Or.inl (app_tb _ _ (em_node_app _ _ _ h))) (fun _ => ?_)
  refine ite_vc _ _ _ _ (fun _ h => Or.inl (app_tb _ _ (em_node_app _ _ _ h))) (fun _ => ?_)
  simp only [unless_]
  refine ite_vc _ _ _ _ (fun _ h => ?_) (fun hc _ => ?_)
  · rw [show ∀ x, seqs [Cmd.err x, Cmd.bump] = .seq (.err x) .bump from fun _ => rfl, em_seq] at h
    exact h.1.elim
  · rw [exec_skip]
    refine Or.inr ⟨rfl, atEnd_of_isAtEnd hW ?_⟩
    simpa [evalCond] using hc

theorem vc_type_ (s : St) (h : Em E c rec (R E c) (body .type_) s) : Rs E c .type_ s (exec E rec (body .type_) s) := by
  revert h
  show Em E c rec (R E c) (body .type_) s → AppE E (TB c) s (exec E rec (body .type_) s)
  simp only [body]
  exact ite_vc _ _ _ _ (fun _ h => Or.inl (app_tb _ _ (em_node_app _ _ _ h))) (fun _ h => And.left h)

theorem vc_typeUnion (s : St) (h : Em E c rec (R E c) (body .typeUnion) s) : Rs E c .typeUnion s (exec E rec (body .typeUnion) s) := by
  have hshow : body .typeUnion = .seq .setBMarker (.seq (.call .typePrimary)
      (.ite (.both (.check .LambdaArgBeginEnd) isTypeStartAfterPipe) (.nodeAtB .UnionType (.call .typeUnionLoop)) .skip)) := rfl
  rw [hshow, em_seq, em_seq] at h
  rw [hshow, exec_seq, exec_seq]
  obtain ⟨_, _, h1, _, h2⟩ := h
  have h1' : AppE E (TB c) s (exec E rec (.call .typePrimary) (exec E rec .setBMarker s)) := And.left h1
  revert h2
  refine ite_vc (P := fun s' => AppE E (TB c) s s') _ _ _ _ (fun _ h => ?_) (fun _ _ => by rw [exec_skip]; exact h1')
  obtain ⟨_, _, _, e1⟩ := h
  have hrb : (exec E rec (.call .typePrimary) (exec E rec .setBMarker s)).rb = (topCh s).length := marker_eq s
  refine Or.inl ⟨[.node SK.UnionType.toNat (topCh (exec E rec (.call .typeUnionLoop)
    (prim E (exec E rec (.call .typePrimary) (exec E rec .setBMarker s))
      (.startNodeAt (exec E rec (.call .typePrimary) (exec E rec .setBMarker s)).rb SK.UnionType.toNat))))], ?_, .node _ _⟩
  rw [e1, hrb]
  rcases h1' with ⟨w, e, _⟩ | ⟨e, _⟩
  · rw [e]; simp
  · rw [e]; simp

theorem vc_typeTupleOrParen (s : St) (hpre : Pre E .typeTupleOrParen s) (h : Em E c rec (R E c) (body .typeTupleOrParen) s) :
    Rs E c .typeTupleOrParen s (exec E rec (body .typeTupleOrParen) s) := by
  revert h
  show Em E c rec (R E c) (body .typeTupleOrParen) s → App (TB c) s (exec E rec (body .typeTupleOrParen) s)
  simp only [body]
  refine ite_vc _ _ _ _ (fun _ h => app_tb _ _ (em_node_app _ _ _ h)) (fun _ => ?_)
  refine ite_vc _ _ _ _ (fun _ h => app_tb _ _ (em_node_app _ _ _ h)) (fun _ h => ?_)
  have hshow : seqs [Cmd.bump, Cmd.call Tag.type_, expect Kind.ParenEnd] = .seq .bump (.seq (.call .type_) (expect .ParenEnd)) := rfl
  rw [hshow, em_seq, em_seq] at h
  rw [hshow, exec_seq, exec_seq]
  obtain ⟨h1, _, h2, _, h3⟩ := h
  obtain ⟨t1, w1, e1, k1⟩ := bump_after_check .ParenBegin s hpre rfl h1
  obtain ⟨_, x3, t3, w3, e3, o3⟩ := em_expect _ _ h3
  rcases h2.1 with ⟨w, e2, hw⟩ | ⟨_, hend⟩
  · refine ⟨.token t1 w1 :: (w ++ [.token t3 w3]), ?_, .paren _ _ _ ⟨t1, w1, rfl, k1⟩ hw ⟨t3, w3, rfl, o3.eq rfl⟩⟩
    rw [x3, e3, e2, e1]; simp
  · exact (em_expect_atEnd _ _ h3 hend).elim

theorem vc_typeTupleLoop (s : St) (h : Em E c rec (R E c) (body .typeTupleLoop) s) :
    Rs E c .typeTupleLoop s (exec E rec (body .typeTupleLoop) s) :=
  sepLoop_vc .typeTupleLoop .ParenEnd (by decide) (.call .type_) (TB c) (fun _ _ h => h) (fun _ _ h => AppE.weak (And.left h)) s h

/-- `Ident : type` -/
theorem recTy_item (s : St) (h : Em E c rec (R E c) (seqs [expectAll [.Ident, .Colon], .call .type_]) s) :
    AppW E (PRecTy c) s (exec E rec (seqs [expectAll [.Ident, .Colon], .call .type_]) s) := by
  have hshow : seqs [expectAll [.Ident, .Colon], .call .type_] = .seq (.seq (expect .Ident) (expect .Colon)) (.call .type_) := rfl
  rw [hshow, em_seq, em_seq] at h
  rw [hshow, exec_seq, exec_seq]
  obtain ⟨⟨h1, _, h2⟩, _, h3⟩ := h
  obtain ⟨_, x1, t1, w1, e1, o1⟩ := em_expect _ _ h1
  obtain ⟨_, x2, t2, w2, e2, o2⟩ := em_expect _ _ h2
  rcases h3.1 with ⟨w, e3, hw⟩ | ⟨_, he⟩
  · refine Or.inl ⟨.token t1 w1 :: .token t2 w2 :: w, ?_, _, _, _, rfl, ⟨t1, w1, rfl, o1.eq rfl⟩, ⟨t2, w2, rfl, o2.eq rfl⟩, hw⟩
    have e3' : topCh (exec E rec (.call .type_) (exec E rec (expect .Colon) (exec E rec (expect .Ident) s))) =
        topCh (exec E rec (expect .Colon) (exec E rec (expect .Ident) s)) ++ w := e3
    rw [e3', x2, e2, x1, e1]; simp
  · exact Or.inr he

theorem vc_typeRecordLoop (s : St) (h : Em E c rec (R E c) (body .typeRecordLoop) s) :
    Rs E c .typeRecordLoop s (exec E rec (body .typeRecordLoop) s) :=
  sepLoop_vc .typeRecordLoop .BlockEnd (by decide) (seqs [expectAll [.Ident, .Colon], .call .type_]) (PRecTy c) (fun _ _ h => h)
    (fun s _ h => recTy_item s h) s h

/-! ## Items of type lists -/

theorem itemRun_TB (w : List Green) (h : TB c w) : ∀ (d : Nat) (rest : List Green), itemRun c d (w ++ rest) = itemRun c d rest := by
  induction h with
  | node k a => intro d rest; simp [itemRun]
  | paren o cl w ho _ hc ih =>
    intro d rest
    obtain ⟨io, wo, rfl, ko⟩ := ho
    obtain ⟨ic, wc, rfl, kc⟩ := hc
    simp only [List.cons_append, List.append_assoc, itemRun, ko, CstPrint.isOpenDelim, beq_self_eq_true, Bool.true_or, if_true]
    rw [ih]
    simp [itemRun, kc, CstPrint.isOpenDelim, CstPrint.isCloseDelim]

theorem TB_ne_nil (w : List Green) (h : TB c w) : w ≠ [] := by cases h <;> simp

theorem itemOk_TB (w : List Green) (h : TB c w) : ItemOk c w :=
  ⟨TB_ne_nil w h, by have := itemRun_TB w h 0 []; simpa [itemRun] using this⟩

theorem itemOk_recTy (w : List Green) (h : PRecTy c w) : ItemOk c w := by
  obtain ⟨i, cl, t, rfl, ⟨ti, wi, rfl, hi⟩, ⟨tc, wc, rfl, hc⟩, ht⟩ := h
  refine ⟨by simp, ?_⟩
  simp only [itemRun, hi, hc, CstPrint.isOpenDelim, CstPrint.isCloseDelim]
  have := itemRun_TB t ht 0 []
  simpa [itemRun] using this

/-! ## Obligations -/

theorem nok_typeRecord (s : St) : NOK (E := E) (c := c) (rec := rec) (body .typeRecord) s :=
  nok_node _ _ s (by decide) fun hW h => shapeOK_list .RecordType (fun _ h => h) _ <|
    listNode_vc .BlockBegin .BlockEnd rfl rfl (seqs [expectAll [.Ident, .Colon], .call .type_, .call .typeRecordLoop])
      (fun s hW h =>
        itemLoop_mid (seqs [expectAll [.Ident, .Colon], .call .type_]) (.call .typeRecordLoop) (PRecTy c) itemOk_recTy
          (fun s _ h => recTy_item s h)
          (fun s _ h => loop_of_R .typeRecordLoop (PRecTy c) (fun _ _ h => h) s h) s hW (em_assoc _ _ _ s h)) _ rfl h

theorem nok_typeTupleOrParen (s : St) : NOK (E := E) (c := c) (rec := rec) (body .typeTupleOrParen) s := by
  show NOK (.ite (.look .isTupleType) (.node .TupleType (seqs [expect .ParenBegin,
      unless_ (.check .ParenEnd) (seqs [.call .type_, .call .typeTupleLoop]), expect .ParenEnd]))
    (.ite (.peekIs 1 .ParenEnd) (.node .UnitType (seqs [expect .ParenBegin, expect .ParenEnd]))
      (seqs [.bump, .call .type_, expect .ParenEnd]))) s
  rw [nok_ite]
  split
  · exact nok_node _ _ s (by decide) fun hW h => shapeOK_list .TupleType (fun _ h => h) _ <|
      listNode_vc .ParenBegin .ParenEnd rfl rfl _
        (itemLoop_mid (.call .type_) (.call .typeTupleLoop) (TB c) itemOk_TB (fun _ _ h => AppE.weak (And.left h))
          (fun s _ h => loop_of_R .typeTupleLoop (TB c) (fun _ _ h => h) s h)) _ rfl h
  · exact nok_triv _ _ (by decide)

theorem nok_typePrimary (s : St) : NOK (E := E) (c := c) (rec := rec) (body .typePrimary) s := by
  show NOK (.ite (.peekIn 0 [.FloatType, .IntegerType, .StringType]) (.node .PrimitiveType .bump)
    (.ite (.peekIn 0 [.ParenBegin]) (.call .typeTupleOrParen) _)) s
  rw [nok_ite]
  split
  · exact nok_triv _ _ (by decide)
  · rw [nok_ite]
    split
    · rename_i hc
      rw [nok_call]
      exact (evalCond_check s .ParenBegin).mp hc
    · exact nok_triv _ _ (by decide)

theorem nok_type_ (s : St) : NOK (E := E) (c := c) (rec := rec) (body .type_) s := by
  show NOK (.ite (.both (.check .ParenBegin) (.look .typeArrowAhead))
    (.node .FunctionType (.seq (.call .typeTupleOrParen) (.seq (expect .Arrow) (.call .type_)))) (.call .typeUnion)) s
  rw [nok_ite]
  split
  · rename_i hc
    rw [nok_node_eq, nok_seq, nok_call]
    refine ⟨⟨?_, fun _ => nok_triv _ _ (by decide)⟩, fun _ _ _ => ShapeOK.triv cov _ _ rfl⟩
    show peek E (prim E s (.startNode SK.FunctionType.toNat)) = some Kind.ParenBegin
    rw [peek_start]
    simp only [evalCond, Bool.and_eq_true] at hc
    exact (evalCond_check s .ParenBegin).mp hc.1
  · exact nok_triv _ _ (by decide)

/-! ## Lambdas -/

theorem noBar_node (k : Nat) (a : List Green) : NoBar c (.node k a) := fun ⟨_, _, h, _⟩ => by cases h

theorem noBar_tok (i w : Nat) (h : c.kind i ≠ .LambdaArgBeginEnd) : NoBar c (.token i w) := by
  rintro ⟨i', w', he, hk⟩
  cases he
  exact h hk

theorem noBar_TB (w : List Green) (h : TB c w) : ∀ g ∈ w, NoBar c g := by
  induction h with
  | node k a => intro g hg; simp only [List.mem_singleton] at hg; subst hg; exact noBar_node _ _
  | paren o cl w ho _ hc ih =>
    obtain ⟨io, wo, rfl, ko⟩ := ho
    obtain ⟨ic, wc, rfl, kc⟩ := hc
    intro g hg
    simp only [List.mem_cons, List.mem_append, List.mem_singleton, List.not_mem_nil, or_false] at hg
    rcases hg with rfl | hg | rfl
    · exact noBar_tok _ _ (by rw [ko]; decide)
    · exact ih g hg
    · exact noBar_tok _ _ (by rw [kc]; decide)

theorem noBar_orig (k : Kind) (ti w : Nat) (hk : k ≠ .LambdaArgBeginEnd) (ho : OrigOf c k ti) : NoBar c (.token ti w) := by
  apply noBar_tok
  rcases ho with h | ⟨h, _⟩
  · rw [h]; exact hk
  · rw [h]; decide

theorem vc_lambdaParamLoop (s : St) (hW : W E c s) (h : Em E c rec (R E c) (body .lambdaParamLoop) s) :
    Rs E c .lambdaParamLoop s (exec E rec (body .lambdaParamLoop) s) := by
  have hshow : body .lambdaParamLoop = .ite (.both (.neg (.check .LambdaArgBeginEnd)) (.neg .atEnd))
      (.seq (.ite (.check .Ident) (.seq (.bumpAs .param) (.ite (.check .Colon) (.call .typeAnnotation) .skip)) .bump)
        (.ite (.check .Comma) (.seq .bump (.call .lambdaParamLoop))
          (.ite (.neg (.check .LambdaArgBeginEnd)) .skip (.call .lambdaParamLoop)))) .skip := rfl
  rw [hshow] at h ⊢
  revert h
  refine ite_vc (P := fun s' => App (fun w => ∀ g ∈ w, NoBar c g) s s') _ _ _ _ (fun hc h => ?_)
    (fun _ _ => ⟨[], by rw [exec_skip]; simp, by simp⟩)
  rw [em_seq] at h
  obtain ⟨h1, _, h2⟩ := h
  rw [exec_seq]
  have hpk : ∃ k, peek E s = some k ∧ k ≠ .LambdaArgBeginEnd := by
    simp only [evalCond, Bool.and_eq_true, Bool.not_eq_true'] at hc
    obtain ⟨hc1, hc2⟩ := hc
    cases hp : peek E s with
    | none => simp [isAtEnd, hp] at hc2
    | some k =>
      refine ⟨k, rfl, ?_⟩
      intro hk
      have := (evalCond_check s .LambdaArgBeginEnd).mpr (by rw [hp, hk])
      simp only [evalCond] at this
      rw [this] at hc1; cases hc1
  obtain ⟨k0, hp0, hk0⟩ := hpk
  have hfirst : App (fun w => ∀ g ∈ w, NoBar c g) s
      (exec E rec (.ite (.check .Ident) (.seq (.bumpAs .param) (.ite (.check .Colon) (.call .typeAnnotation) .skip)) .bump) s) := by
    revert h1
    refine ite_vc (P := fun s' => App (fun w => ∀ g ∈ w, NoBar c g) s s') _ _ _ _ (fun hi h => ?_) (fun _ h => ?_)
    · rw [em_seq] at h
      obtain ⟨hb, _, ha⟩ := h
      rw [exec_seq]
      obtain ⟨ti, w, e1, k1⟩ := em_bumpAs_some .param .Ident s ((evalCond_check s .Ident).mp hi) rfl hb
      obtain ⟨wa, ea, hwa⟩ := opt_node (.check .Colon) (.call .typeAnnotation) _ (fun h => And.left h) ha
      refine ⟨.token ti w :: wa, by rw [ea, e1]; simp, ?_⟩
      intro g hg
      rcases List.mem_cons.mp hg with rfl | hg
      · exact noBar_tok _ _ (by rw [k1]; decide)
      · obtain ⟨k, a, rfl⟩ := hwa g hg; exact noBar_node _ _
    · obtain ⟨ti, w, e1, o1⟩ := h.1 k0 hp0
      exact ⟨[.token ti w], e1, by intro g hg; simp only [List.mem_singleton] at hg; subst hg; exact noBar_orig k0 ti w hk0 o1⟩
  obtain ⟨w1, e1, hw1⟩ := hfirst
  have key : ∀ s2 : St, App (fun w => ∀ g ∈ w, NoBar c g)
      (exec E rec (.ite (.check .Ident) (.seq (.bumpAs .param) (.ite (.check .Colon) (.call .typeAnnotation) .skip)) .bump) s) s2 →
      App (fun w => ∀ g ∈ w, NoBar c g) s s2 := by
    intro s2 ⟨w, e, hw⟩
    refine ⟨w1 ++ w, by rw [e, e1]; simp, ?_⟩
    intro g hg
    rcases List.mem_append.mp hg with hg | hg
    · exact hw1 g hg
    · exact hw g hg
  revert h2
  refine ite_vc (P := fun s' => App (fun w => ∀ g ∈ w, NoBar c g) s s') _ _ _ _ (fun hcm h => ?_) (fun _ => ?_)
  · rw [em_seq] at h
    obtain ⟨hb, _, hr⟩ := h
    rw [exec_seq]
    obtain ⟨ti, w, eb, kb⟩ := bump_after_check .Comma _ ((evalCond_check _ .Comma).mp hcm) rfl hb
    obtain ⟨wr, er, hwr⟩ := hr.1
    refine key _ ⟨.token ti w :: wr, by rw [er, eb]; simp, ?_⟩
    intro g hg
    rcases List.mem_cons.mp hg with rfl | hg
    · exact noBar_tok _ _ (by rw [kb]; decide)
    · exact hwr g hg
  · refine ite_vc (P := fun s' => App (fun w => ∀ g ∈ w, NoBar c g) s s') _ _ _ _
      (fun _ _ => key _ ⟨[], by rw [exec_skip]; simp, by simp⟩) (fun _ h => key _ (And.left h))

theorem takeWhile_noBar (params rest : List Green) (ie we : Nat) (hk : c.kind ie = .LambdaArgBeginEnd) (hp : ∀ g ∈ params, NoBar c g) :
    (params ++ .token ie we :: rest).takeWhile (fun g => !(CstPrint.tokKind c g == some Kind.LambdaArgBeginEnd)) = params := by
  induction params with
  | nil => simp [List.takeWhile, CstPrint.tokKind, hk]
  | cons g gs ih =>
    have hg := hp g (by simp)
    have : (!(CstPrint.tokKind c g == some Kind.LambdaArgBeginEnd)) = true := by
      cases g with
      | node k a => simp [CstPrint.tokKind]
      | token i w =>
        simp only [CstPrint.tokKind, Bool.not_eq_true', beq_eq_false_iff_ne, ne_eq, Option.some.injEq]
        intro he; exact hg ⟨i, w, rfl, he⟩
    simp only [List.cons_append, List.takeWhile, this]
    rw [ih (fun x hx => hp x (by simp [hx]))]

theorem nok_lambdaExpr (s : St) : NOK (E := E) (c := c) (rec := rec) (body .lambdaExpr) s :=
  nok_node _ _ s (by decide) fun hW h => by
    have hshow : seqs [expect Kind.LambdaArgBeginEnd, Cmd.call Tag.lambdaParamLoop, expect Kind.LambdaArgBeginEnd,
        when_ (Cond.check Kind.Arrow) (seqs [Cmd.bump, Cmd.call Tag.type_]),
        unless_ Cond.atEnd (Cmd.ite (Cond.check Kind.BlockBegin) (Cmd.call Tag.blockExpr) (Cmd.call Tag.expr))] =
      .seq (expect .LambdaArgBeginEnd) (.seq (.call .lambdaParamLoop) (.seq (expect .LambdaArgBeginEnd)
        (.seq (.ite (.check .Arrow) (.seq .bump (.call .type_)) .skip)
          (.ite (.neg .atEnd) (.ite (.check .BlockBegin) (.call .blockExpr) (.call .expr)) .skip)))) := rfl
    rw [hshow, em_seq, em_seq, em_seq, em_seq] at h
    rw [hshow, exec_seq, exec_seq, exec_seq, exec_seq]
    obtain ⟨h1, _, h2, _, h3, _, h4, _, h5⟩ := h
    obtain ⟨_, x1, t1, w1, e1, o1⟩ := em_expect _ _ h1
    obtain ⟨wp, ep, hwp⟩ := h2.1
    obtain ⟨_, x3, t3, w3, e3, o3⟩ := em_expect _ _ h3
    -- return type
    have hret : App (fun w => ∀ g ∈ w, NoBar c g) (exec E rec (expect .LambdaArgBeginEnd) (exec E rec (.call .lambdaParamLoop)
          (exec E rec (expect .LambdaArgBeginEnd) (prim E s (.startNode SK.LambdaExpr.toNat)))))
        (exec E rec (.ite (.check .Arrow) (.seq .bump (.call .type_)) .skip) (exec E rec (expect .LambdaArgBeginEnd)
          (exec E rec (.call .lambdaParamLoop) (exec E rec (expect .LambdaArgBeginEnd) (prim E s (.startNode SK.LambdaExpr.toNat)))))) := by
      revert h4
      refine ite_vc (P := fun s' => App (fun w => ∀ g ∈ w, NoBar c g) _ s') _ _ _ _ (fun hc h => ?_)
        (fun _ _ => ⟨[], by rw [exec_skip]; simp, by simp⟩)
      rw [em_seq] at h
      obtain ⟨hb, _, ht⟩ := h
      rw [exec_seq]
      obtain ⟨ta, wa, ea, ka⟩ := bump_after_check .Arrow _ ((evalCond_check _ .Arrow).mp hc) rfl hb
      rcases ht.1 with ⟨wt, et, hwt⟩ | ⟨et, _⟩
      · refine ⟨.token ta wa :: wt, by rw [et, ea]; simp, ?_⟩
        intro g hg
        rcases List.mem_cons.mp hg with rfl | hg
        · exact noBar_tok _ _ (by rw [ka]; decide)
        · exact noBar_TB wt hwt g hg
      · refine ⟨[.token ta wa], by rw [et, ea], ?_⟩
        intro g hg; simp only [List.mem_singleton] at hg; subst hg
        exact noBar_tok _ _ (by rw [ka]; decide)
    obtain ⟨wr, er, hwr⟩ := hret
    -- body
    have hbody : App (fun w => ∀ g ∈ w, NoBar c g) (exec E rec (.ite (.check .Arrow) (.seq .bump (.call .type_)) .skip)
          (exec E rec (expect .LambdaArgBeginEnd) (exec E rec (.call .lambdaParamLoop)
            (exec E rec (expect .LambdaArgBeginEnd) (prim E s (.startNode SK.LambdaExpr.toNat))))))
        (exec E rec (.ite (.neg .atEnd) (.ite (.check .BlockBegin) (.call .blockExpr) (.call .expr)) .skip)
          (exec E rec (.ite (.check .Arrow) (.seq .bump (.call .type_)) .skip) (exec E rec (expect .LambdaArgBeginEnd)
            (exec E rec (.call .lambdaParamLoop) (exec E rec (expect .LambdaArgBeginEnd) (prim E s (.startNode SK.LambdaExpr.toNat))))))) := by
      revert h5
      refine ite_vc (P := fun s' => App (fun w => ∀ g ∈ w, NoBar c g) _ s') _ _ _ _ (fun _ => ?_)
        (fun _ _ => ⟨[], by rw [exec_skip]; simp, by simp⟩)
      refine ite_vc (P := fun s' => App (fun w => ∀ g ∈ w, NoBar c g) _ s') _ _ _ _ (fun _ h => ?_) (fun _ h => ?_)
      · obtain ⟨w, e, k, a, rfl⟩ := And.left h
        exact ⟨_, e, by intro g hg; simp only [List.mem_singleton] at hg; subst hg; exact noBar_node _ _⟩
      · obtain ⟨w, e, hw⟩ := And.left h
        refine ⟨w, e, ?_⟩
        intro g hg
        obtain ⟨k, a, rfl | ⟨a', rfl⟩⟩ := hw <;> simp only [List.mem_cons, List.mem_singleton, List.not_mem_nil, or_false] at hg
        · subst hg; exact noBar_node _ _
        · rcases hg with rfl | rfl <;> exact noBar_node _ _
    obtain ⟨wb, eb, hwb⟩ := hbody
    intro hst _
    have ep' : topCh (exec E rec (.call .lambdaParamLoop) (exec E rec (expect .LambdaArgBeginEnd) (prim E s (.startNode SK.LambdaExpr.toNat)))) =
        topCh (exec E rec (expect .LambdaArgBeginEnd) (prim E s (.startNode SK.LambdaExpr.toNat))) ++ wp := ep
    have hall : topCh (exec E rec (.ite (.neg .atEnd) (.ite (.check .BlockBegin) (.call .blockExpr) (.call .expr)) .skip)
          (exec E rec (.ite (.check .Arrow) (.seq .bump (.call .type_)) .skip) (exec E rec (expect .LambdaArgBeginEnd)
            (exec E rec (.call .lambdaParamLoop) (exec E rec (expect .LambdaArgBeginEnd) (prim E s (.startNode SK.LambdaExpr.toNat))))))) =
        .token t1 w1 :: (wp ++ .token t3 w3 :: (wr ++ wb)) := by
      rw [eb, er, x3, e3, ep', x1, e1, topCh_start]; simp
    rw [hall] at hst ⊢
    have k3 : c.kind t3 = .LambdaArgBeginEnd := o3.eq rfl
    apply CstPrint.lamShape_ok
    refine ⟨t1, w1, wp, t3, w3, wr ++ wb, o1.eq rfl, k3, rfl, hwp, ?_, ?_⟩
    · simp only [CstPrint.strictAt, CstPrint.lambdaParams, List.drop_succ_cons, List.drop_zero] at hst
      rw [takeWhile_noBar wp _ t3 w3 k3 hwp] at hst
      exact hst
    · intro g hg
      rcases List.mem_append.mp hg with hg | hg
      · exact hwr g hg
      · exact hwb g hg

end Mimium.Grammar
