import Mimium.Proofs.CstKeepLambda
/-!
# Shape ⇒ `ok` tests for `print_record_expr` and `print_macro_expansion`
-/
namespace Mimium.CstPrint
open Mimium.Gen (Kind SK)
open Mimium.Cst (Green)
open SDoc

variable (c : Ctx)

/-! ## Records: `{`, children that are no brace tokens and whose commas follow content, `}` -/

def NoBrace (g : Green) : Prop := ¬ IsTok c .BlockBegin g ∧ ¬ IsTok c .BlockEnd g

def RecShape (cs : List Green) : Prop :=
  ∃ io wo body ic wc, c.kind io = .BlockBegin ∧ c.kind ic = .BlockEnd ∧ cs = .token io wo :: (body ++ [.token ic wc]) ∧
    (∀ g ∈ body, NoBrace c g) ∧ commasFollowItems c false body = true

structure RI (st : RecSt) (p : Bool) : Prop where
  ib : st.inBody = true
  cl : st.closeDoc = nil
  len : st.seps.length = st.fields.length
  hc : st.hasCurrent = p
  cur : p = false → st.current = nil

theorem rec_body (w : List Green) : ∀ (p : Bool) (st : RecSt), RI st p → (∀ g ∈ w, NoBrace c g) → commasFollowItems c p w = true →
    allOk (recStep c) (recOk c) st (chL c w) = true ∧ ∃ p', RI ((chL c w).foldl (recStep c) st) p' := by
  induction w with
  | nil => intro p st h _ _; exact ⟨rfl, p, h⟩
  | cons g gs ih =>
    intro p st h hn hs
    have hg := hn g (by simp)
    have hgs : ∀ x ∈ gs, NoBrace c x := fun x hx => hn x (by simp [hx])
    cases g with
    | node k a =>
      simp only [commasFollowItems, tokKind] at hs
      have hst : RI (recStep c st (.node k a, cstToDoc c (.node k a))) true := by
        refine ⟨?_, ?_, ?_, ?_, ?_⟩ <;> simp [recStep, recOther, h.ib, h.cl, h.len]
      obtain ⟨i1, i2⟩ := ih true _ hst hgs (by simpa using hs)
      simp only [chL, allOk, List.foldl_cons, Bool.and_eq_true]
      exact ⟨⟨by simp [recOk, h.ib, h.cl, emp_nil, h.len], i1⟩, i2⟩
    | token i w =>
      have hb1 : (c.kind i == Kind.BlockBegin) = false := by
        simp only [beq_eq_false_iff_ne, ne_eq]; intro he; exact hg.1 ⟨i, w, rfl, he⟩
      have hb2 : (c.kind i == Kind.BlockEnd) = false := by
        simp only [beq_eq_false_iff_ne, ne_eq]; intro he; exact hg.2 ⟨i, w, rfl, he⟩
      by_cases hk : c.kind i = .Comma
      · simp only [commasFollowItems, tokKind, hk, beq_self_eq_true, if_true, Bool.and_eq_true] at hs
        have hp : p = true := hs.1
        subst hp
        have hpush : pushCommaComments c st.seps (st.fields.length + 1) i = st.seps ++ [emitTokenComments c i] :=
          pushCommaComments_eq c st.seps _ i (by simp [h.len])
        have hst : RI (recStep c st (.token i w, cstToDoc c (.token i w))) false := by
          refine ⟨?_, ?_, ?_, ?_, ?_⟩ <;> simp [recStep, hb1, hb2, hk, h.hc, hpush, h.ib, h.cl, h.len]
        obtain ⟨i1, i2⟩ := ih false _ hst hgs hs.2
        simp only [chL, allOk, List.foldl_cons, Bool.and_eq_true]
        exact ⟨⟨by simp [recOk, hb1, hb2, hk, h.hc, h.len, h.ib, h.cl, emp_nil], i1⟩, i2⟩
      · have hkc : (c.kind i == Kind.Comma) = false := by simpa using hk
        simp only [commasFollowItems, tokKind, Option.some.injEq, beq_iff_eq, hk, if_false] at hs
        have hst : RI (recStep c st (.token i w, cstToDoc c (.token i w))) true := by
          refine ⟨?_, ?_, ?_, ?_, ?_⟩ <;>
            (simp only [recStep, recOther, hb1, hb2, hkc, h.ib, Bool.false_and, Bool.false_eq_true, if_false, Bool.and_true]
             split <;> simp [h.ib, h.cl, h.len])
        obtain ⟨i1, i2⟩ := ih true _ hst hgs (by simpa using hs)
        simp only [chL, allOk, List.foldl_cons, Bool.and_eq_true]
        exact ⟨⟨by simp [recOk, hb1, hb2, hkc, h.ib, h.cl, emp_nil, h.len], i1⟩, i2⟩

theorem recShape_ok (cs : List Green) (h : RecShape c cs) :
    (allOk (recStep c) (recOk c) {} (chL c cs) && !((chL c cs).foldl (recStep c) {}).inBody) = true := by
  obtain ⟨io, wo, body, ic, wc, ko, kc, rfl, hb, hs⟩ := h
  have hne : (Kind.BlockEnd == Kind.BlockBegin) = false := by decide
  have h0 : RI (recStep c {} (.token io wo, cstToDoc c (.token io wo))) false := by
    refine ⟨?_, ?_, ?_, ?_, ?_⟩ <;> simp [recStep, ko]
  obtain ⟨p1, p', p2⟩ := rec_body c body false _ h0 hb hs
  simp only [chL, chL_append, allOk, allOk_append, List.foldl_cons, List.foldl_append, List.foldl_nil, Bool.and_eq_true, Bool.not_eq_true',
    Bool.and_true]
  generalize (chL c body).foldl (recStep c) (recStep c {} (.token io wo, cstToDoc c (.token io wo))) = st at p2 ⊢
  refine ⟨⟨by simp [recOk, ko, emp_nil], p1, ?_⟩, by simp [recStep, kc, hne]⟩
  cases hp' : p' with
  | true => simp [recOk, kc, hne, p2.ib, p2.cl, emp_nil, p2.hc, hp', p2.len]
  | false => simp [recOk, kc, hne, p2.ib, p2.cl, emp_nil, p2.hc, hp', p2.cur hp', p2.len]

/-! ## Macro expansion: head, `!`, `(`, `arg (, arg)* ,?`, `)` with one node per argument -/

def MacShape (cs : List Green) : Prop :=
  ∃ head ie we io wo body ic wc, (IsNode head ∨ IsTok c .Ident head) ∧ c.kind ie = .MacroExpand ∧ c.kind io = .ParenBegin ∧
    c.kind ic = .ParenEnd ∧ cs = head :: .token ie we :: .token io wo :: (body ++ [.token ic wc]) ∧
    (body = [] ∨ ∃ n tail, body = n :: tail ∧ IsNode n ∧ SepTail c (fun w => ∃ m, w = [m] ∧ IsNode m) tail)

structure MI (st : MacSt) (b : Bool) : Prop where
  ia : st.inArgs = true
  cl : st.closeDoc = nil
  len : if b then st.seps.length + 1 = st.args.length else st.seps.length = st.args.length

theorem mac_arg (st : MacSt) (h : MI st false) (k : Nat) (a : List Green) :
    macOk c st (.node k a, cstToDoc c (.node k a)) = true ∧ MI (macStep c st (.node k a, cstToDoc c (.node k a))) true := by
  have hl : st.seps.length = st.args.length := by simpa using h.len
  refine ⟨by simp [macOk, h.ia, h.cl, emp_nil, hl], ?_, ?_, ?_⟩ <;> simp [macStep, macOther, h.ia, h.cl, hl]

theorem mac_comma (st : MacSt) (h : MI st true) (i w : Nat) (hk : c.kind i = .Comma) :
    macOk c st (.token i w, cstToDoc c (.token i w)) = true ∧ MI (macStep c st (.token i w, cstToDoc c (.token i w))) false := by
  have hl : st.seps.length + 1 = st.args.length := by simpa using h.len
  have hpush : pushCommaComments c st.seps st.args.length i = st.seps ++ [emitTokenComments c i] := pushCommaComments_eq c st.seps _ i hl
  have e1 : (Kind.Comma == Kind.Ident) = false := by decide
  have e2 : (Kind.Comma == Kind.IdentFunction) = false := by decide
  have e3 : (Kind.Comma == Kind.MacroExpand) = false := by decide
  have e4 : (Kind.Comma == Kind.ParenBegin) = false := by decide
  have e5 : (Kind.Comma == Kind.ParenEnd) = false := by decide
  refine ⟨by simp [macOk, hk, e1, e2, e3, e4, e5, h.ia, h.cl, emp_nil, hl], ?_, ?_, ?_⟩ <;>
    simp [macStep, hk, e1, e2, e3, e4, e5, h.ia, h.cl, hpush, hl]

theorem mac_tail (w : List Green) (hw : SepTail c (fun w => ∃ m, w = [m] ∧ IsNode m) w) : ∀ st, MI st true →
    allOk (macStep c) (macOk c) st (chL c w) = true ∧ ∃ b, MI ((chL c w).foldl (macStep c) st) b := by
  induction hw with
  | nil => intro st h; exact ⟨rfl, true, h⟩
  | trail g hg =>
    intro st h
    obtain ⟨i, w, rfl, hk⟩ := hg
    obtain ⟨o1, o2⟩ := mac_comma c st h i w hk
    simp only [chL, allOk, List.foldl_cons, List.foldl_nil, o1, Bool.true_and]
    exact ⟨trivial, false, o2⟩
  | cons g item tail hg hitem _ ih =>
    intro st h
    obtain ⟨i, w, rfl, hk⟩ := hg
    obtain ⟨m, rfl, k, a, rfl⟩ := hitem
    obtain ⟨o1, o2⟩ := mac_comma c st h i w hk
    obtain ⟨a1, a2⟩ := mac_arg c _ o2 k a
    obtain ⟨t1, t2⟩ := ih _ a2
    simp only [chL, List.cons_append, List.nil_append, allOk, List.foldl_cons, o1, a1, t1, Bool.true_and]
    exact ⟨trivial, t2⟩

theorem macShape_ok (cs : List Green) (h : MacShape c cs) : allOk (macStep c) (macOk c) {} (chL c cs) = true := by
  obtain ⟨head, ie, we, io, wo, body, ic, wc, hh, ke, ko, kc, rfl, hb⟩ := h
  have e1 : (Kind.MacroExpand == Kind.Ident) = false := by decide
  have e2 : (Kind.MacroExpand == Kind.IdentFunction) = false := by decide
  have f1 : (Kind.ParenBegin == Kind.Ident) = false := by decide
  have f2 : (Kind.ParenBegin == Kind.IdentFunction) = false := by decide
  have f3 : (Kind.ParenBegin == Kind.MacroExpand) = false := by decide
  have g1 : (Kind.ParenEnd == Kind.Ident) = false := by decide
  have g2 : (Kind.ParenEnd == Kind.IdentFunction) = false := by decide
  have g3 : (Kind.ParenEnd == Kind.MacroExpand) = false := by decide
  have g4 : (Kind.ParenEnd == Kind.ParenBegin) = false := by decide
  -- the state after the head: only `result` has changed
  have hhead : macOk c {} (head, cstToDoc c head) = true ∧
      ∃ r, macStep c {} (head, cstToDoc c head) = { result := r } := by
    rcases hh with ⟨k, a, rfl⟩ | ⟨i, w, rfl, hk⟩
    · exact ⟨by simp [macOk, macFresh, emp_nil], nil ++ cstToDoc c (.node k a), by simp [macStep, macOther]⟩
    · exact ⟨by simp [macOk, macFresh, emp_nil, hk], nil ++ cstToDoc c (.token i w), by simp [macStep, hk]⟩
  obtain ⟨h1, r, hr⟩ := hhead
  have h3 : MI (macStep c (macStep c { result := r } (.token ie we, cstToDoc c (.token ie we))) (.token io wo, cstToDoc c (.token io wo))) false := by
    refine ⟨?_, ?_, ?_⟩ <;> simp [macStep, ke, ko, e1, e2, f1, f2, f3]
  have hclose : ∀ st b, MI st b → macOk c st (.token ic wc, cstToDoc c (.token ic wc)) = true := by
    intro st b h
    simp [macOk, kc, g1, g2, g3, g4, h.cl, emp_nil]
  simp only [chL, chL_append, allOk, allOk_append, List.foldl_cons, List.foldl_append, Bool.and_eq_true, hr, h1, true_and, Bool.and_true]
  refine ⟨by simp [macOk, macFresh, emp_nil, ke, e1, e2], by simp [macOk, macStep, macFresh, emp_nil, ke, ko, e1, e2, f1, f2, f3], ?_⟩
  rcases hb with rfl | ⟨n, tail, rfl, ⟨k, a, rfl⟩, ht⟩
  · simp only [chL, allOk, List.foldl_nil, true_and]
    exact hclose _ _ h3
  · obtain ⟨a1, a2⟩ := mac_arg c _ h3 k a
    obtain ⟨t1, b, t2⟩ := mac_tail c tail ht _ a2
    simp only [chL, allOk, List.foldl_cons, a1, t1, Bool.true_and, true_and]
    exact hclose _ _ t2

end Mimium.CstPrint
