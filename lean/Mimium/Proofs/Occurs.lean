import Mimium.Model.Occurs
/-! The occurs check terminates on every store without cycles (any fuel above a bound gives an answer); with the `&&`
quirk it lets a cycle be created, after which it never returns. -/
namespace Mimium.Occurs

/-- more fuel never changes an answer -/
theorem occ_fuel_succ (σ : Store) (q : Bool) (id1 : Nat) : ∀ (fuel : Nat) (t : Ty) (b : Bool),
    occ σ q id1 fuel t = some b → occ σ q id1 (fuel + 1) t = some b := by
  intro fuel
  induction fuel with
  | zero => intro t b h; simp [occ] at h
  | succ f ih =>
    intro t b h
    cases t with
    | other => simpa [occ] using h
    | var v =>
      simp only [occ] at h ⊢
      cases hp : parent σ v with
      | none => simpa [hp] using h
      | some p =>
        simp only [hp] at h ⊢
        split
        · simpa [*] using h
        · rename_i hne
          simp only [hne, if_false] at h
          exact ih p b h
    | unary t => simp only [occ] at h ⊢; exact ih t b h
    | anyOf a c =>
      simp only [occ] at h ⊢
      cases ha : occ σ q id1 f a with
      | none => simp [ha] at h
      | some x =>
        rw [ih a x ha]
        cases x with
        | true => simpa [ha] using h
        | false => simp only [ha] at h; exact ih c b h
    | fn a r =>
      simp only [occ] at h ⊢
      cases ha : occ σ q id1 f a with
      | none => simp [ha] at h
      | some x =>
        rw [ih a x ha]
        simp only [ha] at h
        cases q <;> cases x
        · simp only [Bool.false_eq_true, if_false] at h ⊢; exact ih r b h
        · simpa using h
        · simpa using h
        · simp only [if_true] at h ⊢; exact ih r b h

theorem occ_fuel_mono (σ : Store) (q : Bool) (id1 : Nat) (fuel : Nat) (t : Ty) (b : Bool)
    (h : occ σ q id1 fuel t = some b) : ∀ k, occ σ q id1 (fuel + k) t = some b := by
  intro k
  induction k with
  | zero => exact h
  | succ k ih => exact occ_fuel_succ σ q id1 (fuel + k) t b ih

/-- answers exist from some fuel on -/
def Answers (σ : Store) (q : Bool) (id1 : Nat) (t : Ty) : Prop :=
  ∃ F b, ∀ fuel, F ≤ fuel → occ σ q id1 fuel t = some b

theorem answers_of (σ : Store) (q : Bool) (id1 : Nat) (t : Ty) (F : Nat) (b : Bool)
    (h : occ σ q id1 F t = some b) : Answers σ q id1 t :=
  ⟨F, b, fun fuel hf => by
    have := occ_fuel_mono σ q id1 F t b h (fuel - F)
    rwa [Nat.add_sub_cancel' hf] at this⟩

/-- key step: if every variable of `t` has rank `< n` and all terms over variables of smaller rank are answered, so is `t` -/
theorem answers_struct (σ : Store) (q : Bool) (id1 : Nat) (rk : Nat → Nat)
    (hrk : ∀ v t, parent σ v = some t → ∀ w ∈ vars t, rk w < rk v) (n : Nat)
    (ih : ∀ m, m < n → ∀ t, (∀ w ∈ vars t, rk w < m) → Answers σ q id1 t) :
    ∀ t, (∀ w ∈ vars t, rk w < n) → Answers σ q id1 t := by
  intro t
  induction t with
  | other => intro _; exact answers_of σ q id1 _ 1 false (by simp [occ])
  | var v =>
    intro hv
    cases hp : parent σ v with
    | none => exact answers_of σ q id1 _ 1 (decide (id1 = v)) (by simp [occ, hp])
    | some p =>
      by_cases he : id1 = v
      · exact answers_of σ q id1 _ 1 true (by simp [occ, hp, he])
      · have hlt : rk v < n := hv v (by simp [vars])
        obtain ⟨F, b, hF⟩ := ih (rk v) hlt p (hrk v p hp)
        exact answers_of σ q id1 _ (F + 1) b (by simp only [occ, hp, he, if_false]; exact hF F (Nat.le_refl _))
  | unary t iht =>
    intro hv
    obtain ⟨F, b, hF⟩ := iht (by simpa [vars] using hv)
    exact answers_of σ q id1 _ (F + 1) b (by simp only [occ]; exact hF F (Nat.le_refl _))
  | anyOf a c iha ihc =>
    intro hv
    have hva : ∀ w ∈ vars a, rk w < n := fun w hw => hv w (by simp [vars, hw])
    have hvc : ∀ w ∈ vars c, rk w < n := fun w hw => hv w (by simp [vars, hw])
    obtain ⟨Fa, ba, hFa⟩ := iha hva
    obtain ⟨Fc, bc, hFc⟩ := ihc hvc
    have e1 := hFa (Fa + Fc) (by omega)
    have e2 := hFc (Fa + Fc) (by omega)
    cases ba with
    | true => exact answers_of σ q id1 _ (Fa + Fc + 1) true (by simp [occ, e1])
    | false => exact answers_of σ q id1 _ (Fa + Fc + 1) bc (by simp [occ, e1, e2])
  | fn a r iha ihr =>
    intro hv
    have hva : ∀ w ∈ vars a, rk w < n := fun w hw => hv w (by simp [vars, hw])
    have hvr : ∀ w ∈ vars r, rk w < n := fun w hw => hv w (by simp [vars, hw])
    obtain ⟨Fa, ba, hFa⟩ := iha hva
    obtain ⟨Fr, br, hFr⟩ := ihr hvr
    have e1 := hFa (Fa + Fr) (by omega)
    have e2 := hFr (Fa + Fr) (by omega)
    cases q <;> cases ba
    · exact answers_of σ false id1 _ (Fa + Fr + 1) br (by simp [occ, e1, e2])
    · exact answers_of σ false id1 _ (Fa + Fr + 1) true (by simp [occ, e1])
    · exact answers_of σ true id1 _ (Fa + Fr + 1) false (by simp [occ, e1])
    · exact answers_of σ true id1 _ (Fa + Fr + 1) br (by simp [occ, e1, e2])

theorem answers_of_acyclic (σ : Store) (q : Bool) (id1 : Nat) (h : Acyclic σ) (t : Ty) : Answers σ q id1 t := by
  obtain ⟨rk, hrk⟩ := h
  have main : ∀ n, ∀ t, (∀ w ∈ vars t, rk w < n) → Answers σ q id1 t := by
    intro n
    induction n using Nat.strongRecOn with
    | _ n ih => exact answers_struct σ q id1 rk hrk n ih
  -- a bound above the ranks of all variables of `t`
  have bound : ∀ l : List Nat, ∃ n, ∀ w ∈ l, rk w < n := by
    intro l
    induction l with
    | nil => exact ⟨0, by simp⟩
    | cons x xs ihx =>
      obtain ⟨n, hn⟩ := ihx
      refine ⟨max n (rk x + 1), ?_⟩
      intro w hw
      rcases List.mem_cons.mp hw with rfl | hw
      · omega
      · have := hn w hw; omega
  obtain ⟨n, hn⟩ := bound (vars t)
  exact main n t hn

/-- the cyclic store of the witness: variable 0 was bound to `(0) -> 1` -/
def cyclicStore : Store := [(0, .fn (.var 0) (.var 1))]

/-- on it the occurs check for any other variable never returns: both the variable and its parent run out of fuel, for
every amount of fuel -/
theorem occ_diverges (id1 : Nat) (hid : id1 ≠ 0) : ∀ fuel,
    occ cyclicStore true id1 fuel (.var 0) = none ∧ occ cyclicStore true id1 fuel (.fn (.var 0) (.var 1)) = none := by
  intro fuel
  induction fuel with
  | zero => simp [occ]
  | succ f ih =>
    refine ⟨?_, ?_⟩
    · simp only [occ, cyclicStore, parent, if_true]
      simp only [hid, if_false]
      exact ih.2
    · simp only [occ]
      rw [ih.1]

end Mimium.Occurs
