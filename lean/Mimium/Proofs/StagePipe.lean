import Mimium.Model.Stage
/-!
The macro pipe (`convert_macro_pipe` / `substitute_macro_arg`): renaming the binder of a piped macro lambda together
with its splices does not change the expansion — in the compiler's order (function part converted first), where the
substitution acts on a body whose nested pipes are already expanded.
-/
namespace Mimium.Stage

mutual
/-- rename every splice `$a` to `$b` -/
def renHole (a b : String) : Ex → Ex
  | .escape e => match e with
    | .var x => if x = a then .escape (.var b) else .escape (.var x)
    | e => .escape (renHole a b e)
  | .app f args => .app (renHole a b f) (renHoleL a b args)
  | .lam ps body => .lam ps (renHole a b body)
  | .letE x v body => .letE x (renHole a b v) (renHole a b body)
  | .letT xs v body => .letT xs (renHole a b v) (renHole a b body)
  | .letrec x v body => .letrec x (renHole a b v) (renHole a b body)
  | .ite c t e => .ite (renHole a b c) (renHole a b t) (renHole a b e)
  | .thenE x y => .thenE (renHole a b x) (renHole a b y)
  | .assign l r => .assign (renHole a b l) (renHole a b r)
  | .tup es => .tup (renHoleL a b es)
  | .proj e i => .proj (renHole a b e) i
  | .arr es => .arr (renHoleL a b es)
  | .block e => .block (renHole a b e)
  | .feed x e => .feed x (renHole a b e)
  | .bracket e => .bracket (renHole a b e)
  | .macroExpand f args => .macroExpand (renHole a b f) (renHoleL a b args)
  | .pipeM x f => .pipeM (renHole a b x) (renHole a b f)
  | .placeholder => .placeholder
  | .flt v => .flt v
  | .int i => .int i
  | .str s => .str s
  | .selfL => .selfL
  | .now => .now
  | .sr => .sr
  | .var x => .var x
def renHoleL (a b : String) : List Ex → List Ex
  | [] => []
  | e :: es => renHole a b e :: renHoleL a b es
end

mutual
/-- no splice `$b` anywhere -/
def holeFree (b : String) : Ex → Bool
  | .escape e => match e with
    | .var x => x != b
    | e => holeFree b e
  | .app f args => holeFree b f && holeFreeL b args
  | .lam _ body => holeFree b body
  | .letE _ v body => holeFree b v && holeFree b body
  | .letT _ v body => holeFree b v && holeFree b body
  | .letrec _ v body => holeFree b v && holeFree b body
  | .ite c t e => holeFree b c && holeFree b t && holeFree b e
  | .thenE x y => holeFree b x && holeFree b y
  | .assign l r => holeFree b l && holeFree b r
  | .tup es => holeFreeL b es
  | .proj e _ => holeFree b e
  | .arr es => holeFreeL b es
  | .block e => holeFree b e
  | .feed _ e => holeFree b e
  | .bracket e => holeFree b e
  | .macroExpand f args => holeFree b f && holeFreeL b args
  | .pipeM x f => holeFree b x && holeFree b f
  | _ => true
def holeFreeL (b : String) : List Ex → Bool
  | [] => true
  | e :: es => holeFree b e && holeFreeL b es
end

mutual
/-- the substitution does not depend on the binder's name -/
theorem substMacroArg_renHole (a b : String) (rep : Ex) :
    ∀ (X : Ex), holeFree b X = true → substMacroArg b rep (renHole a b X) = substMacroArg a rep X
  | .escape e, h => by
    cases e with
    | var x =>
      simp only [holeFree, bne_iff_ne, ne_eq] at h
      by_cases hx : x = a
      · simp [renHole, substMacroArg, hx]
      · simp [renHole, substMacroArg, hx, h]
    | flt _ => simp [renHole, substMacroArg]
    | int _ => simp [renHole, substMacroArg]
    | str _ => simp [renHole, substMacroArg]
    | selfL => simp [renHole, substMacroArg]
    | now => simp [renHole, substMacroArg]
    | sr => simp [renHole, substMacroArg]
    | placeholder => simp [renHole, substMacroArg]
    | app f args =>
      have ih := substMacroArg_renHole a b rep (.app f args) (by simpa [holeFree] using h)
      simp only [renHole, substMacroArg] at ih ⊢
      rw [ih]
    | lam ps body =>
      have ih := substMacroArg_renHole a b rep (.lam ps body) (by simpa [holeFree] using h)
      simp only [renHole, substMacroArg] at ih ⊢
      rw [ih]
    | letE x v body =>
      have ih := substMacroArg_renHole a b rep (.letE x v body) (by simpa [holeFree] using h)
      simp only [renHole, substMacroArg] at ih ⊢
      rw [ih]
    | letT xs v body =>
      have ih := substMacroArg_renHole a b rep (.letT xs v body) (by simpa [holeFree] using h)
      simp only [renHole, substMacroArg] at ih ⊢
      rw [ih]
    | letrec x v body =>
      have ih := substMacroArg_renHole a b rep (.letrec x v body) (by simpa [holeFree] using h)
      simp only [renHole, substMacroArg] at ih ⊢
      rw [ih]
    | ite c t e =>
      have ih := substMacroArg_renHole a b rep (.ite c t e) (by simpa [holeFree] using h)
      simp only [renHole, substMacroArg] at ih ⊢
      rw [ih]
    | thenE x y =>
      have ih := substMacroArg_renHole a b rep (.thenE x y) (by simpa [holeFree] using h)
      simp only [renHole, substMacroArg] at ih ⊢
      rw [ih]
    | assign l r =>
      have ih := substMacroArg_renHole a b rep (.assign l r) (by simpa [holeFree] using h)
      simp only [renHole, substMacroArg] at ih ⊢
      rw [ih]
    | tup es =>
      have ih := substMacroArg_renHole a b rep (.tup es) (by simpa [holeFree] using h)
      simp only [renHole, substMacroArg] at ih ⊢
      rw [ih]
    | proj e i =>
      have ih := substMacroArg_renHole a b rep (.proj e i) (by simpa [holeFree] using h)
      simp only [renHole, substMacroArg] at ih ⊢
      rw [ih]
    | arr es =>
      have ih := substMacroArg_renHole a b rep (.arr es) (by simpa [holeFree] using h)
      simp only [renHole, substMacroArg] at ih ⊢
      rw [ih]
    | block e =>
      have ih := substMacroArg_renHole a b rep (.block e) (by simpa [holeFree] using h)
      simp only [renHole, substMacroArg] at ih ⊢
      rw [ih]
    | feed x e =>
      have ih := substMacroArg_renHole a b rep (.feed x e) (by simpa [holeFree] using h)
      simp only [renHole, substMacroArg] at ih ⊢
      rw [ih]
    | bracket e =>
      have ih := substMacroArg_renHole a b rep (.bracket e) (by simpa [holeFree] using h)
      simp only [renHole, substMacroArg] at ih ⊢
      rw [ih]
    | escape e =>
      have ih := substMacroArg_renHole a b rep (.escape e) (by simpa [holeFree] using h)
      obtain ⟨z, hz⟩ : ∃ z, renHole a b (.escape e) = .escape z := by
        cases e <;> simp only [renHole] <;> (try split) <;> exact ⟨_, rfl⟩
      have h1 : renHole a b (.escape (.escape e)) = .escape (renHole a b (.escape e)) := by simp only [renHole]
      rw [h1, hz]
      rw [hz] at ih
      simp only [substMacroArg]
      rw [ih]
    | macroExpand f args =>
      have ih := substMacroArg_renHole a b rep (.macroExpand f args) (by simpa [holeFree] using h)
      simp only [renHole, substMacroArg] at ih ⊢
      rw [ih]
    | pipeM x f =>
      have ih := substMacroArg_renHole a b rep (.pipeM x f) (by simpa [holeFree] using h)
      simp only [renHole, substMacroArg] at ih ⊢
      rw [ih]
  | .app f args, h => by
    simp only [holeFree, Bool.and_eq_true] at h
    simp [renHole, substMacroArg, substMacroArg_renHole a b rep f h.1, substMacroArgL_renHoleL a b rep args h.2]
  | .lam ps body, h => by
    simp only [holeFree] at h
    simp [renHole, substMacroArg, substMacroArg_renHole a b rep body h]
  | .letE x v body, h => by
    simp only [holeFree, Bool.and_eq_true] at h
    simp [renHole, substMacroArg, substMacroArg_renHole a b rep v h.1, substMacroArg_renHole a b rep body h.2]
  | .letT xs v body, h => by
    simp only [holeFree, Bool.and_eq_true] at h
    simp [renHole, substMacroArg, substMacroArg_renHole a b rep v h.1, substMacroArg_renHole a b rep body h.2]
  | .letrec x v body, h => by
    simp only [holeFree, Bool.and_eq_true] at h
    simp [renHole, substMacroArg, substMacroArg_renHole a b rep v h.1, substMacroArg_renHole a b rep body h.2]
  | .ite c t e, h => by
    simp only [holeFree, Bool.and_eq_true] at h
    simp [renHole, substMacroArg, substMacroArg_renHole a b rep c h.1.1, substMacroArg_renHole a b rep t h.1.2,
      substMacroArg_renHole a b rep e h.2]
  | .thenE x y, h => by
    simp only [holeFree, Bool.and_eq_true] at h
    simp [renHole, substMacroArg, substMacroArg_renHole a b rep x h.1, substMacroArg_renHole a b rep y h.2]
  | .assign l r, h => by
    simp only [holeFree, Bool.and_eq_true] at h
    simp [renHole, substMacroArg, substMacroArg_renHole a b rep l h.1, substMacroArg_renHole a b rep r h.2]
  | .tup es, h => by
    simp only [holeFree] at h
    simp [renHole, substMacroArg, substMacroArgL_renHoleL a b rep es h]
  | .proj e i, h => by
    simp only [holeFree] at h
    simp [renHole, substMacroArg, substMacroArg_renHole a b rep e h]
  | .arr es, h => by
    simp only [holeFree] at h
    simp [renHole, substMacroArg, substMacroArgL_renHoleL a b rep es h]
  | .block e, h => by
    simp only [holeFree] at h
    simp [renHole, substMacroArg, substMacroArg_renHole a b rep e h]
  | .feed x e, h => by
    simp only [holeFree] at h
    simp [renHole, substMacroArg, substMacroArg_renHole a b rep e h]
  | .bracket e, h => by
    simp only [holeFree] at h
    simp [renHole, substMacroArg, substMacroArg_renHole a b rep e h]
  | .macroExpand f args, h => by
    simp only [holeFree, Bool.and_eq_true] at h
    simp [renHole, substMacroArg, substMacroArg_renHole a b rep f h.1, substMacroArgL_renHoleL a b rep args h.2]
  | .pipeM x f, h => by
    simp only [holeFree, Bool.and_eq_true] at h
    simp [renHole, substMacroArg, substMacroArg_renHole a b rep x h.1, substMacroArg_renHole a b rep f h.2]
  | .placeholder, _ => by simp [renHole, substMacroArg]
  | .flt _, _ => by simp [renHole, substMacroArg]
  | .int _, _ => by simp [renHole, substMacroArg]
  | .str _, _ => by simp [renHole, substMacroArg]
  | .selfL, _ => by simp [renHole, substMacroArg]
  | .now, _ => by simp [renHole, substMacroArg]
  | .sr, _ => by simp [renHole, substMacroArg]
  | .var _, _ => by simp [renHole, substMacroArg]
theorem substMacroArgL_renHoleL (a b : String) (rep : Ex) :
    ∀ (Xs : List Ex), holeFreeL b Xs = true → substMacroArgL b rep (renHoleL a b Xs) = substMacroArgL a rep Xs
  | [], _ => by simp [renHoleL, substMacroArgL]
  | X :: Xs, h => by
    simp only [holeFreeL, Bool.and_eq_true] at h
    simp [renHoleL, substMacroArgL, substMacroArg_renHole a b rep X h.1, substMacroArgL_renHoleL a b rep Xs h.2]
end

/-- the pinned order: the argument is inlined into the CONVERTED body (its own pipes are already expanded) -/
theorem convMacroPipe_pipe (a : String) (arg body : Ex) :
    convMacroPipe (.pipeM arg (.lam [a] (.bracket body))) = substMacroArg a (convMacroPipe arg) (convMacroPipe body) := by
  simp [convMacroPipe, pipeStep]

end Mimium.Stage
