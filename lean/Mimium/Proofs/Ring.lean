import Mimium.Model.Cells
/-! The ring buffer delays its input: invariant and output characterisation of `Ring.processD`. -/
namespace Mimium.Cells

theorem mod_ne_of_lt_of_sub_lt {j k n : Nat} (hjk : j < k) (hd : k - j < n) : j % n ≠ k % n := by
  intro h
  have h0 : (k - j) % n = 0 := Nat.sub_mod_eq_zero_of_mod_eq h.symm
  have hdvd : n ∣ (k - j) := Nat.dvd_of_mod_eq_zero h0
  have hpos : 0 < k - j := by omega
  have := Nat.le_of_dvd hpos hdvd
  omega

theorem mod_shift {k d n : Nat} (hn : 0 < n) (hdk : d ≤ k) (hdn : d ≤ n) :
    (k % n + n - d) % n = (k - d) % n := by
  have hk := Nat.div_add_mod k n
  have e : k % n + n - d + n * (k / n) = (k - d) + n := by omega
  calc (k % n + n - d) % n = (k % n + n - d + n * (k / n)) % n := by rw [Nat.add_mul_mod_self_left]
    _ = ((k - d) + n) % n := by rw [e]
    _ = (k - d) % n := by rw [Nat.add_mod_right]

/-- state of the ring after `k` writes of the stream `x` -/
structure RingInv (n : Nat) (x : Nat → UInt64) (k : Nat) (r : Ring) : Prop where
  len : r.data.length = n
  wr : r.wr = k % n
  recent : ∀ j, j < k → k ≤ j + n → r.data.getD (j % n) 0 = x j
  fresh : ∀ i, k ≤ i → i < n → r.data.getD i 0 = 0

theorem ringInv_zero (n : Nat) (x : Nat → UInt64) (hn : 0 < n) : RingInv n x 0 (Ring.zero n) := by
  refine ⟨by simp [Ring.zero], by simp [Ring.zero], ?_, ?_⟩
  · intro j hj; omega
  · intro i _ hi
    simp [Ring.zero, List.getD, hi]

theorem getD_set_eq (l : List UInt64) (i : Nat) (v : UInt64) (h : i < l.length) : (l.set i v).getD i 0 = v := by
  simp [List.getD, h]

theorem getD_set_ne (l : List UInt64) (i j : Nat) (v : UInt64) (h : i ≠ j) : (l.set i v).getD j 0 = l.getD j 0 := by
  simp [List.getD, List.getElem?_set_ne h]

theorem ringInv_step {n : Nat} {x : Nat → UInt64} {k : Nat} {r : Ring} (hn : 0 < n) (h : RingInv n x k r) (d : Nat) :
    RingInv n x (k + 1) (r.processD (x k) d).2 := by
  have hlen := h.len
  have hmod : k % n < n := Nat.mod_lt _ hn
  unfold Ring.processD
  simp only [hlen, Nat.ne_of_gt hn, if_false]
  have hw : r.wr % n = k % n := by rw [h.wr, Nat.mod_mod]
  refine ⟨by simp [hlen], by simp [hw, Nat.add_mod], ?_, ?_⟩
  · intro j hj hkj
    simp only [hw]
    by_cases hjk : j = k
    · subst hjk; exact getD_set_eq _ _ _ (by omega)
    · have hlt : j < k := by omega
      rw [getD_set_ne _ _ _ _ (Ne.symm (mod_ne_of_lt_of_sub_lt hlt (by omega)))]
      exact h.recent j hlt (by omega)
  · intro i hki hin
    simp only [hw]
    have hkn : k < n := by omega
    rw [Nat.mod_eq_of_lt hkn, getD_set_ne _ _ _ _ (by omega)]
    exact h.fresh i (by omega) hin

/-- what one `process` call returns, for every clamped delay `d ≤ n-1` -/
theorem ring_output {n : Nat} {x : Nat → UInt64} {k : Nat} {r : Ring} (hn : 0 < n) (h : RingInv n x k r)
    (v : UInt64) (d : Nat) (hd : d ≤ n - 1) :
    (r.processD v d).1 =
      if d = 0 then (if n ≤ k then x (k - n) else 0)
      else if d ≤ k then x (k - d) else 0 := by
  have hlen := h.len
  unfold Ring.processD
  simp only [hlen, Nat.ne_of_gt hn, if_false]
  have hw : r.wr % n = k % n := by rw [h.wr, Nat.mod_mod]
  rw [hw]
  by_cases hd0 : d = 0
  · subst hd0
    simp only [if_true, Nat.sub_zero, Nat.add_mod_right, Nat.mod_mod]
    by_cases hnk : n ≤ k
    · simp only [hnk, if_true]
      have := h.recent (k - n) (by omega) (by omega)
      rwa [← Nat.mod_eq_sub_mod hnk] at this
    · simp only [hnk, if_false]
      have hkn : k < n := by omega
      rw [Nat.mod_eq_of_lt hkn]
      exact h.fresh k (Nat.le_refl _) hkn
  · simp only [hd0, if_false]
    by_cases hdk : d ≤ k
    · simp only [hdk, if_true]
      rw [mod_shift hn hdk (by omega)]
      exact h.recent (k - d) (by omega) (by omega)
    · simp only [hdk, if_false]
      have hkn : k < n := by omega
      rw [Nat.mod_eq_of_lt hkn]
      have hi : k + n - d < n := by omega
      rw [Nat.mod_eq_of_lt hi]
      exact h.fresh (k + n - d) (by omega) hi

/-- the ring after feeding it the first `k` samples of `x` with delays `d` -/
def ringAfter (n : Nat) (x : Nat → UInt64) (d : Nat → Nat) : Nat → Ring
  | 0 => Ring.zero n
  | k + 1 => ((ringAfter n x d k).processD (x k) (d k)).2

theorem ringAfter_inv (n : Nat) (x : Nat → UInt64) (d : Nat → Nat) (hn : 0 < n) :
    ∀ k, RingInv n x k (ringAfter n x d k)
  | 0 => ringInv_zero n x hn
  | k + 1 => ringInv_step hn (ringAfter_inv n x d hn k) (d k)

end Mimium.Cells
