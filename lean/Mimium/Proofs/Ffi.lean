import Mimium.Model.Ffi
/-! Helper lemmas for C20: integer / string / key codecs, and the round trip of `decode ∘ encode`. -/
namespace Mimium.Ffi
open Mimium.Gen.Ffi

theorem readLE_leBytes (k n : Nat) (rest : Bytes) (h : n < 256 ^ k) :
    readLE k (leBytes k n ++ rest) = some (n, rest) := by
  induction k generalizing n with
  | zero => simp [readLE, leBytes] at *; omega
  | succ k ih =>
    have h2 : n / 256 < 256 ^ k := by
      rw [Nat.pow_succ] at h
      exact Nat.div_lt_of_lt_mul (by rw [Nat.mul_comm]; exact h)
    simp only [leBytes, List.cons_append, readLE, ih _ h2]
    have : (UInt8.ofNat (n % 256)).toNat = n % 256 := by
      simp [UInt8.toNat_ofNat']
    rw [this]
    congr 2
    omega

theorem leBytes_length (k n : Nat) : (leBytes k n).length = k := by
  induction k generalizing n with
  | zero => rfl
  | succ k ih => simp [leBytes, ih]

theorem readU32_encU32 (x : UInt32) (rest : Bytes) : readU32 (encU32 x ++ rest) = some (x, rest) := by
  unfold readU32 encU32
  rw [readLE_leBytes 4 x.toNat rest (by have := x.toNat_lt; omega)]
  simp

theorem readU64_encU64 (x : UInt64) (rest : Bytes) : readU64 (encU64 x ++ rest) = some (x, rest) := by
  unfold readU64 encU64
  rw [readLE_leBytes 8 x.toNat rest (by have := x.toNat_lt; omega)]
  simp

theorem readLen_encLen (n : Nat) (rest : Bytes) (h : LenOk n) : readLen (encLen n ++ rest) = some (n, rest) := by
  unfold readLen encLen
  exact readLE_leBytes 8 n rest (by unfold LenOk at h; omega)

theorem takeExact_append (xs rest : Bytes) : takeExact xs.length (xs ++ rest) = some (xs, rest) := by
  induction xs with
  | nil => cases rest <;> simp [takeExact]
  | cons x xs ih => simp [takeExact, ih]

theorem ofBytes?_strBytes (s : String) : ofBytes? (strBytes s) = some s := by
  unfold ofBytes? strBytes String.fromUTF8?
  have : (⟨s.toUTF8.data.toList.toArray⟩ : ByteArray) = s.toUTF8 := by simp
  rw [this]
  simp [String.toUTF8, s.isValidUTF8, String.fromUTF8]

theorem readStr_encStr (s : String) (rest : Bytes) (h : LenOk (strBytes s).length) :
    readStr (encStr s ++ rest) = some (s, rest) := by
  unfold readStr encStr
  rw [List.append_assoc, readLen_encLen _ _ h]
  simp only [takeExact_append, ofBytes?_strBytes]

theorem readKey_encKey (k : Key) (rest : Bytes) : readKey (encKey k ++ rest) = some (k.norm, rest) := by
  unfold readKey encKey
  rw [List.append_assoc, readU32_encU32]
  simp only [readU32_encU32]

theorem FfiCtor.ofTag_tag (c : FfiCtor) : FfiCtor.ofTag c.tag = some c := by
  cases c <;> rfl

theorem PTypeCtor.ofTag_tag (c : PTypeCtor) : PTypeCtor.ofTag c.tag = some c := by
  cases c <;> rfl

end Mimium.Ffi
