import Mimium.Proofs.ModRes
import Mimium.Gen.C17
/-! Specification vocabulary of C17 (what the property theorems talk about), the fixtures of the repaired finding F12
(`pub use` published a private member; /repo c6822e4 + 3b64798), of the repaired finding F12-cycle, and the witness of
finding F12-dup.
Names used in fixtures: `0 = dsp`, `1 = a`, `2 = secret`, `3 = b`, `4 = p`, `5 = x`. -/
namespace Mimium.ModRes

/-- the two forms a reference takes after parsing -/
inductive Ref where
  | ident (x : Name)
  | path (segs : List Name)
deriving DecidableEq, Repr

/-- the parser produces `QualifiedVar` only for two or more segments (bound re-extracted from `lower.rs`) -/
def Ref.wf : Ref → Bool
  | .ident _ => true
  | .path segs => decide (Gen.c17MinQualifiedSegments ≤ segs.length)

theorem Ref.wf_path {segs : List Name} (h : (Ref.path segs).wf = true) : 2 ≤ segs.length := by
  unfold Ref.wf at h
  exact of_decide_eq_true h

def resolveRef (c : RCtx) : Ref → Sym × List Err
  | .ident x => convertVar c [x]
  | .path segs => convertQVar c segs

/-- `sym` is a member of a module (its mangled name has a module part) that the tree declares without `pub` -/
def PrivateMember (evs : List Ev) (sym : Sym) : Prop := (sym, false) ∈ fnDecls evs ∧ 2 ≤ sym.length

/-- the statement of C17, clause 1, for one tree: an accepted reference never reaches a private member of a
module that is not an ancestor-or-self of the use site's module -/
def NoPrivateRoute (evs : List Ev) : Prop :=
  ∀ (known : Sym → Bool) (cur : List Name) (locals : List (List Sym)) (r : Ref) (sym : Sym),
    r.wf = true → resolveRef ⟨lowerInfo evs, known, cur, locals⟩ r = (sym, []) →
    PrivateMember evs sym → sym.dropLast <+: cur


/-- the names pass 1 collects for a flattened program -/
def knownOf (evs : List Ev) : Sym → Bool := fun s => (collectDefined (chain .unit evs)).contains s

/-- `mod a { fn secret(){7.0} }  mod b { pub use a::secret }  fn dsp(){ b::secret() }` -/
def f12 : List Item :=
  [.mod false 1 [.fn false 2 [] (.lit 7)], .mod false 3 [.use true [1, 2] .single],
   .fn false 0 [] (.call (.qvar [3, 2]))]


/-- a module can publish its own private member: `mod a { fn secret(){7.0}  pub use a::secret }`, then `a::secret` -/
def f12self : List Item :=
  [.mod false 1 [.fn false 2 [] (.lit 7), .use true [1, 2] .single], .fn false 0 [] (.call (.qvar [1, 2]))]


/-- … and the plain-identifier route: the re-export also registers the global alias `secret`, and the overwritten
entry of the visibility map lets it pass from any other module:
`mod a { fn secret(){7.0}  pub use a::secret }  use a::*  mod b { pub fn p(){ secret() } }` -/
def f12wild : List Item :=
  [.mod false 1 [.fn false 2 [] (.lit 7), .use true [1, 2] .single], .use false [1] .wildcard,
   .mod false 3 [.fn true 4 [] (.call (.var [2]))], .fn false 0 [] (.call (.qvar [3, 4]))]


/-- the order-dependent case that c6822e4 alone did not close — the re-export stands *before* the private function it
names, so the exported name is recorded public; rejected at the use site since 3b64798:
`mod a { mod x { pub use a::secret }  fn secret(){7.0} }  fn dsp(){ a::x::secret() }` -/
def f12order : List Item :=
  [.mod false 1 [.mod false 5 [.use true [1, 2] .single], .fn false 2 [] (.lit 7)],
   .fn false 0 [] (.call (.qvar [1, 5, 2]))]

/-- the repaired finding **F12-cycle**: two re-exports that name each other.  `a::x::secret` is exported while `a$secret`
is still unknown (recorded public, alias `a$x$secret → a$secret`); after the private `fn secret`, `pub use a::x::secret`
exports the name `a$secret` *itself*.  Before the repair (`entry().or_insert`) that overwrote the function's visibility entry
with the one of `a$x$secret` (public); the alias `a$secret → a$x$secret` closes a cycle, so a reference `a::secret` ends where it
started, no target is checked, and the overwritten entry said public.  Now the entry of the declared function stays:
`mod a { mod x { pub use a::secret }  fn secret(){7.0}  pub use a::x::secret }  fn dsp(){ a::secret() }` -/
def f12cycle : List Item :=
  [.mod false 1 [.mod false 5 [.use true [1, 2] .single], .fn false 2 [] (.lit 7), .use true [1, 5, 2] .single],
   .fn false 0 [] (.call (.qvar [1, 2]))]

/-- finding **F12-dup**: a reopened module declares the same mangled name twice, the last declaration wins in the
visibility map, both definitions are emitted:
`mod a { fn f(){1.0} }  fn probe(){ a::f() }  mod a { pub fn f(){2.0} }  fn dsp(){ probe() }` (names `4 = f`, `6 = probe`) -/
def f12dup : List Item :=
  [.mod false 1 [.fn false 4 [] (.lit 1)], .fn false 6 [] (.call (.qvar [1, 4])),
   .mod false 1 [.fn true 4 [] (.lit 2)], .fn false 0 [] (.call (.var [6]))]

/-- the flat, `$`-mangled name space is the path name space of the tree: the function events of the walk of a
module tree are exactly its members, reached by walking the path. -/
inductive Denotes : List Item → List Name → Bool → List Name → Expr → Prop where
  | here {items : List Item} {pub : Bool} {x : Name} {ps : List Name} {b : Expr} :
      Item.fn pub x ps b ∈ items → Denotes items [x] pub ps b
  | inside {items sub : List Item} {mp : Bool} {m : Name} {rest : List Name} {pub : Bool} {ps : List Name} {b : Expr} :
      Item.mod mp m sub ∈ items → Denotes sub rest pub ps b → Denotes items (m :: rest) pub ps b

mutual
theorem Item.events_fn_iff (pre : List Name) (it : Item) (pre' : List Name) (pub : Bool) (x : Name)
    (ps : List Name) (b : Expr) :
    Ev.fn pre' pub x ps b ∈ it.events pre ↔ ∃ rest, pre' ++ [x] = pre ++ rest ∧ pre'.length + 1 = pre.length + rest.length ∧
      Denotes [it] rest pub ps b := by
  cases it with
  | fn p y qs c =>
    simp only [Item.events, List.mem_singleton, Ev.fn.injEq]
    constructor
    · rintro ⟨rfl, rfl, rfl, rfl, rfl⟩
      exact ⟨[x], rfl, by simp, .here List.mem_cons_self⟩
    · rintro ⟨rest, h1, h2, hd⟩
      cases hd with
      | here hm =>
        simp only [List.mem_singleton, Item.fn.injEq] at hm
        obtain ⟨rfl, rfl, rfl, rfl⟩ := hm
        have := List.append_inj' h1 rfl
        simp_all
      | inside hm _ => simp at hm
  | use p path t =>
    simp only [Item.events, List.mem_singleton, reduceCtorEq, false_iff]
    rintro ⟨rest, _, _, hd⟩
    cases hd with
    | here hm => simp at hm
    | inside hm _ => simp at hm
  | letD p y e =>
    simp only [Item.events, List.mem_singleton, reduceCtorEq, false_iff]
    rintro ⟨rest, _, _, hd⟩
    cases hd with
    | here hm => simp at hm
    | inside hm _ => simp at hm
  | mod mp m sub =>
    simp only [Item.events, List.mem_cons, reduceCtorEq, false_or]
    rw [eventsL_fn_iff]
    constructor
    · rintro ⟨rest, h1, h2, hd⟩
      exact ⟨m :: rest, by simpa using h1, by simp at h2 ⊢; omega, .inside List.mem_cons_self hd⟩
    · rintro ⟨rest, h1, h2, hd⟩
      cases hd with
      | here hm => simp at hm
      | inside hm hd' =>
        simp only [List.mem_singleton, Item.mod.injEq] at hm
        obtain ⟨rfl, rfl, rfl⟩ := hm
        exact ⟨_, by simpa using h1, by simp at h2 ⊢; omega, hd'⟩
theorem eventsL_fn_iff (pre : List Name) (items : List Item) (pre' : List Name) (pub : Bool) (x : Name)
    (ps : List Name) (b : Expr) :
    Ev.fn pre' pub x ps b ∈ eventsL pre items ↔ ∃ rest, pre' ++ [x] = pre ++ rest ∧ pre'.length + 1 = pre.length + rest.length ∧
      Denotes items rest pub ps b := by
  cases items with
  | nil =>
    simp only [eventsL, List.not_mem_nil, false_iff]
    rintro ⟨rest, _, _, hd⟩
    cases hd with
    | here hm => simp at hm
    | inside hm _ => simp at hm
  | cons it is =>
    simp only [eventsL, List.mem_append]
    rw [Item.events_fn_iff, eventsL_fn_iff]
    constructor
    · rintro (⟨rest, h1, h2, hd⟩ | ⟨rest, h1, h2, hd⟩)
      · refine ⟨rest, h1, h2, ?_⟩
        cases hd with
        | here hm => exact .here (List.mem_cons.mpr (Or.inl (List.mem_singleton.mp hm)))
        | inside hm hd' => exact .inside (List.mem_cons.mpr (Or.inl (List.mem_singleton.mp hm))) hd'
      · refine ⟨rest, h1, h2, ?_⟩
        cases hd with
        | here hm => exact .here (List.mem_cons_of_mem _ hm)
        | inside hm hd' => exact .inside (List.mem_cons_of_mem _ hm) hd'
    · rintro ⟨rest, h1, h2, hd⟩
      cases hd with
      | here hm =>
        rcases List.mem_cons.mp hm with rfl | hm
        · exact Or.inl ⟨_, h1, h2, .here List.mem_cons_self⟩
        · exact Or.inr ⟨_, h1, h2, .here hm⟩
      | inside hm hd' =>
        rcases List.mem_cons.mp hm with rfl | hm
        · exact Or.inl ⟨_, h1, h2, .inside List.mem_cons_self hd'⟩
        · exact Or.inr ⟨_, h1, h2, .inside hm hd'⟩
end


/-- every identifier of `e` is bound by an enclosing binder of `e` or by the scope stack `ls` -/
def closedUnder : List (List Sym) → Expr → Bool
  | _, .unit => true
  | _, .lit _ => true
  | ls, .var s => ls.any (fun sc => sc.contains s)
  | _, .qvar _ => false
  | ls, .call f => closedUnder ls f
  | ls, .letE x e t => closedUnder ls e && closedUnder ([[x]] :: ls) t
  | ls, .lam ps b => closedUnder (ps.map (fun p => [p]) :: ls) b
  | ls, .letrec f e t => closedUnder ([f] :: ls) e && closedUnder ([f] :: ls) t


/-! ### trees whose visibility map is faithful to the declarations (decidable per tree) -/

/-- the visibility map records, for every declared function, its declared visibility
(fails when a `pub use` export or a second declaration overwrites an entry) -/
def visFaithful (evs : List Ev) : Bool :=
  (fnDecls evs).all (fun d => decide (get? (lowerInfo evs).vis d.1 = some d.2))

/-- `mod internal { pub fn helper(){42.0} }  mod api { pub use internal::helper }` (fixture module_pub_use.mmm) -/
def pubUseFixture : List Item :=
  [.mod false 1 [.fn true 2 [] (.lit 42)], .mod false 3 [.use true [1, 2] .single],
   .fn false 0 [] (.call (.qvar [3, 2]))]

/-- `mod a { mod inner { pub fn f(){5.0} } }  fn dsp(){ a::inner::f() }` -/
def modvis : List Item :=
  [.mod false 1 [.mod false 2 [.fn true 4 [] (.lit 5)]], .fn false 0 [] (.call (.qvar [1, 2, 4]))]

/-! ### which multi-segment names pass `name_exists` -/

/-- binders introduced inside function bodies are plain identifiers (true of every parsed program: only the
flattening pass creates mangled binders) -/
def Expr.plain : Expr → Bool
  | .letrec f e t => decide (f.length = 1) && e.plain && t.plain
  | .letE _ e t => e.plain && t.plain
  | .lam _ b => b.plain
  | .call f => f.plain
  | _ => true

def bodiesPlain : List Ev → Bool
  | [] => true
  | .fn _ _ _ _ b :: rest => b.plain && bodiesPlain rest
  | .letS _ _ _ e :: rest => e.plain && bodiesPlain rest
  | _ :: rest => bodiesPlain rest

theorem collectDefined_plain (e : Expr) (h : e.plain = true) : ∀ s ∈ collectDefined e, s.length = 1 := by
  induction e with
  | unit | lit _ | var _ | qvar _ => intro s hs; simp [collectDefined] at hs
  | call f ih => exact ih (by simpa [Expr.plain] using h)
  | letE x e t ihe iht =>
    simp only [Expr.plain, Bool.and_eq_true] at h
    intro s hs
    simp only [collectDefined, List.mem_cons, List.mem_append] at hs
    rcases hs with rfl | hs | hs
    · rfl
    · exact ihe h.1 s hs
    · exact iht h.2 s hs
  | lam ps b ih =>
    simp only [Expr.plain] at h
    intro s hs
    simp only [collectDefined, List.mem_append, List.mem_map] at hs
    rcases hs with ⟨p, _, rfl⟩ | hs
    · rfl
    · exact ih h s hs
  | letrec f e t ihe iht =>
    simp only [Expr.plain, Bool.and_eq_true, decide_eq_true_eq] at h
    intro s hs
    simp only [collectDefined, List.mem_cons, List.mem_append] at hs
    rcases hs with rfl | hs | hs
    · exact h.1.1
    · exact ihe h.1.2 s hs
    · exact iht h.2 s hs

theorem mem_fnDecls_iff (evs : List Ev) (s : Sym) :
    s ∈ (fnDecls evs).map (·.1) ↔ ∃ pre pub x ps b, Ev.fn pre pub x ps b ∈ evs ∧ pre ++ [x] = s := by
  induction evs with
  | nil => simp [fnDecls]
  | cons ev rest ih =>
    cases ev with
    | fn pre pub x ps b =>
      simp only [fnDecls, List.map_cons, List.mem_cons, ih]
      constructor
      · rintro (rfl | ⟨pre', pub', x', ps', b', hm, rfl⟩)
        · exact ⟨pre, pub, x, ps, b, Or.inl rfl, rfl⟩
        · exact ⟨pre', pub', x', ps', b', Or.inr hm, rfl⟩
      · rintro ⟨pre', pub', x', ps', b', hm | hm, rfl⟩
        · simp only [Ev.fn.injEq] at hm
          obtain ⟨rfl, _, rfl, _, _⟩ := hm
          exact Or.inl rfl
        · exact Or.inr ⟨pre', pub', x', ps', b', hm, rfl⟩
    | modOpen pre x => simpa [fnDecls] using ih
    | use pre pub path t => simpa [fnDecls] using ih
    | letS pre pub x e => simpa [fnDecls] using ih

/-- a name with a module part passes `name_exists` iff the flattening emitted a `LetRec` for it -/
theorem known_multi_iff (evs : List Ev) (hp : bodiesPlain evs = true) (s : Sym) (hs : 2 ≤ s.length) :
    s ∈ collectDefined (chain .unit evs) ↔ s ∈ (fnDecls evs).map (·.1) := by
  induction evs with
  | nil => simp [chain, collectDefined, fnDecls]
  | cons ev rest ih =>
    cases ev with
    | fn pre pub x ps b =>
      simp only [bodiesPlain, Bool.and_eq_true] at hp
      simp only [chain, collectDefined, fnDecls, List.map_cons, List.mem_cons, List.mem_append, List.mem_map,
        ih hp.2]
      constructor
      · rintro (h | (⟨q, _, rfl⟩ | h) | h)
        · exact Or.inl h
        · simp at hs
        · have := collectDefined_plain b hp.1 s h; omega
        · exact Or.inr h
      · rintro (h | h)
        · exact Or.inl h
        · exact Or.inr (Or.inr h)
    | modOpen pre x => simpa [chain, fnDecls, bodiesPlain] using ih (by simpa [bodiesPlain] using hp)
    | use pre pub path t => simpa [chain, fnDecls, bodiesPlain] using ih (by simpa [bodiesPlain] using hp)
    | letS pre pub x e =>
      simp only [bodiesPlain, Bool.and_eq_true] at hp
      simp only [chain, collectDefined, fnDecls, List.mem_cons, List.mem_append, ih hp.2]
      constructor
      · rintro (h | h | h)
        · subst h; simp at hs
        · have := collectDefined_plain e hp.1 s h; omega
        · exact h
      · exact fun h => Or.inr (Or.inr h)

theorem Denotes.ne_nil {items : List Item} {s : List Name} {pub : Bool} {ps : List Name} {b : Expr}
    (h : Denotes items s pub ps b) : s ≠ [] := by
  cases h <;> simp

end Mimium.ModRes
