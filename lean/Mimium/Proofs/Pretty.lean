import Mimium.Model.Pretty
/-! Lemmas about the layout-engine model `Model/Pretty.lean`. -/
namespace Mimium.Pretty

/-- content still to be emitted by a command stack -/
def cmdTexts : List Cmd → List String
  | [] => []
  | c :: cs => (if c.alt then [] else texts c.doc) ++ cmdTexts cs

@[simp] theorem toks_nl (k : Nat) (ps : List Piece) : toks (.nl k :: ps) = toks ps := rfl
@[simp] theorem toks_ws (s : String) (ps : List Piece) : toks (.ws s :: ps) = toks ps := rfl
@[simp] theorem toks_tok (s : String) (ps : List Piece) : toks (.tok s :: ps) = s :: toks ps := rfl
@[simp] theorem toks_nil : toks [] = [] := rfl

theorem toks_append (a b : List Piece) : toks (a ++ b) = toks a ++ toks b := by
  induction a with
  | nil => rfl
  | cons p ps ih => cases p <;> simp [ih]

theorem toks_best_aux (w : Nat) : ∀ (n pos : Nat) (cmds : List Cmd), cmdSizes cmds ≤ n →
    toks (best w pos cmds) = cmdTexts cmds := by
  intro n
  induction n with
  | zero =>
    intro pos cmds hn
    cases cmds with
    | nil => rw [best]; rfl
    | cons c rest => have := c.doc.size_pos; simp [cmdSizes] at hn; omega
  | succ n ih =>
    intro pos cmds hn
    cases cmds with
    | nil => rw [best]; rfl
    | cons c rest =>
      obtain ⟨ind, mode, alt, doc⟩ := c
      cases doc with
      | nil =>
        rw [best]; simp only [cmdSizes, Doc.size] at hn
        rw [ih _ _ (by omega)]; simp [cmdTexts, texts]
      | hardline =>
        cases rest with
        | nil => rw [best]; simp [cmdTexts, texts]
        | cons n' rest' =>
          rw [best]
          simp only [cmdSizes, Doc.size] at hn
          simp only [toks_nl]
          rw [ih _ _ (by simp only [cmdSizes]; omega)]; simp [cmdTexts, texts]
      | text len s =>
        rw [best]; simp only [cmdSizes, Doc.size] at hn
        cases alt <;> simp [cmdTexts, texts, ih _ _ (show cmdSizes rest ≤ n by omega)]
      | append l r =>
        rw [best]; simp only [cmdSizes, Doc.size] at hn
        rw [ih _ _ (by simp only [cmdSizes]; omega)]
        cases alt <;> simp [cmdTexts, texts]
      | flatAlt b f =>
        rw [best]; simp only [cmdSizes, Doc.size] at hn
        rw [ih _ _ (by simp only [cmdSizes]; split <;> omega)]; simp [cmdTexts, texts]
      | group d =>
        rw [best]; simp only [cmdSizes, Doc.size] at hn
        rw [ih _ _ (by simp only [cmdSizes]; omega)]; simp [cmdTexts, texts]
      | nest off d =>
        rw [best]; simp only [cmdSizes, Doc.size] at hn
        rw [ih _ _ (by simp only [cmdSizes]; omega)]; simp [cmdTexts, texts]

/-- the renderer emits exactly the content of its command stack, whatever the width, column, indentation,
modes and the outcome of every `fits` test -/
theorem toks_best (w pos : Nat) (cmds : List Cmd) : toks (best w pos cmds) = cmdTexts cmds :=
  toks_best_aux w _ pos cmds (Nat.le_refl _)

theorem texts_mapNest (f : Int → Int) (d : Doc) : texts (mapNest f d) = texts d := by
  induction d with
  | nil => rfl
  | hardline => rfl
  | text => rfl
  | append l r ihl ihr => simp [mapNest, texts, ihl, ihr]
  | flatAlt => rfl
  | group d ih => simp [mapNest, texts, ih]
  | nest off d ih => simp [mapNest, texts, ih]

/-! ### `fits` on the flat stack -/

/-- `fitting` in `Flat` mode, started inside the page, consumes a document exactly when it has no hardline on
its flat path and its flat layout still ends inside the page; then it goes on with the rest at the advanced column. -/
theorem fits_flat_cons (w : Nat) (d : Doc) :
    ∀ (pos : Nat) (fs bs : List Doc), pos ≤ w →
      (fits w .flat pos (d :: fs) bs = true
        ↔ noHardFlat d = true ∧ pos + flatLen d ≤ w ∧ fits w .flat (pos + flatLen d) fs bs = true) := by
  induction d with
  | nil => intro pos fs bs h; rw [fits]; simp [noHardFlat, flatLen, h]
  | hardline => intro pos fs bs h; rw [fits]; simp [noHardFlat]
  | text len s =>
    intro pos fs bs h; rw [fits]; simp only [noHardFlat, flatLen, true_and]
    by_cases h1 : pos + len > w
    · simp [h1]; omega
    · simp [h1]; omega
  | append l r ihl ihr =>
    intro pos fs bs h
    rw [fits, ihl pos _ _ h]
    simp only [noHardFlat, flatLen, Bool.and_eq_true]
    constructor
    · rintro ⟨h1, h2, h3⟩
      rw [ihr _ _ _ h2] at h3
      exact ⟨⟨h1, h3.1⟩, by omega, by rw [← Nat.add_assoc]; exact h3.2.2⟩
    · rintro ⟨⟨h1, h2⟩, h3, h4⟩
      have h5 : pos + flatLen l ≤ w := by omega
      refine ⟨h1, h5, ?_⟩
      rw [ihr _ _ _ h5]
      exact ⟨h2, by omega, by rw [Nat.add_assoc]; exact h4⟩
  | flatAlt b f _ ihf =>
    intro pos fs bs h; rw [fits]; simp only [noHardFlat, flatLen]
    simpa using ihf pos fs bs h
  | group d ih => intro pos fs bs h; rw [fits]; simpa [noHardFlat, flatLen] using ih pos fs bs h
  | nest off d ih => intro pos fs bs h; rw [fits]; simpa [noHardFlat, flatLen] using ih pos fs bs h

/-- a document rendered in `Flat` mode that has no hardline on its flat path comes out as its flat layout,
without any newline, and the column advances by its flat width -/
theorem best_flat (w : Nat) (d : Doc) :
    ∀ (pos ind : Nat) (alt : Bool) (rest : List Cmd), noHardFlat d = true →
      best w pos (⟨ind, .flat, alt, d⟩ :: rest) = flatPieces alt d ++ best w (pos + flatLen d) rest := by
  induction d with
  | nil => intro pos ind alt rest _; rw [best]; simp [flatPieces, flatLen]
  | hardline => intro pos ind alt rest h; simp [noHardFlat] at h
  | text len s => intro pos ind alt rest _; rw [best]; simp [flatPieces, flatLen]
  | append l r ihl ihr =>
    intro pos ind alt rest h
    simp only [noHardFlat, Bool.and_eq_true] at h
    rw [best]
    rw [ihl _ _ _ _ h.1, ihr _ _ _ _ h.2]
    simp [flatPieces, flatLen, Nat.add_assoc]
  | flatAlt b f _ ihf =>
    intro pos ind alt rest h
    simp only [noHardFlat] at h
    rw [best]
    have : (if (Mode.flat == Mode.brk) = true then b else f) = f := by simp
    rw [this, ihf _ _ _ _ h]; simp [flatPieces, flatLen]
  | group d ih =>
    intro pos ind alt rest h
    simp only [noHardFlat] at h
    rw [best]
    have : (if (Mode.flat == Mode.brk && fits w Mode.flat pos [d] (List.map (fun x => x.doc) rest)) = true
        then Mode.flat else Mode.flat) = Mode.flat := by split <;> rfl
    rw [this, ih _ _ _ _ h]; simp [flatPieces, flatLen]
  | nest off d ih =>
    intro pos ind alt rest h
    simp only [noHardFlat] at h
    rw [best]
    rw [ih _ _ _ _ h]; simp [flatPieces, flatLen]

theorem newlines_append (a b : List Piece) : newlines (a ++ b) = newlines a + newlines b := by
  induction a with
  | nil => simp [newlines]
  | cons p ps ih => cases p <;> simp [newlines, ih] <;> omega

theorem newlines_flatPieces (alt : Bool) (d : Doc) : newlines (flatPieces alt d) = 0 := by
  induction d generalizing alt with
  | nil => rfl
  | hardline => rfl
  | text len s => cases alt <;> rfl
  | append l r ihl ihr => simp [flatPieces, newlines_append, ihl, ihr]
  | flatAlt b f _ ihf => simp [flatPieces, ihf]
  | group d ih => simp [flatPieces, ih]
  | nest off d ih => simp [flatPieces, ih]

end Mimium.Pretty
