import Mimium.Model.CstPrintSpec
/-! Content of documents built by the printer's combinators: `content (a ++ b) = content a ++ content b`, groups / nests / breaks are
transparent, trivia emission, re-created comma lists; and the generic loop lemma. -/
namespace Mimium.CstPrint
open Mimium.Gen (Kind SK)
open Mimium.Cst (Green)
open SDoc

theorem leaves_app (a b : SDoc) : (a ++ b).leaves = a.leaves ++ b.leaves := by
  show (SDoc.app a b).leaves = _
  cases a <;> cases b <;> simp [SDoc.app, SDoc.leaves]

@[simp] theorem content_app (c : Ctx) (a b : SDoc) : content c (a ++ b) = content c a ++ content c b := by
  simp [content, leaves_app]

@[simp] theorem content_grp (c : Ctx) (d : SDoc) : content c (grp d) = content c d := by
  cases d <;> simp [content, SDoc.grp, SDoc.leaves]

@[simp] theorem content_nst (c : Ctx) (d : SDoc) : content c (nst d) = content c d := by
  cases d <;> simp [content, SDoc.nst, SDoc.leaves]

@[simp] theorem content_nil (c : Ctx) : content c SDoc.nil = [] := rfl
@[simp] theorem content_hardline (c : Ctx) : content c SDoc.hardline = [] := rfl
@[simp] theorem content_line (c : Ctx) : content c SDoc.line = [] := rfl
@[simp] theorem content_softline (c : Ctx) : content c SDoc.softline = [] := rfl
@[simp] theorem content_sp (c : Ctx) : content c SDoc.sp = [] := by
  simp [content, SDoc.sp, SDoc.txt, SDoc.leaves, norm]
@[simp] theorem content_comma (c : Ctx) : content c (SDoc.txt ",") = [] := by
  simp [content, SDoc.txt, SDoc.leaves, norm]
@[simp] theorem content_brace (c : Ctx) : content c (SDoc.txt "{") = [.brace] := by
  simp [content, SDoc.txt, SDoc.leaves, norm]
@[simp] theorem content_errtext (c : Ctx) : content c (SDoc.txt "/* error */") = [] := by
  simp [content, SDoc.txt, SDoc.leaves, norm]
theorem content_tok (c : Ctx) (i : Nat) : content c (SDoc.tok i) = (norm c (.tok i)).toList := by
  simp only [content, SDoc.tok, SDoc.leaves, List.filterMap_cons, List.filterMap_nil]
  cases norm c (.tok i) <;> rfl

@[simp] theorem emp_iff (c : Ctx) (d : SDoc) : emp c d = true ↔ content c d = [] := by simp [emp]

theorem content_foldl_app (c : Ctx) (ds : List SDoc) (init : SDoc) :
    content c (ds.foldl (· ++ ·) init) = content c init ++ ds.flatMap (content c) := by
  induction ds generalizing init with
  | nil => simp
  | cons d ds ih => simp [ih, List.append_assoc]

@[simp] theorem content_concat (c : Ctx) (ds : List SDoc) : content c (concat ds) = ds.flatMap (content c) := by
  simp [concat, content_foldl_app]

theorem content_intersperse (c : Ctx) (ds : List SDoc) (sep : SDoc) (hs : content c sep = []) :
    content c (intersperse ds sep) = ds.flatMap (content c) := by
  cases ds with
  | nil => simp [intersperse]
  | cons d rest =>
    simp only [intersperse]
    have : ∀ (rs : List SDoc) (init : SDoc),
        content c (rs.foldl (fun r x => r ++ sep ++ x) init) = content c init ++ rs.flatMap (content c) := by
      intro rs
      induction rs with
      | nil => simp
      | cons r rs ih => intro init; simp [ih, hs, List.append_assoc]
    simp [this]

/-! ### Trivia -/

theorem content_emitTrivia (c : Ctx) (i : Nat) : content c (emitTrivia c i) = triviaItems c [i] := by
  unfold emitTrivia triviaItems isComment
  have hk : ∀ k, c.kinds[i]? = some k → c.kind i = k := by
    intro k h; simp [Ctx.kind, Array.getD_eq_getD_getElem?, h]
  split
  · next h => simp [h, content_tok, norm, hk _ h]
  · next h => simp [h, content_tok, norm, hk _ h]
  · next h1 h2 =>
    have : (match c.kinds[i]? with | some Kind.SingleLineComment => true | some Kind.MultiLineComment => true | _ => false) = false := by
      split <;> simp_all
    simp

theorem triviaItems_append (c : Ctx) (a b : List Nat) : triviaItems c (a ++ b) = triviaItems c a ++ triviaItems c b := by
  simp [triviaItems]

theorem triviaItems_cons (c : Ctx) (i : Nat) (is : List Nat) : triviaItems c (i :: is) = triviaItems c [i] ++ triviaItems c is := by
  rw [← triviaItems_append]; rfl

theorem content_emitAll (c : Ctx) (is : List Nat) (d : SDoc) : content c (emitAll c is d) = content c d ++ triviaItems c is := by
  unfold emitAll
  induction is generalizing d with
  | nil => simp [triviaItems]
  | cons i is ih => simp [ih, content_emitTrivia, triviaItems_cons c i is, List.append_assoc]

theorem content_emitTokenWithTrivia (c : Ctx) (ti : Nat) : content c (emitTokenWithTrivia c ti) = tokItems c ti := by
  simp [emitTokenWithTrivia, content_emitAll, tokItems, content_tok, triviaItems]

/-! ### Comments of a re-created comma -/

/-- a separator without the `any` flag carries no comment -/
def ccGood (c : Ctx) (s : CC) : Prop := s.any = false → sepC c s = []

theorem triviaItems_nil_of_any (c : Ctx) (is : List Nat) (h : is.any (isComment c) = false) : triviaItems c is = [] := by
  simp only [triviaItems, List.map_eq_nil_iff, List.filter_eq_nil_iff]
  intro a ha
  have := List.any_eq_false.mp h a ha
  simpa using this

theorem leadFold (c : Ctx) (is : List Nat) (d : SDoc) (any : Bool) :
    let r := is.foldl (fun (a : SDoc × Bool) i => (a.1 ++ emitTrivia c i, a.2 || isComment c i)) (d, any)
    content c r.1 = content c d ++ triviaItems c is ∧ r.2 = (any || is.any (isComment c)) := by
  induction is generalizing d any with
  | nil => simp [triviaItems]
  | cons i is ih =>
    simp only [List.foldl_cons]
    have := ih (d ++ emitTrivia c i) (any || isComment c i)
    simp only [content_app, content_emitTrivia] at this
    refine ⟨by rw [this.1, triviaItems_cons c i is]; simp [List.append_assoc], by rw [this.2]; simp [Bool.or_assoc]⟩

theorem trailFold (c : Ctx) (is : List Nat) (d : SDoc) (el any : Bool) :
    let r := is.foldl (fun (b : SDoc × Bool × Bool) (i : Nat) =>
      match (c.kinds[i]? : Option Kind) with
      | some .SingleLineComment => (b.1 ++ emitTrivia c i, true, true)
      | some .MultiLineComment => (b.1 ++ emitTrivia c i, false, true)
      | _ => (b.1 ++ emitTrivia c i, b.2.1, b.2.2)) (d, el, any)
    content c r.1 = content c d ++ triviaItems c is ∧ r.2.2 = (any || is.any (isComment c)) := by
  induction is generalizing d el any with
  | nil => simp [triviaItems]
  | cons i is ih =>
    simp only [List.foldl_cons]
    split
    · next h =>
      have := ih (d ++ emitTrivia c i) true true
      simp only [content_app, content_emitTrivia] at this
      refine ⟨by rw [this.1, triviaItems_cons c i is]; simp [List.append_assoc], by rw [this.2]; simp [isComment, h]⟩
    · next h =>
      have := ih (d ++ emitTrivia c i) false true
      simp only [content_app, content_emitTrivia] at this
      refine ⟨by rw [this.1, triviaItems_cons c i is]; simp [List.append_assoc], by rw [this.2]; simp [isComment, h]⟩
    · next h1 h2 =>
      have := ih (d ++ emitTrivia c i) el any
      simp only [content_app, content_emitTrivia] at this
      have hc : isComment c i = false := by
        unfold isComment; split <;> simp_all
      refine ⟨by rw [this.1, triviaItems_cons c i is]; simp [List.append_assoc], by rw [this.2]; simp [hc]⟩

theorem emitTokenComments_spec (c : Ctx) (ti : Nat) :
    content c (emitTokenComments c ti).lead = triviaItems c (leadingTrivia c ti) ∧
    content c (emitTokenComments c ti).trail = triviaItems c (trailingTrivia c ti) ∧
    ccGood c (emitTokenComments c ti) := by
  have hl := leadFold c (leadingTrivia c ti) nil false
  have ht := fun any => trailFold c (trailingTrivia c ti) nil false any
  simp only [content_nil, List.nil_append, Bool.false_or] at hl ht
  have e1 : content c (emitTokenComments c ti).lead = triviaItems c (leadingTrivia c ti) := hl.1
  have e2 : content c (emitTokenComments c ti).trail = triviaItems c (trailingTrivia c ti) := (ht _).1
  refine ⟨e1, e2, ?_⟩
  intro hany
  have h2 := (ht ((leadingTrivia c ti).foldl (fun (a : SDoc × Bool) i => (a.1 ++ emitTrivia c i, a.2 || isComment c i)) (nil, false)).2).2
  simp only [emitTokenComments] at hany
  have hany : (_ || _) = false := h2.symm.trans hany
  rw [hl.2] at hany
  simp only [Bool.or_eq_false_iff] at hany
  simp only [sepC, e1, e2, triviaItems_nil_of_any c _ hany.1, triviaItems_nil_of_any c _ hany.2, List.append_nil]

theorem sepC_emitTokenComments (c : Ctx) (ti : Nat) :
    sepC c (emitTokenComments c ti) = triviaItems c (leadingTrivia c ti) ++ triviaItems c (trailingTrivia c ti) := by
  have := emitTokenComments_spec c ti
  simp [sepC, this.1, this.2.1]

/-- the content of a comma token: the comments around it -/
theorem tokItems_comma (c : Ctx) (ti : Nat) (h : c.kind ti = .Comma) : tokItems c ti = sepC c (emitTokenComments c ti) := by
  simp [tokItems, norm, h, sepC_emitTokenComments]

theorem ccGood_empty (c : Ctx) : ccGood c CC.empty := by
  intro _; simp [sepC, CC.empty]

/-! ### `join_list_items` -/

theorem content_joinGo (c : Ctx) (gap : SDoc) (hg : content c gap = []) :
    ∀ (items : List SDoc) (seps : List CC) (doc : SDoc), (∀ s ∈ seps, ccGood c s) →
      content c (joinGo gap items seps doc) = content c doc ++ zipC c items seps := by
  intro items
  induction items with
  | nil => intro seps doc _; simp [joinGo, zipC]
  | cons item rest ih =>
    intro seps doc hgood
    have htail : ∀ s ∈ seps.tail, ccGood c s := fun s hs => hgood s (List.mem_of_mem_tail hs)
    simp only [joinGo, zipC]
    rw [ih seps.tail _ htail]
    cases seps with
    | nil => cases hr : rest.isEmpty <;> simp [hg]
    | cons s ss =>
      have hs : ccGood c s := hgood s (by simp)
      cases hr : rest.isEmpty
      · simp only [List.head?_cons]
        by_cases he : s.endsLine = true <;> simp [he, hg, sepC, List.append_assoc]
      · simp only [List.head?_cons]
        by_cases ha : s.any = true
        · simp [ha, sepC, List.append_assoc]
        · have := hs (by simpa using ha)
          simp [ha, this]

theorem content_joinListItems (c : Ctx) (gap : SDoc) (hg : content c gap = []) (items : List SDoc) (seps : List CC)
    (h : ∀ s ∈ seps, ccGood c s) : content c (joinListItems items seps gap) = zipC c items seps := by
  simp [joinListItems, content_joinGo c gap hg items seps nil h]

theorem zipC_nil_seps (c : Ctx) (items : List SDoc) : zipC c items [] = items.flatMap (content c) := by
  induction items with
  | nil => simp [zipC]
  | cons x xs ih => simp [zipC, ih]

/-- an item appended after all separators: it has none -/
theorem zipC_snoc_item (c : Ctx) (x : SDoc) : ∀ (items : List SDoc) (seps : List CC), seps.length ≤ items.length →
    zipC c (items ++ [x]) seps = zipC c items seps ++ content c x := by
  intro items
  induction items with
  | nil => intro seps h; cases seps <;> simp_all [zipC]
  | cons y ys ih =>
    intro seps h
    cases seps with
    | nil => simp [zipC, zipC_nil_seps]
    | cons s ss =>
      simp only [List.length_cons, Nat.add_le_add_iff_right] at h
      simp [zipC, ih ss h, List.append_assoc]

/-- the separator of the last item -/
theorem zipC_snoc_sep (c : Ctx) (s : CC) : ∀ (items : List SDoc) (seps : List CC), seps.length + 1 = items.length →
    zipC c items (seps ++ [s]) = zipC c items seps ++ sepC c s := by
  intro items
  induction items with
  | nil => intro seps h; simp at h
  | cons y ys ih =>
    intro seps h
    cases seps with
    | nil =>
      have : ys = [] := by cases ys <;> simp_all
      subst this; simp [zipC]
    | cons t ts =>
      simp only [List.length_cons, Nat.add_right_cancel_iff] at h
      simp [zipC, ih ts h, List.append_assoc]

theorem zipC_snoc_both (c : Ctx) (x : SDoc) (s : CC) (items : List SDoc) (seps : List CC) (h : seps.length = items.length) :
    zipC c (items ++ [x]) (seps ++ [s]) = zipC c items seps ++ content c x ++ sepC c s := by
  rw [zipC_snoc_sep c s (items ++ [x]) seps (by simp [h]), zipC_snoc_item c x items seps (by omega)]

theorem zipC_no_items (c : Ctx) (seps : List CC) : zipC c [] seps = [] := rfl

theorem pushCommaComments_eq (c : Ctx) (seps : List CC) (n ti : Nat) (h : seps.length + 1 = n) :
    pushCommaComments c seps n ti = seps ++ [emitTokenComments c ti] := by
  simp [pushCommaComments, ← h]

/-! ### Loops -/

/-- a child's document is the document of the child -/
def ChOk (c : Ctx) (ch : Ch) : Prop := ch.2 = cstToDoc c ch.1

theorem chOk_token (c : Ctx) (g : Green) (d : SDoc) (ti w : Nat) (hg : g = .token ti w) (h : ChOk c (g, d)) :
    content c d = tokItems c ti := by
  subst hg
  simp only [ChOk] at h
  rw [h, cstToDoc, content_emitTokenWithTrivia]

theorem chContent_cons (c : Ctx) (ch : Ch) (cs : List Ch) : chContent c (ch :: cs) = content c ch.2 ++ chContent c cs := by
  simp [chContent]

/-- a loop whose every iteration keeps its child (`ok`) holds, at the end, what it held plus the children's content -/
theorem loop_held {σ : Type} (c : Ctx) (step : σ → Ch → σ) (ok : σ → Ch → Bool) (held : σ → List NItem) (inv : σ → Prop)
    (hstep : ∀ st ch, inv st → ChOk c ch → ok st ch = true → inv (step st ch) ∧ held (step st ch) = held st ++ content c ch.2) :
    ∀ (cs : List Ch) (st : σ), inv st → (∀ ch ∈ cs, ChOk c ch) → allOk step ok st cs = true →
      inv (cs.foldl step st) ∧ held (cs.foldl step st) = held st ++ chContent c cs := by
  intro cs
  induction cs with
  | nil => intro st hi _ _; simp [hi, chContent]
  | cons ch cs ih =>
    intro st hi hch hok
    simp only [allOk, Bool.and_eq_true] at hok
    have h1 := hstep st ch hi (hch ch (by simp)) hok.1
    have h2 := ih (step st ch) h1.1 (fun x hx => hch x (by simp [hx])) hok.2
    simp only [List.foldl_cons]
    refine ⟨h2.1, ?_⟩
    rw [h2.2, h1.2, chContent_cons, List.append_assoc]

/-- a stateless fold that appends every child (plus layout) -/
theorem fold_content (c : Ctx) (f : SDoc → Ch → SDoc) (cs : List Ch)
    (hf : ∀ r, ∀ ch ∈ cs, content c (f r ch) = content c r ++ content c ch.2) (init : SDoc) :
    content c (cs.foldl f init) = content c init ++ chContent c cs := by
  induction cs generalizing init with
  | nil => simp [chContent]
  | cons ch cs ih =>
    simp only [List.foldl_cons]
    rw [ih (fun r x hx => hf r x (by simp [hx])), hf init ch (by simp), chContent_cons, List.append_assoc]

theorem chContent_map (c : Ctx) (cs : List Ch) : (cs.map (·.2)).flatMap (content c) = chContent c cs := by
  simp [chContent, List.flatMap_map]

end Mimium.CstPrint
