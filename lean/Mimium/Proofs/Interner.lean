import Mimium.Model.Interner
/-! Lemmas about the interner / arena state machine (`Model/Interner.lean`). -/
namespace Mimium.Interner
set_option linter.unusedSectionVars false
set_option linter.unusedSimpArgs false

variable {α : Type} [DecidableEq α]

/-! ## store-level facts -/

theorem intern_fst_eq_idxOf (t : List α) (s : α) : (intern t s).1 = (intern t s).2.idxOf s := by
  unfold intern
  split
  · rfl
  · next h => simp [List.idxOf_append, h]

theorem mem_intern (t : List α) (s : α) : s ∈ (intern t s).2 := by
  unfold intern; split <;> simp_all

theorem intern_prefix (t : List α) (s : α) : ∃ r, (intern t s).2 = t ++ r := by
  unfold intern; split
  · exact ⟨[], by simp⟩
  · exact ⟨[s], rfl⟩

theorem intern_nodup (t : List α) (s : α) (h : t.Nodup) : (intern t s).2.Nodup := by
  unfold intern; split
  · exact h
  · next hn =>
    rw [List.nodup_append]
    refine ⟨h, by simp, ?_⟩
    intro a ha b hb
    simp at hb; subst hb
    intro e; subst e; exact hn ha

theorem idxOf_append_of_mem {t r : List α} {s : α} (h : s ∈ t) : (t ++ r).idxOf s = t.idxOf s := by
  simp [List.idxOf_append, h]

theorem getElem?_idxOf_of_mem {t : List α} {s : α} (h : s ∈ t) : t[t.idxOf s]? = some s := by
  have hlt : t.idxOf s < t.length := List.idxOf_lt_length_iff.mpr h
  rw [List.getElem?_eq_getElem hlt, List.getElem_idxOf hlt]

theorem idxOf_inj_of_mem {t : List α} {a b : α} (ha : a ∈ t) (hb : b ∈ t) (h : t.idxOf a = t.idxOf b) : a = b := by
  have h1 := getElem?_idxOf_of_mem ha
  have h2 := getElem?_idxOf_of_mem hb
  rw [h] at h1; rw [h1] at h2; exact Option.some.inj h2

theorem idxOf_getElem_of_nodup {γ : Type} [DecidableEq γ] : ∀ {l : List γ} (_ : l.Nodup) (j : Nat) (hj : j < l.length), l.idxOf l[j] = j
  | [], _, j, hj => by simp at hj
  | x :: xs, hn, 0, _ => by simp [List.idxOf_cons]
  | x :: xs, hn, j + 1, hj => by
    rw [List.nodup_cons] at hn
    have hne : x ≠ xs[j]'(by simpa using hj) := by
      intro e; apply hn.1; rw [e]; exact List.getElem_mem _
    simp only [List.getElem_cons_succ, List.idxOf_cons]
    have : (x == xs[j]'(by simpa using hj)) = false := by simpa using hne
    rw [this]
    simp [idxOf_getElem_of_nodup hn.2 j (by simpa using hj)]

/-! ## program-level facts (append lemmas of the spec functions) -/

theorem interned_append (a b : List (Op α)) : interned (a ++ b) = interned a ++ interned b := by
  induction a with
  | nil => rfl
  | cons x a ih => cases x <;> simp [interned, ih]

theorem allocs_append (a b : List (Op α)) : allocs (a ++ b) = allocs a + allocs b := by
  induction a with
  | nil => simp [allocs]
  | cons x a ih => cases x <;> simp [allocs, ih] <;> omega

theorem specStrs_append (a b : List (Op α)) (pre : List α) :
    specStrs pre (a ++ b) = specStrs pre a ++ specStrs (pre ++ interned a) b := by
  induction a generalizing pre with
  | nil => simp [specStrs, interned]
  | cons x a ih => cases x <;> simp [specStrs, interned, ih]

theorem specLocal_append (a b : List (Op α)) (n : Nat) :
    specLocal n (a ++ b) = specLocal n a ++ specLocal (n + allocs a) b := by
  induction a generalizing n with
  | nil => simp [specLocal, allocs]
  | cons x a ih =>
    cases x <;> simp [specLocal, allocs, ih]
    rw [show n + 1 + allocs a = n + (allocs a + 1) by omega]

theorem specLocal_length (a : List (Op α)) (n : Nat) : (specLocal n a).length = allocs a := by
  induction a generalizing n with
  | nil => rfl
  | cons x a ih => cases x <;> simp [specLocal, allocs, ih]

theorem specGets_append (a b : List (Op α)) (pre : List Node) :
    specGets pre (a ++ b) = specGets pre a ++ specGets (pre ++ specLocal pre.length a) b := by
  induction a generalizing pre with
  | nil => simp [specGets, specLocal]
  | cons x a ih => cases x <;> simp [specGets, specLocal, ih]

theorem specLocal_kids_lt (l : List (Op α)) (n : Nat) :
    ∀ v ∈ specLocal n l, ∀ k ∈ v.kids, k < n + allocs l := by
  induction l generalizing n with
  | nil => simp [specLocal]
  | cons x l ih =>
    cases x with
    | alloc p ks =>
      intro v hv k hk
      simp only [specLocal, List.mem_cons] at hv
      rcases hv with rfl | hv
      · simp at hk; simp [allocs]; omega
      · have := ih (n + 1) v hv k hk; simp [allocs]; omega
    | intern s => intro v hv k hk; simpa [allocs] using ih n v hv k hk
    | resolve s => intro v hv k hk; simpa [allocs] using ih n v hv k hk
    | get s => intro v hv k hk; simpa [allocs] using ih n v hv k hk

theorem specGets_mem (l : List (Op α)) (pre : List Node) :
    ∀ v, some v ∈ specGets pre l → v ∈ pre ++ specLocal pre.length l := by
  induction l generalizing pre with
  | nil => simp [specGets]
  | cons x l ih =>
    cases x with
    | alloc p ks =>
      intro v hv
      have := ih _ v hv
      simpa [specLocal, List.append_assoc] using this
    | get k =>
      intro v hv
      simp only [specGets, List.mem_cons] at hv
      rcases hv with h | hv
      · have : v ∈ pre := List.mem_of_getElem? h.symm
        simp [this]
      · simpa [specLocal] using ih pre v hv
    | intern s => intro v hv; simpa [specLocal] using ih pre v hv
    | resolve s => intro v hv; simpa [specLocal] using ih pre v hv

/-- widening the handle list does not change the global form of a node whose handles are all in range -/
theorem globalise_append (as r : List Nat) (v : Node) (h : ∀ k ∈ v.kids, k < as.length) :
    globalise (as ++ r) v = globalise as v := by
  unfold globalise
  congr 1
  generalize v.kids = ks at h
  induction ks with
  | nil => rfl
  | cons k ks ih =>
    have hk : k < as.length := h k (by simp)
    have := ih (fun x hx => h x (by simp [hx]))
    simp [List.filterMap_cons, List.getElem?_append_left hk, this]

theorem filterMap_filter_lt (as r : List Nat) (ks : List Nat) :
    (ks.filter (· < as.length)).filterMap ((as ++ r)[·]?) = ks.filterMap (as[·]?) := by
  induction ks with
  | nil => rfl
  | cons k ks ih =>
    by_cases hk : k < as.length
    · simp [List.filter_cons, hk, List.getElem?_append_left hk, ih]
    · have : as[k]? = none := by simp; omega
      simp [List.filter_cons, hk, this, ih]

/-! ## the invariant of one thread inside an arbitrary schedule -/

@[simp] theorem upd_same (f : Nat → Th α) (j : Nat) (v : Th α) : upd f j v j = v := by simp [upd]
theorem upd_other (f : Nat → Th α) {i j : Nat} (v : Th α) (h : i ≠ j) : upd f j v i = f i := by simp [upd, h]

/-- what is true of thread `i` after it has executed `done` (whatever the others did in between) -/
structure Inv (st : St α) (i : Nat) (done : List (Op α)) : Prop where
  nodup : st.syms.Nodup
  hs : (st.ths i).hs = (interned done).map (st.syms.idxOf ·)
  mem : ∀ s ∈ interned done, s ∈ st.syms
  strs : (st.ths i).strs = specStrs [] done
  asLen : (st.ths i).as.length = allocs done
  asInc : (st.ths i).as.Pairwise (· < ·)
  asLt : ∀ a ∈ (st.ths i).as, a < st.arena.length
  stored : (st.ths i).as.map (get st.arena) = (specLocal 0 done).map (fun v => some (globalise (st.ths i).as v))
  nodes : (st.ths i).nodes = (specGets [] done).map (Option.map (globalise (st.ths i).as))

theorem inv_init (syms : List α) (arena : List Node) (h : syms.Nodup) (i : Nat) : Inv (init syms arena) i [] := by
  constructor <;> simp [init, interned, specStrs, allocs, specLocal, specGets, h]

theorem map_idxOf_append {t r : List α} {I : List α} (h : ∀ s ∈ I, s ∈ t) :
    I.map ((t ++ r).idxOf ·) = I.map (t.idxOf ·) := by
  apply List.map_congr_left
  intro s hs
  exact idxOf_append_of_mem (h s hs)

theorem map_get_append {a r : List Node} {as : List Nat} (h : ∀ x ∈ as, x < a.length) :
    as.map (get (a ++ r)) = as.map (get a) := by
  apply List.map_congr_left
  intro x hx
  exact List.getElem?_append_left (h x hx)

/-- a step of another thread -/
theorem inv_step_other {st : St α} {i : Nat} {done : List (Op α)} (h : Inv st i done) (j : Nat) (op : Op α)
    (hj : i ≠ j) : Inv (step st (j, op)) i done := by
  cases op with
  | intern s =>
    obtain ⟨r, hr⟩ := intern_prefix st.syms s
    constructor <;> simp only [step, upd_other _ _ hj]
    · exact intern_nodup _ _ h.nodup
    · rw [hr, map_idxOf_append h.mem]; exact h.hs
    · intro x hx; rw [hr]; exact List.mem_append_left _ (h.mem x hx)
    · exact h.strs
    · exact h.asLen
    · exact h.asInc
    · exact h.asLt
    · exact h.stored
    · exact h.nodes
  | resolve k =>
    constructor <;> simp only [step, upd_other _ _ hj]
    · exact h.nodup
    · exact h.hs
    · exact h.mem
    · exact h.strs
    · exact h.asLen
    · exact h.asInc
    · exact h.asLt
    · exact h.stored
    · exact h.nodes
  | alloc p ks =>
    constructor <;> simp only [step, alloc, upd_other _ _ hj]
    · exact h.nodup
    · exact h.hs
    · exact h.mem
    · exact h.strs
    · exact h.asLen
    · exact h.asInc
    · intro a ha; have := h.asLt a ha; simp; omega
    · rw [map_get_append h.asLt]; exact h.stored
    · exact h.nodes
  | get k =>
    constructor <;> simp only [step, upd_other _ _ hj]
    · exact h.nodup
    · exact h.hs
    · exact h.mem
    · exact h.strs
    · exact h.asLen
    · exact h.asInc
    · exact h.asLt
    · exact h.stored
    · exact h.nodes

/-- a step of the thread itself -/
theorem inv_step_self {st : St α} {i : Nat} {done : List (Op α)} (h : Inv st i done) (op : Op α) :
    Inv (step st (i, op)) i (done ++ [op]) := by
  cases op with
  | intern s =>
    obtain ⟨r, hr⟩ := intern_prefix st.syms s
    have hI : interned (done ++ [Op.intern s]) = interned done ++ [s] := by simp [interned_append, interned]
    constructor <;> simp only [step, upd_same]
    · exact intern_nodup _ _ h.nodup
    · rw [hI, List.map_append, h.hs]
      congr 1
      · rw [hr, map_idxOf_append h.mem]
      · simp [intern_fst_eq_idxOf]
    · rw [hI]; intro x hx
      rcases List.mem_append.mp hx with hx | hx
      · rw [hr]; exact List.mem_append_left _ (h.mem x hx)
      · simp at hx; subst hx; exact mem_intern _ _
    · rw [specStrs_append]; simp [specStrs, h.strs]
    · simp [allocs_append, allocs, h.asLen]
    · exact h.asInc
    · exact h.asLt
    · rw [specLocal_append]; simp [specLocal, h.stored]
    · rw [specGets_append]; simp [specGets, h.nodes]
  | resolve k =>
    constructor <;> simp only [step, upd_same]
    · exact h.nodup
    · simp [interned_append, interned, h.hs]
    · simpa [interned_append, interned] using h.mem
    · rw [specStrs_append]
      simp only [specStrs, List.nil_append, h.strs]
      congr 2
      rw [h.hs, List.getElem?_map]
      cases hk : (interned done)[k]? with
      | none => rfl
      | some x =>
        have : x ∈ st.syms := h.mem x (List.mem_of_getElem? hk)
        simp [resolve, getElem?_idxOf_of_mem this]
    · simp [allocs_append, allocs, h.asLen]
    · exact h.asInc
    · exact h.asLt
    · rw [specLocal_append]; simp [specLocal, h.stored]
    · rw [specGets_append]; simp [specGets, h.nodes]
  | alloc p ks =>
    have hkids : ∀ v ∈ specLocal 0 done, ∀ k ∈ v.kids, k < (st.ths i).as.length := by
      intro v hv k hk
      have := specLocal_kids_lt done 0 v hv k hk
      rw [h.asLen]; omega
    constructor <;> simp only [step, alloc, upd_same]
    · exact h.nodup
    · simp [interned_append, interned, h.hs]
    · simpa [interned_append, interned] using h.mem
    · rw [specStrs_append]; simp [specStrs, h.strs]
    · simp [allocs_append, allocs, h.asLen]
    · rw [List.pairwise_append]
      refine ⟨h.asInc, by simp, ?_⟩
      intro a ha b hb; simp at hb; subst hb; exact h.asLt a ha
    · intro a ha
      rcases List.mem_append.mp ha with ha | ha
      · have := h.asLt a ha; simp; omega
      · simp at ha; subst ha; simp
    · rw [specLocal_append, List.map_append, List.map_append, map_get_append h.asLt, h.stored]
      congr 1
      · apply List.map_congr_left
        intro v hv
        rw [globalise_append _ _ _ (hkids v hv)]
      · simp [specLocal, get, globalise, h.asLen.symm, filterMap_filter_lt]
    · rw [specGets_append]
      simp only [specGets, List.append_nil, h.nodes]
      apply List.map_congr_left
      intro o ho
      cases o with
      | none => rfl
      | some v =>
        have hv := specGets_mem done [] v ho
        simp only [List.nil_append, List.length_nil] at hv
        simp [globalise_append _ _ _ (hkids v hv)]
  | get k =>
    constructor <;> simp only [step, upd_same]
    · exact h.nodup
    · simp [interned_append, interned, h.hs]
    · simpa [interned_append, interned] using h.mem
    · rw [specStrs_append]; simp [specStrs, h.strs]
    · simp [allocs_append, allocs, h.asLen]
    · exact h.asInc
    · exact h.asLt
    · rw [specLocal_append]; simp [specLocal, h.stored]
    · rw [specGets_append]
      simp only [specGets, List.nil_append, List.length_nil, h.nodes, List.map_append, List.map_cons, List.map_nil]
      congr 2
      have := congrArg (·[k]?) h.stored
      simp only [List.getElem?_map] at this
      cases hk : (st.ths i).as[k]? with
      | none =>
        rw [hk] at this
        cases hl : (specLocal 0 done)[k]? with
        | none => rfl
        | some v => rw [hl] at this; simp at this
      | some a =>
        rw [hk] at this
        cases hl : (specLocal 0 done)[k]? with
        | none => rw [hl] at this; simp at this
        | some v => rw [hl] at this; simpa using this

theorem proj_cons_self (i : Nat) (op : Op α) (l : List (Nat × Op α)) : proj i ((i, op) :: l) = op :: proj i l := by
  simp [proj]

theorem proj_cons_other {i j : Nat} (op : Op α) (l : List (Nat × Op α)) (h : i ≠ j) :
    proj i ((j, op) :: l) = proj i l := by
  have : ¬ j = i := fun e => h e.symm
  simp [proj, this]

/-- **main lemma**: the invariant of thread `i` survives every schedule -/
theorem inv_run (l : List (Nat × Op α)) : ∀ {st : St α} {i : Nat} {done : List (Op α)}, Inv st i done →
    Inv (run st l) i (done ++ proj i l) := by
  induction l with
  | nil => intro st i done h; simpa [run, proj] using h
  | cons x l ih =>
    intro st i done h
    obtain ⟨j, op⟩ := x
    by_cases hj : i = j
    · subst hj
      have := ih (inv_step_self h op)
      simpa [run, proj_cons_self, List.append_assoc] using this
    · have := ih (inv_step_other h j op hj)
      simpa [run, proj_cons_other op l hj] using this

theorem proj_solo (i : Nat) (p : List (Op α)) : proj i (solo i p) = p := by
  induction p with
  | nil => rfl
  | cons x p ih => simp [solo, proj] at ih ⊢; exact ih

/-! ## two runs of the same program: equal up to an injective renaming of ids -/

/-- `b` is `a` with symbol ids renamed by `ρs` and arena ids by `ρa`, both injective on the ids `a` obtained;
strings read back are equal, nodes read back are equal up to the renaming of the ids inside them -/
def Renamed (a b : Th α) : Prop :=
  ∃ ρs ρa : Nat → Nat,
    (∀ x ∈ a.hs, ∀ y ∈ a.hs, ρs x = ρs y → x = y) ∧
    (∀ x ∈ a.as, ∀ y ∈ a.as, ρa x = ρa y → x = y) ∧
    b.hs = a.hs.map ρs ∧ b.as = a.as.map ρa ∧ b.strs = a.strs ∧
    b.nodes = a.nodes.map (Option.map (renameNode ρa))

theorem nodup_of_pairwise_lt {l : List Nat} (h : l.Pairwise (· < ·)) : l.Nodup := by
  unfold List.Nodup
  exact h.imp (fun hab => Nat.ne_of_lt hab)

theorem renamed_of_inv {st1 st2 : St α} {i : Nat} {p : List (Op α)} (h1 : Inv st1 i p) (h2 : Inv st2 i p) :
    Renamed (st1.ths i) (st2.ths i) := by
  let ρs : Nat → Nat := fun n => match st1.syms[n]? with | some s => st2.syms.idxOf s | none => n
  let ρa : Nat → Nat := fun n => (st2.ths i).as.getD ((st1.ths i).as.idxOf n) n
  have hρs : ∀ s ∈ interned p, ρs (st1.syms.idxOf s) = st2.syms.idxOf s := by
    intro s hs
    simp only [ρs, getElem?_idxOf_of_mem (h1.mem s hs)]
  have hlen : (st1.ths i).as.length = (st2.ths i).as.length := by rw [h1.asLen, h2.asLen]
  have hnd1 := nodup_of_pairwise_lt h1.asInc
  have hnd2 := nodup_of_pairwise_lt h2.asInc
  have hρa : ∀ k (hk : k < (st1.ths i).as.length), ρa ((st1.ths i).as[k]) = (st2.ths i).as[k]'(hlen ▸ hk) := by
    intro k hk
    have hk2 : k < (st2.ths i).as.length := hlen ▸ hk
    simp only [ρa, idxOf_getElem_of_nodup hnd1 k hk]
    simp [List.getD, hk2]
  have hρa' : ∀ k : Nat, ((st1.ths i).as[k]?).map ρa = (st2.ths i).as[k]? := by
    intro k
    by_cases hk : k < (st1.ths i).as.length
    · have hk2 : k < (st2.ths i).as.length := hlen ▸ hk
      rw [List.getElem?_eq_getElem hk, List.getElem?_eq_getElem hk2]; simp [hρa k hk]
    · have h1n : (st1.ths i).as[k]? = none := by simp; omega
      have h2n : (st2.ths i).as[k]? = none := by simp; omega
      simp [h1n, h2n]
  refine ⟨ρs, ρa, ?_, ?_, ?_, ?_, ?_, ?_⟩
  · intro x hx y hy hxy
    rw [h1.hs] at hx hy
    obtain ⟨s, hs, rfl⟩ := List.mem_map.mp hx
    obtain ⟨s', hs', rfl⟩ := List.mem_map.mp hy
    rw [hρs s hs, hρs s' hs'] at hxy
    rw [idxOf_inj_of_mem (h2.mem s hs) (h2.mem s' hs') hxy]
  · intro x hx y hy hxy
    obtain ⟨k, hk, rfl⟩ := List.getElem_of_mem hx
    obtain ⟨k', hk', rfl⟩ := List.getElem_of_mem hy
    rw [hρa k hk, hρa k' hk'] at hxy
    have e1 := idxOf_getElem_of_nodup hnd2 k (hlen ▸ hk)
    have e2 := idxOf_getElem_of_nodup hnd2 k' (hlen ▸ hk')
    rw [hxy, e2] at e1
    subst e1; rfl
  · rw [h2.hs, h1.hs, List.map_map]
    apply List.map_congr_left
    intro s hs
    exact (hρs s hs).symm
  · apply List.ext_getElem?
    intro k
    rw [List.getElem?_map, hρa']
  · rw [h1.strs, h2.strs]
  · rw [h1.nodes, h2.nodes, List.map_map]
    apply List.map_congr_left
    intro o _
    cases o with
    | none => rfl
    | some v =>
      simp only [Function.comp, Option.map_some, renameNode, globalise, List.map_filterMap, hρa']

end Mimium.Interner
