import Mimium.Model.RustGen
import Mimium.Proofs.StateMachine
/-! Lemmas for C18: the template's `StateStorage` against the VM's, and the dispatch loop against the block graph. -/
namespace Mimium.RustGen
open Mimium.StateMachine Mimium.Cells

/-! ## A. state scaffold -/

theorem rustDelayFlat_eq (data : List UInt64) (p len : Nat) (x t : UInt64) :
    rustDelayFlat data p len x t = delayFlat data p len x t := by
  simp [rustDelayFlat, delayFlat, Gen.rustDelayReadSlot, Gen.rustDelayWriteSlot, Gen.rustDelayDataStart]

theorem ensure_of_le (s : St) (n : Nat) (h : s.pos + n ≤ s.data.length) : ensure s n = s := by
  cases s
  simp only [ensure]
  rw [grow_of_le _ _ h]

/-- one operation: inside the VM's storage the template's scaffold computes the VM's state and output -/
theorem rust_step_agree (s s' : St) (op : SOp) (o : List UInt64)
    (hz : ∀ x t, op ≠ .delay 0 x t)
    (h : vmStep s op = some (s', o)) : rustStep s op = (s', o) := by
  cases op with
  | push k => simp [vmStep] at h; simp [rustStep, h]
  | pop k =>
    simp only [vmStep] at h
    split at h
    · simp at h; simp [rustStep, h]
    · simp at h
  | get n =>
    simp only [vmStep] at h
    split at h
    · rename_i hb
      simp only [Option.some.injEq, Prod.mk.injEq] at h
      obtain ⟨h1, h2⟩ := h
      subst h1
      simp only [rustStep]
      rw [ensure_of_le _ _ hb, h2]
    · simp at h
  | set ws =>
    simp only [vmStep] at h
    split at h
    · rename_i hb
      simp only [Option.some.injEq, Prod.mk.injEq] at h
      obtain ⟨h1, h2⟩ := h
      simp only [rustStep]
      rw [ensure_of_le _ _ hb, h1, h2]
    · simp at h
  | mem x =>
    simp only [vmStep] at h
    split at h
    · rename_i hb
      simp only [Option.some.injEq, Prod.mk.injEq] at h
      obtain ⟨h1, h2⟩ := h
      simp only [rustStep]
      rw [ensure_of_le _ _ hb, h1, h2]
    · simp at h
  | delay len x t =>
    have hlen : len ≠ 0 := fun e => hz x t (by rw [e])
    simp only [vmStep, hlen, if_false] at h
    split at h
    · rename_i hb
      simp only [Option.some.injEq, Prod.mk.injEq] at h
      have hb' : s.pos + (len + Gen.rustDelayExtraWords) ≤ s.data.length := by
        simp only [Gen.rustDelayExtraWords]; omega
      simp only [rustStep, hlen, if_false, ensure_of_le _ _ hb', rustDelayFlat_eq]
      obtain ⟨h1, h2⟩ := h
      rw [← h1, ← h2]
    · simp at h

theorem rust_run_agree : ∀ (ops : List SOp) (s s' : St) (o : List UInt64), noZeroDelay ops = true →
    vmRun s ops = some (s', o) → rustRun s ops = (s', o)
  | [], s, s', o, _, h => by simp [vmRun] at h; simp [rustRun, h]
  | op :: ops, s, s', o, hd, h => by
    simp only [vmRun] at h
    split at h
    · simp at h
    · rename_i s1 o1 hstep
      split at h
      · simp at h
      · rename_i s2 o2 hrun
        simp only [Option.some.injEq, Prod.mk.injEq] at h
        have hz : ∀ x t, op ≠ .delay 0 x t := by
          intro x t e
          subst e
          simp [noZeroDelay] at hd
        have hd2 : noZeroDelay ops = true := by
          cases op <;> simp_all [noZeroDelay]
        have e1 := rust_step_agree s s1 op o1 hz hstep
        have e2 := rust_run_agree ops s1 s2 o2 hd2 hrun
        simp only [rustRun, e1, e2]
        obtain ⟨h1, h2⟩ := h
        rw [h1, h2]

/-- the template's scaffold and the WASM host functions are the same function, except for the delay guards -/
theorem rust_step_eq_wasm (s : St) (op : SOp)
    (hd : ∀ len x t, op = .delay len x t → len ≠ 0 ∧ len ≤ maxWasmDelay) : rustStep s op = wasmStep s op := by
  cases op with
  | push k => rfl
  | pop k => rfl
  | get n => rfl
  | set ws => rfl
  | mem x => rfl
  | delay len x t =>
    obtain ⟨h0, h1⟩ := hd len x t rfl
    have h2 : ¬ (len > maxWasmDelay) := by omega
    have e : s.pos + (len + 2) = s.pos + 2 + len := by omega
    simp [rustStep, wasmStep, h0, h2, ensure, rustDelayFlat_eq, Gen.rustDelayExtraWords, e]

/-! ## B. dispatch loop -/

theorem length_mapIdxFrom {α β : Type} (f : Nat → α → β) : ∀ (xs : List α) (i : Nat),
    (mapIdxFrom f i xs).length = xs.length
  | [], _ => rfl
  | _ :: xs, i => by simp [mapIdxFrom, length_mapIdxFrom f xs (i + 1)]

theorem getElem?_mapIdxFrom {α β : Type} (f : Nat → α → β) : ∀ (xs : List α) (i j : Nat),
    (mapIdxFrom f i xs)[j]? = (xs[j]?).map (f (i + j))
  | [], _, _ => by simp [mapIdxFrom]
  | _ :: _, _, 0 => by simp [mapIdxFrom]
  | _ :: xs, i, j + 1 => by
    simp only [mapIdxFrom, List.getElem?_cons_succ, getElem?_mapIdxFrom f xs (i + 1) j]
    have : i + 1 + j = i + (j + 1) := by omega
    rw [this]

theorem length_fillRegion (edges : Edges) (a : Arm) : (fillRegion edges a).length = edges.length := by
  simp [fillRegion, length_mapIdxFrom]

theorem edgeAt_fillRegion (edges : Edges) (a : Arm) (b : Nat) :
    edgeAt (fillRegion edges a) b =
      if b < edges.length ∧ a.contains b = true then some (a.merge, a.start) else edgeAt edges b := by
  simp only [edgeAt, fillRegion, getElem?_mapIdxFrom, Nat.zero_add]
  by_cases hb : b < edges.length
  · rw [List.getElem?_eq_getElem hb]
    simp only [Option.map_some, Option.join_some, Arm.contains, Bool.and_eq_true, decide_eq_true_eq, hb, true_and]
    by_cases hc : a.start ≤ b ∧ b < a.stop
    · have : a.start ≤ b ∧ b < min a.stop edges.length := ⟨hc.1, by omega⟩
      simp [hc, this]
    · have : ¬ (a.start ≤ b ∧ b < min a.stop edges.length) := by omega
      simp [hc, this]
  · simp [hb]

theorem edgeAt_foldl : ∀ (as : List Arm) (init : Edges) (b : Nat),
    edgeAt (as.foldl fillRegion init) b =
      if b < init.length then
        (match lastContaining as b with
         | some a => some (a.merge, a.start)
         | none => edgeAt init b)
      else none
  | [], init, b => by
    simp only [List.foldl_nil, lastContaining]
    split
    · rfl
    · have : init[b]? = none := by simp; omega
      simp [edgeAt, this]
  | a :: as, init, b => by
    simp only [List.foldl_cons]
    rw [edgeAt_foldl as (fillRegion init a) b, length_fillRegion, edgeAt_fillRegion]
    by_cases hb : b < init.length
    · simp only [hb, if_true, true_and, lastContaining]
      cases h : lastContaining as b with
      | some x => simp
      | none =>
        by_cases hc : a.contains b = true
        · simp [hc]
        · simp [hc]
    · simp [hb]

theorem edgeAt_fallEdges (bs : Cfg) (b : Nat) (hb : b < bs.length) :
    edgeAt (fallEdges bs) b = (lastContaining (arms bs) b).map (fun a => (a.merge, a.start)) := by
  simp only [fallEdges, edgeAt_foldl, List.length_replicate, hb, if_true]
  cases lastContaining (arms bs) b with
  | some a => rfl
  | none => simp [edgeAt, hb]

/-- closes goals whose two sides differ only in which auxiliary matcher they use -/
local macro "fin" : tactic => `(tactic| all_goals (first | done | rfl | (split <;> first | rfl | simp_all)))

/-- `execBlock` with the fall-off-the-end behaviour as a parameter -/
def execBlockK {σ ρ : Type} (S : Sem σ ρ) (preds : List Nat) (bi : Nat) (K : Nat → σ → Flow σ ρ) :
    List Ins → Nat → σ → Flow σ ρ
  | [], pred, s => K pred s
  | .op k :: rest, pred, s =>
    match S.op k s with
    | some s' => execBlockK S preds bi K rest pred s'
    | none => .panic
  | .phi d l r :: rest, pred, s =>
    match preds with
    | p0 :: p1 :: _ =>
      if pred = p0 then execBlockK S preds bi K rest pred (S.move d l s)
      else if pred = p1 then execBlockK S preds bi K rest pred (S.move d r s)
      else .panic
    | _ => .panic
  | .phiSwitch d ins :: rest, pred, s =>
    match (preds.zip ins).find? (fun a => a.1 == pred) with
    | some a => execBlockK S preds bi K rest pred (S.move d a.2 s)
    | none => .panic
  | .jmpIf c t e _ :: _, _, s => .next (if S.truthy c s then t else e) bi s
  | .jmp off :: _, _, s => .next (wrapUsize (bi + off)) bi s
  | .switch sc cases d _ :: _, _, s =>
    match switchTarget cases d (S.scrut sc s) with
    | some n => .next n bi s
    | none => .panic
  | .ret v :: _, _, s => .ret (S.result v s)

def fallOff {σ ρ : Type} (as : List Arm) (bi : Nat) : Nat → σ → Flow σ ρ := fun _ s =>
  match lastContaining as bi with
  | some a => .next a.merge a.start s
  | none => .panic

theorem execBlock_eq_K {σ ρ : Type} (S : Sem σ ρ) (as : List Arm) (preds : List Nat) (bi : Nat) :
    ∀ (is : List Ins) (pred : Nat) (s : σ),
      execBlock S as preds bi is pred s = execBlockK S preds bi (fallOff as bi) is pred s := by
  intro is
  induction is with
  | nil => intro pred s; simp only [execBlock, execBlockK, fallOff]; fin
  | cons i rest ih =>
    intro pred s
    cases i with
    | phi d l r => rcases preds with _ | ⟨p0, _ | ⟨p1, ps⟩⟩ <;> simp only [execBlock, execBlockK, ih]
    | op k => simp only [execBlock, execBlockK, ih]; fin
    | phiSwitch d ins => simp only [execBlock, execBlockK, ih]; fin
    | jmpIf c t e m => rfl
    | jmp off => rfl
    | switch sc cases d m => simp only [execBlock, execBlockK]; fin
    | ret v => rfl

/-- the text of a block's instructions followed by `tail`, run as a `match` arm entered with `bb = bi` -/
theorem execArm_enc {σ ρ : Type} (S : Sem σ ρ) (preds : List Nat) (bi : Nat) (tail : List RS) :
    ∀ (is : List Ins), (∀ i ∈ is, i.phiOk preds = true) → ∀ (pred : Nat) (s : σ),
      execArm S (is.flatMap (encIns preds bi) ++ tail) bi pred s =
        execBlockK S preds bi (fun p s' => execArm S tail bi p s') is pred s := by
  intro is
  induction is with
  | nil => intro _ pred s; simp [execBlockK]
  | cons i rest ih =>
    intro hok pred s
    have hrest : ∀ i ∈ rest, i.phiOk preds = true := fun j hj => hok j (List.mem_cons_of_mem _ hj)
    have hi : i.phiOk preds = true := hok i (List.mem_cons_self ..)
    cases i with
    | op k =>
      simp only [List.flatMap_cons, encIns, List.cons_append, List.nil_append, execArm, execBlockK, ih hrest]
      fin
    | phi d l r =>
      simp only [Ins.phiOk, decide_eq_true_eq] at hi
      rcases preds with _ | ⟨p0, _ | ⟨p1, ps⟩⟩
      · simp at hi
      · simp at hi
      · simp only [List.flatMap_cons, encIns, List.cons_append, List.nil_append, execArm, execBlockK,
          List.getD_cons_zero, List.getD_cons_succ, ih hrest]
    | phiSwitch d ins =>
      simp only [List.flatMap_cons, encIns, List.cons_append, List.nil_append, execArm, execBlockK, ih hrest]
      fin
    | jmpIf c t e m =>
      simp [List.flatMap_cons, encIns, execArm, execBlockK]
    | jmp off =>
      simp [List.flatMap_cons, encIns, execArm, execBlockK]
    | switch sc cases d m =>
      simp only [List.flatMap_cons, encIns, List.cons_append, List.nil_append, execArm, execBlockK]
      fin
    | ret v =>
      simp [List.flatMap_cons, encIns, execArm, execBlockK]

/-- a block whose last instruction is a terminator never reaches its end -/
theorem execBlockK_irrel {σ ρ : Type} (S : Sem σ ρ) (preds : List Nat) (bi : Nat) (K K' : Nat → σ → Flow σ ρ) :
    ∀ (is : List Ins), canFall is = false → ∀ (pred : Nat) (s : σ),
      execBlockK S preds bi K is pred s = execBlockK S preds bi K' is pred s := by
  intro is
  induction is with
  | nil => intro h; simp [canFall] at h
  | cons i rest ih =>
    intro h pred s
    cases rest with
    | nil =>
      cases i <;> simp [canFall, Ins.isTerm] at h <;> simp [execBlockK]
    | cons j rest' =>
      have h' : canFall (j :: rest') = false := by simpa [canFall] using h
      have ih' := ih h'
      cases i with
      | phi d l r => rcases preds with _ | ⟨p0, _ | ⟨p1, ps⟩⟩ <;> simp only [execBlockK, ih']
      | op k => simp only [execBlockK, ih']
      | phiSwitch d ins => simp only [execBlockK, ih']
      | jmpIf c t e m => rfl
      | jmp off => rfl
      | switch sc cases d m => rfl
      | ret v => rfl

theorem allIdx_getElem? {α : Type} (f : Nat → α → Bool) : ∀ (xs : List α) (i j : Nat) (x : α),
    allIdx f i xs = true → xs[j]? = some x → f (i + j) x = true
  | [], _, _, _, _, h => by simp at h
  | y :: ys, i, 0, x, ha, h => by
    simp only [List.getElem?_cons_zero, Option.some.injEq] at h
    simp only [allIdx, Bool.and_eq_true] at ha
    subst h
    simpa using ha.1
  | y :: ys, i, j + 1, x, ha, h => by
    simp only [List.getElem?_cons_succ] at h
    simp only [allIdx, Bool.and_eq_true] at ha
    have := allIdx_getElem? f ys (i + 1) j x ha.2 h
    have e : i + 1 + j = i + (j + 1) := by omega
    rwa [e] at this

/-- one `match bb` arm of the emitted loop = one block of the graph -/
theorem execArm_encBlock {σ ρ : Type} (S : Sem σ ρ) (bs : Cfg) (bb : Nat) (b : Block)
    (hb : bs[bb]? = some b) (hok : ∀ i ∈ b, i.phiOk ((blockPreds bs).getD bb []) = true) (pred : Nat) (s : σ) :
    execArm S (encBlock (blockPreds bs) (fallEdges bs) bb b) bb pred s =
      execBlock S (arms bs) ((blockPreds bs).getD bb []) bb b pred s := by
  have hlt : bb < bs.length := by
    rcases Nat.lt_or_ge bb bs.length with h | h
    · exact h
    · have : bs[bb]? = none := by simp; omega
      rw [this] at hb; simp at hb
  rw [execBlock_eq_K, encBlock, execArm_enc S _ bb _ b hok, edgeAt_fallEdges bs bb hlt]
  cases hl : lastContaining (arms bs) bb with
  | some a =>
    have : (fun p (s' : σ) => execArm S (encTail (Option.map (fun (a : Arm) => (a.merge, a.start)) (some a)) b) bb p s')
        = (fallOff (arms bs) bb : Nat → σ → Flow σ ρ) := by
      funext p s'
      simp [encTail, execArm, fallOff, hl]
    rw [this]
  | none =>
    by_cases hc : canFall b = true
    · have : (fun p (s' : σ) => execArm S (encTail (Option.map (fun (a : Arm) => (a.merge, a.start)) none) b) bb p s')
          = (fallOff (arms bs) bb : Nat → σ → Flow σ ρ) := by
        funext p s'
        simp [encTail, execArm, fallOff, hl, hc]
      rw [this]
    · have hc' : canFall b = false := by simpa using hc
      exact execBlockK_irrel S _ bb _ _ b hc' pred s

theorem runLoop_eq_runCfg {σ ρ : Type} (S : Sem σ ρ) (bs : Cfg)
    (hok : allIdx (fun bi b => b.all (Ins.phiOk ((blockPreds bs).getD bi []))) 0 bs = true) :
    ∀ (n bb pred : Nat) (s : σ),
      runLoop S (mapIdxFrom (encBlock (blockPreds bs) (fallEdges bs)) 0 bs) n bb pred s = runCfg S bs n bb pred s := by
  intro n
  induction n with
  | zero => intro bb pred s; rfl
  | succ n ih =>
    intro bb pred s
    simp only [runLoop, runCfg, getElem?_mapIdxFrom, Nat.zero_add]
    cases hb : bs[bb]? with
    | none => rfl
    | some b =>
      have hphi : ∀ i ∈ b, i.phiOk ((blockPreds bs).getD bb []) = true := by
        have := allIdx_getElem? _ bs 0 bb b hok hb
        simp only [Nat.zero_add, List.all_eq_true] at this
        exact this
      simp only [Option.map_some]
      rw [execArm_encBlock S bs bb b hb hphi]
      split <;> simp [ih]

theorem arms_straight (b : Block) (h : b.all (fun i => !i.isBranchy) = true) : arms [b] = [] := by
  simp only [arms, List.flatMap_cons, List.flatMap_nil, List.append_nil]
  induction b with
  | nil => rfl
  | cons i rest ih =>
    simp only [List.all_cons, Bool.and_eq_true] at h
    simp only [List.flatMap_cons, ih h.2, List.append_nil]
    cases i <;> simp [Ins.isBranchy] at h <;> rfl

/-- a block without branch instructions either returns or panics when nothing follows it -/
theorem execBlockK_straight {σ ρ : Type} (S : Sem σ ρ) (preds : List Nat) (bi : Nat) :
    ∀ (is : List Ins), is.all (fun i => !i.isBranchy) = true → ∀ (pred : Nat) (s : σ) (bb p : Nat) (s' : σ),
      execBlockK S preds bi (fun _ _ => .panic) is pred s ≠ (.next bb p s' : Flow σ ρ) := by
  intro is
  induction is with
  | nil => intro _ pred s bb p s'; simp [execBlockK]
  | cons i rest ih =>
    intro h pred s bb p s'
    simp only [List.all_cons, Bool.and_eq_true] at h
    cases i with
    | op k =>
      simp only [execBlockK]
      split
      · exact ih h.2 _ _ _ _ _
      · simp
    | ret v => simp [execBlockK]
    | phi d l r => simp [Ins.isBranchy] at h
    | phiSwitch d ins => simp [Ins.isBranchy] at h
    | jmpIf c t e m => simp [Ins.isBranchy] at h
    | jmp off => simp [Ins.isBranchy] at h
    | switch sc cases d m => simp [Ins.isBranchy] at h

theorem lastContaining_mem : ∀ (as : List Arm) (b : Nat) (a : Arm), lastContaining as b = some a →
    a ∈ as ∧ a.contains b = true
  | [], _, _, h => by simp [lastContaining] at h
  | x :: xs, b, a, h => by
    simp only [lastContaining] at h
    cases hl : lastContaining xs b with
    | some y =>
      simp only [hl, Option.some.injEq] at h
      subst h
      have := lastContaining_mem xs b y hl
      exact ⟨List.mem_cons_of_mem _ this.1, this.2⟩
    | none =>
      simp only [hl] at h
      split at h
      · rename_i hc
        simp only [Option.some.injEq] at h
        subst h
        exact ⟨List.mem_cons_self .., hc⟩
      · simp at h

theorem switchTarget_mem (cases : List (Int × Nat)) (d : Option Nat) (v : Int) (n : Nat)
    (h : switchTarget cases d v = some n) : (∃ c ∈ cases, c.2 = n) ∨ d = some n := by
  simp only [switchTarget] at h
  split at h
  · rename_i c hc
    simp only [Option.some.injEq] at h
    exact Or.inl ⟨c, List.mem_of_find?_eq_some hc, h⟩
  · exact Or.inr h

/-- without back edges every block hands control to a later block -/
theorem execBlock_forward {σ ρ : Type} (S : Sem σ ρ) (as : List Arm) (preds : List Nat) (bi : Nat)
    (ha : as.all (fun a => decide (a.stop ≤ a.merge)) = true) :
    ∀ (is : List Ins), is.all (Ins.forward bi) = true → ∀ (pred : Nat) (s : σ) (bb p : Nat) (s' : σ),
      execBlock S as preds bi is pred s = .next bb p s' → bi < bb := by
  intro is
  induction is with
  | nil =>
    intro _ pred s bb p s' h
    simp only [execBlock] at h
    split at h
    · rename_i a hl
      simp only [Flow.next.injEq] at h
      have hm := lastContaining_mem as bi a hl
      have := List.all_eq_true.mp ha a hm.1
      simp only [Arm.contains, Bool.and_eq_true, decide_eq_true_eq] at hm this
      omega
    · simp at h
  | cons i rest ih =>
    intro hf pred s bb p s' h
    simp only [List.all_cons, Bool.and_eq_true] at hf
    cases i with
    | op k =>
      simp only [execBlock] at h
      split at h
      · exact ih hf.2 _ _ _ _ _ h
      · simp at h
    | phi d l r =>
      simp only [execBlock] at h
      split at h
      · split at h
        · exact ih hf.2 _ _ _ _ _ h
        · split at h
          · exact ih hf.2 _ _ _ _ _ h
          · simp at h
      · simp at h
    | phiSwitch d ins =>
      simp only [execBlock] at h
      split at h
      · exact ih hf.2 _ _ _ _ _ h
      · simp at h
    | jmpIf c t e m =>
      simp only [execBlock, Flow.next.injEq] at h
      have := hf.1
      simp only [Ins.forward, Bool.and_eq_true, decide_eq_true_eq] at this
      split at h <;> omega
    | jmp off =>
      simp only [execBlock, Flow.next.injEq] at h
      have := hf.1
      simp only [Ins.forward, decide_eq_true_eq] at this
      omega
    | switch sc cases d m =>
      simp only [execBlock] at h
      split at h
      · rename_i n hn
        simp only [Flow.next.injEq] at h
        have := hf.1
        simp only [Ins.forward, Bool.and_eq_true, List.all_eq_true, decide_eq_true_eq] at this
        rcases switchTarget_mem _ _ _ _ hn with ⟨c, hc, hcn⟩ | hd
        · have := this.1 c hc; omega
        · have h2 := this.2
          rw [hd] at h2
          simp only [Option.all_some, decide_eq_true_eq] at h2
          omega
      · simp at h
    | ret v => simp [execBlock] at h

/-- … hence the block graph is left (return or panic) after at most `length` blocks -/
theorem runCfg_terminates {σ ρ : Type} (S : Sem σ ρ) (bs : Cfg) (hf : forward bs = true) :
    ∀ (n bb : Nat), bs.length ≤ bb + n → ∀ (pred : Nat) (s : σ) (bb' p : Nat) (s' : σ),
      runCfg S bs (n + 1) bb pred s ≠ .more bb' p s' := by
  simp only [forward, Bool.and_eq_true] at hf
  intro n
  induction n with
  | zero =>
    intro bb hle pred s bb' p s'
    have : bs[bb]? = none := by simp; omega
    simp [runCfg, this]
  | succ n ih =>
    intro bb hle pred s bb' p s'
    simp only [runCfg]
    cases hb : bs[bb]? with
    | none => simp
    | some b =>
      simp only
      have hfb : b.all (Ins.forward bb) = true := by
        have := allIdx_getElem? _ bs 0 bb b hf.1 hb
        simpa using this
      cases hx : execBlock S (arms bs) ((blockPreds bs).getD bb []) bb b pred s with
      | next b2 p2 s2 =>
        have hlt := execBlock_forward S (arms bs) _ bb hf.2 b hfb pred s b2 p2 s2 hx
        exact ih b2 (by omega) p2 s2 bb' p s'
      | ret r => simp
      | panic => simp

end Mimium.RustGen
