import Mimium.Model.ReportCache
namespace Mimium.ReportCache

theorem get_put (c : Cache) (p t : Nat) : get (put c p t) p = some t := by
  simp [get, put]

theorem run_atomic_own (l : List Step) (h : atomicOnly l = true) :
    ∀ (c : Cache) (sh : Shown), sh ∈ run c l → sh.2 = some sh.1.text := by
  induction l with
  | nil => intro c sh hm; simp [run] at hm
  | cons s rest ih =>
    intro c sh hm
    cases s with
    | report j =>
      have hr : atomicOnly rest = true := by
        simpa [atomicOnly] using h
      simp only [run, step, List.cons_append, List.nil_append, List.mem_cons] at hm
      rcases hm with rfl | hm
      · exact get_put c j.path j.text
      · exact ih hr _ sh hm
    | store j => simp [atomicOnly] at h
    | render j => simp [atomicOnly] at h

end Mimium.ReportCache
