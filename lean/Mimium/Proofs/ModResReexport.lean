import Mimium.Proofs.ModResOrder
/-!
# C17: re-exports (`pub use`) after /repo c6822e4 + 3b64798 + the repair of F12-cycle

* `AliasKeysVis`: every alias key with a module part has a visibility entry — an invariant of every `ModuleInfo` the
  flattening builds (`lowerInfo_aliasKeysVis`).  With it, a path reference whose alias chain moves always has its
  *target* checked (`convertQVar_sound_target`, `Proofs/ModRes.lean`).
* since the repair of F12-cycle (`entry().or_insert`) a re-export never replaces a visibility entry, while a declaration
  always does: for every declared name the map holds the **last declaration** (`lowerInfo_vis_last_decl`), whatever
  re-exports the walk contains; hence the map is faithful to the declarations as soon as declared names are distinct
  (`visFaithful_of_nodup`).
-/
namespace Mimium.ModRes

/-! ### every re-exported name has a visibility entry -/

theorem registerAlias_aliasKeysVis {i : Info} (h : AliasKeysVis i) (pub : Bool) (pre : List Name) (a : Name) (m : Sym) :
    AliasKeysVis (registerAlias i pub pre a m) := by
  intro k hk hs
  unfold registerAlias at hs ⊢
  have hak : ([a] : Sym) ≠ k := by intro e; rw [← e] at hk; simp at hk
  cases pub with
  | false =>
    simp only [Bool.false_eq_true, ↓reduceIte, get?_cons, if_neg hak] at hs ⊢
    exact h k hk hs
  | true =>
    simp only [↓reduceIte, get?_cons] at hs ⊢
    by_cases e : pre ++ [a] = k
    · subst e
      split
      · rename_i h1; exact h1
      · simp [get?_cons]
    · simp only [if_neg e, if_neg hak] at hs
      have := h k hk hs
      split
      · exact this
      · rw [get?_cons, if_neg e]; exact this

theorem processUse_aliasKeysVis {i : Info} (h : AliasKeysVis i) (pub : Bool) (path : List Name) (t : UseTarget)
    (pre : List Name) : AliasKeysVis (processUse pub path t pre i) := by
  unfold processUse
  cases t with
  | single =>
    simp only
    split
    · exact registerAlias_aliasKeysVis h _ _ _ _
    · exact h
  | wildcard => exact h
  | multiple names =>
    simp only
    induction names generalizing i with
    | nil => exact h
    | cons n rest ih =>
      simp only [List.foldl_cons]
      exact ih (registerAlias_aliasKeysVis h _ _ _ _)

theorem step_aliasKeysVis {i : Info} (h : AliasKeysVis i) (ev : Ev) : AliasKeysVis (step i ev) := by
  cases ev with
  | fn pre pub x ps b =>
    intro k hk hs
    have := h k hk hs
    simp only [step, get?_cons]
    split
    · rfl
    · exact this
  | modOpen pre x => exact h
  | letS pre pub x e => exact h
  | use pre pub path t =>
    rw [step_use_eq]
    apply processUse_aliasKeysVis
    unfold useLoaded
    split
    · split
      · exact h
      · exact h
    · exact h

theorem foldl_step_aliasKeysVis (evs : List Ev) : ∀ {i : Info}, AliasKeysVis i → AliasKeysVis (evs.foldl step i) := by
  induction evs with
  | nil => intro i h; exact h
  | cons ev rest ih => intro i h; exact ih (step_aliasKeysVis h ev)

/-- the invariant holds for the `ModuleInfo` of every walk -/
theorem lowerInfo_aliasKeysVis (evs : List Ev) : AliasKeysVis (lowerInfo evs) :=
  foldl_step_aliasKeysVis evs (by intro k _ hs; simp [get?] at hs)

/-! ### a re-export never replaces a visibility entry (`entry().or_insert`), a declaration always does -/

theorem registerAlias_vis_keep (i : Info) (pub : Bool) (pre : List Name) (a : Name) (m : Sym) (s : Sym) (v : Bool)
    (h : get? i.vis s = some v) : get? (registerAlias i pub pre a m).vis s = some v := by
  unfold registerAlias
  cases pub with
  | false => exact h
  | true =>
    simp only [↓reduceIte]
    split
    · exact h
    · rename_i hn
      rw [get?_cons, if_neg]
      · exact h
      · intro e
        simp only at e
        rw [e, h] at hn
        simp at hn

theorem processUse_vis_keep (i : Info) (pub : Bool) (path : List Name) (t : UseTarget) (pre : List Name) (s : Sym)
    (v : Bool) (h : get? i.vis s = some v) : get? (processUse pub path t pre i).vis s = some v := by
  unfold processUse
  cases t with
  | single =>
    simp only
    split
    · exact registerAlias_vis_keep _ _ _ _ _ _ _ h
    · exact h
  | wildcard => exact h
  | multiple names =>
    simp only
    induction names generalizing i with
    | nil => exact h
    | cons n rest ih =>
      simp only [List.foldl_cons]
      exact ih _ (registerAlias_vis_keep _ _ _ _ _ _ _ h)

theorem useLoaded_vis (i : Info) (pre path : List Name) : (useLoaded i pre path).vis = i.vis := by
  unfold useLoaded
  split
  · split <;> rfl
  · rfl

/-- an entry of the visibility map survives every statement that does not *declare* a function of that name -/
theorem foldl_step_vis_keep (evs : List Ev) (s : Sym) (v : Bool) (hnd : ∀ d ∈ fnDecls evs, d.1 ≠ s) : ∀ i : Info,
    get? i.vis s = some v → get? (evs.foldl step i).vis s = some v := by
  induction evs with
  | nil => intro i h; exact h
  | cons ev rest ih =>
    intro i h
    simp only [List.foldl_cons]
    cases ev with
    | fn pre pub x ps b =>
      apply ih (fun d hd => hnd d (by simp [fnDecls, hd]))
      simp only [step, get?_cons]
      rw [if_neg (hnd (pre ++ [x], pub) (by simp [fnDecls]))]
      exact h
    | modOpen pre x => exact ih hnd _ h
    | letS pre pub x e => exact ih hnd _ h
    | use pre pub path t =>
      apply ih hnd
      rw [step_use_eq]
      apply processUse_vis_keep
      rw [useLoaded_vis]
      exact h

theorem get?_isSome_of_mem {α : Type} {l : List (Sym × α)} {s : Sym} {v : α} (h : (s, v) ∈ l) :
    ∃ w, get? l s = some w := by
  induction l with
  | nil => simp at h
  | cons p rest ih =>
    rw [get?_cons]
    split
    · exact ⟨_, rfl⟩
    · rename_i hne
      rcases List.mem_cons.mp h with e | hm
      · exact absurd (by rw [← e]) hne
      · exact ih hm

/-- for every declared function name the visibility map holds the **last declaration** of that name — whatever `use`
and `pub use` statements the walk contains, wherever they stand -/
theorem foldl_step_vis_last_decl (evs : List Ev) (s : Sym) (v : Bool) : get? (fnDecls evs).reverse s = some v →
    ∀ i : Info, get? (evs.foldl step i).vis s = some v := by
  induction evs with
  | nil => intro h; simp [fnDecls, get?] at h
  | cons ev rest ih =>
    intro h i
    simp only [List.foldl_cons]
    cases ev with
    | fn pre pub x ps b =>
      simp only [fnDecls, List.reverse_cons, get?_append] at h
      cases hr : get? (fnDecls rest).reverse s with
      | some w =>
        rw [hr] at h
        simp only [Option.some.injEq] at h
        subst h
        exact ih hr _
      | none =>
        rw [hr] at h
        simp only [get?] at h
        apply foldl_step_vis_keep
        · intro d hd e
          obtain ⟨w, hw⟩ := get?_isSome_of_mem (s := d.1) (v := d.2) (List.mem_reverse.mpr hd)
          rw [e, hr] at hw
          exact absurd hw (by simp)
        · simp only [step, get?_cons]
          split at h
          · rename_i e; rw [if_pos e]; exact h
          · simp at h
    | modOpen pre x => exact ih (by simpa [fnDecls] using h) _
    | letS pre pub x e => exact ih (by simpa [fnDecls] using h) _
    | use pre pub path t => exact ih (by simpa [fnDecls] using h) _

theorem lowerInfo_vis_last_decl (evs : List Ev) (s : Sym) (v : Bool) (h : get? (fnDecls evs).reverse s = some v) :
    get? (lowerInfo evs).vis s = some v :=
  foldl_step_vis_last_decl evs s v h {}

/-- a function declared private, none of whose declarations is `pub`, is private in the visibility map -/
theorem vis_private_of_consistent (evs : List Ev) (s : Sym) (hd : (s, false) ∈ fnDecls evs)
    (hc : (s, true) ∉ fnDecls evs) : get? (lowerInfo evs).vis s = some false := by
  obtain ⟨w, hw⟩ := get?_isSome_of_mem (List.mem_reverse.mpr hd)
  cases w with
  | false => exact lowerInfo_vis_last_decl evs s false hw
  | true => exact absurd (List.mem_reverse.mp (get?_mem hw)) hc

/-- distinct declared names make the visibility map faithful to the declarations -/
theorem visFaithful_of_nodup (evs : List Ev) (hnd : ((fnDecls evs).map (·.1)).Nodup) : visFaithful evs = true := by
  unfold visFaithful
  rw [List.all_eq_true]
  intro d hd
  simp only [decide_eq_true_eq]
  apply lowerInfo_vis_last_decl
  apply get?_of_mem_nodup
  · rw [List.map_reverse, List.Nodup, List.pairwise_reverse]
    exact hnd.imp (fun h => Ne.symm h)
  · exact List.mem_reverse.mpr hd

/-! ### no private route from a faithful visibility map -/

/-- if the visibility map marks every private member private, no accepted reference reaches a private member from
outside — whatever `pub use` statements the tree contains -/
theorem noPrivateRoute_of_private_faithful (evs : List Ev)
    (h : ∀ sym, PrivateMember evs sym → get? (lowerInfo evs).vis sym = some false) : NoPrivateRoute evs := by
  intro known cur locals r sym hwf hres hpriv
  have hv := h sym hpriv
  cases r with
  | ident x => exact convertVar_sound ⟨lowerInfo evs, known, cur, locals⟩ x sym hres hv hpriv.2
  | path segs =>
    exact convertQVar_sound_target ⟨lowerInfo evs, known, cur, locals⟩ (lowerInfo_aliasKeysVis evs) segs sym
      (Ref.wf_path hwf) hres hv hpriv.2

end Mimium.ModRes
