import Mimium.Proofs.ModResOrder
/-!
# C17: re-exports (`pub use`) after /repo c6822e4 + 3b64798

* `AliasKeysVis`: every alias key with a module part has a visibility entry — an invariant of every `ModuleInfo` the
  flattening builds (`lowerInfo_aliasKeysVis`).  With it, a path reference whose alias chain moves always has its
  *target* checked (`convertQVar_sound_target`, `Proofs/ModRes.lean`).
* what the visibility map holds for a name that no `pub use` exports: the last declaration of that name
  (`lowerInfo_vis_of_not_exported`); hence the map is faithful to the declarations when declared names are distinct and no
  re-exported name is a declared name (`visFaithful_of_fresh`).
-/
namespace Mimium.ModRes

/-! ### every re-exported name has a visibility entry -/

theorem registerAlias_aliasKeysVis {i : Info} (h : AliasKeysVis i) (pub : Bool) (pre : List Name) (a : Name) (m : Sym) :
    AliasKeysVis (registerAlias i pub pre a m) := by
  intro k hk hs
  unfold registerAlias at hs ⊢
  have hak : ([a] : Sym) ≠ k := by intro e; rw [← e] at hk; simp at hk
  cases pub with
  | false =>
    simp only [Bool.false_eq_true, ↓reduceIte, get?_cons, if_neg hak] at hs ⊢
    exact h k hk hs
  | true =>
    simp only [↓reduceIte, get?_cons] at hs ⊢
    by_cases e : pre ++ [a] = k
    · simp [e]
    · simp only [if_neg e, if_neg hak] at hs ⊢
      exact h k hk hs

theorem processUse_aliasKeysVis {i : Info} (h : AliasKeysVis i) (pub : Bool) (path : List Name) (t : UseTarget)
    (pre : List Name) : AliasKeysVis (processUse pub path t pre i) := by
  unfold processUse
  cases t with
  | single =>
    simp only
    split
    · exact registerAlias_aliasKeysVis h _ _ _ _
    · exact h
  | wildcard => exact h
  | multiple names =>
    simp only
    induction names generalizing i with
    | nil => exact h
    | cons n rest ih =>
      simp only [List.foldl_cons]
      exact ih (registerAlias_aliasKeysVis h _ _ _ _)

theorem step_aliasKeysVis {i : Info} (h : AliasKeysVis i) (ev : Ev) : AliasKeysVis (step i ev) := by
  cases ev with
  | fn pre pub x ps b =>
    intro k hk hs
    have := h k hk hs
    simp only [step, get?_cons]
    split
    · rfl
    · exact this
  | modOpen pre x => exact h
  | letS pre pub x e => exact h
  | use pre pub path t =>
    rw [step_use_eq]
    apply processUse_aliasKeysVis
    unfold useLoaded
    split
    · split
      · exact h
      · exact h
    · exact h

theorem foldl_step_aliasKeysVis (evs : List Ev) : ∀ {i : Info}, AliasKeysVis i → AliasKeysVis (evs.foldl step i) := by
  induction evs with
  | nil => intro i h; exact h
  | cons ev rest ih => intro i h; exact ih (step_aliasKeysVis h ev)

/-- the invariant holds for the `ModuleInfo` of every walk -/
theorem lowerInfo_aliasKeysVis (evs : List Ev) : AliasKeysVis (lowerInfo evs) :=
  foldl_step_aliasKeysVis evs (by intro k _ hs; simp [get?] at hs)

/-! ### the names `pub use` statements export -/

/-- the names one `use` statement writes into the visibility map: `prefix$alias` for every alias of a `pub use` -/
def exportedBy (pre : List Name) (pub : Bool) (path : List Name) : UseTarget → List Sym
  | .single => if pub then (match path.getLast? with | some a => [pre ++ [a]] | none => []) else []
  | .multiple names => if pub then names.map (fun n => pre ++ [n]) else []
  | .wildcard => []

/-- all re-exported names of a walk -/
def exportedNames : List Ev → List Sym
  | [] => []
  | .use pre pub path t :: rest => exportedBy pre pub path t ++ exportedNames rest
  | _ :: rest => exportedNames rest

/-- **no re-exported name is the name of a declared function** (a `Bool`, syntactic: it looks only at the statements) -/
def reexportsFresh (evs : List Ev) : Bool :=
  (exportedNames evs).all (fun s => !((fnDecls evs).map (·.1)).contains s)

theorem exportedNames_of_noPubUse (evs : List Ev) (h : noPubUse evs = true) : exportedNames evs = [] := by
  induction evs with
  | nil => rfl
  | cons ev rest ih =>
    cases ev with
    | use pre pub path t =>
      simp only [noPubUse, Bool.and_eq_true, Bool.not_eq_true'] at h
      obtain ⟨hp, hr⟩ := h
      subst hp
      simp only [exportedNames, ih hr, List.append_nil]
      cases t <;> simp [exportedBy]
    | fn pre pub x ps b => exact ih (by simpa [noPubUse] using h)
    | modOpen pre x => exact ih (by simpa [noPubUse] using h)
    | letS pre pub x e => exact ih (by simpa [noPubUse] using h)

theorem reexportsFresh_of_noPubUse (evs : List Ev) (h : noPubUse evs = true) : reexportsFresh evs = true := by
  simp [reexportsFresh, exportedNames_of_noPubUse evs h]

/-! ### the visibility map at a name that is not re-exported -/

theorem registerAlias_vis_other (i : Info) (pub : Bool) (pre : List Name) (a : Name) (m : Sym) (s : Sym)
    (hs : pub = true → pre ++ [a] ≠ s) : get? (registerAlias i pub pre a m).vis s = get? i.vis s := by
  unfold registerAlias
  cases pub with
  | false => rfl
  | true => simp only [↓reduceIte, get?_cons, if_neg (hs rfl)]

theorem processUse_vis_other (i : Info) (pub : Bool) (path : List Name) (t : UseTarget) (pre : List Name) (s : Sym)
    (hs : s ∉ exportedBy pre pub path t) : get? (processUse pub path t pre i).vis s = get? i.vis s := by
  unfold processUse
  cases t with
  | single =>
    simp only
    cases hg : path.getLast? with
    | none => rfl
    | some a =>
      simp only
      apply registerAlias_vis_other
      intro hp e
      apply hs
      simp [exportedBy, hp, hg, e]
  | wildcard => rfl
  | multiple names =>
    simp only
    have hs' : ∀ n ∈ names, pub = true → pre ++ [n] ≠ s := by
      intro n hn hp e
      apply hs
      simp only [exportedBy, hp, ↓reduceIte, List.mem_map]
      exact ⟨n, hn, e⟩
    clear hs
    induction names generalizing i with
    | nil => rfl
    | cons n rest ih =>
      simp only [List.foldl_cons]
      rw [ih _ (fun n' hn' => hs' n' (List.mem_cons_of_mem _ hn'))]
      exact registerAlias_vis_other _ _ _ _ _ _ (hs' n List.mem_cons_self)

theorem useLoaded_vis (i : Info) (pre path : List Name) : (useLoaded i pre path).vis = i.vis := by
  unfold useLoaded
  split
  · split <;> rfl
  · rfl

/-- for a name that no `pub use` of the walk exports, the visibility map holds the **last declaration** of that name
(or, if it is not declared, whatever the map held before) -/
theorem foldl_step_vis_of_not_exported (evs : List Ev) (s : Sym) (hs : s ∉ exportedNames evs) : ∀ i : Info,
    get? (evs.foldl step i).vis s =
      match get? (fnDecls evs).reverse s with | some v => some v | none => get? i.vis s := by
  induction evs with
  | nil => intro i; rfl
  | cons ev rest ih =>
    intro i
    simp only [List.foldl_cons]
    cases ev with
    | fn pre pub x ps b =>
      rw [ih (by simpa [exportedNames] using hs)]
      simp only [fnDecls, List.reverse_cons, get?_append]
      cases get? (fnDecls rest).reverse s with
      | some v => rfl
      | none =>
        simp only [step, get?_cons, get?]
        split <;> rfl
    | modOpen pre x => exact ih (by simpa [exportedNames] using hs) _
    | letS pre pub x e => exact ih (by simpa [exportedNames] using hs) _
    | use pre pub path t =>
      simp only [exportedNames, List.mem_append, not_or] at hs
      rw [ih hs.2, step_use_eq, processUse_vis_other _ _ _ _ _ _ hs.1, useLoaded_vis]
      rfl

theorem lowerInfo_vis_of_not_exported (evs : List Ev) (s : Sym) (hs : s ∉ exportedNames evs) :
    get? (lowerInfo evs).vis s = get? (fnDecls evs).reverse s := by
  unfold lowerInfo
  rw [foldl_step_vis_of_not_exported evs s hs]
  cases get? (fnDecls evs).reverse s <;> rfl

theorem get?_isSome_of_mem {α : Type} {l : List (Sym × α)} {s : Sym} {v : α} (h : (s, v) ∈ l) :
    ∃ w, get? l s = some w := by
  induction l with
  | nil => simp at h
  | cons p rest ih =>
    rw [get?_cons]
    split
    · exact ⟨_, rfl⟩
    · rename_i hne
      rcases List.mem_cons.mp h with e | hm
      · exact absurd (by rw [← e]) hne
      · exact ih hm

/-- a function declared private, all of whose declarations are private and whose name no `pub use` exports, is private
in the visibility map -/
theorem vis_private_of_consistent (evs : List Ev) (s : Sym) (hd : (s, false) ∈ fnDecls evs)
    (hc : (s, true) ∉ fnDecls evs) (hx : s ∉ exportedNames evs) : get? (lowerInfo evs).vis s = some false := by
  rw [lowerInfo_vis_of_not_exported evs s hx]
  obtain ⟨w, hw⟩ := get?_isSome_of_mem (List.mem_reverse.mpr hd)
  rw [hw]
  cases w with
  | false => rfl
  | true => exact absurd (List.mem_reverse.mp (get?_mem hw)) hc

/-- distinct declared names and fresh re-exported names make the visibility map faithful to the declarations -/
theorem visFaithful_of_fresh (evs : List Ev) (hnd : ((fnDecls evs).map (·.1)).Nodup)
    (hfr : reexportsFresh evs = true) : visFaithful evs = true := by
  unfold visFaithful
  rw [List.all_eq_true]
  intro d hd
  simp only [decide_eq_true_eq]
  have hx : d.1 ∉ exportedNames evs := by
    intro hm
    have := List.all_eq_true.mp hfr _ hm
    simp only [Bool.not_eq_true'] at this
    have hc : ((fnDecls evs).map (·.1)).contains d.1 = true :=
      List.contains_iff_mem.mpr (List.mem_map.mpr ⟨d, hd, rfl⟩)
    rw [hc] at this
    exact absurd this (by simp)
  rw [lowerInfo_vis_of_not_exported evs d.1 hx]
  apply get?_of_mem_nodup
  · rw [List.map_reverse, List.Nodup, List.pairwise_reverse]
    exact hnd.imp (fun h => Ne.symm h)
  · exact List.mem_reverse.mpr hd

/-! ### no private route from a faithful visibility map -/

/-- if the visibility map marks every private member private, no accepted reference reaches a private member from
outside — whatever `pub use` statements the tree contains -/
theorem noPrivateRoute_of_private_faithful (evs : List Ev)
    (h : ∀ sym, PrivateMember evs sym → get? (lowerInfo evs).vis sym = some false) : NoPrivateRoute evs := by
  intro known cur locals r sym hwf hres hpriv
  have hv := h sym hpriv
  cases r with
  | ident x => exact convertVar_sound ⟨lowerInfo evs, known, cur, locals⟩ x sym hres hv hpriv.2
  | path segs =>
    exact convertQVar_sound_target ⟨lowerInfo evs, known, cur, locals⟩ (lowerInfo_aliasKeysVis evs) segs sym
      (Ref.wf_path hwf) hres hv hpriv.2

end Mimium.ModRes
