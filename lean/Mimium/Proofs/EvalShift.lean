import Mimium.Proofs.EvalFrame
import Mimium.Model.LiveCoding
/-!
# `Core.eval` of first-order code does not depend on where its variables live, nor on the rest of the program

For expressions without lambda, closure application and assignment (`simpleE`), in programs without globals whose
functions are of that kind: if the evaluation succeeds with fuel `n₁` in program `P₁`, it succeeds with every fuel
`n₂ ≥ n₁` in every program `P₂` that knows `P₁`'s functions (`SubProg`), from ANY environment / store pair that holds the
same values for the same variables at shifted locations (`EnvRel`, `StoreRel`): same value, same state tree, and both
stores grow by the same list of new locations.
Corollaries used for voices: the value and the state effect of `f(const)` are the same in the old program, in the new
program and in the program that contains the voice alone; more fuel does not change a successful evaluation; the store
only grows.
-/
namespace Mimium.LiveCoding
open Mimium.Core Mimium.FlatTree Mimium.Publish

/-- the same variables are bound, at locations shifted from `a₁` to `a₂` -/
def EnvRel (a₁ a₂ : Nat) (env₁ env₂ : Env) : Prop :=
  ∀ x, (env₁.lookup x = none ∧ env₂.lookup x = none) ∨
    ∃ l₁ l₂, env₁.lookup x = some l₁ ∧ env₂.lookup x = some l₂ ∧ a₁ ≤ l₁ ∧ a₂ ≤ l₂ ∧ l₁ - a₁ = l₂ - a₂

/-- the stores hold the same values from `a₁` resp. `a₂` on -/
def StoreRel (a₁ a₂ : Nat) (σ₁ σ₂ : Store) : Prop := a₁ ≤ σ₁.length ∧ a₂ ≤ σ₂.length ∧ σ₁.drop a₁ = σ₂.drop a₂

theorem StoreRel.append {a₁ a₂ : Nat} {σ₁ σ₂ : Store} (h : StoreRel a₁ a₂ σ₁ σ₂) (X : Store) :
    StoreRel a₁ a₂ (σ₁ ++ X) (σ₂ ++ X) := by
  obtain ⟨h1, h2, h3⟩ := h
  refine ⟨by simp; omega, by simp; omega, ?_⟩
  rw [List.drop_append_of_le_length h1, List.drop_append_of_le_length h2, h3]

theorem StoreRel.len {a₁ a₂ : Nat} {σ₁ σ₂ : Store} (h : StoreRel a₁ a₂ σ₁ σ₂) : σ₁.length - a₁ = σ₂.length - a₂ := by
  have := congrArg List.length h.2.2
  simpa using this

theorem StoreRel.get {a₁ a₂ : Nat} {σ₁ σ₂ : Store} (h : StoreRel a₁ a₂ σ₁ σ₂) (l₁ l₂ : Nat) (h1 : a₁ ≤ l₁) (h2 : a₂ ≤ l₂)
    (e : l₁ - a₁ = l₂ - a₂) : σ₁[l₁]? = σ₂[l₂]? := by
  have e1 : σ₁[l₁]? = (σ₁.drop a₁)[l₁ - a₁]? := by rw [List.getElem?_drop]; congr 1; omega
  have e2 : σ₂[l₂]? = (σ₂.drop a₂)[l₂ - a₂]? := by rw [List.getElem?_drop]; congr 1; omega
  rw [e1, e2, h.2.2, e]

theorem EnvRel.cons {a₁ a₂ : Nat} {env₁ env₂ : Env} {σ₁ σ₂ : Store} (he : EnvRel a₁ a₂ env₁ env₂)
    (hs : StoreRel a₁ a₂ σ₁ σ₂) (x : String) : EnvRel a₁ a₂ ((x, σ₁.length) :: env₁) ((x, σ₂.length) :: env₂) := by
  intro y
  by_cases hxy : y = x
  · subst hxy
    exact Or.inr ⟨σ₁.length, σ₂.length, by simp [List.lookup], by simp [List.lookup], hs.1, hs.2.1, hs.len⟩
  · have : (y == x) = false := by simpa using hxy
    simpa [List.lookup, this] using he y

theorem EnvRel.nil (a₁ a₂ : Nat) : EnvRel a₁ a₂ [] [] := fun _ => Or.inl ⟨rfl, rfl⟩

theorem bindAll_rel {a₁ a₂ : Nat} : ∀ (xs : List String) (vs : List Val) (env₁ env₂ : Env) (σ₁ σ₂ : Store),
    EnvRel a₁ a₂ env₁ env₂ → StoreRel a₁ a₂ σ₁ σ₂ →
    EnvRel a₁ a₂ (bindAll env₁ σ₁ xs vs).1 (bindAll env₂ σ₂ xs vs).1 ∧
    ∃ X, (bindAll env₁ σ₁ xs vs).2 = σ₁ ++ X ∧ (bindAll env₂ σ₂ xs vs).2 = σ₂ ++ X
  | [], vs, env₁, env₂, σ₁, σ₂, he, _ => by simp only [bindAll]; exact ⟨he, [], by simp, by simp⟩
  | x :: xs, [], env₁, env₂, σ₁, σ₂, he, _ => by simp only [bindAll]; exact ⟨he, [], by simp, by simp⟩
  | x :: xs, v :: vs, env₁, env₂, σ₁, σ₂, he, hs => by
    simp only [bindAll]
    obtain ⟨h1, X, e1, e2⟩ := bindAll_rel xs vs _ _ (σ₁ ++ [v]) (σ₂ ++ [v]) (he.cons hs x) (hs.append [v])
    exact ⟨h1, [v] ++ X, by rw [e1, List.append_assoc], by rw [e2, List.append_assoc]⟩

theorem globalEnv_nil (P : Prog) (h : P.globals = []) : globalEnv P = [] := by simp [globalEnv, h]

theorem findFn_mem' {fns : List FnDecl} {f : String} {d : FnDecl} (h : findFn fns f = some d) : d ∈ fns := by
  unfold findFn at h
  exact List.mem_of_find?_eq_some h

/-- **the shift lemma** -/
theorem eval_shift (P₁ P₂ : Prog) (hg₁ : P₁.globals = []) (hg₂ : P₂.globals = [])
    (hs₁ : ∀ d ∈ P₁.fns, simpleE d.body = true) (hsub : SubProg P₁ P₂) (rt : Rt) : ∀ (n₁ : Nat),
    (∀ (e : Expr) (n₂ : Nat) (env₁ env₂ : Env) (σ₁ σ₂ : Store) (a₁ a₂ : Nat) (st : SNode) (v : Val) (σ₁' : Store)
        (st' : SNode), n₁ ≤ n₂ → simpleE e = true → EnvRel a₁ a₂ env₁ env₂ → StoreRel a₁ a₂ σ₁ σ₂ →
      eval n₁ P₁ rt env₁ e σ₁ st = .ok (v, σ₁', st') →
      ∃ X, σ₁' = σ₁ ++ X ∧ eval n₂ P₂ rt env₂ e σ₂ st = .ok (v, σ₂ ++ X, st')) ∧
    (∀ (es : List Expr) (n₂ : Nat) (env₁ env₂ : Env) (σ₁ σ₂ : Store) (a₁ a₂ : Nat) (st : SNode) (vs : List Val)
        (σ₁' : Store) (st' : SNode), n₁ ≤ n₂ → simpleL es = true → EnvRel a₁ a₂ env₁ env₂ → StoreRel a₁ a₂ σ₁ σ₂ →
      evalList n₁ P₁ rt env₁ es σ₁ st = .ok (vs, σ₁', st') →
      ∃ X, σ₁' = σ₁ ++ X ∧ evalList n₂ P₂ rt env₂ es σ₂ st = .ok (vs, σ₂ ++ X, st')) := by
  intro n₁
  induction n₁ with
  | zero =>
    constructor
    · intro e n₂ env₁ env₂ σ₁ σ₂ a₁ a₂ st v σ₁' st' _ _ _ _ h; rw [eval_zero] at h; simp at h
    · intro es n₂ env₁ env₂ σ₁ σ₂ a₁ a₂ st vs σ₁' st' _ _ _ _ h; rw [evalList_zero] at h; simp at h
  | succ n ih =>
    obtain ⟨ihE, ihL⟩ := ih
    constructor
    · intro e n₂ env₁ env₂ σ₁ σ₂ a₁ a₂ st v σ₁' st' hn hsim he hst h
      obtain ⟨m, rfl⟩ : ∃ m, n₂ = m + 1 := ⟨n₂ - 1, by omega⟩
      have hnm : n ≤ m := by omega
      cases e with
      | lit b =>
        rw [eval_lit] at h
        simp only [Except.ok.injEq, Prod.mk.injEq] at h; obtain ⟨rfl, rfl, rfl⟩ := h
        exact ⟨[], by simp, by rw [eval_lit]; simp⟩
      | now =>
        rw [eval_now] at h
        simp only [Except.ok.injEq, Prod.mk.injEq] at h; obtain ⟨rfl, rfl, rfl⟩ := h
        exact ⟨[], by simp, by rw [eval_now]; simp⟩
      | samplerate =>
        rw [eval_sr] at h
        simp only [Except.ok.injEq, Prod.mk.injEq] at h; obtain ⟨rfl, rfl, rfl⟩ := h
        exact ⟨[], by simp, by rw [eval_sr]; simp⟩
      | self =>
        rw [eval_self] at h
        split at h
        · rename_i w hw
          simp only [Except.ok.injEq, Prod.mk.injEq] at h; obtain ⟨rfl, rfl, rfl⟩ := h
          exact ⟨[], by simp, by rw [eval_self, hw]; simp⟩
        · simp at h
      | lam ps body => simp [simpleE] at hsim
      | app f args => simp [simpleE] at hsim
      | assign x a rest => simp [simpleE] at hsim
      | var x =>
        rw [eval_var] at h
        rcases he x with ⟨e1, _⟩ | ⟨l₁, l₂, e1, e2, h1, h2, e⟩
        · simp [e1] at h
        · simp only [e1] at h
          split at h
          · rename_i w hw
            simp only [Except.ok.injEq, Prod.mk.injEq] at h; obtain ⟨rfl, rfl, rfl⟩ := h
            refine ⟨[], by simp, ?_⟩
            rw [eval_var, e2]
            simp only [← hst.get l₁ l₂ h1 h2 e, hw, List.append_nil]
          · simp at h
      | un op a =>
        simp only [simpleE] at hsim
        rw [eval_un] at h
        obtain ⟨⟨v1, s1, t1⟩, h1, h⟩ := andThen_ok h
        cases v1 with
        | num x =>
          simp only [Except.ok.injEq, Prod.mk.injEq] at h; obtain ⟨rfl, rfl, rfl⟩ := h
          obtain ⟨X, eX, e2⟩ := ihE a m _ _ _ _ _ _ _ _ _ _ hnm hsim he hst h1
          exact ⟨X, eX, by rw [eval_un, e2]; simp [Core.andThen]⟩
        | _ => simp at h
      | proj a i =>
        simp only [simpleE] at hsim
        rw [eval_proj] at h
        obtain ⟨⟨v1, s1, t1⟩, h1, h⟩ := andThen_ok h
        cases v1 with
        | tup ws =>
          simp only at h
          split at h
          · rename_i w hw
            simp only [Except.ok.injEq, Prod.mk.injEq] at h; obtain ⟨rfl, rfl, rfl⟩ := h
            obtain ⟨X, eX, e2⟩ := ihE a m _ _ _ _ _ _ _ _ _ _ hnm hsim he hst h1
            exact ⟨X, eX, by rw [eval_proj, e2]; simp [Core.andThen, hw]⟩
          · simp at h
        | _ => simp at h
      | bin op a b =>
        simp only [simpleE, Bool.and_eq_true] at hsim
        rw [eval_bin] at h
        obtain ⟨⟨v1, s1, t1⟩, h1, h⟩ := andThen_ok h
        cases v1 with
        | num x =>
          simp only at h
          obtain ⟨⟨v2, s2, t2⟩, h2, h⟩ := andThen_ok h
          cases v2 with
          | num y =>
            simp only [Except.ok.injEq, Prod.mk.injEq] at h; obtain ⟨rfl, rfl, rfl⟩ := h
            obtain ⟨X1, eX1, e1⟩ := ihE a m _ _ _ _ _ _ _ _ _ _ hnm hsim.1 he hst h1
            subst eX1
            obtain ⟨X2, eX2, e2⟩ := ihE b m _ _ _ _ _ _ _ _ _ _ hnm hsim.2 he (hst.append X1) h2
            refine ⟨X1 ++ X2, by rw [eX2, List.append_assoc], ?_⟩
            rw [eval_bin, e1]; simp only [Core.andThen, e2, List.append_assoc]
          | _ => simp at h
        | _ => simp at h
      | ite c a b =>
        simp only [simpleE, Bool.and_eq_true] at hsim
        rw [eval_ite] at h
        obtain ⟨⟨v1, s1, t1⟩, h1, h⟩ := andThen_ok h
        cases v1 with
        | num x =>
          simp only at h
          obtain ⟨X1, eX1, e1⟩ := ihE c m _ _ _ _ _ _ _ _ _ _ hnm hsim.1.1 he hst h1
          subst eX1
          split at h
          · rename_i hc
            obtain ⟨X2, eX2, e2⟩ := ihE a m _ _ _ _ _ _ _ _ _ _ hnm hsim.1.2 he (hst.append X1) h
            refine ⟨X1 ++ X2, by rw [eX2, List.append_assoc], ?_⟩
            rw [eval_ite, e1]; simp only [Core.andThen, hc, if_true, e2, List.append_assoc]
          · rename_i hc
            obtain ⟨X2, eX2, e2⟩ := ihE b m _ _ _ _ _ _ _ _ _ _ hnm hsim.2 he (hst.append X1) h
            refine ⟨X1 ++ X2, by rw [eX2, List.append_assoc], ?_⟩
            rw [eval_ite, e1]; simp only [Core.andThen, hc, if_false, e2, List.append_assoc]
        | _ => simp at h
      | letE x a body =>
        simp only [simpleE, Bool.and_eq_true] at hsim
        rw [eval_letE] at h
        obtain ⟨⟨v1, s1, t1⟩, h1, h⟩ := andThen_ok h
        simp only at h
        obtain ⟨X1, eX1, e1⟩ := ihE a m _ _ _ _ _ _ _ _ _ _ hnm hsim.1 he hst h1
        subst eX1
        have hst1 := hst.append X1
        obtain ⟨X2, eX2, e2⟩ := ihE body m _ _ _ _ _ _ _ _ _ _ hnm hsim.2 (he.cons hst1 x) (hst1.append [v1]) h
        refine ⟨X1 ++ ([v1] ++ X2), by rw [eX2]; simp [List.append_assoc], ?_⟩
        rw [eval_letE, e1]; simp only [Core.andThen, e2]; simp [List.append_assoc]
      | letTup xs a body =>
        simp only [simpleE, Bool.and_eq_true] at hsim
        rw [eval_letTup] at h
        obtain ⟨⟨v1, s1, t1⟩, h1, h⟩ := andThen_ok h
        cases v1 with
        | tup ws =>
          simp only at h
          split at h
          · rename_i hlen
            obtain ⟨X1, eX1, e1⟩ := ihE a m _ _ _ _ _ _ _ _ _ _ hnm hsim.1 he hst h1
            subst eX1
            have hst1 := hst.append X1
            obtain ⟨her, Y, eY1, eY2⟩ := bindAll_rel xs ws env₁ env₂ _ _ he hst1
            rw [eY1] at h
            obtain ⟨X2, eX2, e2⟩ := ihE body m _ _ _ _ _ _ _ _ _ _ hnm hsim.2 her (hst1.append Y) h
            refine ⟨X1 ++ (Y ++ X2), by rw [eX2]; simp [List.append_assoc], ?_⟩
            rw [eval_letTup, e1]; simp only [Core.andThen, hlen, if_true, eY2, e2]; simp [List.append_assoc]
          · simp at h
        | _ => simp at h
      | tup es =>
        simp only [simpleE] at hsim
        rw [eval_tup] at h
        obtain ⟨⟨ws, s1, t1⟩, h1, h⟩ := andThen_ok h
        simp only [Except.ok.injEq, Prod.mk.injEq] at h; obtain ⟨rfl, rfl, rfl⟩ := h
        obtain ⟨X, eX, e2⟩ := ihL es m _ _ _ _ _ _ _ _ _ _ hnm hsim he hst h1
        exact ⟨X, eX, by rw [eval_tup, e2]; simp [Core.andThen]⟩
      | mem a site =>
        simp only [simpleE] at hsim
        rw [eval_mem] at h
        obtain ⟨⟨v1, s1, t1⟩, h1, h⟩ := andThen_ok h
        cases v1 with
        | num x =>
          simp only [Except.ok.injEq, Prod.mk.injEq] at h; obtain ⟨rfl, rfl, rfl⟩ := h
          obtain ⟨X, eX, e2⟩ := ihE a m _ _ _ _ _ _ _ _ _ _ hnm hsim he hst h1
          exact ⟨X, eX, by rw [eval_mem, e2]; simp [Core.andThen]⟩
        | _ => simp at h
      | delay k a t site =>
        simp only [simpleE, Bool.and_eq_true] at hsim
        rw [eval_delay] at h
        obtain ⟨⟨v1, s1, t1⟩, h1, h⟩ := andThen_ok h
        cases v1 with
        | num x =>
          simp only at h
          obtain ⟨⟨v2, s2, t2⟩, h2, h⟩ := andThen_ok h
          cases v2 with
          | num tm =>
            simp only [Except.ok.injEq, Prod.mk.injEq] at h; obtain ⟨rfl, rfl, rfl⟩ := h
            obtain ⟨X1, eX1, e1⟩ := ihE a m _ _ _ _ _ _ _ _ _ _ hnm hsim.1 he hst h1
            subst eX1
            obtain ⟨X2, eX2, e2⟩ := ihE t m _ _ _ _ _ _ _ _ _ _ hnm hsim.2 he (hst.append X1) h2
            refine ⟨X1 ++ X2, by rw [eX2, List.append_assoc], ?_⟩
            rw [eval_delay, e1]; simp only [Core.andThen, e2, List.append_assoc]
          | _ => simp at h
        | _ => simp at h
      | call f args site =>
        simp only [simpleE] at hsim
        rw [eval_call] at h
        obtain ⟨⟨ws, s1, t1⟩, h1, h⟩ := andThen_ok h
        obtain ⟨X1, eX1, e1⟩ := ihL args m _ _ _ _ _ _ _ _ _ _ hnm hsim he hst h1
        subst eX1
        simp only [callRest] at h
        cases hf : findFn P₁.fns f with
        | none => simp [hf] at h
        | some d =>
          have hf2 := hsub f d hf
          simp only [hf] at h
          split at h
          · simp at h
          · rename_i hcount
            obtain ⟨⟨v2, s2, c1⟩, h2, h⟩ := andThen_ok h
            simp only [Except.ok.injEq, Prod.mk.injEq] at h; obtain ⟨rfl, rfl, rfl⟩ := h
            rw [globalEnv_nil P₁ hg₁] at h2
            have hst1 := hst.append X1
            obtain ⟨her, Y, eY1, eY2⟩ := bindAll_rel d.params ws [] [] _ _ (EnvRel.nil a₁ a₂) hst1
            rw [eY1] at h2
            obtain ⟨X2, eX2, e2⟩ := ihE d.body m _ _ _ _ _ _ _ _ _ _ hnm (hs₁ d (findFn_mem' hf)) her (hst1.append Y) h2
            refine ⟨X1 ++ (Y ++ X2), by rw [eX2]; simp [List.append_assoc], ?_⟩
            rw [eval_call, e1]
            simp only [Core.andThen, callRest, hf2, hcount, globalEnv_nil P₂ hg₂, eY2, e2]
            simp [List.append_assoc]
    · intro es n₂ env₁ env₂ σ₁ σ₂ a₁ a₂ st vs σ₁' st' hn hsim he hst h
      obtain ⟨m, rfl⟩ : ∃ m, n₂ = m + 1 := ⟨n₂ - 1, by omega⟩
      have hnm : n ≤ m := by omega
      cases es with
      | nil =>
        rw [evalList_nil] at h
        simp only [Except.ok.injEq, Prod.mk.injEq] at h; obtain ⟨rfl, rfl, rfl⟩ := h
        exact ⟨[], by simp, by rw [evalList_nil]; simp⟩
      | cons e es =>
        simp only [simpleL, Bool.and_eq_true] at hsim
        rw [evalList_cons] at h
        obtain ⟨⟨v1, s1, t1⟩, h1, h⟩ := andThen_ok h
        obtain ⟨⟨vs2, s2, t2⟩, h2, h⟩ := andThen_ok h
        simp only [Except.ok.injEq, Prod.mk.injEq] at h; obtain ⟨rfl, rfl, rfl⟩ := h
        obtain ⟨X1, eX1, e1⟩ := ihE e m _ _ _ _ _ _ _ _ _ _ hnm hsim.1 he hst h1
        subst eX1
        obtain ⟨X2, eX2, e2⟩ := ihL es m _ _ _ _ _ _ _ _ _ _ hnm hsim.2 he (hst.append X1) h2
        refine ⟨X1 ++ X2, by rw [eX2, List.append_assoc], ?_⟩
        rw [evalList_cons, e1]; simp only [Core.andThen, e2, List.append_assoc]

end Mimium.LiveCoding
