import Mimium.Proofs.FfiTypeSound
import Mimium.Proofs.FfiValueSerdeSound
import Mimium.Proofs.FfiInj
/-! Raw injectivity / prefix-freeness of the `Type` and direct `Value` encoders (no assumption on keys). -/
namespace Mimium.Ffi
open Mimium.Gen.Ffi

/-! ## `Type` -/

theorem encSeqBody_cancel {α} (enc : α → Bytes)
    (hc : ∀ a b x y, enc a ++ x = enc b ++ y → a = b ∧ x = y) (xs ys : List α) (x y : Bytes)
    (hl : xs.length = ys.length) (h : encSeqBody enc xs ++ x = encSeqBody enc ys ++ y) : xs = ys ∧ x = y := by
  induction xs generalizing ys with
  | nil =>
    cases ys with
    | nil => simpa [encSeqBody] using h
    | cons b ys => simp at hl
  | cons a xs ih =>
    cases ys with
    | nil => simp at hl
    | cons b ys =>
      simp only [encSeqBody, List.append_assoc] at h
      obtain ⟨rfl, h2⟩ := hc _ _ _ _ h
      obtain ⟨rfl, rfl⟩ := ih ys (by simpa using hl) h2
      exact ⟨rfl, rfl⟩

theorem encSeq_cancel {α} (enc : α → Bytes)
    (hc : ∀ a b x y, enc a ++ x = enc b ++ y → a = b ∧ x = y) (xs ys : List α) (x y : Bytes)
    (hx : LenOk xs.length) (hy : LenOk ys.length) (h : encSeq enc xs ++ x = encSeq enc ys ++ y) : xs = ys ∧ x = y := by
  simp only [encSeq, List.append_assoc] at h
  obtain ⟨hl, h2⟩ := encLen_cancel hx hy h
  exact encSeqBody_cancel enc hc xs ys x y hl h2

theorem encKey_cancel' (a b : Key) (x y : Bytes) (h : encKey a ++ x = encKey b ++ y) : a = b ∧ x = y :=
  encKey_cancel h

theorem encBool_cancel {a b : Bool} {x y : Bytes} (h : encBool a ++ x = encBool b ++ y) : a = b ∧ x = y := by
  cases a <;> cases b <;> simp [encBool] at h ⊢ <;> exact h

theorem encOptKey_cancel {a b : Option Key} {x y : Bytes} (h : encOptKey a ++ x = encOptKey b ++ y) :
    a = b ∧ x = y := by
  cases a with
  | none =>
    cases b with
    | none => simpa [encOptKey] using h
    | some b => simp [encOptKey] at h
  | some a =>
    cases b with
    | none => simp [encOptKey] at h
    | some b =>
      simp only [encOptKey, List.cons_append, List.cons.injEq, true_and] at h
      obtain ⟨rfl, rfl⟩ := encKey_cancel h
      exact ⟨rfl, rfl⟩

theorem encField_cancel (a b : RecordTypeField) (x y : Bytes) (h : encField a ++ x = encField b ++ y) :
    a = b ∧ x = y := by
  obtain ⟨ak, at_, ad⟩ := a
  obtain ⟨bk, bt, bd⟩ := b
  simp only [encField, List.append_assoc] at h
  obtain ⟨rfl, h2⟩ := encU64_cancel h
  obtain ⟨rfl, h3⟩ := encKey_cancel h2
  obtain ⟨rfl, rfl⟩ := encBool_cancel h3
  exact ⟨rfl, rfl⟩

theorem encVariant_cancel (a b : UInt64 × Option Key) (x y : Bytes) (h : encVariant a ++ x = encVariant b ++ y) :
    a = b ∧ x = y := by
  obtain ⟨as, ak⟩ := a
  obtain ⟨bs, bk⟩ := b
  simp only [encVariant, List.append_assoc] at h
  obtain ⟨rfl, h2⟩ := encU64_cancel h
  obtain ⟨rfl, rfl⟩ := encOptKey_cancel h2
  exact ⟨rfl, rfl⟩

theorem PTypeCtor.tag_inj {c d : PTypeCtor} (h : c.tag = d.tag) : c = d := by
  have := PTypeCtor.ofTag_tag c
  rw [h, PTypeCtor.ofTag_tag] at this
  simp at this; exact this.symm

/-- no assumption on keys: the serializer's output determines the type, and no output is a prefix of another -/
theorem encodeTy_cancel (t u : Ty) (a b x y : Bytes) (ht : t.Rep) (hu : u.Rep) (ha : encodeTy t = some a)
    (hb : encodeTy u = some b) (h : a ++ x = b ++ y) : t = u ∧ x = y := by
  unfold encodeTy at ha hb
  cases hta : t.ctor.serTag with
  | none => simp [hta] at ha
  | some ta =>
    cases htb : u.ctor.serTag with
    | none => simp [htb] at hb
    | some tb =>
      simp only [hta, Option.some.injEq] at ha
      simp only [htb, Option.some.injEq] at hb
      subst ha; subst hb
      simp only [List.append_assoc] at h
      obtain ⟨rfl, h2⟩ := encU32_cancel h
      have hc : t.ctor = u.ctor := by
        have h1 := TyCtor.ofTag_serTag _ _ hta
        rw [TyCtor.ofTag_serTag _ _ htb] at h1
        simp at h1; exact h1.symm
      cases t with
      | primitive p =>
        cases u with
        | primitive q =>
          simp only [Ty.payload] at h2
          obtain ⟨hpq, rfl⟩ := encU32_cancel h2
          cases PTypeCtor.tag_inj hpq
          exact ⟨rfl, rfl⟩
        | _ => simp only [Ty.ctor] at hc; cases hc
      | array k =>
        cases u with
        | array k' =>
          simp only [Ty.payload] at h2
          obtain ⟨rfl, rfl⟩ := encKey_cancel h2; exact ⟨rfl, rfl⟩
        | _ => simp only [Ty.ctor] at hc; cases hc
      | tuple ts =>
        cases u with
        | tuple us =>
          simp only [Ty.payload] at h2
          simp only [Ty.Rep] at ht hu
          obtain ⟨rfl, rfl⟩ := encSeq_cancel encKey encKey_cancel' ts us x y ht hu h2; exact ⟨rfl, rfl⟩
        | _ => simp only [Ty.ctor] at hc; cases hc
      | record fs =>
        cases u with
        | record gs =>
          simp only [Ty.payload] at h2
          simp only [Ty.Rep] at ht hu
          obtain ⟨rfl, rfl⟩ := encSeq_cancel encField encField_cancel fs gs x y ht hu h2; exact ⟨rfl, rfl⟩
        | _ => simp only [Ty.ctor] at hc; cases hc
      | function a r =>
        cases u with
        | function a' r' =>
          simp only [Ty.payload, List.append_assoc] at h2
          obtain ⟨rfl, h3⟩ := encKey_cancel h2
          obtain ⟨rfl, rfl⟩ := encKey_cancel h3; exact ⟨rfl, rfl⟩
        | _ => simp only [Ty.ctor] at hc; cases hc
      | ref k =>
        cases u with
        | ref k' =>
          simp only [Ty.payload] at h2
          obtain ⟨rfl, rfl⟩ := encKey_cancel h2; exact ⟨rfl, rfl⟩
        | _ => simp only [Ty.ctor] at hc; cases hc
      | code k =>
        cases u with
        | code k' =>
          simp only [Ty.payload] at h2
          obtain ⟨rfl, rfl⟩ := encKey_cancel h2; exact ⟨rfl, rfl⟩
        | _ => simp only [Ty.ctor] at hc; cases hc
      | union ts =>
        cases u with
        | union us =>
          simp only [Ty.payload] at h2
          simp only [Ty.Rep] at ht hu
          obtain ⟨rfl, rfl⟩ := encSeq_cancel encKey encKey_cancel' ts us x y ht hu h2; exact ⟨rfl, rfl⟩
        | _ => simp only [Ty.ctor] at hc; cases hc
      | userSum n vs =>
        cases u with
        | userSum n' ws =>
          simp only [Ty.payload, List.append_assoc] at h2
          simp only [Ty.Rep] at ht hu
          obtain ⟨rfl, h3⟩ := encU64_cancel h2
          obtain ⟨rfl, rfl⟩ := encSeq_cancel encVariant encVariant_cancel vs ws x y ht hu h3; exact ⟨rfl, rfl⟩
        | _ => simp only [Ty.ctor] at hc; cases hc
      | boxed k =>
        cases u with
        | boxed k' =>
          simp only [Ty.payload] at h2
          obtain ⟨rfl, rfl⟩ := encKey_cancel h2; exact ⟨rfl, rfl⟩
        | _ => simp only [Ty.ctor] at hc; cases hc
      | intermediate => simp [Ty.ctor, TyCtor.serTag] at hta
      | typeScheme _ => simp [Ty.ctor, TyCtor.serTag] at hta
      | typeAlias s =>
        cases u with
        | typeAlias s' =>
          simp only [Ty.payload] at h2
          obtain ⟨rfl, rfl⟩ := encU64_cancel h2; exact ⟨rfl, rfl⟩
        | _ => simp only [Ty.ctor] at hc; cases hc
      | any =>
        cases u with
        | any => simp only [Ty.payload, List.nil_append] at h2; exact ⟨rfl, h2⟩
        | _ => simp only [Ty.ctor] at hc; cases hc
      | failure =>
        cases u with
        | failure => simp only [Ty.payload, List.nil_append] at h2; exact ⟨rfl, h2⟩
        | _ => simp only [Ty.ctor] at hc; cases hc
      | unknown =>
        cases u with
        | unknown => simp only [Ty.payload, List.nil_append] at h2; exact ⟨rfl, h2⟩
        | _ => simp only [Ty.ctor] at hc; cases hc

/-! ## direct `Value` -/

theorem valTag_cancel {c d : ValCtor} {x y : Bytes} (hc : c.serTag.isSome = true) (hd : d.serTag.isSome = true)
    (h : valTag c ++ x = valTag d ++ y) : c = d ∧ x = y := by
  obtain ⟨ht, rfl⟩ := encU32_cancel h
  refine ⟨?_, rfl⟩
  have h1 := ofTag_valTag c hc
  rw [ht, ofTag_valTag d hd] at h1
  simp at h1; exact h1.symm

set_option hygiene false in
local macro "offdiagV" : tactic => `(tactic| first
  | (exfalso; simp [Value.directOk, Value.ctor, ValCtor.serTag] at hw; done)
  | (exfalso; simp only [encodeValRaw, List.append_assoc] at h
     cases (valTag_cancel (by decide) (by decide) h).1))

mutual
theorem encodeValRaw_cancel (v w : RawValue) (x y : Bytes) (hv : v.directOk = true) (hw : w.directOk = true)
    (rv : v.RepV) (rw_ : w.RepV) (h : encodeValRaw v ++ x = encodeValRaw w ++ y) : v = w ∧ x = y := by
  cases v with
  | errorV e =>
    cases w with
    | errorV e' =>
      simp only [encodeValRaw, List.append_assoc] at h
      obtain ⟨rfl, rfl⟩ := encKey_cancel (encU32_cancel h).2; exact ⟨rfl, rfl⟩
    | _ => offdiagV
  | unit =>
    cases w with
    | unit => simp only [encodeValRaw] at h; exact ⟨rfl, (encU32_cancel h).2⟩
    | _ => offdiagV
  | number b =>
    cases w with
    | number b' =>
      simp only [encodeValRaw, List.append_assoc] at h
      obtain ⟨rfl, rfl⟩ := encU64_cancel (encU32_cancel h).2; exact ⟨rfl, rfl⟩
    | _ => offdiagV
  | string s =>
    cases w with
    | string s' =>
      simp only [encodeValRaw, List.append_assoc] at h
      obtain ⟨rfl, rfl⟩ := encU64_cancel (encU32_cancel h).2; exact ⟨rfl, rfl⟩
    | _ => offdiagV
  | array vs =>
    cases w with
    | array ws =>
      simp only [encodeValRaw, List.append_assoc] at h
      simp only [Value.RepV] at rv rw_
      simp only [Value.directOk] at hv hw
      obtain ⟨hl, h2⟩ := encLen_cancel rv.1 rw_.1 (encU32_cancel h).2
      obtain ⟨rfl, rfl⟩ := encodeValList_cancel vs ws x y hl hv hw rv.2 rw_.2 h2; exact ⟨rfl, rfl⟩
    | _ => offdiagV
  | record fs =>
    cases w with
    | record gs =>
      simp only [encodeValRaw, List.append_assoc] at h
      simp only [Value.RepV] at rv rw_
      simp only [Value.directOk] at hv hw
      obtain ⟨hl, h2⟩ := encLen_cancel rv.1 rw_.1 (encU32_cancel h).2
      obtain ⟨rfl, rfl⟩ := encodeValFields_cancel fs gs x y hl hv hw rv.2 rw_.2 h2; exact ⟨rfl, rfl⟩
    | _ => offdiagV
  | tuple vs =>
    cases w with
    | tuple ws =>
      simp only [encodeValRaw, List.append_assoc] at h
      simp only [Value.RepV] at rv rw_
      simp only [Value.directOk] at hv hw
      obtain ⟨hl, h2⟩ := encLen_cancel rv.1 rw_.1 (encU32_cancel h).2
      obtain ⟨rfl, rfl⟩ := encodeValList_cancel vs ws x y hl hv hw rv.2 rw_.2 h2; exact ⟨rfl, rfl⟩
    | _ => offdiagV
  | closure _ _ => simp [Value.directOk, Value.ctor, ValCtor.serTag] at hv
  | fixpoint s e =>
    cases w with
    | fixpoint s' e' =>
      simp only [encodeValRaw, List.append_assoc] at h
      obtain ⟨rfl, h2⟩ := encU64_cancel (encU32_cancel h).2
      obtain ⟨rfl, rfl⟩ := encKey_cancel h2; exact ⟨rfl, rfl⟩
    | _ => offdiagV
  | code e =>
    cases w with
    | code e' =>
      simp only [encodeValRaw, List.append_assoc] at h
      obtain ⟨rfl, rfl⟩ := encKey_cancel (encU32_cancel h).2; exact ⟨rfl, rfl⟩
    | _ => offdiagV
  | externalFn _ => simp [Value.directOk, Value.ctor, ValCtor.serTag] at hv
  | store _ => simp [Value.directOk, Value.ctor, ValCtor.serTag] at hv
  | taggedUnion t v =>
    cases w with
    | taggedUnion t' v' =>
      simp only [encodeValRaw, List.append_assoc] at h
      simp only [Value.RepV] at rv rw_
      simp only [Value.directOk] at hv hw
      obtain ⟨rfl, h2⟩ := encU64_cancel (encU32_cancel h).2
      obtain ⟨rfl, rfl⟩ := encodeValRaw_cancel v v' x y hv hw rv rw_ h2; exact ⟨rfl, rfl⟩
    | _ => offdiagV
  | constructorFn t s k =>
    cases w with
    | constructorFn t' s' k' =>
      simp only [encodeValRaw, List.append_assoc] at h
      obtain ⟨rfl, h2⟩ := encU64_cancel (encU32_cancel h).2
      obtain ⟨rfl, h3⟩ := encU64_cancel h2
      obtain ⟨rfl, rfl⟩ := encKey_cancel h3; exact ⟨rfl, rfl⟩
    | _ => offdiagV
theorem encodeValList_cancel (vs ws : List RawValue) (x y : Bytes) (hl : vs.length = ws.length)
    (hv : directOkList vs = true) (hw : directOkList ws = true) (rv : RepVList vs) (rw_ : RepVList ws)
    (h : encodeValList vs ++ x = encodeValList ws ++ y) : vs = ws ∧ x = y := by
  cases vs with
  | nil =>
    cases ws with
    | nil => simpa [encodeValList] using h
    | cons w ws => simp at hl
  | cons v vs =>
    cases ws with
    | nil => simp at hl
    | cons w ws =>
      simp only [encodeValList, List.append_assoc] at h
      simp only [RepVList] at rv rw_
      simp only [directOkList, Bool.and_eq_true] at hv hw
      obtain ⟨rfl, h2⟩ := encodeValRaw_cancel v w _ _ hv.1 hw.1 rv.1 rw_.1 h
      obtain ⟨rfl, rfl⟩ := encodeValList_cancel vs ws x y (by simpa using hl) hv.2 hw.2 rv.2 rw_.2 h2
      exact ⟨rfl, rfl⟩
theorem encodeValFields_cancel (fs gs : List (UInt64 × RawValue)) (x y : Bytes) (hl : fs.length = gs.length)
    (hv : directOkFields fs = true) (hw : directOkFields gs = true) (rv : RepVFields fs) (rw_ : RepVFields gs)
    (h : encodeValFields fs ++ x = encodeValFields gs ++ y) : fs = gs ∧ x = y := by
  cases fs with
  | nil =>
    cases gs with
    | nil => simpa [encodeValFields] using h
    | cons w ws => simp at hl
  | cons kv fs =>
    cases gs with
    | nil => simp at hl
    | cons kw gs =>
      obtain ⟨k, v⟩ := kv
      obtain ⟨k', w⟩ := kw
      simp only [encodeValFields, List.append_assoc] at h
      simp only [RepVFields] at rv rw_
      simp only [directOkFields, Bool.and_eq_true] at hv hw
      obtain ⟨rfl, h2⟩ := encU64_cancel h
      obtain ⟨rfl, h3⟩ := encodeValRaw_cancel v w _ _ hv.1 hw.1 rv.1 rw_.1 h2
      obtain ⟨rfl, rfl⟩ := encodeValFields_cancel fs gs x y (by simpa using hl) hv.2 hw.2 rv.2 rw_.2 h3
      exact ⟨rfl, rfl⟩
end

end Mimium.Ffi
