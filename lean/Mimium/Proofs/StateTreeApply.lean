import Mimium.Proofs.StateTreeDiff
/-! `apply_patches`: pointwise characterisation, independence from iteration order. -/
namespace Mimium.StateTree

def Patch.covers (p : Patch) (k : Nat) : Prop := p.dst ≤ k ∧ k < p.dst + p.size

instance (p : Patch) (k : Nat) : Decidable (p.covers k) := by unfold Patch.covers; exact inferInstance

def Patch.DstDisjoint (p q : Patch) : Prop := p.dst + p.size ≤ q.dst ∨ q.dst + q.size ≤ p.dst

@[simp] theorem applyPatch_length (old new : List Nat) (p : Patch) : (applyPatch old new p).length = new.length := by
  simp [applyPatch]

@[simp] theorem applyPatches_length (old : List Nat) : ∀ (ps : List Patch) (new : List Nat),
    (applyPatches old new ps).length = new.length
  | [], new => by simp [applyPatches]
  | p :: ps, new => by
    have := applyPatches_length old ps (applyPatch old new p)
    simpa [applyPatches] using this

theorem applyPatch_getD (old new : List Nat) (p : Patch) (k : Nat) (hk : k < new.length) :
    (applyPatch old new p).getD k 0 =
      if p.covers k then old.getD (p.src + (k - p.dst)) 0 else new.getD k 0 := by
  simp [applyPatch, List.getD, hk, Patch.covers]

theorem applyPatches_cons (old new : List Nat) (p : Patch) (ps : List Patch) :
    applyPatches old new (p :: ps) = applyPatches old (applyPatch old new p) ps := by
  simp [applyPatches]

theorem applyPatches_not_covered (old : List Nat) (k : Nat) : ∀ (ps : List Patch) (new : List Nat),
    k < new.length → (∀ p ∈ ps, ¬ p.covers k) → (applyPatches old new ps).getD k 0 = new.getD k 0
  | [], new, _, _ => by simp [applyPatches]
  | p :: ps, new, hk, h => by
    rw [applyPatches_cons, applyPatches_not_covered old k ps _ (by simpa using hk)
        (fun q hq => h q (List.mem_cons_of_mem _ hq)), applyPatch_getD old new p k hk]
    simp [h p (List.mem_cons_self)]

theorem applyPatches_covered (old : List Nat) (k : Nat) : ∀ (ps : List Patch) (new : List Nat) (p : Patch),
    k < new.length → ps.Pairwise Patch.DstDisjoint → p ∈ ps → p.covers k →
      (applyPatches old new ps).getD k 0 = old.getD (p.src + (k - p.dst)) 0
  | [], _, _, _, _, hp, _ => by simp at hp
  | q :: ps, new, p, hk, hpw, hp, hc => by
    rw [applyPatches_cons]
    rw [List.pairwise_cons] at hpw
    rcases List.mem_cons.mp hp with rfl | hp'
    · -- `p` is applied first and nobody after it covers `k`
      rw [applyPatches_not_covered old k ps _ (by simpa using hk), applyPatch_getD old new p k hk]
      · simp [hc]
      · intro r hr hrk
        have := hpw.1 r hr
        simp only [Patch.DstDisjoint, Patch.covers] at *
        omega
    · exact applyPatches_covered old k ps _ p (by simpa using hk) hpw.2 hp' hc

theorem pairwise_mem_cases {α} {R : α → α → Prop} : ∀ {l : List α}, l.Pairwise R →
    ∀ a ∈ l, ∀ b ∈ l, a = b ∨ R a b ∨ R b a
  | [], _, a, ha, _, _ => by simp at ha
  | x :: xs, h, a, ha, b, hb => by
    rw [List.pairwise_cons] at h
    rcases List.mem_cons.mp ha with rfl | ha' <;> rcases List.mem_cons.mp hb with rfl | hb'
    · exact Or.inl rfl
    · exact Or.inr (Or.inl (h.1 b hb'))
    · exact Or.inr (Or.inr (h.1 a ha'))
    · exact pairwise_mem_cases h.2 a ha' b hb'

theorem sorted_dstDisjoint {ps : List Patch} (h : Sorted ps) : ps.Pairwise Patch.DstDisjoint :=
  h.imp (fun hpq => Or.inl hpq.2)

theorem DstDisjoint.symm {p q : Patch} (h : p.DstDisjoint q) : q.DstDisjoint p := Or.symm h

/-- the result of applying a destination-disjoint patch set does not depend on the order of application
(the Rust plan is a `HashSet` collected into a `Vec`) -/
theorem applyPatches_perm (old new : List Nat) {ps qs : List Patch} (hperm : ps.Perm qs)
    (hd : ps.Pairwise Patch.DstDisjoint) : applyPatches old new ps = applyPatches old new qs := by
  have hd' : qs.Pairwise Patch.DstDisjoint :=
    (hperm.pairwise_iff (fun {a b} h => DstDisjoint.symm h)).mp hd
  apply List.ext_getElem (by simp)
  intro k h1 h2
  have hk : k < new.length := by simpa using h1
  have e1 : (applyPatches old new ps)[k] = (applyPatches old new ps).getD k 0 := by
    rw [List.getD_eq_getElem?_getD, List.getElem?_eq_getElem h1]; rfl
  have e2 : (applyPatches old new qs)[k] = (applyPatches old new qs).getD k 0 := by
    rw [List.getD_eq_getElem?_getD, List.getElem?_eq_getElem h2]; rfl
  rw [e1, e2]
  by_cases hex : ∃ p ∈ ps, p.covers k
  · obtain ⟨p, hp, hc⟩ := hex
    rw [applyPatches_covered old k ps new p hk hd hp hc,
        applyPatches_covered old k qs new p hk hd' (hperm.subset hp) hc]
  · have hn : ∀ p ∈ ps, ¬ p.covers k := fun p hp hc => hex ⟨p, hp, hc⟩
    have hn' : ∀ p ∈ qs, ¬ p.covers k := fun p hp hc => hex ⟨p, hperm.symm.subset hp, hc⟩
    rw [applyPatches_not_covered old k ps new hk hn, applyPatches_not_covered old k qs new hk hn']

end Mimium.StateTree
