import Mimium.Proofs.CoreRename
/-!
# A declarative type system for the reference semantics `Model/Core` (definitions)

* `Ty`: numbers, tuples, function types;
* `HasType Φ Γ ρ e τ`: expression typing (Φ: signatures of the named functions, Γ: variables, ρ: type of `self` in the
  enclosing function, `none` inside a lambda body — closures run against a scratch state without `self`);
* `VT Φ Ψ v τ`: value typing under a store typing Ψ (a closure has type `fn τs τ` when its captured environment is
  typed by some context under Ψ and its body is typed in that context extended with the parameters);
* `EnvOK`, `StoreOK`: environment and store typing; `StOK`: typing of the per-call-site state tree;
* `calls`, `Agree`, `sitesUnique`: the call sites of an expression and the well-formedness premise on site identifiers.
The soundness proof is in `Proofs/CoreSound.lean`, the machine-level invariant in `Proofs/CoreSoundMachine.lean`.
-/
namespace Mimium.Core

/-- types: numbers, tuples, functions -/
inductive Ty | num | tup (ts : List Ty) | fn (args : List Ty) (ret : Ty)
deriving Repr, Inhabited

mutual
/-- number of output words of a value of this type (a closure occupies no output word, as in `flattenVal`) -/
def wordSize : Ty → Nat
  | .num => 1
  | .tup ts => wordSizeL ts
  | .fn _ _ => 0
def wordSizeL : List Ty → Nat
  | [] => 0
  | t :: ts => wordSize t + wordSizeL ts
end

mutual
/-- first-order value typing (no closures): independent of any store -/
inductive HasTy : Val → Ty → Prop
  | num (b : UInt64) : HasTy (.num b) .num
  | tup {vs : List Val} {ts : List Ty} : HasTys vs ts → HasTy (.tup vs) (.tup ts)
inductive HasTys : List Val → List Ty → Prop
  | nil : HasTys [] []
  | cons {v : Val} {t : Ty} {vs : List Val} {ts : List Ty} : HasTy v t → HasTys vs ts → HasTys (v :: vs) (t :: ts)
end

mutual
def tyOfShape : Shape → Ty
  | .num => .num
  | .tup ss => .tup (tyOfShapes ss)
def tyOfShapes : List Shape → List Ty
  | [] => []
  | s :: ss => tyOfShape s :: tyOfShapes ss
end

mutual
/-- first-order types: no function type anywhere -/
def Ty.fo : Ty → Bool
  | .num => true
  | .tup ts => foL ts
  | .fn _ _ => false
def foL : List Ty → Bool
  | [] => true
  | t :: ts => t.fo && foL ts
end

abbrev Ctx := List (String × Ty)
abbrev Sig := List (String × List Ty × Ty)

/-- the context after binding a parameter list / tuple pattern, mirroring `bindAll` (later names shadow earlier ones) -/
def bindCtx (Γ : Ctx) (xs : List String) (τs : List Ty) : Ctx :=
  match xs, τs with
  | x :: xs, τ :: τs => bindCtx ((x, τ) :: Γ) xs τs
  | _, _ => Γ

mutual
/-- `HasType Φ Γ ρ e τ`: under function signatures Φ, variable context Γ and `self` type ρ, `e` has type τ -/
inductive HasType (Φ : Sig) : Ctx → Option Ty → Expr → Ty → Prop
  | lit {Γ ρ b} : HasType Φ Γ ρ (.lit b) .num
  | var {Γ ρ x τ} : Γ.lookup x = some τ → HasType Φ Γ ρ (.var x) τ
  | un {Γ ρ op e} : HasType Φ Γ ρ e .num → HasType Φ Γ ρ (.un op e) .num
  | bin {Γ ρ op a b} : HasType Φ Γ ρ a .num → HasType Φ Γ ρ b .num → HasType Φ Γ ρ (.bin op a b) .num
  | ite {Γ ρ c a b τ} : HasType Φ Γ ρ c .num → HasType Φ Γ ρ a τ → HasType Φ Γ ρ b τ → HasType Φ Γ ρ (.ite c a b) τ
  | letE {Γ ρ x e body τ₁ τ} : HasType Φ Γ ρ e τ₁ → HasType Φ ((x, τ₁) :: Γ) ρ body τ → HasType Φ Γ ρ (.letE x e body) τ
  | letTup {Γ ρ xs e body τs τ} : HasType Φ Γ ρ e (.tup τs) → xs.length = τs.length →
      HasType Φ (bindCtx Γ xs τs) ρ body τ → HasType Φ Γ ρ (.letTup xs e body) τ
  | tup {Γ ρ es τs} : HasTypes Φ Γ ρ es τs → HasType Φ Γ ρ (.tup es) (.tup τs)
  | proj {Γ ρ e i τs τ} : HasType Φ Γ ρ e (.tup τs) → τs[i]? = some τ → HasType Φ Γ ρ (.proj e i) τ
  | call {Γ ρ f args site τs τ} : Φ.lookup f = some (τs, τ) → HasTypes Φ Γ ρ args τs → HasType Φ Γ ρ (.call f args site) τ
  | app {Γ ρ f args τs τ} : HasType Φ Γ ρ f (.fn τs τ) → HasTypes Φ Γ ρ args τs → HasType Φ Γ ρ (.app f args) τ
  | lam {Γ ρ ps body τs τ} : ps.length = τs.length → HasType Φ (bindCtx Γ ps τs) none body τ →
      HasType Φ Γ ρ (.lam ps body) (.fn τs τ)
  | self {Γ τ} : HasType Φ Γ (some τ) .self τ
  | mem {Γ ρ e site} : HasType Φ Γ ρ e .num → HasType Φ Γ ρ (.mem e site) .num
  | delay {Γ ρ n e t site} : HasType Φ Γ ρ e .num → HasType Φ Γ ρ t .num → HasType Φ Γ ρ (.delay n e t site) .num
  | now {Γ ρ} : HasType Φ Γ ρ .now .num
  | samplerate {Γ ρ} : HasType Φ Γ ρ .samplerate .num
  | assign {Γ ρ x e rest τx τ} : Γ.lookup x = some τx → HasType Φ Γ ρ e τx → HasType Φ Γ ρ rest τ →
      HasType Φ Γ ρ (.assign x e rest) τ
inductive HasTypes (Φ : Sig) : Ctx → Option Ty → List Expr → List Ty → Prop
  | nil {Γ ρ} : HasTypes Φ Γ ρ [] []
  | cons {Γ ρ e es τ τs} : HasType Φ Γ ρ e τ → HasTypes Φ Γ ρ es τs → HasTypes Φ Γ ρ (e :: es) (τ :: τs)
end

/-! ### call sites -/
mutual
/-- the `(site, callee)` pairs of all calls of named functions in an expression (lambda bodies included) -/
def calls : Expr → List (Nat × String)
  | .lit _ => []
  | .var _ => []
  | .un _ e => calls e
  | .bin _ a b => calls a ++ calls b
  | .ite c a b => calls c ++ (calls a ++ calls b)
  | .letE _ e b => calls e ++ calls b
  | .letTup _ e b => calls e ++ calls b
  | .tup es => callsL es
  | .proj e _ => calls e
  | .call f args site => (site, f) :: callsL args
  | .app f args => calls f ++ callsL args
  | .lam _ b => calls b
  | .self => []
  | .mem e _ => calls e
  | .delay _ e t _ => calls e ++ calls t
  | .now => []
  | .samplerate => []
  | .assign _ e r => calls e ++ calls r
def callsL : List Expr → List (Nat × String)
  | [] => []
  | e :: es => calls e ++ callsL es
end

mutual
/-- the identifiers of all stateful sites (`call`, `mem`, `delay`) of an expression, in textual order -/
def sites : Expr → List Nat
  | .lit _ => []
  | .var _ => []
  | .un _ e => sites e
  | .bin _ a b => sites a ++ sites b
  | .ite c a b => sites c ++ (sites a ++ sites b)
  | .letE _ e b => sites e ++ sites b
  | .letTup _ e b => sites e ++ sites b
  | .tup es => sitesL es
  | .proj e _ => sites e
  | .call _ args site => site :: sitesL args
  | .app f args => sites f ++ sitesL args
  | .lam _ b => sites b
  | .self => []
  | .mem e s => s :: sites e
  | .delay _ e t s => s :: (sites e ++ sites t)
  | .now => []
  | .samplerate => []
  | .assign _ e r => sites e ++ sites r
def sitesL : List Expr → List Nat
  | [] => []
  | e :: es => sites e ++ sitesL es
end

/-- what soundness needs of the site identifiers: two calls that share a site identifier name the same function -/
def Agree (C : List (Nat × String)) : Prop := ∀ k f g, (k, f) ∈ C → (k, g) ∈ C → f = g

/-- the generator's guarantee (decidable): the site identifiers of a body are pairwise distinct -/
def SitesUnique (e : Expr) : Prop := (sites e).Nodup

instance (e : Expr) : Decidable (SitesUnique e) := by unfold SitesUnique; infer_instance

/-! ### values, environments, stores -/

/-- every variable of Γ is bound by `env` to a location of its type -/
def EnvOK (Ψ : List Ty) (env : Env) (Γ : Ctx) : Prop :=
  ∀ x τ, Γ.lookup x = some τ → ∃ l, env.lookup x = some l ∧ Ψ[l]? = some τ

mutual
/-- value typing under the store typing Ψ -/
inductive VT (Φ : Sig) (Ψ : List Ty) : Val → Ty → Prop
  | num (b : UInt64) : VT Φ Ψ (.num b) .num
  | tup {vs : List Val} {ts : List Ty} : VTs Φ Ψ vs ts → VT Φ Ψ (.tup vs) (.tup ts)
  | clo {ps : List String} {body : Expr} {env : Env} {Γ : Ctx} {τs : List Ty} {τ : Ty} :
      EnvOK Ψ env Γ → ps.length = τs.length → HasType Φ (bindCtx Γ ps τs) none body τ → Agree (calls body) →
      VT Φ Ψ (.clo ps body env) (.fn τs τ)
inductive VTs (Φ : Sig) (Ψ : List Ty) : List Val → List Ty → Prop
  | nil : VTs Φ Ψ [] []
  | cons {v : Val} {t : Ty} {vs : List Val} {ts : List Ty} : VT Φ Ψ v t → VTs Φ Ψ vs ts → VTs Φ Ψ (v :: vs) (t :: ts)
end

/-- the store has exactly the locations of Ψ and every location holds a value of its type -/
def StoreOK (Φ : Sig) (Ψ : List Ty) (σ : Store) : Prop :=
  σ.length = Ψ.length ∧ ∀ (l : Nat) v τ, σ[l]? = some v → Ψ[l]? = some τ → VT Φ Ψ v τ

/-! ### state trees -/

/-- the `self` type of a declared function -/
def FnDecl.selfTy (d : FnDecl) : Option Ty := d.selfShape.map tyOfShape

/-- typing of the state of a function instance whose body has the call sites `C` and `self` type ρ: the stored previous
return value (if any) has type ρ; the child instance stored at a site belongs to the function called there -/
inductive StOK (P : Prog) : List (Nat × String) → Option Ty → SNode → Prop
  | mk {C : List (Nat × String)} {ρ : Option Ty} {s : Option Val} {cells : List (Nat × SCell)} :
      (∀ τ v, ρ = some τ → s = some v → HasTy v τ) →
      (∀ k n f d, lookupCell cells k = some (.child n) → (k, f) ∈ C → findFn P.fns f = some d →
        StOK P (calls d.body) d.selfTy n) →
      StOK P C ρ (.mk s cells)

/-- … and while the instance runs, `self` is present whenever the body may mention it -/
def RunOK (P : Prog) (C : List (Nat × String)) (ρ : Option Ty) (st : SNode) : Prop :=
  StOK P C ρ st ∧ (ρ.isSome = true → st.selfv.isSome = true)

/-! ### programs -/

/-- a declared function against its signature -/
structure FnOK (Φ : Sig) (Γg : Ctx) (d : FnDecl) (τs : List Ty) (τ : Ty) : Prop where
  arity : d.params.length = τs.length
  body : HasType Φ (bindCtx Γg d.params τs) d.selfTy d.body τ
  selfRet : ∀ sh, d.selfShape = some sh → τ = tyOfShape sh
  agree : Agree (calls d.body)

/-- global initialisers, in order; each sees the earlier globals, has a first-order type and calls no named function
(signature list `[]`): in the model a named function sees the locations of ALL globals, so a call made while the globals
are still being initialised could read a location that does not hold its global yet -/
inductive GlobalsOK : Ctx → List (String × Expr) → List Ty → Prop
  | nil {Γ} : GlobalsOK Γ [] []
  | cons {Γ x e gs τ τs} : HasType [] Γ none e τ → τ.fo = true → GlobalsOK ((x, τ) :: Γ) gs τs →
      GlobalsOK Γ ((x, e) :: gs) (τ :: τs)

/-- the context of the globals -/
def globalCtx (P : Prog) (Ψg : List Ty) : Ctx := bindCtx [] (P.globals.map (·.1)) Ψg

/-- `WellTyped Φ Ψg τout P`: the globals have the (first-order) types Ψg; every function that Φ gives a signature is
declared and its body checks against that signature (with `selfShape` agreeing with the return type, and call sites
agreeing); `dsp` takes numbers and returns `τout`. -/
structure WellTyped (Φ : Sig) (Ψg : List Ty) (τout : Ty) (P : Prog) : Prop where
  globals : GlobalsOK [] P.globals Ψg
  fns : ∀ f τs τ, Φ.lookup f = some (τs, τ) → ∃ d, findFn P.fns f = some d ∧ FnOK Φ (globalCtx P Ψg) d τs τ
  dsp : FnOK Φ (globalCtx P Ψg) P.dsp (List.replicate P.dsp.params.length .num) τout

end Mimium.Core
