import Mimium.Proofs.UnifySoundWalk
/-! Soundness of `go`: a call that answers `Ok(_)` (or `Err(vec![])`) leaves a store in which its arguments are `Len`-related. -/
namespace Mimium.Unify
open Mimium.Occurs (parent Acyclic)

section
variable {u ua : U} (hgu : Good u) (hsu : Sound u false) (hgua : Good ua) (hsua : Sound ua true)
include hgu hsu

omit hgu in
theorem structuralD_sound (σ σ' : Store) (hσ : Acyclic (absS σ)) (t1r t2r : Ty) (r : Res)
    (h : structuralD u σ t1r t2r = some (σ', r)) (hq : quiet r = true) : Len σ' false t1r t2r := by
  unfold structuralD at h
  split at h
  · rename_i n1 n2 e1 e2
    have := asSum_eq e1; have := asSum_eq e2; subst_vars
    split at h
    · rename_i hn; subst hn; exact .refl _ _
    · simp only [Option.some.injEq, Prod.mk.injEq] at h; obtain ⟨_, rfl⟩ := h; simp [quiet] at hq
  · split at h
    · rename_i b1 b2 e1 e2
      have := asBoxed_eq e1; have := asBoxed_eq e2; subst_vars
      exact .boxed (hsu σ _ _ _ _ hσ h hq)
    · rename_i inner e1 _
      have := asBoxed_eq e1; subst_vars
      split at h
      · cases h
      · rename_i σ1 x hc
        simp only [Option.some.injEq, Prod.mk.injEq] at h; obtain ⟨rfl, _⟩ := h
        exact .boxedL (hsu σ _ _ _ _ hσ hc rfl)
      · simp only [Option.some.injEq, Prod.mk.injEq] at h; obtain ⟨_, rfl⟩ := h; simp [quiet] at hq
    · rename_i inner _ e2
      have := asBoxed_eq e2; subst_vars
      split at h
      · cases h
      · rename_i σ1 x hc
        simp only [Option.some.injEq, Prod.mk.injEq] at h; obtain ⟨rfl, _⟩ := h
        exact .boxedR (hsu σ _ _ _ _ hσ hc rfl)
      · simp only [Option.some.injEq, Prod.mk.injEq] at h; obtain ⟨_, rfl⟩ := h; simp [quiet] at hq
    · simp only [Option.some.injEq, Prod.mk.injEq] at h; obtain ⟨_, rfl⟩ := h; simp [quiet] at hq

theorem structuralC_sound (σ σ' : Store) (hσ : Acyclic (absS σ)) (t1r t2r : Ty) (r : Res)
    (h : structuralC u σ t1r t2r = some (σ', r)) (hq : quiet r = true) : Len σ' false t1r t2r := by
  have hfirst : ∀ (a : Ty) (σ : Store) (m : Ty), Acyclic (absS σ) → Pres σ (u σ a m) := fun a σ m hσ => hgu σ a m hσ
  unfold structuralC at h
  split at h
  · rename_i p1 p2 e1 e2
    have := asCode_eq e1; have := asCode_eq e2; subst_vars
    exact .code (hsu σ _ _ _ _ hσ h hq)
  · split at h
    · -- (Union, Union)
      rename_i us1 us2 e1 e2
      have := asUnion_eq e1; have := asUnion_eq e2; subst_vars
      split at h
      · simp only [Option.some.injEq, Prod.mk.injEq] at h; obtain ⟨_, rfl⟩ := h; simp [quiet] at hq
      · rename_i hlen
        have hlen : us1.length = us2.length := by simpa using hlen
        split at h
        · cases h
        · rename_i σ1 hall
          simp only [Option.some.injEq, Prod.mk.injEq] at h; obtain ⟨rfl, _⟩ := h
          have hin : ∀ σ m, Acyclic (absS σ) → Pres σ (firstHit (fun σ m2 => u σ m m2) isIdent σ us2) :=
            fun σ m hσ => firstHit_pres (fun σ m2 hσ => hgu σ m m2 hσ) isIdent us2 σ hσ
          have hex : ∀ m ∈ us1, ∃ m2, m2 ∈ us2 ∧ Len σ1 false m m2 := by
            intro m hm
            obtain ⟨σa, σb, ha, hfh, hext⟩ := allOf_all hin us1 σ σ1 hσ hall m hm
            obtain ⟨m2, hm2, σc, rr, hc, hcall, hhit⟩ := firstHit_hit (fun σ m2 hσ => hgu σ m m2 hσ) isIdent us2 σa σb ha hfh
            exact ⟨m2, hm2, (hsu σc _ _ _ _ hc hcall (quiet_of_isIdent hhit)).mono hext⟩
          classical
          let pick : Ty → Ty := fun m => if hm : m ∈ us1 then Classical.choose (hex m hm) else m
          refine .unionBoth pick hlen ?_ ?_
          · intro m hm
            have := (Classical.choose_spec (hex m hm)).1
            simpa [pick, hm] using this
          · intro m hm
            have := (Classical.choose_spec (hex m hm)).2
            simpa [pick, hm] using this
        · simp only [Option.some.injEq, Prod.mk.injEq] at h; obtain ⟨_, rfl⟩ := h; simp [quiet] at hq
    · -- (_, Union)
      rename_i us2 _ e2
      have := asUnion_eq e2; subst_vars
      split at h
      · cases h
      · rename_i σ1 hfh
        simp only [Option.some.injEq, Prod.mk.injEq] at h; obtain ⟨rfl, _⟩ := h
        obtain ⟨m, hm, σc, rr, hc, hcall, hhit⟩ := firstHit_hit (fun σ m hσ => hgu σ t1r m hσ) isOk us2 σ σ1 hσ hfh
        exact .unionR hm (hsu σc _ _ _ _ hc hcall (quiet_of_isOk hhit))
      · simp only [Option.some.injEq, Prod.mk.injEq] at h; obtain ⟨_, rfl⟩ := h; simp [quiet] at hq
    · -- (Union, _)
      rename_i us1 e1 _
      have := asUnion_eq e1; subst_vars
      split at h
      · cases h
      · rename_i σ1 hall
        simp only [Option.some.injEq, Prod.mk.injEq] at h; obtain ⟨rfl, _⟩ := h
        refine .unionL ?_
        intro m hm
        obtain ⟨σa, σb, ha, hcall, hext⟩ :=
          allOf_all (fun σ m hσ => pres_map hgu σ hσ m t2r isOk) us1 σ σ1 hσ hall m hm
        cases hc : u σa m t2r with
        | none => simp [hc] at hcall
        | some o =>
          obtain ⟨σx, rr⟩ := o
          simp only [hc, Option.some.injEq, Prod.mk.injEq] at hcall
          obtain ⟨rfl, hok⟩ := hcall
          exact (hsu σa _ _ _ _ ha hc (quiet_of_isOk hok)).mono hext
      · simp only [Option.some.injEq, Prod.mk.injEq] at h; obtain ⟨_, rfl⟩ := h; simp [quiet] at hq
    · exact structuralD_sound hsu σ σ' hσ t1r t2r r h hq

omit hgu hsu in
theorem lift_roots {σ σ' : Store} (he : Ext σ σ') {k : Bool} {t1 t2 t1r t2r : Ty} (c1 : Chain σ t1 t1r) (c2 : Chain σ t2 t2r)
    (h : Len σ' k t1r t2r) : Len σ' k t1 t2 := Len.chainL (c1.mono he) (Len.chainR (c2.mono he) h)

include hgu hsu in
theorem structuralB_sound (σ σ' : Store) (hσ : Acyclic (absS σ)) (t1 t2 t1r t2r : Ty) (c1 : Chain σ t1 t1r) (c2 : Chain σ t2 t2r) (r : Res)
    (h : structuralB u σ t1 t2 t1r t2r = some (σ', r)) (hq : quiet r = true) : Len σ' false t1 t2 := by
  have he : Ext σ σ' := (structuralB_pres hgu σ hσ t1 t2 t1r t2r σ' r h).2
  unfold structuralB at h
  split at h
  · rename_i hc
    simp only [Option.some.injEq, Prod.mk.injEq] at h; obtain ⟨rfl, _⟩ := h
    refine lift_roots he c1 c2 ?_
    obtain ⟨p, rfl, rfl⟩ := samePrim_eq hc
    exact .refl _ _
  · split at h
    · rename_i hc
      simp only [Option.some.injEq, Prod.mk.injEq] at h; obtain ⟨rfl, _⟩ := h
      refine lift_roots he c1 c2 ?_
      obtain ⟨p, rfl, rfl⟩ := sameScheme_eq hc
      exact .refl _ _
    · split at h
      · simp only [Option.some.injEq, Prod.mk.injEq] at h; obtain ⟨_, rfl⟩ := h; simp [quiet] at hq
      · split at h
        · rename_i hc
          simp only [Option.some.injEq, Prod.mk.injEq] at h; obtain ⟨rfl, _⟩ := h
          refine lift_roots he c1 c2 ?_
          simp only [Bool.or_eq_true, Bool.and_eq_true] at hc
          rcases hc with ⟨a, b⟩ | ⟨a, b⟩
          · rw [isUnit_eq a, isTuple0_eq b]; exact .unitTuple0
          · rw [isTuple0_eq a, isUnit_eq b]; exact .tuple0Unit
        · split at h
          · rename_i v e2
            have := asTuple1_eq e2; subst this
            exact Len.chainR (c2.mono he) (.tuple1R (hsu σ _ _ _ _ hσ h hq))
          · split at h
            · rename_i v e1
              have := asTuple1_eq e1; subst this
              exact Len.chainL (c1.mono he) (.tuple1L (hsu σ _ _ _ _ hσ h hq))
            · split at h
              · rename_i hc
                simp only [Option.some.injEq, Prod.mk.injEq] at h; obtain ⟨rfl, _⟩ := h
                refine lift_roots he c1 c2 ?_
                simp only [Bool.or_eq_true, Bool.and_eq_true] at hc
                rcases hc with ⟨a, b⟩ | ⟨a, b⟩
                · rw [isUnit_eq a, isRecord0_eq b]; exact .unitRecord0
                · rw [isRecord0_eq a, isUnit_eq b]; exact .record0Unit
              · split at h
                · rename_i hc
                  simp only [Option.some.injEq, Prod.mk.injEq] at h; obtain ⟨rfl, _⟩ := h
                  refine lift_roots he c1 c2 ?_
                  simp only [Bool.or_eq_true] at hc
                  rcases hc with a | b
                  · rw [isFailure_eq a]; exact .failureL _
                  · rw [isAny_eq b]; exact .anyR _
                · split at h
                  · rename_i hc
                    simp only [Option.some.injEq, Prod.mk.injEq] at h; obtain ⟨rfl, _⟩ := h
                    refine lift_roots he c1 c2 ?_
                    simp only [Bool.or_eq_true] at hc
                    rcases hc with a | b
                    · rw [isAny_eq a]; exact .anyL _
                    · rw [isFailure_eq b]; exact .failureR _
                  · exact lift_roots he c1 c2 (structuralC_sound hgu hsu σ σ' hσ t1r t2r r h hq)

omit hgu hsu in
theorem fnVerdict_quiet {a b : Res} (h : quiet (fnVerdict a b) = true) : quiet a = true ∧ quiet b = true := by
  cases a with
  | ok x =>
    cases b with
    | ok y => cases x <;> cases y <;> simp_all [fnVerdict, quiet]
    | error e => cases x <;> simp_all [fnVerdict, quiet]
  | error e1 =>
    cases b with
    | ok y => simp_all [fnVerdict, quiet]
    | error e2 =>
      simp only [fnVerdict, quiet, List.isEmpty_iff, List.append_eq_nil_iff] at h ⊢
      exact h

omit hgu in
theorem arrayArm_sound (σ σ' : Store) (hσ : Acyclic (absS σ)) (a1 a2 : Ty) (r : Res)
    (h : arrayArm u σ a1 a2 = some (σ', r)) (hq : quiet r = true) : Len σ' false a1 a2 := by
  unfold arrayArm at h
  split at h
  · cases h
  · rename_i σ1 hc
    simp only [Option.some.injEq, Prod.mk.injEq] at h; obtain ⟨rfl, _⟩ := h
    exact hsu σ _ _ _ _ hσ hc rfl
  · simp only [Option.some.injEq, Prod.mk.injEq] at h; obtain ⟨_, rfl⟩ := h; simp [quiet] at hq
  · rename_i σ1 e hc
    simp only [Option.some.injEq, Prod.mk.injEq] at h; obtain ⟨rfl, rfl⟩ := h
    exact hsu σ _ _ _ _ hσ hc hq

omit hgu hsu in
theorem tupleArm_sound (σ σ' : Store) (a1 a2 : List Ty) (r : Res)
    (h : tupleArm u σ a1 a2 = some (σ', r)) (hq : quiet r = true) : a1.length = a2.length := by
  unfold tupleArm at h
  split at h
  · assumption
  · simp only [Option.some.injEq, Prod.mk.injEq] at h; obtain ⟨_, rfl⟩ := h; simp [quiet] at hq

include hgu hsu hsua in
theorem fnArm_sound (σ σ' : Store) (hσ : Acyclic (absS σ)) (a1 r1 a2 r2 : Ty) (r : Res)
    (h : fnArm u ua σ a1 r1 a2 r2 = some (σ', r)) (hq : quiet r = true) (hgua : Good ua) :
    Len σ' true a1 a2 ∧ Len σ' false r1 r2 := by
  unfold fnArm at h
  cases h1 : ua σ a1 a2 with
  | none => simp [h1] at h
  | some o1 =>
    obtain ⟨σ1, x⟩ := o1
    have i1 := hgua σ _ _ hσ σ1 x h1
    simp only [h1] at h
    cases h2 : u σ1 r1 r2 with
    | none => simp [h2] at h
    | some o2 =>
      obtain ⟨σ2, y⟩ := o2
      have i2 := hgu σ1 _ _ i1.1 σ2 y h2
      simp only [h2, Option.some.injEq, Prod.mk.injEq] at h
      obtain ⟨rfl, rfl⟩ := h
      obtain ⟨qa, qb⟩ := fnVerdict_quiet hq
      exact ⟨(hsua σ _ _ _ _ hσ h1 qa).mono i2.2, hsu σ1 _ _ _ _ i1.1 h2 qb⟩

include hgu hsu hsua in
theorem structural_sound (hgua : Good ua) (σ σ' : Store) (hσ : Acyclic (absS σ)) (t1 t2 t1r t2r : Ty) (c1 : Chain σ t1 t1r)
    (c2 : Chain σ t2 t2r) (r : Res) (h : structural u ua σ t1 t2 t1r t2r = some (σ', r)) (hq : quiet r = true) : Len σ' false t1 t2 := by
  have he : Ext σ σ' := (structural_pres hgu hgua σ hσ t1 t2 t1r t2r σ' r h).2
  unfold structural at h
  split at h
  · rename_i x1 x2 e1 e2
    have := asArray_eq e1; have := asArray_eq e2; subst_vars
    exact lift_roots he c1 c2 (.array (arrayArm_sound hsu σ σ' hσ _ _ r h hq))
  · split at h
    · rename_i x1 x2 e1 e2
      have := asRef_eq e1; have := asRef_eq e2; subst_vars
      exact lift_roots he c1 c2 (.ref (hsu σ _ _ _ _ hσ h hq))
    · split at h
      · rename_i x1 x2 e1 e2
        have := asTuple_eq e1; have := asTuple_eq e2; subst_vars
        exact lift_roots he c1 c2 (.tupleSameLength (tupleArm_sound σ σ' _ _ r h hq))
      · split at h
        · rename_i x1 x2 e1 e2
          have := asRecord_eq e1; have := asRecord_eq e2; subst_vars
          exact lift_roots he c1 c2 (.record (recordArm_sound hgu hsu σ σ' hσ _ _ r h hq))
        · split at h
          · rename_i arg1 ret1 arg2 ret2 e1 e2
            have := asFn_eq e1; have := asFn_eq e2; subst_vars
            obtain ⟨la, lr⟩ := fnArm_sound hgu hsu hsua σ σ' hσ _ _ _ _ r h hq hgua
            exact lift_roots he c1 c2 (.fn la lr)
          · exact structuralB_sound hgu hsu σ σ' hσ t1 t2 t1r t2r c1 c2 r h hq

include hgu hsu hsua in
theorem argsTail_sound (hgua : Good ua) (σ σ' : Store) (hσ : Acyclic (absS σ)) (t1 t2 t1r t2r : Ty) (c1 : Chain σ t1 t1r)
    (c2 : Chain σ t2 t2r) (r : Res) (h : argsTail u ua σ t1 t2 t1r t2r = some (σ', r)) (hq : quiet r = true) : Len σ' true t1 t2 := by
  have he : Ext σ σ' := (argsTail_pres hgu hgua σ hσ t1 t2 t1r t2r σ' r h).2
  unfold argsTail at h
  split at h
  · rename_i kvs e1 _
    have := asRecord_eq e1; subst this
    exact Len.chainL (c1.mono he) (.argsRecordTuple (hsua σ _ _ _ _ hσ h hq))
  · split at h
    · rename_i hc
      simp only [Bool.and_eq_true] at hc
      obtain ⟨as, rfl⟩ := isTuple_eq hc.1
      obtain ⟨fs, rfl⟩ := isRecord_eq hc.2
      exact .argsSwap (c1.mono he) (c2.mono he) (hsua σ _ _ _ _ hσ h hq)
    · split at h
      · rename_i us e1
        have := asUnion_eq e1; subst this
        split at h
        · cases h
        · rename_i σ1 hfh
          simp only [Option.some.injEq, Prod.mk.injEq] at h; obtain ⟨rfl, _⟩ := h
          obtain ⟨m, hm, σc, rr, hc, hcall, hhit⟩ := firstHit_hit (fun σ m hσ => hgua σ m t2r hσ) isOk us σ σ1 hσ hfh
          exact lift_roots he c1 c2 (.argsUnionL hm (hsua σc _ _ _ _ hc hcall (quiet_of_isOk hhit)))
        · simp only [Option.some.injEq, Prod.mk.injEq] at h; obtain ⟨_, rfl⟩ := h; simp [quiet] at hq
      · exact .args (hsu σ _ _ _ _ hσ h hq)

include hgu hsu hsua in
theorem argsHead_sound (hgua : Good ua) (σ σ' : Store) (hσ : Acyclic (absS σ)) (t1 t2 t1r t2r : Ty) (c1 : Chain σ t1 t1r)
    (c2 : Chain σ t2 t2r) (r : Res) (out : Out) (h : argsHead u ua σ t1 t2 t1r t2r = some out) (ho : out = some (σ', r))
    (hq : quiet r = true) : Len σ' true t1 t2 := by
  have he : Ext σ σ' := (argsHead_pres hgu hgua σ hσ t1 t2 t1r t2r out h σ' r ho).2
  unfold argsHead at h
  split at h
  · simp only [Option.some.injEq] at h; subst h
    exact .args (hsu σ _ _ _ _ hσ ho hq)
  · split at h
    · rename_i fl e1
      have := asRecord1_eq e1; subst this
      simp only [Option.some.injEq] at h; subst h
      exact Len.chainL (c1.mono he) (.argsRecord1L (hsua σ _ _ _ _ hσ ho hq))
    · split at h
      · rename_i fl e2
        simp only [Option.some.injEq] at h; subst h
        split at e2
        · rename_i fl' e2'
          have := asRecord1_eq e2'; subst this
          split at e2
          · cases e2
          · rename_i hd
            simp only [Option.some.injEq] at e2; subst e2
            exact Len.chainR (c2.mono he) (.argsRecord1R (by simpa using hd) (hsua σ _ _ _ _ hσ ho hq))
        · cases e2
      · split at h
        · rename_i v e2
          have := asTuple1_eq e2; subst this
          simp only [Option.some.injEq] at h; subst h
          exact Len.chainR (c2.mono he) (.argsTuple1R (hsua σ _ _ _ _ hσ ho hq))
        · split at h
          · rename_i v e1
            have := asTuple1_eq e1; subst this
            simp only [Option.some.injEq] at h; subst h
            exact Len.chainL (c1.mono he) (.argsTuple1L (hsua σ _ _ _ _ hσ ho hq))
          · cases h

end

theorem parent_cons_self (σ : Store) (v : Nat) (t : Ty) : parent ((v, t) :: σ) v = some t := by simp [parent]

/-- the three variable arms: the two roots are related in the store they leave -/
theorem varArms_sound (g : Nat) (k : Bool) (σ σ' : Store) (t2 t1r t2r : Ty) (out : Out) (r : Res)
    (h : varArms g σ t2 t1r t2r = some out) (ho : out = some (σ', r)) (hq : quiet r = true) : Len σ' k t1r t2r := by
  subst ho
  unfold varArms at h
  split at h
  · rename_i v1 v2 e1 e2
    have := asVar_eq e1; have := asVar_eq e2; subst_vars
    simp only [Option.some.injEq] at h
    unfold varVar at h
    split at h
    · rename_i hv; subst hv; exact .refl _ _
    · split at h
      · cases h
      · simp only [Option.some.injEq, Prod.mk.injEq] at h; obtain ⟨_, rfl⟩ := h; simp [quiet] at hq
      · split at h
        · simp only [Option.some.injEq, Prod.mk.injEq] at h; obtain ⟨rfl, _⟩ := h
          exact .varR (parent_cons_self _ _ _) (.refl _ _)
        · simp only [Option.some.injEq, Prod.mk.injEq] at h; obtain ⟨rfl, _⟩ := h
          exact .varL (parent_cons_self _ _ _) (.refl _ _)
  · rename_i v1 e1 _
    have := asVar_eq e1; subst this
    simp only [Option.some.injEq] at h
    unfold bind at h
    split at h
    · cases h
    · simp only [Option.some.injEq, Prod.mk.injEq] at h; obtain ⟨_, rfl⟩ := h; simp [quiet] at hq
    · simp only [Option.some.injEq, Prod.mk.injEq] at h; obtain ⟨rfl, _⟩ := h
      exact .varL (parent_cons_self _ _ _) (.refl _ _)
  · rename_i v2 _ e2
    have := asVar_eq e2; subst this
    simp only [Option.some.injEq] at h
    unfold bind at h
    split at h
    · cases h
    · simp only [Option.some.injEq, Prod.mk.injEq] at h; obtain ⟨_, rfl⟩ := h; simp [quiet] at hq
    · simp only [Option.some.injEq, Prod.mk.injEq] at h; obtain ⟨rfl, _⟩ := h
      exact .varR (parent_cons_self _ _ _) (.refl _ _)
  · cases h

/-- SOUNDNESS of both unification functions, every arm, any fuel -/
theorem go_sound (g : Nat) : ∀ (f : Nat) (args : Bool), Sound (go g f args) args := by
  intro f
  induction f with
  | zero => intro args σ a b σ' r _ h; simp [go] at h
  | succ f ih =>
    intro args σ t1 t2 σ' r hσ h hq
    have gf := go_good g f false
    have gt := go_good g f true
    cases args with
    | false =>
      simp only [go] at h
      split at h
      · rename_i t1r t2r hr1 hr2
        have c1 := chain_of_root σ g t1 t1r hr1
        have c2 := chain_of_root σ g t2 t2r hr2
        split at h
        · rename_i out hv
          have he := (varArms_pres g hσ g g t1 t2 t1r t2r hr1 hr2 out hv σ' r h).2
          exact lift_roots he c1 c2 (varArms_sound g false σ σ' t2 t1r t2r out r hv h hq)
        · exact structural_sound gf (ih false) (ih true) gt σ σ' hσ t1 t2 t1r t2r c1 c2 r h hq
      · cases h
    | true =>
      simp only [go] at h
      split at h
      · rename_i t1r t2r hr1 hr2
        have c1 := chain_of_root σ g t1 t1r hr1
        have c2 := chain_of_root σ g t2 t2r hr2
        split at h
        · rename_i out hh
          exact argsHead_sound gf (ih false) (ih true) gt σ σ' hσ t1 t2 t1r t2r c1 c2 r out hh h hq
        · split at h
          · rename_i out hv
            have he := (varArms_pres g hσ g g t1 t2 t1r t2r hr1 hr2 out hv σ' r h).2
            exact lift_roots he c1 c2 (varArms_sound g true σ σ' t2 t1r t2r out r hv h hq)
          · exact argsTail_sound gf (ih false) (ih true) gt σ σ' hσ t1 t2 t1r t2r c1 c2 r h hq
      · cases h

end Mimium.Unify
