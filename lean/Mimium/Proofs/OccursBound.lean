import Mimium.Proofs.OccursSound
import Mimium.Model.OccursSeq
/-! An EXPLICIT fuel bound for `occ` and `root` on acyclic stores: `size t + total σ` resp. `σ.length + 1`.
Idea: after following the pointer of `w` the recursion never meets `w` again (no cycle), so it runs as if the entries of `w`
were erased from the store — and the erased store is smaller. -/
namespace Mimium.Occurs

theorem size_pos (t : Ty) : 0 < size t := by cases t <;> simp [size]

/-- drop every entry of `w` -/
def eraseVar (w : Nat) : Store → Store
  | [] => []
  | (u, t) :: rest => if u = w then eraseVar w rest else (u, t) :: eraseVar w rest

theorem parent_eraseVar (w : Nat) (σ : Store) (u : Nat) :
    parent (eraseVar w σ) u = if u = w then none else parent σ u := by
  induction σ with
  | nil => simp [eraseVar, parent]
  | cons e rest ih =>
    obtain ⟨x, t⟩ := e
    by_cases hx : x = w
    · simp only [eraseVar, hx, if_true, parent]
      rw [ih]
      by_cases hu : u = w
      · simp [hu]
      · have : ¬ w = u := fun h => hu h.symm
        simp [hu, this]
    · simp only [eraseVar, hx, if_false, parent]
      rw [ih]
      by_cases hu : u = w
      · subst hu
        simp [hx]
      · simp [hu]

theorem eraseVar_length_le (w : Nat) (σ : Store) : (eraseVar w σ).length ≤ σ.length := by
  induction σ with
  | nil => simp [eraseVar]
  | cons e rest ih =>
    obtain ⟨x, t⟩ := e
    simp only [eraseVar]
    split <;> simp <;> omega

theorem eraseVar_length_lt (w : Nat) (σ : Store) (p : Ty) (h : parent σ w = some p) :
    (eraseVar w σ).length < σ.length := by
  induction σ with
  | nil => simp [parent] at h
  | cons e rest ih =>
    obtain ⟨x, t⟩ := e
    simp only [parent] at h
    by_cases hx : x = w
    · simp only [eraseVar, hx, if_true, List.length_cons]
      have := eraseVar_length_le w rest
      omega
    · simp only [hx, if_false] at h
      simp only [eraseVar, hx, if_false, List.length_cons]
      have := ih h
      omega

theorem total_eraseVar_le (w : Nat) (σ : Store) : total (eraseVar w σ) ≤ total σ := by
  induction σ with
  | nil => simp [eraseVar]
  | cons e rest ih =>
    obtain ⟨x, t⟩ := e
    simp only [eraseVar]
    split <;> simp only [total] <;> omega

theorem total_eraseVar (w : Nat) (σ : Store) (p : Ty) (h : parent σ w = some p) :
    total (eraseVar w σ) + size p ≤ total σ := by
  induction σ with
  | nil => simp [parent] at h
  | cons e rest ih =>
    obtain ⟨x, t⟩ := e
    simp only [parent] at h
    by_cases hx : x = w
    · simp only [hx, if_true, Option.some.injEq] at h
      subst h
      simp only [eraseVar, hx, if_true, total]
      have := total_eraseVar_le w rest
      omega
    · simp only [hx, if_false] at h
      simp only [eraseVar, hx, if_false, total]
      have := ih h
      omega

theorem acyclic_eraseVar (w : Nat) (σ : Store) (h : Acyclic σ) : Acyclic (eraseVar w σ) := by
  obtain ⟨rk, hrk⟩ := h
  refine ⟨rk, ?_⟩
  intro v t hp
  rw [parent_eraseVar] at hp
  split at hp
  · cases hp
  · exact hrk v t hp

/-- LOCALITY: `occ` only reads the parents of variables reachable from the type -/
theorem occ_congr (σ σ' : Store) (q : Bool) (id1 : Nat) : ∀ (fuel : Nat) (t : Ty),
    (∀ w ∈ vars t, ∀ u, RV σ w u → parent σ u = parent σ' u) → occ σ q id1 fuel t = occ σ' q id1 fuel t := by
  intro fuel
  induction fuel with
  | zero => intro t _; simp [occ]
  | succ f ih =>
    intro t h
    cases t with
    | other => simp [occ]
    | var w =>
      have hw : parent σ w = parent σ' w := h w (by simp [vars]) w (.refl w)
      simp only [occ]
      rw [← hw]
      cases hp : parent σ w with
      | none => rfl
      | some p =>
        simp only
        rw [ih p (fun w' hw' u hu => h w (by simp [vars]) u (.step hp hw' hu))]
    | unary t =>
      simp only [occ]
      exact ih t (fun w hw => h w (by simpa [vars] using hw))
    | anyOf a b =>
      simp only [occ]
      rw [ih a (fun w hw => h w (by simp [vars, hw])), ih b (fun w hw => h w (by simp [vars, hw]))]
    | fn a r =>
      simp only [occ]
      rw [ih a (fun w hw => h w (by simp [vars, hw])), ih r (fun w hw => h w (by simp [vars, hw]))]

/-- after following the pointer of `w` on an acyclic store, the entries of `w` are never read again -/
theorem occ_eraseVar (σ : Store) (h : Acyclic σ) (q : Bool) (id1 w : Nat) (p : Ty) (hp : parent σ w = some p) (fuel : Nat) :
    occ σ q id1 fuel p = occ (eraseVar w σ) q id1 fuel p := by
  apply occ_congr
  intro w' hw' u hu
  rw [parent_eraseVar]
  have hne : u ≠ w := by
    intro e
    subst e
    exact not_rv_of_acyclic h hp hw' hu
  simp [hne]

/-- EXPLICIT BOUND: on an acyclic store `occur_check(id1, t)` returns within `size t + total σ` nested calls. -/
theorem occ_bound (q : Bool) (id1 : Nat) : ∀ (n : Nat) (σ : Store), σ.length = n → Acyclic σ →
    ∀ (t : Ty) (fuel : Nat), size t + total σ ≤ fuel → ∃ b, occ σ q id1 fuel t = some b := by
  intro n
  induction n using Nat.strongRecOn with
  | _ n ihn =>
    intro σ hlen hac t
    induction t with
    | other =>
      intro fuel hf
      cases fuel with
      | zero => simp [size] at hf
      | succ f => exact ⟨false, by simp [occ]⟩
    | var w =>
      intro fuel hf
      cases fuel with
      | zero => simp [size] at hf
      | succ f =>
        simp only [occ]
        cases hp : parent σ w with
        | none => exact ⟨_, rfl⟩
        | some p =>
          simp only
          by_cases he : id1 = w
          · exact ⟨true, by simp [he]⟩
          · simp only [he, if_false]
            rw [occ_eraseVar σ hac q id1 w p hp f]
            have hlt := eraseVar_length_lt w σ p hp
            have htot := total_eraseVar w σ p hp
            simp only [size] at hf
            exact ihn _ (by omega) (eraseVar w σ) rfl (acyclic_eraseVar w σ hac) p f (by omega)
    | unary t iht =>
      intro fuel hf
      cases fuel with
      | zero => simp [size] at hf
      | succ f =>
        simp only [occ]
        simp only [size] at hf
        exact iht f (by omega)
    | anyOf a b iha ihb =>
      intro fuel hf
      cases fuel with
      | zero => simp [size] at hf
      | succ f =>
        simp only [size] at hf
        obtain ⟨xa, ha⟩ := iha f (by omega)
        obtain ⟨xb, hb⟩ := ihb f (by omega)
        simp only [occ, ha, hb]
        cases xa
        · exact ⟨_, rfl⟩
        · exact ⟨_, rfl⟩
    | fn a r iha ihr =>
      intro fuel hf
      cases fuel with
      | zero => simp [size] at hf
      | succ f =>
        simp only [size] at hf
        obtain ⟨xa, ha⟩ := iha f (by omega)
        obtain ⟨xr, hr⟩ := ihr f (by omega)
        simp only [occ, ha, hr]
        cases q <;> cases xa <;> exact ⟨_, rfl⟩

theorem occ_total_bound (σ : Store) (h : Acyclic σ) (q : Bool) (id1 : Nat) (t : Ty) (fuel : Nat)
    (hf : size t + total σ ≤ fuel) : ∃ b, occ σ q id1 fuel t = some b :=
  occ_bound q id1 σ.length σ rfl h t fuel hf

/-! ## `get_root` -/

theorem root_congr (σ σ' : Store) : ∀ (fuel : Nat) (t : Ty),
    (∀ w ∈ vars t, ∀ u, RV σ w u → parent σ u = parent σ' u) → root σ fuel t = root σ' fuel t := by
  intro fuel
  induction fuel with
  | zero => intro t _; simp [root]
  | succ f ih =>
    intro t h
    cases t with
    | var w =>
      have hw : parent σ w = parent σ' w := h w (by simp [vars]) w (.refl w)
      simp only [root]
      rw [← hw]
      cases hp : parent σ w with
      | none => rfl
      | some p =>
        simp only
        rw [ih p (fun w' hw' u hu => h w (by simp [vars]) u (.step hp hw' hu))]
    | other => simp [root]
    | unary t => simp [root]
    | anyOf a b => simp [root]
    | fn a r => simp [root]

/-- EXPLICIT BOUND: on an acyclic store `get_root` follows at most one pointer per entry. -/
theorem root_bound : ∀ (n : Nat) (σ : Store), σ.length = n → Acyclic σ →
    ∀ (t : Ty) (fuel : Nat), σ.length + 1 ≤ fuel → ∃ r, root σ fuel t = some r := by
  intro n
  induction n using Nat.strongRecOn with
  | _ n ihn =>
    intro σ hlen hac t fuel hf
    cases fuel with
    | zero => omega
    | succ f =>
      cases t with
      | var w =>
        simp only [root]
        cases hp : parent σ w with
        | none => exact ⟨_, rfl⟩
        | some p =>
          simp only
          have e : root σ f p = root (eraseVar w σ) f p := by
            apply root_congr
            intro w' hw' u hu
            rw [parent_eraseVar]
            have hne : u ≠ w := by
              intro e
              subst e
              exact not_rv_of_acyclic hac hp hw' hu
            simp [hne]
          rw [e]
          have hlt := eraseVar_length_lt w σ p hp
          exact ihn _ (by omega) (eraseVar w σ) rfl (acyclic_eraseVar w σ hac) p f (by omega)
      | other => exact ⟨_, rfl⟩
      | unary t => exact ⟨_, rfl⟩
      | anyOf a b => exact ⟨_, rfl⟩
      | fn a r => exact ⟨_, rfl⟩

theorem root_total_bound (σ : Store) (h : Acyclic σ) (t : Ty) (fuel : Nat) (hf : σ.length + 1 ≤ fuel) :
    ∃ r, root σ fuel t = some r :=
  root_bound σ.length σ rfl h t fuel hf

/-- a root that is a variable is unbound -/
theorem root_var_unbound (σ : Store) : ∀ (fuel : Nat) (t : Ty) (v : Nat), root σ fuel t = some (.var v) → parent σ v = none := by
  intro fuel
  induction fuel with
  | zero => intro t v h; simp [root] at h
  | succ f ih =>
    intro t v h
    cases t with
    | var w =>
      simp only [root] at h
      cases hp : parent σ w with
      | none =>
        simp only [hp, Option.some.injEq, Ty.var.injEq] at h
        subst h
        exact hp
      | some p =>
        simp only [hp] at h
        exact ih p v h
    | other => simp [root] at h
    | unary t => simp [root] at h
    | anyOf a b => simp [root] at h
    | fn a r => simp [root] at h

/-- the root is the type itself, a variable, or some parent of the store: its size is bounded by what bounds those -/
theorem root_size (σ : Store) (B : Nat) (hB : ∀ v p, parent σ v = some p → size p ≤ B) :
    ∀ (fuel : Nat) (t r : Ty), size t ≤ B → root σ fuel t = some r → size r ≤ B := by
  intro fuel
  induction fuel with
  | zero => intro t r _ h; simp [root] at h
  | succ f ih =>
    intro t r ht h
    cases t with
    | var w =>
      simp only [root] at h
      cases hp : parent σ w with
      | none =>
        simp only [hp, Option.some.injEq] at h
        subst h
        exact ht
      | some p =>
        simp only [hp] at h
        exact ih p r (hB w p hp) h
    | other => simp only [root, Option.some.injEq] at h; subst h; exact ht
    | unary t => simp only [root, Option.some.injEq] at h; subst h; exact ht
    | anyOf a b => simp only [root, Option.some.injEq] at h; subst h; exact ht
    | fn a r' => simp only [root, Option.some.injEq] at h; subst h; exact ht

theorem root_fuel_succ (σ : Store) : ∀ (fuel : Nat) (t r : Ty), root σ fuel t = some r → root σ (fuel + 1) t = some r := by
  intro fuel
  induction fuel with
  | zero => intro t r h; simp [root] at h
  | succ f ih =>
    intro t r h
    cases t with
    | var w =>
      simp only [root] at h ⊢
      cases hp : parent σ w with
      | none => simpa [hp] using h
      | some p =>
        simp only [hp] at h ⊢
        exact ih p r h
    | other => simpa [root] using h
    | unary t => simpa [root] using h
    | anyOf a b => simpa [root] using h
    | fn a r' => simpa [root] using h

theorem root_fuel_mono (σ : Store) (fuel : Nat) (t r : Ty) (h : root σ fuel t = some r) (fuel' : Nat) (hf : fuel ≤ fuel') :
    root σ fuel' t = some r := by
  obtain ⟨k, rfl⟩ := Nat.exists_eq_add_of_le hf
  induction k with
  | zero => exact h
  | succ k ih => exact root_fuel_succ σ (fuel + k) t r (ih (by omega))

theorem occ_fuel_le (σ : Store) (q : Bool) (id1 : Nat) (fuel : Nat) (t : Ty) (b : Bool)
    (h : occ σ q id1 fuel t = some b) (fuel' : Nat) (hf : fuel ≤ fuel') : occ σ q id1 fuel' t = some b := by
  obtain ⟨k, rfl⟩ := Nat.exists_eq_add_of_le hf
  exact occ_fuel_mono σ q id1 fuel t b h k

end Mimium.Occurs
