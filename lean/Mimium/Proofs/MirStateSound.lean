import Mimium.Proofs.MirStateBase
/-! Soundness of the static check `stateOkFn`: every run of a checked function in the MIR semantics performs exactly the
accesses of its layout at the cursor it was called with, and returns the cursor. -/
namespace Mimium.Mir
open Mimium.StateMachine Mimium.Layout Mimium.StateTree Mimium.RustGen

/-- what a call of a checked function does to the storage it runs in -/
def CallSpec (P : Prog) (ok : List Nat) (callF : CallF) : Prop :=
  ∀ g ∈ ok, ∀ ws clo glob st tr out glob' st' tr', callF g ws clo glob st tr = .ok (out, glob', st', tr') →
    ∃ f, P.fns[g]? = some f ∧ tr' = tr ++ expectedTrace f.sk st.pos ∧ st'.pos = st.pos

/-- concretisation of an abstract state for a run that started at cursor `b` with trace `tr0` -/
structure Rel (b : Nat) (tr0 exp : List Access) (a : Abs) (s : MSt) : Prop where
  pos : s.st.pos = b + a.off
  tr : s.tr = tr0 ++ (exp.take a.k).map (shiftAcc b)

def LcOk (lc : Option (Nat × Nat)) (s : MSt) : Prop :=
  ∀ r w, lc = some (r, w) → ∀ x, readWord s.rest (.reg r) = .ok x → x.toNat = w

theorem lcOk_none (s : MSt) : LcOk none s := by intro r w h; simp at h

theorem take_succ_of_get {exp : List Access} {k : Nat} {x : Access} (h : exp[k]? = some x) :
    exp.take (k + 1) = exp.take k ++ [x] := by
  rw [List.take_add_one, h]; rfl

/-! ### reading back the word a `Uinteger` just defined -/

theorem readWord_bind_const (s : RSt) (d : Nat) (w : UInt64) (hd : d < s.fr.regs.size) :
    readWord (bind s d [w]) (.reg d) = .ok w := by
  simp only [readWord, readOpd, regOf, Mir.bind, Array.getElem?_setIfInBounds_self_of_lt hd]
  simp only [readN, Array.size_append, List.size_toArray, List.length_cons, List.length_nil]
  simp [Bind.bind, Except.bind, ← Array.length_toList]

theorem readWord_bind_const' (s : RSt) (d : Nat) (w x : UInt64) (h : readWord (bind s d [w]) (.reg d) = .ok x) : x = w := by
  by_cases hd : d < s.fr.regs.size
  · rw [readWord_bind_const s d w hd] at h
    exact (Except.ok.inj h).symm
  · have hnone : (s.fr.regs.setIfInBounds d (some ⟨s.g.mem.size, 1⟩))[d]? = none := by
      rw [Array.getElem?_eq_none]; simpa using hd
    simp [readWord, readOpd, regOf, Mir.bind, hnone, Bind.bind, Except.bind] at h

/-! ### one non-terminator instruction -/

theorem absStep_sound {P : Prog} {ok : List Nat} {callF : CallF} (hspec : CallSpec P ok callF)
    {b : Nat} {tr0 exp : List Access} {lc lc' : Option (Nat × Nat)} {a a' : Abs} {i : Ins} {s s' : MSt}
    (habs : absStep P ok exp lc a i = some (a', lc')) (hrel : Rel b tr0 exp a s) (hlc : LcOk lc s)
    (hstep : stepIns callF P i s = .ok s') : Rel b tr0 exp a' s' ∧ LcOk lc' s' := by
  cases i with
  | const d w =>
    simp only [absStep, Option.some.injEq, Prod.mk.injEq] at habs
    obtain ⟨ha, hl⟩ := habs
    subst ha; subst hl
    have hst := stepIns_plain (i := .const d w) rfl hstep
    refine ⟨⟨by rw [hst.1]; exact hrel.pos, by rw [hst.2]; exact hrel.tr⟩, ?_⟩
    intro r v hrv x hx
    simp only [Option.some.injEq, Prod.mk.injEq] at hrv
    obtain ⟨h1, h2⟩ := hrv
    subst h1; subst h2
    simp only [stepIns, stepRest, stepCore, res, applyEff, Except.ok.injEq, Bind.bind, Except.bind] at hstep
    subst hstep
    have := readWord_bind_const' s.rest d w x (by simpa [MSt.rest, MSt.withRest] using hx)
    rw [this]
  | push n =>
    simp only [absStep, Option.some.injEq, Prod.mk.injEq] at habs
    obtain ⟨ha, hl⟩ := habs
    subst ha; subst hl
    simp only [stepIns, Bind.bind, Except.bind] at hstep
    cases hop : stateOp s (.push n) with
    | error e => simp [hop] at hstep
    | ok p =>
      obtain ⟨s1, out⟩ := p
      simp only [hop, Except.ok.injEq] at hstep
      subst hstep
      obtain ⟨_, _, htr, hvm⟩ := stateOp_ok hop
      refine ⟨⟨?_, ?_⟩, lcOk_none _⟩
      · rw [vmStep_push hvm, hrel.pos]; simp only []; omega
      · rw [htr, hrel.tr]; simp [accessOf]
  | pop n =>
    simp only [absStep] at habs
    split at habs
    · rename_i hn
      simp only [Option.some.injEq, Prod.mk.injEq] at habs
      obtain ⟨ha, hl⟩ := habs
      subst ha; subst hl
      simp only [stepIns, Bind.bind, Except.bind] at hstep
      cases hop : stateOp s (.pop n) with
      | error e => simp [hop] at hstep
      | ok p =>
        obtain ⟨s1, out⟩ := p
        simp only [hop, Except.ok.injEq] at hstep
        subst hstep
        obtain ⟨_, _, htr, hvm⟩ := stateOp_ok hop
        refine ⟨⟨?_, ?_⟩, lcOk_none _⟩
        · rw [(vmStep_pop hvm).2, hrel.pos]; simp only []; omega
        · rw [htr, hrel.tr]; simp [accessOf]
    · simp at habs
  | getState d n =>
    simp only [absStep] at habs
    split at habs
    · rename_i hexp
      simp only [Option.some.injEq, Prod.mk.injEq] at habs
      obtain ⟨ha, hl⟩ := habs
      subst ha; subst hl
      simp only [stepIns, Bind.bind, Except.bind] at hstep
      cases hop : stateOp s (.get n) with
      | error e => simp [hop] at hstep
      | ok p =>
        obtain ⟨s1, out⟩ := p
        simp only [hop, Except.ok.injEq] at hstep
        subst hstep
        obtain ⟨_, _, htr, hvm⟩ := stateOp_ok hop
        refine ⟨⟨?_, ?_⟩, lcOk_none _⟩
        · show s1.st.pos = b + a.off
          rw [vmStep_get hvm, hrel.pos]
        · show s1.tr = _
          rw [htr, hrel.tr, take_succ_of_get hexp]
          simp [accessOf, shiftAcc, hrel.pos, Nat.add_comm]
    · simp at habs
  | mem d src =>
    simp only [absStep] at habs
    split at habs
    · rename_i hexp
      simp only [Option.some.injEq, Prod.mk.injEq] at habs
      obtain ⟨ha, hl⟩ := habs
      subst ha; subst hl
      simp only [stepIns, Bind.bind, Except.bind] at hstep
      cases hx : readWord s.rest src with
      | error e => simp [hx] at hstep
      | ok x =>
        simp only [hx] at hstep
        cases hop : stateOp s (.mem x) with
        | error e => simp [hop] at hstep
        | ok p =>
          obtain ⟨s1, out⟩ := p
          simp only [hop, Except.ok.injEq] at hstep
          subst hstep
          obtain ⟨_, _, htr, hvm⟩ := stateOp_ok hop
          refine ⟨⟨?_, ?_⟩, lcOk_none _⟩
          · show s1.st.pos = b + a.off
            rw [vmStep_mem hvm, hrel.pos]
          · show s1.tr = _
            rw [htr, hrel.tr, take_succ_of_get hexp]
            simp [accessOf, shiftAcc, hrel.pos, Nat.add_comm]
    · simp at habs
  | delay d len src time =>
    simp only [absStep] at habs
    split at habs
    · rename_i hexp
      simp only [Option.some.injEq, Prod.mk.injEq] at habs
      obtain ⟨ha, hl⟩ := habs
      subst ha; subst hl
      simp only [stepIns, Bind.bind, Except.bind] at hstep
      cases hx : readWord s.rest src with
      | error e => simp [hx] at hstep
      | ok x =>
        simp only [hx] at hstep
        cases ht : readWord s.rest time with
        | error e => simp [ht] at hstep
        | ok t =>
          simp only [ht] at hstep
          cases hop : stateOp s (.delay len x t) with
          | error e => simp [hop] at hstep
          | ok p =>
            obtain ⟨s1, out⟩ := p
            simp only [hop, Except.ok.injEq] at hstep
            subst hstep
            obtain ⟨_, _, htr, hvm⟩ := stateOp_ok hop
            refine ⟨⟨?_, ?_⟩, lcOk_none _⟩
            · show s1.st.pos = b + a.off
              rw [vmStep_delay hvm, hrel.pos]
            · show s1.tr = _
              rw [htr, hrel.tr, take_succ_of_get hexp]
              simp [accessOf, shiftAcc, hrel.pos, Nat.add_comm]
    · simp at habs
  | call dst f args nret =>
    cases f with
    | reg r =>
      simp only [absStep] at habs
      split at habs
      · rename_i r' g
        split at habs
        · rename_i hrg
          split at habs
          · rename_i fg hfg
            split at habs
            · rename_i heq
              simp only [Option.some.injEq, Prod.mk.injEq] at habs
              obtain ⟨ha, hl⟩ := habs
              subst ha; subst hl
              simp only [stepIns, Bind.bind, Except.bind] at hstep
              cases hargs : readArgs s.rest args with
              | error e => simp [hargs] at hstep
              | ok ws =>
                simp only [hargs] at hstep
                cases hw : readWord s.rest (.reg r) with
                | error e => simp [hw] at hstep
                | ok w =>
                  simp only [hw] at hstep
                  have hwg : w.toNat = g := hlc r' g (by rfl) w (by rw [hrg.1]; exact hw)
                  cases hcall : callF w.toNat ws none s.g s.st s.tr with
                  | error e => simp [hcall] at hstep
                  | ok res =>
                    obtain ⟨out, g', st', tr'⟩ := res
                    simp only [hcall] at hstep
                    split at hstep
                    · simp at hstep
                    · simp only [Except.ok.injEq] at hstep
                      subst hstep
                      rw [hwg] at hcall
                      obtain ⟨f', hf', htr', hpos'⟩ := hspec g hrg.2 ws none s.g s.st s.tr out g' st' tr' hcall
                      rw [hfg] at hf'
                      have hff : fg = f' := Option.some.inj hf'
                      subst hff
                      refine ⟨⟨?_, ?_⟩, lcOk_none _⟩
                      · show st'.pos = b + a.off
                        rw [hpos', hrel.pos]
                      · show tr' = _
                        rw [htr', hrel.tr, hrel.pos, expected_at fg.sk (b + a.off), List.take_add, heq]
                        simp only [List.map_append, List.map_map, List.append_assoc, List.length_map]
                        congr 2
                        apply List.map_congr_left
                        intro x _
                        simp [shiftAcc, Nat.add_assoc, Nat.add_comm a.off b]
            · simp at habs
          · simp at habs
        · simp at habs
      · simp at habs
    | _ =>
      simp only [absStep, Option.some.injEq, Prod.mk.injEq] at habs
      obtain ⟨ha, hl⟩ := habs
      subst ha; subst hl
      have hst := stepIns_plain (by rfl) hstep
      exact ⟨⟨by rw [hst.1]; exact hrel.pos, by rw [hst.2]; exact hrel.tr⟩, lcOk_none _⟩
  | _ =>
    simp only [absStep, Option.some.injEq, Prod.mk.injEq] at habs
    obtain ⟨ha, hl⟩ := habs
    subst ha; subst hl
    have hst := stepIns_plain (by rfl) hstep
    exact ⟨⟨by rw [hst.1]; exact hrel.pos, by rw [hst.2]; exact hrel.tr⟩, lcOk_none _⟩

end Mimium.Mir
