import Mimium.Proofs.FfiSoundPrim
import Mimium.Proofs.FfiTrunc
/-!
Soundness of the `FfiValue` decoder (C20): whatever `decode` accepts — at any fuel, from any byte string — is the
encoding of a representable value `w` followed by the unread rest, and the value returned is `w.norm` (`w` with its
slotmap keys normalised).  Together with `decode_encode` this characterises the decoder completely:

  `decodeBytes bs = some (v, rest)  ↔  ∃ w, w.Rep ∧ bs = encode w ++ rest ∧ v = w.norm`.

Everything else (keys of a decoded value are valid, re-encoding decodes to itself, the consumed prefix determines the
value, fuel is unobservable on *every* input) is a corollary.
-/
namespace Mimium.Ffi
open Mimium.Gen.Ffi

/-- all three decoders at once, by induction on the fuel -/
theorem decode_sound_all (f : Nat) :
    (∀ bs v r, decode f bs = some (v, r) → ∃ w : FfiValue, w.Rep ∧ bs = encode w ++ r ∧ v = w.norm) ∧
    (∀ n bs vs r, decodeList f n bs = some (vs, r) →
      ∃ ws, ws.length = n ∧ RepList ws ∧ bs = encodeList ws ++ r ∧ vs = normList ws) ∧
    (∀ n bs fs r, decodeFields f n bs = some (fs, r) →
      ∃ ws, ws.length = n ∧ RepFields ws ∧ bs = encodeFields ws ++ r ∧ fs = normFields ws) := by
  induction f with
  | zero =>
    refine ⟨?_, ?_, ?_⟩
    · intro bs v r h; simp [decode] at h
    · intro n bs vs r h
      cases n with
      | zero =>
        simp [decodeList] at h; obtain ⟨rfl, rfl⟩ := h
        exact ⟨[], rfl, trivial, by simp [encodeList], by simp [normList]⟩
      | succ n => simp [decodeList] at h
    · intro n bs fs r h
      cases n with
      | zero =>
        simp [decodeFields] at h; obtain ⟨rfl, rfl⟩ := h
        exact ⟨[], rfl, trivial, by simp [encodeFields], by simp [normFields]⟩
      | succ n => simp [decodeFields] at h
  | succ f ih =>
    obtain ⟨ihd, ihl, ihf⟩ := ih
    refine ⟨?_, ?_, ?_⟩
    · intro bs v r h
      unfold decode at h
      cases h1 : readU32 bs with
      | none => simp [h1] at h
      | some p =>
        obtain ⟨t, r1⟩ := p
        simp only [h1] at h
        have e1 := readU32_sound h1
        cases h2 : FfiCtor.ofTag t with
        | none => simp [h2] at h
        | some c =>
          simp only [h2] at h
          have et := FfiCtor.tag_of_ofTag h2
          subst et
          cases c with
          | ErrorV =>
            simp at h; obtain ⟨rfl, rfl⟩ := h
            exact ⟨.errorV, trivial, by rw [e1]; simp [encode], by simp [FfiValue.norm]⟩
          | Unit =>
            simp at h; obtain ⟨rfl, rfl⟩ := h
            exact ⟨.unit, trivial, by rw [e1]; simp [encode], by simp [FfiValue.norm]⟩
          | Number =>
            simp only at h
            cases h3 : readU64 r1 with
            | none => simp [h3] at h
            | some q =>
              obtain ⟨b, r2⟩ := q
              simp only [h3] at h
              simp at h; obtain ⟨rfl, rfl⟩ := h
              refine ⟨.number b, trivial, ?_, by simp [FfiValue.norm]⟩
              rw [e1, readU64_sound h3]; simp [encode]
          | String =>
            simp only at h
            cases h3 : readStr r1 with
            | none => simp [h3] at h
            | some q =>
              obtain ⟨s, r2⟩ := q
              simp only [h3] at h
              simp at h; obtain ⟨rfl, rfl⟩ := h
              obtain ⟨hs, e2⟩ := readStr_sound h3
              refine ⟨.string s, hs, ?_, by simp [FfiValue.norm]⟩
              rw [e1, e2]; simp [encode]
          | Array =>
            simp only at h
            cases h3 : readLen r1 with
            | none => simp [h3] at h
            | some q =>
              obtain ⟨n, r2⟩ := q
              simp only [h3] at h
              cases h4 : decodeList f n r2 with
              | none => simp [h4] at h
              | some q2 =>
                obtain ⟨vs, r3⟩ := q2
                simp only [h4] at h
                simp at h; obtain ⟨rfl, rfl⟩ := h
                obtain ⟨hn, e2⟩ := readLen_sound h3
                obtain ⟨ws, hl, hrep, e3, rfl⟩ := ihl _ _ _ _ h4
                subst hl
                refine ⟨.array ws, ⟨hn, hrep⟩, ?_, by simp [FfiValue.norm]⟩
                rw [e1, e2, e3]; simp [encode]
          | Tuple =>
            simp only at h
            cases h3 : readLen r1 with
            | none => simp [h3] at h
            | some q =>
              obtain ⟨n, r2⟩ := q
              simp only [h3] at h
              cases h4 : decodeList f n r2 with
              | none => simp [h4] at h
              | some q2 =>
                obtain ⟨vs, r3⟩ := q2
                simp only [h4] at h
                simp at h; obtain ⟨rfl, rfl⟩ := h
                obtain ⟨hn, e2⟩ := readLen_sound h3
                obtain ⟨ws, hl, hrep, e3, rfl⟩ := ihl _ _ _ _ h4
                subst hl
                refine ⟨.tuple ws, ⟨hn, hrep⟩, ?_, by simp [FfiValue.norm]⟩
                rw [e1, e2, e3]; simp [encode]
          | Record =>
            simp only at h
            cases h3 : readLen r1 with
            | none => simp [h3] at h
            | some q =>
              obtain ⟨n, r2⟩ := q
              simp only [h3] at h
              cases h4 : decodeFields f n r2 with
              | none => simp [h4] at h
              | some q2 =>
                obtain ⟨vs, r3⟩ := q2
                simp only [h4] at h
                simp at h; obtain ⟨rfl, rfl⟩ := h
                obtain ⟨hn, e2⟩ := readLen_sound h3
                obtain ⟨ws, hl, hrep, e3, rfl⟩ := ihf _ _ _ _ h4
                subst hl
                refine ⟨.record ws, ⟨hn, hrep⟩, ?_, by simp [FfiValue.norm]⟩
                rw [e1, e2, e3]; simp [encode]
          | Code =>
            simp only at h
            cases h3 : readKey r1 with
            | none => simp [h3] at h
            | some q =>
              obtain ⟨k, r2⟩ := q
              simp only [h3] at h
              simp at h; obtain ⟨rfl, rfl⟩ := h
              obtain ⟨k0, rfl, e2⟩ := readKey_sound h3
              refine ⟨.code k0, trivial, ?_, by simp [FfiValue.norm]⟩
              rw [e1, e2]; simp [encode]
          | TaggedUnion =>
            simp only at h
            cases h3 : readU64 r1 with
            | none => simp [h3] at h
            | some q =>
              obtain ⟨b, r2⟩ := q
              simp only [h3] at h
              cases h4 : decode f r2 with
              | none => simp [h4] at h
              | some q2 =>
                obtain ⟨x, r3⟩ := q2
                simp only [h4] at h
                simp at h; obtain ⟨rfl, rfl⟩ := h
                obtain ⟨w, hrep, e3, rfl⟩ := ihd _ _ _ h4
                refine ⟨.taggedUnion b w, hrep, ?_, by simp [FfiValue.norm]⟩
                rw [e1, readU64_sound h3, e3]; simp [encode]
    · intro n bs vs r h
      cases n with
      | zero =>
        simp [decodeList] at h; obtain ⟨rfl, rfl⟩ := h
        exact ⟨[], rfl, trivial, by simp [encodeList], by simp [normList]⟩
      | succ n =>
        simp only [decodeList] at h
        cases h1 : decode f bs with
        | none => simp [h1] at h
        | some p =>
          obtain ⟨v, r1⟩ := p
          simp only [h1] at h
          cases h2 : decodeList f n r1 with
          | none => simp [h2] at h
          | some q =>
            obtain ⟨xs, r2⟩ := q
            simp only [h2] at h
            simp at h; obtain ⟨rfl, rfl⟩ := h
            obtain ⟨w, hw, e1, rfl⟩ := ihd _ _ _ h1
            obtain ⟨ws, hl, hws, e2, rfl⟩ := ihl _ _ _ _ h2
            refine ⟨w :: ws, by simp [hl], ⟨hw, hws⟩, ?_, by simp [normList]⟩
            rw [e1, e2]; simp [encodeList]
    · intro n bs fs r h
      cases n with
      | zero =>
        simp [decodeFields] at h; obtain ⟨rfl, rfl⟩ := h
        exact ⟨[], rfl, trivial, by simp [encodeFields], by simp [normFields]⟩
      | succ n =>
        simp only [decodeFields] at h
        cases h0 : readStr bs with
        | none => simp [h0] at h
        | some p0 =>
          obtain ⟨k, r0⟩ := p0
          simp only [h0] at h
          cases h1 : decode f r0 with
          | none => simp [h1] at h
          | some p =>
            obtain ⟨v, r1⟩ := p
            simp only [h1] at h
            cases h2 : decodeFields f n r1 with
            | none => simp [h2] at h
            | some q =>
              obtain ⟨xs, r2⟩ := q
              simp only [h2] at h
              simp at h; obtain ⟨rfl, rfl⟩ := h
              obtain ⟨hk, e0⟩ := readStr_sound h0
              obtain ⟨w, hw, e1, rfl⟩ := ihd _ _ _ h1
              obtain ⟨ws, hl, hws, e2, rfl⟩ := ihf _ _ _ _ h2
              refine ⟨(k, w) :: ws, by simp [hl], ⟨hk, hw, hws⟩, ?_, by simp [normFields]⟩
              rw [e0, e1, e2]; simp [encodeFields]

theorem decode_sound {f : Nat} {bs r : Bytes} {v : FfiValue} (h : decode f bs = some (v, r)) :
    ∃ w : FfiValue, w.Rep ∧ bs = encode w ++ r ∧ v = w.norm := (decode_sound_all f).1 bs v r h

/-! ### `norm` is a projection that keeps representability -/

mutual
theorem FfiValue.norm_norm (v : FfiValue) : v.norm.norm = v.norm := by
  cases v with
  | array vs => simp [FfiValue.norm, normList_normList vs]
  | tuple vs => simp [FfiValue.norm, normList_normList vs]
  | record fs => simp [FfiValue.norm, normFields_normFields fs]
  | taggedUnion t v => simp [FfiValue.norm, FfiValue.norm_norm v]
  | code e => simp [FfiValue.norm, Key.norm_norm]
  | errorV => simp [FfiValue.norm]
  | unit => simp [FfiValue.norm]
  | number _ => simp [FfiValue.norm]
  | string _ => simp [FfiValue.norm]
theorem normList_normList (vs : List FfiValue) : normList (normList vs) = normList vs := by
  cases vs with
  | nil => simp [normList]
  | cons v vs => simp [normList, FfiValue.norm_norm v, normList_normList vs]
theorem normFields_normFields (fs : List (String × FfiValue)) : normFields (normFields fs) = normFields fs := by
  cases fs with
  | nil => simp [normFields]
  | cons kv fs =>
    obtain ⟨k, v⟩ := kv
    simp [normFields, FfiValue.norm_norm v, normFields_normFields fs]
end

mutual
theorem normList_length (vs : List FfiValue) : (normList vs).length = vs.length := by
  cases vs with
  | nil => simp [normList]
  | cons v vs => simp [normList, normList_length vs]
theorem normFields_length (fs : List (String × FfiValue)) : (normFields fs).length = fs.length := by
  cases fs with
  | nil => simp [normFields]
  | cons kv fs => obtain ⟨k, v⟩ := kv; simp [normFields, normFields_length fs]
end

mutual
theorem FfiValue.rep_norm (v : FfiValue) (h : v.Rep) : v.norm.Rep := by
  cases v with
  | array vs =>
    simp only [FfiValue.Rep] at h
    simp only [FfiValue.norm, FfiValue.Rep, normList_length]; exact ⟨h.1, repList_norm vs h.2⟩
  | tuple vs =>
    simp only [FfiValue.Rep] at h
    simp only [FfiValue.norm, FfiValue.Rep, normList_length]; exact ⟨h.1, repList_norm vs h.2⟩
  | record fs =>
    simp only [FfiValue.Rep] at h
    simp only [FfiValue.norm, FfiValue.Rep, normFields_length]; exact ⟨h.1, repFields_norm fs h.2⟩
  | taggedUnion t v =>
    simp only [FfiValue.Rep] at h
    simp only [FfiValue.norm, FfiValue.Rep]; exact FfiValue.rep_norm v h
  | code e => simp [FfiValue.norm, FfiValue.Rep]
  | errorV => simp [FfiValue.norm, FfiValue.Rep]
  | unit => simp [FfiValue.norm, FfiValue.Rep]
  | number _ => simp [FfiValue.norm, FfiValue.Rep]
  | string _ => simpa [FfiValue.norm, FfiValue.Rep] using h
theorem repList_norm (vs : List FfiValue) (h : RepList vs) : RepList (normList vs) := by
  cases vs with
  | nil => simp [normList, RepList]
  | cons v vs =>
    simp only [RepList] at h
    simp only [normList, RepList]; exact ⟨FfiValue.rep_norm v h.1, repList_norm vs h.2⟩
theorem repFields_norm (fs : List (String × FfiValue)) (h : RepFields fs) : RepFields (normFields fs) := by
  cases fs with
  | nil => simp [normFields, RepFields]
  | cons kv fs =>
    obtain ⟨k, v⟩ := kv
    simp only [RepFields] at h
    simp only [normFields, RepFields]; exact ⟨h.1, FfiValue.rep_norm v h.2.1, repFields_norm fs h.2.2⟩
end

mutual
theorem FfiValue.keysValid_norm (v : FfiValue) : v.norm.KeysValid := by
  cases v with
  | array vs => simp only [FfiValue.norm, FfiValue.KeysValid]; exact keysValidList_norm vs
  | tuple vs => simp only [FfiValue.norm, FfiValue.KeysValid]; exact keysValidList_norm vs
  | record fs => simp only [FfiValue.norm, FfiValue.KeysValid]; exact keysValidFields_norm fs
  | taggedUnion t v => simp only [FfiValue.norm, FfiValue.KeysValid]; exact FfiValue.keysValid_norm v
  | code e => simp only [FfiValue.norm, FfiValue.KeysValid, Key.Valid]; exact Key.norm_norm e
  | errorV => simp [FfiValue.norm, FfiValue.KeysValid]
  | unit => simp [FfiValue.norm, FfiValue.KeysValid]
  | number _ => simp [FfiValue.norm, FfiValue.KeysValid]
  | string _ => simp [FfiValue.norm, FfiValue.KeysValid]
theorem keysValidList_norm (vs : List FfiValue) : KeysValidList (normList vs) := by
  cases vs with
  | nil => simp [normList, KeysValidList]
  | cons v vs => simp only [normList, KeysValidList]; exact ⟨FfiValue.keysValid_norm v, keysValidList_norm vs⟩
theorem keysValidFields_norm (fs : List (String × FfiValue)) : KeysValidFields (normFields fs) := by
  cases fs with
  | nil => simp [normFields, KeysValidFields]
  | cons kv fs =>
    obtain ⟨k, v⟩ := kv
    simp only [normFields, KeysValidFields]; exact ⟨FfiValue.keysValid_norm v, keysValidFields_norm fs⟩
end

mutual
/-- `encode` writes the same number of bytes for a value and its normal form (only version words differ) -/
theorem encode_norm_length (v : FfiValue) : (encode v.norm).length = (encode v).length := by
  cases v with
  | array vs => simp [FfiValue.norm, encode, normList_length, encodeList_norm_length vs]
  | tuple vs => simp [FfiValue.norm, encode, normList_length, encodeList_norm_length vs]
  | record fs => simp [FfiValue.norm, encode, normFields_length, encodeFields_norm_length fs]
  | taggedUnion t v => simp [FfiValue.norm, encode, encode_norm_length v]
  | code e => simp [FfiValue.norm, encode, encKey_length]
  | errorV => simp [FfiValue.norm]
  | unit => simp [FfiValue.norm]
  | number _ => simp [FfiValue.norm]
  | string _ => simp [FfiValue.norm]
theorem encodeList_norm_length (vs : List FfiValue) : (encodeList (normList vs)).length = (encodeList vs).length := by
  cases vs with
  | nil => simp [normList]
  | cons v vs => simp [normList, encodeList, encode_norm_length v, encodeList_norm_length vs]
theorem encodeFields_norm_length (fs : List (String × FfiValue)) :
    (encodeFields (normFields fs)).length = (encodeFields fs).length := by
  cases fs with
  | nil => simp [normFields]
  | cons kv fs =>
    obtain ⟨k, v⟩ := kv
    simp [normFields, encodeFields, encode_norm_length v, encodeFields_norm_length fs]
end

/-! ### corollaries: complete characterisation, fuel -/

/-- the decoder accepts exactly the encodings of representable values (followed by anything) -/
theorem decodeBytes_iff (bs r : Bytes) (v : FfiValue) :
    decodeBytes bs = some (v, r) ↔ ∃ w : FfiValue, w.Rep ∧ bs = encode w ++ r ∧ v = w.norm := by
  constructor
  · intro h; exact decode_sound h
  · rintro ⟨w, hw, rfl, rfl⟩; exact decodeBytes_encode w r hw

/-- success at *any* fuel is the result of the length-fuelled decoder -/
theorem decodeBytes_of_decode {f : Nat} {bs : Bytes} {p : FfiValue × Bytes} (h : decode f bs = some p) :
    decodeBytes bs = some p := by
  obtain ⟨v, r⟩ := p
  obtain ⟨w, hw, rfl, rfl⟩ := decode_sound h
  exact decodeBytes_encode w r hw

/-- the fuel is unobservable on every input, accepted or not, once it reaches the input length -/
theorem decode_fuel_irrelevant (f : Nat) (bs : Bytes) (hf : bs.length ≤ f) : decode f bs = decodeBytes bs := by
  cases h : decodeBytes bs with
  | some p =>
    obtain ⟨v, r⟩ := p
    obtain ⟨w, hw, rfl, rfl⟩ := decode_sound h
    exact decode_encode w f r hw (by have := need_le_length w; simp at hf; omega)
  | none =>
    cases h2 : decode f bs with
    | none => rfl
    | some p => rw [decodeBytes_of_decode h2] at h; cases h

/-! ### macro arguments -/

theorem decodeArgsBody_sound {f n : Nat} {bs r : Bytes} {as : List (FfiValue × Key)}
    (h : decodeArgsBody f n bs = some (as, r)) :
    ∃ ws, ws.length = n ∧ RepArgs ws ∧ bs = encodeArgsBody ws ++ r ∧ as = normArgs ws := by
  induction n generalizing bs as r with
  | zero =>
    simp [decodeArgsBody] at h; obtain ⟨rfl, rfl⟩ := h
    exact ⟨[], rfl, trivial, by simp [encodeArgsBody], by simp [normArgs]⟩
  | succ n ih =>
    simp only [decodeArgsBody] at h
    cases h1 : decode f bs with
    | none => simp [h1] at h
    | some p =>
      obtain ⟨v, r1⟩ := p
      simp only [h1] at h
      cases h2 : readKey r1 with
      | none => simp [h2] at h
      | some q =>
        obtain ⟨t, r2⟩ := q
        simp only [h2] at h
        cases h3 : decodeArgsBody f n r2 with
        | none => simp [h3] at h
        | some q2 =>
          obtain ⟨xs, r3⟩ := q2
          simp only [h3] at h
          simp at h; obtain ⟨rfl, rfl⟩ := h
          obtain ⟨w, hw, e1, rfl⟩ := decode_sound h1
          obtain ⟨t0, rfl, e2⟩ := readKey_sound h2
          obtain ⟨ws, hl, hws, e3, rfl⟩ := ih h3
          refine ⟨(w, t0) :: ws, by simp [hl], ⟨hw, hws⟩, ?_, by simp [normArgs]⟩
          rw [e1, e2, e3]; simp [encodeArgsBody]

theorem decodeArgs_sound {bs r : Bytes} {as : List (FfiValue × Key)} (h : decodeArgs bs = some (as, r)) :
    ∃ ws, LenOk ws.length ∧ RepArgs ws ∧ bs = encodeArgs ws ++ r ∧ as = normArgs ws := by
  unfold decodeArgs at h
  cases h1 : readLen bs with
  | none => simp [h1] at h
  | some p =>
    obtain ⟨n, r1⟩ := p
    simp only [h1] at h
    obtain ⟨hn, e1⟩ := readLen_sound h1
    obtain ⟨ws, hl, hws, e2, rfl⟩ := decodeArgsBody_sound h
    subst hl
    refine ⟨ws, hn, hws, ?_, rfl⟩
    rw [e1, e2]; simp [encodeArgs]

theorem normArgs_normArgs (as : List (FfiValue × Key)) : normArgs (normArgs as) = normArgs as := by
  induction as with
  | nil => simp [normArgs]
  | cons a as ih => obtain ⟨v, t⟩ := a; simp [normArgs, FfiValue.norm_norm, Key.norm_norm, ih]

theorem normArgs_length (as : List (FfiValue × Key)) : (normArgs as).length = as.length := by
  induction as with
  | nil => simp [normArgs]
  | cons a as ih => obtain ⟨v, t⟩ := a; simp [normArgs, ih]

theorem repArgs_norm (as : List (FfiValue × Key)) (h : RepArgs as) : RepArgs (normArgs as) := by
  induction as with
  | nil => simp [normArgs, RepArgs]
  | cons a as ih =>
    obtain ⟨v, t⟩ := a
    simp only [RepArgs] at h
    simp only [normArgs, RepArgs]; exact ⟨FfiValue.rep_norm v h.1, ih h.2⟩

end Mimium.Ffi
