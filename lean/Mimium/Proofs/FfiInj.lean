import Mimium.Proofs.FfiSound
/-!
Injectivity and prefix-freeness of the encoders on *raw* values (no assumption on keys): the value `w` on the wire in
the soundness theorems is unique.
-/
namespace Mimium.Ffi
open Mimium.Gen.Ffi

theorem encU32_cancel {a b : UInt32} {x y : Bytes} (h : encU32 a ++ x = encU32 b ++ y) : a = b ∧ x = y := by
  have h1 := readU32_encU32 a x
  rw [h, readU32_encU32] at h1
  simp at h1; exact ⟨h1.1.symm, h1.2.symm⟩

theorem encU64_cancel {a b : UInt64} {x y : Bytes} (h : encU64 a ++ x = encU64 b ++ y) : a = b ∧ x = y := by
  have h1 := readU64_encU64 a x
  rw [h, readU64_encU64] at h1
  simp at h1; exact ⟨h1.1.symm, h1.2.symm⟩

theorem encLen_cancel {a b : Nat} {x y : Bytes} (ha : LenOk a) (hb : LenOk b) (h : encLen a ++ x = encLen b ++ y) :
    a = b ∧ x = y := by
  have h1 := readLen_encLen a x ha
  rw [h, readLen_encLen b y hb] at h1
  simp at h1; exact ⟨h1.1.symm, h1.2.symm⟩

theorem encStr_cancel {a b : String} {x y : Bytes} (ha : LenOk (strBytes a).length) (hb : LenOk (strBytes b).length)
    (h : encStr a ++ x = encStr b ++ y) : a = b ∧ x = y := by
  have h1 := readStr_encStr a x ha
  rw [h, readStr_encStr b y hb] at h1
  simp at h1; exact ⟨h1.1.symm, h1.2.symm⟩

/-- raw keys: both words are recovered (no normalisation involved) -/
theorem encKey_cancel {a b : Key} {x y : Bytes} (h : encKey a ++ x = encKey b ++ y) : a = b ∧ x = y := by
  obtain ⟨ai, av⟩ := a
  obtain ⟨bi, bv⟩ := b
  simp only [encKey, List.append_assoc] at h
  obtain ⟨rfl, h2⟩ := encU32_cancel h
  obtain ⟨rfl, rfl⟩ := encU32_cancel h2
  exact ⟨rfl, rfl⟩

theorem FfiCtor.tag_inj {c d : FfiCtor} (h : c.tag = d.tag) : c = d := by
  have := FfiCtor.ofTag_tag c
  rw [h, FfiCtor.ofTag_tag] at this
  simp at this; exact this.symm

mutual
theorem encode_cancel (v w : FfiValue) (x y : Bytes) (hv : v.Rep) (hw : w.Rep) (h : encode v ++ x = encode w ++ y) :
    v = w ∧ x = y := by
  cases v with
  | errorV =>
    cases w with
    | errorV => simp only [encode] at h; exact ⟨rfl, (encU32_cancel h).2⟩
    | _ => exfalso; simp only [encode, List.append_assoc] at h; cases FfiCtor.tag_inj (encU32_cancel h).1
  | unit =>
    cases w with
    | unit => simp only [encode] at h; exact ⟨rfl, (encU32_cancel h).2⟩
    | _ => exfalso; simp only [encode, List.append_assoc] at h; cases FfiCtor.tag_inj (encU32_cancel h).1
  | number b =>
    cases w with
    | number b' =>
      simp only [encode, List.append_assoc] at h
      obtain ⟨rfl, rfl⟩ := encU64_cancel (encU32_cancel h).2
      exact ⟨rfl, rfl⟩
    | _ => exfalso; simp only [encode, List.append_assoc] at h; cases FfiCtor.tag_inj (encU32_cancel h).1
  | string s =>
    cases w with
    | string s' =>
      simp only [encode, List.append_assoc] at h
      simp only [FfiValue.Rep] at hv hw
      obtain ⟨rfl, rfl⟩ := encStr_cancel hv hw (encU32_cancel h).2
      exact ⟨rfl, rfl⟩
    | _ => exfalso; simp only [encode, List.append_assoc] at h; cases FfiCtor.tag_inj (encU32_cancel h).1
  | array vs =>
    cases w with
    | array ws =>
      simp only [encode, List.append_assoc] at h
      simp only [FfiValue.Rep] at hv hw
      obtain ⟨hl, h2⟩ := encLen_cancel hv.1 hw.1 (encU32_cancel h).2
      obtain ⟨rfl, rfl⟩ := encodeList_cancel vs ws x y hl hv.2 hw.2 h2
      exact ⟨rfl, rfl⟩
    | _ => exfalso; simp only [encode, List.append_assoc] at h; cases FfiCtor.tag_inj (encU32_cancel h).1
  | tuple vs =>
    cases w with
    | tuple ws =>
      simp only [encode, List.append_assoc] at h
      simp only [FfiValue.Rep] at hv hw
      obtain ⟨hl, h2⟩ := encLen_cancel hv.1 hw.1 (encU32_cancel h).2
      obtain ⟨rfl, rfl⟩ := encodeList_cancel vs ws x y hl hv.2 hw.2 h2
      exact ⟨rfl, rfl⟩
    | _ => exfalso; simp only [encode, List.append_assoc] at h; cases FfiCtor.tag_inj (encU32_cancel h).1
  | record fs =>
    cases w with
    | record gs =>
      simp only [encode, List.append_assoc] at h
      simp only [FfiValue.Rep] at hv hw
      obtain ⟨hl, h2⟩ := encLen_cancel hv.1 hw.1 (encU32_cancel h).2
      obtain ⟨rfl, rfl⟩ := encodeFields_cancel fs gs x y hl hv.2 hw.2 h2
      exact ⟨rfl, rfl⟩
    | _ => exfalso; simp only [encode, List.append_assoc] at h; cases FfiCtor.tag_inj (encU32_cancel h).1
  | code e =>
    cases w with
    | code e' =>
      simp only [encode, List.append_assoc] at h
      obtain ⟨rfl, rfl⟩ := encKey_cancel (encU32_cancel h).2
      exact ⟨rfl, rfl⟩
    | _ => exfalso; simp only [encode, List.append_assoc] at h; cases FfiCtor.tag_inj (encU32_cancel h).1
  | taggedUnion t v =>
    cases w with
    | taggedUnion t' v' =>
      simp only [encode, List.append_assoc] at h
      simp only [FfiValue.Rep] at hv hw
      obtain ⟨rfl, h2⟩ := encU64_cancel (encU32_cancel h).2
      obtain ⟨rfl, rfl⟩ := encode_cancel v v' x y hv hw h2
      exact ⟨rfl, rfl⟩
    | _ => exfalso; simp only [encode, List.append_assoc] at h; cases FfiCtor.tag_inj (encU32_cancel h).1
theorem encodeList_cancel (vs ws : List FfiValue) (x y : Bytes) (hl : vs.length = ws.length) (hv : RepList vs)
    (hw : RepList ws) (h : encodeList vs ++ x = encodeList ws ++ y) : vs = ws ∧ x = y := by
  cases vs with
  | nil =>
    cases ws with
    | nil => simpa [encodeList] using h
    | cons w ws => simp at hl
  | cons v vs =>
    cases ws with
    | nil => simp at hl
    | cons w ws =>
      simp only [encodeList, List.append_assoc] at h
      simp only [RepList] at hv hw
      obtain ⟨rfl, h2⟩ := encode_cancel v w _ _ hv.1 hw.1 h
      obtain ⟨rfl, rfl⟩ := encodeList_cancel vs ws x y (by simpa using hl) hv.2 hw.2 h2
      exact ⟨rfl, rfl⟩
theorem encodeFields_cancel (fs gs : List (String × FfiValue)) (x y : Bytes) (hl : fs.length = gs.length)
    (hv : RepFields fs) (hw : RepFields gs) (h : encodeFields fs ++ x = encodeFields gs ++ y) : fs = gs ∧ x = y := by
  cases fs with
  | nil =>
    cases gs with
    | nil => simpa [encodeFields] using h
    | cons w ws => simp at hl
  | cons kv fs =>
    cases gs with
    | nil => simp at hl
    | cons kw gs =>
      obtain ⟨k, v⟩ := kv
      obtain ⟨k', w⟩ := kw
      simp only [encodeFields, List.append_assoc] at h
      simp only [RepFields] at hv hw
      obtain ⟨rfl, h2⟩ := encStr_cancel hv.1 hw.1 h
      obtain ⟨rfl, h3⟩ := encode_cancel v w _ _ hv.2.1 hw.2.1 h2
      obtain ⟨rfl, rfl⟩ := encodeFields_cancel fs gs x y (by simpa using hl) hv.2.2 hw.2.2 h3
      exact ⟨rfl, rfl⟩
end

end Mimium.Ffi
