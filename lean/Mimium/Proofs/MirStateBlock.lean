import Mimium.Proofs.MirStateSound
/-! Soundness of `absBlock` (one block), of `stateOkFn` (all blocks of a function) and of the whole checked set (all call depths). -/
namespace Mimium.Mir
open Mimium.StateMachine Mimium.Layout Mimium.StateTree Mimium.RustGen

theorem certIs_iff (cert : Cert) (b : Nat) (a : Abs) : certIs cert b a = true ↔ cert[b]? = some (some a) := by
  simp [certIs]

/-- what one executed block guarantees -/
def BlockPost (b : Nat) (tr0 exp : List Access) (cert : Cert) : FlowM → Prop
  | .next bb' _ s' => ∃ a', cert[bb']? = some (some a') ∧ Rel b tr0 exp a' s'
  | .ret (.ok (_, s')) => s'.tr = tr0 ++ exp.map (shiftAcc b) ∧ s'.st.pos = b
  | _ => True

/-- the terminators `absBlock` interprets itself -/
def Ins.isTerm5 : Ins → Bool
  | .jmpIf .. | .jmp .. | .switch .. | .ret .. | .retFeed .. => true
  | _ => false

theorem absBlock_op (P : Prog) (ok : List Nat) (exp : List Access) (as : List Arm) (cert : Cert) (bi : Nat) (i : Ins)
    (rest : List Ins) (lc : Option (Nat × Nat)) (a : Abs) (h : i.isTerm5 = false) :
    absBlock P ok exp as cert bi (i :: rest) lc a =
      match absStep P ok exp lc a i with
      | some (a', lc') => absBlock P ok exp as cert bi rest lc' a'
      | none => false := by
  cases i <;> simp [Ins.isTerm5] at h <;> (simp only [absBlock]; rfl)

theorem readN_length {m : Array UInt64} {a n : Nat} {ws : List UInt64} (h : readN m a n = .ok ws) : ws.length = n := by
  unfold readN at h
  split at h
  · rename_i hle
    simp only [Except.ok.injEq] at h
    subst h
    simp [Array.size_extract]; omega
  · simp at h

theorem readOpd_length {s : RSt} {o : Opd} {n : Nat} {ws : List UInt64} (h : readOpd s o n = .ok ws) : ws.length = n := by
  simp only [readOpd, Bind.bind, Except.bind] at h
  cases hr : regOf s.fr o with
  | error e => simp [hr] at h
  | ok rg => simp only [hr] at h; exact readN_length h

theorem switchTarget_mem {cases : List (Int × Nat)} {d : Option Nat} {v : Int} {n : Nat}
    (h : switchTarget cases d v = some n) : (∃ c ∈ cases, c.2 = n) ∨ d = some n := by
  unfold switchTarget at h
  cases hf : cases.find? (fun c => c.1 == v) with
  | none => simp only [hf] at h; exact Or.inr h
  | some c =>
    simp only [hf, Option.some.injEq] at h
    exact Or.inl ⟨c, List.mem_of_find?_eq_some hf, h⟩

theorem absBlock_sound {P : Prog} {ok : List Nat} {callF : CallF} (hspec : CallSpec P ok callF)
    (b : Nat) (tr0 exp : List Access) (as : List Arm) (cert : Cert) (bi : Nat) (preds : List Nat) :
    ∀ (is : List Ins) (lc : Option (Nat × Nat)) (a : Abs) (pred : Nat) (s : MSt),
      absBlock P ok exp as cert bi is lc a = true → Rel b tr0 exp a s → LcOk lc s →
      BlockPost b tr0 exp cert (execBlockM callF P as preds bi is pred s) := by
  intro is
  induction is with
  | nil =>
    intro lc a pred s habs hrel _
    simp only [absBlock] at habs
    simp only [execBlockM]
    cases hl : lastContaining as bi with
    | none => simp [hl] at habs
    | some arm =>
      simp only [hl] at habs
      exact ⟨a, (certIs_iff _ _ _).mp habs, hrel⟩
  | cons i rest ih =>
    intro lc a pred s habs hrel hlc
    by_cases hc : i.isCtl = false
    · have ht : i.isTerm5 = false := by cases i <;> simp [Ins.isCtl] at hc <;> rfl
      rw [absBlock_op P ok exp as cert bi i rest lc a ht] at habs
      rw [execBlockM_op callF P as preds bi i rest pred s hc]
      cases hst : stepIns callF P i s with
      | error e => trivial
      | ok s' =>
        cases hab : absStep P ok exp lc a i with
        | none => simp [hab] at habs
        | some p =>
          obtain ⟨a', lc'⟩ := p
          simp only [hab] at habs
          obtain ⟨hrel', hlc'⟩ := absStep_sound hspec hab hrel hlc hst
          exact ih lc' a' pred s' habs hrel' hlc'
    · cases i with
      | phi d l r =>
        rw [absBlock_op P ok exp as cert bi _ rest lc a rfl] at habs
        simp only [absStep] at habs
        simp only [execBlockM]
        rcases preds with _ | ⟨p0, _ | ⟨p1, ps⟩⟩
        · trivial
        · trivial
        · simp only []
          have hm : ∀ src, Rel b tr0 exp a (moveM d src s) := fun src =>
            ⟨by rw [(moveM_st d src s).1]; exact hrel.pos, by rw [(moveM_st d src s).2]; exact hrel.tr⟩
          split
          · exact ih none a pred _ habs (hm l) (lcOk_none _)
          · split
            · exact ih none a pred _ habs (hm r) (lcOk_none _)
            · trivial
      | phiSwitch d ins =>
        rw [absBlock_op P ok exp as cert bi _ rest lc a rfl] at habs
        simp only [absStep] at habs
        simp only [execBlockM]
        have hm : ∀ src, Rel b tr0 exp a (moveM d src s) := fun src =>
          ⟨by rw [(moveM_st d src s).1]; exact hrel.pos, by rw [(moveM_st d src s).2]; exact hrel.tr⟩
        split
        · exact ih none a pred _ habs (hm _) (lcOk_none _)
        · trivial
      | jmpIf c t e m =>
        simp only [absBlock, Bool.and_eq_true] at habs
        simp only [execBlockM]
        cases hst : stepIns callF P (.jmpIf c t e m) s with
        | error e => trivial
        | ok s' =>
          have hpl := stepIns_plain (i := .jmpIf c t e m) rfl hst
          have hrel' : Rel b tr0 exp a s' := ⟨by rw [hpl.1]; exact hrel.pos, by rw [hpl.2]; exact hrel.tr⟩
          simp only []
          by_cases htr : truthyM c s' = true
          · simp only [htr, if_true]; exact ⟨a, (certIs_iff _ _ _).mp habs.1, hrel'⟩
          · simp only [htr]; exact ⟨a, (certIs_iff _ _ _).mp habs.2, hrel'⟩
      | jmp off =>
        simp only [absBlock] at habs
        simp only [execBlockM]
        exact ⟨a, (certIs_iff _ _ _).mp habs, hrel⟩
      | switch c cases d m =>
        simp only [absBlock, Bool.and_eq_true, List.all_eq_true] at habs
        simp only [execBlockM]
        cases hst : stepIns callF P (.switch c cases d m) s with
        | error e => trivial
        | ok s' =>
          have hpl := stepIns_plain (i := .switch c cases d m) rfl hst
          have hrel' : Rel b tr0 exp a s' := ⟨by rw [hpl.1]; exact hrel.pos, by rw [hpl.2]; exact hrel.tr⟩
          simp only []
          cases hsw : switchTarget cases d (scrutM c s') with
          | none => trivial
          | some n =>
            simp only []
            rcases switchTarget_mem hsw with ⟨cs, hmem, hcn⟩ | hd
            · have := habs.1 cs hmem
              rw [hcn] at this
              exact ⟨a, (certIs_iff _ _ _).mp this, hrel'⟩
            · have h2 := habs.2
              rw [hd] at h2
              simp only [Option.all_some] at h2
              exact ⟨a, (certIs_iff _ _ _).mp h2, hrel'⟩
      | ret src n =>
        simp only [absBlock, Bool.and_eq_true, beq_iff_eq] at habs
        simp only [execBlockM]
        have hfin : s.tr = tr0 ++ exp.map (shiftAcc b) ∧ s.st.pos = b := by
          refine ⟨?_, ?_⟩
          · rw [hrel.tr, habs.2, List.take_length]
          · rw [hrel.pos, habs.1]; rfl
        cases src with
        | none => simpa [retM, BlockPost] using hfin
        | _ =>
          simp only [retM, Bind.bind, Except.bind]
          split
          · trivial
          · exact hfin
      | retFeed src n =>
        simp only [absBlock, Bool.and_eq_true, beq_iff_eq] at habs
        obtain ⟨⟨hoff, hk⟩, hset⟩ := habs
        simp only [execBlockM, retM, Bind.bind, Except.bind]
        cases hws : readOpd s.rest src n with
        | error e => trivial
        | ok ws =>
          simp only []
          cases hop : stateOp s (.set ws) with
          | error e => trivial
          | ok p =>
            obtain ⟨s1, out⟩ := p
            simp only []
            obtain ⟨_, _, htr, hvm⟩ := stateOp_ok hop
            refine ⟨?_, ?_⟩
            · have hlen : exp.take (a.k + 1) = exp := by rw [hk, List.take_length]
              have hexp : exp = exp.take a.k ++ [⟨.set, 0, n⟩] := by
                rw [← take_succ_of_get hset]; exact hlen.symm
              have h2 := congrArg (List.map (shiftAcc b)) hexp
              rw [List.map_append] at h2
              rw [htr, hrel.tr, h2]
              simp [accessOf, shiftAcc, hrel.pos, hoff, readOpd_length hws]
            · rw [vmStep_set hvm, hrel.pos, hoff]; rfl
      | _ => simp [Ins.isCtl] at hc

end Mimium.Mir
