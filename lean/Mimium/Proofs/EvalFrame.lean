import Mimium.Proofs.FlatTreeVisits
import Mimium.Model.Publish
/-!
Frame property of the reference evaluator: evaluating an expression changes the state node of the current function
instance only at the sites of the stateful constructs of that expression (`mem`, `delay`, named calls, outside lambda
bodies), and never its `self` (`eval_frame`, induction on the fuel over all 18 constructs).
-/
namespace Mimium.Publish
open Mimium.Core Mimium.Cells Mimium.StateTree Mimium.FlatTree

/-- the sites of the stateful constructs of an expression (outside lambda bodies) -/
def sitesE (e : Expr) : List Nat := (siteLens e).map (·.1)
def sitesL (es : List Expr) : List Nat := (siteLensL es).map (·.1)

/-- `st'` is `st` except at the sites `J` -/
def Frame (J : List Nat) (st st' : SNode) : Prop :=
  st'.selfv = st.selfv ∧ ∀ s, s ∉ J → lookupCell st'.cells s = lookupCell st.cells s

theorem Frame.refl (J : List Nat) (st : SNode) : Frame J st st := ⟨rfl, fun _ _ => rfl⟩

theorem Frame.mono {J J' : List Nat} {a b : SNode} (h : Frame J a b) (hs : ∀ s ∈ J, s ∈ J') : Frame J' a b :=
  ⟨h.1, fun s hn => h.2 s (fun hj => hn (hs s hj))⟩

theorem Frame.seq {J1 J2 : List Nat} {a b c : SNode} (h1 : Frame J1 a b) (h2 : Frame J2 b c) : Frame (J1 ++ J2) a c :=
  ⟨h2.1.trans h1.1, fun s hn => by
    rw [List.mem_append, not_or] at hn
    exact (h2.2 s hn.2).trans (h1.2 s hn.1)⟩

theorem selfv_setCell (st : SNode) (site : Nat) (c : SCell) : (st.setCell site c).selfv = st.selfv := by
  cases st; rfl

theorem cells_setCell (st : SNode) (site : Nat) (c : SCell) : (st.setCell site c).cells = Core.setCell st.cells site c := by
  cases st; rfl

theorem Frame.set (st : SNode) (site : Nat) (c : SCell) : Frame [site] st (st.setCell site c) :=
  ⟨selfv_setCell st site c, fun s hn => by
    rw [cells_setCell]
    exact lookup_set_ne _ _ _ _ (fun e => hn (by simp [e]))⟩

theorem sitesE_bin (op a b) : sitesE (.bin op a b) = sitesE a ++ sitesE b := by simp [sitesE, siteLens]
theorem sitesE_letE (x a b) : sitesE (.letE x a b) = sitesE a ++ sitesE b := by simp [sitesE, siteLens]
theorem sitesE_letTup (xs a b) : sitesE (.letTup xs a b) = sitesE a ++ sitesE b := by simp [sitesE, siteLens]
theorem sitesE_assign (x a b) : sitesE (.assign x a b) = sitesE a ++ sitesE b := by simp [sitesE, siteLens]
theorem sitesE_ite (c a b) : sitesE (.ite c a b) = sitesE c ++ (sitesE a ++ sitesE b) := by simp [sitesE, siteLens]
theorem sitesE_un (op a) : sitesE (.un op a) = sitesE a := by simp [sitesE, siteLens]
theorem sitesE_proj (a i) : sitesE (.proj a i) = sitesE a := by simp [sitesE, siteLens]
theorem sitesE_tup (es) : sitesE (.tup es) = sitesL es := by simp [sitesE, sitesL, siteLens]
theorem sitesE_app (f args) : sitesE (.app f args) = sitesE f ++ sitesL args := by simp [sitesE, sitesL, siteLens]
theorem sitesE_mem (a site) : sitesE (.mem a site) = sitesE a ++ [site] := by simp [sitesE, siteLens]
theorem sitesE_delay (n a t site) : sitesE (.delay n a t site) = sitesE a ++ sitesE t ++ [site] := by
  simp [sitesE, siteLens]
theorem sitesE_call (f args site) : sitesE (.call f args site) = sitesL args ++ [site] := by simp [sitesE, sitesL, siteLens]
theorem sitesL_cons (e es) : sitesL (e :: es) = sitesE e ++ sitesL es := by simp [sitesE, sitesL, siteLensL]

theorem eval_frame (P : Prog) (rt : Rt) : ∀ (fuel : Nat),
    (∀ (e : Expr) (env : Env) (σ : Store) (st : SNode) (v : Val) (σ' : Store) (st' : SNode),
      eval fuel P rt env e σ st = .ok (v, σ', st') → Frame (sitesE e) st st') ∧
    (∀ (es : List Expr) (env : Env) (σ : Store) (st : SNode) (vs : List Val) (σ' : Store) (st' : SNode),
      evalList fuel P rt env es σ st = .ok (vs, σ', st') → Frame (sitesL es) st st') := by
  intro fuel
  induction fuel with
  | zero =>
    constructor
    · intro e env σ st v σ' st' h; rw [eval_zero] at h; simp at h
    · intro es env σ st vs σ' st' h; rw [evalList_zero] at h; simp at h
  | succ n ih =>
    obtain ⟨ihE, ihL⟩ := ih
    constructor
    · intro e env σ st v σ' st' h
      cases e with
      | lit b =>
        rw [eval_lit] at h
        simp only [Except.ok.injEq, Prod.mk.injEq] at h; obtain ⟨_, _, rfl⟩ := h; exact Frame.refl _ _
      | var x =>
        rw [eval_var] at h
        split at h
        · simp at h
        · split at h
          · simp only [Except.ok.injEq, Prod.mk.injEq] at h; obtain ⟨_, _, rfl⟩ := h; exact Frame.refl _ _
          · simp at h
      | now =>
        rw [eval_now] at h
        simp only [Except.ok.injEq, Prod.mk.injEq] at h; obtain ⟨_, _, rfl⟩ := h; exact Frame.refl _ _
      | samplerate =>
        rw [eval_sr] at h
        simp only [Except.ok.injEq, Prod.mk.injEq] at h; obtain ⟨_, _, rfl⟩ := h; exact Frame.refl _ _
      | lam ps body =>
        rw [eval_lam] at h
        simp only [Except.ok.injEq, Prod.mk.injEq] at h; obtain ⟨_, _, rfl⟩ := h; exact Frame.refl _ _
      | self =>
        rw [eval_self] at h
        split at h
        · simp only [Except.ok.injEq, Prod.mk.injEq] at h; obtain ⟨_, _, rfl⟩ := h; exact Frame.refl _ _
        · simp at h
      | un op a =>
        rw [eval_un] at h
        obtain ⟨⟨v1, σ1, t1⟩, h1, h⟩ := andThen_ok h
        cases v1 with
        | num x =>
          simp only [Except.ok.injEq, Prod.mk.injEq] at h; obtain ⟨_, _, rfl⟩ := h
          rw [sitesE_un]; exact ihE a _ _ _ _ _ _ h1
        | _ => simp at h
      | bin op a b =>
        rw [eval_bin] at h
        obtain ⟨⟨v1, σ1, t1⟩, h1, h⟩ := andThen_ok h
        cases v1 with
        | num x =>
          simp only at h
          obtain ⟨⟨v2, σ2, t2⟩, h2, h⟩ := andThen_ok h
          cases v2 with
          | num y =>
            simp only [Except.ok.injEq, Prod.mk.injEq] at h; obtain ⟨_, _, rfl⟩ := h
            rw [sitesE_bin]; exact (ihE a _ _ _ _ _ _ h1).seq (ihE b _ _ _ _ _ _ h2)
          | _ => simp at h
        | _ => simp at h
      | ite c a b =>
        rw [eval_ite] at h
        obtain ⟨⟨v1, σ1, t1⟩, h1, h⟩ := andThen_ok h
        cases v1 with
        | num x =>
          simp only at h
          have e1 := ihE c _ _ _ _ _ _ h1
          rw [sitesE_ite]
          split at h
          · exact e1.seq ((ihE a _ _ _ _ _ _ h).mono (fun s hs => List.mem_append_left _ hs))
          · exact e1.seq ((ihE b _ _ _ _ _ _ h).mono (fun s hs => List.mem_append_right _ hs))
        | _ => simp at h
      | letE x a body =>
        rw [eval_letE] at h
        obtain ⟨⟨v1, σ1, t1⟩, h1, h⟩ := andThen_ok h
        rw [sitesE_letE]; exact (ihE a _ _ _ _ _ _ h1).seq (ihE body _ _ _ _ _ _ h)
      | letTup xs a body =>
        rw [eval_letTup] at h
        obtain ⟨⟨v1, σ1, t1⟩, h1, h⟩ := andThen_ok h
        cases v1 with
        | tup vs =>
          simp only at h
          split at h
          · rw [sitesE_letTup]; exact (ihE a _ _ _ _ _ _ h1).seq (ihE body _ _ _ _ _ _ h)
          · simp at h
        | _ => simp at h
      | assign x a rest =>
        rw [eval_assign] at h
        obtain ⟨⟨v1, σ1, t1⟩, h1, h⟩ := andThen_ok h
        split at h
        · simp at h
        · rw [sitesE_assign]; exact (ihE a _ _ _ _ _ _ h1).seq (ihE rest _ _ _ _ _ _ h)
      | proj a i =>
        rw [eval_proj] at h
        obtain ⟨⟨v1, σ1, t1⟩, h1, h⟩ := andThen_ok h
        cases v1 with
        | tup vs =>
          simp only at h
          split at h
          · simp only [Except.ok.injEq, Prod.mk.injEq] at h; obtain ⟨_, _, rfl⟩ := h
            rw [sitesE_proj]; exact ihE a _ _ _ _ _ _ h1
          · simp at h
        | _ => simp at h
      | tup es =>
        rw [eval_tup] at h
        obtain ⟨⟨vs, σ1, t1⟩, h1, h⟩ := andThen_ok h
        simp only [Except.ok.injEq, Prod.mk.injEq] at h; obtain ⟨_, _, rfl⟩ := h
        rw [sitesE_tup]; exact ihL es _ _ _ _ _ _ h1
      | app f args =>
        rw [eval_app] at h
        obtain ⟨⟨v1, σ1, t1⟩, h1, h⟩ := andThen_ok h
        cases v1 with
        | clo ps body cenv =>
          simp only at h
          obtain ⟨⟨vs, σ2, t2⟩, h2, h⟩ := andThen_ok h
          simp only at h
          split at h
          · simp at h
          · obtain ⟨⟨v3, σ3, t3⟩, _, h⟩ := andThen_ok h
            simp only [Except.ok.injEq, Prod.mk.injEq] at h; obtain ⟨_, _, rfl⟩ := h
            rw [sitesE_app]; exact (ihE f _ _ _ _ _ _ h1).seq (ihL args _ _ _ _ _ _ h2)
        | _ => simp at h
      | mem a site =>
        rw [eval_mem] at h
        obtain ⟨⟨v1, σ1, t1⟩, h1, h⟩ := andThen_ok h
        cases v1 with
        | num x =>
          simp only [Except.ok.injEq, Prod.mk.injEq] at h; obtain ⟨_, _, rfl⟩ := h
          rw [sitesE_mem]; exact (ihE a _ _ _ _ _ _ h1).seq (Frame.set _ _ _)
        | _ => simp at h
      | delay k a t site =>
        rw [eval_delay] at h
        obtain ⟨⟨v1, σ1, t1⟩, h1, h⟩ := andThen_ok h
        cases v1 with
        | num x =>
          simp only at h
          obtain ⟨⟨v2, σ2, t2⟩, h2, h⟩ := andThen_ok h
          cases v2 with
          | num tm =>
            simp only [Except.ok.injEq, Prod.mk.injEq] at h; obtain ⟨_, _, rfl⟩ := h
            rw [sitesE_delay]
            exact ((ihE a _ _ _ _ _ _ h1).seq (ihE t _ _ _ _ _ _ h2)).seq (Frame.set _ _ _)
          | _ => simp at h
        | _ => simp at h
      | call f args site =>
        rw [eval_call] at h
        obtain ⟨⟨vs, σ1, t1⟩, h1, h⟩ := andThen_ok h
        rw [sitesE_call]
        refine (ihL args _ _ _ _ _ _ h1).seq ?_
        simp only [callRest] at h
        cases hf : findFn P.fns f with
        | none => simp [hf] at h
        | some d =>
          simp only [hf] at h
          split at h
          · simp at h
          · obtain ⟨⟨v2, σ2, c1⟩, h2, h⟩ := andThen_ok h
            simp only [Except.ok.injEq, Prod.mk.injEq] at h; obtain ⟨_, _, rfl⟩ := h
            exact Frame.set _ _ _
    · intro es env σ st vs σ' st' h
      cases es with
      | nil =>
        rw [evalList_nil] at h
        simp only [Except.ok.injEq, Prod.mk.injEq] at h; obtain ⟨_, _, rfl⟩ := h; exact Frame.refl _ _
      | cons e es =>
        rw [evalList_cons] at h
        obtain ⟨⟨v1, σ1, t1⟩, h1, h⟩ := andThen_ok h
        obtain ⟨⟨vs2, σ2, t2⟩, h2, h⟩ := andThen_ok h
        simp only [Except.ok.injEq, Prod.mk.injEq] at h; obtain ⟨_, _, rfl⟩ := h
        rw [sitesL_cons]; exact (ihE e _ _ _ _ _ _ h1).seq (ihL es _ _ _ _ _ _ h2)

end Mimium.Publish
