import Mimium.Proofs.TypeRec
/-! The cycle detector of `register_type_aliases` (`detect_cycle_helper`, a depth-first search that carries its path):
it terminates, and it is COMPLETE for the graph it looks at — the aliases it does not flag span no cycle.  So dropping the
flagged aliases (which /repo does not do) makes `resolve_type_alias` total, PROVIDED names are looked up the way the
detector looks them up (no fallback). -/
namespace Mimium.TypeRec

/-- the `find_map` of `detect_cycle_helper`, as the fold of `Model/TypeRec.lean` -/
abbrev findMap (g : Nat → Option (Option (List Nat))) (l : List Nat) (init : Option (Option (List Nat))) :=
  l.foldl (fun acc ref => match acc with
    | some none => g ref
    | r => r) init

theorem findMap_eq_none_found (g : Nat → Option (Option (List Nat))) : ∀ (l : List Nat) (init : Option (Option (List Nat))),
    findMap g l init = some none ↔ init = some none ∧ ∀ n ∈ l, g n = some none := by
  intro l
  induction l with
  | nil => intro init; simp [findMap]
  | cons x xs ih =>
    intro init
    simp only [findMap, List.foldl_cons] at ih ⊢
    rw [ih]
    constructor
    · rintro ⟨h1, h2⟩
      cases init with
      | none => simp at h1
      | some o =>
        cases o with
        | some c => simp at h1
        | none =>
          simp only at h1
          exact ⟨rfl, by intro n hn; rcases List.mem_cons.mp hn with rfl | hn; exact h1; exact h2 n hn⟩
    · rintro ⟨h1, h2⟩
      subst h1
      exact ⟨h2 x List.mem_cons_self, fun n hn => h2 n (List.mem_cons_of_mem _ hn)⟩

theorem findMap_ne_none (g : Nat → Option (Option (List Nat))) : ∀ (l : List Nat) (init : Option (Option (List Nat))),
    init ≠ none → (∀ n ∈ l, g n ≠ none) → findMap g l init ≠ none := by
  intro l
  induction l with
  | nil => intro init h _; simpa [findMap] using h
  | cons x xs ih =>
    intro init h hg
    simp only [findMap, List.foldl_cons] at ih ⊢
    apply ih
    · cases init with
      | none => exact absurd rfl h
      | some o =>
        cases o with
        | some c => simp
        | none => exact hg x List.mem_cons_self
    · exact fun n hn => hg n (List.mem_cons_of_mem _ hn)

theorem detect_succ (env : AEnv) (f current : Nat) (path : List Nat) :
    detect env (f + 1) current path =
      if current ∈ path then some (some (path.dropWhile (· ≠ current)))
      else match lookup env current with
        | none => some none
        | some target => findMap (fun ref => detect env f ref (path ++ [current])) (aliasesOf target) (some none) := by
  rfl

/-- a search that found nothing would have found nothing with a shorter path (and explores the same tree) -/
theorem detect_shrink_path (env : AEnv) : ∀ (f n : Nat) (p q : List Nat),
    detect env f n (p ++ q) = some none → detect env f n q = some none := by
  intro f
  induction f with
  | zero => intro n p q h; simp [detect] at h
  | succ f ih =>
    intro n p q h
    rw [detect_succ] at h ⊢
    by_cases hm : n ∈ p ++ q
    · simp [hm] at h
    · have hq : n ∉ q := fun hq => hm (List.mem_append_right _ hq)
      simp only [hm, hq, if_false] at h ⊢
      cases hl : lookup env n with
      | none => rfl
      | some target =>
        simp only [hl] at h ⊢
        rw [findMap_eq_none_found] at h ⊢
        refine ⟨rfl, fun r hr => ?_⟩
        have := h.2 r hr
        rw [List.append_assoc] at this
        exact ih r p (q ++ [n]) this

/-- if the search from `k` finds nothing with fuel `f + 1`, the search from every alias named in `k`'s target finds nothing
with fuel `f` -/
theorem detect_edges (env : AEnv) (f k : Nat) (t : ATy) (hl : lookup env k = some t)
    (h : detect env (f + 1) k [] = some none) : ∀ n ∈ aliasesOf t, detect env f n [] = some none := by
  rw [detect_succ] at h
  simp only [List.not_mem_nil, if_false, hl, List.nil_append] at h
  rw [findMap_eq_none_found] at h
  intro n hn
  have := h.2 n hn
  exact detect_shrink_path env f n [k] [] (by simpa using this)

/-- least `f ≤ F` with `P f` (if there is one) -/
def least (P : Nat → Bool) : Nat → Nat
  | 0 => 0
  | F + 1 => if P (least P F) then least P F else F + 1

theorem least_le (P : Nat → Bool) : ∀ F, least P F ≤ F := by
  intro F
  induction F with
  | zero => simp [least]
  | succ F ih => simp only [least]; split <;> omega

theorem least_spec (P : Nat → Bool) : ∀ (F f : Nat), f ≤ F → P f = true → P (least P F) = true ∧ least P F ≤ f := by
  intro F
  induction F with
  | zero =>
    intro f hf hP
    have : f = 0 := by omega
    subst this
    exact ⟨by simpa [least] using hP, by simp [least]⟩
  | succ F ih =>
    intro f hf hP
    simp only [least]
    by_cases hle : f ≤ F
    · have ⟨h1, h2⟩ := ih f hle hP
      rw [if_pos h1]
      exact ⟨h1, h2⟩
    · have : f = F + 1 := by omega
      subst this
      split
      · rename_i h1
        exact ⟨h1, by have := least_le P F; omega⟩
      · exact ⟨hP, Nat.le_refl _⟩

/-- drop the aliases listed in `bad` -/
def prune (bad : List Nat) : AEnv → AEnv
  | [] => []
  | (k, t) :: rest => if k ∈ bad then prune bad rest else (k, t) :: prune bad rest

theorem lookup_prune (bad : List Nat) (env : AEnv) (k : Nat) :
    lookup (prune bad env) k = if k ∈ bad then none else lookup env k := by
  induction env with
  | nil => simp [prune, lookup]
  | cons e rest ih =>
    obtain ⟨n, t⟩ := e
    by_cases hn : n ∈ bad
    · simp only [prune, hn, if_true, lookup]
      rw [ih]
      by_cases hk : n = k
      · subst hk; simp [hn]
      · simp [hk]
    · simp only [prune, hn, if_false, lookup]
      rw [ih]
      by_cases hk : n = k
      · subst hk; simp [hn]
      · simp [hk]

/-- COMPLETENESS of the detector: the aliases from which the search finds no cycle span an acyclic graph — as long as
every name in a target is looked up under itself (`fb n = n`), which is how the detector looks names up. -/
theorem prune_acyclic (fb : Nat → Nat) (env : AEnv) (F : Nat) (bad : List Nat)
    (hdet : ∀ k t, lookup env k = some t → k ∉ bad → detect env F k [] = some none)
    (hfb : ∀ k t, lookup env k = some t → ∀ n ∈ aliasesOf t, fb n = n) : AcyclicA fb (prune bad env) := by
  refine ⟨fun k => least (fun f => decide (detect env f k [] = some none)) F, ?_⟩
  intro k t hl n hn
  show least (fun f => decide (detect env f (fb n) [] = some none)) F < least (fun f => decide (detect env f k [] = some none)) F
  rw [lookup_prune] at hl
  by_cases hb : k ∈ bad
  · simp [hb] at hl
  · simp only [hb, if_false] at hl
    rw [hfb k t hl n hn]
    have ⟨h1, _⟩ := least_spec (fun f => decide (detect env f k [] = some none)) F F (Nat.le_refl _)
      (by simpa using hdet k t hl hb)
    have hle := least_le (fun f => decide (detect env f k [] = some none)) F
    simp only [decide_eq_true_eq] at h1
    cases hk : least (fun f => decide (detect env f k [] = some none)) F with
    | zero => rw [hk] at h1; simp [detect] at h1
    | succ f' =>
      rw [hk] at h1 hle
      have hn' := detect_edges env f' k t hl h1 n hn
      have ⟨_, h3⟩ := least_spec (fun f => decide (detect env f n [] = some none)) F f' (by omega) (by simpa using hn')
      omega

/-! ## the detector terminates: the path is a duplicate-free list of keys -/

theorem mem_keys_of_lookup (env : AEnv) (k : Nat) (h : lookup env k ≠ none) : k ∈ env.map (·.1) := by
  induction env with
  | nil => simp [lookup] at h
  | cons e rest ih =>
    obtain ⟨n, t⟩ := e
    simp only [lookup] at h
    by_cases hk : n = k
    · simp [hk]
    · simp only [hk, if_false] at h
      simp [ih h]

theorem detect_ne_none (env : AEnv) : ∀ (d f k : Nat) (path : List Nat), path.Nodup → (∀ x ∈ path, lookup env x ≠ none) →
    env.length ≤ path.length + d → d + 1 ≤ f → detect env f k path ≠ none := by
  intro d
  induction d with
  | zero =>
    intro f k path hnd hkeys hlen hf
    cases f with
    | zero => omega
    | succ f =>
      rw [detect_succ]
      split
      · simp
      · rename_i hk
        cases hl : lookup env k with
        | none => simp
        | some target =>
          exfalso
          have hnd' : (path ++ [k]).Nodup := by
            rw [List.nodup_append]
            exact ⟨hnd, by simp, by intro a ha b hb; simp at hb; subst hb; intro e; subst e; exact hk ha⟩
          have hsub : path ++ [k] ⊆ env.map (·.1) := by
            intro x hx
            rcases List.mem_append.mp hx with hx | hx
            · exact mem_keys_of_lookup env x (hkeys x hx)
            · simp at hx; subst hx; exact mem_keys_of_lookup env x (by simp [hl])
          have := hnd'.length_le_of_subset hsub
          simp at this
          omega
  | succ d ih =>
    intro f k path hnd hkeys hlen hf
    cases f with
    | zero => omega
    | succ f =>
      rw [detect_succ]
      split
      · simp
      · rename_i hk
        cases hl : lookup env k with
        | none => simp
        | some target =>
          simp only
          apply findMap_ne_none
          · simp
          · intro n _
            have hnd' : (path ++ [k]).Nodup := by
              rw [List.nodup_append]
              exact ⟨hnd, by simp, by intro a ha b hb; simp at hb; subst hb; intro e; subst e; exact hk ha⟩
            refine ih f n (path ++ [k]) hnd' ?_ (by simp; omega) (by omega)
            intro x hx
            rcases List.mem_append.mp hx with hx | hx
            · exact hkeys x hx
            · simp at hx; subst hx; simp [hl]

/-- `detect_type_alias_cycle(start, …)` returns within `env.length + 1` nested calls -/
theorem detect_total (env : AEnv) (F k : Nat) (hF : env.length + 1 ≤ F) : detect env F k [] ≠ none :=
  detect_ne_none env env.length F k [] List.nodup_nil (by simp) (by simp) hF

/-- REPAIR: if `register_type_aliases` dropped the aliases it flags, the remaining alias graph would be acyclic (given that
names are looked up as written), so `resolve_type_alias` would return on every type within the explicit bound. -/
theorem resolve_after_prune (fb : Nat → Nat) (env : AEnv) (F : Nat) (hF : env.length + 1 ≤ F)
    (hfb : ∀ k t, lookup env k = some t → ∀ n ∈ aliasesOf t, fb n = n) (t : ATy) (fuel : Nat)
    (hf : t.size + atotal (prune (flagged env F) env) ≤ fuel) :
    ∃ r, resolve fb (prune (flagged env F) env) fuel t = some r := by
  apply resolve_total_bound fb _ _ t fuel hf
  apply prune_acyclic fb env F (flagged env F) _ hfb
  intro k a hl hnb
  have hne := detect_total env F k hF
  have hkey : k ∈ env.map (·.1) := mem_keys_of_lookup env k (by simp [hl])
  cases hd : detect env F k [] with
  | none => exact absurd hd hne
  | some o =>
    cases o with
    | none => rfl
    | some c =>
      exfalso
      apply hnb
      simp only [flagged, List.mem_filter]
      exact ⟨hkey, by simp [hd]⟩

end Mimium.TypeRec
