import Mimium.Proofs.Ffi
/-! `decode (encode v ++ rest) = some (v.norm, rest)` for every representable `FfiValue`, any depth. -/
namespace Mimium.Ffi
open Mimium.Gen.Ffi

mutual
/-- fuel that certainly suffices to decode `encode v` -/
def FfiValue.need : FfiValue → Nat
  | .array vs => 1 + needList vs
  | .tuple vs => 1 + needList vs
  | .record fs => 1 + needFields fs
  | .taggedUnion _ v => 1 + v.need
  | _ => 1
def needList : List FfiValue → Nat
  | [] => 0
  | v :: vs => 1 + v.need + needList vs
def needFields : List (String × FfiValue) → Nat
  | [] => 0
  | (_, v) :: fs => 1 + v.need + needFields fs
end

mutual
theorem decode_encode (v : FfiValue) (f : Nat) (rest : Bytes) (hr : v.Rep) (hf : v.need ≤ f) :
    decode f (encode v ++ rest) = some (v.norm, rest) := by
  cases f with
  | zero => cases v <;> simp [FfiValue.need] at hf
  | succ f =>
    cases v with
    | errorV => simp [decode, encode, readU32_encU32, FfiCtor.ofTag_tag, FfiValue.norm]
    | unit => simp [decode, encode, readU32_encU32, FfiCtor.ofTag_tag, FfiValue.norm]
    | number b =>
      simp [decode, encode, List.append_assoc, readU32_encU32, FfiCtor.ofTag_tag, readU64_encU64, FfiValue.norm]
    | string s =>
      simp only [FfiValue.Rep] at hr
      simp [decode, encode, List.append_assoc, readU32_encU32, FfiCtor.ofTag_tag, readStr_encStr _ _ hr, FfiValue.norm]
    | array vs =>
      simp only [FfiValue.Rep] at hr
      simp only [FfiValue.need] at hf
      have := decodeList_encode vs f rest hr.2 (by omega)
      simp [decode, encode, List.append_assoc, readU32_encU32, FfiCtor.ofTag_tag, readLen_encLen _ _ hr.1, this, FfiValue.norm]
    | tuple vs =>
      simp only [FfiValue.Rep] at hr
      simp only [FfiValue.need] at hf
      have := decodeList_encode vs f rest hr.2 (by omega)
      simp [decode, encode, List.append_assoc, readU32_encU32, FfiCtor.ofTag_tag, readLen_encLen _ _ hr.1, this, FfiValue.norm]
    | record fs =>
      simp only [FfiValue.Rep] at hr
      simp only [FfiValue.need] at hf
      have := decodeFields_encode fs f rest hr.2 (by omega)
      simp [decode, encode, List.append_assoc, readU32_encU32, FfiCtor.ofTag_tag, readLen_encLen _ _ hr.1, this, FfiValue.norm]
    | code e =>
      simp [decode, encode, List.append_assoc, readU32_encU32, FfiCtor.ofTag_tag, readKey_encKey, FfiValue.norm]
    | taggedUnion t v =>
      simp only [FfiValue.Rep] at hr
      simp only [FfiValue.need] at hf
      have := decode_encode v f rest hr (by omega)
      simp [decode, encode, List.append_assoc, readU32_encU32, FfiCtor.ofTag_tag, readU64_encU64, this, FfiValue.norm]
theorem decodeList_encode (vs : List FfiValue) (f : Nat) (rest : Bytes) (hr : RepList vs) (hf : needList vs ≤ f) :
    decodeList f vs.length (encodeList vs ++ rest) = some (normList vs, rest) := by
  cases vs with
  | nil => cases f <;> simp [decodeList, encodeList, normList]
  | cons v vs =>
    simp only [RepList] at hr
    simp only [needList] at hf
    cases f with
    | zero => omega
    | succ f =>
      have h1 := decode_encode v f (encodeList vs ++ rest) hr.1 (by omega)
      have h2 := decodeList_encode vs f rest hr.2 (by omega)
      simp [decodeList, encodeList, List.append_assoc, h1, h2, normList]
theorem decodeFields_encode (fs : List (String × FfiValue)) (f : Nat) (rest : Bytes) (hr : RepFields fs)
    (hf : needFields fs ≤ f) :
    decodeFields f fs.length (encodeFields fs ++ rest) = some (normFields fs, rest) := by
  cases fs with
  | nil => cases f <;> simp [decodeFields, encodeFields, normFields]
  | cons kv fs =>
    obtain ⟨k, v⟩ := kv
    simp only [RepFields] at hr
    simp only [needFields] at hf
    cases f with
    | zero => omega
    | succ f =>
      have h1 := decode_encode v f (encodeFields fs ++ rest) hr.2.1 (by omega)
      have h2 := decodeFields_encode fs f rest hr.2.2 (by omega)
      simp [decodeFields, encodeFields, List.append_assoc, readStr_encStr _ _ hr.1, h1, h2, normFields]
end

end Mimium.Ffi
