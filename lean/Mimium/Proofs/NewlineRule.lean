import Mimium.Model.NewlineRule
/-! The parse of the token-level model depends on the line-break oracle only in front of `(`, `[`, `.`. -/
namespace Mimium.NewlineRule

theorem pratt_none (ts : List TK) (nl : Nat → Bool) (f : Nat) (stop : Bool) (mp : Nat) (lhs : List Tree) (i : Nat)
    (h : (infixPrec ts[i]?).isNone = true) : pratt ts nl f stop mp lhs i = (lhs, i) := by
  cases f with
  | zero => simp [pratt]
  | succ f =>
    rw [pratt]
    cases hp : infixPrec ts[i]? with
    | none => rfl
    | some p => simp [hp] at h

/-- the first `has_trailing_linebreak()` test of `parse_expr_with_precedence` has no effect: whether it fires or
not, the function returns the same thing -/
theorem stop_test_vacuous (ts : List TK) (nl : Nat → Bool) (f : Nat) (stop : Bool) (mp : Nat) (lhs : List Tree)
    (i : Nat) (b : Bool) :
    (if (stop && mp == 0 && b && (infixPrec ts[i]?).isNone) = true then (lhs, i) else pratt ts nl f stop mp lhs i)
      = pratt ts nl f stop mp lhs i := by
  by_cases hn : (infixPrec ts[i]?).isNone = true
  · rw [pratt_none ts nl f stop mp lhs i hn]; split <;> rfl
  · simp [hn]

theorem all_congr (ts : List TK) (nl nl' : Nat → Bool) (h : Agree ts nl nl') : ∀ f : Nat,
    (∀ stop mp i, exprPrec ts nl f stop mp i = exprPrec ts nl' f stop mp i) ∧
    (∀ stop mp lhs i, pratt ts nl f stop mp lhs i = pratt ts nl' f stop mp lhs i) ∧
    (∀ i, prefixE ts nl f i = prefixE ts nl' f i) ∧
    (∀ lhs i, postfixL ts nl f lhs i = postfixL ts nl' f lhs i) ∧
    (∀ i, argList ts nl f i = argList ts nl' f i) ∧
    (∀ stop close i, items ts nl f stop close i = items ts nl' f stop close i) ∧
    (∀ i, primary ts nl f i = primary ts nl' f i) := by
  intro f
  induction f with
  | zero =>
    refine ⟨?_, ?_, ?_, ?_, ?_, ?_, ?_⟩ <;> intros <;>
      simp [exprPrec, pratt, prefixE, postfixL, argList, items, primary]
  | succ f ih =>
    obtain ⟨ihE, ihP, ihPre, ihPost, ihArg, ihIt, ihPrim⟩ := ih
    refine ⟨?_, ?_, ?_, ?_, ?_, ?_, ?_⟩
    · intro stop mp i
      simp only [exprPrec, ihPre]
      rw [stop_test_vacuous, stop_test_vacuous, ihP]
    · intro stop mp lhs i
      simp only [pratt]
      cases hp : infixPrec ts[i]? with
      | none => rfl
      | some prec =>
        simp only []
        split
        · rfl
        · simp only [ihE]
          rw [stop_test_vacuous, stop_test_vacuous, ihP]
    · intro i
      simp only [prefixE, ihPre, ihPrim, ihPost]
    · intro lhs i
      simp only [postfixL]
      cases ht : ts[i]? with
      | none => simp
      | some t =>
        cases t with
        | lparen => rw [h i (by simp [ht, sensitive])]; simp only [ihArg, ihPost]
        | dot => rw [h i (by simp [ht, sensitive])]; simp only [ihPost]
        | lbrack => rw [h i (by simp [ht, sensitive])]; simp only [ihE, ihPost]
        | _ => simp
    · intro i
      simp only [argList, ihE, ihIt]
    · intro stop close i
      simp only [items, ihE, ihIt]
    · intro i
      simp only [primary, ihE, ihIt]

theorem stmts_congr (ts : List TK) (nl nl' : Nat → Bool) (h : Agree ts nl nl') :
    ∀ f i, stmts ts nl f i = stmts ts nl' f i := by
  intro f
  induction f with
  | zero => intro i; rfl
  | succ f ih =>
    intro i
    simp only [stmts, (all_congr ts nl nl' h _).1, ih]

/-- the `_no_linebreak` twin of the Pratt parser computes the same function: the line-break tests of
`parse_expr_with_precedence` never change its result -/
theorem stop_irrelevant (ts : List TK) (nl : Nat → Bool) : ∀ f : Nat,
    (∀ mp i, exprPrec ts nl f true mp i = exprPrec ts nl f false mp i) ∧
    (∀ mp lhs i, pratt ts nl f true mp lhs i = pratt ts nl f false mp lhs i) ∧
    (∀ close i, items ts nl f true close i = items ts nl f false close i) := by
  intro f
  induction f with
  | zero => refine ⟨?_, ?_, ?_⟩ <;> intros <;> simp [exprPrec, pratt, items]
  | succ f ih =>
    obtain ⟨ihE, ihP, ihIt⟩ := ih
    refine ⟨?_, ?_, ?_⟩
    · intro mp i
      simp only [exprPrec]
      rw [stop_test_vacuous, stop_test_vacuous, ihP]
    · intro mp lhs i
      simp only [pratt]
      cases hp : infixPrec ts[i]? with
      | none => rfl
      | some prec =>
        simp only []
        split
        · rfl
        · rw [stop_test_vacuous, stop_test_vacuous, ihE, ihP]
    · intro close i
      simp only [items, ihE, ihIt]

end Mimium.NewlineRule
