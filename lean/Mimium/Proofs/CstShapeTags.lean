import Mimium.Proofs.CstShapeExpr
import Mimium.Proofs.CstKeepLoops
/-!
# The remaining grammar functions: primaries, patterns, the comma loops, blocks, declarations
-/
namespace Mimium.Grammar
open Mimium.Gen (Kind SK)
open Mimium.Cst (PState Frame Green)
open Mimium.CstPrint (Ctx IsTok IsNode SepTail ItemOk itemRun ListShape ListBody)

variable {E : Env} {c : Ctx} {rec : Tag → St → St}

/-- a conditional whose two branches establish `P` -/
theorem ite_vc {P : St → Prop} (cnd : Cond) (t e : Cmd) (s : St)
    (ht : evalCond E s cnd = true → Em E c rec (R E c) t s → P (exec E rec t s))
    (he : ¬ evalCond E s cnd = true → Em E c rec (R E c) e s → P (exec E rec e s)) :
    Em E c rec (R E c) (.ite cnd t e) s → P (exec E rec (.ite cnd t e) s) := by
  intro h
  rw [em_ite] at h
  by_cases hc : evalCond E s cnd = true
  · rw [exec_ite_pos _ _ hc]; rw [if_pos hc] at h; exact ht hc h
  · rw [exec_ite_neg _ _ hc]; rw [if_neg hc] at h; exact he hc h

/-- a tree of conditionals whose leaves are `emit_node`s and calls of functions that append one node -/
macro "ite_tree" : tactic => `(tactic| repeat' (first
  | exact fun h => em_node_app _ _ _ h
  | exact fun h => And.left h
  | (refine ite_vc _ _ _ _ (fun hc => ?_) (fun hc => ?_)) ))

theorem errIfSome_false (t : Txt) (s : St) (hp : ¬ evalCond E s (.peekNone 0) = true)
    (h : Em E c rec (R E c) (errIfSome t) s) : False := by
  simp only [errIfSome, Em] at h
  rw [if_neg hp] at h
  exact h

theorem peekNone_of_peekIn (s : St) (ks : List Kind) (h : evalCond E s (.peekIn 0 ks) = true) :
    ¬ evalCond E s (.peekNone 0) = true := by
  obtain ⟨k, hk, _⟩ := (evalCond_peekIn0 s ks).mp h
  simp only [evalCond, Option.isNone_iff_eq_none]
  show ¬ peek E s = none
  rw [hk]; simp

theorem vc_primary (s : St) (h : Em E c rec (R E c) (body .primary) s) : Rs E c .primary s (exec E rec (body .primary) s) := by
  revert h
  show Em E c rec (R E c) (body .primary) s → App P1 s (exec E rec (body .primary) s)
  simp only [body, switch, List.foldr]
  ite_tree
  all_goals try (intro h; exact False.elim h)
  · rename_i hc1 hc2
    exact (peekNone_of_peekIn s _ hc1 hc2).elim
  · rename_i hc
    intro h
    rw [show seqs [errIfSome Txt.expression, Cmd.bump] = .seq (errIfSome .expression) .bump from rfl, em_seq] at h
    refine (errIfSome_false _ s ?_ h.1).elim
    intro hn
    apply hc
    simp only [evalCond, Bool.or_eq_true]
    exact Or.inl hn

/-! ## Patterns -/

theorem vc_pattern (s : St) (hW : W E c s) (h : Em E c rec (R E c) (body .pattern) s) :
    Rs E c .pattern s (exec E rec (body .pattern) s) := by
  revert h
  show Em E c rec (R E c) (body .pattern) s → AppE E P1 s (exec E rec (body .pattern) s)
  simp only [body, switch, List.foldr]
  refine ite_vc _ _ _ _ (fun _ h => Or.inl (em_node_app _ _ _ h)) (fun _ => ?_)
  refine ite_vc _ _ _ _ (fun _ h => Or.inl h.1) (fun _ => ?_)
  refine ite_vc _ _ _ _ (fun _ h => Or.inl h.1) (fun _ => ?_)
  refine ite_vc _ _ _ _ (fun _ h => Or.inl (em_node_app _ _ _ h)) (fun _ => ?_)
  intro h
  rw [show seqs [errIfSome Txt.pattern, Cmd.bump] = .seq (errIfSome .pattern) .bump from rfl, em_seq] at h
  obtain ⟨h1, _, h2⟩ := h
  rw [show seqs [errIfSome Txt.pattern, Cmd.bump] = .seq (errIfSome .pattern) .bump from rfl, exec_seq]
  by_cases hn : evalCond E s (.peekNone 0) = true
  · have hx : exec E rec (errIfSome .pattern) s = s := by
      simp only [errIfSome]; rw [exec_ite_pos _ _ hn, exec_skip]
    rw [hx] at h2 ⊢
    have hp : peek E s = none := by simpa [evalCond] using hn
    exact Or.inr (h2.2 hp)
  · exact (errIfSome_false _ s hn h1).elim

/-! ## The comma loops -/

theorem vc_argLoop (s : St) (h : Em E c rec (R E c) (body .argLoop) s) : Rs E c .argLoop s (exec E rec (body .argLoop) s) :=
  sepLoop_vc .argLoop .ParenEnd (by decide) (.callA .exprPrecNoLb (.const 0)) P1 (fun _ _ h => h) (fun _ _ h => Or.inl (And.left h)) s h

theorem vc_tupleExprLoop (s : St) (h : Em E c rec (R E c) (body .tupleExprLoop) s) :
    Rs E c .tupleExprLoop s (exec E rec (body .tupleExprLoop) s) :=
  sepLoop_vc .tupleExprLoop .ParenEnd (by decide) (.call .expr) PE (fun _ _ h => h) (fun _ _ h => Or.inl (And.left h)) s h

theorem vc_arrayLoop (s : St) (h : Em E c rec (R E c) (body .arrayLoop) s) : Rs E c .arrayLoop s (exec E rec (body .arrayLoop) s) :=
  sepLoop_vc .arrayLoop .ArrayEnd (by decide) (.call .expr) PE (fun _ _ h => h) (fun _ _ h => Or.inl (And.left h)) s h

theorem vc_macroArgLoop (s : St) (h : Em E c rec (R E c) (body .macroArgLoop) s) :
    Rs E c .macroArgLoop s (exec E rec (body .macroArgLoop) s) :=
  sepLoop_vc .macroArgLoop .ParenEnd (by decide) (.call .expr) PE (fun _ _ h => h) (fun _ _ h => Or.inl (And.left h)) s h

theorem vc_tuplePatternLoop (s : St) (h : Em E c rec (R E c) (body .tuplePatternLoop) s) :
    Rs E c .tuplePatternLoop s (exec E rec (body .tuplePatternLoop) s) :=
  sepLoop_vc .tuplePatternLoop .ParenEnd (by decide) (.call .pattern) P1 (fun _ _ h => h) (fun _ _ h => AppE.weak (And.left h)) s h

theorem vc_matchTuplePatternLoop (s : St) (h : Em E c rec (R E c) (body .matchTuplePatternLoop) s) :
    Rs E c .matchTuplePatternLoop s (exec E rec (body .matchTuplePatternLoop) s) :=
  sepLoop_vc .matchTuplePatternLoop .ParenEnd (by decide) (.call .matchPattern) P1 (fun _ _ h => h) (fun _ _ h => Or.inl (And.left h)) s h

/-- `Ident = pattern` -/
theorem recPat_item (s : St) (h : Em E c rec (R E c) (seqs [expectAll [.Ident, .Assign], .call .pattern]) s) :
    AppW E (PRecPat c) s (exec E rec (seqs [expectAll [.Ident, .Assign], .call .pattern]) s) := by
  have hshow : seqs [expectAll [.Ident, .Assign], .call .pattern] = .seq (.seq (expect .Ident) (expect .Assign)) (.call .pattern) := rfl
  rw [hshow, em_seq, em_seq] at h
  rw [hshow, exec_seq, exec_seq]
  obtain ⟨⟨h1, _, h2⟩, _, h3⟩ := h
  obtain ⟨_, x1, t1, w1, e1, o1⟩ := em_expect _ _ h1
  obtain ⟨_, x2, t2, w2, e2, o2⟩ := em_expect _ _ h2
  rcases h3.1 with ⟨w, e3, k, a, rfl⟩ | ⟨_, he⟩
  · refine Or.inl ⟨[.token t1 w1, .token t2 w2, .node k a], ?_, _, _, _, rfl, ⟨t1, w1, rfl, ?_⟩, ⟨t2, w2, rfl, o2.eq rfl⟩, ⟨k, a, rfl⟩⟩
    · have e3' : topCh (exec E rec (.call .pattern) (exec E rec (expect .Assign) (exec E rec (expect .Ident) s))) =
          topCh (exec E rec (expect .Assign) (exec E rec (expect .Ident) s)) ++ [.node k a] := e3
      rw [e3', x2, e2, x1, e1]; simp
    · exact o1.eq rfl
  · exact Or.inr he

theorem vc_recordPatternLoop (s : St) (h : Em E c rec (R E c) (body .recordPatternLoop) s) :
    Rs E c .recordPatternLoop s (exec E rec (body .recordPatternLoop) s) :=
  sepLoop_vc .recordPatternLoop .BlockEnd (by decide) (seqs [expectAll [.Ident, .Assign], .call .pattern]) (PRecPat c) (fun _ _ h => h) (fun s _ h => recPat_item s h) s h

/-! ## Blocks -/

theorem vc_blockLoop (s : St) (h : Em E c rec (R E c) (body .blockLoop) s) : Rs E c .blockLoop s (exec E rec (body .blockLoop) s) := by
  have hshow : body .blockLoop = .ite (.both (.neg (.check .BlockEnd)) (.neg .atEnd))
      (.seq (.progress (.call .statement) .noProgressBlock .skip) (.call .blockLoop)) .skip := rfl
  rw [hshow] at h ⊢
  revert h
  refine ite_vc (P := fun s' => App (fun w => ∀ g ∈ w, IsNode g) s s') _ _ _ _ (fun _ h => ?_) (fun _ _ => ⟨[], by rw [exec_skip]; simp, by simp⟩)
  rw [em_seq] at h
  obtain ⟨h1, _, h2⟩ := h
  rw [exec_seq]
  simp only [Em] at h1
  obtain ⟨h1a, _, _, hx⟩ := h1
  obtain ⟨w1, e1, k, a, rfl⟩ := h1a.1
  rw [hx, exec_skip] at h2 ⊢
  obtain ⟨w2, e2, hw2⟩ := h2.1
  refine ⟨.node k a :: w2, ?_, ?_⟩
  · rw [e2, e1]; simp
  · intro g hg
    rcases List.mem_cons.mp hg with rfl | hg
    · exact ⟨k, a, rfl⟩
    · exact hw2 g hg

/-! ## `use` -/

theorem vc_useMultiLoop (s : St) (h : Em E c rec (R E c) (body .useMultiLoop) s) :
    Rs E c .useMultiLoop s (exec E rec (body .useMultiLoop) s) := by
  have hshow : body .useMultiLoop = .ite (.check .Comma) (.seq .bump (.seq (expect .Ident) (.call .useMultiLoop))) .skip := rfl
  rw [hshow] at h ⊢
  revert h
  refine ite_vc (P := fun s' => App (UM c) s s') _ _ _ _ (fun hc h => ?_) (fun _ _ => ⟨[], by rw [exec_skip]; simp, .nil⟩)
  rw [em_seq, em_seq] at h
  obtain ⟨h1, _, h2, _, h3⟩ := h
  rw [exec_seq, exec_seq]
  obtain ⟨t1, w1, e1, o1⟩ := h1.1 _ ((evalCond_check s .Comma).mp hc)
  obtain ⟨_, x2, t2, w2, e2, o2⟩ := em_expect _ _ h2
  obtain ⟨w3, e3, hw3⟩ := h3.1
  refine ⟨.token t1 w1 :: .token t2 w2 :: w3, ?_, .cons _ _ _ ⟨t1, w1, rfl, o1.eq rfl⟩ ⟨t2, w2, rfl, o2.eq rfl⟩ hw3⟩
  rw [e3, x2, e2, exec_bump, e1]; simp

theorem vc_qualifiedPathLoop (s : St) (h : Em E c rec (R E c) (body .qualifiedPathLoop) s) :
    Rs E c .qualifiedPathLoop s (exec E rec (body .qualifiedPathLoop) s) := by
  have hshow : body .qualifiedPathLoop = .ite (.check .DoubleColon) (.seq .bump (.seq (expect .Ident) (.call .qualifiedPathLoop))) .skip := rfl
  rw [hshow] at h ⊢
  revert h
  refine ite_vc (P := fun s' => App (fun w => ∀ g ∈ w, QPok c g) s s') _ _ _ _ (fun hc h => ?_)
    (fun _ _ => ⟨[], by rw [exec_skip]; simp, by simp⟩)
  rw [em_seq, em_seq] at h
  obtain ⟨h1, _, h2, _, h3⟩ := h
  rw [exec_seq, exec_seq]
  obtain ⟨t1, w1, e1, o1⟩ := h1.1 _ ((evalCond_check s .DoubleColon).mp hc)
  obtain ⟨_, x2, t2, w2, e2, o2⟩ := em_expect _ _ h2
  obtain ⟨w3, e3, hw3⟩ := h3.1
  refine ⟨.token t1 w1 :: .token t2 w2 :: w3, ?_, ?_⟩
  · rw [e3, x2, e2, exec_bump, e1]; simp
  · intro g hg
    simp only [List.mem_cons] at hg
    rcases hg with rfl | rfl | hg
    · exact Or.inr (Or.inr ⟨t1, w1, rfl, o1.eq rfl⟩)
    · exact Or.inr (Or.inl ⟨t2, w2, rfl, o2.eq rfl⟩)
    · exact hw3 g hg

theorem vc_usePathLoop (s : St) (h : Em E c rec (R E c) (body .usePathLoop) s) :
    Rs E c .usePathLoop s (exec E rec (body .usePathLoop) s) := by
  revert h
  show Em E c rec (R E c) (body .usePathLoop) s → App (fun w => ∀ g ∈ w, QPok c g) s (exec E rec (body .usePathLoop) s)
  simp only [body, when_]
  refine ite_vc (P := fun s' => App (fun w => ∀ g ∈ w, QPok c g) s s') _ _ _ _ (fun hc h => ?_)
    (fun _ _ => ⟨[], by rw [exec_skip]; simp, by simp⟩)
  rw [show ∀ x, seqs [Cmd.bump, x] = .seq .bump x from fun _ => rfl, em_seq] at h
  rw [show ∀ x, seqs [Cmd.bump, x] = .seq .bump x from fun _ => rfl, exec_seq]
  obtain ⟨h1, _, h2⟩ := h
  obtain ⟨t1, w1, e1, o1⟩ := h1.1 _ ((evalCond_check s .DoubleColon).mp hc)
  have q1 : QPok c (.token t1 w1) := Or.inr (Or.inr ⟨t1, w1, rfl, o1.eq rfl⟩)
  have key : ∀ s2 : St, App (fun w => ∀ g ∈ w, QPok c g) (exec E rec .bump s) s2 → App (fun w => ∀ g ∈ w, QPok c g) s s2 := by
    intro s2 ⟨w, e, hw⟩
    refine ⟨.token t1 w1 :: w, by rw [e, exec_bump, e1]; simp, ?_⟩
    intro g hg
    rcases List.mem_cons.mp hg with rfl | hg
    · exact q1
    · exact hw g hg
  revert h2
  refine ite_vc (P := fun s' => App (fun w => ∀ g ∈ w, QPok c g) s s') _ _ _ _
    (fun _ h => key _ ⟨_, h.2.2, by intro g hg; simp only [List.mem_singleton] at hg; subst hg; exact Or.inl ⟨_, _, rfl⟩⟩) (fun _ => ?_)
  refine ite_vc (P := fun s' => App (fun w => ∀ g ∈ w, QPok c g) s s') _ _ _ _
    (fun _ h => key _ ⟨_, h.2.2, by intro g hg; simp only [List.mem_singleton] at hg; subst hg; exact Or.inl ⟨_, _, rfl⟩⟩) (fun _ => ?_)
  intro h
  rw [show seqs [expect Kind.Ident, Cmd.call Tag.usePathLoop] = .seq (expect .Ident) (.call .usePathLoop) from rfl, em_seq] at h
  rw [show seqs [expect Kind.Ident, Cmd.call Tag.usePathLoop] = .seq (expect .Ident) (.call .usePathLoop) from rfl, exec_seq]
  obtain ⟨h2, _, h3⟩ := h
  obtain ⟨_, x2, t2, w2, e2, o2⟩ := em_expect _ _ h2
  obtain ⟨w3, e3, hw3⟩ := h3.1
  refine key _ ⟨.token t2 w2 :: w3, by rw [e3, x2, e2]; simp, ?_⟩
  intro g hg
  rcases List.mem_cons.mp hg with rfl | hg
  · exact Or.inr (Or.inl ⟨t2, w2, rfl, o2.eq rfl⟩)
  · exact hw3 g hg

end Mimium.Grammar
