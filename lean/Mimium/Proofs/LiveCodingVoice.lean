import Mimium.Proofs.LiveCoding
import Mimium.Model.Migration
/-!
# lemmas about `Model/LiveCoding.lean` (2): a carried child keeps its state through `swapState`

* `vmResume_carried`: when `carriesRange` accepts a word range of the plan the runtimes apply (`planPatches`), `vmResume`
  succeeds on a storage of the old size, returns a storage of the new size, and every word of the range arrives;
* `serialize_slice`: the words of one cell inside the flat image of a node;
* `swapWords_carried_child`: the child cell `sj` of the tree read back after the swap has the words of the child `si` before;
* `agree_transplant`: replacing that child by the exact old child tree gives an agreeing tree.
-/
namespace Mimium.LiveCoding
open Mimium.Core Mimium.Cells Mimium.StateTree Mimium.FlatTree Mimium.Publish Mimium.HotSwap Mimium.Migration

theorem wordMoved_covers {ps : List Patch} {a b : Nat} (h : wordMoved ps a b = true) :
    ∃ p ∈ ps, p.covers b ∧ p.src + (b - p.dst) = a := by
  simp only [wordMoved, List.any_eq_true, Bool.and_eq_true, decide_eq_true_eq, beq_iff_eq] at h
  obtain ⟨p, hp, ⟨h1, h2⟩, h3⟩ := h
  refine ⟨p, hp, ?_, ?_⟩
  · simp only [Patch.covers]; omega
  · omega

/-- the VM's migration carries an accepted range word for word, whichever branch `new_resume` takes -/
theorem vmResume_carried (o n : Sk) (old : List Nat) (hlen : old.length = o.size) (srcOff dstOff size : Nat)
    (hb : dstOff + size ≤ n.size)
    (h : carriesRange (planPatches o n) srcOff dstOff size = true) :
    ∃ ws, vmResume o n old = some ws ∧ ws.length = n.size ∧
      ∀ k, k < size → ws.getD (dstOff + k) 0 = old.getD (srcOff + k) 0 := by
  simp only [carriesRange, List.all_eq_true, List.mem_range] at h
  cases hbp : buildPlan o n with
  | none =>
    have hm : o.matches n = true := by
      unfold buildPlan at hbp
      split at hbp
      · assumption
      · simp at hbp
    refine ⟨old, by simp [vmResume, hbp], by rw [hlen, matches_size o n hm], fun k hk => ?_⟩
    obtain ⟨p, hp, hc, he⟩ := wordMoved_covers (h k hk)
    simp only [planPatches, hbp, List.mem_singleton] at hp
    subst hp
    simp only [Patch.covers] at hc
    have : dstOff + k = srcOff + k := by simp at he; omega
    rw [this]
  | some plan =>
    have hplan : plan = ⟨n.size, takeDiff o n⟩ := by
      unfold buildPlan at hbp
      split at hbp
      · simp at hbp
      · simpa using hbp.symm
    obtain ⟨ws, hws, hl⟩ := C08_apply_total o n old hlen plan hbp
    refine ⟨ws, by simp [vmResume, hbp, hws], hl, fun k hk => ?_⟩
    have hws' : ws = applyPatches old (List.replicate n.size 0) (takeDiff o n) := by
      subst hplan
      unfold applyPlan? at hws
      split at hws
      · simpa using hws.symm
      · simp at hws
    obtain ⟨p, hp, hc, he⟩ := wordMoved_covers (h k hk)
    simp only [planPatches, hbp, hplan] at hp
    rw [hws', C08_copied_words o n old (dstOff + k) (by omega) p hp hc, he]

theorem slice_eq (ws : List Nat) (w : List UInt64) (srcOff dstOff size : Nat) (h1 : dstOff + size ≤ ws.length)
    (h2 : srcOff + size ≤ w.length)
    (h : ∀ k, k < size → ws.getD (dstOff + k) 0 = (wordsToNat w).getD (srcOff + k) 0) :
    ((natToWords ws).drop dstOff).take size = (w.drop srcOff).take size := by
  apply List.ext_getElem
  · simp [natToWords]; omega
  · intro k hk1 hk2
    have hk : k < size := by simp at hk1; omega
    have := h k hk
    simp only [wordsToNat, List.getD_eq_getElem?_getD] at this
    rw [List.getElem?_eq_getElem (by omega), List.getElem?_eq_getElem (by simp; omega)] at this
    simp only [Option.getD_some, List.getElem_map] at this
    simp only [List.getElem_take, List.getElem_drop, natToWords, List.getElem_map, this]
    simp

theorem serialize_slice (lay : LNode) (pre post : List LCell) (c : LCell) (hcells : lay.cells = pre ++ c :: post)
    (st : SNode) (hc : Conforms lay st) :
    ((serialize lay st).drop (selfSize lay.self + sizeCells pre)).take c.size = serCell c st := by
  obtain ⟨hs, hcl⟩ := hc
  rw [hcells] at hcl
  have hcl' := (confL_append pre (c :: post) st).1 hcl
  simp only [ConfL] at hcl'
  have l1 := selfWords_length lay.self st hs
  have l2 := serCells_length pre st hcl'.1
  have l3 := serCell_length c st hcl'.2.1
  simp only [serialize, hcells, serCells_append, serCells]
  rw [← List.append_assoc, drop_left' _ _ _ (by simp [l1, l2]), take_left' _ _ _ l3]

theorem serCell_child (site : Nat) (self : Option Shape) (cells : List LCell) (st : SNode) :
    serCell (.child site self cells) st = serialize ⟨self, cells⟩ (st.childAt site) := by
  simp [serCell, serialize]

theorem lnode_size_split (lay : LNode) (pre post : List LCell) (c : LCell) (hcells : lay.cells = pre ++ c :: post) :
    lay.size = selfSize lay.self + sizeCells pre + c.size + sizeCells post := by
  simp [LNode.size, hcells, sizeCells_append, sizeCells]; omega

theorem publishedSk_size (lay : LNode) : (publishedSk lay).size = lay.size := by
  rw [(publishedSk_spec lay).2.1, LNode.sk_size]

/-- **the carried child keeps its words through the swap.**  Layouts `lo` (old `dsp`) and `ln` (new `dsp`) both contain a
child cell with the labelled layout `⟨self, cells⟩` (site `si` in the old, `sj` in the new program).  If the plan the runtimes
apply carries the child's word range, the migration succeeds on the flat image of every conforming tree `st`, and the child
`sj` of the tree read back under `ln` has exactly the flat words of the child `si` of `st`; the tree read back is canonical -/
theorem swapWords_carried_child (lo ln : LNode) (hln : ln.Ok) (preO postO preN postN : List LCell) (si sj : Nat)
    (self : Option Shape) (cells : List LCell)
    (hco : lo.cells = preO ++ .child si self cells :: postO) (hcn : ln.cells = preN ++ .child sj self cells :: postN)
    (st : SNode) (hconf : Conforms lo st)
    (hcar : carriesRange (planPatches (publishedSk lo) (publishedSk ln)) (selfSize lo.self + sizeCells preO)
      (selfSize ln.self + sizeCells preN) (LNode.size ⟨self, cells⟩) = true) :
    ∃ ws, swapWords lo ln st = some ws ∧ ws.length = ln.size ∧ Canon ln (deserialize ln ws) ∧
      serialize ⟨self, cells⟩ ((deserialize ln ws).childAt sj) = serialize ⟨self, cells⟩ (st.childAt si) := by
  have hsz : (LCell.child si self cells).size = LNode.size ⟨self, cells⟩ := by simp [LCell.size, LNode.size]
  have hsz' : (LCell.child sj self cells).size = LNode.size ⟨self, cells⟩ := by simp [LCell.size, LNode.size]
  have hlen := serialize_length lo st hconf
  have hso := lnode_size_split lo preO postO _ hco
  have hsn := lnode_size_split ln preN postN _ hcn
  obtain ⟨ws, hws, hwl, hwk⟩ := vmResume_carried (publishedSk lo) (publishedSk ln) (wordsToNat (serialize lo st))
    (by rw [wordsToNat_length, hlen, publishedSk_size]) _ _ _ (by rw [publishedSk_size, hsn, hsz']; omega) hcar
  rw [publishedSk_size] at hwl
  have hr := serialize_deserialize ln (natToWords ws) hln (by simp [natToWords, hwl])
  refine ⟨natToWords ws, by simp [swapWords, hws], by simp [natToWords, hwl], hr.2, ?_⟩
  have hc' : Conforms ln (deserialize ln (natToWords ws)) := canon_conforms ln _ hln hr.2
  have e1 := serialize_slice ln preN postN _ hcn _ hc'
  have e2 := serialize_slice lo preO postO _ hco st hconf
  rw [hr.1, hsz', serCell_child] at e1
  rw [hsz, serCell_child] at e2
  rw [← e1, ← e2]
  exact slice_eq ws _ _ _ _ (by rw [hwl, hsn, hsz']; omega) (by rw [hlen, hso, hsz]; omega) hwk

/-- `ConformsS` of a child is `ConfS` of its cell -/
theorem conformsS_child (lay : LNode) (pre post : List LCell) (s : Nat) (self : Option Shape) (cells : List LCell)
    (hcells : lay.cells = pre ++ .child s self cells :: post) (st : SNode) (h : ConformsS lay st) :
    ConformsS ⟨self, cells⟩ (st.childAt s) := by
  have h2 := h.2
  rw [hcells] at h2
  have : ∀ (a b : List LCell), ConfSL (a ++ b) st → ConfSL b st := by
    intro a
    induction a with
    | nil => intro b hb; simpa using hb
    | cons x xs ih => intro b hb; simp only [List.cons_append, ConfSL] at hb; exact ih b hb.2
  have h3 := this pre _ h2
  simp only [ConfSL, ConfS] at h3
  exact h3.1

/-- replacing the child `sj` of a tree by a tree with the same flat words gives an agreeing tree -/
theorem agree_transplant (ln : LNode) (hln : ln.Ok) (preN postN : List LCell) (sj : Nat) (self : Option Shape)
    (cells : List LCell) (hcn : ln.cells = preN ++ .child sj self cells :: postN)
    (st' ch : SNode) (hst' : ConformsS ln st') (hch : ConformsS ⟨self, cells⟩ ch)
    (hw : serialize ⟨self, cells⟩ (st'.childAt sj) = serialize ⟨self, cells⟩ ch) :
    Agree ln st' (st'.setCell sj (.child ch)) := by
  have hmem : LCell.child sj self cells ∈ ln.cells := by rw [hcn]; simp
  refine ⟨selfv_initSelf_eq _ _ _ (by simp), (agreeL_iff _ _ _).2 ?_⟩
  intro c hc
  by_cases e : c.site = sj
  · have : c = .child sj self cells := site_unique ln.cells c _ hln hc hmem (by simpa [LCell.site] using e)
    subst this
    simp only [AgreeC, childAt_set]
    exact agree_of_words ⟨self, cells⟩ _ ch (conformsS_child ln preN postN sj self cells hcn st' hst') hch hw
  · refine (AgreeC_congr c _ _ _ _ rfl ?_).1 (AgreeC.refl c st')
    simp [lookup_set_ne _ _ _ _ (fun h => e h.symm)]

end Mimium.LiveCoding

namespace Mimium.LiveCoding
open Mimium.Core Mimium.Cells Mimium.StateTree Mimium.FlatTree Mimium.Publish Mimium.HotSwap Mimium.Migration

/-! ### unfolding a session with one swap event -/

theorem step_t (fuel : Nat) (P : Prog) (sr : UInt64) (m : Machine) (ins o : List UInt64) (m' : Machine)
    (h : Machine.step fuel P sr m ins = .ok (o, m')) : m'.t = m.t + 1 := by
  rw [machine_step_eq] at h
  simp only [Core.andThen] at h
  split at h
  · simp at h
  · simp only [Except.ok.injEq, Prod.mk.injEq] at h
    rw [← h.2]

theorem init_t (fuel : Nat) (P : Prog) (sr : UInt64) (m0 : Machine) (h : Machine.init fuel P sr = .ok m0) :
    m0.t = 0 ∧ m0.root = SNode.empty := by
  simp only [Machine.init] at h
  split at h
  · simp at h
  · simp only [Except.ok.injEq] at h
    rw [← h]; exact ⟨rfl, rfl⟩

theorem eventsAt_nil_of_lt (swaps : List (Nat × Prog)) (t : Nat) (h : ∀ e ∈ swaps, e.1 ≠ t) : eventsAt swaps t = [] := by
  simp only [eventsAt, List.map_eq_nil_iff, List.filter_eq_nil_iff, beq_iff_eq]
  exact h

/-- once every event time has passed, the session is the plain run -/
theorem sessionFrom_no_events (fuel : Nat) (sr : UInt64) (swaps : List (Nat × Prog)) (inputs : Nat → List UInt64) :
    ∀ (k : Nat) (P : Prog) (A : Machine), (∀ e ∈ swaps, e.1 < A.t) →
      sessionFrom fuel sr swaps inputs k P A = sessionFrom fuel sr [] inputs k P A
  | 0, _, _, _ => rfl
  | k + 1, P, A, h => by
    have e1 : eventsAt swaps A.t = [] := eventsAt_nil_of_lt swaps A.t (fun e he => by have := h e he; omega)
    have e0 : eventsAt [] A.t = [] := rfl
    rw [sessionFrom, sessionFrom, e1, e0]
    simp only [swapMany]
    cases hs : Machine.step fuel P sr A (inputs A.t) with
    | error e => rfl
    | ok r =>
      obtain ⟨o, A1⟩ := r
      have ht := step_t fuel P sr A _ o A1 hs
      simp only [sessionFrom_no_events fuel sr swaps inputs k P A1 (fun e he => by have := h e he; omega)]

theorem prefixRun_t (fuel : Nat) (P : Prog) (sr : UInt64) (inputs : Nat → List UInt64) :
    ∀ (n : Nat) (A : Machine) (o1 : List (List UInt64)) (m : Machine),
      prefixRun fuel P sr inputs n A = some (o1, m) → m.t = A.t + n
  | 0, A, o1, m, h => by simp only [prefixRun, Option.some.injEq, Prod.mk.injEq] at h; rw [← h.2]; rfl
  | n + 1, A, o1, m, h => by
    simp only [prefixRun] at h
    cases hs : Machine.step fuel P sr A (inputs A.t) with
    | error e => simp [hs] at h
    | ok r =>
      obtain ⟨o, A1⟩ := r
      simp only [hs] at h
      cases hp : prefixRun fuel P sr inputs n A1 with
      | none => simp [hp] at h
      | some r2 =>
        obtain ⟨o2, m2⟩ := r2
        simp only [hp, Option.map_some, Option.some.injEq, Prod.mk.injEq] at h
        have := prefixRun_t fuel P sr inputs n A1 o2 m2 hp
        rw [← h.2, this, step_t fuel P sr A _ o A1 hs]; omega

/-- before the first event the session is the uninterrupted run of the first program -/
theorem sessionFrom_prefix (fuel : Nat) (sr : UInt64) (swaps : List (Nat × Prog)) (inputs : Nat → List UInt64) (P : Prog)
    (k : Nat) : ∀ (n : Nat) (A : Machine), (∀ e ∈ swaps, A.t + n ≤ e.1) →
      sessionFrom fuel sr swaps inputs (n + k) P A =
        match prefixRun fuel P sr inputs n A with
        | none => none
        | some (o1, m) => (sessionFrom fuel sr swaps inputs k P m).map (o1 ++ ·)
  | 0, A, _ => by simp [prefixRun]
  | n + 1, A, h => by
    have e1 : eventsAt swaps A.t = [] := eventsAt_nil_of_lt swaps A.t (fun e he => by have := h e he; omega)
    rw [show n + 1 + k = (n + k) + 1 by omega, sessionFrom, e1]
    simp only [swapMany, prefixRun]
    cases hs : Machine.step fuel P sr A (inputs A.t) with
    | error e => rfl
    | ok r =>
      obtain ⟨o, A1⟩ := r
      have ht := step_t fuel P sr A _ o A1 hs
      simp only [sessionFrom_prefix fuel sr swaps inputs P k n A1 (fun e he => by have := h e he; omega)]
      cases prefixRun fuel P sr inputs n A1 with
      | none => rfl
      | some r2 =>
        obtain ⟨o2, m2⟩ := r2
        simp only [Option.map_some, Option.map_map]
        congr 1

/-- **a session with one swap event**: `n` samples of the old program, the swap, then the plain run of whatever the swap
leaves (the new program on the migrated machine; the old pair when the new program does not compile) -/
theorem session_one_swap (fuel : Nat) (sr : UInt64) (Pold Pnew : Prog) (inputs : Nat → List UInt64) (n k : Nat)
    (m0 : Machine) (hinit : Machine.init fuel Pold sr = .ok m0) (o1 : List (List UInt64)) (m : Machine)
    (hpre : prefixRun fuel Pold sr inputs n m0 = some (o1, m)) :
    session fuel sr Pold [(n, Pnew)] inputs (n + (k + 1)) =
      match swapOne fuel sr Pold m Pnew with
      | none => none
      | some (P', m') => (sessionFrom fuel sr [] inputs (k + 1) P' m').map (o1 ++ ·) := by
  have ht0 := (init_t fuel Pold sr m0 hinit).1
  have htm := prefixRun_t fuel Pold sr inputs n m0 o1 m hpre
  simp only [session, hinit]
  rw [sessionFrom_prefix fuel sr _ inputs Pold (k + 1) n m0 (by simp [ht0]), hpre]
  simp only
  have ev : eventsAt [(n, Pnew)] m.t = [Pnew] := by simp [eventsAt, htm, ht0]
  have e0 : eventsAt [] m.t = ([] : List Prog) := rfl
  rw [sessionFrom, ev]
  simp only [swapMany]
  cases hsw : swapOne fuel sr Pold m Pnew with
  | none => rfl
  | some r =>
    obtain ⟨P', m'⟩ := r
    have htm' : m'.t = m.t := by
      unfold swapOne at hsw
      split at hsw
      · simp only [Option.some.injEq, Prod.mk.injEq] at hsw; rw [← hsw.2]
      · split at hsw
        · simp only [Option.some.injEq, Prod.mk.injEq] at hsw; rw [← hsw.2]
        · simp at hsw
    simp only
    rw [sessionFrom]
    have e0' : eventsAt [] m'.t = ([] : List Prog) := rfl
    rw [e0']
    simp only [swapMany]
    cases hs : Machine.step fuel P' sr m' (inputs m'.t) with
    | error e => rfl
    | ok r2 =>
      obtain ⟨o, m2⟩ := r2
      have ht := step_t fuel P' sr m' _ o m2 hs
      simp only [sessionFrom_no_events fuel sr [(n, Pnew)] inputs k P' m2 (by simp; omega)]

end Mimium.LiveCoding

namespace Mimium.LiveCoding
open Mimium.Core Mimium.Cells Mimium.StateTree Mimium.FlatTree Mimium.Publish Mimium.HotSwap Mimium.Migration

/-! ### `carriesChild` (child indices of the published skeleton) and `carriesRange` (word offsets of the labelled layout) -/

theorem skCells_append : ∀ (a b : List LCell), skCells (a ++ b) = skCells a ++ skCells b
  | [], _ => rfl
  | c :: a, b => by simp [skCells, skCells_append a b]

theorem skCells_length : ∀ (a : List LCell), (skCells a).length = a.length
  | [] => rfl
  | c :: a => by simp [skCells, skCells_length a]

theorem sizeL_feedOf (self : Option Shape) : sizeL (feedOf self) = selfSize self := by
  cases self <;> simp [feedOf, sizeL, selfSize, Sk.size]

/-- the child of the erased layout at the index of a labelled cell, and its offset -/
theorem children_at (lay : LNode) (pre post : List LCell) (c : LCell) (hcells : lay.cells = pre ++ c :: post) :
    (children lay.sk)[(feedOf lay.self).length + pre.length]? = some c.sk ∧
    offsetOf (children lay.sk) ((feedOf lay.self).length + pre.length) = selfSize lay.self + sizeCells pre := by
  have hch : children lay.sk = (feedOf lay.self ++ skCells pre) ++ c.sk :: skCells post := by
    simp [children, LNode.sk, hcells, skCells_append, skCells]
  have hl : (feedOf lay.self ++ skCells pre).length = (feedOf lay.self).length + pre.length := by
    simp [skCells_length]
  refine ⟨?_, ?_⟩
  · rw [hch, ← hl, List.getElem?_append_right (Nat.le_refl _)]; simp
  · rw [offsetOf, hch, ← hl, List.take_left' rfl, FlatTree.sizeL_append, sizeL_feedOf, skCells_size]

/-- when nothing is pruned from the two skeletons (every call site of `dsp` is a function WITH state), `carriesChild` at
the child indices of the two cells is `carriesRange` at their word offsets -/
theorem carriesRange_of_carriesChild (lo ln : LNode) (preO postO preN postN : List LCell) (co cn : LCell)
    (hco : lo.cells = preO ++ co :: postO) (hcn : ln.cells = preN ++ cn :: postN)
    (hpo : publishedSk lo = lo.sk) (hpn : publishedSk ln = ln.sk)
    (h : carriesChild (publishedSk lo) (publishedSk ln) ((feedOf lo.self).length + preO.length)
      ((feedOf ln.self).length + preN.length) = true) :
    co.size = cn.size ∧
    carriesRange (planPatches (publishedSk lo) (publishedSk ln)) (selfSize lo.self + sizeCells preO)
      (selfSize ln.self + sizeCells preN) co.size = true := by
  obtain ⟨e1, o1⟩ := children_at lo preO postO co hco
  obtain ⟨e2, o2⟩ := children_at ln preN postN cn hcn
  rw [hpo, hpn] at h ⊢
  simp only [carriesChild, e1, e2, o1, o2, Bool.and_eq_true, beq_iff_eq, sk_size] at h
  exact h

end Mimium.LiveCoding

namespace Mimium.LiveCoding
open Mimium.Core Mimium.Cells Mimium.StateTree Mimium.FlatTree Mimium.Publish Mimium.HotSwap Mimium.Migration

/-! ### a child that receives no word starts from zero -/

theorem lookup_empty (s : Nat) : lookupCell SNode.empty.cells s = none := rfl

theorem childAt_empty' (s : Nat) : SNode.empty.childAt s = SNode.empty := by
  simp [SNode.childAt, lookup_empty]

mutual
/-- the never-evaluated node serialises to zeros -/
theorem serCell_empty : ∀ (c : LCell), serCell c SNode.empty = List.replicate c.size 0
  | .mem s => by simp [serCell, SNode.memAt, lookup_empty, LCell.size]
  | .delay s n => by
    simp only [serCell, SNode.ringAt, lookup_empty, Ring.zero, Ring.words, LCell.size, delayExtra_eq]
    rw [show 2 + n = n + 1 + 1 by omega]
    simp [List.replicate_succ]
  | .child s self cells => by
    simp only [serCell, childAt_empty', LCell.size, serCells_empty cells]
    cases self with
    | none => simp [selfWords, selfSize]
    | some sh => simp [selfWords, selfSize, SNode.empty, SNode.selfv, List.replicate_append_replicate]
theorem serCells_empty : ∀ (cs : List LCell), serCells cs SNode.empty = List.replicate (sizeCells cs) 0
  | [] => by simp [serCells, sizeCells]
  | c :: cs => by
    simp only [serCells, sizeCells, serCell_empty c, serCells_empty cs, List.replicate_append_replicate]
end

theorem serialize_empty (lay : LNode) : serialize lay SNode.empty = List.replicate lay.size 0 := by
  simp only [serialize, serCells_empty, LNode.size]
  cases lay.self with
  | none => simp [selfWords, selfSize]
  | some sh => simp [selfWords, selfSize, SNode.empty, SNode.selfv, List.replicate_append_replicate]

mutual
theorem confS_empty : ∀ (c : LCell), LayOk c → ConfS c SNode.empty
  | .mem _, _ => by simp [ConfS]
  | .delay s n, h => by
    simp only [LayOk] at h
    simp [ConfS, SNode.ringAt, lookup_empty, Ring.zero]
  | .child s self cells, h => by
    simp only [LayOk] at h
    simp only [ConfS, childAt_empty']
    refine ⟨?_, confSL_empty cells h⟩
    cases self with
    | none => simp [SelfOkS, SNode.empty, SNode.selfv]
    | some sh => intro v hv; simp [SNode.empty, SNode.selfv] at hv
theorem confSL_empty : ∀ (cs : List LCell), LayOkL cs → ConfSL cs SNode.empty
  | [], _ => by simp [ConfSL]
  | c :: cs, h => by
    simp only [LayOkL] at h
    simp only [ConfSL]
    exact ⟨confS_empty c h.1, confSL_empty cs h.2.2⟩
end

/-- words no patch covers are zero after the VM's migration, whichever branch `new_resume` takes -/
theorem vmResume_uncovered (o n : Sk) (old : List Nat) (hlen : old.length = o.size) (dstOff size : Nat)
    (hb : dstOff + size ≤ n.size)
    (h : ∀ p ∈ planPatches o n, ∀ k, k < size → ¬ p.covers (dstOff + k)) :
    ∃ ws, vmResume o n old = some ws ∧ ws.length = n.size ∧ ∀ k, k < size → ws.getD (dstOff + k) 0 = 0 := by
  cases hbp : buildPlan o n with
  | none =>
    have hm : o.matches n = true := by
      unfold buildPlan at hbp
      split at hbp
      · assumption
      · simp at hbp
    refine ⟨old, by simp [vmResume, hbp], by rw [hlen, matches_size o n hm], fun k hk => ?_⟩
    exfalso
    refine h ⟨0, 0, n.size⟩ (by simp [planPatches, hbp]) k hk ?_
    simp only [Patch.covers]; omega
  | some plan =>
    have hplan : plan = ⟨n.size, takeDiff o n⟩ := by
      unfold buildPlan at hbp
      split at hbp
      · simp at hbp
      · simpa using hbp.symm
    obtain ⟨ws, hws, hl⟩ := C08_apply_total o n old hlen plan hbp
    refine ⟨ws, by simp [vmResume, hbp, hws], hl, fun k hk => ?_⟩
    have hws' : ws = applyPatches old (List.replicate n.size 0) (takeDiff o n) := by
      subst hplan
      unfold applyPlan? at hws
      split at hws
      · simpa using hws.symm
      · simp at hws
    rw [hws']
    refine C08_others_zero o n old (dstOff + k) (by omega) (fun p hp => h p ?_ k hk)
    simp [planPatches, hbp, hplan, hp]

theorem slice_zero (ws : List Nat) (dstOff size : Nat) (h1 : dstOff + size ≤ ws.length)
    (h : ∀ k, k < size → ws.getD (dstOff + k) 0 = 0) :
    ((natToWords ws).drop dstOff).take size = List.replicate size 0 := by
  apply List.ext_getElem
  · simp [natToWords]; omega
  · intro k hk1 hk2
    have hk : k < size := by simpa using hk2
    have := h k hk
    simp only [List.getD_eq_getElem?_getD] at this
    rw [List.getElem?_eq_getElem (by omega)] at this
    simp only [Option.getD_some] at this
    simp only [List.getElem_take, List.getElem_drop, natToWords, List.getElem_map, this, List.getElem_replicate]
    rfl

/-- **a child that receives no word starts from zero.**  If no patch of the plan the runtimes apply touches the word range
of the child cell `sj` of the new layout, the migration succeeds on the flat image of every conforming tree, and the child
`sj` of the tree read back has the flat words of a never-evaluated instance -/
theorem swapWords_fresh_child (lo ln : LNode) (hln : ln.Ok) (preN postN : List LCell) (sj : Nat)
    (self : Option Shape) (cells : List LCell) (hcn : ln.cells = preN ++ .child sj self cells :: postN)
    (st : SNode) (hconf : Conforms lo st)
    (hnone : ∀ p ∈ planPatches (publishedSk lo) (publishedSk ln), ∀ k, k < LNode.size ⟨self, cells⟩ →
      ¬ p.covers (selfSize ln.self + sizeCells preN + k)) :
    ∃ ws, swapWords lo ln st = some ws ∧ ws.length = ln.size ∧ Canon ln (deserialize ln ws) ∧
      serialize ⟨self, cells⟩ ((deserialize ln ws).childAt sj) = serialize ⟨self, cells⟩ SNode.empty := by
  have hsz' : (LCell.child sj self cells).size = LNode.size ⟨self, cells⟩ := by simp [LCell.size, LNode.size]
  have hlen := serialize_length lo st hconf
  have hsn := lnode_size_split ln preN postN _ hcn
  obtain ⟨ws, hws, hwl, hwk⟩ := vmResume_uncovered (publishedSk lo) (publishedSk ln) (wordsToNat (serialize lo st))
    (by rw [wordsToNat_length, hlen, publishedSk_size]) _ _ (by rw [publishedSk_size, hsn, hsz']; omega) hnone
  rw [publishedSk_size] at hwl
  have hr := serialize_deserialize ln (natToWords ws) hln (by simp [natToWords, hwl])
  refine ⟨natToWords ws, by simp [swapWords, hws], by simp [natToWords, hwl], hr.2, ?_⟩
  have hc' : Conforms ln (deserialize ln (natToWords ws)) := canon_conforms ln _ hln hr.2
  have e1 := serialize_slice ln preN postN _ hcn _ hc'
  rw [hr.1, hsz', serCell_child] at e1
  rw [← e1, serialize_empty]
  exact slice_zero ws _ _ (by rw [hwl, hsn, hsz']; omega) hwk

end Mimium.LiveCoding
