import Mimium.Proofs.CstPrintSimple
import Mimium.Proofs.CstPrintLoops
import Mimium.Proofs.CstPrintBlock
import Mimium.Proofs.CstPrintUse
import Mimium.Proofs.CstPrintRecord
import Mimium.Proofs.CstPrintLambda
/-! One induction on the tree: in the class `keepsAll` the content of the document is the expected content of the tree. -/
namespace Mimium.CstPrint
open Mimium.Gen (Kind SK)
open Mimium.Cst (Green)
open SDoc

/-- every print function, on children whose documents are the children's documents, in its class: content = the children's content -/
theorem pf_content (c : Ctx) (pf : PF) (cs : List Ch) (hch : ∀ ch ∈ cs, ChOk c ch) (hk : pfKeeps c pf cs = true) :
    content c (printPF c pf cs) = chContent c cs := by
  cases pf <;> simp only [pfKeeps, printPF, Bool.and_eq_true, Bool.not_eq_true'] at hk ⊢
  case program => exact program_content c cs
  case functionDecl => exact functionDecl_content c cs
  case letDecl => exact let_content c _ cs hch hk
  case letrecDecl => exact let_content c _ cs hch hk
  case binaryExpr => exact bin_content c cs hch hk
  case unaryExpr => exact leafChildren_content c cs
  case callExpr => exact groupedConcat_content c cs
  case lambdaExpr => exact lam_content c cs hch hk.1 hk.2
  case ifExpr => exact if_content c cs hch hk
  case blockExpr => exact block_content c cs hch hk.1 hk.2
  case tupleExpr =>
    unfold printTupleExpr
    split
    · exact leafChildren_content c cs
    · next h => simp only [h, Bool.false_or] at hk; exact list_content c cs hch hk
  case recordExpr => exact rec_content c cs hch hk.1 hk.2
  case parenExpr => exact groupedConcat_content c cs
  case macroExpansion => exact mac_content c cs hch hk
  case assignExpr => exact assignExpr_content c cs
  case exprList => exact leafChildren_content c cs
  case moduleDecl => exact moduleDecl_content c cs
  case useStmt => exact use_content c cs hch hk
  case qualifiedPath => exact qualifiedPath_content c cs hk
  case useTargetMultiple => exact useMulti_content c cs hch hk
  case useTargetWildcard => exact useTargetWildcard_content c cs hk
  case visibilityPub => exact visibilityPub_content c cs hk
  case matchExpr => exact matchExpr_content c cs
  case matchArmList => exact matchArmList_content c cs
  case matchArm => exact matchArm_content c cs
  case typeDecl => exact typeDecl_content c cs
  case commaSpacedChildren => exact commaSpaced_content c cs
  case leafChildren => exact leafChildren_content c cs
  case groupedList => exact list_content c cs hch hk
  case errorText => simpa using hk.symm

theorem node_content (c : Ctx) (k : Nat) (cs : List Ch) (hch : ∀ ch ∈ cs, ChOk c ch) (hk : nodeKeeps c k cs = true) :
    content c (printNode c k cs) = chContent c cs := by
  unfold nodeKeeps at hk
  unfold printNode
  split
  · next sk h => rw [h] at hk; exact pf_content c _ cs hch hk
  · next h => rw [h] at hk; simp at hk

theorem chL_ok (c : Ctx) : ∀ (gs : List Green), ∀ ch ∈ chL c gs, ChOk c ch := by
  intro gs
  induction gs with
  | nil => intro ch h; simp [chL] at h
  | cons g gs ih =>
    intro ch h
    simp only [chL, List.mem_cons] at h
    rcases h with h | h
    · subst h; rfl
    · exact ih ch h

mutual
theorem format_content_aux (c : Ctx) : ∀ (g : Green), keepsAll c g = true → content c (cstToDoc c g) = expected c g
  | .token i w, _ => by
    simp only [cstToDoc, content_emitTokenWithTrivia, expected, Green.leaves, List.flatMap_cons, List.flatMap_nil, List.append_nil]
  | .node k cs, h => by
    simp only [keepsAll, Bool.and_eq_true] at h
    simp only [cstToDoc]
    rw [node_content c k _ (chL_ok c cs) h.1, format_content_auxL c cs h.2]
    simp [expected, expectedL, Green.leaves]
theorem format_content_auxL (c : Ctx) : ∀ (gs : List Green), keepsAllL c gs = true → chContent c (chL c gs) = expectedL c gs
  | [], _ => by simp [chL, chContent, expectedL, Cst.leavesL]
  | g :: gs, h => by
    simp only [keepsAllL, Bool.and_eq_true] at h
    simp only [chL, chContent_cons]
    rw [format_content_aux c g h.1, format_content_auxL c gs h.2]
    simp [expected, expectedL, Cst.leavesL]
end

end Mimium.CstPrint
