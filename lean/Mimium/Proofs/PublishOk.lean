import Mimium.Proofs.Publish
/-!
The layout `pubE` computes has distinct sibling sites and word-sized ring lengths (`LayOkL`) when the stateful sites of
every function body are pairwise distinct and the ring lengths fit a machine word (`SitesOk`).
-/
namespace Mimium.Publish
open Mimium.Core Mimium.StateTree Mimium.FlatTree

theorem sitesOf_append : ∀ (a b : List LCell), sitesOf (a ++ b) = sitesOf a ++ sitesOf b
  | [], _ => rfl
  | c :: a, b => by simp [sitesOf, sitesOf_append a b]

theorem layOkL_append : ∀ (a b : List LCell),
    LayOkL (a ++ b) ↔ LayOkL a ∧ LayOkL b ∧ ∀ s ∈ sitesOf a, s ∉ sitesOf b
  | [], b => by simp [LayOkL, sitesOf]
  | c :: a, b => by
    simp only [List.cons_append, LayOkL, sitesOf, layOkL_append a b, sitesOf_append, List.mem_append, List.mem_cons]
    constructor
    · rintro ⟨hc, hn, ha, hb, hd⟩
      refine ⟨⟨hc, fun h => hn (Or.inl h), ha⟩, hb, ?_⟩
      rintro s (rfl | hs)
      · exact fun h => hn (Or.inr h)
      · exact hd s hs
    · rintro ⟨⟨hc, hn, ha⟩, hb, hd⟩
      refine ⟨hc, ?_, ha, hb, fun s hs => hd s (Or.inr hs)⟩
      rintro (h | h)
      · exact hn h
      · exact hd _ (Or.inl rfl) h

/-- sites pairwise distinct, ring lengths word-sized -/
def LensOk (l : List (Nat × Nat)) : Prop := (l.map (·.1)).Nodup ∧ ∀ p ∈ l, p.2 < 2 ^ 64

theorem lensOk_append (l1 l2 : List (Nat × Nat)) :
    LensOk (l1 ++ l2) ↔ LensOk l1 ∧ LensOk l2 ∧ ∀ a ∈ l1.map (·.1), ∀ b ∈ l2.map (·.1), a ≠ b := by
  unfold LensOk
  rw [List.map_append, List.nodup_append]
  constructor
  · rintro ⟨⟨h1, h2, hd⟩, hp⟩
    exact ⟨⟨h1, fun p hp1 => hp p (List.mem_append_left _ hp1)⟩, ⟨h2, fun p hp2 => hp p (List.mem_append_right _ hp2)⟩, hd⟩
  · rintro ⟨⟨h1, p1⟩, ⟨h2, p2⟩, hd⟩
    refine ⟨⟨h1, h2, hd⟩, fun p hp => ?_⟩
    rcases List.mem_append.1 hp with h | h
    · exact p1 p h
    · exact p2 p h

/-- `seg` is a good layout segment for the stateful constructs `l` -/
def Good (l : List (Nat × Nat)) (seg : List LCell) : Prop := LayOkL seg ∧ ∀ s ∈ sitesOf seg, s ∈ l.map (·.1)

theorem Good.nil (l : List (Nat × Nat)) : Good l [] := ⟨by simp [LayOkL], by simp [sitesOf]⟩

theorem Good.append {l1 l2 : List (Nat × Nat)} {s1 s2 : List LCell} (hl : LensOk (l1 ++ l2))
    (h1 : Good l1 s1) (h2 : Good l2 s2) : Good (l1 ++ l2) (s1 ++ s2) := by
  obtain ⟨_, _, hd⟩ := (lensOk_append l1 l2).1 hl
  refine ⟨(layOkL_append s1 s2).2 ⟨h1.1, h2.1, fun s hs hs2 => hd s (h1.2 s hs) s (h2.2 s hs2) rfl⟩, ?_⟩
  intro s hs
  rw [sitesOf_append, List.mem_append] at hs
  rw [List.map_append, List.mem_append]
  rcases hs with hs | hs
  · exact Or.inl (h1.2 s hs)
  · exact Or.inr (h2.2 s hs)

theorem Good.left {l1 : List (Nat × Nat)} {s : List LCell} (l2 : List (Nat × Nat)) (h : Good l1 s) : Good (l1 ++ l2) s :=
  ⟨h.1, fun x hx => by rw [List.map_append, List.mem_append]; exact Or.inl (h.2 x hx)⟩

theorem Good.right {l2 : List (Nat × Nat)} {s : List LCell} (l1 : List (Nat × Nat)) (h : Good l2 s) : Good (l1 ++ l2) s :=
  ⟨h.1, fun x hx => by rw [List.map_append, List.mem_append]; exact Or.inr (h.2 x hx)⟩

theorem Good.single (c : LCell) (n : Nat) (hc : LayOk c) : Good [(c.site, n)] [c] :=
  ⟨by simp [LayOkL, sitesOf, hc], by simp [sitesOf]⟩

theorem LensOk.left {l1 l2 : List (Nat × Nat)} (h : LensOk (l1 ++ l2)) : LensOk l1 := ((lensOk_append l1 l2).1 h).1
theorem LensOk.right {l1 l2 : List (Nat × Nat)} (h : LensOk (l1 ++ l2)) : LensOk l2 := ((lensOk_append l1 l2).1 h).2.1

/-- table entries have distinct sibling sites -/
def TableOk (tbl : Table) : Prop := ∀ f lay, tbl f = some lay → LayOkL lay.cells

mutual
theorem pubE_good (tbl : Table) (ht : TableOk tbl) :
    ∀ (e : Expr) (seg : List LCell), LensOk (siteLens e) → pubE tbl e = some seg → Good (siteLens e) seg
  | .lit _, seg, _, h => by rw [pubE] at h; cases h; exact Good.nil _
  | .var _, seg, _, h => by rw [pubE] at h; cases h; exact Good.nil _
  | .now, seg, _, h => by rw [pubE] at h; cases h; exact Good.nil _
  | .samplerate, seg, _, h => by rw [pubE] at h; cases h; exact Good.nil _
  | .self, seg, _, h => by rw [pubE] at h; cases h; exact Good.nil _
  | .lam _ _, seg, _, h => by rw [pubE] at h; cases h; exact Good.nil _
  | .un _ a, seg, hl, h => by
    rw [pubE] at h; rw [siteLens] at hl ⊢
    exact pubE_good tbl ht a seg hl h
  | .proj a _, seg, hl, h => by
    rw [pubE] at h; rw [siteLens] at hl ⊢
    exact pubE_good tbl ht a seg hl h
  | .bin _ a b, seg, hl, h => by
    obtain ⟨s1, s2, h1, h2, rfl⟩ := pubE_bin_inv h
    rw [siteLens] at hl ⊢
    exact Good.append hl (pubE_good tbl ht a s1 hl.left h1) (pubE_good tbl ht b s2 hl.right h2)
  | .letE _ a b, seg, hl, h => by
    obtain ⟨s1, s2, h1, h2, rfl⟩ := pubE_letE_inv h
    rw [siteLens] at hl ⊢
    exact Good.append hl (pubE_good tbl ht a s1 hl.left h1) (pubE_good tbl ht b s2 hl.right h2)
  | .letTup _ a b, seg, hl, h => by
    obtain ⟨s1, s2, h1, h2, rfl⟩ := pubE_letTup_inv h
    rw [siteLens] at hl ⊢
    exact Good.append hl (pubE_good tbl ht a s1 hl.left h1) (pubE_good tbl ht b s2 hl.right h2)
  | .assign _ a b, seg, hl, h => by
    obtain ⟨s1, s2, h1, h2, rfl⟩ := pubE_assign_inv h
    rw [siteLens] at hl ⊢
    exact Good.append hl (pubE_good tbl ht a s1 hl.left h1) (pubE_good tbl ht b s2 hl.right h2)
  | .ite c a b, seg, hl, h => by
    obtain ⟨sc, sa, sb, hc, h1, h2, rfl⟩ := pubE_ite_inv h
    rw [siteLens] at hl ⊢
    have ga := pubE_good tbl ht a sa hl.right.left h1
    have gb := pubE_good tbl ht b sb hl.right.right h2
    exact Good.append hl (pubE_good tbl ht c sc hl.left hc) (Good.append hl.right ga gb)
  | .tup es, seg, hl, h => by
    rw [pubE] at h; rw [siteLens] at hl ⊢
    exact pubL_good tbl ht es seg hl h
  | .app f args, seg, hl, h => by
    obtain ⟨s1, s2, h1, h2, rfl⟩ := pubE_app_inv h
    rw [siteLens] at hl ⊢
    exact Good.append hl (pubE_good tbl ht f s1 hl.left h1) (pubL_good tbl ht args s2 hl.right h2)
  | .mem a site, seg, hl, h => by
    obtain ⟨s, h1, rfl⟩ := pubE_mem_inv h
    rw [siteLens] at hl ⊢
    exact Good.append hl (pubE_good tbl ht a s hl.left h1) (Good.single (.mem site) 0 (by simp [LayOk]))
  | .delay n a t site, seg, hl, h => by
    obtain ⟨s1, s2, h1, h2, rfl⟩ := pubE_delay_inv h
    rw [siteLens] at hl ⊢
    have hn : n < 2 ^ 64 := hl.2 (site, n) (by simp)
    exact Good.append hl (Good.append hl.left (pubE_good tbl ht a s1 hl.left.left h1) (pubE_good tbl ht t s2 hl.left.right h2))
      (Good.single (.delay site n) n (by simpa [LayOk] using hn))
  | .call f args site, seg, hl, h => by
    obtain ⟨s, lay, h1, hf, rfl⟩ := pubE_call_inv h
    rw [siteLens] at hl ⊢
    exact Good.append hl (pubL_good tbl ht args s hl.left h1)
      (Good.single (.child site lay.self lay.cells) 0 (by simpa [LayOk] using ht f lay hf))
theorem pubL_good (tbl : Table) (ht : TableOk tbl) :
    ∀ (es : List Expr) (seg : List LCell), LensOk (siteLensL es) → pubL tbl es = some seg → Good (siteLensL es) seg
  | [], seg, _, h => by rw [pubL] at h; cases h; exact Good.nil _
  | e :: es, seg, hl, h => by
    obtain ⟨s1, s2, h1, h2, rfl⟩ := pubL_cons_inv h
    rw [siteLensL] at hl ⊢
    exact Good.append hl (pubE_good tbl ht e s1 hl.left h1) (pubL_good tbl ht es s2 hl.right h2)
end

theorem findFn_mem {fns : List FnDecl} {f : String} {d : FnDecl} (h : findFn fns f = some d) : d ∈ fns := by
  unfold findFn at h
  exact List.mem_of_find?_eq_some h

/-- the function table of a program with unique sites has the property at every depth -/
theorem table_ok (P : Prog) (hs : SitesUnique P) : ∀ n, TableOk (table P n)
  | 0 => by intro f lay h; simp [table] at h
  | n + 1 => by
    intro f lay h
    simp only [table] at h
    cases hd : findFn P.fns f with
    | none => simp [hd] at h
    | some d =>
      simp only [hd] at h
      cases hb : pubE (table P n) d.body with
      | none => simp [hb] at h
      | some cells =>
        simp only [hb, Option.some.injEq] at h
        subst h
        exact (pubE_good _ (table_ok P hs n) d.body cells (hs d (findFn_mem hd)) hb).1

theorem publishEN_ok (n : Nat) (P : Prog) (e : Expr) (seg : List LCell) (hs : SitesUnique P) (he : SitesOk e)
    (h : publishEN n P e = some seg) : LayOkL seg :=
  (pubE_good _ (table_ok P hs n) e seg he h).1

end Mimium.Publish
