import Mimium.Model.Unify
import Mimium.Proofs.OccursSeq
/-! Whatever `unify_types` / `unify_types_args` return (success or error, any fuel), the store they leave is acyclic and keeps
every binding of the store they started from. -/
namespace Mimium.Unify
open Mimium.Occurs (parent Acyclic)

/-- `σ'` keeps every binding of `σ` (a bound variable is never re-bound) -/
def Ext (σ σ' : Store) : Prop := ∀ v p, parent σ v = some p → parent σ' v = some p

theorem Ext.refl (σ : Store) : Ext σ σ := fun _ _ h => h
theorem Ext.trans {a b c : Store} (h1 : Ext a b) (h2 : Ext b c) : Ext a c := fun v p h => h2 v p (h1 v p h)

/-- the store `σ'` left by a call started on `σ` -/
def Inv (σ σ' : Store) : Prop := Acyclic (absS σ') ∧ Ext σ σ'

theorem Inv.refl {σ : Store} (h : Acyclic (absS σ)) : Inv σ σ := ⟨h, Ext.refl σ⟩
theorem Inv.trans {a b c : Store} (h1 : Inv a b) (h2 : Inv b c) : Inv a c := ⟨h2.1, h1.2.trans h2.2⟩

/-- a store-threading computation started on `σ` -/
def Pres {α : Type} (σ : Store) (o : Option (Store × α)) : Prop := ∀ σ' x, o = some (σ', x) → Inv σ σ'

/-- a unification function all of whose calls satisfy the invariant -/
def Good (u : U) : Prop := ∀ σ a b, Acyclic (absS σ) → Pres σ (u σ a b)

theorem pres_none {α : Type} (σ : Store) : Pres σ (none : Option (Store × α)) := by intro σ' x h; cases h

theorem pres_some {α : Type} {σ σ' : Store} (x : α) (h : Inv σ σ') : Pres σ (some (σ', x)) := by
  intro σ'' y e
  simp only [Option.some.injEq, Prod.mk.injEq] at e
  obtain ⟨rfl, _⟩ := e
  exact h

theorem Pres.mono {α : Type} {σ0 σ : Store} {o : Option (Store × α)} (h0 : Inv σ0 σ) (h : Pres σ o) : Pres σ0 o :=
  fun σ' x e => h0.trans (h σ' x e)

theorem parent_absS (σ : Store) (v : Nat) : parent (absS σ) v = (parent σ v).map abs := by
  induction σ with
  | nil => simp [absS, parent]
  | cons e rest ih =>
    obtain ⟨w, t⟩ := e
    simp only [absS, List.map_cons, parent] at ih ⊢
    by_cases hw : w = v
    · simp [hw]
    · simp only [hw, if_false]; exact ih

theorem absS_cons (σ : Store) (v : Nat) (t : Ty) : absS ((v, t) :: σ) = (v, abs t) :: absS σ := rfl

theorem asVar_eq {t : Ty} {v : Nat} (h : asVar t = some v) : t = .var v := by
  cases t <;> simp [asVar] at h; subst h; rfl

/-- a root that is a variable is unbound -/
theorem root_var_unbound (σ : Store) : ∀ (g : Nat) (t : Ty) (v : Nat), root σ g t = some (.var v) → parent σ v = none := by
  intro g
  induction g with
  | zero => intro t v h; simp [root] at h
  | succ g ih =>
    intro t v h
    cases t with
    | var w =>
      simp only [root] at h
      cases hp : parent σ w with
      | none =>
        simp only [hp, Option.some.injEq, Ty.var.injEq] at h
        subst h
        exact hp
      | some p =>
        simp only [hp] at h
        exact ih p v h
    | _ => simp [root] at h

theorem ext_cons {σ : Store} {v : Nat} (t : Ty) (hv : parent σ v = none) : Ext σ ((v, t) :: σ) := by
  intro w p hw
  simp only [parent]
  by_cases h : v = w
  · subst h; rw [hv] at hw; cases hw
  · simp [h, hw]

/-- `(Intermediate, _)` / `(_, Intermediate)` -/
theorem bind_pres (g : Nat) {σ : Store} (hσ : Acyclic (absS σ)) {v : Nat} (hv : parent σ v = none) (t : Ty) :
    Pres σ (bind g σ v t) := by
  unfold bind
  cases ho : occurs g σ v t with
  | none => exact pres_none σ
  | some b =>
    cases b with
    | true => exact pres_some _ (Inv.refl hσ)
    | false =>
      refine pres_some _ ⟨?_, ext_cons t hv⟩
      rw [absS_cons]
      exact Occurs.acyclic_cons (absS σ) v (abs t) hσ (Occurs.occ_sound (absS σ) v g (abs t) ho)

/-- `(Intermediate, Intermediate)`: both are roots, so neither reaches the other (the occurs check of this arm adds nothing) -/
theorem varVar_pres (g : Nat) {σ : Store} (hσ : Acyclic (absS σ)) {v1 v2 : Nat} (h1 : parent σ v1 = none) (h2 : parent σ v2 = none)
    (t2 : Ty) : Pres σ (varVar g σ v1 v2 t2) := by
  unfold varVar
  by_cases he : v1 = v2
  · simp only [he, if_true]; exact pres_some _ (Inv.refl hσ)
  · simp only [he, if_false]
    have hu1 : parent (absS σ) v1 = none := by rw [parent_absS, h1]; rfl
    have hu2 : parent (absS σ) v2 = none := by rw [parent_absS, h2]; rfl
    cases ho : occurs g σ v1 t2 with
    | none => exact pres_none σ
    | some b =>
      cases b with
      | true => exact pres_some _ (Inv.refl hσ)
      | false =>
        simp only
        split
        · refine pres_some _ ⟨?_, ext_cons _ h2⟩
          rw [absS_cons]
          refine Occurs.acyclic_cons (absS σ) v2 (abs (.var v1)) hσ ?_
          intro w hw hr
          simp only [abs, Occurs.vars, List.mem_singleton] at hw
          subst hw
          exact he (Occurs.RV.of_unbound hu1 hr)
        · refine pres_some _ ⟨?_, ext_cons _ h1⟩
          rw [absS_cons]
          refine Occurs.acyclic_cons (absS σ) v1 (abs (.var v2)) hσ ?_
          intro w hw hr
          simp only [abs, Occurs.vars, List.mem_singleton] at hw
          subst hw
          exact he (Occurs.RV.of_unbound hu2 hr).symm

theorem varArms_pres (g : Nat) {σ : Store} (hσ : Acyclic (absS σ)) (g1 g2 : Nat) (t1 t2 t1r t2r : Ty)
    (hr1 : root σ g1 t1 = some t1r) (hr2 : root σ g2 t2 = some t2r) (out : Out) (h : varArms g σ t2 t1r t2r = some out) :
    Pres σ out := by
  unfold varArms at h
  split at h
  · rename_i v1 v2 e1 e2
    have := asVar_eq e1; have := asVar_eq e2; subst_vars
    simp only [Option.some.injEq] at h; subst h
    exact varVar_pres g hσ (root_var_unbound σ g1 t1 v1 hr1) (root_var_unbound σ g2 t2 v2 hr2) t2
  · rename_i v1 e1 _
    have := asVar_eq e1; subst_vars
    simp only [Option.some.injEq] at h; subst h
    exact bind_pres g hσ (root_var_unbound σ g1 t1 v1 hr1) _
  · rename_i v2 _ e2
    have := asVar_eq e2; subst_vars
    simp only [Option.some.injEq] at h; subst h
    exact bind_pres g hσ (root_var_unbound σ g2 t2 v2 hr2) _
  · cases h

/-! ## the list walkers -/

theorem vecPass_pres {u : U} (hu : Good u) : ∀ (as bs : List Ty) (σ : Store), Acyclic (absS σ) → Pres σ (vecPass u σ as bs) := by
  intro as
  induction as with
  | nil => intro bs σ hσ; simp only [vecPass]; exact pres_some _ (Inv.refl hσ)
  | cons a as ih =>
    intro bs σ hσ
    cases bs with
    | nil => simp only [vecPass]; exact pres_some _ (Inv.refl hσ)
    | cons b bs =>
      simp only [vecPass]
      cases h1 : u σ a b with
      | none => exact pres_none σ
      | some o1 =>
        obtain ⟨σ1, r⟩ := o1
        have i1 := hu σ a b hσ σ1 r h1
        simp only
        cases h2 : vecPass u σ1 as bs with
        | none => exact pres_none σ
        | some o2 =>
          obtain ⟨σ2, rs⟩ := o2
          exact pres_some _ (i1.trans (ih bs σ1 i1.1 σ2 rs h2))

theorem pairRes_pres {u : U} (hu : Good u) (σ : Store) (hσ : Acyclic (absS σ)) (p : Option F × Option F) : Pres σ (pairRes u σ p) := by
  obtain ⟨a, b⟩ := p
  cases a with
  | none => cases b <;> (simp only [pairRes]; exact pres_some _ (Inv.refl hσ))
  | some s1 =>
    cases b with
    | none => simp only [pairRes]; exact pres_some _ (Inv.refl hσ)
    | some s2 =>
      simp only [pairRes]
      cases h1 : u σ s1.ty s2.ty with
      | none => exact pres_none σ
      | some o1 =>
        obtain ⟨σ1, r⟩ := o1
        have i1 := hu σ _ _ hσ σ1 r h1
        cases r <;> exact pres_some _ i1

theorem passUntil_pres {u : U} (hu : Good u) (stop : SRes → Bool) : ∀ (ps : List (Option F × Option F)) (σ : Store),
    Acyclic (absS σ) → Pres σ (passUntil u stop σ ps) := by
  intro ps
  induction ps with
  | nil => intro σ hσ; simp only [passUntil]; exact pres_some _ (Inv.refl hσ)
  | cons p ps ih =>
    intro σ hσ
    simp only [passUntil]
    cases h1 : pairRes u σ p with
    | none => exact pres_none σ
    | some o1 =>
      obtain ⟨σ1, r⟩ := o1
      have i1 := pairRes_pres hu σ hσ p σ1 r h1
      simp only
      split
      · exact pres_some _ i1
      · exact Pres.mono i1 (ih σ1 i1.1)

theorem passErrs_pres {u : U} (hu : Good u) : ∀ (ps : List (Option F × Option F)) (σ : Store),
    Acyclic (absS σ) → Pres σ (passErrs u σ ps) := by
  intro ps
  induction ps with
  | nil => intro σ hσ; simp only [passErrs]; exact pres_some _ (Inv.refl hσ)
  | cons p ps ih =>
    intro σ hσ
    simp only [passErrs]
    cases h1 : pairRes u σ p with
    | none => exact pres_none σ
    | some o1 =>
      obtain ⟨σ1, r⟩ := o1
      have i1 := pairRes_pres hu σ hσ p σ1 r h1
      simp only
      cases h2 : passErrs u σ1 ps with
      | none => exact pres_none σ
      | some o2 =>
        obtain ⟨σ2, es⟩ := o2
        exact pres_some _ (i1.trans (ih σ1 i1.1 σ2 es h2))

theorem recordArm_pres {u : U} (hu : Good u) (σ : Store) (hσ : Acyclic (absS σ)) (a1 a2 : List F) : Pres σ (recordArm u σ a1 a2) := by
  unfold recordArm
  simp only
  cases h1 : passUntil u (fun r => !isBoth r) σ (recPairs a1 a2) with
  | none => exact pres_none σ
  | some o1 =>
    obtain ⟨σ1, b1⟩ := o1
    have i1 := passUntil_pres hu _ _ σ hσ σ1 b1 h1
    simp only
    cases h2 : passErrs u σ1 (recPairs a1 a2) with
    | none => exact pres_none σ
    | some o2 =>
      obtain ⟨σ2, es⟩ := o2
      have i2 := i1.trans (passErrs_pres hu _ σ1 i1.1 σ2 es h2)
      simp only
      cases h3 : passUntil u isA σ2 (recPairs a1 a2) with
      | none => exact pres_none σ
      | some o3 =>
        obtain ⟨σ3, b3⟩ := o3
        have i3 := i2.trans (passUntil_pres hu _ _ σ2 i2.1 σ3 b3 h3)
        simp only
        cases h4 : passUntil u isB σ3 (recPairs a1 a2) with
        | none => exact pres_none σ
        | some o4 =>
          obtain ⟨σ4, b4⟩ := o4
          have i4 := i3.trans (passUntil_pres hu _ _ σ3 i3.1 σ4 b4 h4)
          simp only
          repeat' split
          all_goals exact pres_some _ i4

theorem firstHit_pres {try1 : Store → Ty → Out} (ht : ∀ σ m, Acyclic (absS σ) → Pres σ (try1 σ m)) (hit : Res → Bool) :
    ∀ (ms : List Ty) (σ : Store), Acyclic (absS σ) → Pres σ (firstHit try1 hit σ ms) := by
  intro ms
  induction ms with
  | nil => intro σ hσ; simp only [firstHit]; exact pres_some _ (Inv.refl hσ)
  | cons m ms ih =>
    intro σ hσ
    simp only [firstHit]
    cases h1 : try1 σ m with
    | none => exact pres_none σ
    | some o1 =>
      obtain ⟨σ1, r⟩ := o1
      have i1 := ht σ m hσ σ1 r h1
      simp only
      split
      · exact pres_some _ i1
      · exact Pres.mono i1 (ih σ1 i1.1)

theorem allOf_pres {ok1 : Store → Ty → Option (Store × Bool)} (ht : ∀ σ m, Acyclic (absS σ) → Pres σ (ok1 σ m)) :
    ∀ (ms : List Ty) (σ : Store), Acyclic (absS σ) → Pres σ (allOf ok1 σ ms) := by
  intro ms
  induction ms with
  | nil => intro σ hσ; simp only [allOf]; exact pres_some _ (Inv.refl hσ)
  | cons m ms ih =>
    intro σ hσ
    simp only [allOf]
    cases h1 : ok1 σ m with
    | none => exact pres_none σ
    | some o1 =>
      obtain ⟨σ1, b⟩ := o1
      have i1 := ht σ m hσ σ1 b h1
      cases b with
      | true => exact Pres.mono i1 (ih σ1 i1.1)
      | false => exact pres_some _ i1

/-- post-processing of one call (`match u σ a b with | none => none | some (σ', r) => some (σ', k r)`) -/
theorem pres_map {α : Type} {u : U} (hu : Good u) (σ : Store) (hσ : Acyclic (absS σ)) (a b : Ty) (k : Res → α) :
    Pres σ (match u σ a b with | none => none | some (σ', r) => some (σ', k r)) := by
  cases h1 : u σ a b with
  | none => exact pres_none σ
  | some o1 => obtain ⟨σ1, r⟩ := o1; exact pres_some _ (hu σ a b hσ σ1 r h1)

end Mimium.Unify
