import Mimium.Proofs.CstKeepLoops
/-!
# Shape ⇒ `ok` tests for `print_lambda_expr`: `|`, parameters without a `|` token whose commas follow content, `|`, children without a `|` token
-/
namespace Mimium.CstPrint
open Mimium.Gen (Kind SK)
open Mimium.Cst (Green)
open SDoc

variable (c : Ctx)

def NoBar (g : Green) : Prop := ¬ IsTok c .LambdaArgBeginEnd g

def LamShape (cs : List Green) : Prop :=
  ∃ ib wb params ie we rest, c.kind ib = .LambdaArgBeginEnd ∧ c.kind ie = .LambdaArgBeginEnd ∧
    cs = .token ib wb :: (params ++ .token ie we :: rest) ∧ (∀ g ∈ params, NoBar c g) ∧ commasFollowItems c false params = true ∧
    (∀ g ∈ rest, NoBar c g)

structure LI1 (st : LamSt) (p : Bool) : Prop where
  ip : st.inParams = true
  ap : st.afterParams = false
  len : st.seps.length = st.params.length
  hc : st.hasParamContent = p
  cur : p = false → st.current = nil

theorem lam_params (w : List Green) : ∀ (p : Bool) (st : LamSt), LI1 st p → (∀ g ∈ w, NoBar c g) → commasFollowItems c p w = true →
    allOk (lamStep c) (lamOk c) st (chL c w) = true ∧ ∃ p', LI1 ((chL c w).foldl (lamStep c) st) p' := by
  induction w with
  | nil => intro p st h _ _; exact ⟨rfl, p, h⟩
  | cons g gs ih =>
    intro p st h hn hs
    have hg := hn g (by simp)
    have hgs : ∀ x ∈ gs, NoBar c x := fun x hx => hn x (by simp [hx])
    cases g with
    | node k a =>
      simp only [commasFollowItems, tokKind] at hs
      have hst : LI1 (lamStep c st (.node k a, cstToDoc c (.node k a))) true := by
        refine ⟨?_, ?_, ?_, ?_, ?_⟩ <;> simp [lamStep, lamOther, h.ip, h.ap, h.len]
      obtain ⟨i1, i2⟩ := ih true _ hst hgs (by simpa using hs)
      simp only [chL, allOk, List.foldl_cons, Bool.and_eq_true]
      exact ⟨⟨by simp [lamOk, lamOtherOk, h.ip], i1⟩, i2⟩
    | token i w =>
      have hnb : (c.kind i == Kind.LambdaArgBeginEnd) = false := by
        simp only [beq_eq_false_iff_ne, ne_eq]
        intro he; exact hg ⟨i, w, rfl, he⟩
      by_cases hk : c.kind i = .Comma
      · simp only [commasFollowItems, tokKind, hk, beq_self_eq_true, if_true, Bool.and_eq_true] at hs
        have hp : p = true := hs.1
        subst hp
        have hcm : (c.kind i == Kind.Comma && st.inParams) = true := by simp [hk, h.ip]
        have hpush : pushCommaComments c st.seps (st.params.length + 1) i = st.seps ++ [emitTokenComments c i] :=
          pushCommaComments_eq c st.seps _ i (by simp [h.len])
        have hst : LI1 (lamStep c st (.token i w, cstToDoc c (.token i w))) false := by
          refine ⟨?_, ?_, ?_, ?_, ?_⟩ <;> simp [lamStep, hnb, hk, hcm, h.hc, hpush, h.ip, h.ap, h.len]
        obtain ⟨i1, i2⟩ := ih false _ hst hgs hs.2
        simp only [chL, allOk, List.foldl_cons, Bool.and_eq_true]
        exact ⟨⟨by simp [lamOk, hnb, hk, hcm, h.hc, h.len, h.ip], i1⟩, i2⟩
      · have hkc : (c.kind i == Kind.Comma) = false := by simpa using hk
        simp only [commasFollowItems, tokKind, Option.some.injEq, beq_iff_eq, hk, if_false] at hs
        have har : (c.kind i == Kind.Arrow && st.afterParams) = false := by simp [h.ap]
        have hst : LI1 (lamStep c st (.token i w, cstToDoc c (.token i w))) true := by
          refine ⟨?_, ?_, ?_, ?_, ?_⟩ <;> simp [lamStep, lamOther, hnb, hkc, har, h.ip, h.ap, h.len]
        obtain ⟨i1, i2⟩ := ih true _ hst hgs (by simpa using hs)
        simp only [chL, allOk, List.foldl_cons, Bool.and_eq_true]
        exact ⟨⟨by simp [lamOk, lamOtherOk, hnb, hkc, har, h.ip], i1⟩, i2⟩

theorem lam_rest (w : List Green) : ∀ (st : LamSt), st.inParams = false → st.afterParams = true → (∀ g ∈ w, NoBar c g) →
    allOk (lamStep c) (lamOk c) st (chL c w) = true ∧ ((chL c w).foldl (lamStep c) st).inParams = false := by
  induction w with
  | nil => intro st h _ _; exact ⟨rfl, h⟩
  | cons g gs ih =>
    intro st h1 h2 hn
    have hg := hn g (by simp)
    have hgs : ∀ x ∈ gs, NoBar c x := fun x hx => hn x (by simp [hx])
    have hstep : lamOk c st (g, cstToDoc c g) = true ∧ (lamStep c st (g, cstToDoc c g)).inParams = false ∧
        (lamStep c st (g, cstToDoc c g)).afterParams = true := by
      cases g with
      | node k a =>
        refine ⟨by simp [lamOk, lamOtherOk, h2], ?_, ?_⟩ <;>
          (simp only [lamStep, lamOther, h1, h2]; repeat' split) <;> simp_all
      | token i w =>
        have hnb : (c.kind i == Kind.LambdaArgBeginEnd) = false := by
          simp only [beq_eq_false_iff_ne, ne_eq]
          intro he; exact hg ⟨i, w, rfl, he⟩
        have hcm : (c.kind i == Kind.Comma && st.inParams) = false := by simp [h1]
        refine ⟨?_, ?_, ?_⟩
        · simp only [lamOk, hnb, hcm, h2, Bool.and_true, lamOtherOk, h1]
          repeat' split
          all_goals simp_all
        · simp only [lamStep, lamOther, hnb, hcm, h1, h2, Bool.and_true]
          repeat' split
          all_goals simp_all
        · simp only [lamStep, lamOther, hnb, hcm, h1, h2, Bool.and_true]
          repeat' split
          all_goals simp_all
    obtain ⟨i1, i2⟩ := ih _ hstep.2.1 hstep.2.2 hgs
    simp only [chL, allOk, List.foldl_cons, Bool.and_eq_true]
    exact ⟨⟨hstep.1, i1⟩, i2⟩

theorem lamShape_ok (cs : List Green) (h : LamShape c cs) :
    (allOk (lamStep c) (lamOk c) {} (chL c cs) && !((chL c cs).foldl (lamStep c) {}).inParams) = true := by
  obtain ⟨ib, wb, params, ie, we, rest, kb, ke, rfl, hp, hs, hr⟩ := h
  have h0 : LI1 (lamStep c {} (.token ib wb, cstToDoc c (.token ib wb))) false := by
    refine ⟨?_, ?_, ?_, ?_, ?_⟩ <;> simp [lamStep, kb]
  obtain ⟨p1, p', p2⟩ := lam_params c params false _ h0 hp hs
  simp only [chL, chL_append, allOk, allOk_append, List.foldl_cons, List.foldl_append, Bool.and_eq_true, Bool.not_eq_true']
  generalize (chL c params).foldl (lamStep c) (lamStep c {} (.token ib wb, cstToDoc c (.token ib wb))) = st at p2 ⊢
  have hclose : lamOk c st (.token ie we, cstToDoc c (.token ie we)) = true := by
    simp only [lamOk, ke, beq_self_eq_true, if_true, p2.ip, p2.ap]
    cases hp' : p' with
    | true => simp [p2.hc, hp', p2.len]
    | false => simp [p2.hc, hp', p2.cur hp', emp_nil, p2.len]
  have hafter : (lamStep c st (.token ie we, cstToDoc c (.token ie we))).inParams = false ∧
      (lamStep c st (.token ie we, cstToDoc c (.token ie we))).afterParams = true := by
    constructor <;> simp [lamStep, ke, p2.ip, p2.ap]
  obtain ⟨r1, r2⟩ := lam_rest c rest _ hafter.1 hafter.2 hr
  exact ⟨⟨by simp [lamOk, kb], p1, hclose, r1⟩, r2⟩

end Mimium.CstPrint
