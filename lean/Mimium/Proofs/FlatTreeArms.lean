import Mimium.Proofs.FlatTreeVisits
/-!
# state inside `if` arms: the evaluator's state effect is the tree operations of the cells REACHED

After the repair of finding F3 the compiler publishes the cells of both arms of an `if` (`VisitsA`: condition, `then`,
`else`).  One evaluation reaches the cells of the condition and of the arm it takes; the cells of the other arm are
skipped (`CPay.skip`: no tree operation).  `eval_visitsA` (induction on the fuel over all 18 constructs): the state effect
of `Core.eval` on an expression that `VisitsA` the cells `seg` IS `treeCells seg ps` for a payload `ps` shaped like `seg`
up to skipped cells — no class condition on the program.
-/
namespace Mimium.FlatTree
open Mimium.Core Mimium.Cells Mimium.StateTree Mimium.Layout Mimium.StateMachine

theorem payShapeAL_append : ∀ (s1 : List LCell) (p1 : List CPay) (s2 : List LCell) (p2 : List CPay),
    PayShapeAL s1 p1 → PayShapeAL s2 p2 → PayShapeAL (s1 ++ s2) (p1 ++ p2)
  | [], [], _, _, _, h2 => by simpa using h2
  | [], _ :: _, _, _, h1, _ => by simp [PayShapeAL] at h1
  | _ :: _, [], _, _, h1, _ => by simp [PayShapeAL] at h1
  | c :: s1, p :: p1, s2, p2, h1, h2 => by
    simp only [PayShapeAL] at h1
    simp only [List.cons_append, PayShapeAL]
    exact ⟨h1.1, payShapeAL_append s1 p1 s2 p2 h1.2 h2⟩

theorem treeCells_append_fstA : ∀ (s1 : List LCell) (p1 : List CPay) (s2 : List LCell) (p2 : List CPay) (st : SNode),
    PayShapeAL s1 p1 → (treeCells (s1 ++ s2) (p1 ++ p2) st).1 = (treeCells s2 p2 (treeCells s1 p1 st).1).1
  | [], [], _, _, _, _ => by simp [treeCells]
  | [], _ :: _, _, _, _, h1 => by simp [PayShapeAL] at h1
  | _ :: _, [], _, _, _, h1 => by simp [PayShapeAL] at h1
  | c :: s1, p :: p1, s2, p2, st, h1 => by
    simp only [PayShapeAL] at h1
    simp only [List.cons_append, treeCells]
    exact treeCells_append_fstA s1 p1 s2 p2 _ h1.2

/-- the payload that skips every cell of a segment -/
def skips (seg : List LCell) : List CPay := seg.map fun _ => .skip

theorem payShapeAL_skips : ∀ seg : List LCell, PayShapeAL seg (skips seg)
  | [] => by simp [skips, PayShapeAL]
  | c :: seg => by
    have := payShapeAL_skips seg
    simp only [skips, List.map_cons, PayShapeAL] at this ⊢
    exact ⟨by cases c <;> simp [PayShapeA], this⟩

theorem treeCell_skip (c : LCell) (st : SNode) : treeCell c .skip st = (st, []) := by
  cases c <;> simp [treeCell]

theorem treeCells_skips : ∀ (seg : List LCell) (st : SNode), treeCells seg (skips seg) st = (st, [])
  | [], st => by simp [skips, treeCells]
  | c :: seg, st => by
    have := treeCells_skips seg st
    simp only [skips, List.map_cons] at this ⊢
    simp [treeCells, treeCell_skip, this]

/-- the effect of reaching some of the cells `seg` -/
def EffA (seg : List LCell) (st st' : SNode) : Prop := ∃ ps, PayShapeAL seg ps ∧ st' = (treeCells seg ps st).1

theorem EffA.nil (st : SNode) : EffA [] st st := ⟨[], by simp [PayShapeAL], by simp [treeCells]⟩

theorem EffA.seq {s1 s2 : List LCell} {a b c : SNode} (h1 : EffA s1 a b) (h2 : EffA s2 b c) : EffA (s1 ++ s2) a c := by
  obtain ⟨p1, hp1, rfl⟩ := h1
  obtain ⟨p2, hp2, rfl⟩ := h2
  exact ⟨p1 ++ p2, payShapeAL_append _ _ _ _ hp1 hp2, (treeCells_append_fstA _ _ _ _ _ hp1).symm⟩

/-- the cells of an arm that is not taken -/
theorem EffA.skips (seg : List LCell) (st : SNode) : EffA seg st st :=
  ⟨FlatTree.skips seg, payShapeAL_skips seg, by rw [treeCells_skips]⟩

theorem EffA.one (c : LCell) (p : CPay) (st : SNode) (hp : PayShapeA c p) : EffA [c] st (treeCell c p st).1 :=
  ⟨[p], by simp [PayShapeAL, hp], by simp [treeCells]⟩

/-- what `eval`'s `call` does to the caller's tree is the tree operation at the child cell -/
theorem call_effectA (site : Nat) (self : Option Shape) (cells' : List LCell) (s : SNode) (v : Val) (c1 : SNode)
    (h : EffA cells' (FlatTree.initSelf self (s.childAt site)) c1) :
    EffA [.child site self cells'] s (s.setCell site (.child (finSelf self c1 v))) := by
  obtain ⟨ps, hp, rfl⟩ := h
  refine ⟨[.child v ps], by simp [PayShapeAL, PayShapeA, hp], ?_⟩
  simp only [treeCells, treeCell, treeNodeWith]
  cases self <;> simp [finSelf]

theorem eval_visitsA (P : Prog) (rt : Rt) : ∀ (fuel : Nat),
    (∀ (e : Expr) (seg : List LCell) (env : Env) (σ : Store) (st : SNode) (v : Val) (σ' : Store) (st' : SNode),
      VisitsA P e seg → eval fuel P rt env e σ st = .ok (v, σ', st') → EffA seg st st') ∧
    (∀ (es : List Expr) (seg : List LCell) (env : Env) (σ : Store) (st : SNode) (vs : List Val) (σ' : Store) (st' : SNode),
      VisitsAL P es seg → evalList fuel P rt env es σ st = .ok (vs, σ', st') → EffA seg st st') := by
  intro fuel
  induction fuel with
  | zero =>
    constructor
    · intro e seg env σ st v σ' st' _ h; rw [eval_zero] at h; simp at h
    · intro es seg env σ st vs σ' st' _ h; rw [evalList_zero] at h; simp at h
  | succ n ih =>
    obtain ⟨ihE, ihL⟩ := ih
    constructor
    · intro e seg env σ st v σ' st' hv h
      cases e with
      | lit b =>
        cases hv; rw [eval_lit] at h
        simp only [Except.ok.injEq, Prod.mk.injEq] at h; obtain ⟨_, _, rfl⟩ := h; exact EffA.nil _
      | var x =>
        cases hv; rw [eval_var] at h
        split at h
        · simp at h
        · split at h
          · simp only [Except.ok.injEq, Prod.mk.injEq] at h; obtain ⟨_, _, rfl⟩ := h; exact EffA.nil _
          · simp at h
      | now =>
        cases hv; rw [eval_now] at h
        simp only [Except.ok.injEq, Prod.mk.injEq] at h; obtain ⟨_, _, rfl⟩ := h; exact EffA.nil _
      | samplerate =>
        cases hv; rw [eval_sr] at h
        simp only [Except.ok.injEq, Prod.mk.injEq] at h; obtain ⟨_, _, rfl⟩ := h; exact EffA.nil _
      | lam ps body =>
        cases hv; rw [eval_lam] at h
        simp only [Except.ok.injEq, Prod.mk.injEq] at h; obtain ⟨_, _, rfl⟩ := h; exact EffA.nil _
      | self =>
        cases hv; rw [eval_self] at h
        split at h
        · simp only [Except.ok.injEq, Prod.mk.injEq] at h; obtain ⟨_, _, rfl⟩ := h; exact EffA.nil _
        · simp at h
      | un op a =>
        cases hv with
        | un ha =>
          rw [eval_un] at h
          obtain ⟨⟨v1, σ1, t1⟩, h1, h⟩ := andThen_ok h
          cases v1 with
          | num x =>
            simp only [Except.ok.injEq, Prod.mk.injEq] at h; obtain ⟨_, _, rfl⟩ := h
            exact ihE a _ _ _ _ _ _ _ ha h1
          | _ => simp at h
      | bin op a b =>
        cases hv with
        | bin ha hb =>
          rw [eval_bin] at h
          obtain ⟨⟨v1, σ1, t1⟩, h1, h⟩ := andThen_ok h
          cases v1 with
          | num x =>
            simp only at h
            obtain ⟨⟨v2, σ2, t2⟩, h2, h⟩ := andThen_ok h
            cases v2 with
            | num y =>
              simp only [Except.ok.injEq, Prod.mk.injEq] at h; obtain ⟨_, _, rfl⟩ := h
              exact (ihE a _ _ _ _ _ _ _ ha h1).seq (ihE b _ _ _ _ _ _ _ hb h2)
            | _ => simp at h
          | _ => simp at h
      | ite c a b =>
        cases hv with
        | ite hc ha hb =>
          rw [eval_ite] at h
          obtain ⟨⟨v1, σ1, t1⟩, h1, h⟩ := andThen_ok h
          cases v1 with
          | num x =>
            simp only at h
            have e1 := ihE c _ _ _ _ _ _ _ hc h1
            split at h
            · -- the `then` arm runs: its cells are reached, those of the `else` arm are skipped
              exact e1.seq ((ihE a _ _ _ _ _ _ _ ha h).seq (EffA.skips _ _))
            · -- the `else` arm runs: the cells of the `then` arm are skipped
              exact e1.seq ((EffA.skips _ _).seq (ihE b _ _ _ _ _ _ _ hb h))
          | _ => simp at h
      | letE x a body =>
        cases hv with
        | letE ha hb =>
          rw [eval_letE] at h
          obtain ⟨⟨v1, σ1, t1⟩, h1, h⟩ := andThen_ok h
          exact (ihE a _ _ _ _ _ _ _ ha h1).seq (ihE body _ _ _ _ _ _ _ hb h)
      | letTup xs a body =>
        cases hv with
        | letTup ha hb =>
          rw [eval_letTup] at h
          obtain ⟨⟨v1, σ1, t1⟩, h1, h⟩ := andThen_ok h
          cases v1 with
          | tup vs =>
            simp only at h
            split at h
            · exact (ihE a _ _ _ _ _ _ _ ha h1).seq (ihE body _ _ _ _ _ _ _ hb h)
            · simp at h
          | _ => simp at h
      | assign x a rest =>
        cases hv with
        | assign ha hb =>
          rw [eval_assign] at h
          obtain ⟨⟨v1, σ1, t1⟩, h1, h⟩ := andThen_ok h
          split at h
          · simp at h
          · exact (ihE a _ _ _ _ _ _ _ ha h1).seq (ihE rest _ _ _ _ _ _ _ hb h)
      | proj a i =>
        cases hv with
        | proj ha =>
          rw [eval_proj] at h
          obtain ⟨⟨v1, σ1, t1⟩, h1, h⟩ := andThen_ok h
          cases v1 with
          | tup vs =>
            simp only at h
            split at h
            · simp only [Except.ok.injEq, Prod.mk.injEq] at h; obtain ⟨_, _, rfl⟩ := h
              exact ihE a _ _ _ _ _ _ _ ha h1
            · simp at h
          | _ => simp at h
      | tup es =>
        cases hv with
        | tup hes =>
          rw [eval_tup] at h
          obtain ⟨⟨vs, σ1, t1⟩, h1, h⟩ := andThen_ok h
          simp only [Except.ok.injEq, Prod.mk.injEq] at h; obtain ⟨_, _, rfl⟩ := h
          exact ihL es _ _ _ _ _ _ _ hes h1
      | app f args =>
        cases hv with
        | app hf hargs =>
          rw [eval_app] at h
          obtain ⟨⟨v1, σ1, t1⟩, h1, h⟩ := andThen_ok h
          cases v1 with
          | clo ps body cenv =>
            simp only at h
            obtain ⟨⟨vs, σ2, t2⟩, h2, h⟩ := andThen_ok h
            simp only at h
            split at h
            · simp at h
            · obtain ⟨⟨v3, σ3, t3⟩, _, h⟩ := andThen_ok h
              simp only [Except.ok.injEq, Prod.mk.injEq] at h; obtain ⟨_, _, rfl⟩ := h
              exact (ihE f _ _ _ _ _ _ _ hf h1).seq (ihL args _ _ _ _ _ _ _ hargs h2)
          | _ => simp at h
      | mem a site =>
        cases hv with
        | mem ha =>
          rw [eval_mem] at h
          obtain ⟨⟨v1, σ1, t1⟩, h1, h⟩ := andThen_ok h
          cases v1 with
          | num x =>
            simp only [Except.ok.injEq, Prod.mk.injEq] at h; obtain ⟨_, _, rfl⟩ := h
            refine (ihE a _ _ _ _ _ _ _ ha h1).seq ?_
            have := EffA.one (.mem site) (.mem x) t1 (by simp [PayShapeA])
            simpa [treeCell] using this
          | _ => simp at h
      | delay k a t site =>
        cases hv with
        | delay ha ht =>
          rw [eval_delay] at h
          obtain ⟨⟨v1, σ1, t1⟩, h1, h⟩ := andThen_ok h
          cases v1 with
          | num x =>
            simp only at h
            obtain ⟨⟨v2, σ2, t2⟩, h2, h⟩ := andThen_ok h
            cases v2 with
            | num tm =>
              simp only [Except.ok.injEq, Prod.mk.injEq] at h; obtain ⟨_, _, rfl⟩ := h
              refine ((ihE a _ _ _ _ _ _ _ ha h1).seq (ihE t _ _ _ _ _ _ _ ht h2)).seq ?_
              have := EffA.one (.delay site k) (.delay x tm) t2 (by simp [PayShapeA])
              simpa [treeCell] using this
            | _ => simp at h
          | _ => simp at h
      | call f args site =>
        cases hv with
        | call hargs hself hbody =>
          rename_i self cells' s
          rw [eval_call] at h
          obtain ⟨⟨vs, σ1, t1⟩, h1, h⟩ := andThen_ok h
          refine (ihL args _ _ _ _ _ _ _ hargs h1).seq ?_
          simp only [callRest] at h
          cases hf : findFn P.fns f with
          | none => simp [hf] at h
          | some d =>
            simp only [hf] at h
            split at h
            · simp at h
            · obtain ⟨⟨v2, σ2, c1⟩, h2, h⟩ := andThen_ok h
              simp only [Except.ok.injEq, Prod.mk.injEq] at h; obtain ⟨_, _, rfl⟩ := h
              rw [core_initSelf, hself d hf] at h2
              rw [core_finishSelf, hself d hf]
              exact call_effectA site self cells' t1 v2 c1 (ihE d.body _ _ _ _ _ _ _ (hbody d hf) h2)
    · intro es seg env σ st vs σ' st' hv h
      cases es with
      | nil =>
        cases hv; rw [evalList_nil] at h
        simp only [Except.ok.injEq, Prod.mk.injEq] at h; obtain ⟨_, _, rfl⟩ := h; exact EffA.nil _
      | cons e es =>
        cases hv with
        | cons he hes =>
          rw [evalList_cons] at h
          obtain ⟨⟨v1, σ1, t1⟩, h1, h⟩ := andThen_ok h
          obtain ⟨⟨vs2, σ2, t2⟩, h2, h⟩ := andThen_ok h
          simp only [Except.ok.injEq, Prod.mk.injEq] at h; obtain ⟨_, _, rfl⟩ := h
          exact (ihE e _ _ _ _ _ _ _ he h1).seq (ihL es _ _ _ _ _ _ _ hes h2)

/-- the shape part of the payload is what `eval_visitsA` produces -/
theorem treeNode_of_effA (lay : LNode) (st : SNode) (v : Val) (st1 : SNode)
    (h : EffA lay.cells (FlatTree.initSelf lay.self st) st1) :
    ∃ ps, PayShapeAL lay.cells ps ∧ finSelf lay.self st1 v = (treeNode lay ⟨v, ps⟩ st).1 := by
  obtain ⟨ps, hp, rfl⟩ := h
  refine ⟨ps, hp, ?_⟩
  simp only [treeNode, treeNodeWith]
  cases lay.self <;> simp [finSelf]

mutual
/-- every `Visits` is a `VisitsA` -/
theorem visitsA_of_visits (P : Prog) : ∀ {e : Expr} {seg : List LCell}, Visits P e seg → VisitsA P e seg
  | _, _, .lit => .lit
  | _, _, .var => .var
  | _, _, .now => .now
  | _, _, .samplerate => .samplerate
  | _, _, .self => .self
  | _, _, .lam => .lam
  | _, _, .un h => .un (visitsA_of_visits P h)
  | _, _, .bin h1 h2 => .bin (visitsA_of_visits P h1) (visitsA_of_visits P h2)
  | _, _, .ite hc ha hb => by
    have := VisitsA.ite (visitsA_of_visits P hc) (visitsA_of_visits P ha) (visitsA_of_visits P hb)
    simpa using this
  | _, _, .letE h1 h2 => .letE (visitsA_of_visits P h1) (visitsA_of_visits P h2)
  | _, _, .letTup h1 h2 => .letTup (visitsA_of_visits P h1) (visitsA_of_visits P h2)
  | _, _, .assign h1 h2 => .assign (visitsA_of_visits P h1) (visitsA_of_visits P h2)
  | _, _, .proj h => .proj (visitsA_of_visits P h)
  | _, _, .tup h => .tup (visitsAL_of_visitsL P h)
  | _, _, .app h1 h2 => .app (visitsA_of_visits P h1) (visitsAL_of_visitsL P h2)
  | _, _, .mem h => .mem (visitsA_of_visits P h)
  | _, _, .delay h1 h2 => .delay (visitsA_of_visits P h1) (visitsA_of_visits P h2)
  | _, _, .call h hs hb => .call (visitsAL_of_visitsL P h) hs (fun d hd => visitsA_of_visits P (hb d hd))
theorem visitsAL_of_visitsL (P : Prog) : ∀ {es : List Expr} {seg : List LCell}, VisitsL P es seg → VisitsAL P es seg
  | _, _, .nil => .nil
  | _, _, .cons h1 h2 => .cons (visitsA_of_visits P h1) (visitsAL_of_visitsL P h2)
end

end Mimium.FlatTree
