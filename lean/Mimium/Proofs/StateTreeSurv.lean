import Mimium.Proofs.StateTreeSum
/-!
Survivor theorems for `build_patches_recursive`.

* `level_added` / `level_removed`: one `FnCall` node.  If the child scores are row (column) constant and the
  table optimum equals the sum of the row (column) constants, every old (new) child with a positive constant is in a
  `Common` pair; if all similar pairs carry the whole old (new) child, the node carries all its old (new) words.
* `addOnly` / `removeOnly`: the decidable classes obtained by closing these conditions under nesting, and
  `addOnly_carried` / `removeOnly_carried`.
-/
namespace Mimium.StateTree

/-- the score function handed to `lcs_by_score` at one `FnCall` node: number of patches of the child pair -/
def scoreOf (ocs ncs : List Sk) (i j : Nat) : Nat := (tblGet (diffTbl ocs ncs) i j).length

theorem tblGet_diffTbl_oob : ∀ (ocs ncs : List Sk) (i j : Nat), ocs.length ≤ i ∨ ncs.length ≤ j →
    tblGet (diffTbl ocs ncs) i j = []
  | [], _, i, j, _ => by simp [tblGet, diffTbl]
  | o :: os, ncs, 0, j, h => by
    have hj : ncs.length ≤ j := by simpa using h
    simp [tblGet, diffTbl, List.getD, hj]
  | o :: os, ncs, i+1, j, h => by
    have := tblGet_diffTbl_oob os ncs i j (by simpa using h)
    simpa [tblGet, diffTbl, List.getD] using this

theorem scoreOf_eq (ocs ncs : List Sk) (i j : Nat) (hi : i < ocs.length) (hj : j < ncs.length) :
    scoreOf ocs ncs i j = (diff ocs[i] ncs[j]).length := by
  unfold scoreOf; rw [tblGet_diffTbl ocs ncs i j hi hj]

theorem scoreOf_oob (ocs ncs : List Sk) (i j : Nat) (h : ocs.length ≤ i ∨ ncs.length ≤ j) :
    scoreOf ocs ncs i j = 0 := by
  unfold scoreOf; rw [tblGet_diffTbl_oob ocs ncs i j h]; rfl

theorem diff_of_matches (o n : Sk) (h : o.matches n = true) : diff o n = [⟨0, 0, o.size⟩] := by
  cases o <;> (unfold diff; simp [h])

theorem diff_fn_fn (ocs ncs : List Sk) (h : ¬ (Sk.fn ocs).matches (.fn ncs) = true) :
    diff (.fn ocs) (.fn ncs) = dedup (collect ocs ncs (diffTbl ocs ncs)
      (commons (lcsByScore ocs.length ncs.length (scoreOf ocs ncs)))) := by
  rw [diff]; simp only [h]; rfl

theorem tbl_good (ocs ncs : List Sk) (i j : Nat) (hi : i < ocs.length) (hj : j < ncs.length) :
    Good ocs[i] ncs[j] (tblGet (diffTbl ocs ncs) i j) := by
  rw [tblGet_diffTbl ocs ncs i j hi hj]; exact diff_good _ _

/-- the `Common` pairs chosen at a node -/
def nodeCommons (ocs ncs : List Sk) : List (Nat × Nat) :=
  commons (lcsByScore ocs.length ncs.length (scoreOf ocs ncs))

theorem nodeCommons_inc (ocs ncs : List Sk) : IncFrom ocs.length ncs.length 0 0 (nodeCommons ocs ncs) :=
  lcs_in_order _ _ _

theorem nodeCommons_pos (ocs ncs : List Sk) : ∀ p ∈ nodeCommons ocs ncs, 0 < scoreOf ocs ncs p.1 p.2 := by
  intro p hp
  unfold nodeCommons lcsByScore at hp
  rcases backtrack_pos _ _ _ _ _ _ p hp with h | h
  · simp [commons] at h
  · exact h

/-- words carried at a node = sum over the `Common` pairs of the words carried by the pair -/
theorem carried_node (ocs ncs : List Sk) (h : ¬ (Sk.fn ocs).matches (.fn ncs) = true) :
    carried (diff (.fn ocs) (.fn ncs)) =
      psum (fun p => carried (tblGet (diffTbl ocs ncs) p.1 p.2)) (nodeCommons ocs ncs) := by
  rw [diff_fn_fn ocs ncs h]
  obtain ⟨hs, _, _⟩ := collect_good ocs ncs (diffTbl ocs ncs) _ 0 0 (nodeCommons_inc ocs ncs)
    (tbl_good ocs ncs)
  unfold nodeCommons at hs
  rw [carried_dedup _ hs, carried_collect]
  rfl

/-- **one node, only additions** -/
theorem level_added (ocs ncs : List Sk) (h : ¬ (Sk.fn ocs).matches (.fn ncs) = true)
    (c : Nat → Nat) (hc : ∀ i j, scoreOf ocs ncs i j = 0 ∨ scoreOf ocs ncs i j = c i)
    (hfull : dpS (scoreOf ocs ncs) ocs.length ncs.length = sumTo c ocs.length)
    (hrec : ∀ i j (hi : i < ocs.length) (hj : j < ncs.length), 0 < scoreOf ocs ncs i j →
      carried (diff ocs[i] ncs[j]) = ocs[i].size)
    (hdead : ∀ i (hi : i < ocs.length), c i = 0 → ocs[i].size = 0) :
    carried (diff (.fn ocs) (.fn ncs)) = sizeL ocs := by
  have hinc := nodeCommons_inc ocs ncs
  have hrows : ∀ k, k < ocs.length → 0 < c k → ∃ l, (k, l) ∈ nodeCommons ocs ncs :=
    backtrack_rows (scoreOf ocs ncs) _ ocs.length ncs.length
      (fun i j hi hj => dpGet_dpTable _ _ _ i j hi hj) c hc _ _ _ []
      (Nat.le_refl _) (Nat.le_refl _) (Nat.le_refl _) hfull
  rw [carried_node ocs ncs h]
  rw [psum_congr (g' := fun p => (fun k => (ocs.getD k (.fn [])).size) p.1)]
  · have := psum_rows (fun k => (ocs.getD k (.fn [])).size) ocs.length ncs.length _ 0 0 hinc (Nat.zero_le _) (by
      intro k _ hk hf
      apply hrows k hk
      have hk' : (ocs.getD k (.fn [])) = ocs[k] := by simp [List.getD, hk]
      rw [hk'] at hf
      have := hdead k hk
      omega)
    rw [sumTo_sizes ocs _ (Nat.le_refl _), offsetOf_length] at this
    simpa using this
  · intro p hp
    obtain ⟨_, _, hi, hj⟩ := hinc.mem p hp
    have hpos := nodeCommons_pos ocs ncs p hp
    rw [tblGet_diffTbl ocs ncs p.1 p.2 hi hj, hrec p.1 p.2 hi hj hpos]
    simp [List.getD, hi]

/-- **one node, only removals** -/
theorem level_removed (ocs ncs : List Sk) (h : ¬ (Sk.fn ocs).matches (.fn ncs) = true)
    (d : Nat → Nat) (hd : ∀ i j, scoreOf ocs ncs i j = 0 ∨ scoreOf ocs ncs i j = d j)
    (hfull : dpS (scoreOf ocs ncs) ocs.length ncs.length = sumTo d ncs.length)
    (hrec : ∀ i j (hi : i < ocs.length) (hj : j < ncs.length), 0 < scoreOf ocs ncs i j →
      carried (diff ocs[i] ncs[j]) = ncs[j].size)
    (hdead : ∀ j (hj : j < ncs.length), d j = 0 → ncs[j].size = 0) :
    carried (diff (.fn ocs) (.fn ncs)) = sizeL ncs := by
  have hinc := nodeCommons_inc ocs ncs
  have hcols : ∀ l, l < ncs.length → 0 < d l → ∃ k, (k, l) ∈ nodeCommons ocs ncs :=
    backtrack_cols (scoreOf ocs ncs) _ ocs.length ncs.length
      (fun i j hi hj => dpGet_dpTable _ _ _ i j hi hj) d hd _ _ _ []
      (Nat.le_refl _) (Nat.le_refl _) (Nat.le_refl _) hfull
  rw [carried_node ocs ncs h]
  rw [psum_congr (g' := fun p => (fun k => (ncs.getD k (.fn [])).size) p.2)]
  · have := psum_cols (fun k => (ncs.getD k (.fn [])).size) ocs.length ncs.length _ 0 0 hinc (Nat.zero_le _) (by
      intro l _ hl hf
      apply hcols l hl
      have hl' : (ncs.getD l (.fn [])) = ncs[l] := by simp [List.getD, hl]
      rw [hl'] at hf
      have := hdead l hl
      omega)
    rw [sumTo_sizes ncs _ (Nat.le_refl _), offsetOf_length] at this
    simpa using this
  · intro p hp
    obtain ⟨_, _, hi, hj⟩ := hinc.mem p hp
    have hpos := nodeCommons_pos ocs ncs p hp
    rw [tblGet_diffTbl ocs ncs p.1 p.2 hi hj, hrec p.1 p.2 hi hj hpos]
    simp [List.getD, hj]

/-! ### the classes -/

def rowMax (sc : Nat → Nat → Nat) (i : Nat) : Nat → Nat
  | 0 => 0
  | m+1 => max (rowMax sc i m) (sc i m)

def colMax (sc : Nat → Nat → Nat) (j : Nat) : Nat → Nat
  | 0 => 0
  | n+1 => max (colMax sc j n) (sc n j)

theorem le_rowMax (sc : Nat → Nat → Nat) (i : Nat) : ∀ (m j : Nat), j < m → sc i j ≤ rowMax sc i m
  | m+1, j, h => by
    simp only [rowMax]
    by_cases hj : j = m
    · subst hj; omega
    · have := le_rowMax sc i m j (by omega); omega

theorem le_colMax (sc : Nat → Nat → Nat) (j : Nat) : ∀ (n i : Nat), i < n → sc i j ≤ colMax sc j n
  | n+1, i, h => by
    simp only [colMax]
    by_cases hi : i = n
    · subst hi; omega
    · have := le_colMax sc j n i (by omega); omega

/-- the non-recursive conditions at one node for "only additions": each old child has one score against all
new children it is similar to, and the table optimum reaches the sum of these scores (= all old children that
are similar to anything can be matched, in order, to new children they are similar to) -/
def levelAddB (ocs ncs : List Sk) : Bool :=
  let sc := scoreOf ocs ncs
  let n := ocs.length
  let m := ncs.length
  (List.range n).all (fun i => (List.range m).all (fun j => sc i j == 0 || sc i j == rowMax sc i m)) &&
  dpGet (dpTable n m sc) n m == sumTo (fun i => rowMax sc i m) n

/-- mirror image for "only removals" -/
def levelRemB (ocs ncs : List Sk) : Bool :=
  let sc := scoreOf ocs ncs
  let n := ocs.length
  let m := ncs.length
  (List.range n).all (fun i => (List.range m).all (fun j => sc i j == 0 || sc i j == colMax sc j n)) &&
  dpGet (dpTable n m sc) n m == sumTo (fun j => colMax sc j n) m

mutual
/-- `addOnly o n`: the class of pairs "`n` is `o` with subtrees added" on which the pinned algorithm provably
carries every old word.  At every `FnCall` node that is not copied whole: `levelAddB`, every old child is similar
(non-empty diff) to some new child or has no words, and every similar child pair is again in the class. -/
def addOnly : Sk → Sk → Bool
  | .fn ocs, n =>
    (Sk.fn ocs).matches n || sizeL ocs == 0 || (match n with
      | .fn ncs => addOnlyRows ocs ncs && levelAddB ocs ncs
      | _ => false)
  | o, n => o.matches n || o.size == 0
def addOnlyRows : List Sk → List Sk → Bool
  | [], _ => true
  | o :: os, ns =>
    ns.all (fun n => (diff o n).isEmpty || addOnly o n) &&
    (ns.any (fun n => !(diff o n).isEmpty) || o.size == 0) && addOnlyRows os ns
end

/-- every new child is similar to some old child or has no words (not recursive, but it needs `diff`) -/
def removeOnlyCols : List Sk → List Sk → Bool
  | _, [] => true
  | os, n :: ns => (os.any (fun o => !(diff o n).isEmpty) || n.size == 0) && removeOnlyCols os ns

mutual
/-- `removeOnly o n`: the class of pairs "`n` is `o` with subtrees removed" on which the pinned algorithm provably
fills every new word. -/
def removeOnly : Sk → Sk → Bool
  | .fn ocs, n =>
    (Sk.fn ocs).matches n || n.size == 0 || (match n with
      | .fn ncs => removeOnlyRows ocs ncs && removeOnlyCols ocs ncs && levelRemB ocs ncs
      | _ => false)
  | o, n => o.matches n || n.size == 0
def removeOnlyRows : List Sk → List Sk → Bool
  | [], _ => true
  | o :: os, ns => ns.all (fun n => (diff o n).isEmpty || removeOnly o n) && removeOnlyRows os ns
end

theorem addOnlyRows_get : ∀ (ocs ncs : List Sk), addOnlyRows ocs ncs = true → ∀ (i : Nat) (hi : i < ocs.length),
    (∀ (j : Nat) (hj : j < ncs.length), diff ocs[i] ncs[j] = [] ∨ addOnly ocs[i] ncs[j] = true) ∧
    ((∃ (j : Nat) (hj : j < ncs.length), diff ocs[i] ncs[j] ≠ []) ∨ ocs[i].size = 0)
  | [], _, _, i, hi => by simp at hi
  | o :: os, ncs, h, 0, _ => by
    simp only [addOnlyRows, Bool.and_eq_true, List.all_eq_true, Bool.or_eq_true, List.any_eq_true,
      List.isEmpty_iff, beq_iff_eq] at h
    obtain ⟨⟨h1, h2⟩, _⟩ := h
    refine ⟨fun j hj => h1 ncs[j] (List.getElem_mem hj), ?_⟩
    rcases h2 with ⟨x, hx, hx'⟩ | h2
    · left
      obtain ⟨j, hj, rfl⟩ := List.getElem_of_mem hx
      refine ⟨j, hj, ?_⟩
      simpa using hx'
    · right; simpa using h2
  | o :: os, ncs, h, i+1, hi => by
    simp only [addOnlyRows, Bool.and_eq_true] at h
    simpa using addOnlyRows_get os ncs h.2 i (by simpa using hi)

theorem removeOnlyRows_get : ∀ (ocs ncs : List Sk), removeOnlyRows ocs ncs = true →
    ∀ (i : Nat) (hi : i < ocs.length) (j : Nat) (hj : j < ncs.length),
      diff ocs[i] ncs[j] = [] ∨ removeOnly ocs[i] ncs[j] = true
  | [], _, _, i, hi => by simp at hi
  | o :: os, ncs, h, 0, _ => by
    simp only [removeOnlyRows, Bool.and_eq_true, List.all_eq_true, Bool.or_eq_true,
      List.isEmpty_iff] at h
    exact fun j hj => h.1 ncs[j] (List.getElem_mem hj)
  | o :: os, ncs, h, i+1, hi => by
    simp only [removeOnlyRows, Bool.and_eq_true] at h
    simpa using removeOnlyRows_get os ncs h.2 i (by simpa using hi)

theorem removeOnlyCols_get : ∀ (ocs ncs : List Sk), removeOnlyCols ocs ncs = true →
    ∀ (j : Nat) (hj : j < ncs.length),
      (∃ (i : Nat) (hi : i < ocs.length), diff ocs[i] ncs[j] ≠ []) ∨ ncs[j].size = 0
  | _, [], _, j, hj => by simp at hj
  | ocs, n :: ns, h, 0, _ => by
    simp only [removeOnlyCols, Bool.and_eq_true, Bool.or_eq_true, List.any_eq_true, beq_iff_eq] at h
    rcases h.1 with ⟨x, hx, hx'⟩ | h2
    · left
      obtain ⟨i, hi, rfl⟩ := List.getElem_of_mem hx
      refine ⟨i, hi, ?_⟩
      simpa using hx'
    · right; simpa using h2
  | ocs, n :: ns, h, j+1, hj => by
    simp only [removeOnlyCols, Bool.and_eq_true] at h
    simpa using removeOnlyCols_get ocs ns h.2 j (by simpa using hj)

theorem levelAddB_spec (ocs ncs : List Sk) (h : levelAddB ocs ncs = true) :
    (∀ i j, scoreOf ocs ncs i j = 0 ∨ scoreOf ocs ncs i j = rowMax (scoreOf ocs ncs) i ncs.length) ∧
    dpS (scoreOf ocs ncs) ocs.length ncs.length =
      sumTo (fun i => rowMax (scoreOf ocs ncs) i ncs.length) ocs.length := by
  simp only [levelAddB, Bool.and_eq_true, List.all_eq_true, List.mem_range, Bool.or_eq_true, beq_iff_eq] at h
  refine ⟨?_, ?_⟩
  · intro i j
    by_cases hi : i < ocs.length
    · by_cases hj : j < ncs.length
      · exact h.1 i hi j hj
      · left; exact scoreOf_oob ocs ncs i j (Or.inr (by omega))
    · left; exact scoreOf_oob ocs ncs i j (Or.inl (by omega))
  · rw [← h.2, dpGet_dpTable _ _ _ _ _ (Nat.le_refl _) (Nat.le_refl _)]

theorem levelRemB_spec (ocs ncs : List Sk) (h : levelRemB ocs ncs = true) :
    (∀ i j, scoreOf ocs ncs i j = 0 ∨ scoreOf ocs ncs i j = colMax (scoreOf ocs ncs) j ocs.length) ∧
    dpS (scoreOf ocs ncs) ocs.length ncs.length =
      sumTo (fun j => colMax (scoreOf ocs ncs) j ocs.length) ncs.length := by
  simp only [levelRemB, Bool.and_eq_true, List.all_eq_true, List.mem_range, Bool.or_eq_true, beq_iff_eq] at h
  refine ⟨?_, ?_⟩
  · intro i j
    by_cases hi : i < ocs.length
    · by_cases hj : j < ncs.length
      · exact h.1 i hi j hj
      · left; exact scoreOf_oob ocs ncs i j (Or.inr (by omega))
    · left; exact scoreOf_oob ocs ncs i j (Or.inl (by omega))
  · rw [← h.2, dpGet_dpTable _ _ _ _ _ (Nat.le_refl _) (Nat.le_refl _)]

theorem diff_ne_nil_of_score {ocs ncs : List Sk} {i j : Nat} (hi : i < ocs.length) (hj : j < ncs.length)
    (h : 0 < scoreOf ocs ncs i j) : diff ocs[i] ncs[j] ≠ [] := by
  rw [scoreOf_eq ocs ncs i j hi hj] at h
  intro e; rw [e] at h; simp at h

mutual
/-- **only additions, any depth**: on the class `addOnly` every word of the old layout is carried -/
theorem addOnly_carried : ∀ (o n : Sk), addOnly o n = true → carried (diff o n) = o.size
  | .delay a, n, h => by
    simp only [addOnly, Bool.or_eq_true, beq_iff_eq] at h
    rcases h with h | h
    · rw [diff_of_matches _ _ h]; simp
    · have := carried_le_old (.delay a) n; omega
  | .mem a, n, h => by
    simp only [addOnly, Bool.or_eq_true, beq_iff_eq] at h
    rcases h with h | h
    · rw [diff_of_matches _ _ h]; simp
    · have := carried_le_old (.mem a) n; omega
  | .feed a, n, h => by
    simp only [addOnly, Bool.or_eq_true, beq_iff_eq] at h
    rcases h with h | h
    · rw [diff_of_matches _ _ h]; simp
    · have := carried_le_old (.feed a) n; omega
  | .fn ocs, n, h => by
    by_cases hm : (Sk.fn ocs).matches n = true
    · rw [diff_of_matches _ _ hm]; simp
    · by_cases hz : sizeL ocs = 0
      · have := carried_le_old (.fn ocs) n
        simp only [size_fn] at this ⊢; omega
      cases n with
      | fn ncs =>
        simp only [addOnly, hm, Bool.false_or, Bool.and_eq_true, Bool.or_eq_true, beq_iff_eq, hz,
          false_or] at h
        obtain ⟨hrows, hlev⟩ := h
        obtain ⟨hc, hfull⟩ := levelAddB_spec ocs ncs hlev
        have hall := addOnlyL_carried ocs
        have hget := addOnlyRows_get ocs ncs hrows
        rw [size_fn]
        refine level_added ocs ncs hm _ hc hfull ?_ ?_
        · intro i j hi hj hpos
          rcases (hget i hi).1 j hj with h0 | h1
          · exact absurd h0 (diff_ne_nil_of_score hi hj hpos)
          · exact hall i hi _ h1
        · intro i hi hz
          rcases (hget i hi).2 with ⟨j, hj, hne⟩ | h0
          · exfalso
            have h1 := le_rowMax (scoreOf ocs ncs) i ncs.length j hj
            rw [scoreOf_eq ocs ncs i j hi hj] at h1
            have : (diff ocs[i] ncs[j]).length = 0 := by omega
            exact hne (List.length_eq_zero_iff.1 this)
          · exact h0
      | delay _ => simp [addOnly, hm, hz] at h
      | mem _ => simp [addOnly, hm, hz] at h
      | feed _ => simp [addOnly, hm, hz] at h
theorem addOnlyL_carried : ∀ (ocs : List Sk) (i : Nat) (hi : i < ocs.length) (n : Sk),
    addOnly ocs[i] n = true → carried (diff ocs[i] n) = ocs[i].size
  | [], i, hi, _ => by simp at hi
  | o :: os, 0, _, n => by simpa using addOnly_carried o n
  | o :: os, i+1, hi, n => by simpa using addOnlyL_carried os i (by simpa using hi) n
end

mutual
/-- **only removals, any depth**: on the class `removeOnly` every word of the new layout is filled -/
theorem removeOnly_carried : ∀ (o n : Sk), removeOnly o n = true → carried (diff o n) = n.size
  | .delay a, n, h => by
    simp only [removeOnly, Bool.or_eq_true, beq_iff_eq] at h
    rcases h with h | h
    · rw [diff_of_matches _ _ h]; simpa using matches_size _ _ h
    · have := carried_le_new (.delay a) n; omega
  | .mem a, n, h => by
    simp only [removeOnly, Bool.or_eq_true, beq_iff_eq] at h
    rcases h with h | h
    · rw [diff_of_matches _ _ h]; simpa using matches_size _ _ h
    · have := carried_le_new (.mem a) n; omega
  | .feed a, n, h => by
    simp only [removeOnly, Bool.or_eq_true, beq_iff_eq] at h
    rcases h with h | h
    · rw [diff_of_matches _ _ h]; simpa using matches_size _ _ h
    · have := carried_le_new (.feed a) n; omega
  | .fn ocs, n, h => by
    by_cases hm : (Sk.fn ocs).matches n = true
    · rw [diff_of_matches _ _ hm]; simpa using matches_size _ _ hm
    · by_cases hz : n.size = 0
      · have := carried_le_new (.fn ocs) n; omega
      cases n with
      | fn ncs =>
        simp only [removeOnly, hm, Bool.false_or, Bool.and_eq_true, Bool.or_eq_true, beq_iff_eq, hz,
          false_or] at h
        obtain ⟨⟨hrows, hcols⟩, hlev⟩ := h
        obtain ⟨hd, hfull⟩ := levelRemB_spec ocs ncs hlev
        have hall := removeOnlyL_carried ocs
        have hget := removeOnlyRows_get ocs ncs hrows
        have hcget := removeOnlyCols_get ocs ncs hcols
        rw [size_fn]
        refine level_removed ocs ncs hm _ hd hfull ?_ ?_
        · intro i j hi hj hpos
          rcases hget i hi j hj with h0 | h1
          · exact absurd h0 (diff_ne_nil_of_score hi hj hpos)
          · exact hall i hi _ h1
        · intro j hj hz
          rcases hcget j hj with ⟨i, hi, hne⟩ | h0
          · exfalso
            have h1 := le_colMax (scoreOf ocs ncs) j ocs.length i hi
            rw [scoreOf_eq ocs ncs i j hi hj] at h1
            have : (diff ocs[i] ncs[j]).length = 0 := by omega
            exact hne (List.length_eq_zero_iff.1 this)
          · exact h0
      | delay _ => simp [removeOnly, hm, hz] at h
      | mem _ => simp [removeOnly, hm, hz] at h
      | feed _ => simp [removeOnly, hm, hz] at h
theorem removeOnlyL_carried : ∀ (ocs : List Sk) (i : Nat) (hi : i < ocs.length) (n : Sk),
    removeOnly ocs[i] n = true → carried (diff ocs[i] n) = n.size
  | [], i, hi, _ => by simp at hi
  | o :: os, 0, _, n => by simpa using removeOnly_carried o n
  | o :: os, i+1, hi, n => by simpa using removeOnlyL_carried os i (by simpa using hi) n
end

end Mimium.StateTree
