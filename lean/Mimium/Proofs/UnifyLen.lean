import Mimium.Model.UnifySpec
import Mimium.Proofs.UnifyAcyclic
/-! Basic facts about `Chain` / `Len` (monotone in the store, closed under following parent pointers) and the destructors. -/
namespace Mimium.Unify
open Mimium.Occurs (parent Acyclic)

theorem Chain.mono {σ σ' : Store} (he : Ext σ σ') {a r : Ty} (h : Chain σ a r) : Chain σ' a r := by
  induction h with
  | refl t => exact .refl t
  | step hp _ ih => exact .step (he _ _ hp) ih

theorem chain_of_root (σ : Store) : ∀ (g : Nat) (t r : Ty), root σ g t = some r → Chain σ t r := by
  intro g
  induction g with
  | zero => intro t r h; simp [root] at h
  | succ g ih =>
    intro t r h
    cases t with
    | var w =>
      simp only [root] at h
      cases hp : parent σ w with
      | none => simp only [hp, Option.some.injEq] at h; subst h; exact .refl _
      | some p => simp only [hp] at h; exact .step hp (ih p r h)
    | _ => simp only [root, Option.some.injEq] at h; subst h; exact .refl _

theorem Len.mono {σ σ' : Store} (he : Ext σ σ') {k : Bool} {a b : Ty} (h : Len σ k a b) : Len σ' k a b := by
  induction h with
  | refl k t => exact .refl k t
  | varL hp _ ih => exact .varL (he _ _ hp) ih
  | varR hp _ ih => exact .varR (he _ _ hp) ih
  | array _ ih => exact .array ih
  | ref _ ih => exact .ref ih
  | code _ ih => exact .code ih
  | boxed _ ih => exact .boxed ih
  | fn _ _ ih1 ih2 => exact .fn ih1 ih2
  | tupleSameLength hl => exact .tupleSameLength hl
  | record _ ih => exact .record ih
  | unitTuple0 => exact .unitTuple0
  | tuple0Unit => exact .tuple0Unit
  | unitRecord0 => exact .unitRecord0
  | record0Unit => exact .record0Unit
  | tuple1R _ ih => exact .tuple1R ih
  | tuple1L _ ih => exact .tuple1L ih
  | failureL b => exact .failureL b
  | failureR a => exact .failureR a
  | anyL b => exact .anyL b
  | anyR a => exact .anyR a
  | unionBoth pick hl hm _ ih => exact .unionBoth pick hl hm ih
  | unionR hm _ ih => exact .unionR hm ih
  | unionL _ ih => exact .unionL ih
  | boxedL _ ih => exact .boxedL ih
  | boxedR _ ih => exact .boxedR ih
  | args _ ih => exact .args ih
  | argsRecord1L _ ih => exact .argsRecord1L ih
  | argsRecord1R hd _ ih => exact .argsRecord1R hd ih
  | argsTuple1R _ ih => exact .argsTuple1R ih
  | argsTuple1L _ ih => exact .argsTuple1L ih
  | argsRecordTuple _ ih => exact .argsRecordTuple ih
  | argsSwap c1 c2 _ ih => exact .argsSwap (c1.mono he) (c2.mono he) ih
  | argsUnionL hm _ ih => exact .argsUnionL hm ih

theorem Len.chainL {σ : Store} {k : Bool} {a r b : Ty} (c : Chain σ a r) (h : Len σ k r b) : Len σ k a b := by
  induction c with
  | refl t => exact h
  | step hp _ ih => exact .varL hp (ih h)

theorem Len.chainR {σ : Store} {k : Bool} {a r b : Ty} (c : Chain σ b r) (h : Len σ k a r) : Len σ k a b := by
  induction c with
  | refl t => exact h
  | step hp _ ih => exact .varR hp (ih h)

/-! ## destructors -/
theorem asArray_eq {t a : Ty} (h : asArray t = some a) : t = .array a := by cases t <;> simp [asArray] at h; subst h; rfl
theorem asRef_eq {t a : Ty} (h : asRef t = some a) : t = .ref a := by cases t <;> simp [asRef] at h; subst h; rfl
theorem asCode_eq {t a : Ty} (h : asCode t = some a) : t = .code a := by cases t <;> simp [asCode] at h; subst h; rfl
theorem asBoxed_eq {t a : Ty} (h : asBoxed t = some a) : t = .boxed a := by cases t <;> simp [asBoxed] at h; subst h; rfl
theorem asTuple_eq {t : Ty} {a : List Ty} (h : asTuple t = some a) : t = .tuple a := by cases t <;> simp [asTuple] at h; subst h; rfl
theorem asRecord_eq {t : Ty} {a : List F} (h : asRecord t = some a) : t = .record a := by cases t <;> simp [asRecord] at h; subst h; rfl
theorem asUnion_eq {t : Ty} {a : List Ty} (h : asUnion t = some a) : t = .union a := by cases t <;> simp [asUnion] at h; subst h; rfl
theorem asFn_eq {t a r : Ty} (h : asFn t = some (a, r)) : t = .fn a r := by
  cases t <;> simp [asFn] at h; obtain ⟨rfl, rfl⟩ := h; rfl
theorem asSum_eq {t : Ty} {n : Nat} (h : asSum t = some n) : t = .usersum n := by cases t <;> simp [asSum] at h; subst h; rfl
theorem asPrim_eq {t : Ty} {p : PT} (h : asPrim t = some p) : t = .prim p := by cases t <;> simp [asPrim] at h; subst h; rfl
theorem asScheme_eq {t : Ty} {n : Nat} (h : asScheme t = some n) : t = .scheme n := by cases t <;> simp [asScheme] at h; subst h; rfl
theorem isUnit_eq {t : Ty} (h : isUnit t = true) : t = .prim .unit := by
  cases t with
  | prim p => cases p <;> simp [isUnit] at h; rfl
  | _ => simp [isUnit] at h
theorem isAny_eq {t : Ty} (h : isAny t = true) : t = .any := by cases t <;> simp [isAny] at h; rfl
theorem isFailure_eq {t : Ty} (h : isFailure t = true) : t = .failure := by cases t <;> simp [isFailure] at h; rfl
theorem isTuple0_eq {t : Ty} (h : isTuple0 t = true) : t = .tuple [] := by
  cases t with
  | tuple ts => cases ts <;> simp [isTuple0] at h; rfl
  | _ => simp [isTuple0] at h
theorem isRecord0_eq {t : Ty} (h : isRecord0 t = true) : t = .record [] := by
  cases t with
  | record ts => cases ts <;> simp [isRecord0] at h; rfl
  | _ => simp [isRecord0] at h
theorem asTuple1_eq {t v : Ty} (h : asTuple1 t = some v) : t = .tuple [v] := by
  cases t with
  | tuple ts =>
    match ts, h with
    | [x], h => simp [asTuple1] at h; subst h; rfl
    | [], h => simp [asTuple1] at h
    | _ :: _ :: _, h => simp [asTuple1] at h
  | _ => simp [asTuple1] at h
theorem asRecord1_eq {t : Ty} {f : F} (h : asRecord1 t = some f) : t = .record [f] := by
  cases t with
  | record ts =>
    match ts, h with
    | [x], h => simp [asRecord1] at h; subst h; rfl
    | [], h => simp [asRecord1] at h
    | _ :: _ :: _, h => simp [asRecord1] at h
  | _ => simp [asRecord1] at h
theorem isTuple_eq {t : Ty} (h : isTuple t = true) : ∃ as, t = .tuple as := by
  cases t <;> simp [isTuple, asTuple] at h; exact ⟨_, rfl⟩
theorem isRecord_eq {t : Ty} (h : isRecord t = true) : ∃ fs, t = .record fs := by
  cases t <;> simp [isRecord, asRecord] at h; exact ⟨_, rfl⟩

theorem samePrim_eq {a b : Ty} (h : samePrim a b = true) : ∃ p, a = .prim p ∧ b = .prim p := by
  unfold samePrim at h
  split at h
  · rename_i p1 p2 e1 e2
    have : p1 = p2 := by simpa using h
    subst this
    exact ⟨p1, asPrim_eq e1, asPrim_eq e2⟩
  · cases h
theorem sameScheme_eq {a b : Ty} (h : sameScheme a b = true) : ∃ p, a = .scheme p ∧ b = .scheme p := by
  unfold sameScheme at h
  split at h
  · rename_i p1 p2 e1 e2
    have : p1 = p2 := by simpa using h
    subst this
    exact ⟨p1, asScheme_eq e1, asScheme_eq e2⟩
  · cases h

end Mimium.Unify
