import Mimium.Proofs.ModResSpec
/-!
# C17 with `let` items: the spine of the flattened program

`stmts_from_program_with_prefix` flattens all items of all modules into **one** chain
`LetRec f₁ … (Let x₂ … (LetRec f₃ … tail))`.  `convert_expr` walks that chain with a mutable module context.  This file
shows what the walk amounts to (for the code as it stands since /repo 8a25d9f):

* the context is `[]` whenever the walk stands *on the spine* (between two items), so every item's right-hand side /
  body is resolved under the context that `module_context_map` assigns to the item's own name — whatever precedes it
  (`convertExpr_chain`);
* hence the resolution at one item (`siteResult`) is a function of the whole-program maps, the item, and the set of
  spine binders before it (`siteResult` + `convertChain_split`, `convertExpr_scopes_congr`).

Also: the two variants of the walk that leak a context along the spine (the pinned tree before 8a25d9f; seeded change
C17c) as executable definitions, for machine-checked counterexamples.
-/
namespace Mimium.ModRes

/-! ### vocabulary -/

/-- the context `module_context_map` assigns to `key`, `dflt` if none -/
def siteCtx (info : Info) (key : Sym) (dflt : List Name) : List Name :=
  match get? info.ctxMap key with
  | some c => c
  | none => dflt

/-- binders that the events contribute to the spine of the flattened chain, in walk order -/
def binders : List Ev → List Sym
  | [] => []
  | .fn pre _ x _ _ :: rest => (pre ++ [x]) :: binders rest
  | .letS _ _ x _ :: rest => [x] :: binders rest
  | _ :: rest => binders rest

/-- scope stack in force when the chain walk, started with `ls`, has passed `evs` -/
def spineScopes (ls : List (List Sym)) : List Ev → List (List Sym)
  | [] => ls
  | .fn pre _ x _ _ :: rest => spineScopes ([pre ++ [x]] :: ls) rest
  | .letS _ _ x _ :: rest => spineScopes ([[x]] :: ls) rest
  | _ :: rest => spineScopes ls rest

/-- `is_locally_bound` as a function of the scope stack -/
def boundIn (ls : List (List Sym)) (s : Sym) : Bool := ls.any (fun sc => sc.contains s)

/-- the resolution pass in spine form: every item resolved on its own, under the context of its own name -/
def convertChain (info : Info) (known : Sym → Bool) (tail : Expr) : List (List Sym) → List Ev → Expr × List Err
  | ls, [] => convertExpr info known [] ls tail
  | ls, .fn pre _ x ps b :: rest =>
    let r1 := convertExpr info known (siteCtx info (pre ++ [x]) []) ([pre ++ [x]] :: ls) (.lam ps b)
    let r2 := convertChain info known tail ([pre ++ [x]] :: ls) rest
    (.letrec (pre ++ [x]) r1.1 r2.1, r1.2 ++ r2.2)
  | ls, .letS _ _ x e :: rest =>
    let r1 := convertExpr info known (siteCtx info [x] []) ls e
    let r2 := convertChain info known tail ([[x]] :: ls) rest
    (.letE x r1.1 r2.1, r1.2 ++ r2.2)
  | ls, .modOpen _ _ :: rest => convertChain info known tail ls rest
  | ls, .use _ _ _ _ :: rest => convertChain info known tail ls rest

/-- **the module context is `[]` on the spine**: walking the flattened chain with `convert_expr` resolves each item under
the context of the item's own name and nothing else.  (False of the pinned tree before 8a25d9f and of seeded change
C17c: `spineLeak_*` below.) -/
theorem convertExpr_chain (info : Info) (known : Sym → Bool) (tail : Expr) (evs : List Ev) :
    ∀ ls, convertExpr info known [] ls (chain tail evs) = convertChain info known tail ls evs := by
  induction evs with
  | nil => intro ls; rfl
  | cons ev rest ih =>
    intro ls
    cases ev with
    | fn pre pub x ps b => simp only [chain, convertExpr, convertChain, ih, siteCtx]; rfl
    | letS pre pub x e => simp only [chain, convertExpr, convertChain, ih, siteCtx]; rfl
    | modOpen pre x => simp only [chain, convertChain, ih]
    | use pre pub path t => simp only [chain, convertChain, ih]

/-- what the pass does at the item `ev` that follows the prefix `A` of the flattened program: resolved right-hand side
(for a function: the resolved lambda) and the diagnostics it adds -/
def siteResult (info : Info) (known : Sym → Bool) (ls : List (List Sym)) (A : List Ev) : Ev → Expr × List Err
  | .fn pre _ x ps b =>
    convertExpr info known (siteCtx info (pre ++ [x]) []) ([pre ++ [x]] :: spineScopes ls A) (.lam ps b)
  | .letS _ _ x e => convertExpr info known (siteCtx info [x] []) (spineScopes ls A) e
  | _ => (.unit, [])

theorem spineScopes_append (ls : List (List Sym)) (A B : List Ev) :
    spineScopes ls (A ++ B) = spineScopes (spineScopes ls A) B := by
  induction A generalizing ls with
  | nil => rfl
  | cons ev rest ih => cases ev <;> simp only [List.cons_append, spineScopes, ih]

/-- the right-hand side found after `n` binders of the spine -/
def rhsAt : Nat → Expr → Option Expr
  | 0, .letE _ e _ => some e
  | 0, .letrec _ e _ => some e
  | n + 1, .letE _ _ t => rhsAt n t
  | n + 1, .letrec _ _ t => rhsAt n t
  | _, _ => none

theorem binders_append (A B : List Ev) : binders (A ++ B) = binders A ++ binders B := by
  induction A with
  | nil => rfl
  | cons ev rest ih => cases ev <;> simp [binders, ih]

def Ev.isBinder : Ev → Bool
  | .fn .. => true
  | .letS .. => true
  | _ => false

theorem siteResult_cons (info : Info) (known : Sym → Bool) (ls : List (List Sym)) (a : Ev) (rest : List Ev) (ev : Ev) :
    siteResult info known ls (a :: rest) ev = siteResult info known (spineScopes ls [a]) rest ev := by
  cases ev <;> cases a <;> rfl

/-- `siteResult` is what the whole-program pass computes at that item: its diagnostics are the segment of the
program's diagnostics between those of the items before and those of the items after, and its expression is the
right-hand side found at the item's position on the spine of the output. -/
theorem convertChain_split (info : Info) (known : Sym → Bool) (tail : Expr) (A : List Ev) (ev : Ev) (C : List Ev) :
    ∀ ls,
    (convertChain info known tail ls (A ++ ev :: C)).2 =
      (convertChain info known .unit ls A).2 ++ (siteResult info known ls A ev).2 ++
        (convertChain info known tail (spineScopes ls (A ++ [ev])) C).2 ∧
    (ev.isBinder = true →
      rhsAt (binders A).length (convertChain info known tail ls (A ++ ev :: C)).1 =
        some (siteResult info known ls A ev).1) := by
  induction A with
  | nil =>
    intro ls
    cases ev <;>
      simp [convertChain, siteResult, spineScopes, convertExpr, binders, rhsAt, Ev.isBinder]
  | cons a rest ih =>
    intro ls
    have hs := siteResult_cons info known ls a rest ev
    cases a with
    | fn pre pub x ps b =>
      obtain ⟨h1, h2⟩ := ih ([pre ++ [x]] :: ls)
      refine ⟨?_, fun hb => ?_⟩
      · simp only [List.cons_append, convertChain, h1, spineScopes, hs, List.append_assoc]
      · simp only [List.cons_append, convertChain, binders, List.length_cons, rhsAt, h2 hb, hs, spineScopes]
    | letS pre pub x e =>
      obtain ⟨h1, h2⟩ := ih ([[x]] :: ls)
      refine ⟨?_, fun hb => ?_⟩
      · simp only [List.cons_append, convertChain, h1, spineScopes, hs, List.append_assoc]
      · simp only [List.cons_append, convertChain, binders, List.length_cons, rhsAt, h2 hb, hs, spineScopes]
    | modOpen pre x =>
      obtain ⟨h1, h2⟩ := ih ls
      refine ⟨?_, fun hb => ?_⟩
      · simp only [List.cons_append, convertChain, h1, spineScopes, hs]
      · simp only [List.cons_append, convertChain, binders, h2 hb, hs, spineScopes]
    | use pre pub path t =>
      obtain ⟨h1, h2⟩ := ih ls
      refine ⟨?_, fun hb => ?_⟩
      · simp only [List.cons_append, convertChain, h1, spineScopes, hs]
      · simp only [List.cons_append, convertChain, binders, h2 hb, hs, spineScopes]

/-! ### the scope stack matters only through the identifiers that occur -/

/-- plain identifiers occurring in an expression (bound or free) -/
def Expr.vars : Expr → List Sym
  | .var s => [s]
  | .call f => f.vars
  | .letE _ e t => e.vars ++ t.vars
  | .lam _ b => b.vars
  | .letrec _ e t => e.vars ++ t.vars
  | _ => []

theorem boundIn_cons (sc : List Sym) (ls : List (List Sym)) (s : Sym) :
    boundIn (sc :: ls) s = (sc.contains s || boundIn ls s) := by
  simp [boundIn]

theorem convertVar_scopes_congr (info : Info) (known : Sym → Bool) (cur : List Name) (ls ls' : List (List Sym))
    (s : Sym) (h : boundIn ls s = boundIn ls' s) :
    convertVar ⟨info, known, cur, ls⟩ s = convertVar ⟨info, known, cur, ls'⟩ s := by
  have h' : (RCtx.mk info known cur ls).isLocallyBound s = (RCtx.mk info known cur ls').isLocallyBound s := h
  unfold convertVar
  rw [h']
  rfl

theorem convertExpr_scopes_congr (info : Info) (known : Sym → Bool) (e : Expr) :
    ∀ (cur : List Name) (ls ls' : List (List Sym)), (∀ s ∈ e.vars, boundIn ls s = boundIn ls' s) →
      convertExpr info known cur ls e = convertExpr info known cur ls' e := by
  induction e with
  | unit => intros; rfl
  | lit k => intros; rfl
  | var s =>
    intro cur ls ls' h
    simp only [convertExpr, convertVar_scopes_congr info known cur ls ls' s (h s (by simp [Expr.vars]))]
  | qvar segs => intros; rfl
  | call f ih =>
    intro cur ls ls' h
    simp only [convertExpr, ih cur ls ls' h]
  | letE x e t ihe iht =>
    intro cur ls ls' h
    have h1 : ∀ s ∈ e.vars, boundIn ls s = boundIn ls' s := fun s hs => h s (by simp [Expr.vars, hs])
    have h2 : ∀ s ∈ t.vars, boundIn ([[x]] :: ls) s = boundIn ([[x]] :: ls') s := fun s hs => by
      rw [boundIn_cons, boundIn_cons, h s (by simp [Expr.vars, hs])]
    simp only [convertExpr, ihe _ ls ls' h1, iht _ _ _ h2]
  | lam ps b ih =>
    intro cur ls ls' h
    have h2 : ∀ s ∈ b.vars, boundIn (ps.map (fun p => [p]) :: ls) s = boundIn (ps.map (fun p => [p]) :: ls') s :=
      fun s hs => by rw [boundIn_cons, boundIn_cons, h s (by simpa [Expr.vars] using hs)]
    simp only [convertExpr, ih _ _ _ h2]
  | letrec f e t ihe iht =>
    intro cur ls ls' h
    have h1 : ∀ s ∈ e.vars, boundIn ([f] :: ls) s = boundIn ([f] :: ls') s := fun s hs => by
      rw [boundIn_cons, boundIn_cons, h s (by simp [Expr.vars, hs])]
    have h2 : ∀ s ∈ t.vars, boundIn ([f] :: ls) s = boundIn ([f] :: ls') s := fun s hs => by
      rw [boundIn_cons, boundIn_cons, h s (by simp [Expr.vars, hs])]
    simp only [convertExpr, ihe _ _ _ h1, iht _ _ _ h2]

/-- passing items adds exactly their binders to what is lexically bound -/
theorem boundIn_spineScopes (B : List Ev) : ∀ (ls : List (List Sym)) (s : Sym),
    boundIn (spineScopes ls B) s = (decide (s ∈ binders B) || boundIn ls s) := by
  induction B with
  | nil => intro ls s; simp [spineScopes, binders]
  | cons ev rest ih =>
    intro ls s
    cases ev with
    | fn pre pub x ps b =>
      simp only [spineScopes, binders, ih, boundIn_cons, List.mem_cons]
      by_cases h1 : s = pre ++ [x] <;> by_cases h2 : s ∈ binders rest <;> simp [h1, h2]
    | letS pre pub x e =>
      simp only [spineScopes, binders, ih, boundIn_cons, List.mem_cons]
      by_cases h1 : s = [x] <;> by_cases h2 : s ∈ binders rest <;> simp [h1, h2]
    | modOpen pre x => exact ih ls s
    | use pre pub path t => exact ih ls s

/-! ### the whole-program maps do not depend on where a top-level `let` stands -/

/-- the names pass 1 collects for a flattened program with continuation `tail` -/
def knownOfT (evs : List Ev) (tail : Expr) : Sym → Bool := fun s => (collectDefined (chain tail evs)).contains s

theorem convertProgram_eq_chain (evs : List Ev) (tail : Expr) :
    convertProgram evs tail = convertChain (lowerInfo evs) (knownOfT evs tail) tail [] evs := by
  unfold convertProgram
  exact convertExpr_chain _ _ tail evs []

theorem mem_collectDefined_chain_append (tail : Expr) (A B : List Ev) (s : Sym) :
    s ∈ collectDefined (chain tail (A ++ B)) ↔
      s ∈ collectDefined (chain .unit A) ∨ s ∈ collectDefined (chain tail B) := by
  induction A with
  | nil => simp [chain, collectDefined]
  | cons ev rest ih =>
    cases ev with
    | fn pre pub x ps b =>
      simp only [List.cons_append, chain, collectDefined, List.mem_cons, List.mem_append, ih]
      constructor
      · rintro (h | (h | h) | h | h)
        · exact Or.inl (Or.inl h)
        · exact Or.inl (Or.inr (Or.inl (Or.inl h)))
        · exact Or.inl (Or.inr (Or.inl (Or.inr h)))
        · exact Or.inl (Or.inr (Or.inr h))
        · exact Or.inr h
      · rintro ((h | (h | h) | h) | h)
        · exact Or.inl h
        · exact Or.inr (Or.inl (Or.inl h))
        · exact Or.inr (Or.inl (Or.inr h))
        · exact Or.inr (Or.inr (Or.inl h))
        · exact Or.inr (Or.inr (Or.inr h))
    | letS pre pub x e =>
      simp only [List.cons_append, chain, collectDefined, List.mem_cons, List.mem_append, ih]
      constructor
      · rintro (h | h | h | h)
        · exact Or.inl (Or.inl h)
        · exact Or.inl (Or.inr (Or.inl h))
        · exact Or.inl (Or.inr (Or.inr h))
        · exact Or.inr h
      · rintro ((h | h | h) | h)
        · exact Or.inl h
        · exact Or.inr (Or.inl h)
        · exact Or.inr (Or.inr (Or.inl h))
        · exact Or.inr (Or.inr (Or.inr h))
    | modOpen pre x => simpa only [List.cons_append, chain] using ih
    | use pre pub path t => simpa only [List.cons_append, chain] using ih

/-- pass 1 is scope-less: the collected *set* does not depend on where an item stands -/
theorem knownOfT_moved (A B C : List Ev) (ev : Ev) (tail : Expr) :
    knownOfT (A ++ ev :: (B ++ C)) tail = knownOfT (A ++ B ++ ev :: C) tail := by
  funext s
  unfold knownOfT
  rw [Bool.eq_iff_iff, List.contains_iff_mem, List.contains_iff_mem]
  have e1 : A ++ ev :: (B ++ C) = A ++ ([ev] ++ (B ++ C)) := by simp
  have e2 : A ++ B ++ ev :: C = A ++ (B ++ ([ev] ++ C)) := by simp
  rw [e1, e2]
  simp only [mem_collectDefined_chain_append tail]
  constructor
  · rintro (h | h | h | h)
    · exact Or.inl h
    · exact Or.inr (Or.inr (Or.inl h))
    · exact Or.inr (Or.inl h)
    · exact Or.inr (Or.inr (Or.inr h))
  · rintro (h | h | h | h)
    · exact Or.inl h
    · exact Or.inr (Or.inr (Or.inl h))
    · exact Or.inr (Or.inl h)
    · exact Or.inr (Or.inr (Or.inr h))

theorem step_topLet (i : Info) (p : Bool) (x : Name) (e : Expr) : step i (.letS [] p x e) = i := rfl

/-- `ModuleInfo` does not see a top-level `let` at all -/
theorem lowerInfo_topLet (A R : List Ev) (p : Bool) (x : Name) (e : Expr) :
    lowerInfo (A ++ .letS [] p x e :: R) = lowerInfo (A ++ R) := by
  simp only [lowerInfo, List.foldl_append, List.foldl_cons, step_topLet]

/-- **item order is irrelevant** for a top-level `let`: the resolution of its right-hand side `e` (resolved expression
and diagnostics) is the same after the prefix `A` and after the longer prefix `A ++ B` of the flattened program,
provided `B` does not bind an identifier that occurs in `e`. -/
theorem siteResult_topLet_moved (A B C : List Ev) (p : Bool) (x : Name) (e : Expr) (tail : Expr)
    (hB : ∀ s ∈ e.vars, s ∉ binders B) :
    siteResult (lowerInfo (A ++ .letS [] p x e :: (B ++ C))) (knownOfT (A ++ .letS [] p x e :: (B ++ C)) tail) []
        A (.letS [] p x e) =
      siteResult (lowerInfo (A ++ B ++ .letS [] p x e :: C)) (knownOfT (A ++ B ++ .letS [] p x e :: C) tail) []
        (A ++ B) (.letS [] p x e) := by
  rw [knownOfT_moved, lowerInfo_topLet, lowerInfo_topLet (A ++ B)]
  simp only [siteResult, List.append_assoc]
  apply convertExpr_scopes_congr
  intro s hs
  rw [spineScopes_append, boundIn_spineScopes B]
  simp [hB s hs]

theorem eventsL_append (pre : List Name) (I J : List Item) : eventsL pre (I ++ J) = eventsL pre I ++ eventsL pre J := by
  induction I with
  | nil => simp [eventsL]
  | cons it rest ih => simp [eventsL, ih]

/-! ### two walks that leak a module context along the spine (counterexamples only)

`convertExprV true false` is the resolution pass of the pinned tree before /repo 8a25d9f (the continuation of a `Let`
converted before the context is restored); `convertExprV false true` is seeded change C17c (the same for `LetRec`);
`convertExprV false false` is `convertExpr`. -/
def convertExprV (letLate fnLate : Bool) (info : Info) (known : Sym → Bool) :
    List Name → List (List Sym) → Expr → Expr × List Err
  | _, _, .unit => (.unit, [])
  | _, _, .lit k => (.lit k, [])
  | cur, ls, .var s => let r := convertVar ⟨info, known, cur, ls⟩ s; (.var r.1, r.2)
  | cur, ls, .qvar segs => let r := convertQVar ⟨info, known, cur, ls⟩ segs; (.var r.1, r.2)
  | cur, ls, .call f => let r := convertExprV letLate fnLate info known cur ls f; (.call r.1, r.2)
  | cur, ls, .letE x e t =>
    let cur' := match get? info.ctxMap [x] with | some c => c | none => cur
    let r1 := convertExprV letLate fnLate info known cur' ls e
    let r2 := convertExprV letLate fnLate info known (if letLate then cur' else cur) ([[x]] :: ls) t
    (.letE x r1.1 r2.1, r1.2 ++ r2.2)
  | cur, ls, .lam ps b =>
    let r := convertExprV letLate fnLate info known cur (ps.map (fun p => [p]) :: ls) b
    (.lam ps r.1, r.2)
  | cur, ls, .letrec f e t =>
    let cur' := match get? info.ctxMap f with | some c => c | none => []
    let r1 := convertExprV letLate fnLate info known cur' ([f] :: ls) e
    let r2 := convertExprV letLate fnLate info known (if fnLate then cur' else cur) ([f] :: ls) t
    (.letrec f r1.1 r2.1, r1.2 ++ r2.2)

theorem convertExprV_ff (info : Info) (known : Sym → Bool) (e : Expr) :
    ∀ cur ls, convertExprV false false info known cur ls e = convertExpr info known cur ls e := by
  induction e with
  | unit => intros; rfl
  | lit k => intros; rfl
  | var s => intros; rfl
  | qvar segs => intros; rfl
  | call f ih => intro cur ls; simp only [convertExprV, convertExpr, ih]
  | letE x e t ihe iht =>
    intro cur ls
    simp only [convertExprV, convertExpr, ihe, iht, Bool.false_eq_true, ↓reduceIte]
    rfl
  | lam ps b ih => intro cur ls; simp only [convertExprV, convertExpr, ih]
  | letrec f e t ihe iht =>
    intro cur ls
    simp only [convertExprV, convertExpr, ihe, iht, Bool.false_eq_true, ↓reduceIte]
    rfl

/-- the whole pre-pass with one of the leaking walks -/
def convertProgramV (letLate fnLate : Bool) (evs : List Ev) (tail : Expr) : Expr × List Err :=
  let e := chain tail evs
  let known := collectDefined e
  convertExprV letLate fnLate (lowerInfo evs) (fun s => known.contains s) [] [] e

end Mimium.ModRes
