import Mimium.Proofs.OccursBound
/-! Every request keeps the store acyclic and small, and returns within the fuel bound of `Model/OccursSeq.lean`. -/
namespace Mimium.Occurs

/-- invariant after `k` requests whose types have at most `m` constructors -/
def Inv (m k : Nat) (σ : Store) : Prop :=
  Acyclic σ ∧ σ.length ≤ k ∧ ∀ e ∈ σ, size e.2 ≤ m + 2 * k

theorem Inv.mono {m k k' : Nat} {σ : Store} (h : Inv m k σ) (hk : k ≤ k') : Inv m k' σ :=
  ⟨h.1, by have := h.2.1; omega, fun e he => by have := h.2.2 e he; omega⟩

theorem inv_nil (m : Nat) : Inv m 0 [] := ⟨acyclic_nil, by simp, by simp⟩

theorem parent_mem (σ : Store) (v : Nat) (p : Ty) (h : parent σ v = some p) : (v, p) ∈ σ := by
  induction σ with
  | nil => simp [parent] at h
  | cons e rest ih =>
    obtain ⟨x, t⟩ := e
    simp only [parent] at h
    by_cases hx : x = v
    · simp only [hx, if_true, Option.some.injEq] at h
      subst h; subst hx
      exact List.mem_cons_self
    · simp only [hx, if_false] at h
      exact List.mem_cons_of_mem _ (ih h)

theorem total_le (σ : Store) (B : Nat) (h : ∀ e ∈ σ, size e.2 ≤ B) : total σ ≤ σ.length * B := by
  induction σ with
  | nil => simp [total]
  | cons e rest ih =>
    obtain ⟨x, t⟩ := e
    have h1 : size t ≤ B := h (x, t) List.mem_cons_self
    have h2 := ih (fun e he => h e (List.mem_cons_of_mem _ he))
    simp only [total, List.length_cons, Nat.add_mul, Nat.one_mul]
    omega

theorem Inv.total_le {m k : Nat} {σ : Store} (h : Inv m k σ) : total σ ≤ k * (m + 2 * k) :=
  Nat.le_trans (Occurs.total_le σ _ h.2.2) (Nat.mul_le_mul_right _ h.2.1)

theorem Inv.cons {m k : Nat} {σ : Store} (h : Inv m k σ) (v : Nat) (t : Ty) (ht : size t ≤ m + 2 * (k + 1))
    (hn : ∀ w ∈ vars t, ¬ RV σ w v) : Inv m (k + 1) ((v, t) :: σ) := by
  refine ⟨acyclic_cons σ v t h.1 hn, by have := h.2.1; simp; omega, ?_⟩
  intro e he
  rcases List.mem_cons.mp he with rfl | he
  · exact ht
  · have := h.2.2 e he; omega

/-- the two arms `(Intermediate, _)`, `(_, Intermediate)`: occurs check, then bind -/
theorem bind_ok {m k : Nat} {σ : Store} (h : Inv m k σ) (v : Nat) (t : Ty) (ht : size t ≤ m + 2 * k) (fuel : Nat)
    (hf : (k + 1) * (m + 2 * k) ≤ fuel) :
    ∃ σ', (match bindVar σ false fuel v t with
            | none => none
            | some none => some σ
            | some (some σ') => some σ') = some σ' ∧ Inv m (k + 1) σ' := by
  have htot := h.total_le
  have hfuel : size t + total σ ≤ fuel := by
    have : (k + 1) * (m + 2 * k) = k * (m + 2 * k) + (m + 2 * k) := by rw [Nat.add_mul, Nat.one_mul]
    omega
  obtain ⟨b, hb⟩ := occ_total_bound σ h.1 false v t fuel hfuel
  cases b with
  | true => exact ⟨σ, by simp [bindVar, hb], h.mono (by omega)⟩
  | false =>
    refine ⟨(v, t) :: σ, by simp [bindVar, hb], h.cons v t (by omega) ?_⟩
    exact occ_sound σ v fuel t hb

theorem unify_ok {m k : Nat} {σ : Store} (h : Inv m k σ) (t1 t2 : Ty) (h1 : size t1 ≤ m) (h2 : size t2 ≤ m) (fuel : Nat)
    (hf : (k + 1) * (m + 2 * k) + 1 ≤ fuel) :
    ∃ σ', step σ fuel (.unify t1 t2) = some σ' ∧ Inv m (k + 1) σ' := by
  have hm : 1 ≤ m := Nat.le_trans (size_pos t1) h1
  have hk : k + 1 ≤ (k + 1) * (m + 2 * k) := Nat.le_mul_of_pos_right _ (by omega)
  have hlen := h.2.1
  have htot := h.total_le
  have hexp : (k + 1) * (m + 2 * k) = k * (m + 2 * k) + (m + 2 * k) := by rw [Nat.add_mul, Nat.one_mul]
  obtain ⟨r1, hr1⟩ := root_total_bound σ h.1 t1 fuel (by omega)
  obtain ⟨r2, hr2⟩ := root_total_bound σ h.1 t2 fuel (by omega)
  have hB : ∀ v p, parent σ v = some p → size p ≤ m + 2 * k := fun v p hp => h.2.2 (v, p) (parent_mem σ v p hp)
  have hs1 : size r1 ≤ m + 2 * k := root_size σ _ hB fuel t1 r1 (by omega) hr1
  have hs2 : size r2 ≤ m + 2 * k := root_size σ _ hB fuel t2 r2 (by omega) hr2
  have same : ∃ σ', some σ = some σ' ∧ Inv m (k + 1) σ' := ⟨σ, rfl, h.mono (by omega)⟩
  have b1 : ∀ v, ∃ σ', (match bindVar σ false fuel v r2 with
            | none => none
            | some none => some σ
            | some (some σ') => some σ') = some σ' ∧ Inv m (k + 1) σ' := fun v => bind_ok h v r2 hs2 fuel (by omega)
  have b2 : ∀ v, ∃ σ', (match bindVar σ false fuel v r1 with
            | none => none
            | some none => some σ
            | some (some σ') => some σ') = some σ' ∧ Inv m (k + 1) σ' := fun v => bind_ok h v r1 hs1 fuel (by omega)
  simp only [step, unifyStep, hr1, hr2]
  cases r1 with
  | var v1 =>
    cases r2 with
    | var v2 =>
      simp only
      by_cases he : v1 = v2
      · simpa [he] using same
      · simp only [he, if_false]
        obtain ⟨b, hb⟩ := occ_total_bound σ h.1 false v1 t2 fuel (by omega)
        have hp1 := root_var_unbound σ fuel t1 v1 hr1
        have hp2 := root_var_unbound σ fuel t2 v2 hr2
        rw [hb]
        cases b with
        | true => simpa using same
        | false =>
          simp only
          by_cases hgt : v1 > v2
          · simp only [hgt, if_true]
            refine ⟨_, rfl, h.cons v2 (.var v1) (by simp [size]; omega) ?_⟩
            intro w hw hr
            simp only [vars, List.mem_singleton] at hw
            subst hw
            exact he (RV.of_unbound hp1 hr)
          · simp only [hgt, if_false]
            refine ⟨_, rfl, h.cons v1 (.var v2) (by simp [size]; omega) ?_⟩
            intro w hw hr
            simp only [vars, List.mem_singleton] at hw
            subst hw
            exact he (RV.of_unbound hp2 hr).symm
    | other => exact b1 v1
    | unary _ => exact b1 v1
    | anyOf _ _ => exact b1 v1
    | fn _ _ => exact b1 v1
  | other => cases r2 <;> first | exact b2 _ | exact same
  | unary _ => cases r2 <;> first | exact b2 _ | exact same
  | anyOf _ _ => cases r2 <;> first | exact b2 _ | exact same
  | fn _ _ => cases r2 <;> first | exact b2 _ | exact same

theorem extend_ok {m k : Nat} {σ : Store} (h : Inv m k σ) (v fresh : Nat) (fuel : Nat) :
    ∃ σ', step σ fuel (.extend v fresh) = some σ' ∧ Inv m (k + 1) σ' := by
  simp only [step]
  cases hp : parent σ v with
  | none => exact ⟨σ, rfl, h.mono (by omega)⟩
  | some p =>
    cases hq : parent σ fresh with
    | some _ => exact ⟨σ, rfl, h.mono (by omega)⟩
    | none =>
      refine ⟨_, rfl, h.cons v (.anyOf p (.var fresh)) ?_ ?_⟩
      · have : size p ≤ m + 2 * k := h.2.2 (v, p) (parent_mem σ v p hp)
        simp only [size]
        omega
      · intro w hw hr
        simp only [vars, List.mem_append, List.mem_singleton] at hw
        rcases hw with hw | hw
        · exact not_rv_of_acyclic h.1 hp hw hr
        · subst hw
          have := RV.of_unbound hq hr
          subst this
          rw [hp] at hq
          cases hq

theorem step_ok {m k : Nat} {σ : Store} (h : Inv m k σ) (r : Req) (hr : r.size ≤ m) (fuel : Nat)
    (hf : (k + 1) * (m + 2 * k) + 1 ≤ fuel) : ∃ σ', step σ fuel r = some σ' ∧ Inv m (k + 1) σ' := by
  cases r with
  | unify t1 t2 =>
    simp only [Req.size] at hr
    exact unify_ok h t1 t2 (by omega) (by omega) fuel hf
  | extend v fresh => exact extend_ok h v fresh fuel

theorem run_ok (m N : Nat) (fuel : Nat) (hf : (N + 1) * (m + 2 * N) + 1 ≤ fuel) :
    ∀ (reqs : List Req) (k : Nat) (σ : Store), Inv m k σ → (∀ r ∈ reqs, r.size ≤ m) → k + reqs.length ≤ N →
      ∃ tr, run fuel σ reqs = some tr ∧ tr.length = reqs.length ∧ ∀ σ' ∈ tr, Inv m N σ' := by
  intro reqs
  induction reqs with
  | nil => intro k σ _ _ _; exact ⟨[], rfl, rfl, by simp⟩
  | cons r rs ih =>
    intro k σ hinv hr hk
    simp only [List.length_cons] at hk
    have hle : (k + 1) * (m + 2 * k) ≤ (N + 1) * (m + 2 * N) := Nat.mul_le_mul (by omega) (by omega)
    obtain ⟨σ', hs, hinv'⟩ := step_ok hinv r (hr r List.mem_cons_self) fuel (by omega)
    obtain ⟨tr, ht, hl, hall⟩ := ih (k + 1) σ' hinv' (fun r' hr' => hr r' (List.mem_cons_of_mem _ hr')) (by omega)
    refine ⟨σ' :: tr, by simp [run, hs, ht], by simp [hl], ?_⟩
    intro s hs'
    rcases List.mem_cons.mp hs' with rfl | hs'
    · exact hinv'.mono (by omega)
    · exact hall s hs'

theorem maxReq_pos (reqs : List Req) : 1 ≤ maxReq reqs := by
  induction reqs with
  | nil => simp [maxReq]
  | cons r rs ih => simp only [maxReq]; omega

theorem le_maxReq (reqs : List Req) : ∀ r ∈ reqs, r.size ≤ maxReq reqs := by
  induction reqs with
  | nil => simp
  | cons r rs ih =>
    intro r' hr'
    simp only [maxReq]
    rcases List.mem_cons.mp hr' with rfl | hr'
    · omega
    · have := ih r' hr'; omega

/-- the whole run from the empty store -/
theorem run_total (reqs : List Req) (fuel : Nat) (hf : fuelBound reqs ≤ fuel) :
    ∃ tr, run fuel [] reqs = some tr ∧ tr.length = reqs.length ∧ ∀ σ ∈ tr, Inv (maxReq reqs) reqs.length σ :=
  run_ok (maxReq reqs) reqs.length fuel hf reqs 0 [] (inv_nil _) (le_maxReq reqs) (by omega)

/-! ## the result does not depend on the fuel -/

theorem bindVar_fuel_le (σ : Store) (fuel : Nat) (v : Nat) (t : Ty) (x : Option Store)
    (h : bindVar σ false fuel v t = some x) (fuel' : Nat) (hf : fuel ≤ fuel') : bindVar σ false fuel' v t = some x := by
  unfold bindVar at h ⊢
  cases hb : occ σ false v fuel t with
  | none => simp [hb] at h
  | some b => rw [occ_fuel_le σ false v fuel t b hb fuel' hf]; rwa [hb] at h

theorem unifyStep_fuel_le (σ : Store) (fuel : Nat) (t1 t2 : Ty) (x : Option Store)
    (h : unifyStep σ fuel t1 t2 = some x) (fuel' : Nat) (hf : fuel ≤ fuel') : unifyStep σ fuel' t1 t2 = some x := by
  unfold unifyStep at h ⊢
  cases hr1 : root σ fuel t1 with
  | none => simp [hr1] at h
  | some r1 =>
    cases hr2 : root σ fuel t2 with
    | none =>
      rw [hr1, hr2] at h
      cases r1 <;> simp at h
    | some r2 =>
      rw [root_fuel_mono σ fuel t1 r1 hr1 fuel' hf, root_fuel_mono σ fuel t2 r2 hr2 fuel' hf]
      rw [hr1, hr2] at h
      cases r1 with
      | var v1 =>
        cases r2 with
        | var v2 =>
          simp only at h ⊢
          by_cases he : v1 = v2
          · simpa [he] using h
          · simp only [he, if_false] at h ⊢
            cases hb : occ σ false v1 fuel t2 with
            | none => simp [hb] at h
            | some b => rw [occ_fuel_le σ false v1 fuel t2 b hb fuel' hf]; rwa [hb] at h
        | other => exact bindVar_fuel_le σ fuel _ _ x h fuel' hf
        | unary _ => exact bindVar_fuel_le σ fuel _ _ x h fuel' hf
        | anyOf _ _ => exact bindVar_fuel_le σ fuel _ _ x h fuel' hf
        | fn _ _ => exact bindVar_fuel_le σ fuel _ _ x h fuel' hf
      | other => cases r2 <;> first | exact bindVar_fuel_le σ fuel _ _ x h fuel' hf | exact h
      | unary _ => cases r2 <;> first | exact bindVar_fuel_le σ fuel _ _ x h fuel' hf | exact h
      | anyOf _ _ => cases r2 <;> first | exact bindVar_fuel_le σ fuel _ _ x h fuel' hf | exact h
      | fn _ _ => cases r2 <;> first | exact bindVar_fuel_le σ fuel _ _ x h fuel' hf | exact h

theorem step_fuel_le (σ : Store) (fuel : Nat) (r : Req) (σ' : Store)
    (h : step σ fuel r = some σ') (fuel' : Nat) (hf : fuel ≤ fuel') : step σ fuel' r = some σ' := by
  cases r with
  | unify t1 t2 =>
    simp only [step] at h ⊢
    cases hu : unifyStep σ fuel t1 t2 with
    | none => simp [hu] at h
    | some x => rw [unifyStep_fuel_le σ fuel t1 t2 x hu fuel' hf]; rwa [hu] at h
  | extend v fresh => simpa [step] using h

theorem run_fuel_le (fuel fuel' : Nat) (hf : fuel ≤ fuel') : ∀ (reqs : List Req) (σ : Store) (tr : List Store),
    run fuel σ reqs = some tr → run fuel' σ reqs = some tr := by
  intro reqs
  induction reqs with
  | nil => intro σ tr h; simpa [run] using h
  | cons r rs ih =>
    intro σ tr h
    simp only [run] at h ⊢
    cases hs : step σ fuel r with
    | none => simp [hs] at h
    | some σ' =>
      rw [step_fuel_le σ fuel r σ' hs fuel' hf]
      simp only [hs] at h ⊢
      cases hr : run fuel σ' rs with
      | none => simp [hr] at h
      | some tr' => rw [ih σ' tr' hr]; rwa [hr] at h

end Mimium.Occurs
