import Mimium.Proofs.CoreRenameV
import Mimium.Proofs.FlatTreeRound
/-!
The evaluator cannot tell two state trees apart that agree on the cells of a labelled layout covering the
evaluated expression (`eval_agree`, induction on the fuel over all 18 constructs), and trees with the same flat
words agree (`agree_of_words`).
-/
namespace Mimium.FlatTree
open Mimium.Core Mimium.Cells Mimium.StateTree Mimium.Layout Mimium.StateMachine

theorem SRel.andThen {α β : Type} {RA : α → α → Prop} {RB : β → β → Prop} {r₁ r₂ : Res α} {f₁ f₂ : α → Res β}
    (h : SRel RA r₁ r₂) (hf : ∀ a b, RA a b → SRel RB (f₁ a) (f₂ b)) :
    SRel RB (Core.andThen r₁ f₁) (Core.andThen r₂ f₂) := by
  cases r₁ <;> cases r₂ <;> simp_all [SRel, Core.andThen]

theorem SRel.refl {α : Type} {R : α → α → Prop} (hR : ∀ a, R a a) (r : Res α) : SRel R r r := by
  cases r <;> simp [SRel, hR]

/-! ### agreement -/

theorem agreeL_iff : ∀ (cs : List LCell) (a b : SNode), AgreeL cs a b ↔ ∀ c ∈ cs, AgreeC c a b
  | [], _, _ => by simp [AgreeL]
  | c :: cs, a, b => by simp [AgreeL, agreeL_iff cs a b]

theorem AgreeC_congr (c : LCell) (a a' b b' : SNode)
    (ha : lookupCell a.cells c.site = lookupCell a'.cells c.site)
    (hb : lookupCell b.cells c.site = lookupCell b'.cells c.site) : AgreeC c a b ↔ AgreeC c a' b' := by
  cases c with
  | mem s => simp only [LCell.site] at ha hb; simp [AgreeC, SNode.memAt, ha, hb]
  | delay s n => simp only [LCell.site] at ha hb; simp [AgreeC, SNode.ringAt, ha, hb]
  | child s self cells => simp only [LCell.site] at ha hb; simp [AgreeC, SNode.childAt, ha, hb]

theorem AgreeL_cells (cs : List LCell) (a a' b b' : SNode) (ha : a.cells = a'.cells) (hb : b.cells = b'.cells) :
    AgreeL cs a b ↔ AgreeL cs a' b' := by
  simp only [agreeL_iff]
  constructor
  · intro h c hc; exact (AgreeC_congr c a a' b b' (by rw [ha]) (by rw [hb])).1 (h c hc)
  · intro h c hc; exact (AgreeC_congr c a a' b b' (by rw [ha]) (by rw [hb])).2 (h c hc)

theorem mem_sitesOf : ∀ (cs : List LCell) (c : LCell), c ∈ cs → c.site ∈ sitesOf cs
  | [], _, h => by simp at h
  | x :: xs, c, h => by
    simp only [List.mem_cons] at h
    rcases h with rfl | h
    · simp [sitesOf]
    · simp [sitesOf, mem_sitesOf xs c h]

theorem layOk_of_mem : ∀ (cs : List LCell) (c : LCell), LayOkL cs → c ∈ cs → LayOk c
  | [], _, _, h => by simp at h
  | x :: xs, c, hl, h => by
    simp only [LayOkL] at hl
    simp only [List.mem_cons] at h
    rcases h with rfl | h
    · exact hl.1
    · exact layOk_of_mem xs c hl.2.2 h

theorem site_unique : ∀ (cs : List LCell) (c c' : LCell), LayOkL cs → c ∈ cs → c' ∈ cs → c.site = c'.site → c = c'
  | [], _, _, _, h, _, _ => by simp at h
  | x :: xs, c, c', hl, h, h', e => by
    simp only [LayOkL] at hl
    simp only [List.mem_cons] at h h'
    rcases h with rfl | h <;> rcases h' with rfl | h'
    · rfl
    · exact absurd (e ▸ mem_sitesOf xs c' h') hl.2.1
    · exact absurd (e ▸ mem_sitesOf xs c h) hl.2.1
    · exact site_unique xs c c' hl.2.2 h h' e

/-- writing the cell of `c₀` on both sides keeps the trees agreeing, if they agree at `c₀` afterwards -/
theorem agree_setCell (cells : List LCell) (hl : LayOkL cells) (c₀ : LCell) (h0 : c₀ ∈ cells) (a b : SNode) (x y : SCell)
    (hag : AgreeN cells a b) (hnew : AgreeC c₀ (a.setCell c₀.site x) (b.setCell c₀.site y)) :
    AgreeN cells (a.setCell c₀.site x) (b.setCell c₀.site y) := by
  refine ⟨by simpa using hag.1, (agreeL_iff _ _ _).2 ?_⟩
  intro c hc
  by_cases e : c.site = c₀.site
  · rw [site_unique cells c c₀ hl hc h0 e]; exact hnew
  · refine (AgreeC_congr c _ _ _ _ ?_ ?_).2 ((agreeL_iff _ _ _).1 hag.2 c hc)
    · simp [lookup_set_ne _ _ _ _ (fun h => e h.symm)]
    · simp [lookup_set_ne _ _ _ _ (fun h => e h.symm)]

theorem core_initSelf (st : SNode) (sh : Option Shape) : Core.initSelf st sh = FlatTree.initSelf sh st := rfl

theorem core_finishSelf (st : SNode) (sh : Option Shape) (v : Val) : Core.finishSelf st sh v = finSelf sh st v := by
  cases sh <;> simp [Core.finishSelf, finSelf]

theorem cells_finSelf (self : Option Shape) (st : SNode) (v : Val) : (finSelf self st v).cells = st.cells := by
  cases self <;> simp [finSelf]

theorem selfv_finSelf_eq (self : Option Shape) (a b : SNode) (v : Val) (h : a.selfv = b.selfv) :
    (finSelf self a v).selfv = (finSelf self b v).selfv := by
  cases self <;> simp [finSelf, h]

theorem selfv_initSelf_eq (self : Option Shape) (a b : SNode) (h : a.selfv = b.selfv) :
    (FlatTree.initSelf self a).selfv = (FlatTree.initSelf self b).selfv := by
  unfold FlatTree.initSelf
  rw [h]
  split <;> simp_all

/-- after a call both children agree as STORED states again -/
theorem agree_child_after (self : Option Shape) (cells' : List LCell) (q₁ q₂ : SNode) (v : Val)
    (h : AgreeN cells' q₁ q₂) :
    (FlatTree.initSelf self (finSelf self q₁ v)).selfv = (FlatTree.initSelf self (finSelf self q₂ v)).selfv ∧
    AgreeL cells' (finSelf self q₁ v) (finSelf self q₂ v) :=
  ⟨selfv_initSelf_eq _ _ _ (selfv_finSelf_eq _ _ _ _ h.1),
   (AgreeL_cells cells' _ _ _ _ (cells_finSelf _ _ _) (cells_finSelf _ _ _)).2 h.2⟩

/-! ### the evaluator respects agreement -/

theorem eval_agree (P : Prog) (rt : Rt) : ∀ (fuel : Nat),
    (∀ (e : Expr) (cells : List LCell) (env : Env) (σ : Store) (st₁ st₂ : SNode),
      LayOkL cells → Covers P cells e → AgreeN cells st₁ st₂ →
      SRel (RE cells) (eval fuel P rt env e σ st₁) (eval fuel P rt env e σ st₂)) ∧
    (∀ (es : List Expr) (cells : List LCell) (env : Env) (σ : Store) (st₁ st₂ : SNode),
      LayOkL cells → (∀ e ∈ es, Covers P cells e) → AgreeN cells st₁ st₂ →
      SRel (RE cells) (evalList fuel P rt env es σ st₁) (evalList fuel P rt env es σ st₂)) := by
  intro fuel
  induction fuel with
  | zero =>
    constructor
    · intro e cells env σ st₁ st₂ _ _ _; rw [eval_zero, eval_zero]; simp [SRel]
    · intro es cells env σ st₁ st₂ _ _ _; rw [evalList_zero, evalList_zero]; simp [SRel]
  | succ n ih =>
    obtain ⟨ihE, ihL⟩ := ih
    constructor
    · intro e cells env σ st₁ st₂ hl hc hag
      cases e with
      | lit b => simp [eval_lit, SRel, RE, hag]
      | var x =>
        simp only [eval_var]
        cases env.lookup x with
        | none => simp [SRel]
        | some l => rcases h : σ[l]? with _ | v <;> simp [SRel, RE, hag, h]
      | now => simp [eval_now, SRel, RE, hag]
      | samplerate => simp [eval_sr, SRel, RE, hag]
      | lam ps body => simp [eval_lam, SRel, RE, hag]
      | self =>
        simp only [eval_self, hag.1]
        cases st₂.selfv <;> simp [SRel, RE, hag]
      | un op a =>
        cases hc with
        | un ha =>
          simp only [eval_un]
          refine SRel.andThen (ihE a cells env σ st₁ st₂ hl ha hag) (fun r₁ r₂ hr => ?_)
          obtain ⟨v₁, σ₁, s₁⟩ := r₁
          obtain ⟨v₂, σ₂, s₂⟩ := r₂
          simp only [RE] at hr
          obtain ⟨rfl, rfl, hs⟩ := hr
          cases v₁ <;> simp [SRel, RE, hs]
      | bin op a b =>
        cases hc with
        | bin ha hb =>
          simp only [eval_bin]
          refine SRel.andThen (ihE a cells env σ st₁ st₂ hl ha hag) (fun r₁ r₂ hr => ?_)
          obtain ⟨v₁, σ₁, s₁⟩ := r₁
          obtain ⟨v₂, σ₂, s₂⟩ := r₂
          simp only [RE] at hr
          obtain ⟨rfl, rfl, hs⟩ := hr
          cases v₁ with
          | num x =>
            simp only
            refine SRel.andThen (ihE b cells env σ₁ s₁ s₂ hl hb hs) (fun r₁ r₂ hr => ?_)
            obtain ⟨v₁, σ₁', s₁'⟩ := r₁
            obtain ⟨v₂, σ₂', s₂'⟩ := r₂
            simp only [RE] at hr
            obtain ⟨rfl, rfl, hs'⟩ := hr
            cases v₁ <;> simp [SRel, RE, hs']
          | _ => simp [SRel]
      | ite c a b =>
        cases hc with
        | ite hcc ha hb =>
          simp only [eval_ite]
          refine SRel.andThen (ihE c cells env σ st₁ st₂ hl hcc hag) (fun r₁ r₂ hr => ?_)
          obtain ⟨v₁, σ₁, s₁⟩ := r₁
          obtain ⟨v₂, σ₂, s₂⟩ := r₂
          simp only [RE] at hr
          obtain ⟨rfl, rfl, hs⟩ := hr
          cases v₁ with
          | num x =>
            simp only
            split
            · exact ihE a cells env σ₁ s₁ s₂ hl ha hs
            · exact ihE b cells env σ₁ s₁ s₂ hl hb hs
          | _ => simp [SRel]
      | letE x a body =>
        cases hc with
        | letE ha hb =>
          simp only [eval_letE]
          refine SRel.andThen (ihE a cells env σ st₁ st₂ hl ha hag) (fun r₁ r₂ hr => ?_)
          obtain ⟨v₁, σ₁, s₁⟩ := r₁
          obtain ⟨v₂, σ₂, s₂⟩ := r₂
          simp only [RE] at hr
          obtain ⟨rfl, rfl, hs⟩ := hr
          exact ihE body cells _ _ s₁ s₂ hl hb hs
      | letTup xs a body =>
        cases hc with
        | letTup ha hb =>
          simp only [eval_letTup]
          refine SRel.andThen (ihE a cells env σ st₁ st₂ hl ha hag) (fun r₁ r₂ hr => ?_)
          obtain ⟨v₁, σ₁, s₁⟩ := r₁
          obtain ⟨v₂, σ₂, s₂⟩ := r₂
          simp only [RE] at hr
          obtain ⟨rfl, rfl, hs⟩ := hr
          cases v₁ with
          | tup vs =>
            simp only
            split
            · exact ihE body cells _ _ s₁ s₂ hl hb hs
            · simp [SRel]
          | _ => simp [SRel]
      | assign x a rest =>
        cases hc with
        | assign ha hb =>
          simp only [eval_assign]
          refine SRel.andThen (ihE a cells env σ st₁ st₂ hl ha hag) (fun r₁ r₂ hr => ?_)
          obtain ⟨v₁, σ₁, s₁⟩ := r₁
          obtain ⟨v₂, σ₂, s₂⟩ := r₂
          simp only [RE] at hr
          obtain ⟨rfl, rfl, hs⟩ := hr
          cases env.lookup x with
          | none => simp [SRel]
          | some l => exact ihE rest cells _ _ s₁ s₂ hl hb hs
      | proj a i =>
        cases hc with
        | proj ha =>
          simp only [eval_proj]
          refine SRel.andThen (ihE a cells env σ st₁ st₂ hl ha hag) (fun r₁ r₂ hr => ?_)
          obtain ⟨v₁, σ₁, s₁⟩ := r₁
          obtain ⟨v₂, σ₂, s₂⟩ := r₂
          simp only [RE] at hr
          obtain ⟨rfl, rfl, hs⟩ := hr
          cases v₁ with
          | tup vs => rcases h : vs[i]? with _ | v <;> simp [SRel, RE, hs, h]
          | _ => simp [SRel]
      | tup es =>
        cases hc with
        | tup hes =>
          simp only [eval_tup]
          refine SRel.andThen (ihL es cells env σ st₁ st₂ hl hes hag) (fun r₁ r₂ hr => ?_)
          simp only [RE] at hr
          simp [SRel, RE, hr.1, hr.2.1, hr.2.2]
      | app f args =>
        cases hc with
        | app hf hargs =>
          simp only [eval_app]
          refine SRel.andThen (ihE f cells env σ st₁ st₂ hl hf hag) (fun r₁ r₂ hr => ?_)
          obtain ⟨v₁, σ₁, s₁⟩ := r₁
          obtain ⟨v₂, σ₂, s₂⟩ := r₂
          simp only [RE] at hr
          obtain ⟨rfl, rfl, hs⟩ := hr
          cases v₁ with
          | clo ps body cenv =>
            simp only
            refine SRel.andThen (ihL args cells env σ₁ s₁ s₂ hl hargs hs) (fun r₁ r₂ hr => ?_)
            obtain ⟨vs₁, σ₁', s₁'⟩ := r₁
            obtain ⟨vs₂, σ₂', s₂'⟩ := r₂
            simp only [RE] at hr
            obtain ⟨rfl, rfl, hs'⟩ := hr
            simp only
            split
            · simp [SRel]
            · refine SRel.andThen (RB := RE cells) (SRel.refl (R := fun a b => a = b) (fun _ => rfl) _) (fun q₁ q₂ hq => ?_)
              subst hq
              simp [SRel, RE, hs']
          | _ => simp [SRel]
      | mem a site =>
        cases hc with
        | mem ha hm =>
          simp only [eval_mem]
          refine SRel.andThen (ihE a cells env σ st₁ st₂ hl ha hag) (fun r₁ r₂ hr => ?_)
          obtain ⟨v₁, σ₁, s₁⟩ := r₁
          obtain ⟨v₂, σ₂, s₂⟩ := r₂
          simp only [RE] at hr
          obtain ⟨rfl, rfl, hs⟩ := hr
          cases v₁ with
          | num x =>
            have hcell : s₁.memAt site = s₂.memAt site := by
              have := (agreeL_iff _ _ _).1 hs.2 _ hm
              simpa [AgreeC] using this
            have := agree_setCell cells hl (.mem site) hm s₁ s₂ (.mem x) (.mem x) hs
              (by simp [AgreeC, LCell.site, memAt_set])
            simp only [LCell.site] at this
            simp [SRel, RE, hcell, this]
          | _ => simp [SRel]
      | delay k a t site =>
        cases hc with
        | delay ha ht hm =>
          simp only [eval_delay]
          refine SRel.andThen (ihE a cells env σ st₁ st₂ hl ha hag) (fun r₁ r₂ hr => ?_)
          obtain ⟨v₁, σ₁, s₁⟩ := r₁
          obtain ⟨v₂, σ₂, s₂⟩ := r₂
          simp only [RE] at hr
          obtain ⟨rfl, rfl, hs⟩ := hr
          cases v₁ with
          | num x =>
            simp only
            refine SRel.andThen (ihE t cells env σ₁ s₁ s₂ hl ht hs) (fun r₁ r₂ hr => ?_)
            obtain ⟨v₁, σ₁', s₁'⟩ := r₁
            obtain ⟨v₂, σ₂', s₂'⟩ := r₂
            simp only [RE] at hr
            obtain ⟨rfl, rfl, hs'⟩ := hr
            cases v₁ with
            | num tm =>
              have hcell : s₁'.ringAt k site = s₂'.ringAt k site := by
                have := (agreeL_iff _ _ _).1 hs'.2 _ hm
                simpa [AgreeC] using this
              have := agree_setCell cells hl (.delay site k) hm s₁' s₂'
                (.delay ((s₁'.ringAt k site).process x tm).2) (.delay ((s₂'.ringAt k site).process x tm).2) hs'
                (by simp [AgreeC, LCell.site, ringAt_set, hcell])
              simp only [LCell.site, hcell] at this
              simp [SRel, RE, hcell, this]
            | _ => simp [SRel]
          | _ => simp [SRel]
      | call f args site =>
        cases hc with
        | call hargs hm hself hbody =>
          rename_i self cells'
          simp only [eval_call]
          refine SRel.andThen (ihL args cells env σ st₁ st₂ hl hargs hag) (fun r₁ r₂ hr => ?_)
          obtain ⟨vs₁, σ₁, s₁⟩ := r₁
          obtain ⟨vs₂, σ₂, s₂⟩ := r₂
          simp only [RE] at hr
          obtain ⟨rfl, rfl, hs⟩ := hr
          simp only [callRest]
          cases hf : findFn P.fns f with
          | none => simp [SRel]
          | some d =>
            simp only
            split
            · simp [SRel]
            · have hsh := hself d hf
              have hcov := hbody d hf
              have hch := (agreeL_iff _ _ _).1 hs.2 _ hm
              simp only [AgreeC] at hch
              have hl' : LayOkL cells' := by
                have := layOk_of_mem cells _ hl hm
                simpa [LayOk] using this
              have hag0 : AgreeN cells' (FlatTree.initSelf self (s₁.childAt site)) (FlatTree.initSelf self (s₂.childAt site)) :=
                ⟨hch.1, (AgreeL_cells cells' _ _ _ _ (cells_initSelf _ _) (cells_initSelf _ _)).2 hch.2⟩
              simp only [core_initSelf, core_finishSelf, hsh]
              refine SRel.andThen (ihE d.body cells' _ _ _ _ hl' hcov hag0) (fun q₁ q₂ hq => ?_)
              obtain ⟨v₁, σ₁', c₁⟩ := q₁
              obtain ⟨v₂, σ₂', c₂⟩ := q₂
              simp only [RE] at hq
              obtain ⟨rfl, rfl, hcs⟩ := hq
              have := agree_setCell cells hl (.child site self cells') hm s₁ s₂
                (.child (finSelf self c₁ v₁)) (.child (finSelf self c₂ v₁)) hs
                (by simp only [AgreeC, LCell.site, childAt_set]; exact agree_child_after self cells' c₁ c₂ v₁ hcs)
              simp only [LCell.site] at this
              simp [SRel, RE, this]
    · intro es cells env σ st₁ st₂ hl hc hag
      cases es with
      | nil => simp [evalList_nil, SRel, RE, hag]
      | cons e es =>
        simp only [evalList_cons]
        refine SRel.andThen (ihE e cells env σ st₁ st₂ hl (hc e (by simp)) hag) (fun r₁ r₂ hr => ?_)
        obtain ⟨v₁, σ₁, s₁⟩ := r₁
        obtain ⟨v₂, σ₂, s₂⟩ := r₂
        simp only [RE] at hr
        obtain ⟨rfl, rfl, hs⟩ := hr
        refine SRel.andThen (ihL es cells env σ₁ s₁ s₂ hl (fun e he => hc e (by simp [he])) hs) (fun q₁ q₂ hq => ?_)
        simp only [RE] at hq
        simp [SRel, RE, hq.1, hq.2.1, hq.2.2]

/-! ### trees with the same flat words agree -/

theorem flatten_inj (sh : Shape) (v w : Val) (hv : HasShape sh v) (hw : HasShape sh w)
    (h : flattenVal v = flattenVal w) : v = w := by
  have e1 := unflat_flatten sh v [] hv
  have e2 := unflat_flatten sh w [] hw
  rw [h, e2] at e1
  exact (Prod.mk.inj e1).1.symm

mutual
theorem hasShape_zeroOf : ∀ sh : Shape, HasShape sh (zeroOf sh)
  | .num => by simp [zeroOf, HasShape]
  | .tup ss => by simp only [zeroOf, HasShape]; exact hasShapeL_zeroOf ss
theorem hasShapeL_zeroOf : ∀ ss : List Shape, HasShapeL ss (zeroOf.zeroOfL ss)
  | [] => by simp [zeroOf.zeroOfL, HasShapeL]
  | s :: ss => by simp only [zeroOf.zeroOfL, HasShapeL]; exact ⟨hasShape_zeroOf s, hasShapeL_zeroOf ss⟩
end

theorem selfv_of_words (self : Option Shape) (a b : SNode) (ha : SelfOkS self a) (hb : SelfOkS self b)
    (h : selfWords self a = selfWords self b) :
    (FlatTree.initSelf self a).selfv = (FlatTree.initSelf self b).selfv := by
  cases self with
  | none =>
    simp only [SelfOkS] at ha hb
    simp [FlatTree.initSelf, ha, hb]
  | some sh =>
    simp only [SelfOkS] at ha hb
    simp only [selfWords] at h
    cases hva : a.selfv with
    | none =>
      cases hvb : b.selfv with
      | none => simp [FlatTree.initSelf, hva, hvb]
      | some w =>
        simp only [hva, hvb, ← flatten_zeroOf] at h
        simp [FlatTree.initSelf, hva, hvb, flatten_inj sh _ _ (hasShape_zeroOf sh) (hb w hvb) h]
    | some v =>
      cases hvb : b.selfv with
      | none =>
        simp only [hva, hvb, ← flatten_zeroOf] at h
        simp [FlatTree.initSelf, hva, hvb, flatten_inj sh _ _ (ha v hva) (hasShape_zeroOf sh) h]
      | some w =>
        simp only [hva, hvb] at h
        simp [FlatTree.initSelf, hva, hvb, flatten_inj sh _ _ (ha v hva) (hb w hvb) h]

theorem ring_of_words (r r' : Ring) (h : r.words = r'.words) (h1 : r.rd < 2 ^ 64) (h2 : r.wr < 2 ^ 64)
    (h1' : r'.rd < 2 ^ 64) (h2' : r'.wr < 2 ^ 64) : r = r' := by
  obtain ⟨rd, wr, d⟩ := r
  obtain ⟨rd', wr', d'⟩ := r'
  simp only [Ring.words, List.cons_append, List.nil_append, List.cons.injEq] at h
  simp only at h1 h2 h1' h2'
  obtain ⟨e1, e2, e3⟩ := h
  have e1' := congrArg UInt64.toNat e1
  have e2' := congrArg UInt64.toNat e2
  rw [toNat_toUInt64_of_lt _ h1, toNat_toUInt64_of_lt _ h1'] at e1'
  rw [toNat_toUInt64_of_lt _ h2, toNat_toUInt64_of_lt _ h2'] at e2'
  simp [e1', e2', e3]

mutual
theorem agreeC_of_words : ∀ (c : LCell) (a b : SNode), ConfS c a → ConfS c b → serCell c a = serCell c b → AgreeC c a b
  | .mem s, a, b, _, _, h => by simpa [serCell, AgreeC] using h
  | .delay s n, a, b, ha, hb, h => by
    simp only [ConfS] at ha hb
    simp only [serCell] at h
    simp only [AgreeC]
    exact ring_of_words _ _ h ha.2.1 ha.2.2 hb.2.1 hb.2.2
  | .child s self cells, a, b, ha, hb, h => by
    simp only [ConfS] at ha hb
    simp only [serCell] at h
    have hl : (selfWords self (a.childAt s)).length = (selfWords self (b.childAt s)).length := by
      rw [selfWords_length _ _ (selfOkS_selfOk _ _ ha.1), selfWords_length _ _ (selfOkS_selfOk _ _ hb.1)]
    have := List.append_inj h hl
    simp only [AgreeC]
    exact ⟨selfv_of_words self _ _ ha.1 hb.1 this.1, agreeL_of_words cells _ _ ha.2 hb.2 this.2⟩
theorem agreeL_of_words : ∀ (cs : List LCell) (a b : SNode), ConfSL cs a → ConfSL cs b → serCells cs a = serCells cs b →
    AgreeL cs a b
  | [], _, _, _, _, _ => by simp [AgreeL]
  | c :: cs, a, b, ha, hb, h => by
    simp only [ConfSL] at ha hb
    simp only [serCells] at h
    have hl : (serCell c a).length = (serCell c b).length := by
      rw [serCell_length c a (confS_conf c a ha.1), serCell_length c b (confS_conf c b hb.1)]
    have := List.append_inj h hl
    simp only [AgreeL]
    exact ⟨agreeC_of_words c a b ha.1 hb.1 this.1, agreeL_of_words cs a b ha.2 hb.2 this.2⟩
end

/-- trees that conform (with `self` values of the declared shape) and have the same flat words agree -/
theorem agree_of_words (lay : LNode) (a b : SNode) (ha : ConformsS lay a) (hb : ConformsS lay b)
    (h : serialize lay a = serialize lay b) : Agree lay a b := by
  simp only [serialize] at h
  have hl : (selfWords lay.self a).length = (selfWords lay.self b).length := by
    rw [selfWords_length _ _ (selfOkS_selfOk _ _ ha.1), selfWords_length _ _ (selfOkS_selfOk _ _ hb.1)]
  have := List.append_inj h hl
  exact ⟨selfv_of_words lay.self a b ha.1 hb.1 this.1, agreeL_of_words lay.cells a b ha.2 hb.2 this.2⟩

/-! ### the life of a function instance -/

theorem agree_refl_after (lay : LNode) (q₁ q₂ : SNode) (v : Val) (h : AgreeN lay.cells q₁ q₂) :
    Agree lay (finSelf lay.self q₁ v) (finSelf lay.self q₂ v) := agree_child_after lay.self lay.cells q₁ q₂ v h

/-- agreeing stored states of a function instance whose body is covered by the layout: the same returned values,
sample after sample, for every run length and whatever environment / store / time each sample supplies -/
theorem instRun_agree (fuel : Nat) (P : Prog) (lay : LNode) (body : Expr) (hl : lay.Ok) (hc : Covers P lay.cells body) :
    ∀ (samples : List (Rt × Env × Store)) (a b : SNode), Agree lay a b →
      instRun fuel P lay.self body samples a = instRun fuel P lay.self body samples b
  | [], _, _, _ => by simp [instRun]
  | (rt, env, σ) :: rest, a, b, hag => by
    have hag0 : AgreeN lay.cells (FlatTree.initSelf lay.self a) (FlatTree.initSelf lay.self b) :=
      ⟨hag.1, (AgreeL_cells lay.cells _ _ _ _ (cells_initSelf _ _) (cells_initSelf _ _)).2 hag.2⟩
    have h := (eval_agree P rt fuel).1 body lay.cells env σ _ _ hl hc hag0
    simp only [instRun]
    cases h1 : eval fuel P rt env body σ (FlatTree.initSelf lay.self a) with
    | error e1 =>
      cases h2 : eval fuel P rt env body σ (FlatTree.initSelf lay.self b) with
      | error e2 => rfl
      | ok r2 => simp [h1, h2, SRel] at h
    | ok r1 =>
      cases h2 : eval fuel P rt env body σ (FlatTree.initSelf lay.self b) with
      | error e2 => simp [h1, h2, SRel] at h
      | ok r2 =>
        obtain ⟨v1, σ1, q1⟩ := r1
        obtain ⟨v2, σ2, q2⟩ := r2
        simp only [h1, h2, SRel, RE] at h
        obtain ⟨rfl, rfl, hq⟩ := h
        simp only
        rw [instRun_agree fuel P lay body hl hc rest _ _ (agree_refl_after lay q1 q2 v1 hq)]

/-- `Machine.step` in terms of `initSelf` / `finSelf` -/
theorem machine_step_eq (fuel : Nat) (P : Prog) (sr : UInt64) (m : Machine) (inputs : List UInt64) :
    Machine.step fuel P sr m inputs =
      Core.andThen (eval fuel P ⟨natToF64Bits m.t, sr⟩
          (bindAll (globalEnv P) m.store P.dsp.params
            (P.dsp.params.zipIdx.map fun (_, i) => Val.num (inputs.getD i 0))).1 P.dsp.body
          (bindAll (globalEnv P) m.store P.dsp.params
            (P.dsp.params.zipIdx.map fun (_, i) => Val.num (inputs.getD i 0))).2
          (FlatTree.initSelf P.dsp.selfShape m.root))
        (fun r => .ok (flattenVal r.1, ⟨r.2.1.take m.store.length, finSelf P.dsp.selfShape r.2.2 r.1, m.t + 1⟩)) := by
  unfold Machine.step
  simp only
  cases hsv : m.root.selfv <;> cases hsh : P.dsp.selfShape <;>
    simp only [FlatTree.initSelf, finSelf, hsv, Option.isSome, Core.andThen] <;>
    split <;> simp_all

/-- one `dsp` call on two machines with the same globals and sample index whose `dsp` states agree: the same
output words (or the same error) and agreeing machines again -/
theorem step_agree (fuel : Nat) (P : Prog) (sr : UInt64) (lay : LNode) (hl : lay.Ok)
    (hself : P.dsp.selfShape = lay.self) (hc : Covers P lay.cells P.dsp.body)
    (m₁ m₂ : Machine) (inputs : List UInt64) (h : MAgree lay m₁ m₂) :
    SRel (fun r₁ r₂ => r₁.1 = r₂.1 ∧ MAgree lay r₁.2 r₂.2)
      (Machine.step fuel P sr m₁ inputs) (Machine.step fuel P sr m₂ inputs) := by
  obtain ⟨hst, ht, hag⟩ := h
  have hag0 : AgreeN lay.cells (FlatTree.initSelf lay.self m₁.root) (FlatTree.initSelf lay.self m₂.root) :=
    ⟨hag.1, (AgreeL_cells lay.cells _ _ _ _ (cells_initSelf _ _) (cells_initSelf _ _)).2 hag.2⟩
  rw [machine_step_eq, machine_step_eq, hst, ht, hself]
  refine SRel.andThen ((eval_agree P _ fuel).1 P.dsp.body lay.cells _ _ _ _ hl hc hag0) (fun r₁ r₂ hr => ?_)
  obtain ⟨v1, σ1, q1⟩ := r₁
  obtain ⟨v2, σ2, q2⟩ := r₂
  simp only [RE] at hr
  obtain ⟨rfl, rfl, hq⟩ := hr
  simp only [SRel, MAgree, true_and]
  exact agree_child_after lay.self lay.cells q1 q2 v1 hq

end Mimium.FlatTree
