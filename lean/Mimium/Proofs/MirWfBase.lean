import Mimium.Model.MirWf
import Mimium.Proofs.MirStateBase
/-! Basic facts for `C03_mir_wf_no_stuck`: the only register an instruction changes is its destination, which is defined
afterwards; reading defined registers never fails with `undefReg`. -/
namespace Mimium.Mir
open Mimium.RustGen

def Eff.dst : Eff → Option Nat
  | Eff.none => Option.none
  | .val d _ => some d
  | .alias d _ => some d

set_option hygiene false in
local macro "core_dst_tac" : tactic => `(tactic|
  (simp only [stepCore, Bind.bind, Except.bind, res, pure, Except.pure] at h <;>
    (try simp [Ins.plain] at hp) <;> (repeat' split at h) <;>
    (first | (cases h; done) | (cases h; rfl) | skip)))

theorem stepCore_dst {callF : CallF} {P : Prog} {i : Ins} {s : RSt} {r : CoreRes} (hp : i.plain = true)
    (h : stepCore callF P i s = .ok r) : r.2.2.dst = i.dst := by
  cases i with
  | call d f args n => cases f <;> core_dst_tac
  | callInd d f args n => cases f <;> core_dst_tac
  | mkClosure d f => cases f <;> core_dst_tac
  | _ => core_dst_tac

/-! ### definedness and the errors the theorem excludes -/

def Defined (regs : Array (Option Region)) (r : Nat) : Prop := ∃ rg, regs[r]? = some (some rg)

/-- an error that is neither "undefined register" nor "bad block index" -/
def NoStuck (e : Err) : Prop := (∀ r, e ≠ .undefReg r) ∧ (∀ b, e ≠ .badBlock b)

def Safe {α : Type} (x : Except Err α) : Prop := ∀ e, x = .error e → NoStuck e

theorem Safe.ok {α : Type} (a : α) : Safe (Except.ok a : Except Err α) := by intro e h; cases h
theorem Safe.pure {α : Type} (a : α) : Safe (Pure.pure a : Except Err α) := by intro e h; cases h
theorem Safe.stuck {α : Type} (w : String) : Safe (Except.error (.stuck w) : Except Err α) := by
  intro e h; cases h; exact ⟨by simp, by simp⟩
theorem Safe.uns {α : Type} (w : String) : Safe (Except.error (.unsupported w) : Except Err α) := by
  intro e h; cases h; exact ⟨by simp, by simp⟩
theorem Safe.fuel {α : Type} : Safe (Except.error .fuel : Except Err α) := by
  intro e h; cases h; exact ⟨by simp, by simp⟩

theorem Safe.bind' {α β : Type} {x : Except Err α} {f : α → Except Err β} (hx : Safe x)
    (hf : ∀ a, x = .ok a → Safe (f a)) : Safe (x >>= f) := by
  intro e h
  cases x with
  | error e' => simp only [Bind.bind, Except.bind] at h; cases h; exact hx _ rfl
  | ok a => exact hf a rfl e h

theorem Safe.bind {α β : Type} {x : Except Err α} {f : α → Except Err β} (hx : Safe x)
    (hf : ∀ a, Safe (f a)) : Safe (x >>= f) := Safe.bind' hx (fun a _ => hf a)

theorem safe_readN (m : Array UInt64) (a n : Nat) : Safe (readN m a n) := by
  unfold readN; split
  · exact Safe.ok _
  · exact Safe.stuck _

theorem safe_writeN (m : Array UInt64) (a : Nat) (ws : List UInt64) : Safe (writeN m a ws) := by
  unfold writeN; split
  · exact Safe.ok _
  · exact Safe.stuck _

theorem safe_regOf (fr : Frame) (o : Opd) (h : ∀ r ∈ opdRegs o, Defined fr.regs r) : Safe (regOf fr o) := by
  cases o with
  | reg r =>
    obtain ⟨rg, hrg⟩ := h r (by simp [opdRegs])
    simp only [regOf, hrg]
    exact Safe.ok _
  | fn i => exact Safe.uns _
  | ext n => exact Safe.uns _
  | none => exact Safe.stuck _
  | bad => exact Safe.uns _
  | up i => exact Safe.uns _

theorem safe_readOpd (s : RSt) (o : Opd) (n : Nat) (h : ∀ r ∈ opdRegs o, Defined s.fr.regs r) : Safe (readOpd s o n) := by
  unfold readOpd
  exact Safe.bind (safe_regOf _ _ h) (fun _ => safe_readN _ _ _)

theorem safe_readWord (s : RSt) (o : Opd) (h : ∀ r ∈ opdRegs o, Defined s.fr.regs r) : Safe (readWord s o) := by
  unfold readWord
  exact Safe.bind (safe_readOpd _ _ _ h) (fun _ => Safe.ok _)

theorem safe_readArgs (s : RSt) : ∀ (args : List (Opd × Nat)),
    (∀ r ∈ args.flatMap (fun a => opdRegs a.1), Defined s.fr.regs r) → Safe (readArgs s args) := by
  intro args
  induction args with
  | nil => intro _; exact Safe.ok _
  | cons a rest ih =>
    intro h
    obtain ⟨o, n⟩ := a
    have hrest : ∀ r ∈ rest.flatMap (fun a => opdRegs a.1), Defined s.fr.regs r := by
      intro r hr; exact h r (by simp only [List.flatMap_cons, List.mem_append]; exact Or.inr hr)
    simp only [readArgs]
    split
    · exact ih hrest
    · refine Safe.bind (safe_readOpd _ _ _ ?_) (fun _ => Safe.bind (ih hrest) (fun _ => Safe.ok _))
      intro r hr; exact h r (by simp only [List.flatMap_cons, List.mem_append]; exact Or.inl hr)

theorem safe_evalBin (op : BinOp) (a b : UInt64) : Safe (evalBin op a b) := by
  cases op <;> simp only [evalBin] <;> (try split) <;> first | exact Safe.ok _ | exact Safe.uns _ | exact Safe.stuck _

theorem safe_extCall (name : String) (args : List UInt64) (now sr : UInt64) : Safe (extCall name args now sr) := by
  unfold extCall
  simp only []
  split <;> first | exact Safe.ok _ | exact Safe.uns _

theorem cellFor_regs (s : RSt) (rg : Region) : (cellFor s rg).1.fr.regs = s.fr.regs := by
  unfold cellFor; split <;> rfl

theorem safe_curCell (s : RSt) (i : Nat) : Safe (curCell s i) := by
  unfold curCell
  split
  · exact Safe.stuck _
  · split
    · exact Safe.ok _
    · exact Safe.stuck _

theorem safe_cellsFor : ∀ (os : List Opd) (s : RSt), (∀ r ∈ os.flatMap opdRegs, Defined s.fr.regs r) → Safe (cellsFor s os) := by
  intro os
  induction os with
  | nil => intro s _; exact Safe.ok _
  | cons o os ih =>
    intro s h
    have hrest : ∀ r ∈ os.flatMap opdRegs, Defined s.fr.regs r := by
      intro r hr; exact h r (by simp only [List.flatMap_cons, List.mem_append]; exact Or.inr hr)
    cases o with
    | up i =>
      simp only [cellsFor]
      exact Safe.bind (safe_curCell _ _) (fun _ => Safe.bind (ih _ hrest) (fun _ => Safe.ok _))
    | _ =>
      simp only [cellsFor]
      refine Safe.bind (safe_regOf _ _ (fun r hr => h r (by simp only [List.flatMap_cons, List.mem_append]; exact Or.inl hr))) ?_
      intro rg
      refine Safe.bind (ih _ ?_) (fun _ => Safe.ok _)
      intro r hr
      rw [cellFor_regs]
      exact hrest r hr

theorem safe_newClosure (P : Prog) (s : RSt) (g : Nat) (h : ∀ r ∈ upsOf P g, Defined s.fr.regs r) : Safe (newClosure P s g) := by
  unfold newClosure
  cases hf : P.fns[g]? with
  | none => exact Safe.stuck _
  | some f =>
    simp only []
    refine Safe.bind (safe_cellsFor _ _ ?_) (fun _ => Safe.ok _)
    simpa [upsOf, hf] using h

theorem safe_closeCells : ∀ (ids : List Nat) (g : Glob), Safe (closeCells g ids) := by
  intro ids
  induction ids with
  | nil => intro g; exact Safe.ok _
  | cons id ids ih =>
    intro g
    simp only [closeCells]
    split
    · exact Safe.bind (safe_readN _ _ _) (fun _ => ih _)
    · exact ih _

theorem safe_closeHandle (g : Glob) (w : UInt64) : Safe (closeHandle g w) := by
  unfold closeHandle; split
  · exact safe_closeCells _ _
  · exact Safe.ok _

theorem safe_closeOffs (rg : Region) : ∀ (offs : List Nat) (s : RSt), Safe (closeOffs s rg offs) := by
  intro offs
  induction offs with
  | nil => intro s; exact Safe.ok _
  | cons off offs ih =>
    intro s
    simp only [closeOffs]
    exact Safe.bind (safe_readN _ _ _) (fun _ => Safe.bind (safe_closeHandle _ _) (fun _ => ih _))

def CallSafe (callF : CallF) : Prop := ∀ g ws clo glob st tr, Safe (callF g ws clo glob st tr)

end Mimium.Mir
