import Mimium.Proofs.CstShapeNodes
/-!
# Parameter lists: `parse_param_list` skips a comma wherever it sees one; on strict trees the children are a list
-/
namespace Mimium.Grammar
open Mimium.Gen (Kind SK)
open Mimium.Cst (PState Frame Green)
open Mimium.CstPrint (Ctx IsTok IsNode SepTail ItemOk itemRun ListShape ListBody commasFollowItems)

variable {E : Env} {c : Ctx} {rec : Tag → St → St}

theorem cfi_nodes (p : Bool) (ns w : List Green) (hn : ∀ g ∈ ns, IsNode g) (hne : ns ≠ []) :
    commasFollowItems c p (ns ++ w) = commasFollowItems c true w := by
  induction ns generalizing p with
  | nil => exact absurd rfl hne
  | cons g gs ih =>
    obtain ⟨k, a, rfl⟩ := hn g (by simp)
    simp only [List.cons_append, commasFollowItems, CstPrint.tokKind]
    by_cases hgs : gs = []
    · subst hgs; simp
    · simpa using ih true (fun x hx => hn x (by simp [hx])) hgs

theorem cfi_item (p : Bool) (it w : List Green) (h : ParamItem c it) :
    commasFollowItems c p (it ++ w) = commasFollowItems c true w := by
  obtain ⟨i, rest, rfl, ⟨ti, wi, rfl, hk⟩, hr⟩ := h
  simp only [List.cons_append, commasFollowItems, CstPrint.tokKind, hk]
  by_cases hrest : rest = []
  · subst hrest; simp
  · simpa using cfi_nodes true rest w hr hrest

theorem itemOk_param (it : List Green) (h : ParamItem c it) : ItemOk c it := by
  obtain ⟨i, rest, rfl, ⟨ti, wi, rfl, hk⟩, hr⟩ := h
  refine ⟨by simp, ?_⟩
  simp only [itemRun, hk, CstPrint.isOpenDelim, CstPrint.isCloseDelim]
  have : ∀ (ns : List Green), (∀ g ∈ ns, IsNode g) → itemRun c 0 ns = some 0 := by
    intro ns
    induction ns with
    | nil => intro _; rfl
    | cons g gs ih =>
      intro h
      obtain ⟨k, a, rfl⟩ := h g (by simp)
      simp only [itemRun]
      exact ih (fun x hx => h x (by simp [hx]))
  simpa using this rest hr

/-- after a parameter: `, …` is a list tail when every comma follows a parameter -/
theorem pl_tail (rest : List Green) (h : PLang c rest) : commasFollowItems c false rest = true →
    ∀ cm, IsTok c .Comma cm → SepTail c (ItemOk c) (cm :: rest) := by
  induction h with
  | nil => intro _ cm hcm; exact .trail cm hcm
  | item it hit =>
    intro _ cm hcm
    have := SepTail.cons (P := ItemOk c) cm it [] hcm (itemOk_param it hit) .nil
    simpa using this
  | itemComma it cm' rest' hit hcm' _ ih =>
    intro hs cm hcm
    rw [cfi_item false it _ hit] at hs
    obtain ⟨i', w', rfl, hk'⟩ := hcm'
    simp only [commasFollowItems, CstPrint.tokKind, hk', beq_self_eq_true, if_true, Bool.true_and] at hs
    exact .cons cm it _ hcm (itemOk_param it hit) (ih hs _ ⟨i', w', rfl, hk'⟩)
  | comma cm' rest' hcm' _ _ =>
    intro hs
    obtain ⟨i', w', rfl, hk'⟩ := hcm'
    simp [commasFollowItems, CstPrint.tokKind, hk'] at hs

theorem pl_body (w : List Green) (h : PLang c w) (hs : commasFollowItems c false w = true) : ListBody c w := by
  cases h with
  | nil => exact Or.inl rfl
  | item _ hit => exact Or.inr ⟨w, [], by simp, itemOk_param w hit, .nil⟩
  | itemComma it cm rest hit hcm hrest =>
    rw [cfi_item false it _ hit] at hs
    obtain ⟨i', w', rfl, hk'⟩ := hcm
    simp only [commasFollowItems, CstPrint.tokKind, hk', beq_self_eq_true, if_true, Bool.true_and] at hs
    exact Or.inr ⟨it, _, rfl, itemOk_param it hit, pl_tail rest hrest hs _ ⟨i', w', rfl, hk'⟩⟩
  | comma cm rest hcm _ =>
    obtain ⟨i', w', rfl, hk'⟩ := hcm
    simp [commasFollowItems, CstPrint.tokKind, hk'] at hs

theorem cfi_prefix (p : Bool) (w v : List Green) (h : commasFollowItems c p (w ++ v) = true) : commasFollowItems c p w = true := by
  induction w generalizing p with
  | nil => rfl
  | cons g gs ih =>
    simp only [List.cons_append, commasFollowItems] at h ⊢
    split at h
    · rename_i hc
      simp only [hc, if_true]
      simp only [Bool.and_eq_true] at h ⊢
      exact ⟨h.1, ih false h.2⟩
    · rename_i hc
      simp only [hc, if_false, Bool.false_eq_true]
      exact ih true h

/-! ## `parse_param_list` -/

theorem em_bumpAs_some (r : Relabel) (k : Kind) (s : St) (hp : peek E s = some k) (hk : relab k = false)
    (h : Em E c rec (R E c) (.bumpAs r) s) :
    ∃ ti w, topCh (exec E rec (.bumpAs r) s) = topCh s ++ [.token ti w] ∧ c.kind ti = k := by
  obtain ⟨ti, w, e, o⟩ := h k hp
  exact ⟨ti, w, e, o.eq hk⟩

/-- an optional node: `if check(k) { f }` where `f` appends one node -/
theorem opt_node (cnd : Cond) (x : Cmd) (s : St) (hx : Em E c rec (R E c) x s → App P1 s (exec E rec x s))
    (h : Em E c rec (R E c) (.ite cnd x .skip) s) :
    ∃ w, topCh (exec E rec (.ite cnd x .skip) s) = topCh s ++ w ∧ ∀ g ∈ w, IsNode g := by
  revert h
  refine ite_vc (P := fun s' => ∃ w, topCh s' = topCh s ++ w ∧ ∀ g ∈ w, IsNode g) _ _ _ _ (fun _ h => ?_)
    (fun _ _ => ⟨[], by rw [exec_skip]; simp, by simp⟩)
  obtain ⟨w, e, k, a, rfl⟩ := hx h
  exact ⟨_, e, by intro g hg; simp only [List.mem_singleton] at hg; subst hg; exact ⟨k, a, rfl⟩⟩

theorem vc_paramLoop (s : St) (h : Em E c rec (R E c) (body .paramLoop) s) : Rs E c .paramLoop s (exec E rec (body .paramLoop) s) := by
  have hshow : body .paramLoop = .ite (.both (.neg (.check .ParenEnd)) (.neg .atEnd))
      (.seq (.ite (.check .Ident) (.seq (.bumpAs .param) (.seq (.ite (.check .Colon) (.call .typeAnnotation) .skip)
          (.ite (.check .Assign) (.node .ParamDefault (seqs [expect .Assign, .callA .exprPrec (.const 1)])) .skip))) .skip)
        (.ite (.check .Comma) (.seq .bump (.call .paramLoop)) .skip)) .skip := rfl
  rw [hshow] at h ⊢
  revert h
  refine ite_vc (P := fun s' => App (PLang c) s s') _ _ _ _ (fun _ h => ?_) (fun _ _ => ⟨[], by rw [exec_skip]; simp, .nil⟩)
  rw [em_seq] at h
  obtain ⟨h1, _, h2⟩ := h
  rw [exec_seq]
  -- the optional parameter
  have hit : ∃ it, topCh (exec E rec (.ite (.check .Ident) (.seq (.bumpAs .param) (.seq (.ite (.check .Colon) (.call .typeAnnotation) .skip)
          (.ite (.check .Assign) (.node .ParamDefault (seqs [expect .Assign, .callA .exprPrec (.const 1)])) .skip))) .skip) s) = topCh s ++ it ∧
      (it = [] ∨ ParamItem c it) := by
    revert h1
    refine ite_vc (P := fun s' => ∃ it, topCh s' = topCh s ++ it ∧ (it = [] ∨ ParamItem c it)) _ _ _ _ (fun hc h => ?_)
      (fun _ _ => ⟨[], by rw [exec_skip]; simp, Or.inl rfl⟩)
    rw [em_seq, em_seq] at h
    obtain ⟨hb, _, ha, _, hd⟩ := h
    rw [exec_seq, exec_seq]
    obtain ⟨ti, w, e1, k1⟩ := em_bumpAs_some .param .Ident s ((evalCond_check s .Ident).mp hc) rfl hb
    obtain ⟨wa, ea, hwa⟩ := opt_node (.check .Colon) (.call .typeAnnotation) _ (fun h => And.left h) ha
    obtain ⟨wd, ed, hwd⟩ := opt_node (.check .Assign) (.node .ParamDefault (seqs [expect .Assign, .callA .exprPrec (.const 1)])) _ (fun h => em_node_app _ _ _ h) hd
    refine ⟨.token ti w :: (wa ++ wd), by rw [ed, ea, e1]; simp, Or.inr ⟨_, _, rfl, ⟨ti, w, rfl, k1⟩, ?_⟩⟩
    intro g hg
    rcases List.mem_append.mp hg with hg | hg
    · exact hwa g hg
    · exact hwd g hg
  obtain ⟨it, eit, hit'⟩ := hit
  revert h2
  refine ite_vc (P := fun s' => App (PLang c) s s') _ _ _ _ (fun hc h => ?_) (fun _ _ => ?_)
  · rw [em_seq] at h
    obtain ⟨hb, _, hr⟩ := h
    rw [exec_seq]
    obtain ⟨ti, w, e1, k1⟩ := bump_after_check .Comma _ ((evalCond_check _ .Comma).mp hc) rfl hb
    obtain ⟨wr, er, hwr⟩ := hr.1
    refine ⟨it ++ .token ti w :: wr, by rw [er, e1, eit]; simp, ?_⟩
    rcases hit' with rfl | hit'
    · exact .comma _ _ ⟨ti, w, rfl, k1⟩ hwr
    · exact .itemComma _ _ _ hit' ⟨ti, w, rfl, k1⟩ hwr
  · rw [exec_skip]
    refine ⟨it, eit, ?_⟩
    rcases hit' with rfl | hit'
    · exact .nil
    · exact .item _ hit'

theorem nok_paramList (s : St) : NOK (E := E) (c := c) (rec := rec) (body .paramList) s :=
  nok_node _ _ s (by decide) fun hW h => by
    have hshow : seqs [expect Kind.ParenBegin, Cmd.call Tag.paramLoop, expect Kind.ParenEnd] =
      .seq (expect .ParenBegin) (.seq (.call .paramLoop) (expect .ParenEnd)) := rfl
    rw [hshow, em_seq, em_seq] at h
    rw [hshow, exec_seq, exec_seq]
    obtain ⟨h1, _, h2, _, h3⟩ := h
    obtain ⟨_, x1, t1, w1, e1, o1⟩ := em_expect _ _ h1
    obtain ⟨w2, e2, hw2⟩ := h2.1
    obtain ⟨_, x3, t3, w3, e3, o3⟩ := em_expect _ _ h3
    intro hst _
    have hall : topCh (exec E rec (expect .ParenEnd) (exec E rec (.call .paramLoop) (exec E rec (expect .ParenBegin)
        (prim E s (.startNode SK.ParamList.toNat))))) = .token t1 w1 :: (w2 ++ [.token t3 w3]) := by
      rw [x3, e3, e2, x1, e1, topCh_start]; simp
    rw [hall] at hst ⊢
    have hs2 : commasFollowItems c false w2 = true := by
      simp only [CstPrint.strictAt, List.drop_succ_cons, List.drop_zero] at hst
      exact cfi_prefix false w2 _ hst
    exact CstPrint.listShape_ok c _ ⟨_, w2, _, t1, w1, t3, w3, rfl, rfl, by rw [o1.eq rfl]; rfl, rfl, by rw [o3.eq rfl]; rfl, pl_body w2 hw2 hs2⟩

end Mimium.Grammar
