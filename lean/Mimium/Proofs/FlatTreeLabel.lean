import Mimium.Proofs.FlatTreeTrace
/-!
Every well-formed published skeleton is the erasure of a labelled layout (`ofSk`), and the offset at which a cell
of a labelled layout is executed is the address `path_to_address` computes on the published skeleton.
-/
namespace Mimium.FlatTree
open Mimium.Core Mimium.Cells Mimium.StateTree Mimium.Layout Mimium.StateMachine

theorem shapeSizeL_replicate : ∀ s : Nat, shapeSizeL (List.replicate s .num) = s
  | 0 => by simp [shapeSizeL]
  | s + 1 => by simp [List.replicate_succ, shapeSizeL, shapeSize, shapeSizeL_replicate s]; omega

theorem shapeSize_ofSize (s : Nat) : shapeSize (shapeOfSize s) = s := by
  simp [shapeOfSize, shapeSize, shapeSizeL_replicate]

mutual
theorem label_sk : ∀ (sk : Sk) (k : Nat), WF sk = true → (labelCell sk k).sk = sk
  | .mem s, k, h => by simp [WF] at h; simp [labelCell, LCell.sk, h]
  | .delay n, k, _ => by simp [labelCell, LCell.sk]
  | .feed s, k, h => by simp [WF] at h
  | .fn [], k, _ => by simp [labelCell, labelCells, LCell.sk, feedOf, skCells]
  | .fn (.feed s :: rest), k, h => by
    simp only [WF] at h
    simp [labelCell, LCell.sk, feedOf, shapeSize_ofSize, labels_sk rest 0 h]
  | .fn (.mem s :: rest), k, h => by
    have h' : WFL (.mem s :: rest) = true := by simpa [WF] using h
    simp [labelCell, LCell.sk, feedOf, labels_sk (.mem s :: rest) 0 h']
  | .fn (.delay n :: rest), k, h => by
    have h' : WFL (.delay n :: rest) = true := by simpa [WF] using h
    simp [labelCell, LCell.sk, feedOf, labels_sk (.delay n :: rest) 0 h']
  | .fn (.fn cs :: rest), k, h => by
    have h' : WFL (.fn cs :: rest) = true := by simpa [WF] using h
    simp [labelCell, LCell.sk, feedOf, labels_sk (.fn cs :: rest) 0 h']
theorem labels_sk : ∀ (cs : List Sk) (k : Nat), WFL cs = true → skCells (labelCells cs k) = cs
  | [], _, _ => by simp [labelCells, skCells]
  | c :: cs, k, h => by
    simp only [WFL, Bool.and_eq_true] at h
    simp [labelCells, skCells, label_sk c k h.1, labels_sk cs (k + 1) h.2]
end

theorem label_site (sk : Sk) (k : Nat) : (labelCell sk k).site = k := by
  cases sk with
  | mem s => simp [labelCell, LCell.site]
  | delay n => simp [labelCell, LCell.site]
  | feed s => simp [labelCell, LCell.site]
  | fn cs =>
    unfold labelCell
    split <;> simp [LCell.site]

theorem labels_sites_ge : ∀ (cs : List Sk) (k : Nat), ∀ s ∈ sitesOf (labelCells cs k), k ≤ s
  | [], _, s, h => by simp [labelCells, sitesOf] at h
  | c :: cs, k, s, h => by
    simp only [labelCells, sitesOf, List.mem_cons, label_site] at h
    rcases h with h | h
    · omega
    · have := labels_sites_ge cs (k + 1) s h; omega

mutual
theorem label_ok : ∀ (sk : Sk) (k : Nat), SkFits sk → LayOk (labelCell sk k)
  | .mem s, k, _ => by simp [labelCell, LayOk]
  | .delay n, k, h => by simpa [labelCell, LayOk, SkFits] using h
  | .feed s, k, _ => by simp [labelCell, LayOk]
  | .fn [], k, _ => by simp [labelCell, labelCells, LayOk, LayOkL]
  | .fn (.feed s :: rest), k, h => by
    simp only [SkFits, SkFitsL] at h
    simp only [labelCell, LayOk]
    exact labels_ok rest 0 h.2
  | .fn (.mem s :: rest), k, h => by
    simp only [SkFits] at h
    simp only [labelCell, LayOk]
    exact labels_ok (.mem s :: rest) 0 h
  | .fn (.delay n :: rest), k, h => by
    simp only [SkFits] at h
    simp only [labelCell, LayOk]
    exact labels_ok (.delay n :: rest) 0 h
  | .fn (.fn cs :: rest), k, h => by
    simp only [SkFits] at h
    simp only [labelCell, LayOk]
    exact labels_ok (.fn cs :: rest) 0 h
theorem labels_ok : ∀ (cs : List Sk) (k : Nat), SkFitsL cs → LayOkL (labelCells cs k)
  | [], _, _ => by simp [labelCells, LayOkL]
  | c :: cs, k, h => by
    simp only [SkFitsL] at h
    simp only [labelCells, LayOkL, label_site]
    refine ⟨label_ok c k h.1, ?_, labels_ok cs (k + 1) h.2⟩
    intro hmem
    have := labels_sites_ge cs (k + 1) k hmem
    omega
end

/-- every well-formed skeleton of a function (ring lengths fitting a word) is the erasure of a labelled layout -/
theorem ofSk_spec (cs : List Sk) (hw : WF (.fn cs) = true) (hf : SkFits (.fn cs)) :
    (ofSk (.fn cs)).sk = .fn cs ∧ (ofSk (.fn cs)).Ok := by
  have h1 := label_sk (.fn cs) 0 hw
  have h2 := label_ok (.fn cs) 0 hf
  match cs, hw, hf, h1, h2 with
  | [], _, _, _, _ => simp [ofSk, LNode.sk, LNode.Ok, labelCells, feedOf, skCells, LayOkL]
  | .feed s :: rest, _, _, h1, h2 =>
    simp only [labelCell, LCell.sk, LayOk] at h1 h2
    exact ⟨by simpa [ofSk, LNode.sk] using h1, by simpa [ofSk, LNode.Ok] using h2⟩
  | .mem s :: rest, _, _, h1, h2 =>
    simp only [labelCell, LCell.sk, LayOk] at h1 h2
    exact ⟨by simpa [ofSk, LNode.sk] using h1, by simpa [ofSk, LNode.Ok] using h2⟩
  | .delay n :: rest, _, _, h1, h2 =>
    simp only [labelCell, LCell.sk, LayOk] at h1 h2
    exact ⟨by simpa [ofSk, LNode.sk] using h1, by simpa [ofSk, LNode.Ok] using h2⟩
  | .fn cs' :: rest, _, _, h1, h2 =>
    simp only [labelCell, LCell.sk, LayOk] at h1 h2
    exact ⟨by simpa [ofSk, LNode.sk] using h1, by simpa [ofSk, LNode.Ok] using h2⟩

/-! ### the execution offset of a cell is its `path_to_address` -/

theorem skCells_append : ∀ (a b : List LCell), skCells (a ++ b) = skCells a ++ skCells b
  | [], b => by simp [skCells]
  | c :: a, b => by simp [skCells, skCells_append a b]

theorem skCells_length : ∀ (a : List LCell), (skCells a).length = a.length
  | [] => by simp [skCells]
  | c :: a => by simp [skCells, skCells_length a]

theorem cell_address (self : Option Shape) (before : List LCell) (c : LCell) (after : List LCell) :
    pathToAddress (LNode.sk ⟨self, before ++ c :: after⟩) [(feedOf self).length + before.length] =
      some (selfSize self + sizeCells before, c.size) := by
  have hidx : (feedOf self ++ skCells (before ++ c :: after))[(feedOf self).length + before.length]? = some c.sk := by
    rw [List.getElem?_append_right (by omega)]
    simp [skCells_append, skCells, skCells_length]
  have htake : (feedOf self ++ skCells (before ++ c :: after)).take ((feedOf self).length + before.length) =
      feedOf self ++ skCells before := by
    rw [List.take_append]
    simp [skCells_append, skCells_length, List.take_of_length_le]
  have hfeed : sizeL (feedOf self) = selfSize self := by cases self <;> simp [feedOf, sizeL, selfSize, Sk.size]
  simp only [LNode.sk, pathToAddress, hidx, offsetOf, htake, sizeL_append, skCells_size, hfeed, sk_size]
  simp

end Mimium.FlatTree
