import Mimium.Proofs.UnifyStrict
/-! Unification of strict types on a store with strict parents leaves a store with strict parents (so the hypothesis of the
strict-fragment theorem can be put on the INPUT). -/
namespace Mimium.Unify
open Mimium.Occurs (parent Acyclic)

theorem strictStore_cons {σ : Store} (hS : StrictStore σ) {v : Nat} {t : Ty} (ht : strict t = true) : StrictStore ((v, t) :: σ) := by
  intro w p hp
  simp only [parent] at hp
  by_cases h : v = w
  · simp only [h, if_true, Option.some.injEq] at hp; subst hp; exact ht
  · simp only [h, if_false] at hp; exact hS w p hp

theorem root_strict {σ : Store} (hS : StrictStore σ) : ∀ (g : Nat) (t r : Ty), strict t = true → root σ g t = some r → strict r = true := by
  intro g
  induction g with
  | zero => intro t r _ h; simp [root] at h
  | succ g ih =>
    intro t r ht h
    cases t with
    | var v =>
      simp only [root] at h
      cases hp : parent σ v with
      | none => simp only [hp, Option.some.injEq] at h; subst h; exact ht
      | some p => simp only [hp] at h; exact ih p r (hS v p hp) h
    | _ => simp only [root, Option.some.injEq] at h; subst h; exact ht

/-- `u` keeps the store strict on strict arguments -/
def GoodS (u : U) : Prop :=
  ∀ σ a b, StrictStore σ → strict a = true → strict b = true → ∀ σ' r, u σ a b = some (σ', r) → StrictStore σ'

theorem bind_strict {g : Nat} {σ σ' : Store} (hS : StrictStore σ) {v : Nat} {t : Ty} (ht : strict t = true) {r : Res}
    (h : bind g σ v t = some (σ', r)) : StrictStore σ' := by
  unfold bind at h
  split at h
  · cases h
  · simp only [Option.some.injEq, Prod.mk.injEq] at h; obtain ⟨rfl, _⟩ := h; exact hS
  · simp only [Option.some.injEq, Prod.mk.injEq] at h; obtain ⟨rfl, _⟩ := h; exact strictStore_cons hS ht

theorem varArms_strict {g : Nat} {σ σ' : Store} (hS : StrictStore σ) {t2 t1r t2r : Ty} (h1 : strict t1r = true) (h2 : strict t2r = true)
    {out : Out} {r : Res} (h : varArms g σ t2 t1r t2r = some out) (ho : out = some (σ', r)) : StrictStore σ' := by
  subst ho
  unfold varArms at h
  split at h
  · simp only [Option.some.injEq] at h
    unfold varVar at h
    split at h
    · simp only [Option.some.injEq, Prod.mk.injEq] at h; obtain ⟨rfl, _⟩ := h; exact hS
    · split at h
      · cases h
      · simp only [Option.some.injEq, Prod.mk.injEq] at h; obtain ⟨rfl, _⟩ := h; exact hS
      · split at h <;>
          (simp only [Option.some.injEq, Prod.mk.injEq] at h; obtain ⟨rfl, _⟩ := h; exact strictStore_cons hS (by simp [strict]))
  · simp only [Option.some.injEq] at h; exact bind_strict hS h2 h
  · simp only [Option.some.injEq] at h; exact bind_strict hS h1 h
  · cases h

section
variable {u ua : U} (hu : GoodS u)
include hu

theorem arrayArm_strict {σ σ' : Store} (hS : StrictStore σ) {a1 a2 : Ty} (h1 : strict a1 = true) (h2 : strict a2 = true) {r : Res}
    (h : arrayArm u σ a1 a2 = some (σ', r)) : StrictStore σ' := by
  unfold arrayArm at h
  split at h
  · cases h
  all_goals
    rename_i hc
    simp only [Option.some.injEq, Prod.mk.injEq] at h; obtain ⟨rfl, _⟩ := h
    exact hu σ _ _ hS h1 h2 _ _ hc

theorem fnArm_strict (hua : GoodS ua) {σ σ' : Store} (hS : StrictStore σ) {a1 r1 a2 r2 : Ty} (ha1 : strict a1 = true) (hr1 : strict r1 = true)
    (ha2 : strict a2 = true) (hr2 : strict r2 = true) {r : Res} (h : fnArm u ua σ a1 r1 a2 r2 = some (σ', r)) : StrictStore σ' := by
  unfold fnArm at h
  cases h1 : ua σ a1 a2 with
  | none => simp [h1] at h
  | some o1 =>
    obtain ⟨σ1, x⟩ := o1
    simp only [h1] at h
    cases h2 : u σ1 r1 r2 with
    | none => simp [h2] at h
    | some o2 =>
      obtain ⟨σ2, y⟩ := o2
      simp only [h2, Option.some.injEq, Prod.mk.injEq] at h
      obtain ⟨rfl, _⟩ := h
      exact hu σ1 _ _ (hua σ _ _ hS ha1 ha2 _ _ h1) hr1 hr2 _ _ h2

omit hu in
theorem structuralD_strict {σ σ' : Store} (hS : StrictStore σ) {t1r t2r : Ty} (h1 : strict t1r = true) (h2 : strict t2r = true) {r : Res}
    (h : structuralD u σ t1r t2r = some (σ', r)) : StrictStore σ' := by
  unfold structuralD at h
  split at h
  · split at h <;> (simp only [Option.some.injEq, Prod.mk.injEq] at h; obtain ⟨rfl, _⟩ := h; exact hS)
  · split at h
    · rename_i b1 b2 e1 e2
      have := asBoxed_eq e1; subst this; simp [strict] at h1
    · rename_i b1 e1 _
      have := asBoxed_eq e1; subst this; simp [strict] at h1
    · rename_i b2 _ e2
      have := asBoxed_eq e2; subst this; simp [strict] at h2
    · simp only [Option.some.injEq, Prod.mk.injEq] at h; obtain ⟨rfl, _⟩ := h; exact hS

theorem structuralC_strict {σ σ' : Store} (hS : StrictStore σ) {t1r t2r : Ty} (h1 : strict t1r = true) (h2 : strict t2r = true) {r : Res}
    (h : structuralC u σ t1r t2r = some (σ', r)) : StrictStore σ' := by
  unfold structuralC at h
  split at h
  · rename_i p1 p2 e1 e2
    have := asCode_eq e1; have := asCode_eq e2; subst_vars
    exact hu σ _ _ hS (by simpa [strict] using h1) (by simpa [strict] using h2) _ _ h
  · split at h
    · rename_i us1 us2 e1 e2
      have := asUnion_eq e1; subst this; simp [strict] at h1
    · rename_i us2 _ e2
      have := asUnion_eq e2; subst this; simp [strict] at h2
    · rename_i us1 e1 _
      have := asUnion_eq e1; subst this; simp [strict] at h1
    · exact structuralD_strict hS h1 h2 h

theorem structuralB_strict {σ σ' : Store} (hS : StrictStore σ) {t1 t2 t1r t2r : Ty} (h1 : strict t1r = true) (h2 : strict t2r = true)
    {r : Res} (h : structuralB u σ t1 t2 t1r t2r = some (σ', r)) : StrictStore σ' := by
  have const : ∀ {x : Res}, (some (σ, x) : Out) = some (σ', r) → StrictStore σ' := by
    intro x hx; simp only [Option.some.injEq, Prod.mk.injEq] at hx; obtain ⟨rfl, _⟩ := hx; exact hS
  unfold structuralB at h
  split at h
  · exact const h
  · split at h
    · exact const h
    · split at h
      · exact const h
      · split at h
        · exact const h
        · split at h
          · rename_i v e2
            have := asTuple1_eq e2; subst this; simp [strict] at h2
          · split at h
            · rename_i v e1
              have := asTuple1_eq e1; subst this; simp [strict] at h1
            · split at h
              · exact const h
              · split at h
                · exact const h
                · split at h
                  · exact const h
                  · exact structuralC_strict hu hS h1 h2 h

theorem structural_strict (hua : GoodS ua) {σ σ' : Store} (hS : StrictStore σ) {t1 t2 t1r t2r : Ty} (h1 : strict t1r = true)
    (h2 : strict t2r = true) {r : Res} (h : structural u ua σ t1 t2 t1r t2r = some (σ', r)) : StrictStore σ' := by
  unfold structural at h
  split at h
  · rename_i x1 x2 e1 e2
    have := asArray_eq e1; have := asArray_eq e2; subst_vars
    exact arrayArm_strict hu hS (by simpa [strict] using h1) (by simpa [strict] using h2) h
  · split at h
    · rename_i x1 x2 e1 e2
      have := asRef_eq e1; have := asRef_eq e2; subst_vars
      exact hu σ _ _ hS (by simpa [strict] using h1) (by simpa [strict] using h2) _ _ h
    · split at h
      · rename_i x1 x2 e1 e2
        have := asTuple_eq e1; subst this; simp [strict] at h1
      · split at h
        · rename_i x1 x2 e1 e2
          have := asRecord_eq e1; subst this; simp [strict] at h1
        · split at h
          · rename_i arg1 ret1 arg2 ret2 e1 e2
            have := asFn_eq e1; have := asFn_eq e2; subst_vars
            simp only [strict, Bool.and_eq_true] at h1 h2
            exact fnArm_strict hu hua hS h1.1 h1.2 h2.1 h2.2 h
          · exact structuralB_strict hu hS h1 h2 h

theorem argsHead_strict {σ σ' : Store} (hS : StrictStore σ) {t1 t2 t1r t2r : Ty} (s1 : strict t1 = true) (s2 : strict t2 = true)
    (h1 : strict t1r = true) (h2 : strict t2r = true) {out : Out} {r : Res} (h : argsHead u ua σ t1 t2 t1r t2r = some out)
    (ho : out = some (σ', r)) : StrictStore σ' := by
  subst ho
  unfold argsHead at h
  split at h
  · simp only [Option.some.injEq] at h; exact hu σ _ _ hS s1 s2 _ _ h
  · split at h
    · rename_i fl e1
      have := asRecord1_eq e1; subst this; simp [strict] at h1
    · split at h
      · rename_i fl e2
        split at e2
        · rename_i fl' e2'
          have := asRecord1_eq e2'; subst this; simp [strict] at h2
        · cases e2
      · split at h
        · rename_i v e2
          have := asTuple1_eq e2; subst this; simp [strict] at h2
        · split at h
          · rename_i v e1
            have := asTuple1_eq e1; subst this; simp [strict] at h1
          · cases h

theorem argsTail_strict {σ σ' : Store} (hS : StrictStore σ) {t1 t2 t1r t2r : Ty} (s1 : strict t1 = true) (s2 : strict t2 = true)
    (h1 : strict t1r = true) {r : Res} (h : argsTail u ua σ t1 t2 t1r t2r = some (σ', r)) : StrictStore σ' := by
  unfold argsTail at h
  split at h
  · rename_i kvs e1 _
    have := asRecord_eq e1; subst this; simp [strict] at h1
  · split at h
    · rename_i hc
      simp only [Bool.and_eq_true] at hc
      obtain ⟨as, rfl⟩ := isTuple_eq hc.1
      simp [strict] at h1
    · split at h
      · rename_i us e1
        have := asUnion_eq e1; subst this; simp [strict] at h1
      · exact hu σ _ _ hS s1 s2 _ _ h

end

theorem go_strict (g : Nat) : ∀ (f : Nat) (args : Bool), GoodS (go g f args) := by
  intro f
  induction f with
  | zero => intro args σ a b _ _ _ σ' r h; simp [go] at h
  | succ f ih =>
    intro args σ t1 t2 hS s1 s2 σ' r h
    cases args with
    | false =>
      simp only [go] at h
      split at h
      · rename_i t1r t2r hr1 hr2
        have q1 := root_strict hS g t1 t1r s1 hr1
        have q2 := root_strict hS g t2 t2r s2 hr2
        split at h
        · rename_i out hv
          exact varArms_strict hS q1 q2 hv h
        · exact structural_strict (ih false) (ih true) hS q1 q2 h
      · cases h
    | true =>
      simp only [go] at h
      split at h
      · rename_i t1r t2r hr1 hr2
        have q1 := root_strict hS g t1 t1r s1 hr1
        have q2 := root_strict hS g t2 t2r s2 hr2
        split at h
        · rename_i out hh
          exact argsHead_strict (ua := go g f true) (ih false) hS s1 s2 q1 q2 hh h
        · split at h
          · rename_i out hv
            exact varArms_strict hS q1 q2 hv h
          · exact argsTail_strict (ua := go g f true) (ih false) hS s1 s2 q1 h
      · cases h

end Mimium.Unify
