import Mimium.Model.Lower
import Mimium.Proofs.CstGrammarTrivia
/-!
# Lemmas about the port of `lower.rs`

`resolve_congr`: the resolved tree (what the lowering sees) of two green trees of the same shape whose leaves carry, in order, the
same (kind, text) is THE SAME VALUE — ordinals depend on the shape only.  Hence everything computed from it (the attributed tree,
the `Program` with its symbolic spans) is equal.  `Sp.eval_closed`: evaluating a span term never leaves a set of offsets that
contains `0` and both ends of every leaf.
-/
namespace Mimium.Lower
open Mimium.Gen (Kind SK)
open Mimium.Cst (Green leavesL shapeL)
open Mimium.Grammar (Shape)

mutual
theorem leaves_length_of_shape : ∀ (g g' : Green), g.shape = g'.shape → g.leaves.length = g'.leaves.length
  | .token _ _, .token _ _, _ => by simp [Green.leaves]
  | .token _ _, .node _ _, h => by simp [Green.shape] at h
  | .node _ _, .token _ _, h => by simp [Green.shape] at h
  | .node k cs, .node k' cs', h => by
    have h' : k = k' ∧ shapeL cs = shapeL cs' := by simpa [Green.shape] using h
    simpa [Green.leaves] using leavesL_length_of_shape cs cs' h'.2
theorem leavesL_length_of_shape : ∀ (gs gs' : List Green), shapeL gs = shapeL gs' → (leavesL gs).length = (leavesL gs').length
  | [], [], _ => rfl
  | [], _ :: _, h => by simp [shapeL] at h
  | _ :: _, [], h => by simp [shapeL] at h
  | g :: gs, g' :: gs', h => by
    have h1 : g.shape = g'.shape ∧ shapeL gs = shapeL gs' := by simpa [shapeL] using h
    simp [leavesL, leaves_length_of_shape g g' h1.1, leavesL_length_of_shape gs gs' h1.2]
end

variable {info info' : Nat → Option (Kind × Sym)}

mutual
theorem resolve_congr : ∀ (g g' : Green) (n : Nat), g.shape = g'.shape → g.leaves.map info = g'.leaves.map info' →
    resolve info g n = resolve info' g' n
  | .token i _, .token i' _, n, _, hl => by
    have : info i = info' i' := by simpa [Green.leaves] using hl
    simp [resolve, this]
  | .token _ _, .node _ _, _, h, _ => by simp [Green.shape] at h
  | .node _ _, .token _ _, _, h, _ => by simp [Green.shape] at h
  | .node k cs, .node k' cs', n, h, hl => by
    have hk : k = k' ∧ shapeL cs = shapeL cs' := by simpa [Green.shape] using h
    have hl' : (leavesL cs).map info = (leavesL cs').map info' := by simpa [Green.leaves] using hl
    simp [resolve, resolveL_congr cs cs' n hk.2 hl', hk.1]
theorem resolveL_congr : ∀ (gs gs' : List Green) (n : Nat), shapeL gs = shapeL gs' → (leavesL gs).map info = (leavesL gs').map info' →
    resolveL info gs n = resolveL info' gs' n
  | [], [], _, _, _ => rfl
  | [], _ :: _, _, h, _ => by simp [shapeL] at h
  | _ :: _, [], _, h, _ => by simp [shapeL] at h
  | g :: gs, g' :: gs', n, h, hl => by
    have h1 : g.shape = g'.shape ∧ shapeL gs = shapeL gs' := by simpa [shapeL] using h
    have hlen := leaves_length_of_shape g g' h1.1
    have hl' : g.leaves.map info ++ (leavesL gs).map info = g'.leaves.map info' ++ (leavesL gs').map info' := by
      simpa [leavesL] using hl
    have hsplit := List.append_inj hl' (by simp [hlen])
    simp [resolveL, resolve_congr g g' n h1.1 hsplit.1, resolveL_congr gs gs' _ h1.2 hsplit.2]
end

/-- what `lowerGreen` shows the lowering of token `i` -/
def tokInfo (kinds : Array Kind) (texts : Array Sym) (i : Nat) : Option (Kind × Sym) :=
  match kinds[i]?, texts[i]? with | some k, some t => some (k, t) | _, _ => none

theorem lowerGreen_eq (kinds : Array Kind) (texts : Array Sym) (g : Green) :
    lowerGreen kinds texts g = lowerProgram (attr (resolve (tokInfo kinds texts) g 0).1) := rfl

/-- trees of the same shape whose leaves show the same kinds and texts are lowered to the same program (spans as terms included) -/
theorem lowerGreen_congr (kinds kinds' : Array Kind) (texts texts' : Array Sym) (g g' : Green)
    (hs : g.shape = g'.shape) (hl : g.leaves.map (tokInfo kinds texts) = g'.leaves.map (tokInfo kinds' texts')) :
    lowerGreen kinds texts g = lowerGreen kinds' texts' g' := by
  rw [lowerGreen_eq, lowerGreen_eq, resolve_congr g g' 0 hs hl]

/-! ## Span terms -/

/-- a set of offsets that contains `0` and both ends of every leaf contains both ends of every span -/
theorem Sp.eval_closed (P : Nat → Prop) (offs : Nat → Nat × Nat) (h0 : P 0) (hl : ∀ j, P (offs j).1 ∧ P (offs j).2) :
    ∀ sp : Sp, P (sp.eval offs).1 ∧ P (sp.eval offs).2
  | .zero => ⟨h0, h0⟩
  | .tok j => hl j
  | .merge a b => by
    have ha := Sp.eval_closed P offs h0 hl a
    have hb := Sp.eval_closed P offs h0 hl b
    simp only [Sp.eval]
    constructor
    · rcases Nat.le_total (a.eval offs).1 (b.eval offs).1 with h | h
      · rw [Nat.min_eq_left h]; exact ha.1
      · rw [Nat.min_eq_right h]; exact hb.1
    · rcases Nat.le_total (a.eval offs).2 (b.eval offs).2 with h | h
      · rw [Nat.max_eq_right h]; exact hb.2
      · rw [Nat.max_eq_left h]; exact ha.2
  | .startEnd a b => ⟨(Sp.eval_closed P offs h0 hl a).1, (Sp.eval_closed P offs h0 hl b).2⟩

/-! ## Parentheses -/

/-- `lower_expr_sequence(&[e])` is `lower_expr(e)` for a node of any kind -/
theorem lowerExprSequence_singleton (e : A) (k : SK) (hk : e.kind = some k) : lowerExprSequence [e] = e.attrs.expr := by
  simp only [lowerExprSequence, seqGo, hk]
  split <;> simp

end Mimium.Lower

namespace Mimium.Lower

/-! ## The recursion of the port is one pass over the tree -/

mutual
/-- number of nodes (internal nodes and token leaves) of a resolved tree -/
def T.size : T → Nat
  | .leaf _ => 1
  | .node _ cs => 1 + T.sizeL cs
def T.sizeL : List T → Nat
  | [] => 0
  | c :: cs => c.size + T.sizeL cs
end

mutual
/-- number of attributed nodes = number of evaluations of `mkA` (of each attribute function) -/
def A.size : A → Nat
  | .mk _ _ cs _ => 1 + A.sizeL cs
def A.sizeL : List A → Nat
  | [] => 0
  | c :: cs => c.size + A.sizeL cs
end

open Mimium.Gen (SK) in
theorem mkA_size (kind : Option SK) (leaf : Option Leaf) (cs : List A) : (mkA kind leaf cs).size = 1 + A.sizeL cs := by
  simp [mkA, A.size]

mutual
theorem attr_size : ∀ t : T, (attr t).size = t.size
  | .leaf l => by simp [attr, mkA_size, A.sizeL, T.size]
  | .node k cs => by simp [attr, mkA_size, T.size, attrL_size cs]
theorem attrL_size : ∀ ts : List T, A.sizeL (attrL ts) = T.sizeL ts
  | [] => by simp [attrL, A.sizeL, T.sizeL]
  | t :: ts => by simp [attrL, A.sizeL, T.sizeL, attr_size t, attrL_size ts]
end

theorem attrL_eq_map : ∀ ts : List T, attrL ts = ts.map attr
  | [] => by simp [attrL]
  | t :: ts => by simp [attrL, attrL_eq_map ts]

end Mimium.Lower
