import Mimium.Proofs.UnifyTerm
/-! Termination of unification, part 3: the explicit fuel bounds `fuelG` / `fuelF` of `Model/Unify.lean` suffice on every
acyclic store. -/
namespace Mimium.Unify
open Mimium.Occurs (parent Acyclic)

theorem vars_length_le_size : ∀ (x : AT), (Occurs.vars x).length ≤ Occurs.size x := by
  intro x
  induction x with
  | other => simp [Occurs.vars, Occurs.size]
  | var v => simp [Occurs.vars, Occurs.size]
  | unary t ih => simp only [Occurs.vars, Occurs.size]; omega
  | anyOf a b iha ihb => simp only [Occurs.vars, Occurs.size, List.length_append]; omega
  | fn a b iha ihb => simp only [Occurs.vars, Occurs.size, List.length_append]; omega

/-- all variables of the parents of a store -/
def storeVars : AS → List Nat
  | [] => []
  | (_, t) :: rest => Occurs.vars t ++ storeVars rest

theorem storeVars_length_le : ∀ (τ : AS), (storeVars τ).length ≤ Occurs.total τ := by
  intro τ
  induction τ with
  | nil => simp [storeVars, Occurs.total]
  | cons e rest ih =>
    obtain ⟨v, t⟩ := e
    have := vars_length_le_size t
    simp only [storeVars, Occurs.total, List.length_append]
    omega

theorem storeVars_mem : ∀ (τ : AS) (e : Nat × AT), e ∈ τ → ∀ v ∈ Occurs.vars e.2, v ∈ storeVars τ := by
  intro τ
  induction τ with
  | nil => intro e he; cases he
  | cons x rest ih =>
    intro e he v hv
    obtain ⟨w, t⟩ := x
    simp only [storeVars, List.mem_append]
    rcases List.mem_cons.mp he with rfl | he'
    · exact .inl hv
    · exact .inr (ih e he' v hv)

theorem size_le_total : ∀ (τ : AS) (e : Nat × AT), e ∈ τ → Occurs.size e.2 ≤ Occurs.total τ := by
  intro τ
  induction τ with
  | nil => intro e he; cases he
  | cons x rest ih =>
    intro e he
    obtain ⟨w, t⟩ := x
    simp only [Occurs.total]
    rcases List.mem_cons.mp he with rfl | he'
    · simp only; omega
    · have := ih e he'; omega

theorem Cl.mono {B : Nat} {V : List Nat} {L L' : Nat} {σ : Store} (h : Cl B V L σ) (hl : L ≤ L') : Cl B V L' σ :=
  ⟨h.1, h.2.1, Nat.le_trans h.2.2 hl⟩

/-- **termination of the whole of unification, with an explicit bound**: on an acyclic store, `unify_types` / `unify_types_args`
return whenever the two fuels reach `fuelG` / `fuelF` -/
theorem go_terminates (σ : Store) (t1 t2 : Ty) (hσ : Acyclic (absS σ)) (args : Bool) (g f : Nat) (hg : fuelG σ t1 t2 ≤ g)
    (hf : fuelF σ t1 t2 ≤ f) : ∃ σ' r, go g f args σ t1 t2 = some (σ', r) := by
  let B := sizeSum σ t1 t2
  let V := Occurs.vars (abs t1) ++ Occurs.vars (abs t2) ++ storeVars (absS σ)
  let L := maxEntries σ t1 t2
  let H := maxHeight σ t1 t2
  have hV : V.length ≤ B := by
    have h1 := vars_length_le_size (abs t1)
    have h2 := vars_length_le_size (abs t2)
    have h3 := storeVars_length_le (absS σ)
    simp only [V, B, sizeSum, List.length_append]
    omega
  have hunb : unb V σ ≤ V.length := by unfold unb; exact List.length_filter_le _ _
  have hcl : Cl B V L σ := by
    refine ⟨hσ, ?_, ?_⟩
    · intro e he
      have hm : (e.1, abs e.2) ∈ absS σ := by simp only [absS, List.mem_map]; exact ⟨e, he, rfl⟩
      refine ⟨?_, ?_⟩
      · have := size_le_total (absS σ) _ hm
        simp only [B, sizeSum] at this ⊢
        omega
      · intro v hv
        simp only [V, List.mem_append]
        exact .inr (storeVars_mem (absS σ) _ hm v hv)
    · simp only [L, maxEntries]
      show σ.length + unb V σ ≤ σ.length + B
      omega
  have a1 : AOK B V (abs t1) := ⟨by simp only [B, sizeSum]; omega, fun v hv => by simp only [V, List.mem_append]; exact .inl (.inl hv)⟩
  have a2 : AOK B V (abs t2) := ⟨by simp only [B, sizeSum]; omega, fun v hv => by simp only [V, List.mem_append]; exact .inl (.inr hv)⟩
  have hH : H = B + L * B := rfl
  have hr : Ready B V L σ t1 t2 H (2 * H) := by
    refine ⟨hcl, a1, a2, ?_⟩
    intro σ'' hc _
    exact ⟨H, H, hH ▸ hc.height a1, hH ▸ hc.height a2, Nat.le_refl _, Nat.le_refl _, by omega⟩
  have hg' : gNeed B L ≤ g := by
    have : fuelG σ t1 t2 = B + L * B + L + 1 := rfl
    unfold gNeed
    omega
  obtain ⟨σ', r, h, _, _⟩ := go_tm hg' (2 * H) f args H (2 * H) σ t1 t2 (Nat.le_refl _) hr (by
    intro ar br _ _
    have := need_le ar br
    have : fuelF σ t1 t2 = 4 * (H * (2 * H) + 2 * H) + 4 := rfl
    split <;> omega)
  exact ⟨σ', r, h⟩

end Mimium.Unify
