import Mimium.Model.FfiValueSerde
import Mimium.Proofs.Ffi
/-! Round trip of the direct (hand-written) `Value` codec. -/
namespace Mimium.Ffi
open Mimium.Gen.Ffi

theorem ValCtor.ofTag_serTag (c : ValCtor) (t : UInt32) (h : c.serTag = some t) : ValCtor.ofTag t = some c := by
  cases c <;> simp [ValCtor.serTag] at h <;> subst h <;> rfl

theorem ofTag_valTag (c : ValCtor) (h : c.serTag.isSome = true) :
    ValCtor.ofTag (c.serTag.getD 0xFFFFFFFF) = some c := by
  cases hc : c.serTag with
  | none => simp [hc] at h
  | some t => simpa using ValCtor.ofTag_serTag c t hc

mutual
def Value.needV : RawValue → Nat
  | .array vs => 1 + needVList vs
  | .record fs => 1 + needVFields fs
  | .tuple vs => 1 + needVList vs
  | .taggedUnion _ v => 1 + v.needV
  | _ => 1
def needVList : List RawValue → Nat
  | [] => 0
  | v :: vs => 1 + v.needV + needVList vs
def needVFields : List (UInt64 × RawValue) → Nat
  | [] => 0
  | (_, v) :: fs => 1 + v.needV + needVFields fs
end

mutual
theorem decodeVal_encode (v : RawValue) (f : Nat) (rest : Bytes) (hok : v.directOk = true) (hr : v.RepV)
    (hf : v.needV ≤ f) : decodeVal f (encodeValRaw v ++ rest) = some (v.normKeys, rest) := by
  cases f with
  | zero => cases v <;> simp [Value.needV] at hf
  | succ f =>
    cases v with
    | errorV e =>
      simp [decodeVal, encodeValRaw, valTag, List.append_assoc, readU32_encU32, ofTag_valTag .ErrorV rfl, readKey_encKey, Value.normKeys]
    | unit => simp [decodeVal, encodeValRaw, valTag, readU32_encU32, ofTag_valTag .Unit rfl, Value.normKeys]
    | number b =>
      simp [decodeVal, encodeValRaw, valTag, List.append_assoc, readU32_encU32, ofTag_valTag .Number rfl, readU64_encU64, Value.normKeys]
    | string s =>
      simp [decodeVal, encodeValRaw, valTag, List.append_assoc, readU32_encU32, ofTag_valTag .String rfl, readU64_encU64, Value.normKeys]
    | array vs =>
      simp only [Value.RepV] at hr
      simp only [Value.needV] at hf
      simp only [Value.directOk] at hok
      have := decodeValList_encode vs f rest hok hr.2 (by omega)
      simp [decodeVal, encodeValRaw, valTag, List.append_assoc, readU32_encU32, ofTag_valTag .Array rfl, readLen_encLen _ _ hr.1, this, Value.normKeys]
    | tuple vs =>
      simp only [Value.RepV] at hr
      simp only [Value.needV] at hf
      simp only [Value.directOk] at hok
      have := decodeValList_encode vs f rest hok hr.2 (by omega)
      simp [decodeVal, encodeValRaw, valTag, List.append_assoc, readU32_encU32, ofTag_valTag .Tuple rfl, readLen_encLen _ _ hr.1, this, Value.normKeys]
    | record fs =>
      simp only [Value.RepV] at hr
      simp only [Value.needV] at hf
      simp only [Value.directOk] at hok
      have := decodeValFields_encode fs f rest hok hr.2 (by omega)
      simp [decodeVal, encodeValRaw, valTag, List.append_assoc, readU32_encU32, ofTag_valTag .Record rfl, readLen_encLen _ _ hr.1, this, Value.normKeys]
    | fixpoint s e =>
      simp [decodeVal, encodeValRaw, valTag, List.append_assoc, readU32_encU32, ofTag_valTag .Fixpoint rfl, readU64_encU64, readKey_encKey, Value.normKeys]
    | code e =>
      simp [decodeVal, encodeValRaw, valTag, List.append_assoc, readU32_encU32, ofTag_valTag .Code rfl, readKey_encKey, Value.normKeys]
    | taggedUnion t v =>
      simp only [Value.RepV] at hr
      simp only [Value.needV] at hf
      simp only [Value.directOk] at hok
      have := decodeVal_encode v f rest hok hr (by omega)
      simp [decodeVal, encodeValRaw, valTag, List.append_assoc, readU32_encU32, ofTag_valTag .TaggedUnion rfl, readU64_encU64, this, Value.normKeys]
    | constructorFn t s k =>
      simp [decodeVal, encodeValRaw, valTag, List.append_assoc, readU32_encU32, ofTag_valTag .ConstructorFn rfl, readU64_encU64, readKey_encKey, Value.normKeys]
    | closure _ _ => simp [Value.directOk, Value.ctor, ValCtor.serTag] at hok
    | externalFn _ => simp [Value.directOk, Value.ctor, ValCtor.serTag] at hok
    | store _ => simp [Value.directOk, Value.ctor, ValCtor.serTag] at hok
theorem decodeValList_encode (vs : List RawValue) (f : Nat) (rest : Bytes) (hok : directOkList vs = true)
    (hr : RepVList vs) (hf : needVList vs ≤ f) :
    decodeValList f vs.length (encodeValList vs ++ rest) = some (normKeysList vs, rest) := by
  cases vs with
  | nil => cases f <;> simp [decodeValList, encodeValList, normKeysList]
  | cons v vs =>
    simp only [RepVList] at hr
    simp only [needVList] at hf
    simp only [directOkList, Bool.and_eq_true] at hok
    cases f with
    | zero => omega
    | succ f =>
      have h1 := decodeVal_encode v f (encodeValList vs ++ rest) hok.1 hr.1 (by omega)
      have h2 := decodeValList_encode vs f rest hok.2 hr.2 (by omega)
      simp [decodeValList, encodeValList, List.append_assoc, h1, h2, normKeysList]
theorem decodeValFields_encode (fs : List (UInt64 × RawValue)) (f : Nat) (rest : Bytes)
    (hok : directOkFields fs = true) (hr : RepVFields fs) (hf : needVFields fs ≤ f) :
    decodeValFields f fs.length (encodeValFields fs ++ rest) = some (normKeysFields fs, rest) := by
  cases fs with
  | nil => cases f <;> simp [decodeValFields, encodeValFields, normKeysFields]
  | cons kv fs =>
    obtain ⟨k, v⟩ := kv
    simp only [RepVFields] at hr
    simp only [needVFields] at hf
    simp only [directOkFields, Bool.and_eq_true] at hok
    cases f with
    | zero => omega
    | succ f =>
      have h1 := decodeVal_encode v f (encodeValFields fs ++ rest) hok.1 hr.1 (by omega)
      have h2 := decodeValFields_encode fs f rest hok.2 hr.2 (by omega)
      simp [decodeValFields, encodeValFields, List.append_assoc, readU64_encU64, h1, h2, normKeysFields]
end

theorem valTag_length (c : ValCtor) : (valTag c).length = 4 := leBytes_length _ _

mutual
theorem needV_le_length (v : RawValue) (hok : v.directOk = true) : v.needV + 3 ≤ (encodeValRaw v).length := by
  cases v with
  | array vs =>
    simp only [Value.directOk] at hok
    have := needVList_le_length vs hok
    simp [Value.needV, encodeValRaw, valTag_length, leBytes_length, encLen]; omega
  | tuple vs =>
    simp only [Value.directOk] at hok
    have := needVList_le_length vs hok
    simp [Value.needV, encodeValRaw, valTag_length, leBytes_length, encLen]; omega
  | record fs =>
    simp only [Value.directOk] at hok
    have := needVFields_le_length fs hok
    simp [Value.needV, encodeValRaw, valTag_length, leBytes_length, encLen]; omega
  | taggedUnion t v =>
    simp only [Value.directOk] at hok
    have := needV_le_length v hok
    simp [Value.needV, encodeValRaw, valTag_length, leBytes_length, encU64]; omega
  | errorV _ => simp [Value.needV, encodeValRaw, valTag_length]
  | unit => simp [Value.needV, encodeValRaw, valTag_length]
  | number _ => simp [Value.needV, encodeValRaw, valTag_length]
  | string _ => simp [Value.needV, encodeValRaw, valTag_length]
  | fixpoint _ _ => simp [Value.needV, encodeValRaw, valTag_length]
  | code _ => simp [Value.needV, encodeValRaw, valTag_length]
  | constructorFn _ _ _ => simp [Value.needV, encodeValRaw, valTag_length]
  | closure _ _ => simp [Value.directOk, Value.ctor, ValCtor.serTag] at hok
  | externalFn _ => simp [Value.directOk, Value.ctor, ValCtor.serTag] at hok
  | store _ => simp [Value.directOk, Value.ctor, ValCtor.serTag] at hok
theorem needVList_le_length (vs : List RawValue) (hok : directOkList vs = true) :
    needVList vs ≤ (encodeValList vs).length := by
  cases vs with
  | nil => simp [needVList]
  | cons v vs =>
    simp only [directOkList, Bool.and_eq_true] at hok
    have := needV_le_length v hok.1; have := needVList_le_length vs hok.2
    simp [needVList, encodeValList]; omega
theorem needVFields_le_length (fs : List (UInt64 × RawValue)) (hok : directOkFields fs = true) :
    needVFields fs ≤ (encodeValFields fs).length := by
  cases fs with
  | nil => simp [needVFields]
  | cons kv fs =>
    obtain ⟨k, v⟩ := kv
    simp only [directOkFields, Bool.and_eq_true] at hok
    have := needV_le_length v hok.1; have := needVFields_le_length fs hok.2
    simp [needVFields, encodeValFields]; omega
end

theorem decodeValBytes_encode (v : RawValue) (bs rest : Bytes) (hr : v.RepV) (h : encodeVal v = some bs) :
    decodeValBytes (bs ++ rest) = some (v.normKeys, rest) := by
  unfold encodeVal at h
  split at h
  · rename_i hok
    cases h
    unfold decodeValBytes
    exact decodeVal_encode v _ rest hok hr (by have := needV_le_length v hok; simp; omega)
  · simp at h

end Mimium.Ffi
