import Mimium.Proofs.PublishSame
/-!
`VisitsZ P e seg J`: as `Visits`, but the arms of an `if` may contain calls of functions without state: the cells `sa` of
the `then` arm (all stateless, so that mirgen's tie rule publishes them) are listed, the `else` arm is not inspected and its
sites are collected in the junk list `J` (sites at which the evaluator may create nodes the layout does not own).
Under this discipline the state effect of `Core.eval` is the sequence of per-site tree operations of the visited cells
UP TO `SameN` (`eval_visitsZ`, induction on the fuel over all 18 constructs).
-/
namespace Mimium.Publish
open Mimium.Core Mimium.Cells Mimium.StateTree Mimium.FlatTree

mutual
inductive VisitsZ (P : Prog) : Expr → List LCell → List Nat → Prop
  | lit {b} : VisitsZ P (.lit b) [] []
  | var {x} : VisitsZ P (.var x) [] []
  | now : VisitsZ P .now [] []
  | samplerate : VisitsZ P .samplerate [] []
  | self : VisitsZ P .self [] []
  | lam {ps body} : VisitsZ P (.lam ps body) [] []
  | un {op a s J} : VisitsZ P a s J → VisitsZ P (.un op a) s J
  | bin {op a b s1 s2 J1 J2} : VisitsZ P a s1 J1 → VisitsZ P b s2 J2 → VisitsZ P (.bin op a b) (s1 ++ s2) (J1 ++ J2)
  | ite {c a b s sa sb J Ja Jb} : VisitsZ P c s J → VisitsZ P a sa Ja → statelessCells sa = true →
      VisitsZ P b sb Jb → statelessCells sb = true →
      VisitsZ P (.ite c a b) (s ++ (sa ++ sb)) (J ++ (Ja ++ Jb))
  | letE {x a body s1 s2 J1 J2} : VisitsZ P a s1 J1 → VisitsZ P body s2 J2 →
      VisitsZ P (.letE x a body) (s1 ++ s2) (J1 ++ J2)
  | letTup {xs a body s1 s2 J1 J2} : VisitsZ P a s1 J1 → VisitsZ P body s2 J2 →
      VisitsZ P (.letTup xs a body) (s1 ++ s2) (J1 ++ J2)
  | assign {x a rest s1 s2 J1 J2} : VisitsZ P a s1 J1 → VisitsZ P rest s2 J2 →
      VisitsZ P (.assign x a rest) (s1 ++ s2) (J1 ++ J2)
  | proj {a i s J} : VisitsZ P a s J → VisitsZ P (.proj a i) s J
  | tup {es s J} : VisitsZL P es s J → VisitsZ P (.tup es) s J
  | app {f args s0 s J0 J} : VisitsZ P f s0 J0 → VisitsZL P args s J → VisitsZ P (.app f args) (s0 ++ s) (J0 ++ J)
  | mem {a site s J} : VisitsZ P a s J → VisitsZ P (.mem a site) (s ++ [.mem site]) J
  | delay {n a t site s1 s2 J1 J2} : VisitsZ P a s1 J1 → VisitsZ P t s2 J2 →
      VisitsZ P (.delay n a t site) (s1 ++ s2 ++ [.delay site n]) (J1 ++ J2)
  | call {f args site self cells' s J J'} : VisitsZL P args s J →
      (∀ d, findFn P.fns f = some d → d.selfShape = self) →
      (∀ d, findFn P.fns f = some d → VisitsZ P d.body cells' J') →
      (∀ d, findFn P.fns f = some d → ∀ x ∈ J', x ∉ sitesOf cells') →
      VisitsZ P (.call f args site) (s ++ [.child site self cells']) J
inductive VisitsZL (P : Prog) : List Expr → List LCell → List Nat → Prop
  | nil : VisitsZL P [] [] []
  | cons {e es s1 s2 J1 J2} : VisitsZ P e s1 J1 → VisitsZL P es s2 J2 → VisitsZL P (e :: es) (s1 ++ s2) (J1 ++ J2)
end

/-- the effect of visiting `seg`, up to what the layout `cells` owns -/
def EffZ (cells seg : List LCell) (st st' : SNode) : Prop :=
  ∃ ps, PayShapeL seg ps ∧ SameN cells st' (treeCells seg ps st).1

theorem EffZ.nil (cells : List LCell) (st : SNode) : EffZ cells [] st st :=
  ⟨[], by simp [PayShapeL], by simpa [treeCells] using SameN.refl cells st⟩

theorem EffZ.of_eff {cells seg : List LCell} {st st' : SNode} (h : Eff seg st st') : EffZ cells seg st st' := by
  obtain ⟨ps, hp, rfl⟩ := h
  exact ⟨ps, hp, SameN.refl _ _⟩

theorem EffZ.seq {cells s1 s2 : List LCell} {a b c : SNode} (hl : LayOkL cells) (hs2 : ∀ x ∈ s2, x ∈ cells)
    (h1 : EffZ cells s1 a b) (h2 : EffZ cells s2 b c) : EffZ cells (s1 ++ s2) a c := by
  obtain ⟨p1, hp1, e1⟩ := h1
  obtain ⟨p2, hp2, e2⟩ := h2
  refine ⟨p1 ++ p2, payShapeL_append _ _ _ _ hp1 hp2, ?_⟩
  rw [treeCells_append_fst _ _ _ _ _ hp1]
  exact e2.trans (treeCells_same s2 p2 cells _ _ hl hs2 e1)

theorem EffZ.same {cells seg : List LCell} {a b b' : SNode} (h : EffZ cells seg a b) (hb : SameN cells b' b) :
    EffZ cells seg a b' := by
  obtain ⟨ps, hp, e⟩ := h
  exact ⟨ps, hp, hb.trans e⟩

/-- what `eval`'s `call` does to the caller's tree is the tree operation at the child cell, up to `SameN` -/
theorem call_effectZ (cells : List LCell) (hl : LayOkL cells) (site : Nat) (self : Option Shape) (cells' : List LCell)
    (hc : LCell.child site self cells' ∈ cells) (s : SNode) (v : Val) (c1 : SNode)
    (h : EffZ cells' cells' (FlatTree.initSelf self (s.childAt site)) c1) :
    EffZ cells [.child site self cells'] s (s.setCell site (.child (finSelf self c1 v))) := by
  obtain ⟨ps, hp, e⟩ := h
  refine ⟨[.child v ps], by simp [PayShapeL, PayShape, hp], ?_⟩
  simp only [treeCells, treeCell]
  refine same_update cells hl (.child site self cells') hc s _ s _ (Frame.set _ _ _) (Frame.set _ _ _) (SameN.refl _ _) ?_
  simp only [SameC, childAt_setCell, treeNodeWith_fst]
  exact same_finSelf self cells' _ _ v e

theorem sub_left {α : Type} {s1 s2 cells : List α} (h : ∀ c ∈ s1 ++ s2, c ∈ cells) : ∀ c ∈ s1, c ∈ cells :=
  fun c hc => h c (List.mem_append_left _ hc)
theorem sub_right {α : Type} {s1 s2 cells : List α} (h : ∀ c ∈ s1 ++ s2, c ∈ cells) : ∀ c ∈ s2, c ∈ cells :=
  fun c hc => h c (List.mem_append_right _ hc)
theorem nin_left {J1 J2 S : List Nat} (h : ∀ x ∈ J1 ++ J2, x ∉ S) : ∀ x ∈ J1, x ∉ S :=
  fun x hx => h x (List.mem_append_left _ hx)
theorem nin_right {J1 J2 S : List Nat} (h : ∀ x ∈ J1 ++ J2, x ∉ S) : ∀ x ∈ J2, x ∉ S :=
  fun x hx => h x (List.mem_append_right _ hx)

theorem eval_visitsZ (P : Prog) (rt : Rt) : ∀ (fuel : Nat),
    (∀ (e : Expr) (seg : List LCell) (J : List Nat) (cells : List LCell) (env : Env) (σ : Store) (st : SNode) (v : Val)
        (σ' : Store) (st' : SNode),
      LayOkL cells → (∀ c ∈ seg, c ∈ cells) → (∀ x ∈ J, x ∉ sitesOf cells) → VisitsZ P e seg J →
      eval fuel P rt env e σ st = .ok (v, σ', st') → EffZ cells seg st st') ∧
    (∀ (es : List Expr) (seg : List LCell) (J : List Nat) (cells : List LCell) (env : Env) (σ : Store) (st : SNode)
        (vs : List Val) (σ' : Store) (st' : SNode),
      LayOkL cells → (∀ c ∈ seg, c ∈ cells) → (∀ x ∈ J, x ∉ sitesOf cells) → VisitsZL P es seg J →
      evalList fuel P rt env es σ st = .ok (vs, σ', st') → EffZ cells seg st st') := by
  intro fuel
  induction fuel with
  | zero =>
    constructor
    · intro e seg J cells env σ st v σ' st' _ _ _ _ h; rw [eval_zero] at h; simp at h
    · intro es seg J cells env σ st vs σ' st' _ _ _ _ h; rw [evalList_zero] at h; simp at h
  | succ n ih =>
    obtain ⟨ihE, ihL⟩ := ih
    constructor
    · intro e seg J cells env σ st v σ' st' hl hs hj hv h
      cases e with
      | lit b =>
        cases hv; rw [eval_lit] at h
        simp only [Except.ok.injEq, Prod.mk.injEq] at h; obtain ⟨_, _, rfl⟩ := h; exact EffZ.nil _ _
      | var x =>
        cases hv; rw [eval_var] at h
        split at h
        · simp at h
        · split at h
          · simp only [Except.ok.injEq, Prod.mk.injEq] at h; obtain ⟨_, _, rfl⟩ := h; exact EffZ.nil _ _
          · simp at h
      | now =>
        cases hv; rw [eval_now] at h
        simp only [Except.ok.injEq, Prod.mk.injEq] at h; obtain ⟨_, _, rfl⟩ := h; exact EffZ.nil _ _
      | samplerate =>
        cases hv; rw [eval_sr] at h
        simp only [Except.ok.injEq, Prod.mk.injEq] at h; obtain ⟨_, _, rfl⟩ := h; exact EffZ.nil _ _
      | lam ps body =>
        cases hv; rw [eval_lam] at h
        simp only [Except.ok.injEq, Prod.mk.injEq] at h; obtain ⟨_, _, rfl⟩ := h; exact EffZ.nil _ _
      | self =>
        cases hv; rw [eval_self] at h
        split at h
        · simp only [Except.ok.injEq, Prod.mk.injEq] at h; obtain ⟨_, _, rfl⟩ := h; exact EffZ.nil _ _
        · simp at h
      | un op a =>
        cases hv with
        | un ha =>
          rw [eval_un] at h
          obtain ⟨⟨v1, σ1, t1⟩, h1, h⟩ := andThen_ok h
          cases v1 with
          | num x =>
            simp only [Except.ok.injEq, Prod.mk.injEq] at h; obtain ⟨_, _, rfl⟩ := h
            exact ihE a _ _ _ _ _ _ _ _ _ hl hs hj ha h1
          | _ => simp at h
      | bin op a b =>
        cases hv with
        | bin ha hb =>
          rw [eval_bin] at h
          obtain ⟨⟨v1, σ1, t1⟩, h1, h⟩ := andThen_ok h
          cases v1 with
          | num x =>
            simp only at h
            obtain ⟨⟨v2, σ2, t2⟩, h2, h⟩ := andThen_ok h
            cases v2 with
            | num y =>
              simp only [Except.ok.injEq, Prod.mk.injEq] at h; obtain ⟨_, _, rfl⟩ := h
              exact EffZ.seq hl (sub_right hs) (ihE a _ _ _ _ _ _ _ _ _ hl (sub_left hs) (nin_left hj) ha h1)
                (ihE b _ _ _ _ _ _ _ _ _ hl (sub_right hs) (nin_right hj) hb h2)
            | _ => simp at h
          | _ => simp at h
      | ite c a b =>
        cases hv with
        | ite hc ha hsa hb hsb =>
          rw [eval_ite] at h
          obtain ⟨⟨v1, σ1, t1⟩, h1, h⟩ := andThen_ok h
          cases v1 with
          | num x =>
            simp only at h
            have e1 := ihE c _ _ _ _ _ _ _ _ _ hl (sub_left hs) (nin_left hj) hc h1
            have hsa' := sub_left (sub_right hs)
            have hsb' := sub_right (sub_right hs)
            split at h
            · -- the `then` arm runs: the (stateless) cells of the `else` arm are visited idly
              have ea := ihE a _ _ _ _ _ _ _ _ _ hl hsa' (nin_left (nin_right hj)) ha h
              obtain ⟨pb, hpb, hidle⟩ := idle_cells _ hsb cells st' hl hsb'
              exact EffZ.seq hl (sub_right hs) e1 (EffZ.seq hl hsb' ea ⟨pb, hpb, hidle.symm⟩)
            · -- the `else` arm runs: the (stateless) cells of the `then` arm are visited idly
              have eb := ihE b _ _ _ _ _ _ _ _ _ hl hsb' (nin_right (nin_right hj)) hb h
              obtain ⟨pa, hpa, hidle⟩ := idle_cells _ hsa cells t1 hl hsa'
              exact EffZ.seq hl (sub_right hs) e1 (EffZ.seq hl hsb' ⟨pa, hpa, hidle.symm⟩ eb)
          | _ => simp at h
      | letE x a body =>
        cases hv with
        | letE ha hb =>
          rw [eval_letE] at h
          obtain ⟨⟨v1, σ1, t1⟩, h1, h⟩ := andThen_ok h
          exact EffZ.seq hl (sub_right hs) (ihE a _ _ _ _ _ _ _ _ _ hl (sub_left hs) (nin_left hj) ha h1)
            (ihE body _ _ _ _ _ _ _ _ _ hl (sub_right hs) (nin_right hj) hb h)
      | letTup xs a body =>
        cases hv with
        | letTup ha hb =>
          rw [eval_letTup] at h
          obtain ⟨⟨v1, σ1, t1⟩, h1, h⟩ := andThen_ok h
          cases v1 with
          | tup vs =>
            simp only at h
            split at h
            · exact EffZ.seq hl (sub_right hs) (ihE a _ _ _ _ _ _ _ _ _ hl (sub_left hs) (nin_left hj) ha h1)
                (ihE body _ _ _ _ _ _ _ _ _ hl (sub_right hs) (nin_right hj) hb h)
            · simp at h
          | _ => simp at h
      | assign x a rest =>
        cases hv with
        | assign ha hb =>
          rw [eval_assign] at h
          obtain ⟨⟨v1, σ1, t1⟩, h1, h⟩ := andThen_ok h
          split at h
          · simp at h
          · exact EffZ.seq hl (sub_right hs) (ihE a _ _ _ _ _ _ _ _ _ hl (sub_left hs) (nin_left hj) ha h1)
              (ihE rest _ _ _ _ _ _ _ _ _ hl (sub_right hs) (nin_right hj) hb h)
      | proj a i =>
        cases hv with
        | proj ha =>
          rw [eval_proj] at h
          obtain ⟨⟨v1, σ1, t1⟩, h1, h⟩ := andThen_ok h
          cases v1 with
          | tup vs =>
            simp only at h
            split at h
            · simp only [Except.ok.injEq, Prod.mk.injEq] at h; obtain ⟨_, _, rfl⟩ := h
              exact ihE a _ _ _ _ _ _ _ _ _ hl hs hj ha h1
            · simp at h
          | _ => simp at h
      | tup es =>
        cases hv with
        | tup hes =>
          rw [eval_tup] at h
          obtain ⟨⟨vs, σ1, t1⟩, h1, h⟩ := andThen_ok h
          simp only [Except.ok.injEq, Prod.mk.injEq] at h; obtain ⟨_, _, rfl⟩ := h
          exact ihL es _ _ _ _ _ _ _ _ _ hl hs hj hes h1
      | app f args =>
        cases hv with
        | app hf hargs =>
          rw [eval_app] at h
          obtain ⟨⟨v1, σ1, t1⟩, h1, h⟩ := andThen_ok h
          cases v1 with
          | clo ps body cenv =>
            simp only at h
            obtain ⟨⟨vs, σ2, t2⟩, h2, h⟩ := andThen_ok h
            simp only at h
            split at h
            · simp at h
            · obtain ⟨⟨v3, σ3, t3⟩, _, h⟩ := andThen_ok h
              simp only [Except.ok.injEq, Prod.mk.injEq] at h; obtain ⟨_, _, rfl⟩ := h
              exact EffZ.seq hl (sub_right hs) (ihE f _ _ _ _ _ _ _ _ _ hl (sub_left hs) (nin_left hj) hf h1)
                (ihL args _ _ _ _ _ _ _ _ _ hl (sub_right hs) (nin_right hj) hargs h2)
          | _ => simp at h
      | mem a site =>
        cases hv with
        | mem ha =>
          rw [eval_mem] at h
          obtain ⟨⟨v1, σ1, t1⟩, h1, h⟩ := andThen_ok h
          cases v1 with
          | num x =>
            simp only [Except.ok.injEq, Prod.mk.injEq] at h; obtain ⟨_, _, rfl⟩ := h
            refine EffZ.seq hl (sub_right hs) (ihE a _ _ _ _ _ _ _ _ _ hl (sub_left hs) hj ha h1) ?_
            have := Eff.one (.mem site) (.mem x) t1 (by simp [PayShape])
            exact EffZ.of_eff (by simpa [treeCell] using this)
          | _ => simp at h
      | delay k a t site =>
        cases hv with
        | delay ha ht =>
          rw [eval_delay] at h
          obtain ⟨⟨v1, σ1, t1⟩, h1, h⟩ := andThen_ok h
          cases v1 with
          | num x =>
            simp only at h
            obtain ⟨⟨v2, σ2, t2⟩, h2, h⟩ := andThen_ok h
            cases v2 with
            | num tm =>
              simp only [Except.ok.injEq, Prod.mk.injEq] at h; obtain ⟨_, _, rfl⟩ := h
              refine EffZ.seq hl (sub_right hs)
                (EffZ.seq hl (sub_right (sub_left hs))
                  (ihE a _ _ _ _ _ _ _ _ _ hl (sub_left (sub_left hs)) (nin_left hj) ha h1)
                  (ihE t _ _ _ _ _ _ _ _ _ hl (sub_right (sub_left hs)) (nin_right hj) ht h2)) ?_
              have := Eff.one (.delay site k) (.delay x tm) t2 (by simp [PayShape])
              exact EffZ.of_eff (by simpa [treeCell] using this)
            | _ => simp at h
          | _ => simp at h
      | call f args site =>
        cases hv with
        | call hargs hself hbody hjunk =>
          rename_i self cells' s J'
          rw [eval_call] at h
          obtain ⟨⟨vs, σ1, t1⟩, h1, h⟩ := andThen_ok h
          refine EffZ.seq hl (sub_right hs) (ihL args _ _ _ _ _ _ _ _ _ hl (sub_left hs) hj hargs h1) ?_
          simp only [callRest] at h
          cases hf : findFn P.fns f with
          | none => simp [hf] at h
          | some d =>
            simp only [hf] at h
            split at h
            · simp at h
            · obtain ⟨⟨v2, σ2, c1⟩, h2, h⟩ := andThen_ok h
              simp only [Except.ok.injEq, Prod.mk.injEq] at h; obtain ⟨_, _, rfl⟩ := h
              rw [core_initSelf, hself d hf] at h2
              rw [core_finishSelf, hself d hf]
              have hc : LCell.child site self cells' ∈ cells := hs _ (List.mem_append_right _ (by simp))
              have hlc : LayOkL cells' := by simpa [LayOk] using layOk_of_mem cells _ hl hc
              exact call_effectZ cells hl site self cells' hc t1 v2 c1
                (ihE d.body _ _ _ _ _ _ _ _ _ hlc (fun _ hm => hm) (hjunk d hf) (hbody d hf) h2)
    · intro es seg J cells env σ st vs σ' st' hl hs hj hv h
      cases es with
      | nil =>
        cases hv; rw [evalList_nil] at h
        simp only [Except.ok.injEq, Prod.mk.injEq] at h; obtain ⟨_, _, rfl⟩ := h; exact EffZ.nil _ _
      | cons e es =>
        cases hv with
        | cons he hes =>
          rw [evalList_cons] at h
          obtain ⟨⟨v1, σ1, t1⟩, h1, h⟩ := andThen_ok h
          obtain ⟨⟨vs2, σ2, t2⟩, h2, h⟩ := andThen_ok h
          simp only [Except.ok.injEq, Prod.mk.injEq] at h; obtain ⟨_, _, rfl⟩ := h
          exact EffZ.seq hl (sub_right hs) (ihE e _ _ _ _ _ _ _ _ _ hl (sub_left hs) (nin_left hj) he h1)
            (ihL es _ _ _ _ _ _ _ _ _ hl (sub_right hs) (nin_right hj) hes h2)

end Mimium.Publish
