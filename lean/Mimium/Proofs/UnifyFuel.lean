import Mimium.Proofs.UnifyAcyclic
/-! More fuel never changes an answer: whatever `go` returns with fuels `(g, f)` it returns with all larger ones. -/
namespace Mimium.Unify
open Mimium.Occurs (parent Acyclic)

/-- `u'` answers whatever `u` answers -/
def Le (u u' : U) : Prop := ∀ σ a b o, u σ a b = some o → u' σ a b = some o

theorem Le.refl (u : U) : Le u u := fun _ _ _ _ h => h

theorem root_succ (σ : Store) : ∀ (g : Nat) (t r : Ty), root σ g t = some r → root σ (g + 1) t = some r := by
  intro g
  induction g with
  | zero => intro t r h; simp [root] at h
  | succ g ih =>
    intro t r h
    cases t with
    | var v =>
      simp only [root] at h ⊢
      cases hp : parent σ v with
      | none => simpa [hp] using h
      | some p => simp only [hp] at h ⊢; exact ih p r h
    | _ => simpa [root] using h

theorem root_mono (σ : Store) {g g' : Nat} (hg : g ≤ g') {t r : Ty} (h : root σ g t = some r) : root σ g' t = some r := by
  induction hg with
  | refl => exact h
  | step _ ih => exact root_succ σ _ t r ih

theorem occurs_mono {g g' : Nat} (hg : g ≤ g') {σ : Store} {v : Nat} {t : Ty} {b : Bool} (h : occurs g σ v t = some b) :
    occurs g' σ v t = some b := Occurs.occ_fuel_le (absS σ) false v g (abs t) b h g' hg

theorem bind_mono {g g' : Nat} (hg : g ≤ g') {σ : Store} {v : Nat} {t : Ty} {o : Store × Res} (h : bind g σ v t = some o) :
    bind g' σ v t = some o := by
  unfold bind at h ⊢
  cases ho : occurs g σ v t with
  | none => simp [ho] at h
  | some b => rw [occurs_mono hg ho]; rw [ho] at h; exact h

theorem varVar_mono {g g' : Nat} (hg : g ≤ g') {σ : Store} {v1 v2 : Nat} {t2 : Ty} {o : Store × Res}
    (h : varVar g σ v1 v2 t2 = some o) : varVar g' σ v1 v2 t2 = some o := by
  unfold varVar at h ⊢
  split
  · simpa [*] using h
  · rename_i hne
    simp only [hne, if_false] at h
    cases ho : occurs g σ v1 t2 with
    | none => simp [ho] at h
    | some b => rw [occurs_mono hg ho]; rw [ho] at h; exact h

theorem varArms_mono {g g' : Nat} (hg : g ≤ g') {σ : Store} {t2 t1r t2r : Ty} :
    (varArms g σ t2 t1r t2r = none → varArms g' σ t2 t1r t2r = none) ∧
    (∀ out o, varArms g σ t2 t1r t2r = some out → out = some o → ∃ out', varArms g' σ t2 t1r t2r = some out' ∧ out' = some o) := by
  unfold varArms
  constructor
  · intro h; split at h <;> simp_all
  · intro out o h ho
    subst ho
    split at h
    · simp only [Option.some.injEq] at h; exact ⟨_, rfl, varVar_mono hg h⟩
    · simp only [Option.some.injEq] at h; exact ⟨_, rfl, bind_mono hg h⟩
    · simp only [Option.some.injEq] at h; exact ⟨_, rfl, bind_mono hg h⟩
    · cases h

section
variable {u u' : U} (hu : Le u u')
include hu

theorem vecPass_mono : ∀ (as bs : List Ty) (σ : Store) (o : Store × List Res), vecPass u σ as bs = some o → vecPass u' σ as bs = some o := by
  intro as
  induction as with
  | nil => intro bs σ o h; simpa [vecPass] using h
  | cons a as ih =>
    intro bs σ o h
    cases bs with
    | nil => simpa [vecPass] using h
    | cons b bs =>
      simp only [vecPass] at h ⊢
      cases h1 : u σ a b with
      | none => simp [h1] at h
      | some o1 =>
        obtain ⟨σ1, r⟩ := o1
        simp only [h1] at h
        rw [hu σ a b _ h1]
        cases h2 : vecPass u σ1 as bs with
        | none => simp [h2] at h
        | some o2 => simp only [h2] at h; simp only [ih bs σ1 o2 h2]; exact h

theorem pairRes_mono (σ : Store) (p : Option F × Option F) (o : Store × SRes) (h : pairRes u σ p = some o) : pairRes u' σ p = some o := by
  obtain ⟨x, y⟩ := p
  cases x with
  | none => cases y <;> simpa [pairRes] using h
  | some f =>
    cases y with
    | none => simpa [pairRes] using h
    | some g =>
      simp only [pairRes] at h ⊢
      cases h1 : u σ f.ty g.ty with
      | none => simp [h1] at h
      | some o1 => rw [hu σ _ _ _ h1]; rw [h1] at h; exact h

theorem passUntil_mono (stop : SRes → Bool) : ∀ (ps : List (Option F × Option F)) (σ : Store) (o : Store × Bool),
    passUntil u stop σ ps = some o → passUntil u' stop σ ps = some o := by
  intro ps
  induction ps with
  | nil => intro σ o h; simpa [passUntil] using h
  | cons p ps ih =>
    intro σ o h
    simp only [passUntil] at h ⊢
    cases h1 : pairRes u σ p with
    | none => simp [h1] at h
    | some o1 =>
      obtain ⟨σ1, r⟩ := o1
      rw [pairRes_mono hu σ p _ h1]
      simp only [h1] at h
      split at h
      · simp only [*, if_true]
      · simp only [*]; exact ih σ1 o h

theorem passErrs_mono : ∀ (ps : List (Option F × Option F)) (σ : Store) (o : Store × List Err),
    passErrs u σ ps = some o → passErrs u' σ ps = some o := by
  intro ps
  induction ps with
  | nil => intro σ o h; simpa [passErrs] using h
  | cons p ps ih =>
    intro σ o h
    simp only [passErrs] at h ⊢
    cases h1 : pairRes u σ p with
    | none => simp [h1] at h
    | some o1 =>
      obtain ⟨σ1, r⟩ := o1
      rw [pairRes_mono hu σ p _ h1]
      simp only [h1] at h
      cases h2 : passErrs u σ1 ps with
      | none => simp [h2] at h
      | some o2 => simp only [h2] at h; simp only [ih σ1 o2 h2]; exact h

theorem recordArm_mono (σ : Store) (a1 a2 : List F) (o : Store × Res) (h : recordArm u σ a1 a2 = some o) :
    recordArm u' σ a1 a2 = some o := by
  unfold recordArm at h ⊢
  simp only at h ⊢
  cases h1 : passUntil u (fun r => !isBoth r) σ (recPairs a1 a2) with
  | none => simp [h1] at h
  | some o1 =>
    obtain ⟨σ1, b1⟩ := o1
    simp only [h1] at h
    simp only [passUntil_mono hu _ _ σ _ h1]
    cases h2 : passErrs u σ1 (recPairs a1 a2) with
    | none => simp [h2] at h
    | some o2 =>
      obtain ⟨σ2, es⟩ := o2
      simp only [h2] at h
      simp only [passErrs_mono hu _ σ1 _ h2]
      cases h3 : passUntil u isA σ2 (recPairs a1 a2) with
      | none => simp [h3] at h
      | some o3 =>
        obtain ⟨σ3, b3⟩ := o3
        simp only [h3] at h
        simp only [passUntil_mono hu _ _ σ2 _ h3]
        cases h4 : passUntil u isB σ3 (recPairs a1 a2) with
        | none => simp [h4] at h
        | some o4 =>
          obtain ⟨σ4, b4⟩ := o4
          simp only [h4] at h
          simp only [passUntil_mono hu _ _ σ3 _ h4]
          exact h

end

theorem firstHit_mono {try1 try1' : Store → Ty → Out} (ht : ∀ σ m o, try1 σ m = some o → try1' σ m = some o) (hit : Res → Bool) :
    ∀ (ms : List Ty) (σ : Store) (o : Store × Bool), firstHit try1 hit σ ms = some o → firstHit try1' hit σ ms = some o := by
  intro ms
  induction ms with
  | nil => intro σ o h; simpa [firstHit] using h
  | cons m ms ih =>
    intro σ o h
    simp only [firstHit] at h ⊢
    cases h1 : try1 σ m with
    | none => simp [h1] at h
    | some o1 =>
      obtain ⟨σ1, r⟩ := o1
      rw [ht σ m _ h1]
      simp only [h1] at h
      split at h
      · simp only [*, if_true]
      · simp only [*]; exact ih σ1 o h

theorem allOf_mono {ok1 ok1' : Store → Ty → Option (Store × Bool)} (ht : ∀ σ m o, ok1 σ m = some o → ok1' σ m = some o) :
    ∀ (ms : List Ty) (σ : Store) (o : Store × Bool), allOf ok1 σ ms = some o → allOf ok1' σ ms = some o := by
  intro ms
  induction ms with
  | nil => intro σ o h; simpa [allOf] using h
  | cons m ms ih =>
    intro σ o h
    simp only [allOf] at h ⊢
    cases h1 : ok1 σ m with
    | none => simp [h1] at h
    | some o1 =>
      obtain ⟨σ1, b⟩ := o1
      rw [ht σ m _ h1]
      simp only [h1] at h
      cases b with
      | true => exact ih σ1 o h
      | false => exact h

section
variable {u u' ua ua' : U} (hu : Le u u') (hua : Le ua ua')
include hu

/-- a call followed by a total post-processing of its answer -/
theorem post_mono {σ : Store} {a b : Ty} {k : Store × Res → Out} {o : Store × Res}
    (h : (match u σ a b with | none => none | some x => k x) = some o) :
    (match u' σ a b with | none => none | some x => k x) = some o := by
  cases h1 : u σ a b with
  | none => simp [h1] at h
  | some x => rw [hu σ a b x h1]; rw [h1] at h; exact h

theorem structuralD_mono {σ : Store} {t1r t2r : Ty} {o : Store × Res} (h : structuralD u σ t1r t2r = some o) :
    structuralD u' σ t1r t2r = some o := by
  unfold structuralD at h ⊢
  split
  · simpa [*] using h
  · simp only [*] at h
    split
    · simp only [*] at h; exact hu _ _ _ _ h
    · rename_i inner _ _
      simp only [*] at h
      cases h1 : u σ inner t2r with
      | none => simp [h1] at h
      | some x => rw [hu _ _ _ x h1]; rw [h1] at h; exact h
    · rename_i inner _ _
      simp only [*] at h
      cases h1 : u σ t1r inner with
      | none => simp [h1] at h
      | some x => rw [hu _ _ _ x h1]; rw [h1] at h; exact h
    · simpa [*] using h

theorem structuralC_mono {σ : Store} {t1r t2r : Ty} {o : Store × Res} (h : structuralC u σ t1r t2r = some o) :
    structuralC u' σ t1r t2r = some o := by
  unfold structuralC at h ⊢
  split
  · simp only [*] at h; exact hu _ _ _ _ h
  · simp only [*] at h
    split
    · rename_i us1 us2 _ _
      simp only [*] at h
      split
      · simpa [*] using h
      · simp only [*] at h
        cases h1 : allOf (fun σ m1 => firstHit (fun σ m2 => u σ m1 m2) isIdent σ us2) σ us1 with
        | none => simp [h1] at h
        | some x =>
          rw [allOf_mono (ok1' := fun σ m1 => firstHit (fun σ m2 => u' σ m1 m2) isIdent σ us2)
            (fun σ m o ho => firstHit_mono (fun σ m2 o ho => hu _ _ _ _ ho) _ _ σ o ho) _ σ x h1]
          rw [h1] at h; exact h
    · rename_i us2 _ _
      simp only [*] at h
      cases h1 : firstHit (fun σ m => u σ t1r m) isOk σ us2 with
      | none => simp [h1] at h
      | some x =>
        rw [firstHit_mono (try1' := fun σ m => u' σ t1r m) (fun σ m o ho => hu _ _ _ _ ho) _ _ σ x h1]
        rw [h1] at h; exact h
    · rename_i us1 _ _
      simp only [*] at h
      cases h1 : allOf (okOf u t2r) σ us1 with
      | none => simp [h1] at h
      | some x =>
        rw [allOf_mono (ok1' := okOf u' t2r) (fun σ m o ho => by
          unfold okOf at ho ⊢
          cases h2 : u σ m t2r with
          | none => simp [h2] at ho
          | some y => rw [hu _ _ _ y h2]; rw [h2] at ho; exact ho) _ σ x h1]
        rw [h1] at h; exact h
    · simp only [*] at h; exact structuralD_mono hu h

theorem structuralB_mono {σ : Store} {t1 t2 t1r t2r : Ty} {o : Store × Res} (h : structuralB u σ t1 t2 t1r t2r = some o) :
    structuralB u' σ t1 t2 t1r t2r = some o := by
  unfold structuralB at h ⊢
  split
  · simpa [*] using h
  · simp only [*] at h
    split
    · simpa [*] using h
    · simp only [*] at h
      split
      · simpa [*] using h
      · simp only [*] at h
        split
        · simpa [*] using h
        · simp only [*] at h
          split
          · simp only [*] at h; exact hu _ _ _ _ h
          · simp only [*] at h
            split
            · simp only [*] at h; exact hu _ _ _ _ h
            · simp only [*] at h
              split
              · simpa [*] using h
              · simp only [*] at h
                split
                · simpa [*] using h
                · simp only [*] at h
                  split
                  · simpa [*] using h
                  · simp only [*] at h
                    exact structuralC_mono hu h

theorem arrayArm_mono {σ : Store} {a1 a2 : Ty} {o : Store × Res} (h : arrayArm u σ a1 a2 = some o) : arrayArm u' σ a1 a2 = some o := by
  unfold arrayArm at h ⊢
  cases h1 : u σ a1 a2 with
  | none => simp [h1] at h
  | some x => rw [hu _ _ _ x h1]; rw [h1] at h; exact h

theorem tupleArm_mono {σ : Store} {a1 a2 : List Ty} {o : Store × Res} (h : tupleArm u σ a1 a2 = some o) : tupleArm u' σ a1 a2 = some o := by
  unfold tupleArm at h ⊢
  split
  · simp only [*, if_true] at h
    cases h1 : vecPass u σ a1 a2 with
    | none => simp [h1] at h
    | some x => rw [vecPass_mono hu _ _ σ x h1]; rw [h1] at h; exact h
  · simpa [*] using h

include hua in
theorem fnArm_mono {σ : Store} {a1 r1 a2 r2 : Ty} {o : Store × Res} (h : fnArm u ua σ a1 r1 a2 r2 = some o) :
    fnArm u' ua' σ a1 r1 a2 r2 = some o := by
  unfold fnArm at h ⊢
  cases h1 : ua σ a1 a2 with
  | none => simp [h1] at h
  | some x =>
    obtain ⟨σ1, ra⟩ := x
    rw [hua _ _ _ _ h1]
    simp only [h1] at h ⊢
    cases h2 : u σ1 r1 r2 with
    | none => simp [h2] at h
    | some y => rw [hu _ _ _ y h2]; rw [h2] at h; exact h

include hua in
theorem structural_mono {σ : Store} {t1 t2 t1r t2r : Ty} {o : Store × Res} (h : structural u ua σ t1 t2 t1r t2r = some o) :
    structural u' ua' σ t1 t2 t1r t2r = some o := by
  unfold structural at h ⊢
  split
  · simp only [*] at h; exact arrayArm_mono hu h
  · simp only [*] at h
    split
    · simp only [*] at h; exact hu _ _ _ _ h
    · simp only [*] at h
      split
      · simp only [*] at h; exact tupleArm_mono hu h
      · simp only [*] at h
        split
        · simp only [*] at h; exact recordArm_mono hu _ _ _ _ h
        · simp only [*] at h
          split
          · simp only [*] at h; exact fnArm_mono hu hua h
          · simp only [*] at h; exact structuralB_mono hu h

include hua in
theorem argsTail_mono {σ : Store} {t1 t2 t1r t2r : Ty} {o : Store × Res} (h : argsTail u ua σ t1 t2 t1r t2r = some o) :
    argsTail u' ua' σ t1 t2 t1r t2r = some o := by
  unfold argsTail at h ⊢
  split
  · simp only [*] at h; exact hua _ _ _ _ h
  · simp only [*] at h
    split
    · simp only [*, if_true] at h; exact hua _ _ _ _ h
    · simp only [*] at h
      split
      · rename_i us _
        simp only [*] at h
        cases h1 : firstHit (fun σ m => ua σ m t2r) isOk σ us with
        | none => simp [h1] at h
        | some x =>
          rw [firstHit_mono (try1' := fun σ m => ua' σ m t2r) (fun σ m o ho => hua _ _ _ _ ho) _ _ σ x h1]
          rw [h1] at h; exact h
      · simp only [*] at h; exact hu _ _ _ _ h

include hua in
theorem argsHead_mono {σ : Store} {t1 t2 t1r t2r : Ty} :
    (argsHead u ua σ t1 t2 t1r t2r = none → argsHead u' ua' σ t1 t2 t1r t2r = none) ∧
    (∀ out o, argsHead u ua σ t1 t2 t1r t2r = some out → out = some o →
      ∃ out', argsHead u' ua' σ t1 t2 t1r t2r = some out' ∧ out' = some o) := by
  unfold argsHead
  constructor
  · intro h
    repeat' split at h
    all_goals simp_all
  · intro out o h ho
    subst ho
    split at h
    · simp only [Option.some.injEq] at h; exact ⟨_, by simp [*], hu _ _ _ _ h⟩
    · split at h
      · simp only [Option.some.injEq] at h; exact ⟨_, by simp [*], hua _ _ _ _ h⟩
      · split at h
        · simp only [Option.some.injEq] at h; exact ⟨_, by simp [*], hua _ _ _ _ h⟩
        · split at h
          · simp only [Option.some.injEq] at h; exact ⟨_, by simp [*], hua _ _ _ _ h⟩
          · split at h
            · simp only [Option.some.injEq] at h; exact ⟨_, by simp [*], hua _ _ _ _ h⟩
            · cases h

end

/-- more fuel, same answer -/
theorem go_mono {g g' : Nat} (hg : g ≤ g') : ∀ (f f' : Nat), f ≤ f' → ∀ (k : Bool), Le (go g f k) (go g' f' k) := by
  intro f
  induction f with
  | zero => intro f' _ k σ a b o h; simp [go] at h
  | succ f ih =>
    intro f' hf k σ t1 t2 o h
    obtain ⟨f'', rfl⟩ : ∃ f'', f' = f'' + 1 := ⟨f' - 1, by omega⟩
    have hff : f ≤ f'' := by omega
    cases k with
    | false =>
      simp only [go] at h ⊢
      cases h1 : root σ g t1 with
      | none => simp [h1] at h
      | some t1r =>
        cases h2 : root σ g t2 with
        | none => simp [h1, h2] at h
        | some t2r =>
          simp only [h1, h2] at h
          simp only [root_mono σ hg h1, root_mono σ hg h2]
          cases hv : varArms g σ t2 t1r t2r with
          | some out =>
            simp only [hv] at h
            obtain ⟨out', e1, e2⟩ := (varArms_mono hg).2 out o hv h
            simp only [e1, e2]
          | none =>
            simp only [hv] at h
            simp only [(varArms_mono hg).1 hv]
            exact structural_mono (ih f'' hff false) (ih f'' hff true) h
    | true =>
      simp only [go] at h ⊢
      cases h1 : root σ g t1 with
      | none => simp [h1] at h
      | some t1r =>
        cases h2 : root σ g t2 with
        | none => simp [h1, h2] at h
        | some t2r =>
          simp only [h1, h2] at h
          simp only [root_mono σ hg h1, root_mono σ hg h2]
          have hh := argsHead_mono (σ := σ) (t1 := t1) (t2 := t2) (t1r := t1r) (t2r := t2r) (ih f'' hff false) (ih f'' hff true)
          cases ha : argsHead (go g f false) (go g f true) σ t1 t2 t1r t2r with
          | some out =>
            simp only [ha] at h
            obtain ⟨out', e1, e2⟩ := hh.2 out o ha h
            simp only [e1, e2]
          | none =>
            simp only [ha] at h
            simp only [hh.1 ha]
            cases hv : varArms g σ t2 t1r t2r with
            | some out =>
              simp only [hv] at h
              obtain ⟨out', e1, e2⟩ := (varArms_mono hg).2 out o hv h
              simp only [e1, e2]
            | none =>
              simp only [hv] at h
              simp only [(varArms_mono hg).1 hv]
              exact argsTail_mono (ih f'' hff false) (ih f'' hff true) h

end Mimium.Unify
