import Mimium.Model.CstGrammar
import Mimium.Proofs.CstBuilder
import Mimium.Proofs.Preparse
import Mimium.Proofs.PreparseNeighbour
/-!
# The ported grammar (`Model/CstGrammar.lean`) respects the builder discipline — for every token list, unboundedly

For every environment whose two views of `token_indices` agree (`Env.Ok`), every fuel and every token-kind array:
every grammar function (`go E fuel t`) is *good* (`Good`): it closes exactly the nodes it opens, keeps the builder invariant
`Cst.Inv` (leaves under construction = bumped tokens), never moves the cursor back, only records errors at index 0 or at the raw
index of a syntax token, never turns a syntax token into `Eof`, and never resets the ghost "out of fuel" flag.
Consequences: `parse_spec` (the tree's leaves are a prefix of `token_indices`), `parse_complete` (all of them unless the fuel ran
out) and `parse_tokens_spec` (the same for the environment made by `preparse`).
-/
namespace Mimium.Grammar
open Mimium.Gen (Kind SK)
open Mimium.Cst (PState Frame Green)

/-- the two views of `token_indices` agree and point inside the token array -/
def Env.Ok (E : Env) : Prop := Cst.EnvOk E.cst ∧ E.idx = E.cst.tokenIndices.toArray

/-- an error index is 0 (the `unwrap_or(0)` of `current_token_index`) or the raw index of a syntax token -/
def ErrOk (E : Env) (e : PErr) : Prop := e.tokenIndex = 0 ∨ e.tokenIndex ∈ E.cst.tokenIndices

/-- no syntax token is (or becomes) an `Eof` token, and every index is inside `kinds` -/
def KindsOk (E : Env) (s : St) : Prop := ∀ i ∈ E.cst.tokenIndices, ∃ k, s.kinds[i]? = some k ∧ k ≠ Kind.Eof

structure Step (E : Env) (s s' : St) : Prop where
  depth : s'.b.stack.length = s.b.stack.length
  inv : Cst.Inv E.cst s'.b
  mono : s.b.current ≤ s'.b.current
  errs : ∀ e ∈ s'.errs, e ∈ s.errs ∨ ErrOk E e
  kindsOk : KindsOk E s → KindsOk E s'
  oof : s.oof = true → s'.oof = true

def Good (E : Env) (m : St → St) : Prop := ∀ s, 1 ≤ s.b.stack.length → Cst.Inv E.cst s.b → Step E s (m s)

variable {E : Env}

/-! ## `Step` is a preorder; registers are invisible -/

theorem Step.refl (s : St) (hinv : Cst.Inv E.cst s.b) : Step E s s :=
  ⟨rfl, hinv, Nat.le_refl _, fun _ h => Or.inl h, id, id⟩

theorem Step.trans {s s' s'' : St} (h : Step E s s') (h' : Step E s' s'') : Step E s s'' where
  depth := h'.depth.trans h.depth
  inv := h'.inv
  mono := Nat.le_trans h.mono h'.mono
  errs := fun e he => by
    rcases h'.errs e he with h1 | h1
    · exact h.errs e h1
    · exact Or.inr h1
  kindsOk := fun hk => h'.kindsOk (h.kindsOk hk)
  oof := fun ho => h'.oof (h.oof ho)

/-- only `b`, `kinds`, `errs`, `oof` of the target matter -/
theorem Step.congr_right {s s' t : St} (h : Step E s s') (hb : t.b = s'.b) (hk : t.kinds = s'.kinds)
    (he : t.errs = s'.errs) (ho : t.oof = s'.oof) : Step E s t where
  depth := by rw [hb]; exact h.depth
  inv := by rw [hb]; exact h.inv
  mono := by rw [hb]; exact h.mono
  errs := by rw [he]; exact h.errs
  kindsOk := fun hh => by
    have := h.kindsOk hh
    intro i hi
    rw [hk]
    exact this i hi
  oof := by rw [ho]; exact h.oof

/-- only `b`, `kinds`, `errs`, `oof` of the source matter -/
theorem Step.congr_left {s s' t : St} (h : Step E s s') (hb : t.b = s.b) (hk : t.kinds = s.kinds)
    (he : t.errs = s.errs) (ho : t.oof = s.oof) : Step E t s' where
  depth := by rw [hb]; exact h.depth
  inv := h.inv
  mono := by rw [hb]; exact h.mono
  errs := by rw [he]; exact h.errs
  kindsOk := fun hh => h.kindsOk (by
    intro i hi
    rw [← hk]
    exact hh i hi)
  oof := by rw [ho]; exact h.oof

/-- restoring the caller's registers after a call -/
theorem Step.regs_right {s s' : St} (h : Step E s s') (a b : Nat) : Step E s { s' with ra := a, rb := b } :=
  h.congr_right rfl rfl rfl rfl

theorem Good.comp {m1 m2 : St → St} (h1 : Good E m1) (h2 : Good E m2) : Good E (fun s => m2 (m1 s)) := by
  intro s hd hinv
  have a := h1 s hd hinv
  exact a.trans (h2 (m1 s) (by rw [a.depth]; exact hd) a.inv)

/-! ## The primitives -/

/-- `Cst.exec_spec` on the parser state -/
theorem prim_spec (hE : Env.Ok E) (s : St) (o : Cst.Op) (d' : Nat)
    (hd : Cst.depthAfter s.b.stack.length o = some d') (h1 : 1 ≤ s.b.stack.length) (hinv : Cst.Inv E.cst s.b) :
    (prim E s o).b.stack.length = d' ∧ 1 ≤ d' ∧ Cst.Inv E.cst (prim E s o).b ∧ s.b.current ≤ (prim E s o).b.current ∧
    (o ≠ .bump → (prim E s o).b.current = s.b.current) ∧ (o = .bump → (prim E s o).b.current = s.b.current + 1) :=
  Cst.exec_spec E.cst hE.1 s.b o d' hd h1 hinv

/-- a depth-neutral primitive (`bump`, `noop`) is a step -/
theorem prim_step (hE : Env.Ok E) (s : St) (o : Cst.Op) (ho : ∀ d, Cst.depthAfter d o = some d)
    (h1 : 1 ≤ s.b.stack.length) (hinv : Cst.Inv E.cst s.b) : Step E s (prim E s o) := by
  have ⟨e1, _, e3, e4, _, _⟩ := prim_spec hE s o _ (ho _) h1 hinv
  exact ⟨e1, e3, e4, fun _ h => Or.inl h, id, id⟩

theorem bump_good (hE : Env.Ok E) : Good E (fun s => prim E s .bump) :=
  fun s h1 hinv => prim_step hE s .bump (fun _ => rfl) h1 hinv

theorem currentTokenIndex_ok (hE : Env.Ok E) (s : St) :
    currentTokenIndex E s = 0 ∨ currentTokenIndex E s ∈ E.cst.tokenIndices := by
  unfold currentTokenIndex
  rw [hE.2, List.getElem?_toArray]
  cases h : E.cst.tokenIndices[s.b.current]? with
  | none => exact Or.inl rfl
  | some i => exact Or.inr (List.mem_of_getElem? h)

theorem mkErr_tokenIndex (s : St) (e : ErrSpec) : (mkErr E s e).tokenIndex = currentTokenIndex E s := by
  cases e <;> rfl

theorem addErr_good (hE : Env.Ok E) (e : ErrSpec) : Good E (fun s => addErr E s e) := by
  intro s _ hinv
  refine ⟨rfl, hinv, Nat.le_refl _, ?_, id, id⟩
  intro x hx
  simp only [addErr, List.mem_cons] at hx
  rcases hx with rfl | hx
  · right
    unfold ErrOk
    rw [mkErr_tokenIndex]
    exact currentTokenIndex_ok hE s
  · exact Or.inl hx

theorem relabel_b (s : St) (k : Kind) : (relabel E s k).b = s.b := by
  unfold relabel; split <;> rfl

theorem relabel_errs (s : St) (k : Kind) : (relabel E s k).errs = s.errs := by
  unfold relabel; split <;> rfl

theorem relabel_oof (s : St) (k : Kind) : (relabel E s k).oof = s.oof := by
  unfold relabel; split <;> rfl

theorem relabel_kindsOk (s : St) (k : Kind) (hk : k ≠ Kind.Eof) (h : KindsOk E s) : KindsOk E (relabel E s k) := by
  unfold relabel
  split
  · rename_i i _
    intro j hj
    obtain ⟨kj, h1, h2⟩ := h j hj
    show ∃ k', (s.kinds.setIfInBounds i k)[j]? = some k' ∧ k' ≠ Kind.Eof
    rw [Array.getElem?_setIfInBounds]
    split
    · split
      · exact ⟨k, rfl, hk⟩
      · rename_i hij hlt
        subst hij
        have : i < s.kinds.size := by
          cases hlt' : decide (i < s.kinds.size) with
          | true => exact of_decide_eq_true hlt'
          | false =>
            have := of_decide_eq_false hlt'
            rw [Array.getElem?_eq_none (by omega)] at h1
            cases h1
        exact absurd this hlt
    · exact ⟨kj, h1, h2⟩
  · exact h

theorem relabel_good (k : Kind) (hk : k ≠ Kind.Eof) : Good E (fun s => relabel E s k) := by
  intro s _ hinv
  refine ⟨by rw [relabel_b], by rw [relabel_b]; exact hinv, by rw [relabel_b]; exact Nat.le_refl _, ?_,
    relabel_kindsOk s k hk, by rw [relabel_oof]; exact id⟩
  rw [relabel_errs]
  exact fun _ h => Or.inl h

theorem Relabel.kind_ne_eof (r : Relabel) : r.kind ≠ Kind.Eof := by
  cases r <;> simp [Relabel.kind]

/-- `start_node*; m; finish_node` -/
theorem bracket_step (hE : Env.Ok E) (m : St → St) (hm : Good E m) (s : St) (o : Cst.Op)
    (ho : ∀ d, Cst.depthAfter d o = some (d + 1)) (hob : o ≠ .bump)
    (h1 : 1 ≤ s.b.stack.length) (hinv : Cst.Inv E.cst s.b) :
    Step E s (prim E (m (prim E s o)) .finishNode) := by
  have ⟨a1, a2, a3, _, a5, _⟩ := prim_spec hE s o _ (ho _) h1 hinv
  have hb := hm (prim E s o) (by rw [a1]; exact a2) a3
  have hd2 : (m (prim E s o)).b.stack.length = s.b.stack.length + 1 := by rw [hb.depth, a1]
  have hfin : Cst.depthAfter (m (prim E s o)).b.stack.length .finishNode = some s.b.stack.length := by
    rw [hd2]
    simp only [Cst.depthAfter]
    rw [if_neg (by omega)]
    simp
  have ⟨c1, _, c3, c4, _, _⟩ := prim_spec hE (m (prim E s o)) .finishNode _ hfin (by omega) hb.inv
  have hcur := a5 hob
  refine ⟨c1, c3, ?_, ?_, ?_, ?_⟩
  · have := hb.mono
    omega
  · exact fun e he => hb.errs e he
  · exact fun hk => hb.kindsOk hk
  · exact fun h => hb.oof h

/-! ## The interpreter -/

theorem exec_good (hE : Env.Ok E) (rec : Tag → St → St) (hrec : ∀ t, Good E (rec t)) :
    ∀ c, Good E (exec E rec c) := by
  intro c
  induction c with
  | skip => intro s _ hinv; simp only [exec]; exact Step.refl s hinv
  | seq c d ihc ihd => intro s h1 hinv; simp only [exec]; exact Good.comp ihc ihd s h1 hinv
  | ite c t e iht ihe =>
    intro s h1 hinv
    simp only [exec]
    split
    · exact iht s h1 hinv
    · exact ihe s h1 hinv
  | node k c ih =>
    intro s h1 hinv
    simp only [exec]
    exact bracket_step hE _ ih s _ (fun _ => rfl) (by simp) h1 hinv
  | nodeAtB k c ih =>
    intro s h1 hinv
    simp only [exec]
    exact bracket_step hE _ ih s _ (fun _ => rfl) (by simp) h1 hinv
  | bump => intro s h1 hinv; simp only [exec]; exact bump_good hE s h1 hinv
  | bumpAs r =>
    intro s h1 hinv
    simp only [exec]
    exact Good.comp (relabel_good r.kind r.kind_ne_eof) (bump_good hE) s h1 hinv
  | err e => intro s h1 hinv; simp only [exec]; exact addErr_good hE e s h1 hinv
  | call t =>
    intro s h1 hinv
    simp only [exec]
    exact (hrec t s h1 hinv).regs_right _ _
  | callA t a =>
    intro s h1 hinv
    simp only [exec]
    have h := hrec t { s with ra := evalA E s a } h1 hinv
    exact (h.congr_left (t := s) rfl rfl rfl rfl).regs_right _ _
  | setBMarker =>
    intro s _ hinv
    simp only [exec]
    exact (Step.refl s hinv).congr_right rfl rfl rfl rfl
  | setBMarkerPred =>
    intro s _ hinv
    simp only [exec]
    exact (Step.refl s hinv).congr_right rfl rfl rfl rfl
  | progress c r e ihc ihe =>
    intro s h1 hinv
    simp only [exec]
    have a := ihc s h1 hinv
    have hd : 1 ≤ (exec E rec c s).b.stack.length := by rw [a.depth]; exact h1
    split
    · exact a.trans (Good.comp (addErr_good hE (.syntax r)) (bump_good hE) _ hd a.inv)
    · exact a.trans (ihe _ hd a.inv)

theorem go_good (hE : Env.Ok E) : ∀ fuel t, Good E (go E fuel t) := by
  intro fuel
  induction fuel with
  | zero =>
    intro t s _ hinv
    simp only [go]
    exact ⟨rfl, hinv, Nat.le_refl _, fun _ h => Or.inl h, id, fun _ => rfl⟩
  | succ n ih =>
    intro t s h1 hinv
    simp only [go]
    exact exec_good hE (go E n) ih (body t) s h1 hinv

/-! ## `Parser::parse` -/

/-- the state after `start_node(Program)` -/
def start (E : Env) (kinds : Array Kind) : St := prim E (init kinds) (.startNode SK.Program.toNat)

theorem start_depth (kinds : Array Kind) : (start E kinds).b.stack.length = 1 := rfl

theorem start_inv (kinds : Array Kind) : Cst.Inv E.cst (start E kinds).b := by
  simp [start, prim, init, Cst.exec, Cst.Inv, Cst.stackLeaves, Cst.leavesL]

theorem parse_eq (fuel : Nat) (kinds : Array Kind) :
    parse E fuel kinds = prim E (go E fuel .programLoop (start E kinds)) .finishNode := rfl

/-- `finish_node` on the outermost node -/
theorem finish_outer (s : St) (hd : s.b.stack.length = 1) (hinv : Cst.Inv E.cst s.b) :
    ∃ g, (prim E s .finishNode).b.root = some g ∧ (prim E s .finishNode).b.stack = [] ∧
      g.leaves = E.cst.tokenIndices.take s.b.current ∧ (prim E s .finishNode).b.current = s.b.current := by
  obtain ⟨⟨stack, current, root⟩, kinds, errs, ra, rb, oof⟩ := s
  match stack, hd with
  | [f], _ =>
    refine ⟨.node f.kind f.children, rfl, rfl, ?_, rfl⟩
    simp only [Cst.Inv, Cst.stackLeaves, List.nil_append] at hinv
    simp only [Green.leaves]
    exact hinv

theorem parse_spec (hE : Env.Ok E) (fuel : Nat) (kinds : Array Kind) :
    ∃ g, (parse E fuel kinds).b.root = some g ∧ (parse E fuel kinds).b.stack = [] ∧
      g.leaves = E.cst.tokenIndices.take (parse E fuel kinds).b.current ∧
      (∀ e ∈ (parse E fuel kinds).errs, ErrOk E e) := by
  have h := go_good hE fuel .programLoop (start E kinds) (by rw [start_depth]; exact Nat.le_refl _) (start_inv kinds)
  have ⟨g, g1, g2, g3, g4⟩ := finish_outer (go E fuel .programLoop (start E kinds)) (by rw [h.depth, start_depth]) h.inv
  rw [parse_eq]
  refine ⟨g, g1, g2, by rw [g4]; exact g3, ?_⟩
  intro e he
  rcases h.errs e he with h' | h'
  · exact absurd h' (by simp [start, prim, init])
  · exact h'

/-! ## Completeness: the statement loop is only left at the end of the input (or by running out of fuel) -/

theorem body_programLoop :
    body .programLoop =
      .ite (.neg .atEnd) (.seq (.progress (.call .statement) .noProgressStmt .skip) (.call .programLoop)) .skip := rfl

theorem isAtEnd_regs (s : St) (a b : Nat) : isAtEnd E { s with ra := a, rb := b } = isAtEnd E s := rfl

theorem programLoop_atEnd (hE : Env.Ok E) : ∀ (fuel : Nat) (s : St), 1 ≤ s.b.stack.length → Cst.Inv E.cst s.b →
    (go E fuel .programLoop s).oof = false → isAtEnd E (go E fuel .programLoop s) = true := by
  intro fuel
  induction fuel with
  | zero =>
    intro s _ _ h
    simp [go] at h
  | succ n ih =>
    intro s h1 hinv
    simp only [go, body_programLoop]
    rw [exec]
    split
    · rw [exec, exec]
      intro ho
      have a := exec_good hE (go E n) (go_good hE n) (.progress (.call .statement) .noProgressStmt .skip) s h1 hinv
      rw [isAtEnd_regs]
      exact ih _ (by rw [a.depth]; exact h1) a.inv ho
    · rename_i hc
      intro _
      rw [exec]
      simpa [evalCond] using hc

/-- at the end of the input (in the parser's sense) the cursor is past all syntax tokens -/
theorem isAtEnd_complete (hE : Env.Ok E) (s : St) (hk : KindsOk E s) (h : isAtEnd E s = true) :
    E.cst.tokenIndices.length ≤ s.b.current := by
  apply Nat.le_of_not_lt
  intro hlt
  have hi : E.idx[s.b.current + 0]? = some E.cst.tokenIndices[s.b.current] := by
    rw [hE.2, List.getElem?_toArray, Nat.add_zero]
    exact List.getElem?_eq_getElem hlt
  obtain ⟨k, k1, k2⟩ := hk _ (List.getElem_mem hlt)
  simp only [isAtEnd, peekAhead, hi, k1, beq_iff_eq] at h
  exact k2 h

theorem parse_complete (hE : Env.Ok E) (fuel : Nat) (kinds : Array Kind) (hk : KindsOk E (init kinds)) :
    (parse E fuel kinds).oof = false → E.cst.tokenIndices.length ≤ (parse E fuel kinds).b.current := by
  intro ho
  have h1 : 1 ≤ (start E kinds).b.stack.length := by rw [start_depth]; exact Nat.le_refl _
  have h := go_good hE fuel .programLoop (start E kinds) h1 (start_inv kinds)
  have ⟨_, _, _, _, g4⟩ := finish_outer (go E fuel .programLoop (start E kinds)) (by rw [h.depth, start_depth]) h.inv
  rw [parse_eq, g4]
  exact isAtEnd_complete hE _ (h.kindsOk hk) (programLoop_atEnd hE fuel _ h1 (start_inv kinds) ho)

/-! ## The environment made from `preparse` -/

theorem mkEnv_cst (ks : List Kind) (widths : List Nat) (pre : Preparse.Result) :
    (mkEnv ks widths pre).cst = ⟨widths, pre.tokenIndices⟩ := rfl

theorem mkEnv_ok (ks : List Kind) (widths : List Nat) (hw : widths.length = ks.length) :
    Env.Ok (mkEnv ks widths (Preparse.preparse ks)) := by
  refine ⟨?_, rfl⟩
  intro ti hti
  rw [mkEnv_cst] at hti ⊢
  simp only [Preparse.preparse_tokenIndices, Preparse.mem_syntaxIndices] at hti
  show ti < widths.length
  omega

theorem mkEnv_kindsOk (ks : List Kind) (widths : List Nat) :
    KindsOk (mkEnv ks widths (Preparse.preparse ks)) (init ks.toArray) := by
  intro i hi
  rw [mkEnv_cst] at hi
  simp only [Preparse.preparse_tokenIndices, Preparse.mem_syntaxIndices, Nat.sub_zero] at hi
  obtain ⟨_, h2, h3⟩ := hi
  refine ⟨ks[i], ?_, ?_⟩
  · show ks.toArray[i]? = some ks[i]
    rw [List.getElem?_toArray]
    exact List.getElem?_eq_getElem h2
  · apply Preparse.isSyntax_ne_eof
    rw [List.getD_eq_getElem?_getD, List.getElem?_eq_getElem h2] at h3
    exact h3

theorem parse_tokens_spec (ks : List Kind) (widths : List Nat) (hw : widths.length = ks.length) (fuel : Nat) :
    let r := parse (mkEnv ks widths (Preparse.preparse ks)) fuel ks.toArray
    ∃ g, r.b.root = some g ∧ r.b.stack = [] ∧
      g.leaves = (Preparse.syntaxIndices 0 ks).take r.b.current ∧
      (r.oof = false → g.leaves = Preparse.syntaxIndices 0 ks) ∧
      (∀ e ∈ r.errs, e.tokenIndex = 0 ∨
        (e.tokenIndex < ks.length ∧ Preparse.isSyntax (ks.getD e.tokenIndex Kind.Eof) = true)) := by
  intro r
  have hE := mkEnv_ok ks widths hw
  have hti : (mkEnv ks widths (Preparse.preparse ks)).cst.tokenIndices = Preparse.syntaxIndices 0 ks := by
    rw [mkEnv_cst]
    exact Preparse.preparse_tokenIndices ks
  obtain ⟨g, g1, g2, g3, g4⟩ := parse_spec hE fuel ks.toArray
  rw [hti] at g3
  refine ⟨g, g1, g2, g3, ?_, ?_⟩
  · intro ho
    have hc := parse_complete hE fuel ks.toArray (mkEnv_kindsOk ks widths) ho
    rw [hti] at hc
    rw [g3]
    exact List.take_of_length_le hc
  · intro e he
    rcases g4 e he with h | h
    · exact Or.inl h
    · right
      rw [hti, Preparse.mem_syntaxIndices] at h
      simpa using h.2

end Mimium.Grammar
