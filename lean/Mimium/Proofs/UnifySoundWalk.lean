import Mimium.Proofs.UnifyLen
/-! Soundness of the list walkers of `Model/Unify.lean`: what a successful pass says about the members it visited. -/
namespace Mimium.Unify
open Mimium.Occurs (parent Acyclic)

/-- the call answered `Ok(_)`, or `Err(vec![])` (`unify_vec` with members of both variances) -/
def quiet : Res → Bool
  | .ok _ => true
  | .error e => e.isEmpty

/-- whenever `u` answers `Ok(_)` — or `Err` with NO error — its arguments are related by `Len` in the store it leaves -/
def Sound (u : U) (k : Bool) : Prop :=
  ∀ σ a b σ' r, Acyclic (absS σ) → u σ a b = some (σ', r) → quiet r = true → Len σ' k a b

theorem quiet_of_isOk {r : Res} (h : isOk r = true) : quiet r = true := by cases r <;> simp_all [isOk, quiet]
theorem quiet_of_isIdent {r : Res} (h : isIdent r = true) : quiet r = true := by
  cases r with
  | ok x => rfl
  | error e => simp [isIdent] at h

theorem pairRes_sound {u : U} (hs : Sound u false) {σ σa : Store} (hσ : Acyclic (absS σ)) {f g : F} {r : SRes}
    (h : pairRes u σ (some f, some g) = some (σa, r)) (hq : match r with | .ok _ => True | .error e => e = []) :
    Len σa false f.ty g.ty := by
  simp only [pairRes] at h
  cases h1 : u σ f.ty g.ty with
  | none => simp [h1] at h
  | some o =>
    obtain ⟨σ1, x⟩ := o
    cases x with
    | ok rel =>
      simp only [h1, Option.some.injEq, Prod.mk.injEq] at h
      obtain ⟨rfl, _⟩ := h
      exact hs σ _ _ _ _ hσ h1 rfl
    | error e =>
      simp only [h1, Option.some.injEq, Prod.mk.injEq] at h
      obtain ⟨rfl, rfl⟩ := h
      simp only at hq
      subst hq
      exact hs σ _ _ _ _ hσ h1 rfl

/-- `all_both`: every pair of fields that is present on both sides unified -/
theorem passUntil_allBoth {u : U} (hg : Good u) (hs : Sound u false) : ∀ (ps : List (Option F × Option F)) (σ σ1 : Store),
    Acyclic (absS σ) → passUntil u (fun r => !isBoth r) σ ps = some (σ1, false) →
    ∀ p ∈ ps, ∀ f g, p = (some f, some g) → Len σ1 false f.ty g.ty := by
  intro ps
  induction ps with
  | nil => intro σ σ1 _ _ p hp; cases hp
  | cons q qs ih =>
    intro σ σ1 hσ h p hp f g hfg
    simp only [passUntil] at h
    cases h1 : pairRes u σ q with
    | none => simp [h1] at h
    | some o =>
      obtain ⟨σa, r⟩ := o
      simp only [h1] at h
      have ia := pairRes_pres hg σ hσ q σa r h1
      split at h
      · simp at h
      · rename_i hstop
        have hrest := passUntil_pres hg _ qs σa ia.1 σ1 false h
        rcases List.mem_cons.mp hp with rfl | hp'
        · subst hfg
          have hb : isBoth r = true := by simpa using hstop
          have : Len σa false f.ty g.ty := by
            refine pairRes_sound hs hσ h1 ?_
            cases r with
            | ok x => trivial
            | error e => simp [isBoth] at hb
          exact this.mono hrest.2
        · exact ih σa σ1 ia.1 h p hp' f g hfg

/-- `collected_errs` empty: every pair of fields present on both sides unified, or failed without an error -/
theorem passErrs_nil {u : U} (hg : Good u) (hs : Sound u false) : ∀ (ps : List (Option F × Option F)) (σ σ2 : Store),
    Acyclic (absS σ) → passErrs u σ ps = some (σ2, []) →
    ∀ p ∈ ps, ∀ f g, p = (some f, some g) → Len σ2 false f.ty g.ty := by
  intro ps
  induction ps with
  | nil => intro σ σ2 _ _ p hp; cases hp
  | cons q qs ih =>
    intro σ σ2 hσ h p hp f g hfg
    simp only [passErrs] at h
    cases h1 : pairRes u σ q with
    | none => simp [h1] at h
    | some o =>
      obtain ⟨σa, r⟩ := o
      simp only [h1] at h
      have ia := pairRes_pres hg σ hσ q σa r h1
      cases h2 : passErrs u σa qs with
      | none => simp [h2] at h
      | some o2 =>
        obtain ⟨σb, es⟩ := o2
        simp only [h2, Option.some.injEq, Prod.mk.injEq, List.append_eq_nil_iff] at h
        obtain ⟨rfl, hr, rfl⟩ := h
        have hrest := passErrs_pres hg qs σa ia.1 _ _ h2
        rcases List.mem_cons.mp hp with rfl | hp'
        · subst hfg
          have : Len σa false f.ty g.ty := by
            refine pairRes_sound hs hσ h1 ?_
            cases r with
            | ok x => trivial
            | error e => simpa using hr
          exact this.mono hrest.2
        · exact ih σa _ ia.1 h2 p hp' f g hfg

theorem recordArm_sound {u : U} (hg : Good u) (hs : Sound u false) (σ σ' : Store) (hσ : Acyclic (absS σ)) (a1 a2 : List F) (r : Res)
    (h : recordArm u σ a1 a2 = some (σ', r)) (hq : quiet r = true) :
    ∀ p ∈ recPairs a1 a2, ∀ f g, p = (some f, some g) → Len σ' false f.ty g.ty := by
  unfold recordArm at h
  simp only at h
  cases h1 : passUntil u (fun r => !isBoth r) σ (recPairs a1 a2) with
  | none => simp [h1] at h
  | some o1 =>
    obtain ⟨σ1, b1⟩ := o1
    have i1 := passUntil_pres hg _ _ σ hσ σ1 b1 h1
    simp only [h1] at h
    cases h2 : passErrs u σ1 (recPairs a1 a2) with
    | none => simp [h2] at h
    | some o2 =>
      obtain ⟨σ2, es⟩ := o2
      have i2 := passErrs_pres hg _ σ1 i1.1 σ2 es h2
      simp only [h2] at h
      cases h3 : passUntil u isA σ2 (recPairs a1 a2) with
      | none => simp [h3] at h
      | some o3 =>
        obtain ⟨σ3, b3⟩ := o3
        have i3 := passUntil_pres hg _ _ σ2 i2.1 σ3 b3 h3
        simp only [h3] at h
        cases h4 : passUntil u isB σ3 (recPairs a1 a2) with
        | none => simp [h4] at h
        | some o4 =>
          obtain ⟨σ4, b4⟩ := o4
          have i4 := passUntil_pres hg _ _ σ3 i3.1 σ4 b4 h4
          simp only [h4] at h
          have e24 : Ext σ2 σ4 := i3.2.trans i4.2
          have e14 : Ext σ1 σ4 := i2.2.trans e24
          -- from pass 1 when all pairs were `Both`, else from pass 2 when it collected no error
          have fromErrs : es = [] → ∀ p ∈ recPairs a1 a2, ∀ f g, p = (some f, some g) → Len σ4 false f.ty g.ty := by
            intro he p hp f g hfg
            subst he
            exact (passErrs_nil hg hs _ σ1 σ2 i1.1 h2 p hp f g hfg).mono e24
          cases b1 with
          | false =>
            simp only [Bool.not_false, if_true, Option.some.injEq, Prod.mk.injEq] at h
            obtain ⟨rfl, _⟩ := h
            intro p hp f g hfg
            exact (passUntil_allBoth hg hs _ σ σ1 hσ h1 p hp f g hfg).mono e14
          | true =>
            simp only [Bool.not_true] at h
            cases es with
            | nil =>
              have : σ4 = σ' := by
                repeat' split at h
                all_goals (simp only [Option.some.injEq, Prod.mk.injEq] at h; exact h.1)
              subst this
              exact fromErrs rfl
            | cons e es' =>
              exfalso
              simp only [List.isEmpty_cons, Bool.not_false, Bool.not_true, Bool.false_and, Bool.false_eq_true, if_false] at h
              split at h
              all_goals
                simp only [Option.some.injEq, Prod.mk.injEq] at h
                obtain ⟨_, rfl⟩ := h
                simp [quiet] at hq

/-- a `for … return` / `any` that found a member: the call that hit, and the store it ran on -/
theorem firstHit_hit {try1 : Store → Ty → Out} (ht : ∀ σ m, Acyclic (absS σ) → Pres σ (try1 σ m)) (hit : Res → Bool) :
    ∀ (ms : List Ty) (σ σ' : Store), Acyclic (absS σ) → firstHit try1 hit σ ms = some (σ', true) →
    ∃ m ∈ ms, ∃ σa r, Acyclic (absS σa) ∧ try1 σa m = some (σ', r) ∧ hit r = true := by
  intro ms
  induction ms with
  | nil => intro σ σ' _ h; simp [firstHit] at h
  | cons m ms ih =>
    intro σ σ' hσ h
    simp only [firstHit] at h
    cases h1 : try1 σ m with
    | none => simp [h1] at h
    | some o =>
      obtain ⟨σ1, r⟩ := o
      simp only [h1] at h
      have i1 := ht σ m hσ σ1 r h1
      by_cases hh : hit r = true
      · simp only [hh, if_true, Option.some.injEq, Prod.mk.injEq, and_true] at h
        subst h
        exact ⟨m, List.mem_cons_self, σ, r, hσ, h1, hh⟩
      · simp only [hh] at h
        obtain ⟨m', hm', rest⟩ := ih σ1 σ' i1.1 h
        exact ⟨m', List.mem_cons_of_mem _ hm', rest⟩

/-- an `all` that held: for every member the call that said yes, the store it ran on, and that the final store extends its result -/
theorem allOf_all {ok1 : Store → Ty → Option (Store × Bool)} (ht : ∀ σ m, Acyclic (absS σ) → Pres σ (ok1 σ m)) :
    ∀ (ms : List Ty) (σ σ' : Store), Acyclic (absS σ) → allOf ok1 σ ms = some (σ', true) →
    ∀ m ∈ ms, ∃ σa σb, Acyclic (absS σa) ∧ ok1 σa m = some (σb, true) ∧ Ext σb σ' := by
  intro ms
  induction ms with
  | nil => intro σ σ' _ _ m hm; cases hm
  | cons m ms ih =>
    intro σ σ' hσ h m' hm'
    simp only [allOf] at h
    cases h1 : ok1 σ m with
    | none => simp [h1] at h
    | some o =>
      obtain ⟨σ1, b⟩ := o
      simp only [h1] at h
      have i1 := ht σ m hσ σ1 b h1
      cases b with
      | false => simp at h
      | true =>
        simp only at h
        have hrest := allOf_pres ht ms σ1 i1.1 σ' true h
        rcases List.mem_cons.mp hm' with rfl | hm''
        · exact ⟨σ, σ1, hσ, h1, hrest.2⟩
        · exact ih σ1 σ' i1.1 h m' hm''

end Mimium.Unify
