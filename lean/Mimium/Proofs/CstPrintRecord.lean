import Mimium.Proofs.CstPrintList
/-! `print_record_expr`. -/
namespace Mimium.CstPrint
open Mimium.Gen (Kind SK)
open Mimium.Cst (Green)
open SDoc

def recInv (c : Ctx) (st : RecSt) : Prop := sepsGood c st.seps ∧ st.seps.length ≤ st.fields.length

theorem rec_append (c : Ctx) (st : RecSt) (d cur : SDoc)
    (h : (st.inBody && emp c st.closeDoc && st.seps.length == st.fields.length) = true)
    (hd : content c cur = content c st.current ++ content c d) :
    recHeld c { st with current := cur, hasCurrent := true } = recHeld c st ++ content c d := by
  simp only [Bool.and_eq_true, emp_iff, beq_iff_eq] at h
  obtain ⟨⟨h1, h2⟩, _⟩ := h
  simp [recHeld, h1, h2, hd, List.append_assoc]

theorem rec_other (c : Ctx) (st : RecSt) (d : SDoc)
    (h : (st.inBody && emp c st.closeDoc && st.seps.length == st.fields.length) = true) :
    recHeld c (recOther st d') = recHeld c st ++ content c d'.2 := by
  have h1 : st.inBody = true := by simp only [Bool.and_eq_true] at h; exact h.1.1
  unfold recOther
  rw [if_pos h1]
  exact rec_append c st d'.2 _ h (content_app c _ _)

theorem rec_step (c : Ctx) (st : RecSt) (ch : Ch) (hi : recInv c st) (hch : ChOk c ch) (hok : recOk c st ch = true) :
    recInv c (recStep c st ch) ∧ recHeld c (recStep c st ch) = recHeld c st ++ content c ch.2 := by
  obtain ⟨g, d⟩ := ch
  cases g with
  | node k gs =>
    simp only [recOk] at hok
    refine ⟨by simp only [recStep, recOther]; split <;> exact hi, ?_⟩
    exact rec_other c st (d' := (.node k gs, d)) d hok
  | token ti w =>
    have hd := chOk_token c _ d ti w rfl hch
    simp only [recOk] at hok
    simp only [recStep]
    split
    · next h1 =>
      simp only [h1, if_true, Bool.and_eq_true, Bool.not_eq_true', emp_iff, List.isEmpty_iff] at hok
      obtain ⟨⟨⟨⟨⟨⟨f1, f2⟩, f3⟩, f4⟩, f5⟩, f6⟩, f7⟩ := hok
      refine ⟨hi, ?_⟩
      simp [recHeld, f1, f2, f3, f4, f6, f7, zipC]
    · next h1 =>
      simp only [h1, Bool.false_eq_true, if_false] at hok
      split
      · next h2 =>
        simp only [h2, if_true, Bool.and_eq_true, Bool.or_eq_true, emp_iff, decide_eq_true_eq] at hok
        obtain ⟨⟨⟨f1, f2⟩, f3⟩, f4⟩ := hok
        cases hc : st.hasCurrent
        · have f3 : content c st.current = [] := by simpa [hc] using f3
          refine ⟨⟨hi.1, by simpa using f4⟩, ?_⟩
          simp [recHeld, f1, f2, f3]
        · refine ⟨⟨hi.1, by simp; omega⟩, ?_⟩
          simp only [recHeld, f1, f2, if_true, Bool.false_eq_true, if_false, List.append_nil]
          rw [zipC_snoc_item c _ _ _ f4]
          simp [List.append_assoc]
      · next h2 =>
        simp only [h2, Bool.false_eq_true, if_false] at hok
        split
        · next h3 =>
          simp only [h3, if_true, Bool.and_eq_true, emp_iff, beq_iff_eq] at hok
          obtain ⟨⟨f1, f2⟩, f3⟩ := hok
          have hk : c.kind ti = .Comma := by simp only [Bool.and_eq_true, beq_iff_eq] at h3; exact h3.1
          have hb : st.inBody = true := by simp only [Bool.and_eq_true] at h3; exact h3.2
          simp only [f1, if_true]
          rw [pushCommaComments_eq c st.seps _ ti (by simp [f2])]
          refine ⟨⟨sepsGood_push c _ ti hi.1, by simp [f2]⟩, ?_⟩
          simp only [recHeld, hb, if_true, f3, List.append_nil, content_nil]
          rw [zipC_snoc_both c _ _ st.fields st.seps f2, hd, tokItems_comma c ti hk]
          simp [List.append_assoc]
        · next h3 =>
          simp only [h3, Bool.false_eq_true, if_false] at hok
          split
          · next h4 =>
            refine ⟨hi, ?_⟩
            exact rec_append c st d _ hok (by simp)
          · next h4 =>
            refine ⟨by simp only [recOther]; split <;> exact hi, ?_⟩
            exact rec_other c st (d' := (.token ti w, d)) d hok

theorem rec_content (c : Ctx) (cs : List Ch) (hch : ∀ ch ∈ cs, ChOk c ch)
    (hok : allOk (recStep c) (recOk c) {} cs = true) (hfin : (cs.foldl (recStep c) {}).inBody = false) :
    content c (printRecordExpr c cs) = chContent c cs := by
  have h := loop_held c (recStep c) (recOk c) (recHeld c) (recInv c)
    (fun st ch hi h1 h2 => rec_step c st ch hi h1 h2) cs {} ⟨by intro s hs; simp at hs, by simp⟩ hch hok
  obtain ⟨hg, h2⟩ := h
  have h0 : recHeld c ({} : RecSt) = [] := by simp [recHeld, zipC]
  rw [h0, List.nil_append] at h2
  rw [← h2]
  unfold printRecordExpr recFinish
  generalize cs.foldl (recStep c) {} = st at hg hfin ⊢
  simp only [recHeld, hfin, Bool.false_eq_true, if_false, List.append_nil]
  cases hitems : st.fields with
  | nil => simp [zipC]
  | cons x xs =>
    simp only [List.isEmpty_cons, Bool.false_eq_true, if_false, content_app, content_grp, content_nst]
    rw [content_joinListItems c softline (by simp) _ _ hg.1]

end Mimium.CstPrint
