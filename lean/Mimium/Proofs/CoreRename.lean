import Mimium.Model.Core
/-!
Renaming of variables in core-language expressions and the **equivariance** of the reference evaluator: for an
injective renaming `π`, evaluating `π•e` in the environment `π•env` gives the same result (value, store, state) as
evaluating `e` in `env` — for closure-free expressions (no `lam`, no `app`: their values would be closures that carry
names). This is the semantic core of the hygiene property C10 (a binder and its occurrences may be renamed consistently).
-/
namespace Mimium.Core

mutual
/-- rename every variable (occurrences, `let` / tuple-pattern / lambda binders, assignment targets); names of
top-level functions (`call`) are not variables -/
def renE (π : String → String) : Expr → Expr
  | .lit b => .lit b
  | .var x => .var (π x)
  | .un op e => .un op (renE π e)
  | .bin op a b => .bin op (renE π a) (renE π b)
  | .ite c a b => .ite (renE π c) (renE π a) (renE π b)
  | .letE x e b => .letE (π x) (renE π e) (renE π b)
  | .letTup xs e b => .letTup (xs.map π) (renE π e) (renE π b)
  | .tup es => .tup (renL π es)
  | .proj e i => .proj (renE π e) i
  | .call f args site => .call f (renL π args) site
  | .app f args => .app (renE π f) (renL π args)
  | .lam ps b => .lam (ps.map π) (renE π b)
  | .self => .self
  | .mem e s => .mem (renE π e) s
  | .delay n e t s => .delay n (renE π e) (renE π t) s
  | .now => .now
  | .samplerate => .samplerate
  | .assign x e r => .assign (π x) (renE π e) (renE π r)
def renL (π : String → String) : List Expr → List Expr
  | [] => []
  | e :: es => renE π e :: renL π es
end

mutual
/-- no `lam`, no `app` -/
def closureFree : Expr → Bool
  | .lam _ _ => false
  | .app _ _ => false
  | .un _ e => closureFree e
  | .bin _ a b => closureFree a && closureFree b
  | .ite c a b => closureFree c && closureFree a && closureFree b
  | .letE _ e b => closureFree e && closureFree b
  | .letTup _ e b => closureFree e && closureFree b
  | .tup es => closureFreeL es
  | .proj e _ => closureFree e
  | .call _ args _ => closureFreeL args
  | .mem e _ => closureFree e
  | .delay _ e t _ => closureFree e && closureFree t
  | .assign _ e r => closureFree e && closureFree r
  | _ => true
def closureFreeL : List Expr → Bool
  | [] => true
  | e :: es => closureFree e && closureFreeL es
end

def renEnv (π : String → String) (env : Env) : Env := env.map fun (x, l) => (π x, l)

/-- results agree: same success value (value, store, state), or both fail -/
def ResEq {α : Type} (r r' : Res α) : Prop :=
  match r, r' with
  | .ok a, .ok b => a = b
  | .error _, .error _ => True
  | _, _ => False

theorem ResEq.rfl' {α : Type} (r : Res α) : ResEq r r := by
  cases r <;> simp [ResEq]

/-- sequencing as the evaluator writes it: propagate the error, continue with the success value -/
def andThen {α β : Type} (r : Res α) (f : α → Res β) : Res β :=
  match r with
  | .error e => .error e
  | .ok a => f a

theorem ResEq.andThen {α β : Type} {r r' : Res α} {f f' : α → Res β} (h : ResEq r r') (hf : ∀ a, ResEq (f a) (f' a)) :
    ResEq (andThen r f) (andThen r' f') := by
  cases r <;> cases r' <;> simp_all [ResEq, Core.andThen]

theorem lookup_renEnv (π : String → String) (hπ : ∀ a b, π a = π b → a = b) (env : Env) (x : String) :
    (renEnv π env).lookup (π x) = env.lookup x := by
  induction env with
  | nil => simp [renEnv, List.lookup]
  | cons p rest ih =>
    obtain ⟨y, l⟩ := p
    simp only [renEnv, List.map_cons, List.lookup] at ih ⊢
    by_cases h : x = y
    · subst h; simp
    · have h1 : (x == y) = false := by simpa using h
      have h2 : (π x == π y) = false := by
        simp only [beq_eq_false_iff_ne, ne_eq]
        intro e; exact h (hπ _ _ e)
      simp only [h1, h2]
      exact ih

theorem bindAll_renEnv (π : String → String) : ∀ (xs : List String) (vs : List Val) (env : Env) (st : Store),
    bindAll (renEnv π env) st (xs.map π) vs = (renEnv π (bindAll env st xs vs).1, (bindAll env st xs vs).2)
  | [], vs, env, st => by simp [bindAll]
  | x :: xs, [], env, st => by simp [bindAll]
  | x :: xs, v :: vs, env, st => by
    simp only [List.map_cons, bindAll]
    have := bindAll_renEnv π xs vs ((x, st.length) :: env) (st ++ [v])
    simpa [renEnv] using this

end Mimium.Core

namespace Mimium.Core

variable (P : Prog) (rt : Rt)

/-! ### the evaluator, form by form, in terms of `andThen` -/
section unfold
variable (n : Nat) (env : Env) (σ : Store) (st : SNode)

theorem eval_zero (e : Expr) : eval 0 P rt env e σ st = .error .fuel := by rw [eval]
theorem evalList_zero (es : List Expr) : evalList 0 P rt env es σ st = .error .fuel := by rw [evalList]
theorem eval_lit (b : UInt64) : eval (n + 1) P rt env (.lit b) σ st = .ok (.num b, σ, st) := by rw [eval]
theorem eval_self : eval (n + 1) P rt env .self σ st =
    (match st.selfv with
    | some v => .ok (v, σ, st)
    | none => .error (.type "self outside a function with a declared self shape")) := by rw [eval]; rfl
theorem eval_now : eval (n + 1) P rt env .now σ st = .ok (.num rt.now, σ, st) := by rw [eval]
theorem eval_sr : eval (n + 1) P rt env .samplerate σ st = .ok (.num rt.samplerate, σ, st) := by rw [eval]
theorem eval_var (x : String) : eval (n + 1) P rt env (.var x) σ st =
    (match env.lookup x with
    | none => .error (.unbound x)
    | some l =>
      match σ[l]? with
      | some v => .ok (v, σ, st)
      | none => .error (.unbound x)) := by rw [eval]; rfl

theorem eval_un (op : UnOp) (a : Expr) : eval (n + 1) P rt env (.un op a) σ st =
    andThen (eval n P rt env a σ st) (fun r => match r with
      | (.num x, σ, st) => .ok (.num (evalUn op x), σ, st)
      | _ => .error (.type "unary operand")) := by
  rw [eval]
  cases eval n P rt env a σ st with
  | error e => rfl
  | ok r => obtain ⟨v, σ', st'⟩ := r; cases v <;> rfl

theorem eval_bin (op : BinOp) (a b : Expr) : eval (n + 1) P rt env (.bin op a b) σ st =
    andThen (eval n P rt env a σ st) (fun r => match r with
      | (.num x, σ, st) => andThen (eval n P rt env b σ st) (fun r => match r with
        | (.num y, σ, st) => .ok (.num (evalBin op x y), σ, st)
        | _ => .error (.type "binary operand"))
      | _ => .error (.type "binary operand")) := by
  rw [eval]
  cases eval n P rt env a σ st with
  | error e => rfl
  | ok r =>
    obtain ⟨v, σ', st'⟩ := r
    cases v with
    | num x =>
      simp only [andThen]
      cases eval n P rt env b σ' st' with
      | error e => rfl
      | ok r => obtain ⟨v, σ'', st''⟩ := r; cases v <;> rfl
    | _ => rfl

theorem eval_ite (c a b : Expr) : eval (n + 1) P rt env (.ite c a b) σ st =
    andThen (eval n P rt env c σ st) (fun r => match r with
      | (.num x, σ, st) => if Float.ofBits x > 0.0 then eval n P rt env a σ st else eval n P rt env b σ st
      | _ => .error (.type "condition")) := by
  rw [eval]
  cases eval n P rt env c σ st with
  | error e => rfl
  | ok r => obtain ⟨v, σ', st'⟩ := r; cases v <;> rfl

theorem eval_letE (x : String) (a body : Expr) : eval (n + 1) P rt env (.letE x a body) σ st =
    andThen (eval n P rt env a σ st) (fun r => eval n P rt ((x, r.2.1.length) :: env) body (r.2.1 ++ [r.1]) r.2.2) := by
  rw [eval]
  cases eval n P rt env a σ st with
  | error e => rfl
  | ok r => obtain ⟨v, σ', st'⟩ := r; rfl

theorem eval_letTup (xs : List String) (a body : Expr) : eval (n + 1) P rt env (.letTup xs a body) σ st =
    andThen (eval n P rt env a σ st) (fun r => match r with
      | (.tup vs, σ, st) =>
        if vs.length == xs.length then
          eval n P rt (bindAll env σ xs vs).1 body (bindAll env σ xs vs).2 st
        else .error (.type "tuple pattern arity")
      | _ => .error (.type "tuple pattern")) := by
  rw [eval]
  cases eval n P rt env a σ st with
  | error e => rfl
  | ok r => obtain ⟨v, σ', st'⟩ := r; cases v <;> rfl

theorem eval_tup (es : List Expr) : eval (n + 1) P rt env (.tup es) σ st =
    andThen (evalList n P rt env es σ st) (fun r => .ok (.tup r.1, r.2.1, r.2.2)) := by
  rw [eval]
  cases evalList n P rt env es σ st with
  | error e => rfl
  | ok r => obtain ⟨v, σ', st'⟩ := r; rfl

theorem eval_proj (a : Expr) (i : Nat) : eval (n + 1) P rt env (.proj a i) σ st =
    andThen (eval n P rt env a σ st) (fun r => match r with
      | (.tup vs, σ, st) =>
        match vs[i]? with
        | some v => .ok (v, σ, st)
        | none => .error (.type "projection index")
      | _ => .error (.type "projection")) := by
  rw [eval]
  cases eval n P rt env a σ st with
  | error e => rfl
  | ok r => obtain ⟨v, σ', st'⟩ := r; cases v <;> rfl

/-- `self` of a function instance starts as the zero value of its declared shape -/
def initSelf (child : SNode) (sh : Option Shape) : SNode :=
  match child.selfv, sh with
  | none, some sh => child.setSelf (zeroOf sh)
  | _, _ => child

/-- … and is the previous return value afterwards -/
def finishSelf (child : SNode) (sh : Option Shape) (v : Val) : SNode :=
  if sh.isSome then child.setSelf v else child

/-- what a call does once its arguments are evaluated: independent of the caller's environment -/
def callRest (n : Nat) (f : String) (site : Nat) (r : List Val × Store × SNode) : Res (Val × Store × SNode) :=
  match findFn P.fns f with
  | none => .error (.nofn f)
  | some d =>
    if d.params.length != r.1.length then .error (.type "argument count") else
    andThen (eval n P rt (bindAll (globalEnv P) r.2.1 d.params r.1).1 d.body (bindAll (globalEnv P) r.2.1 d.params r.1).2
        (initSelf (r.2.2.childAt site) d.selfShape))
      (fun q => .ok (q.1, q.2.1, r.2.2.setCell site (.child (finishSelf q.2.2 d.selfShape q.1))))

theorem eval_call (f : String) (args : List Expr) (site : Nat) : eval (n + 1) P rt env (.call f args site) σ st =
    andThen (evalList n P rt env args σ st) (callRest P rt n f site) := by
  rw [eval]
  cases evalList n P rt env args σ st with
  | error e => rfl
  | ok r =>
    obtain ⟨vs, σ', st'⟩ := r
    simp only [andThen, callRest]
    cases findFn P.fns f with
    | none => rfl
    | some d =>
      simp only
      split
      · rfl
      · simp only [initSelf, finishSelf]
        cases eval n P rt (bindAll (globalEnv P) σ' d.params vs).1 d.body (bindAll (globalEnv P) σ' d.params vs).2 _ with
        | error e => rfl
        | ok q => obtain ⟨v, σ'', ch⟩ := q; rfl

theorem eval_mem (a : Expr) (site : Nat) : eval (n + 1) P rt env (.mem a site) σ st =
    andThen (eval n P rt env a σ st) (fun r => match r with
      | (.num x, σ, st) => .ok (.num (st.memAt site), σ, st.setCell site (.mem x))
      | _ => .error (.type "mem operand")) := by
  rw [eval]
  cases eval n P rt env a σ st with
  | error e => rfl
  | ok r => obtain ⟨v, σ', st'⟩ := r; cases v <;> rfl

theorem eval_delay (k : Nat) (a t : Expr) (site : Nat) : eval (n + 1) P rt env (.delay k a t site) σ st =
    andThen (eval n P rt env a σ st) (fun r => match r with
      | (.num x, σ, st) => andThen (eval n P rt env t σ st) (fun r => match r with
        | (.num tm, σ, st) =>
          .ok (.num ((st.ringAt k site).process x tm).1, σ, st.setCell site (.delay ((st.ringAt k site).process x tm).2))
        | _ => .error (.type "delay time"))
      | _ => .error (.type "delay input")) := by
  rw [eval]
  cases eval n P rt env a σ st with
  | error e => rfl
  | ok r =>
    obtain ⟨v, σ', st'⟩ := r
    cases v with
    | num x =>
      simp only [andThen]
      cases eval n P rt env t σ' st' with
      | error e => rfl
      | ok r => obtain ⟨v, σ'', st''⟩ := r; cases v <;> rfl
    | _ => rfl

theorem eval_assign (x : String) (a rest : Expr) : eval (n + 1) P rt env (.assign x a rest) σ st =
    andThen (eval n P rt env a σ st) (fun r =>
      match env.lookup x with
      | none => .error (.unbound x)
      | some l => eval n P rt env rest (List.set r.2.1 l r.1) r.2.2) := by
  rw [eval]
  cases eval n P rt env a σ st with
  | error e => rfl
  | ok r => obtain ⟨v, σ', st'⟩ := r; rfl

theorem evalList_nil : evalList (n + 1) P rt env [] σ st = .ok ([], σ, st) := by rw [evalList]
theorem evalList_cons (e : Expr) (es : List Expr) : evalList (n + 1) P rt env (e :: es) σ st =
    andThen (eval n P rt env e σ st) (fun r =>
      andThen (evalList n P rt env es r.2.1 r.2.2) (fun rs => .ok (r.1 :: rs.1, rs.2.1, rs.2.2))) := by
  rw [evalList]
  cases eval n P rt env e σ st with
  | error e => rfl
  | ok r =>
    obtain ⟨v, σ', st'⟩ := r
    simp only [andThen]
    cases evalList n P rt env es σ' st' with
    | error e => rfl
    | ok r => obtain ⟨vs, σ'', st''⟩ := r; rfl
end unfold

end Mimium.Core

namespace Mimium.Core

theorem ResEq.err {α : Type} (e e' : Err) : ResEq (α := α) (.error e) (.error e') := by simp [ResEq]

/-- **Equivariance.** For an injective renaming `π` and closure-free code: evaluating the renamed expression in the
renamed environment gives the same value, store and state (or fails as well). -/
theorem equivariant (P : Prog) (rt : Rt) (π : String → String) (hπ : ∀ a b, π a = π b → a = b) :
    ∀ (fuel : Nat),
      (∀ (e : Expr), closureFree e = true → ∀ (env : Env) (σ : Store) (st : SNode),
        ResEq (eval fuel P rt (renEnv π env) (renE π e) σ st) (eval fuel P rt env e σ st)) ∧
      (∀ (es : List Expr), closureFreeL es = true → ∀ (env : Env) (σ : Store) (st : SNode),
        ResEq (evalList fuel P rt (renEnv π env) (renL π es) σ st) (evalList fuel P rt env es σ st)) := by
  intro fuel
  induction fuel with
  | zero =>
    constructor
    · intro e _ env σ st; rw [eval_zero, eval_zero]; exact ResEq.err _ _
    · intro es _ env σ st; rw [evalList_zero, evalList_zero]; exact ResEq.err _ _
  | succ n ih =>
    obtain ⟨ihE, ihL⟩ := ih
    constructor
    · intro e hcf env σ st
      cases e with
      | lit b => simp only [renE, eval_lit]; exact ResEq.rfl' _
      | var x =>
        simp only [renE, eval_var, lookup_renEnv π hπ]
        cases env.lookup x with
        | none => exact ResEq.err _ _
        | some l => rcases hσ : σ[l]? with _ | v <;> simp [ResEq, hσ]
      | un op a =>
        simp only [closureFree] at hcf
        simp only [renE, eval_un]
        exact ResEq.andThen (ihE a hcf env σ st) (fun r => ResEq.rfl' _)
      | bin op a b =>
        simp only [closureFree, Bool.and_eq_true] at hcf
        simp only [renE, eval_bin]
        refine ResEq.andThen (ihE a hcf.1 env σ st) (fun r => ?_)
        obtain ⟨v, σ', st'⟩ := r
        cases v with
        | num x => exact ResEq.andThen (ihE b hcf.2 env σ' st') (fun r => ResEq.rfl' _)
        | _ => exact ResEq.err _ _
      | ite c a b =>
        simp only [closureFree, Bool.and_eq_true] at hcf
        simp only [renE, eval_ite]
        refine ResEq.andThen (ihE c hcf.1.1 env σ st) (fun r => ?_)
        obtain ⟨v, σ', st'⟩ := r
        cases v with
        | num x =>
          simp only
          split
          · exact ihE a hcf.1.2 env σ' st'
          · exact ihE b hcf.2 env σ' st'
        | _ => exact ResEq.err _ _
      | letE x a body =>
        simp only [closureFree, Bool.and_eq_true] at hcf
        simp only [renE, eval_letE]
        refine ResEq.andThen (ihE a hcf.1 env σ st) (fun r => ?_)
        exact ihE body hcf.2 ((x, r.2.1.length) :: env) (r.2.1 ++ [r.1]) r.2.2
      | letTup xs a body =>
        simp only [closureFree, Bool.and_eq_true] at hcf
        simp only [renE, eval_letTup]
        refine ResEq.andThen (ihE a hcf.1 env σ st) (fun r => ?_)
        obtain ⟨v, σ', st'⟩ := r
        cases v with
        | tup vs =>
          simp only [List.length_map, bindAll_renEnv]
          split
          · exact ihE body hcf.2 _ _ _
          · exact ResEq.err _ _
        | _ => exact ResEq.err _ _
      | tup es =>
        simp only [closureFree] at hcf
        simp only [renE, eval_tup]
        exact ResEq.andThen (ihL es hcf env σ st) (fun r => ResEq.rfl' _)
      | proj a i =>
        simp only [closureFree] at hcf
        simp only [renE, eval_proj]
        exact ResEq.andThen (ihE a hcf env σ st) (fun r => ResEq.rfl' _)
      | call f args site =>
        simp only [closureFree] at hcf
        simp only [renE, eval_call]
        exact ResEq.andThen (ihL args hcf env σ st) (fun r => ResEq.rfl' _)
      | app f args => simp [closureFree] at hcf
      | lam ps b => simp [closureFree] at hcf
      | self => simp only [renE, eval_self]; exact ResEq.rfl' _
      | mem a site =>
        simp only [closureFree] at hcf
        simp only [renE, eval_mem]
        exact ResEq.andThen (ihE a hcf env σ st) (fun r => ResEq.rfl' _)
      | delay k a t site =>
        simp only [closureFree, Bool.and_eq_true] at hcf
        simp only [renE, eval_delay]
        refine ResEq.andThen (ihE a hcf.1 env σ st) (fun r => ?_)
        obtain ⟨v, σ', st'⟩ := r
        cases v with
        | num x => exact ResEq.andThen (ihE t hcf.2 env σ' st') (fun r => ResEq.rfl' _)
        | _ => exact ResEq.err _ _
      | now => simp only [renE, eval_now]; exact ResEq.rfl' _
      | samplerate => simp only [renE, eval_sr]; exact ResEq.rfl' _
      | assign x a rest =>
        simp only [closureFree, Bool.and_eq_true] at hcf
        simp only [renE, eval_assign, lookup_renEnv π hπ]
        refine ResEq.andThen (ihE a hcf.1 env σ st) (fun r => ?_)
        cases env.lookup x with
        | none => exact ResEq.err _ _
        | some l => exact ihE rest hcf.2 env _ _
    · intro es hcf env σ st
      cases es with
      | nil => simp only [renL, evalList_nil]; exact ResEq.rfl' _
      | cons e es =>
        simp only [closureFreeL, Bool.and_eq_true] at hcf
        simp only [renL, evalList_cons]
        refine ResEq.andThen (ihE e hcf.1 env σ st) (fun r => ?_)
        exact ResEq.andThen (ihL es hcf.2 env r.2.1 r.2.2) (fun rs => ResEq.rfl' _)

end Mimium.Core

namespace Mimium.Core

/-! ### naive substitution of code for hole variables, names of an expression, the NoClash premise -/

mutual
/-- splicing as the macro expander does it: every hole variable is replaced by its code fragment, nothing is renamed -/
def substE (s : List (String × Expr)) : Expr → Expr
  | .lit b => .lit b
  | .var x => match s.lookup x with
    | some c => c
    | none => .var x
  | .un op e => .un op (substE s e)
  | .bin op a b => .bin op (substE s a) (substE s b)
  | .ite c a b => .ite (substE s c) (substE s a) (substE s b)
  | .letE x e b => .letE x (substE s e) (substE s b)
  | .letTup xs e b => .letTup xs (substE s e) (substE s b)
  | .tup es => .tup (substL s es)
  | .proj e i => .proj (substE s e) i
  | .call f args site => .call f (substL s args) site
  | .app f args => .app (substE s f) (substL s args)
  | .lam ps b => .lam ps (substE s b)
  | .self => .self
  | .mem e k => .mem (substE s e) k
  | .delay n e t k => .delay n (substE s e) (substE s t) k
  | .now => .now
  | .samplerate => .samplerate
  | .assign x e r => .assign x (substE s e) (substE s r)
def substL (s : List (String × Expr)) : List Expr → List Expr
  | [] => []
  | e :: es => substE s e :: substL s es
end

mutual
/-- every name that occurs in an expression (variables, binders, assignment targets) -/
def namesE : Expr → List String
  | .var x => [x]
  | .un _ e => namesE e
  | .bin _ a b => namesE a ++ namesE b
  | .ite c a b => namesE c ++ namesE a ++ namesE b
  | .letE x e b => x :: (namesE e ++ namesE b)
  | .letTup xs e b => xs ++ (namesE e ++ namesE b)
  | .tup es => namesL es
  | .proj e _ => namesE e
  | .call _ args _ => namesL args
  | .app f args => namesE f ++ namesL args
  | .lam ps b => ps ++ namesE b
  | .mem e _ => namesE e
  | .delay _ e t _ => namesE e ++ namesE t
  | .assign x e r => x :: (namesE e ++ namesE r)
  | _ => []
def namesL : List Expr → List String
  | [] => []
  | e :: es => namesE e ++ namesL es
end

theorem map_fixed (π : String → String) (xs : List String) (h : ∀ x ∈ xs, π x = x) : xs.map π = xs := by
  induction xs with
  | nil => rfl
  | cons x xs ih =>
    simp only [List.map_cons]
    rw [h x (by simp), ih (fun y hy => h y (by simp [hy]))]

mutual
/-- a renaming that fixes every name of `e` leaves `e` unchanged -/
theorem renE_fixed (π : String → String) : ∀ (e : Expr), (∀ x ∈ namesE e, π x = x) → renE π e = e
  | .lit _, _ => by simp [renE]
  | .var x, h => by simp [renE, h x (by simp [namesE])]
  | .un op e, h => by simp [renE, renE_fixed π e (by simpa [namesE] using h)]
  | .bin op a b, h => by
    simp only [namesE, List.mem_append] at h
    simp [renE, renE_fixed π a (fun x hx => h x (.inl hx)), renE_fixed π b (fun x hx => h x (.inr hx))]
  | .ite c a b, h => by
    simp only [namesE, List.mem_append] at h
    simp [renE, renE_fixed π c (fun x hx => h x (.inl (.inl hx))), renE_fixed π a (fun x hx => h x (.inl (.inr hx))),
      renE_fixed π b (fun x hx => h x (.inr hx))]
  | .letE x e b, h => by
    simp only [namesE, List.mem_cons, List.mem_append] at h
    simp [renE, h x (.inl rfl), renE_fixed π e (fun y hy => h y (.inr (.inl hy))), renE_fixed π b (fun y hy => h y (.inr (.inr hy)))]
  | .letTup xs e b, h => by
    simp only [namesE, List.mem_append] at h
    simp [renE, map_fixed π xs (fun y hy => h y (.inl hy)), renE_fixed π e (fun y hy => h y (.inr (.inl hy))),
      renE_fixed π b (fun y hy => h y (.inr (.inr hy)))]
  | .tup es, h => by simp [renE, renL_fixed π es (by simpa [namesE] using h)]
  | .proj e i, h => by simp [renE, renE_fixed π e (by simpa [namesE] using h)]
  | .call f args site, h => by simp [renE, renL_fixed π args (by simpa [namesE] using h)]
  | .app f args, h => by
    simp only [namesE, List.mem_append] at h
    simp [renE, renE_fixed π f (fun x hx => h x (.inl hx)), renL_fixed π args (fun x hx => h x (.inr hx))]
  | .lam ps b, h => by
    simp only [namesE, List.mem_append] at h
    simp [renE, map_fixed π ps (fun y hy => h y (.inl hy)), renE_fixed π b (fun y hy => h y (.inr hy))]
  | .self, _ => by simp [renE]
  | .mem e k, h => by simp [renE, renE_fixed π e (by simpa [namesE] using h)]
  | .delay n e t k, h => by
    simp only [namesE, List.mem_append] at h
    simp [renE, renE_fixed π e (fun x hx => h x (.inl hx)), renE_fixed π t (fun x hx => h x (.inr hx))]
  | .now, _ => by simp [renE]
  | .samplerate, _ => by simp [renE]
  | .assign x e r, h => by
    simp only [namesE, List.mem_cons, List.mem_append] at h
    simp [renE, h x (.inl rfl), renE_fixed π e (fun y hy => h y (.inr (.inl hy))), renE_fixed π r (fun y hy => h y (.inr (.inr hy)))]
theorem renL_fixed (π : String → String) : ∀ (es : List Expr), (∀ x ∈ namesL es, π x = x) → renL π es = es
  | [], _ => by simp [renL]
  | e :: es, h => by
    simp only [namesL, List.mem_append] at h
    simp [renL, renE_fixed π e (fun x hx => h x (.inl hx)), renL_fixed π es (fun x hx => h x (.inr hx))]
end

theorem renEnv_fixed (π : String → String) (env : Env) (h : ∀ p ∈ env, π p.1 = p.1) : renEnv π env = env := by
  induction env with
  | nil => rfl
  | cons p rest ih =>
    obtain ⟨x, l⟩ := p
    simp only [renEnv, List.map_cons]
    have hx : π x = x := h (x, l) (by simp)
    rw [hx]
    congr 1
    exact ih (fun q hq => h q (by simp [hq]))

/-- fragments and hole names untouched by `π` -/
def FragsFixed (π : String → String) (s : List (String × Expr)) : Prop :=
  ∀ p ∈ s, π p.1 = p.1 ∧ renE π p.2 = p.2

theorem lookup_fragsFixed (π : String → String) (hπ : ∀ a b, π a = π b → a = b) (s : List (String × Expr))
    (hs : FragsFixed π s) (x : String) :
    s.lookup (π x) = s.lookup x ∧ ∀ c, s.lookup x = some c → renE π c = c := by
  induction s with
  | nil => simp [List.lookup]
  | cons p rest ih =>
    obtain ⟨h, c⟩ := p
    have hp := hs (h, c) (by simp)
    have ih := ih (fun q hq => hs q (by simp [hq]))
    simp only [List.lookup]
    by_cases hx : x = h
    · subst hx
      simp only [hp.1, beq_self_eq_true, true_and]
      intro c' hc'
      cases hc'
      exact hp.2
    · have h1 : (x == h) = false := by simpa using hx
      have h2 : (π x == h) = false := by
        simp only [beq_eq_false_iff_ne, ne_eq]
        intro e
        apply hx
        apply hπ
        rw [e, hp.1]
      simp only [h1, h2]
      exact ih

mutual
/-- renaming commutes with splicing when the fragments (and the hole names) are untouched by the renaming -/
theorem renE_substE (π : String → String) (hπ : ∀ a b, π a = π b → a = b) (s : List (String × Expr)) (hs : FragsFixed π s) :
    ∀ (e : Expr), renE π (substE s e) = substE s (renE π e)
  | .lit _ => by simp [substE, renE]
  | .var x => by
    have := lookup_fragsFixed π hπ s hs x
    simp only [substE, renE, this.1]
    cases hl : s.lookup x with
    | none => simp [renE]
    | some c => exact this.2 c hl
  | .un op e => by simp [substE, renE, renE_substE π hπ s hs e]
  | .bin op a b => by simp [substE, renE, renE_substE π hπ s hs a, renE_substE π hπ s hs b]
  | .ite c a b => by simp [substE, renE, renE_substE π hπ s hs c, renE_substE π hπ s hs a, renE_substE π hπ s hs b]
  | .letE x e b => by simp [substE, renE, renE_substE π hπ s hs e, renE_substE π hπ s hs b]
  | .letTup xs e b => by simp [substE, renE, renE_substE π hπ s hs e, renE_substE π hπ s hs b]
  | .tup es => by simp [substE, renE, renL_substL π hπ s hs es]
  | .proj e i => by simp [substE, renE, renE_substE π hπ s hs e]
  | .call f args site => by simp [substE, renE, renL_substL π hπ s hs args]
  | .app f args => by simp [substE, renE, renE_substE π hπ s hs f, renL_substL π hπ s hs args]
  | .lam ps b => by simp [substE, renE, renE_substE π hπ s hs b]
  | .self => by simp [substE, renE]
  | .mem e k => by simp [substE, renE, renE_substE π hπ s hs e]
  | .delay n e t k => by simp [substE, renE, renE_substE π hπ s hs e, renE_substE π hπ s hs t]
  | .now => by simp [substE, renE]
  | .samplerate => by simp [substE, renE]
  | .assign x e r => by simp [substE, renE, renE_substE π hπ s hs e, renE_substE π hπ s hs r]
theorem renL_substL (π : String → String) (hπ : ∀ a b, π a = π b → a = b) (s : List (String × Expr)) (hs : FragsFixed π s) :
    ∀ (es : List Expr), renL π (substL s es) = substL s (renL π es)
  | [] => by simp [substL, renL]
  | e :: es => by simp [substL, renL, renE_substE π hπ s hs e, renL_substL π hπ s hs es]
end

/-- exchange two names -/
def swapN (y z : String) (s : String) : String := if s = y then z else if s = z then y else s

theorem swapN_inj (y z : String) : ∀ a b, swapN y z a = swapN y z b → a = b := by
  intro a b h
  unfold swapN at h
  split at h <;> split at h <;> (try split at h) <;> (try split at h) <;> simp_all

theorem swapN_fixed (y z x : String) (hy : x ≠ y) (hz : x ≠ z) : swapN y z x = x := by
  simp [swapN, hy, hz]

/-- **NoClash** (decidable): no spliced fragment mentions the old or the new name (nor is a hole called so), and the use
site — the environment in which the expansion is evaluated — binds neither -/
def noClash (y z : String) (s : List (String × Expr)) (env : Env) : Bool :=
  s.all (fun p => p.1 != y && p.1 != z && !(namesE p.2).contains y && !(namesE p.2).contains z) &&
  env.all (fun p => p.1 != y && p.1 != z)

theorem noClash_frags {y z : String} {s : List (String × Expr)} {env : Env} (h : noClash y z s env = true) :
    FragsFixed (swapN y z) s := by
  intro p hp
  simp only [noClash, Bool.and_eq_true, List.all_eq_true] at h
  have := h.1 p hp
  simp only [bne_iff_ne, ne_eq, Bool.not_eq_true', List.contains_eq_mem,
    decide_eq_false_iff_not] at this
  obtain ⟨⟨⟨h1, h2⟩, h3⟩, h4⟩ := this
  refine ⟨swapN_fixed y z _ h1 h2, renE_fixed _ _ (fun x hx => swapN_fixed y z x ?_ ?_)⟩
  · intro e; subst e; exact h3 hx
  · intro e; subst e; exact h4 hx

theorem noClash_env {y z : String} {s : List (String × Expr)} {env : Env} (h : noClash y z s env = true) :
    renEnv (swapN y z) env = env := by
  apply renEnv_fixed
  intro p hp
  simp only [noClash, Bool.and_eq_true, List.all_eq_true] at h
  have := h.2 p hp
  simp only [bne_iff_ne, ne_eq] at this
  exact swapN_fixed y z _ this.1 this.2

end Mimium.Core
