import Mimium.Proofs.FlatTreeArms
/-!
# state inside `if` arms: the flat machine simulates a call that skips cells

`flat_cellsA` / `flat_nodeA`: the mutual induction of `Proofs/FlatTreeRun.lean` for payloads in which cells may be skipped
(`PayOkA`): a skipped cell contributes no instruction (`flatCell c .skip = []`, bracketed by a push/pop pair that returns the
cursor) and no tree operation, so its words stay what they are.  `acc_nodeA`: the accesses of such a call are an in-order
sub-selection (`List.Sublist`) of the accesses the layout prescribes, `self` is read first and written last in every
instance that is entered, the cursor returns.
-/
namespace Mimium.FlatTree
open Mimium.Core Mimium.Cells Mimium.StateTree Mimium.Layout Mimium.StateMachine

/-- the statement proved for a cell list (as `CellsSpec`; the payload may skip cells) -/
theorem cellsSpec_of {cs : List LCell} {ps : List CPay}
    (h : ∀ (st : SNode) (base off : Nat) (pre post : List UInt64), ConfL cs st → pre.length = base + off →
      vmRun ⟨base, pre ++ serCells cs st ++ post⟩ (flatCells cs ps off) =
        some (⟨base, pre ++ serCells cs (treeCells cs ps st).1 ++ post⟩, (treeCells cs ps st).2)
      ∧ ConfL cs (treeCells cs ps st).1) : CellsSpec cs ps := h

mutual
theorem flat_cellA : ∀ (c : LCell) (p : CPay) (st : SNode) (pre post : List UInt64),
    LayOk c → Conf c st → PayOkA c p →
    vmRun ⟨pre.length, pre ++ serCell c st ++ post⟩ (flatCell c p) =
      some (⟨pre.length, pre ++ serCell c (treeCell c p st).1 ++ post⟩, (treeCell c p st).2)
    ∧ Conf c (treeCell c p st).1
  | .mem s, .skip, st, pre, post, _, hc, _ => by simp [flatCell, treeCell, vmRun, hc]
  | .delay s n, .skip, st, pre, post, _, hc, _ => by simp [flatCell, treeCell, vmRun, hc]
  | .child s self cells, .skip, st, pre, post, _, hc, _ => by simp [flatCell, treeCell, vmRun, hc]
  | .mem s, .mem x, st, pre, post, _, _, _ => by
    simp only [flatCell, treeCell, serCell, memAt_set, Conf, and_true]
    exact vmRun_single (step_mem pre post _ x)
  | .delay s n, .delay x t, st, pre, post, hl, hc, _ => by
    simp only [Conf] at hc
    simp only [LayOk] at hl
    simp only [flatCell, treeCell, serCell, ringAt_set, Conf]
    refine ⟨?_, process_conf _ x t n hl hc.1 hc.2.1 hc.2.2⟩
    have := step_delay pre post (st.ringAt n s) x t hc.2.2
    rw [hc.1] at this
    exact vmRun_single this
  | .child s self cells, .child ret ps, st, pre, post, hl, hc, hp => by
    simp only [Conf] at hc
    simp only [LayOk] at hl
    simp only [PayOkA] at hp
    have hcells : CellsSpec cells ps := fun st base off pre post hconf hlen =>
      flat_cellsA cells ps st base off pre post hl hconf hp.2 hlen
    have := flat_nodeWith self cells ps ret hcells (st.childAt s) pre post hc.1 hc.2 hp.1
    simp only [flatCell, treeCell, serCell, childAt_set, Conf]
    exact ⟨this.1, this.2.1, this.2.2⟩
  | .mem _, .delay _ _, _, _, _, _, _, hp => by simp [PayOkA] at hp
  | .mem _, .child _ _, _, _, _, _, _, hp => by simp [PayOkA] at hp
  | .delay _ _, .mem _, _, _, _, _, _, hp => by simp [PayOkA] at hp
  | .delay _ _, .child _ _, _, _, _, _, _, hp => by simp [PayOkA] at hp
  | .child _ _ _, .mem _, _, _, _, _, _, hp => by simp [PayOkA] at hp
  | .child _ _ _, .delay _ _, _, _, _, _, _, hp => by simp [PayOkA] at hp
theorem flat_cellsA : ∀ (cs : List LCell) (ps : List CPay) (st : SNode) (base off : Nat) (pre post : List UInt64),
    LayOkL cs → ConfL cs st → PayOkAL cs ps → pre.length = base + off →
    vmRun ⟨base, pre ++ serCells cs st ++ post⟩ (flatCells cs ps off) =
      some (⟨base, pre ++ serCells cs (treeCells cs ps st).1 ++ post⟩, (treeCells cs ps st).2)
    ∧ ConfL cs (treeCells cs ps st).1
  | [], [], st, base, off, pre, post, _, _, _, _ => by
    simp [flatCells, treeCells, serCells, vmRun, ConfL]
  | [], _ :: _, _, _, _, _, _, _, _, hp, _ => by simp [PayOkAL] at hp
  | _ :: _, [], _, _, _, _, _, _, _, hp, _ => by simp [PayOkAL] at hp
  | c :: cs, p :: ps, st, base, off, pre, post, hl, hc, hp, hlen => by
    simp only [LayOkL] at hl
    simp only [ConfL] at hc
    simp only [PayOkAL] at hp
    obtain ⟨hl1, hnotin, hl2⟩ := hl
    have h1 := flat_cellA c p st pre (serCells cs st ++ post) hl1 hc.1 hp.1
    generalize hst1 : treeCell c p st = r1 at h1
    have hframe : ∀ s ∈ sitesOf cs, lookupCell st.cells s = lookupCell r1.1.cells s := by
      intro s hs
      rw [← hst1, treeCell_lookup_ne c p st s (fun e => hnotin (e ▸ hs))]
    have hser : serCells cs st = serCells cs r1.1 := serCells_congr cs _ _ hframe
    have hconf1 : ConfL cs r1.1 := (ConfL_congr cs _ _ hframe).1 hc.2
    have hlen1 : (pre ++ serCell c r1.1).length = base + (off + c.size) := by
      rw [List.length_append, serCell_length c r1.1 h1.2, hlen]; omega
    have h2 := flat_cellsA cs ps r1.1 base (off + c.size) (pre ++ serCell c r1.1) post hl2 hconf1 hp.2 hlen1
    generalize hst2 : treeCells cs ps r1.1 = r2 at h2
    have hframe2 : lookupCell r2.1.cells c.site = lookupCell r1.1.cells c.site := by
      rw [← hst2]; exact treeCells_lookup_notin cs ps r1.1 c.site hnotin
    have hser2 : serCell c r2.1 = serCell c r1.1 := serCell_congr c _ _ hframe2
    have hconf2 : Conf c r2.1 := (Conf_congr c _ _ hframe2).2 h1.2
    have hb : vmRun ⟨base, pre ++ (serCell c st ++ serCells cs st) ++ post⟩ ([.push off] ++ flatCell c p ++ [.pop off]) =
        some (⟨base, pre ++ serCell c r1.1 ++ serCells cs r1.1 ++ post⟩, r1.2) := by
      apply vmRun_bracket
      rw [← hlen, hser]
      have := h1.1
      rw [hser] at this
      simpa [List.append_assoc] using this
    have := vmRun_append hb h2.1
    simp only [flatCells, treeCells, serCells, hst1, hst2, ConfL]
    refine ⟨?_, hconf2, h2.2⟩
    rw [this, hser2]
    simp [List.append_assoc]
end

/-- one whole call of a function instance whose region starts at `pre.length`; cells may be skipped -/
theorem flat_nodeA (lay : LNode) (pay : NPay) (st : SNode) (pre post : List UInt64)
    (hl : lay.Ok) (hc : Conforms lay st) (hp : NPayOkA lay pay) :
    vmRun ⟨pre.length, pre ++ serialize lay st ++ post⟩ (flatNode lay pay) =
      some (⟨pre.length, pre ++ serialize lay (treeNode lay pay st).1 ++ post⟩, (treeNode lay pay st).2)
    ∧ Conforms lay (treeNode lay pay st).1 := by
  have hcells : CellsSpec lay.cells pay.cells := fun st base off pre post hconf hlen =>
    flat_cellsA lay.cells pay.cells st base off pre post hl hconf hp.2 hlen
  have := flat_nodeWith lay.self lay.cells pay.cells pay.ret hcells st pre post hc.1 hc.2 hp.1
  exact ⟨this.1, this.2.1, this.2.2⟩

/-! ### the accesses of a call that skips cells -/

/-- the accesses of a function instance that is entered: `self` read first, written last, around those of its body -/
theorem acc_nodeWithA (self : Option Shape) (cells : List LCell) (body : List SOp) (ret : Val) (b : Nat)
    (hr : RetOk self ret)
    (hbody : (accessesOf b body).Sublist (expectedTraceL (skCells cells) (b + selfSize self)) ∧ cursorAfter b body = b) :
    accessesOf b (flatNodeWith self body ret) = selfGetAcc self b ++ accessesOf b body ++ selfSetAcc self b ∧
    (accessesOf b (flatNodeWith self body ret)).Sublist (expectedTrace (.fn (feedOf self ++ skCells cells)) b) ∧
    cursorAfter b (flatNodeWith self body ret) = b := by
  rw [fn_expected]
  cases self with
  | none =>
    refine ⟨by simp [flatNodeWith, selfGetAcc, selfSetAcc], ?_, by simpa [flatNodeWith] using hbody.2⟩
    simpa [flatNodeWith] using hbody.1
  | some sh =>
    simp only [RetOk] at hr
    have e : accessesOf b (flatNodeWith (some sh) body ret) =
        selfGetAcc (some sh) b ++ accessesOf b body ++ selfSetAcc (some sh) b := by
      simp only [selfGetAcc, selfSetAcc]
      simp only [flatNodeWith, accessesOf_append, cursorAfter_append]
      simp [accessesOf, cursorAfter, hbody.2, hr]
    refine ⟨e, ?_, ?_⟩
    · rw [e]
      simp only [selfGetAcc, selfSetAcc]
      exact ((List.Sublist.refl _).append hbody.1).append (List.Sublist.refl _)
    · simp only [flatNodeWith, cursorAfter_append]
      simp [cursorAfter, hbody.2]

mutual
theorem acc_cellA : ∀ (c : LCell) (p : CPay) (b : Nat), PayOkA c p →
    (accessesOf b (flatCell c p)).Sublist (expectedTrace c.sk b) ∧ cursorAfter b (flatCell c p) = b
  | .mem _, .skip, b, _ => by simp [flatCell, accessesOf, cursorAfter]
  | .delay _ _, .skip, b, _ => by simp [flatCell, accessesOf, cursorAfter]
  | .child _ _ _, .skip, b, _ => by simp [flatCell, accessesOf, cursorAfter]
  | .mem _, .mem x, b, _ => by simp [flatCell, accessesOf, cursorAfter, LCell.sk, expectedTrace]
  | .delay _ n, .delay x t, b, _ => by simp [flatCell, accessesOf, cursorAfter, LCell.sk, expectedTrace]
  | .child _ self cells, .child ret ps, b, hp => by
    simp only [PayOkA] at hp
    simp only [flatCell, LCell.sk]
    have := acc_nodeWithA self cells _ ret b hp.1 (acc_cellsA cells ps b (selfSize self) hp.2)
    exact ⟨this.2.1, this.2.2⟩
  | .mem _, .delay _ _, _, hp => by simp [PayOkA] at hp
  | .mem _, .child _ _, _, hp => by simp [PayOkA] at hp
  | .delay _ _, .mem _, _, hp => by simp [PayOkA] at hp
  | .delay _ _, .child _ _, _, hp => by simp [PayOkA] at hp
  | .child _ _ _, .mem _, _, hp => by simp [PayOkA] at hp
  | .child _ _ _, .delay _ _, _, hp => by simp [PayOkA] at hp
theorem acc_cellsA : ∀ (cs : List LCell) (ps : List CPay) (base off : Nat), PayOkAL cs ps →
    (accessesOf base (flatCells cs ps off)).Sublist (expectedTraceL (skCells cs) (base + off)) ∧
    cursorAfter base (flatCells cs ps off) = base
  | [], [], _, _, _ => by simp [flatCells, accessesOf, cursorAfter, skCells, expectedTraceL]
  | [], _ :: _, _, _, hp => by simp [PayOkAL] at hp
  | _ :: _, [], _, _, hp => by simp [PayOkAL] at hp
  | c :: cs, p :: ps, base, off, hp => by
    simp only [PayOkAL] at hp
    have h1 := acc_cellA c p (base + off) hp.1
    have h2 := acc_cellsA cs ps base (off + c.size) hp.2
    simp only [flatCells, accessesOf_append, cursorAfter_append, skCells, expectedTraceL, sk_size]
    simp only [accessesOf, cursorAfter, List.nil_append, h1.2, Nat.add_sub_cancel, h2.2, Nat.add_assoc]
    refine ⟨?_, trivial⟩
    simpa using h1.1.append h2.1
end

/-- the accesses of one whole call that skips cells: `self` first and last around an in-order sub-selection of the
accesses the layout prescribes for the cells; altogether a sub-selection of `expectedTrace`; the cursor returns -/
theorem acc_nodeA (lay : LNode) (pay : NPay) (b : Nat) (hp : NPayOkA lay pay) :
    accessesOf b (flatNode lay pay) =
      selfGetAcc lay.self b ++ accessesOf b (flatCells lay.cells pay.cells (selfSize lay.self)) ++ selfSetAcc lay.self b ∧
    (accessesOf b (flatNode lay pay)).Sublist (expectedTrace lay.sk b) ∧ cursorAfter b (flatNode lay pay) = b :=
  acc_nodeWithA lay.self lay.cells _ pay.ret b hp.1 (acc_cellsA lay.cells pay.cells b (selfSize lay.self) hp.2)

/-- a payload without skipped cells is one of the strict discipline -/
theorem payOkA_of_payOk : ∀ (c : LCell) (p : CPay), PayOk c p → PayOkA c p
  | .mem _, .mem _, _ => by simp [PayOkA]
  | .delay _ _, .delay _ _, _ => by simp [PayOkA]
  | .child _ self cells, .child ret ps, h => by
    simp only [PayOk] at h
    simp only [PayOkA]
    refine ⟨h.1, ?_⟩
    exact payOkAL_of_payOkL cells ps h.2
  | .mem _, .delay _ _, hp => by simp [PayOk] at hp
  | .mem _, .child _ _, hp => by simp [PayOk] at hp
  | .delay _ _, .mem _, hp => by simp [PayOk] at hp
  | .delay _ _, .child _ _, hp => by simp [PayOk] at hp
  | .child _ _ _, .mem _, hp => by simp [PayOk] at hp
  | .child _ _ _, .delay _ _, hp => by simp [PayOk] at hp
where
  payOkAL_of_payOkL : ∀ (cs : List LCell) (ps : List CPay), PayOkL cs ps → PayOkAL cs ps
  | [], [], _ => by simp [PayOkAL]
  | [], _ :: _, hp => by simp [PayOkL] at hp
  | _ :: _, [], hp => by simp [PayOkL] at hp
  | c :: cs, p :: ps, hp => by
    simp only [PayOkL] at hp
    simp only [PayOkAL]
    exact ⟨payOkA_of_payOk c p hp.1, payOkAL_of_payOkL cs ps hp.2⟩

end Mimium.FlatTree
