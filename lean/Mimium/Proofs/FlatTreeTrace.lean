import Mimium.Model.FlatTree
import Mimium.Proofs.Layout
/-!
The state instructions of one call (`flatNode`) perform exactly the accesses the published skeleton prescribes
(`expectedTrace` of the erased layout), and return the cursor; the erased layout is well formed and has the
labelled layout's size.
-/
namespace Mimium.FlatTree
open Mimium.Core Mimium.Cells Mimium.StateTree Mimium.Layout Mimium.StateMachine

theorem accessesOf_append : ∀ (a b : List SOp) (pos : Nat),
    accessesOf pos (a ++ b) = accessesOf pos a ++ accessesOf (cursorAfter pos a) b
  | [], b, pos => by simp [accessesOf, cursorAfter]
  | op :: a, b, pos => by
    cases op <;> simp [accessesOf, cursorAfter, accessesOf_append a b]

theorem cursorAfter_append : ∀ (a b : List SOp) (pos : Nat),
    cursorAfter pos (a ++ b) = cursorAfter (cursorAfter pos a) b
  | [], b, pos => by simp [cursorAfter]
  | op :: a, b, pos => by
    cases op <;> simp [cursorAfter, cursorAfter_append a b]

theorem sizeL_append (a b : List Sk) : sizeL (a ++ b) = sizeL a + sizeL b := by
  induction a with
  | nil => simp [sizeL]
  | cons x xs ih => simp [sizeL, ih, Nat.add_assoc]

mutual
theorem sk_size : ∀ c : LCell, c.sk.size = c.size
  | .mem _ => by simp [LCell.sk, Sk.size, LCell.size]
  | .delay _ n => by simp [LCell.sk, Sk.size, LCell.size]
  | .child _ self cells => by
    simp only [LCell.sk, Sk.size, LCell.size, sizeL_append, skCells_size cells]
    cases self <;> simp [feedOf, sizeL, selfSize, Sk.size]
theorem skCells_size : ∀ cs : List LCell, sizeL (skCells cs) = sizeCells cs
  | [] => by simp [skCells, sizeCells]
  | c :: cs => by simp only [skCells, sizeL, sizeCells, sk_size c, skCells_size cs]
end

theorem LNode.sk_size (lay : LNode) : lay.sk.size = lay.size := by
  simp only [LNode.sk, Sk.size, LNode.size, sizeL_append, skCells_size]
  cases lay.self <;> simp [feedOf, sizeL, selfSize, Sk.size]

/-- a function without `self` publishes no `Feed` cell: the skeleton's first cell is never a `Feed` -/
theorem fn_nofeed (cells : List LCell) (b : Nat) :
    expectedTrace (.fn (skCells cells)) b = expectedTraceL (skCells cells) b ∧
    WF (.fn (skCells cells)) = WFL (skCells cells) := by
  cases cells with
  | nil => simp [skCells, expectedTrace, WF]
  | cons c cs => cases c <;> simp [skCells, LCell.sk, expectedTrace, WF]

theorem fn_expected (self : Option Shape) (cells : List LCell) (b : Nat) :
    expectedTrace (.fn (feedOf self ++ skCells cells)) b =
      (match self with | none => [] | some sh => [⟨.get, b, shapeSize sh⟩]) ++
      expectedTraceL (skCells cells) (b + selfSize self) ++
      (match self with | none => [] | some sh => [⟨.set, b, shapeSize sh⟩]) := by
  cases self with
  | none => simp [feedOf, selfSize, (fn_nofeed cells b).1]
  | some sh => simp [feedOf, selfSize, expectedTrace]

theorem fn_WF (self : Option Shape) (cells : List LCell) :
    WF (.fn (feedOf self ++ skCells cells)) = WFL (skCells cells) := by
  cases self with
  | none => simp [feedOf, (fn_nofeed cells 0).2]
  | some sh => simp [feedOf, WF]

mutual
theorem sk_WF : ∀ c : LCell, WF c.sk = true
  | .mem _ => by simp [LCell.sk, WF]
  | .delay _ _ => by simp [LCell.sk, WF]
  | .child _ self cells => by simp only [LCell.sk, fn_WF]; exact skCells_WF cells
theorem skCells_WF : ∀ cs : List LCell, WFL (skCells cs) = true
  | [] => by simp [skCells, WFL]
  | c :: cs => by simp [skCells, WFL, sk_WF c, skCells_WF cs]
end

theorem LNode.sk_WF (lay : LNode) : WF lay.sk = true := by
  simp only [LNode.sk, fn_WF]; exact skCells_WF _

theorem acc_nodeWith (self : Option Shape) (cells : List LCell) (body : List SOp) (ret : Val) (b : Nat)
    (hr : RetOk self ret)
    (hbody : accessesOf b body = expectedTraceL (skCells cells) (b + selfSize self) ∧ cursorAfter b body = b) :
    accessesOf b (flatNodeWith self body ret) = expectedTrace (.fn (feedOf self ++ skCells cells)) b ∧
    cursorAfter b (flatNodeWith self body ret) = b := by
  rw [fn_expected]
  cases self with
  | none => simpa [flatNodeWith] using hbody
  | some sh =>
    simp only [RetOk] at hr
    simp only [flatNodeWith, accessesOf_append, cursorAfter_append]
    simp [accessesOf, cursorAfter, hbody.1, hbody.2, hr]

mutual
theorem acc_cell : ∀ (c : LCell) (p : CPay) (b : Nat), PayOk c p →
    accessesOf b (flatCell c p) = expectedTrace c.sk b ∧ cursorAfter b (flatCell c p) = b
  | .mem _, .mem x, b, _ => by simp [flatCell, accessesOf, cursorAfter, LCell.sk, expectedTrace]
  | .delay _ n, .delay x t, b, _ => by simp [flatCell, accessesOf, cursorAfter, LCell.sk, expectedTrace]
  | .child _ self cells, .child ret ps, b, hp => by
    simp only [PayOk] at hp
    simp only [flatCell, LCell.sk]
    exact acc_nodeWith self cells _ ret b hp.1 (acc_cells cells ps b (selfSize self) hp.2)
  | .mem _, .delay _ _, _, hp => by simp [PayOk] at hp
  | .mem _, .child _ _, _, hp => by simp [PayOk] at hp
  | .delay _ _, .mem _, _, hp => by simp [PayOk] at hp
  | .delay _ _, .child _ _, _, hp => by simp [PayOk] at hp
  | .child _ _ _, .mem _, _, hp => by simp [PayOk] at hp
  | .child _ _ _, .delay _ _, _, hp => by simp [PayOk] at hp
theorem acc_cells : ∀ (cs : List LCell) (ps : List CPay) (base off : Nat), PayOkL cs ps →
    accessesOf base (flatCells cs ps off) = expectedTraceL (skCells cs) (base + off) ∧
    cursorAfter base (flatCells cs ps off) = base
  | [], [], _, _, _ => by simp [flatCells, accessesOf, cursorAfter, skCells, expectedTraceL]
  | [], _ :: _, _, _, hp => by simp [PayOkL] at hp
  | _ :: _, [], _, _, hp => by simp [PayOkL] at hp
  | c :: cs, p :: ps, base, off, hp => by
    simp only [PayOkL] at hp
    have h1 := acc_cell c p (base + off) hp.1
    have h2 := acc_cells cs ps base (off + c.size) hp.2
    simp only [flatCells, accessesOf_append, cursorAfter_append, skCells, expectedTraceL, sk_size]
    simp only [accessesOf, cursorAfter, List.nil_append, h1.1, h1.2, Nat.add_sub_cancel, h2.1, h2.2, Nat.add_assoc]
    simp
end

theorem acc_node (lay : LNode) (pay : NPay) (b : Nat) (hp : NPayOk lay pay) :
    accessesOf b (flatNode lay pay) = expectedTrace lay.sk b ∧ cursorAfter b (flatNode lay pay) = b :=
  acc_nodeWith lay.self lay.cells _ pay.ret b hp.1 (acc_cells lay.cells pay.cells b (selfSize lay.self) hp.2)

end Mimium.FlatTree
