import Mimium.Proofs.CstKeepList
/-!
# Shape ⇒ `ok` tests for the loops with slots: block, let / letrec, if, binary operator, use, `use m::{…}`, paths
-/
namespace Mimium.CstPrint
open Mimium.Gen (Kind SK)
open Mimium.Cst (Green)
open SDoc

variable (c : Ctx)

/-- `allOk` along children that all satisfy `Q`, with an invariant of the loop state -/
theorem allOk_inv {σ : Type} (step : σ → Ch → σ) (ok : σ → Ch → Bool) (I : σ → Prop) (Q : Green → Prop)
    (h : ∀ st g, I st → Q g → ok st (g, cstToDoc c g) = true ∧ I (step st (g, cstToDoc c g))) :
    ∀ (w : List Green) (st : σ), I st → (∀ g ∈ w, Q g) →
      allOk step ok st (chL c w) = true ∧ I ((chL c w).foldl step st) := by
  intro w
  induction w with
  | nil => intro st hi _; exact ⟨rfl, hi⟩
  | cons g gs ih =>
    intro st hi hq
    obtain ⟨o1, o2⟩ := h st g hi (hq g (by simp))
    obtain ⟨i1, i2⟩ := ih _ o2 (fun x hx => hq x (by simp [hx]))
    simp only [chL, allOk, List.foldl_cons, o1, i1, Bool.true_and]
    exact ⟨trivial, i2⟩

/-! ## `print_block_expr` -/

/-- `{`, children that are not brace tokens, `}` -/
def BlockShape (cs : List Green) : Prop :=
  ∃ io wo mid ic wc, cs = .token io wo :: (mid ++ [.token ic wc]) ∧ c.kind io = .BlockBegin ∧ c.kind ic = .BlockEnd ∧
    ∀ g ∈ mid, IsNode g

theorem block_open_flag (ti : Nat) :
    let t := (trailingTrivia c ti).foldl (fun (a : SDoc × Bool) i => (a.1 ++ emitTrivia c i, a.2 || isComment c i)) (nil, false)
    (t.2 || emp c t.1) = true := by
  intro t
  have hf := leadFold c (trailingTrivia c ti) nil false
  simp only [content_nil, List.nil_append, Bool.false_or] at hf
  cases hany : (trailingTrivia c ti).any (isComment c) with
  | true => have : t.2 = true := hf.2.trans hany; simp [this]
  | false =>
    have h1 : content c t.1 = [] := hf.1.trans (triviaItems_nil_of_any c _ hany)
    simp [emp, h1]

theorem blockShape_ok (cs : List Green) (h : BlockShape c cs) :
    (allOk (blockStep c) (blockOk c) {} (chL c cs) && !((chL c cs).foldl (blockStep c) {}).inBody) = true := by
  obtain ⟨io, wo, mid, ic, wc, rfl, ho, hc, hmid⟩ := h
  let I : BlockSt → Prop := fun st => st.inBody = true ∧ (st.hasOpenTrivia || emp c st.openTrivia) = true
  have hne : (Kind.BlockEnd == Kind.BlockBegin) = false := by decide
  have hopen : blockOk c {} (.token io wo, cstToDoc c (.token io wo)) = true ∧
      I (blockStep c {} (.token io wo, cstToDoc c (.token io wo))) := by
    refine ⟨by simp [blockOk, ho, emp_nil], ?_, ?_⟩
    · simp [blockStep, ho]
    · simp only [blockStep, ho, beq_self_eq_true, if_true]
      exact block_open_flag c io
  have hbody := allOk_inv c (blockStep c) (blockOk c) I IsNode (by
    intro st g hi hg
    obtain ⟨k, a, rfl⟩ := hg
    refine ⟨by simp [blockOk, hi.1], ?_, ?_⟩
    · simp [blockStep, hi.1]
    · simp only [blockStep, hi.1, if_true]; exact hi.2) mid _ hopen.2 hmid
  simp only [chL, allOk, List.foldl_cons, hopen.1, Bool.true_and, chL_append, allOk_append, List.foldl_append, hbody.1]
  obtain ⟨b1, b2⟩ := hbody.2
  generalize (chL c mid).foldl (blockStep c) (blockStep c {} (.token io wo, cstToDoc c (.token io wo))) = st at b1 b2
  simp [allOk, blockOk, blockStep, hc, hne, b1, b2]

/-! ## `print_let_decl`, `print_letrec_decl` -/

/-- not a token of one of the kinds -/
def NotTok (ks : List Kind) (g : Green) : Prop := ∀ i w, g = .token i w → c.kind i ∉ ks

/-- the keyword, children that are neither the keyword nor `=`, optionally `=` and such children -/
def LetShape (kw : Kind) (cs : List Green) : Prop :=
  ∃ ik wk pre post, c.kind ik = kw ∧ (∀ g ∈ pre, NotTok c [kw, .Assign] g) ∧ (∀ g ∈ post, NotTok c [kw, .Assign] g) ∧
    ∃ ia wa, c.kind ia = .Assign ∧ cs = .token ik wk :: (pre ++ .token ia wa :: post)

theorem tokKind_of_notTok (ks : List Kind) (g : Green) (h : NotTok c ks g) (k : Kind) (hk : k ∈ ks) : (tokKind c g == some k) = false := by
  cases g with
  | node _ _ => simp [tokKind]
  | token i w =>
    have := h i w rfl
    simp only [tokKind, beq_eq_false_iff_ne, ne_eq, Option.some.injEq]
    intro he; rw [he] at this; exact this hk

theorem letShape_ok (kw : Kind) (hkw : kw ≠ .Assign) (cs : List Green) (h : LetShape c kw cs) :
    allOk (letStep c kw) (letOk c kw) {} (chL c cs) = true := by
  obtain ⟨ik, wk, pre, post, hk, hpre, hpost, ia, wa, ha, rfl⟩ := h
  have hkwa : (kw == Kind.Assign) = false := by simpa using hkw
  have hakw : (Kind.Assign == kw) = false := by simpa using fun h => hkw h.symm
  let I1 : LetSt → Prop := fun st => st.seenLet = true ∧ st.seenEq = false ∧ st.rhs = []
  let I2 : LetSt → Prop := fun st => st.seenEq = true
  have h0 : letOk c kw {} (.token ik wk, cstToDoc c (.token ik wk)) = true ∧
      I1 (letStep c kw {} (.token ik wk, cstToDoc c (.token ik wk))) := by
    refine ⟨by simp [letOk, tokKind, hk], ?_, ?_, ?_⟩ <;> simp [letStep, tokKind, hk]
  have h1 := allOk_inv c (letStep c kw) (letOk c kw) I1 (NotTok c [kw, .Assign]) (by
    intro st g hi hg
    have e1 := tokKind_of_notTok c _ g hg kw (by simp)
    have e2 := tokKind_of_notTok c _ g hg .Assign (by simp)
    obtain ⟨i1, i2, i3⟩ := hi
    refine ⟨by simp [letOk, e1, e2, i1, i2, i3], ?_, ?_, ?_⟩ <;> simp [letStep, e1, e2, i1, i2, i3]) pre _ h0.2 hpre
  have h2 : ∀ st, I1 st → letOk c kw st (.token ia wa, cstToDoc c (.token ia wa)) = true ∧
      I2 (letStep c kw st (.token ia wa, cstToDoc c (.token ia wa))) := by
    intro st ⟨i1, i2, i3⟩
    refine ⟨by simp [letOk, tokKind, ha, i3], ?_⟩
    simp [I2, letStep, tokKind, ha, hakw]
  have h3 := fun st hi => allOk_inv c (letStep c kw) (letOk c kw) I2 (NotTok c [kw, .Assign]) (by
    intro st g hi hg
    have e1 := tokKind_of_notTok c _ g hg kw (by simp)
    have e2 := tokKind_of_notTok c _ g hg .Assign (by simp)
    have hi' : st.seenEq = true := hi
    refine ⟨by simp [letOk, e1, e2, hi'], ?_⟩
    simp [I2, letStep, e1, e2, hi']) post st hi hpost
  obtain ⟨a1, a2⟩ := h1
  obtain ⟨b1, b2⟩ := h2 _ a2
  obtain ⟨c1, _⟩ := h3 _ b2
  simp only [chL, chL_append, allOk, allOk_append, List.foldl_cons, List.foldl_append, h0.1, a1, b1, Bool.true_and]
  exact c1

/-! ## `print_if_expr` -/

/-- `if` cond then [`else` …]: one child each for the condition and the then-branch -/
def IfShape (cs : List Green) : Prop :=
  ∃ ii wi n1 n2 rest, c.kind ii = .If ∧ IsNode n1 ∧ IsNode n2 ∧ cs = .token ii wi :: n1 :: n2 :: rest ∧
    (rest = [] ∨ ∃ ie we els, c.kind ie = .Else ∧ rest = .token ie we :: els)

theorem ifShape_ok (cs : List Green) (h : IfShape c cs) : allOk (ifStep c) (ifOk c) {} (chL c cs) = true := by
  obtain ⟨ii, wi, n1, n2, rest, hi, ⟨k1, a1, rfl⟩, ⟨k2, a2, rfl⟩, rfl, hrest⟩ := h
  have hei : (Kind.If == Kind.Else) = false := by decide
  have hie : (Kind.Else == Kind.If) = false := by decide
  rcases hrest with rfl | ⟨ie, we, els, he, rfl⟩
  · simp [chL, allOk, ifOk, ifStep, tokKind, hi, hei]
  · have htail : ∀ (w : List Green) (st : IfSt), st.seenElse = true → allOk (ifStep c) (ifOk c) st (chL c w) = true := by
      intro w
      induction w with
      | nil => intro st _; rfl
      | cons g gs ih =>
        intro st hs
        simp only [chL, allOk, Bool.and_eq_true]
        refine ⟨by simp [ifOk, hs], ih _ ?_⟩
        simp only [ifStep]
        repeat' split
        all_goals simp [hs]
    simp only [chL, allOk, Bool.and_eq_true]
    refine ⟨by simp [ifOk, tokKind, hi], by simp [ifOk, ifStep, tokKind, hi, hei], by simp [ifOk, ifStep, tokKind, hi, hei],
      by simp [ifOk, tokKind, he], htail _ _ ?_⟩
    simp [ifStep, tokKind, hi, he, hei, hie]

/-! ## `print_binary_expr` -/

theorem binShape_ok (x r : Green) (i w : Nat) (hx : IsNode x) (hr : IsNode r) :
    allOk (binStep c) (binOk c) {} (chL c [x, .token i w, r]) = true := by
  obtain ⟨k1, a1, rfl⟩ := hx
  obtain ⟨k2, a2, rfl⟩ := hr
  simp only [chL, allOk, Bool.and_true, Bool.and_eq_true]
  refine ⟨by simp [binOk, tokKind, emp_nil], ?_, ?_⟩
  · simp only [binOk, binStep, tokKind]
    split <;> simp [emp_nil]
  · simp only [binOk, binStep, tokKind]
    split <;> simp [emp_nil]

/-! ## `print_use_stmt`, `print_qualified_path`, `print_use_target_wildcard`, `print_visibility_pub` -/

theorem useShape_ok (i w : Nat) (rest : List Green) (h : c.kind i = .Use) :
    allOk (useStep c) useOk (nil, false) (chL c (.token i w :: rest)) = true := by
  have htail : ∀ (w : List Green) (st : SDoc × Bool), st.2 = true → allOk (useStep c) useOk st (chL c w) = true := by
    intro w
    induction w with
    | nil => intro st _; rfl
    | cons g gs ih =>
      intro st hs
      simp only [chL, allOk, Bool.and_eq_true]
      refine ⟨by simp [useOk, hs], ih _ ?_⟩
      simp only [useStep]
      repeat' split
      all_goals simp [hs]
  simp only [chL, allOk, Bool.and_eq_true]
  refine ⟨by simp [useOk, isNodeOf, nodeKind], htail _ _ ?_⟩
  simp [useStep, tokKind, h]

/-- a child of a `QualifiedPath`: a node, or an `Ident` / `::` token -/
def QPChild (g : Green) : Prop := IsNode g ∨ IsTok c .Ident g ∨ IsTok c .DoubleColon g

theorem qpShape_ok (cs : List Green) (h : ∀ g ∈ cs, QPChild c g) :
    ((chL c cs).all fun ch => match tokKind c ch.1 with | some k => isIdentLike k || k == .DoubleColon | none => true) = true := by
  induction cs with
  | nil => rfl
  | cons g gs ih =>
    simp only [chL, List.all_cons, Bool.and_eq_true]
    refine ⟨?_, ih (fun x hx => h x (by simp [hx]))⟩
    rcases h g (by simp) with ⟨k, a, rfl⟩ | ⟨i, w, rfl, hk⟩ | ⟨i, w, rfl, hk⟩
    · simp [tokKind]
    · simp [tokKind, hk, isIdentLike]
    · simp [tokKind, hk]

/-! ## `print_use_target_multiple` -/

/-- `(, Ident)*` -/
inductive UMTail : List Green → Prop
  | nil : UMTail []
  | cons (ic wc ii wi : Nat) (t : List Green) : c.kind ic = .Comma → c.kind ii = .Ident → UMTail t →
      UMTail (.token ic wc :: .token ii wi :: t)

def UMShape (cs : List Green) : Prop :=
  ∃ io wo ic wc body, c.kind io = .BlockBegin ∧ c.kind ic = .BlockEnd ∧ cs = .token io wo :: (body ++ [.token ic wc]) ∧
    (body = [] ∨ ∃ ii wi t, c.kind ii = .Ident ∧ UMTail c t ∧ body = .token ii wi :: t)

structure UInv (st : UseSt) : Prop where
  fo : st.foundOpen = true
  cl : st.closeDoc = nil
  len : st.seps.length + 1 = st.items.length

theorem um_tail (t : List Green) (ht : UMTail c t) : ∀ st, UInv st →
    allOk (useMultiStep c) (useMultiOk c) st (chL c t) = true ∧ UInv ((chL c t).foldl (useMultiStep c) st) := by
  induction ht with
  | nil => intro st h; exact ⟨rfl, h⟩
  | cons ic wc ii wi t hc hi _ ih =>
    intro st h
    have hne1 : (Kind.Comma == Kind.BlockBegin) = false := by decide
    have hne2 : (Kind.Comma == Kind.BlockEnd) = false := by decide
    have hne3 : (Kind.Ident == Kind.BlockBegin) = false := by decide
    have hne4 : (Kind.Ident == Kind.BlockEnd) = false := by decide
    have hne5 : (Kind.Ident == Kind.Comma) = false := by decide
    have hpush : pushCommaComments c st.seps st.items.length ic = st.seps ++ [emitTokenComments c ic] :=
      pushCommaComments_eq c st.seps _ ic h.len
    have hst : UInv (useMultiStep c (useMultiStep c st (.token ic wc, cstToDoc c (.token ic wc)))
        (.token ii wi, cstToDoc c (.token ii wi))) := by
      refine ⟨?_, ?_, ?_⟩ <;> simp [useMultiStep, hc, hi, hne1, hne2, hne3, hne4, hne5, hpush, h.fo, h.cl, h.len]
    obtain ⟨i1, i2⟩ := ih _ hst
    simp only [chL, allOk, List.foldl_cons, Bool.and_eq_true]
    refine ⟨⟨by simp [useMultiOk, hc, hne1, hne2, h.len, h.cl, emp_nil], ?_, i1⟩, i2⟩
    simp [useMultiOk, useMultiStep, hc, hi, hne1, hne2, hne3, hne4, hne5, hpush, h.fo, h.cl, h.len, emp_nil]

theorem umShape_ok (cs : List Green) (h : UMShape c cs) :
    allOk (useMultiStep c) (useMultiOk c) {} (chL c cs) = true := by
  obtain ⟨io, wo, ic, wc, body, ho, hc, rfl, hb⟩ := h
  have hne0 : (Kind.BlockEnd == Kind.BlockBegin) = false := by decide
  have hne3 : (Kind.Ident == Kind.BlockBegin) = false := by decide
  have hne4 : (Kind.Ident == Kind.BlockEnd) = false := by decide
  have hne5 : (Kind.Ident == Kind.Comma) = false := by decide
  rcases hb with rfl | ⟨ii, wi, t, hi, ht, rfl⟩
  · simp [chL, allOk, useMultiOk, useMultiStep, ho, hc, hne0, emp_nil]
  · have hst : UInv (useMultiStep c (useMultiStep c {} (.token io wo, cstToDoc c (.token io wo)))
        (.token ii wi, cstToDoc c (.token ii wi))) := by
      refine ⟨?_, ?_, ?_⟩ <;> simp [useMultiStep, ho, hi, hne3, hne4, hne5]
    obtain ⟨i1, i2⟩ := um_tail c t ht _ hst
    simp only [chL, List.cons_append, chL_append, allOk, allOk_append, List.foldl_cons, List.foldl_append, Bool.and_eq_true]
    refine ⟨by simp [useMultiOk, ho, emp_nil], by simp [useMultiOk, useMultiStep, ho, hi, hne3, hne4, hne5, emp_nil], i1, ?_, trivial⟩
    generalize (chL c t).foldl (useMultiStep c) _ = st at i2
    simp [useMultiOk, hc, hne0, i2.cl, emp_nil]

end Mimium.CstPrint
