import Mimium.Model.Publish
/-!
The layout `pubE` computes for an expression is one its evaluation `Visits` (structural recursion over the 18 constructs),
given that the table entries are layouts the callee bodies visit; the table `table P n` has that property at every depth.
-/
namespace Mimium.Publish
open Mimium.Core Mimium.StateTree Mimium.FlatTree

/-! ### inversion of `pubE` -/

theorem pub2_inv {x y : Option (List LCell)} {seg : List LCell}
    (h : (match x, y with | some s1, some s2 => some (s1 ++ s2) | _, _ => none) = some seg) :
    ∃ s1 s2, x = some s1 ∧ y = some s2 ∧ seg = s1 ++ s2 := by
  cases x <;> cases y <;> simp_all

theorem pubE_bin_inv {tbl op a b seg} (h : pubE tbl (.bin op a b) = some seg) :
    ∃ s1 s2, pubE tbl a = some s1 ∧ pubE tbl b = some s2 ∧ seg = s1 ++ s2 := by
  rw [pubE] at h; exact pub2_inv h

theorem pubE_letE_inv {tbl x a b seg} (h : pubE tbl (.letE x a b) = some seg) :
    ∃ s1 s2, pubE tbl a = some s1 ∧ pubE tbl b = some s2 ∧ seg = s1 ++ s2 := by
  rw [pubE] at h; exact pub2_inv h

theorem pubE_letTup_inv {tbl xs a b seg} (h : pubE tbl (.letTup xs a b) = some seg) :
    ∃ s1 s2, pubE tbl a = some s1 ∧ pubE tbl b = some s2 ∧ seg = s1 ++ s2 := by
  rw [pubE] at h; exact pub2_inv h

theorem pubE_assign_inv {tbl x a b seg} (h : pubE tbl (.assign x a b) = some seg) :
    ∃ s1 s2, pubE tbl a = some s1 ∧ pubE tbl b = some s2 ∧ seg = s1 ++ s2 := by
  rw [pubE] at h; exact pub2_inv h

theorem pubE_app_inv {tbl f args seg} (h : pubE tbl (.app f args) = some seg) :
    ∃ s1 s2, pubE tbl f = some s1 ∧ pubL tbl args = some s2 ∧ seg = s1 ++ s2 := by
  rw [pubE] at h; exact pub2_inv h

theorem pubL_cons_inv {tbl e es seg} (h : pubL tbl (e :: es) = some seg) :
    ∃ s1 s2, pubE tbl e = some s1 ∧ pubL tbl es = some s2 ∧ seg = s1 ++ s2 := by
  rw [pubL] at h; exact pub2_inv h

theorem pubE_ite_inv {tbl c a b seg} (h : pubE tbl (.ite c a b) = some seg) :
    ∃ sc sa sb, pubE tbl c = some sc ∧ pubE tbl a = some sa ∧ pubE tbl b = some sb ∧
      seg = sc ++ (sa ++ sb) := by
  rw [pubE] at h
  cases hc : pubE tbl c <;> cases ha : pubE tbl a <;> cases hb : pubE tbl b <;> simp_all

theorem pubE_mem_inv {tbl a site seg} (h : pubE tbl (.mem a site) = some seg) :
    ∃ s, pubE tbl a = some s ∧ seg = s ++ [.mem site] := by
  rw [pubE] at h
  cases ha : pubE tbl a <;> simp_all

theorem pubE_delay_inv {tbl n a t site seg} (h : pubE tbl (.delay n a t site) = some seg) :
    ∃ s1 s2, pubE tbl a = some s1 ∧ pubE tbl t = some s2 ∧ seg = s1 ++ s2 ++ [.delay site n] := by
  rw [pubE] at h
  cases ha : pubE tbl a <;> cases ht : pubE tbl t <;> simp_all

theorem pubE_call_inv {tbl f args site seg} (h : pubE tbl (.call f args site) = some seg) :
    ∃ s lay, pubL tbl args = some s ∧ tbl f = some lay ∧ seg = s ++ [.child site lay.self lay.cells] := by
  rw [pubE] at h
  cases ha : pubL tbl args <;> cases hf : tbl f <;> simp_all

theorem some_nil_of_match {x : Option (List LCell)} (h : isNil x = true) : x = some [] := by
  cases x with
  | none => simp [isNil] at h
  | some l => cases l <;> simp_all [isNil]

/-! ### the published cells are visited -/

/-- what the table must satisfy: an entry marked `ok` is a layout the callee's body visits -/
def TableVisits (P : Prog) (tbl : Table) (ok : String → Bool) : Prop :=
  ∀ f lay, tbl f = some lay → ok f = true → ∀ d, findFn P.fns f = some d → d.selfShape = lay.self ∧ Visits P d.body lay.cells

mutual
theorem pubE_visits (P : Prog) (tbl : Table) (ok : String → Bool) (ht : TableVisits P tbl ok) :
    ∀ (e : Expr) (seg : List LCell), armsOkE tbl ok e = true → pubE tbl e = some seg → Visits P e seg
  | .lit _, seg, _, h => by rw [pubE] at h; cases h; exact .lit
  | .var _, seg, _, h => by rw [pubE] at h; cases h; exact .var
  | .now, seg, _, h => by rw [pubE] at h; cases h; exact .now
  | .samplerate, seg, _, h => by rw [pubE] at h; cases h; exact .samplerate
  | .self, seg, _, h => by rw [pubE] at h; cases h; exact .self
  | .lam _ _, seg, _, h => by rw [pubE] at h; cases h; exact .lam
  | .un _ a, seg, ha, h => by
    rw [pubE] at h; rw [armsOkE] at ha
    exact .un (pubE_visits P tbl ok ht a seg ha h)
  | .proj a _, seg, ha, h => by
    rw [pubE] at h; rw [armsOkE] at ha
    exact .proj (pubE_visits P tbl ok ht a seg ha h)
  | .bin _ a b, seg, ha, h => by
    obtain ⟨s1, s2, h1, h2, rfl⟩ := pubE_bin_inv h
    rw [armsOkE, Bool.and_eq_true] at ha
    exact .bin (pubE_visits P tbl ok ht a s1 ha.1 h1) (pubE_visits P tbl ok ht b s2 ha.2 h2)
  | .letE _ a b, seg, ha, h => by
    obtain ⟨s1, s2, h1, h2, rfl⟩ := pubE_letE_inv h
    rw [armsOkE, Bool.and_eq_true] at ha
    exact .letE (pubE_visits P tbl ok ht a s1 ha.1 h1) (pubE_visits P tbl ok ht b s2 ha.2 h2)
  | .letTup _ a b, seg, ha, h => by
    obtain ⟨s1, s2, h1, h2, rfl⟩ := pubE_letTup_inv h
    rw [armsOkE, Bool.and_eq_true] at ha
    exact .letTup (pubE_visits P tbl ok ht a s1 ha.1 h1) (pubE_visits P tbl ok ht b s2 ha.2 h2)
  | .assign _ a b, seg, ha, h => by
    obtain ⟨s1, s2, h1, h2, rfl⟩ := pubE_assign_inv h
    rw [armsOkE, Bool.and_eq_true] at ha
    exact .assign (pubE_visits P tbl ok ht a s1 ha.1 h1) (pubE_visits P tbl ok ht b s2 ha.2 h2)
  | .ite c a b, seg, ha, h => by
    obtain ⟨sc, sa, sb, hc, h1, h2, rfl⟩ := pubE_ite_inv h
    rw [armsOkE] at ha
    simp only [Bool.and_eq_true] at ha
    obtain ⟨⟨⟨⟨oc, oa⟩, ob⟩, ea⟩, eb⟩ := ha
    have ea := some_nil_of_match ea
    have eb := some_nil_of_match eb
    rw [h1] at ea; rw [h2] at eb
    cases ea; cases eb
    simp only [List.append_nil]
    exact .ite (pubE_visits P tbl ok ht c sc oc hc) (pubE_visits P tbl ok ht a [] oa h1)
      (pubE_visits P tbl ok ht b [] ob h2)
  | .tup es, seg, ha, h => by
    rw [pubE] at h; rw [armsOkE] at ha
    exact .tup (pubL_visits P tbl ok ht es seg ha h)
  | .app f args, seg, ha, h => by
    obtain ⟨s1, s2, h1, h2, rfl⟩ := pubE_app_inv h
    rw [armsOkE, Bool.and_eq_true] at ha
    exact .app (pubE_visits P tbl ok ht f s1 ha.1 h1) (pubL_visits P tbl ok ht args s2 ha.2 h2)
  | .mem a site, seg, ha, h => by
    obtain ⟨s, h1, rfl⟩ := pubE_mem_inv h
    rw [armsOkE] at ha
    exact .mem (pubE_visits P tbl ok ht a s ha h1)
  | .delay n a t site, seg, ha, h => by
    obtain ⟨s1, s2, h1, h2, rfl⟩ := pubE_delay_inv h
    rw [armsOkE, Bool.and_eq_true] at ha
    exact .delay (pubE_visits P tbl ok ht a s1 ha.1 h1) (pubE_visits P tbl ok ht t s2 ha.2 h2)
  | .call f args site, seg, ha, h => by
    obtain ⟨s, lay, h1, hf, rfl⟩ := pubE_call_inv h
    rw [armsOkE, Bool.and_eq_true] at ha
    exact .call (pubL_visits P tbl ok ht args s ha.1 h1) (fun d hd => (ht f lay hf ha.2 d hd).1)
      (fun d hd => (ht f lay hf ha.2 d hd).2)
theorem pubL_visits (P : Prog) (tbl : Table) (ok : String → Bool) (ht : TableVisits P tbl ok) :
    ∀ (es : List Expr) (seg : List LCell), armsOkL tbl ok es = true → pubL tbl es = some seg → VisitsL P es seg
  | [], seg, _, h => by rw [pubL] at h; cases h; exact .nil
  | e :: es, seg, ha, h => by
    obtain ⟨s1, s2, h1, h2, rfl⟩ := pubL_cons_inv h
    rw [armsOkL, Bool.and_eq_true] at ha
    exact .cons (pubE_visits P tbl ok ht e s1 ha.1 h1) (pubL_visits P tbl ok ht es s2 ha.2 h2)
end

/-- the function table has the property at every depth -/
theorem table_visits (P : Prog) : ∀ n, TableVisits P (table P n) (okTable P n)
  | 0 => by intro f lay h; simp [table] at h
  | n + 1 => by
    intro f lay h hok d hd
    simp only [table, hd] at h
    simp only [okTable, hd] at hok
    cases hb : pubE (table P n) d.body with
    | none => simp [hb] at h
    | some cells =>
      simp only [hb, Option.some.injEq] at h
      subst h
      exact ⟨rfl, pubE_visits P _ _ (table_visits P n) d.body cells hok hb⟩

theorem publishEN_visits (n : Nat) (P : Prog) (e : Expr) (seg : List LCell)
    (ha : noStateInArmsN n P e = true) (h : publishEN n P e = some seg) : Visits P e seg :=
  pubE_visits P _ _ (table_visits P n) e seg ha h

theorem publishFnN_inv {n : Nat} {P : Prog} {d : FnDecl} {lay : LNode} (h : publishFnN n P d = some lay) :
    lay.self = d.selfShape ∧ publishEN n P d.body = some lay.cells := by
  unfold publishFnN at h
  cases hb : publishEN n P d.body with
  | none => simp [hb] at h
  | some cells => simp only [hb, Option.some.injEq] at h; subst h; exact ⟨rfl, rfl⟩

/-! ### what is visited is covered -/

/-- `Visits` implies `Covers` for any list of cells containing the visited ones (by the recursor of the mutual predicate) -/
theorem visits_covers (P : Prog) {e : Expr} {seg : List LCell} (h : Visits P e seg) :
    ∀ cells : List LCell, (∀ c ∈ seg, c ∈ cells) → Covers P cells e := by
  refine Visits.rec (P := P)
    (motive_1 := fun e seg _ => ∀ cells : List LCell, (∀ c ∈ seg, c ∈ cells) → Covers P cells e)
    (motive_2 := fun es seg _ => ∀ cells : List LCell, (∀ c ∈ seg, c ∈ cells) → ∀ e ∈ es, Covers P cells e)
    ?_ ?_ ?_ ?_ ?_ ?_ ?_ ?_ ?_ ?_ ?_ ?_ ?_ ?_ ?_ ?_ ?_ ?_ ?_ ?_ h
  · intro _ _ _; exact .lit
  · intro _ _ _; exact .var
  · intro _ _; exact .now
  · intro _ _; exact .samplerate
  · intro _ _; exact .self
  · intro _ _ _ _; exact .lam
  · intro _ _ _ _ ih cells hs; exact .un (ih cells hs)
  · intro _ _ _ _ _ _ _ iha ihb cells hs
    exact .bin (iha cells (fun c hc => hs c (List.mem_append_left _ hc)))
      (ihb cells (fun c hc => hs c (List.mem_append_right _ hc)))
  · intro _ _ _ _ _ _ _ ihc iha ihb cells hs
    exact .ite (ihc cells hs) (iha cells (by simp)) (ihb cells (by simp))
  · intro _ _ _ _ _ _ _ iha ihb cells hs
    exact .letE (iha cells (fun c hc => hs c (List.mem_append_left _ hc)))
      (ihb cells (fun c hc => hs c (List.mem_append_right _ hc)))
  · intro _ _ _ _ _ _ _ iha ihb cells hs
    exact .letTup (iha cells (fun c hc => hs c (List.mem_append_left _ hc)))
      (ihb cells (fun c hc => hs c (List.mem_append_right _ hc)))
  · intro _ _ _ _ _ _ _ iha ihb cells hs
    exact .assign (iha cells (fun c hc => hs c (List.mem_append_left _ hc)))
      (ihb cells (fun c hc => hs c (List.mem_append_right _ hc)))
  · intro _ _ _ _ ih cells hs; exact .proj (ih cells hs)
  · intro _ _ _ ih cells hs; exact .tup (ih cells hs)
  · intro _ _ _ _ _ _ ihf ihargs cells hs
    exact .app (ihf cells (fun c hc => hs c (List.mem_append_left _ hc)))
      (ihargs cells (fun c hc => hs c (List.mem_append_right _ hc)))
  · intro _ _ _ _ ih cells hs
    exact .mem (ih cells (fun c hc => hs c (List.mem_append_left _ hc))) (hs _ (List.mem_append_right _ (by simp)))
  · intro _ _ _ _ _ _ _ _ iha iht cells hs
    exact .delay (iha cells (fun c hc => hs c (List.mem_append_left _ (List.mem_append_left _ hc))))
      (iht cells (fun c hc => hs c (List.mem_append_left _ (List.mem_append_right _ hc))))
      (hs _ (List.mem_append_right _ (by simp)))
  · intro _ _ _ _ cells' _ _ hself _ ihargs ihbody cells hs
    exact .call (ihargs cells (fun c hc => hs c (List.mem_append_left _ hc)))
      (hs _ (List.mem_append_right _ (by simp))) hself
      (fun d hd => ihbody d hd cells' (fun _ hc => hc))
  · intro cells _ e hm; simp at hm
  · intro _ _ _ _ _ _ ihe ihes cells hs e hm
    simp only [List.mem_cons] at hm
    rcases hm with rfl | hm
    · exact ihe cells (fun c hc => hs c (List.mem_append_left _ hc))
    · exact ihes cells (fun c hc => hs c (List.mem_append_right _ hc)) e hm


/-- a named call always visits its child cell -/
theorem visits_call_ne_nil {P : Prog} {f : String} {args : List Expr} {site : Nat}
    (h : Visits P (.call f args site) []) : False := by
  generalize hs : ([] : List LCell) = s at h
  cases h with
  | call ha _ _ => simp at hs

end Mimium.Publish
