import Mimium.Model.SchedMem
import Mimium.Proofs.Sched
/-!
# The WASM model with closure memory: the class of programs on which it is still an ideal scheduler (C11, F17)

`Env.SlotConsistent env slot`: the `j`-th `schedule_at` call of every body (task or dsp) names the same function
`slot j`. Then every record `base + j` only ever holds `slot j`, overwriting is harmless, and `M.run` satisfies `Ideal`
for every heap implementation meeting `HeapSpec` (in particular the oracle heap, for every oracle). This is the class
all shipped scheduler fixtures fall in (one self-rescheduling closure per body), which is why they pass on WASM.
-/
namespace Mimium.Sched

/-! ## memory -/

theorem memGet_memSet_same (m : Mem) (a v : Nat) : memGet (memSet m a v) a = v := by
  simp [memGet, memSet]

theorem memGet_memSet_other (m : Mem) (a v b : Nat) (h : b ≠ a) : memGet (memSet m a v) b = memGet m b := by
  have h1 : (a == b) = false := by simp; omega
  simp only [memGet, memSet, List.find?_cons, h1, List.find?_filter]
  have : (fun (p : Nat × Nat) => decide ((p.1 != a) = true ∧ (p.1 == b) = true)) = (fun p => p.1 == b) := by
    funext p
    by_cases hp : p.1 = b
    · simp [hp, h]
    · simp [hp]
  rw [this]

/-- what a task in the heap denotes: the function stored at its address -/
def res (m : Mem) (x : Task) : Task := ⟨x.when, memGet m x.id⟩

theorem allocReqs_below : ∀ (rq : List Task) (a : Nat) (m : Mem) (c : Nat), c < a →
    memGet (allocReqs a rq m).2 c = memGet m c
  | [], _, _, _, _ => rfl
  | x :: xs, a, m, c, h => by
    simp only [allocReqs]
    rw [allocReqs_below xs (a + 1) _ c (by omega), memGet_memSet_other _ _ _ _ (by omega)]

theorem allocReqs_above : ∀ (rq : List Task) (a : Nat) (m : Mem) (c : Nat), a + rq.length ≤ c →
    memGet (allocReqs a rq m).2 c = memGet m c
  | [], _, _, _, _ => rfl
  | x :: xs, a, m, c, h => by
    simp only [allocReqs]
    simp only [List.length_cons] at h
    rw [allocReqs_above xs (a + 1) _ c (by omega), memGet_memSet_other _ _ _ _ (by omega)]

theorem allocReqs_at : ∀ (rq : List Task) (a : Nat) (m : Mem) (j : Nat) (hj : j < rq.length),
    memGet (allocReqs a rq m).2 (a + j) = rq[j].id
  | [], _, _, j, hj => by simp at hj
  | x :: xs, a, m, j, hj => by
    simp only [allocReqs]
    cases j with
    | zero =>
      rw [allocReqs_below xs (a + 1) _ (a + 0) (by omega)]
      simp [memGet_memSet_same]
    | succ j =>
      have := allocReqs_at xs (a + 1) (memSet m a x.id) j (by simpa using hj)
      rw [show a + (j + 1) = a + 1 + j by omega]
      simpa using this

theorem allocReqs_length : ∀ (rq : List Task) (a : Nat) (m : Mem), (allocReqs a rq m).1.length = rq.length
  | [], _, _ => rfl
  | x :: xs, a, m => by simp [allocReqs, allocReqs_length xs]

theorem allocReqs_get : ∀ (rq : List Task) (a : Nat) (m : Mem) (j : Nat) (hj : j < (allocReqs a rq m).1.length),
    (allocReqs a rq m).1[j] = ⟨(rq[j]'(by rw [allocReqs_length] at hj; exact hj)).when, a + j⟩
  | [], _, _, j, hj => by simp [allocReqs] at hj
  | x :: xs, a, m, j, hj => by
    cases j with
    | zero => simp [allocReqs]
    | succ j =>
      have := allocReqs_get xs (a + 1) (memSet m a x.id) j (by simpa [allocReqs] using hj)
      simp only [allocReqs, List.getElem_cons_succ]
      rw [this]
      simp; omega

/-- The new tasks denote exactly the calls that were made (right after the body returns). -/
theorem allocReqs_res (rq : List Task) (a : Nat) (m : Mem) :
    (allocReqs a rq m).1.map (res (allocReqs a rq m).2) = rq := by
  apply List.ext_getElem
  · simp [allocReqs_length]
  · intro j h1 h2
    simp only [List.getElem_map, allocReqs_get, res]
    rw [allocReqs_at rq a m j h2]

theorem allocReqs_mem_range {rq : List Task} {a : Nat} {m : Mem} {t : Task} (ht : t ∈ (allocReqs a rq m).1) :
    ∃ j, ∃ hj : j < rq.length, t = ⟨rq[j].when, a + j⟩ := by
  obtain ⟨j, hj, rfl⟩ := List.mem_iff_getElem.1 ht
  exact ⟨j, by rw [allocReqs_length] at hj; exact hj, allocReqs_get rq a m j hj⟩

/-! ## slot consistency -/

structure Env.SlotConsistent {σ : Type} (env : Env σ) (slot : Nat → Nat) : Prop where
  task : ∀ id now s (j : Nat) (hj : j < (env.task id now s).2.length), ((env.task id now s).2[j]).id = slot j
  dsp : ∀ now s (j : Nat) (hj : j < (env.dsp now s).2.length), ((env.dsp now s).2[j]).id = slot j

/-- a record in the per-sample region `G ..` holds the function of its slot -/
def Good (G : Nat) (slot : Nat → Nat) (m : Mem) (x : Task) : Prop := G ≤ x.id → memGet m x.id = slot (x.id - G)

/-- `m'` differs from `m` only by slot-respecting writes in the per-sample region -/
def MemExt (G : Nat) (slot : Nat → Nat) (m m' : Mem) : Prop :=
  ∀ a, (a < G → memGet m' a = memGet m a) ∧ (G ≤ a → memGet m' a = memGet m a ∨ memGet m' a = slot (a - G))

theorem MemExt.refl (G : Nat) (slot : Nat → Nat) (m : Mem) : MemExt G slot m m :=
  fun _ => ⟨fun _ => rfl, fun _ => Or.inl rfl⟩

theorem MemExt.good {G : Nat} {slot : Nat → Nat} {m m' : Mem} (e : MemExt G slot m m') {x : Task}
    (g : Good G slot m x) : Good G slot m' x ∧ res m' x = res m x := by
  by_cases h : G ≤ x.id
  · have gm := g h
    rcases (e x.id).2 h with h1 | h1
    · exact ⟨fun _ => by rw [h1, gm], by simp [res, h1]⟩
    · exact ⟨fun _ => h1, by simp [res, h1, gm]⟩
  · have h1 := (e x.id).1 (by omega)
    exact ⟨fun h' => absurd h' h, by simp [res, h1]⟩

theorem MemExt.trans {G : Nat} {slot : Nat → Nat} {m1 m2 m3 : Mem} (a : MemExt G slot m1 m2) (b : MemExt G slot m2 m3) :
    MemExt G slot m1 m3 := by
  intro c
  refine ⟨fun h => by rw [(b c).1 h, (a c).1 h], fun h => ?_⟩
  rcases (b c).2 h with h1 | h1
  · rcases (a c).2 h with h2 | h2
    · exact Or.inl (by rw [h1, h2])
    · exact Or.inr (by rw [h1, h2])
  · exact Or.inr h1

theorem allocReqs_ext {G : Nat} {slot : Nat → Nat} (rq : List Task) (m : Mem)
    (hs : ∀ (j : Nat) (hj : j < rq.length), rq[j].id = slot j) :
    MemExt G slot m (allocReqs G rq m).2 ∧ ∀ t ∈ (allocReqs G rq m).1, Good G slot (allocReqs G rq m).2 t := by
  constructor
  · intro c
    refine ⟨fun h => allocReqs_below rq G m c h, fun h => ?_⟩
    by_cases hc : c < G + rq.length
    · right
      have := allocReqs_at rq G m (c - G) (by omega)
      rw [show G + (c - G) = c by omega] at this
      rw [this, hs]
    · left
      exact allocReqs_above rq G m c (by omega)
  · intro t ht _
    obtain ⟨j, hj, rfl⟩ := allocReqs_mem_range ht
    simp only
    rw [allocReqs_at rq G m j hj, hs j hj]
    congr 1; omega

/-! ## heap implementations -/

/-- What the proofs need of a priority queue ordered by `when`: it is a multiset (`toList` up to permutation),
`popDue now` removes a minimal element when that one is due and otherwise reports that nothing is due. -/
structure HeapSpec {H : Type} (ops : HeapOps H) (toList : H → List Task) : Prop where
  empty : toList ops.empty = []
  push : ∀ x h, (toList (ops.push x h)).Perm (x :: toList h)
  popSome : ∀ now h x r, ops.popDue now h = some (x, r) → x.when ≤ now ∧ (toList h).Perm (x :: toList r)
  popNone : ∀ now h, ops.popDue now h = none → ∀ y ∈ toList h, now < y.when
  size : ∀ h, ops.size h = (toList h).length

theorem oracleHeap_spec (ch : Nat → Nat) : HeapSpec (oracleHeap ch) (fun h => h.1) where
  empty := rfl
  push := fun _ _ => List.Perm.refl _
  popSome := by
    intro now h x r e
    simp only [oracleHeap] at e
    split at e
    · rename_i y r' e'
      split at e
      · rename_i hdue
        simp only [Option.some.injEq, Prod.mk.injEq] at e
        obtain ⟨rfl, rfl⟩ := e
        exact ⟨hdue, popMin_perm e'⟩
      · cases e
    · cases e
  popNone := by
    intro now h e y hy
    simp only [oracleHeap] at e
    split at e
    · rename_i x r' e'
      split at e
      · cases e
      · rename_i hdue
        have := (popMin_some e').2.1 y hy
        omega
    · rename_i e'
      rw [popMin_none e'] at hy
      cases hy
  size := fun _ => rfl

/-- `HeapSpec` relative to a representation invariant `Inv` (established by `empty`, preserved by `push` and
`popDue`): what an implementation whose state space contains non-heaps — the array of the literal `BinaryHeap` port —
can meet. `HeapSpec` is the case `Inv = True`. -/
structure HeapSpecI {H : Type} (ops : HeapOps H) (toList : H → List Task) (Inv : H → Prop) : Prop where
  emptyInv : Inv ops.empty
  pushInv : ∀ x h, Inv h → Inv (ops.push x h)
  popInv : ∀ now h x r, Inv h → ops.popDue now h = some (x, r) → Inv r
  empty : toList ops.empty = []
  push : ∀ x h, Inv h → (toList (ops.push x h)).Perm (x :: toList h)
  popSome : ∀ now h x r, Inv h → ops.popDue now h = some (x, r) → x.when ≤ now ∧ (toList h).Perm (x :: toList r)
  popNone : ∀ now h, Inv h → ops.popDue now h = none → ∀ y ∈ toList h, now < y.when
  size : ∀ h, Inv h → ops.size h = (toList h).length

theorem HeapSpec.toI {H : Type} {ops : HeapOps H} {toList : H → List Task} (hs : HeapSpec ops toList) :
    HeapSpecI ops toList (fun _ => True) where
  emptyInv := trivial
  pushInv := fun _ _ _ => trivial
  popInv := fun _ _ _ _ _ _ => trivial
  empty := hs.empty
  push := fun x h _ => hs.push x h
  popSome := fun now h x r _ e => hs.popSome now h x r e
  popNone := fun now h _ e => hs.popNone now h e
  size := fun h _ => hs.size h

section generic
variable {H : Type} {ops : HeapOps H} {toList : H → List Task} {Inv : H → Prop} (hs : HeapSpecI ops toList Inv)
include hs

theorem pushAllH_spec (cur : Nat) : ∀ (xs : List Task) (h : H), Inv h → (∀ x ∈ xs, cur < x.when) →
    ∃ h', pushAllH ops cur xs h = some h' ∧ (toList h').Perm (toList h ++ xs) ∧ Inv h'
  | [], h, hi, _ => ⟨h, rfl, by simp, hi⟩
  | x :: xs, h, hi, hx => by
    have h1 : ¬ x.when ≤ cur := by have := hx x (by simp); omega
    obtain ⟨h', e, p, hi'⟩ := pushAllH_spec cur xs (ops.push x h) (hs.pushInv x h hi)
      (fun y hy => hx y (List.mem_cons_of_mem _ hy))
    refine ⟨h', by simp [pushAllH, h1, e], p.trans ?_, hi'⟩
    refine ((hs.push x h hi).append_right xs).trans ?_
    simp only [List.cons_append]
    exact (List.perm_middle).symm

theorem drainDueH_spec (now : Nat) : ∀ (n : Nat) (h : H), Inv h → (toList h).length ≤ n →
    (drainDueH ops now n h).1.Perm ((toList h).filter (fun x => decide (x.when ≤ now))) ∧
    (toList (drainDueH ops now n h).2).Perm ((toList h).filter (fun x => decide (now < x.when))) ∧
    Inv (drainDueH ops now n h).2 := by
  intro n
  induction n with
  | zero =>
    intro h hi hl
    have : toList h = [] := List.length_eq_zero_iff.1 (by omega)
    simp [drainDueH, this, hi]
  | succ n ih =>
    intro h hi hl
    unfold drainDueH
    split
    · rename_i e
      have hall := hs.popNone now h hi e
      have f1 : (toList h).filter (fun x => decide (x.when ≤ now)) = [] := by
        rw [List.filter_eq_nil_iff]; intro y hy; have := hall y hy; simp only [decide_eq_true_eq]; omega
      have f2 : (toList h).filter (fun x => decide (now < x.when)) = toList h := by
        rw [List.filter_eq_self]; intro y hy; have := hall y hy; simp only [decide_eq_true_eq]; omega
      simp [f1, f2, hi]
    · rename_i x r e
      obtain ⟨hdue, hperm⟩ := hs.popSome now h x r hi e
      have hlen : (toList r).length + 1 = (toList h).length := by
        have := hperm.length_eq; simp at this; omega
      obtain ⟨i1, i2, i3⟩ := ih r (hs.popInv now h x r hi e) (by omega)
      refine ⟨?_, ?_, i3⟩
      · have h1 := hperm.filter (fun x => decide (x.when ≤ now))
        have h2 : (x :: toList r).filter (fun x => decide (x.when ≤ now))
            = x :: (toList r).filter (fun x => decide (x.when ≤ now)) := by simp [hdue]
        rw [h2] at h1
        exact (List.Perm.cons x i1).trans h1.symm
      · have h1 := hperm.filter (fun x => decide (now < x.when))
        have h2 : (x :: toList r).filter (fun x => decide (now < x.when))
            = (toList r).filter (fun x => decide (now < x.when)) := by
          have : ¬ now < x.when := by omega
          simp [this]
        rw [h2] at h1
        exact i2.trans h1.symm

end generic

/-! ## the memory model on slot-consistent programs -/

theorem allocReqs_future {rq : List Task} {now : Nat} (hrq : ∀ x ∈ rq, now < x.when) (a : Nat) (m : Mem) :
    ∀ t ∈ (allocReqs a rq m).1, now < t.when := by
  intro t ht
  obtain ⟨j, hj, rfl⟩ := allocReqs_mem_range ht
  exact hrq rq[j] (List.getElem_mem hj)

theorem res_filter (m : Mem) (p : Nat → Bool) (l : List Task) :
    (l.filter (fun x => p x.when)).map (res m) = (l.map (res m)).filter (fun x => p x.when) := by
  rw [List.filter_map]
  rfl

section mem
variable {σ H : Type} {ops : HeapOps H} {toList : H → List Task} {Inv : H → Prop} (hs : HeapSpecI ops toList Inv)
  {env : Env σ} (hf : env.Future) {slot : Nat → Nat} (hc : env.SlotConsistent slot) (G : Nat)
include hs hf hc

theorem M.execAll_spec (now : Nat) : ∀ (xs : List Task) (h : H) (u : σ) (m : Mem),
    Inv h → (∀ x ∈ xs, Good G slot m x) → (∀ x ∈ toList h, Good G slot m x) →
    ∃ h' m', Inv h' ∧ M.execAll ops env now G xs h u m =
        some (h', (execSeq env now (xs.map (res m)) u).1, m', xs.map (res m),
              (execSeq env now (xs.map (res m)) u).2) ∧
      MemExt G slot m m' ∧
      ((toList h').map (res m')).Perm ((toList h).map (res m) ++ (execSeq env now (xs.map (res m)) u).2) ∧
      ∀ x ∈ toList h', Good G slot m' x
  | [], h, u, m, hi, _, gh => ⟨h, m, hi, by simp [M.execAll, execSeq], MemExt.refl _ _ _, by simp [execSeq], gh⟩
  | x :: xs, h, u, m, hi, gx, gh => by
    obtain ⟨ext, gnew⟩ := allocReqs_ext (G := G) (slot := slot) (env.task (memGet m x.id) now u).2 m (hc.task _ _ _)
    have hres := allocReqs_res (env.task (memGet m x.id) now u).2 G m
    have hfut := allocReqs_future (hf.task (memGet m x.id) now u) G m
    obtain ⟨h1, e1, p1, hi1⟩ := pushAllH_spec hs now _ h hi hfut
    have gxs : ∀ y ∈ xs, Good G slot (allocReqs G (env.task (memGet m x.id) now u).2 m).2 y :=
      fun y hy => (ext.good (gx y (List.mem_cons_of_mem _ hy))).1
    have gh1 : ∀ y ∈ toList h1, Good G slot (allocReqs G (env.task (memGet m x.id) now u).2 m).2 y := by
      intro y hy
      rcases List.mem_append.1 (p1.mem_iff.1 hy) with hy | hy
      · exact (ext.good (gh y hy)).1
      · exact gnew y hy
    obtain ⟨h', m', hi', e2, ext2, p2, g2⟩ := M.execAll_spec now xs h1 (env.task (memGet m x.id) now u).1 _ hi1 gxs gh1
    have hmap : xs.map (res (allocReqs G (env.task (memGet m x.id) now u).2 m).2) = xs.map (res m) :=
      List.map_congr_left (fun y hy => (ext.good (gx y (List.mem_cons_of_mem _ hy))).2)
    rw [hmap] at e2 p2
    refine ⟨h', m', hi', ?_, ext.trans ext2, ?_, g2⟩
    · simp only [M.execAll, e1, e2, List.map_cons, execSeq, res]
    · refine p2.trans ?_
      simp only [List.map_cons, execSeq, res]
      rw [← List.append_assoc]
      refine List.Perm.append_right _ ?_
      refine (p1.map _).trans ?_
      rw [List.map_append, hres]
      refine List.Perm.append_right _ ?_
      rw [List.map_congr_left (fun y hy => (ext.good (gh y hy)).2)]

/-- **Invariant of the WASM side with closure memory** at the start of sample `t` (slot-consistent programs):
what the pending tasks *denote* is exactly the issued-but-not-yet-due calls, and every pending record in the
per-sample region holds its slot's function. -/
structure MInv (toList : H → List Task) (Inv : H → Prop) (G : Nat) (slot : Nat → Nat) (t : Nat) (issued : List Task)
    (st : MSt σ H) : Prop where
  hinv : Inv st.heap
  cur : st.currentTime = t - 1
  ptr : st.allocPtr = G
  pending : ((toList st.heap).map (res st.mem)).Perm (issued.filter (fun x => decide (t ≤ x.when)))
  good : ∀ x ∈ toList st.heap, Good G slot st.mem x

theorem M.tick_step (t : Nat) (issued : List Task) (st : MSt σ H) (inv : MInv toList Inv G slot t issued st) :
    ∃ st' r, M.tick ops env t st = some (st', r) ∧ StepOk env t issued st.user r st'.user ∧
      MInv toList Inv G slot (t + 1) (issued ++ r.reqs) st' := by
  obtain ⟨d1, d2, d3⟩ := drainDueH_spec hs t (ops.size st.heap) st.heap inv.hinv
    (by rw [hs.size _ inv.hinv]; exact Nat.le_refl _)
  have etick : ∀ h' u m' ex rq, M.execAll ops env t st.allocPtr (drainDueH ops t (ops.size st.heap) st.heap).1
        (drainDueH ops t (ops.size st.heap) st.heap).2 st.user st.mem = some (h', u, m', ex, rq) →
      ∀ h'', pushAllH ops t (allocReqs st.allocPtr (env.dsp t u).2 m').1 h' = some h'' →
      M.tick ops env t st = some
        ({ st with currentTime := t, heap := h'', user := (env.dsp t u).1,
                   mem := (allocReqs st.allocPtr (env.dsp t u).2 m').2 },
         { execd := ex, reqs := rq ++ (env.dsp t u).2 }) := by
    intro h' u m' ex rq e h'' e2
    simp only [M.tick, e, e2]
  generalize drainDueH ops t (ops.size st.heap) st.heap = d at d1 d2 d3 etick
  rw [inv.ptr] at etick
  have gd1 : ∀ x ∈ d.1, Good G slot st.mem x :=
    fun x hx => inv.good x (List.mem_filter.1 (d1.mem_iff.1 hx)).1
  have gd2 : ∀ x ∈ toList d.2, Good G slot st.mem x :=
    fun x hx => inv.good x (List.mem_filter.1 (d2.mem_iff.1 hx)).1
  obtain ⟨h', m', hi', e, ext, hperm, gh'⟩ := M.execAll_spec hs hf hc G t d.1 d.2 st.user st.mem d3 gd1 gd2
  obtain ⟨ext2, gnew⟩ := allocReqs_ext (G := G) (slot := slot)
    (env.dsp t (execSeq env t (d.1.map (res st.mem)) st.user).1).2 m' (hc.dsp _ _)
  have hres := allocReqs_res (env.dsp t (execSeq env t (d.1.map (res st.mem)) st.user).1).2 G m'
  have hfut := allocReqs_future (hf.dsp t (execSeq env t (d.1.map (res st.mem)) st.user).1) G m'
  obtain ⟨h'', e2, p2, hi''⟩ := pushAllH_spec hs t _ h' hi' hfut
  have ok : StepOk env t issued st.user
      { execd := d.1.map (res st.mem),
        reqs := (execSeq env t (d.1.map (res st.mem)) st.user).2 ++
          (env.dsp t (execSeq env t (d.1.map (res st.mem)) st.user).1).2 }
      (env.dsp t (execSeq env t (d.1.map (res st.mem)) st.user).1).1 := by
    refine ⟨?_, rfl, rfl⟩
    refine (d1.map _).trans ?_
    rw [res_filter st.mem (fun w => decide (w ≤ t)), ← filter_ge_le]
    exact inv.pending.filter _
  have hfutr : ∀ x ∈ (execSeq env t (d.1.map (res st.mem)) st.user).2 ++
      (env.dsp t (execSeq env t (d.1.map (res st.mem)) st.user).1).2, t < x.when := ok.future hf
  refine ⟨_, _, etick _ _ _ _ _ e _ e2, ok, ?_⟩
  refine ⟨hi'', by simp, by simp, ?_, ?_⟩
  · simp only [List.filter_append]
    rw [← List.filter_append, filter_future_self hfutr]
    refine (p2.map _).trans ?_
    rw [List.map_append, hres, ← List.append_assoc]
    refine List.Perm.append_right _ ?_
    rw [List.map_congr_left (fun y hy => (ext2.good (gh' y hy)).2)]
    refine hperm.trans ?_
    refine List.Perm.append_right _ ?_
    refine (d2.map _).trans ?_
    rw [res_filter st.mem (fun w => decide (t < w)), ← filter_ge_lt]
    exact inv.pending.filter _
  · intro y hy
    rcases List.mem_append.1 (p2.mem_iff.1 hy) with hy | hy
    · exact (ext2.good (gh' y hy)).1
    · exact gnew y hy

theorem M.run_spec (n : Nat) (s0 : σ) :
    ∃ st', (M.run ops env n s0).final = some st' ∧ (M.run ops env n s0).ticks.length = n ∧
      (M.run ops env n s0).greqs = (env.global s0).2 ∧
      Ideal env 0 (env.global s0).2 (env.global s0).1 (M.run ops env n s0).ticks := by
  have hfut := allocReqs_future (hf.global s0) 0 []
  obtain ⟨h, e, p, hi⟩ := pushAllH_spec hs 0 _ ops.empty hs.emptyInv hfut
  have inv0 : MInv toList Inv (env.global s0).2.length slot 0 (env.global s0).2
      { currentTime := 0, heap := h, user := (env.global s0).1, mem := (allocReqs 0 (env.global s0).2 []).2,
        allocPtr := (env.global s0).2.length } := by
    refine ⟨hi, rfl, rfl, ?_, ?_⟩
    · have : (env.global s0).2.filter (fun x => decide (0 ≤ x.when)) = (env.global s0).2 := by
        rw [List.filter_eq_self]; intro x _; simp
      rw [this]
      refine (p.map _).trans ?_
      rw [hs.empty, List.nil_append, allocReqs_res]
    · intro x hx hge
      rw [hs.empty, List.nil_append] at p
      obtain ⟨j, hj, rfl⟩ := allocReqs_mem_range (p.mem_iff.1 hx)
      simp only at hge
      omega
  obtain ⟨st', e2, l2, idl, _⟩ := runFrom_spec (env := env) (tick := M.tick ops env) (user := fun st => st.user)
    (Inv := MInv toList Inv (env.global s0).2.length slot)
    (fun t issued st inv => M.tick_step hs hf hc _ t issued st inv) n 0 (env.global s0).2 _ inv0
  refine ⟨st', ?_, ?_, ?_, ?_⟩ <;> simp only [M.run, e] <;> assumption

end mem

end Mimium.Sched
