import Mimium.Model.MirLayout
/-! The block numbering of nested `if` / `match` gives properly nested arms, outer before inner. -/
namespace Mimium.RustGen

theorem nestedArms_append (A B : List Arm) :
    nestedArms (A ++ B) = true ↔
      nestedArms A = true ∧ nestedArms B = true ∧ ∀ a ∈ A, ∀ b ∈ B, (a.disjoint b || b.inside a) = true := by
  induction A with
  | nil => simp [nestedArms]
  | cons x xs ih =>
    simp only [List.cons_append, nestedArms, Bool.and_eq_true, List.all_append, List.all_eq_true, ih,
      List.mem_cons, forall_eq_or_imp]
    constructor
    · rintro ⟨⟨h1, h2⟩, h3, h4, h5⟩
      exact ⟨⟨h1, h3⟩, h4, h2, h5⟩
    · rintro ⟨⟨h1, h3⟩, h4, h2, h5⟩
      exact ⟨⟨h1, h2⟩, h3, h4, h5⟩

theorem insertU_lt (x : Nat) : ∀ (ys : List Nat), (∀ y ∈ ys, x < y) → insertU x ys = x :: ys
  | [], _ => rfl
  | y :: ys, h => by simp [insertU, h y (List.mem_cons_self ..)]

theorem sortU_sorted : ∀ (xs : List Nat), List.Pairwise (· < ·) xs → sortU xs = xs
  | [], _ => rfl
  | x :: xs, h => by
    have h' := List.pairwise_cons.mp h
    have e : sortU (x :: xs) = insertU x (sortU xs) := rfl
    rw [e, sortU_sorted xs h'.2]
    exact insertU_lt x xs h'.1

theorem switchArms_mem (m : Nat) : ∀ (st : List Nat) (a : Arm), a ∈ switchArms m st →
    a.start ∈ st ∧ (a.stop = m ∨ a.stop ∈ st)
  | [], a, h => by simp [switchArms] at h
  | [s], a, h => by
    simp only [switchArms, List.mem_singleton] at h
    subst h
    simp
  | s :: s' :: rest, a, h => by
    simp only [switchArms, List.mem_cons] at h
    rcases h with h | h
    · subst h
      simp
    · have := switchArms_mem m (s' :: rest) a (by simpa [List.mem_cons] using h)
      refine ⟨List.mem_cons_of_mem _ this.1, ?_⟩
      rcases this.2 with h2 | h2
      · exact Or.inl h2
      · exact Or.inr (List.mem_cons_of_mem _ h2)

theorem nested_switchArms (m : Nat) : ∀ (st : List Nat), List.Pairwise (· < ·) st →
    nestedArms (switchArms m st) = true
  | [], _ => rfl
  | [s], _ => by simp [switchArms, nestedArms]
  | s :: s' :: rest, h => by
    have h' := List.pairwise_cons.mp h
    have ih := nested_switchArms m (s' :: rest) h'.2
    simp only [switchArms, nestedArms, Bool.and_eq_true, List.all_eq_true, ih, and_true]
    intro b hb
    have hm := (switchArms_mem m (s' :: rest) b hb).1
    have h2 := List.pairwise_cons.mp h'.2
    have : s' ≤ b.start := by
      rcases List.mem_cons.mp hm with e | e
      · omega
      · have := h2.1 _ e; omega
    simp [Arm.disjoint, this]

theorem switchArms_fw (m : Nat) : ∀ (st : List Nat), List.Pairwise (· < ·) st → (∀ s ∈ st, s < m) →
    ∀ a ∈ switchArms m st, a.start < a.stop ∧ a.stop ≤ a.merge
  | [], _, _, a, h => by simp [switchArms] at h
  | [s], _, hm, a, h => by
    simp only [switchArms, List.mem_singleton] at h
    subst h
    have := hm s (List.mem_singleton.mpr rfl)
    simp; omega
  | s :: s' :: rest, hp, hm, a, h => by
    have hp' := List.pairwise_cons.mp hp
    simp only [switchArms, List.mem_cons] at h
    rcases h with h | h
    · subst h
      have h1 := hp'.1 s' (List.mem_cons_self ..)
      have h2 := hm s' (List.mem_cons_of_mem _ (List.mem_cons_self ..))
      simp; omega
    · exact switchArms_fw m (s' :: rest) hp'.2 (fun x hx => hm x (List.mem_cons_of_mem _ hx)) a
        (by simpa [List.mem_cons] using h)

/-- what holds of `lay sh cur`, for every shape and every starting block -/
structure LayOk (cur : Nat) (r : Lay) : Prop where
  le : cur ≤ r.cur
  bnd : ∀ a ∈ r.arms, cur < a.start ∧ a.stop ≤ r.cur
  nest : nestedArms r.arms = true
  fw : ∀ a ∈ r.arms, a.start < a.stop ∧ a.stop ≤ a.merge
  asc : List.Pairwise (· < ·) r.starts
  sb : ∀ s ∈ r.starts, cur < s ∧ s ≤ r.cur
  hd : ∀ s rest, r.starts = s :: rest → s = cur + 1
  q : ∀ m, r.cur < m → ∀ a ∈ switchArms m r.starts, ∀ b ∈ r.arms, (a.disjoint b || b.inside a) = true

theorem layOk_trivial (cur : Nat) : LayOk cur ⟨[], [], cur⟩ :=
  ⟨Nat.le_refl _, by simp, rfl, by simp, List.Pairwise.nil, by simp, by simp, by simp [switchArms]⟩

theorem disj_of_le {a b : Arm} (h : a.stop ≤ b.start) : (a.disjoint b || b.inside a) = true := by
  simp [Arm.disjoint, h]

theorem disj_of_ge {a b : Arm} (h : b.stop ≤ a.start) : (a.disjoint b || b.inside a) = true := by
  simp [Arm.disjoint, h]

theorem inside_of {a b : Arm} (h1 : a.start ≤ b.start) (h2 : b.stop ≤ a.stop) : (a.disjoint b || b.inside a) = true := by
  simp [Arm.inside, h1, h2]

theorem lay_ok : ∀ (sh : Sh) (cur : Nat), LayOk cur (lay sh cur) := by
  intro sh
  induction sh with
  | leaf => intro cur; exact layOk_trivial cur
  | noarm => intro cur; exact layOk_trivial cur
  | seq a b iha ihb =>
    intro cur
    have A := iha cur
    have B := ihb (lay a cur).cur
    refine ⟨Nat.le_trans A.le B.le, ?_, ?_, ?_, List.Pairwise.nil, by simp [lay], by simp [lay], by simp [lay, switchArms]⟩
    · intro x hx
      simp only [lay, List.mem_append] at hx
      rcases hx with hx | hx
      · have := A.bnd x hx; have := B.le; simp only [lay]; omega
      · have := B.bnd x hx; have := A.le; simp only [lay]; omega
    rotate_left
    · intro x hx
      simp only [lay, List.mem_append] at hx
      rcases hx with hx | hx
      · exact A.fw x hx
      · exact B.fw x hx
    · simp only [lay]
      rw [nestedArms_append]
      refine ⟨A.nest, B.nest, ?_⟩
      intro x hx y hy
      have := A.bnd x hx; have := B.bnd y hy
      exact disj_of_le (by omega)
  | ite c t e ihc iht ihe =>
    intro cur
    have C := ihc cur
    have T := iht ((lay c cur).cur + 1)
    have E := ihe ((lay t ((lay c cur).cur + 1)).cur + 1)
    have hC := C.le; have hT := T.le; have hE := E.le
    have hmin : min ((lay c cur).cur + 1) ((lay t ((lay c cur).cur + 1)).cur + 1) = (lay c cur).cur + 1 := by omega
    have hmax : max ((lay c cur).cur + 1) ((lay t ((lay c cur).cur + 1)).cur + 1) = (lay t ((lay c cur).cur + 1)).cur + 1 := by omega
    refine ⟨by simp only [lay]; omega, ?_, ?_, ?_, List.Pairwise.nil, by simp [lay], by simp [lay], by simp [lay, switchArms]⟩
    · intro x hx
      simp only [lay, armsOfIns, hmin, hmax, List.mem_append, List.mem_cons, List.not_mem_nil, or_false] at hx
      simp only [lay]
      rcases hx with hx | (hx | hx) | hx | hx
      · have := C.bnd x hx; omega
      · subst hx; simp; omega
      · subst hx; simp; omega
      · have := T.bnd x hx; omega
      · have := E.bnd x hx; omega
    rotate_left
    · intro x hx
      simp only [lay, armsOfIns, hmin, hmax, List.mem_append, List.mem_cons, List.not_mem_nil, or_false] at hx
      rcases hx with hx | (hx | hx) | hx | hx
      · exact C.fw x hx
      · subst hx; simp; omega
      · subst hx; simp; omega
      · exact T.fw x hx
      · exact E.fw x hx
    · simp only [lay, armsOfIns, hmin, hmax]
      rw [nestedArms_append, nestedArms_append, nestedArms_append]
      refine ⟨C.nest, ⟨?_, ⟨T.nest, E.nest, ?_⟩, ?_⟩, ?_⟩
      · simp [nestedArms, Arm.disjoint]
      · intro x hx y hy
        have := T.bnd x hx; have := E.bnd y hy
        exact disj_of_le (by omega)
      · intro x hx y hy
        simp only [List.mem_cons, List.not_mem_nil, or_false, List.mem_append] at hx hy
        rcases hx with hx | hx <;> rcases hy with hy | hy <;> subst hx
        · have := T.bnd y hy; exact inside_of (by simp; omega) (by simp; omega)
        · have := E.bnd y hy; exact disj_of_le (by simp; omega)
        · have := T.bnd y hy; exact disj_of_ge (by simp; omega)
        · have := E.bnd y hy; exact inside_of (by simp; omega) (by simp; omega)
      · intro x hx y hy
        have := C.bnd x hx
        simp only [List.mem_cons, List.not_mem_nil, or_false, List.mem_append] at hy
        rcases hy with (hy | hy) | hy | hy
        · subst hy; exact disj_of_le (by simp; omega)
        · subst hy; exact disj_of_le (by simp; omega)
        · have := T.bnd y hy; exact disj_of_le (by omega)
        · have := E.bnd y hy; exact disj_of_le (by omega)
  | sw s as ihs ihas =>
    intro cur
    have S := ihs cur
    have L := ihas (lay s cur).cur
    have hS := S.le; have hL := L.le
    have hst : sortU (List.map (fun c => c.2) (List.map (fun b => ((0 : Int), b)) (lay as (lay s cur).cur).starts)
        ++ (none : Option Nat).toList) = (lay as (lay s cur).cur).starts := by
      simp only [List.map_map, Option.toList, List.append_nil]
      have : (List.map ((fun c : Int × Nat => c.2) ∘ fun b => ((0 : Int), b)) (lay as (lay s cur).cur).starts)
          = (lay as (lay s cur).cur).starts := by
        simp [Function.comp_def]
      rw [this]
      exact sortU_sorted _ L.asc
    have hsw : ∀ x ∈ switchArms ((lay as (lay s cur).cur).cur + 1) (lay as (lay s cur).cur).starts,
        (lay s cur).cur < x.start ∧ x.stop ≤ (lay as (lay s cur).cur).cur + 1 := by
      intro x hx
      have hm := switchArms_mem _ _ x hx
      have h1 := L.sb _ hm.1
      rcases hm.2 with h2 | h2
      · omega
      · have := L.sb _ h2; omega
    refine ⟨by simp only [lay]; omega, ?_, ?_, ?_, List.Pairwise.nil, by simp [lay], by simp [lay], by simp [lay, switchArms]⟩
    · intro x hx
      simp only [lay, armsOfIns, hst, List.mem_append] at hx
      simp only [lay]
      rcases hx with hx | hx | hx
      · have := S.bnd x hx; omega
      · have := hsw x hx; omega
      · have := L.bnd x hx; omega
    rotate_left
    · intro x hx
      simp only [lay, armsOfIns, hst, List.mem_append] at hx
      rcases hx with hx | hx | hx
      · exact S.fw x hx
      · exact switchArms_fw _ _ L.asc (fun s hs => by have := L.sb s hs; omega) x hx
      · exact L.fw x hx
    · simp only [lay, armsOfIns, hst]
      rw [nestedArms_append, nestedArms_append]
      refine ⟨S.nest, ⟨nested_switchArms _ _ L.asc, L.nest, ?_⟩, ?_⟩
      · intro x hx y hy
        exact L.q _ (Nat.lt_succ_self _) x hx y hy
      · intro x hx y hy
        have := S.bnd x hx
        simp only [List.mem_append] at hy
        rcases hy with hy | hy
        · have := hsw y hy; exact disj_of_le (by omega)
        · have := L.bnd y hy; exact disj_of_le (by omega)
  | arm a rest iha ihr =>
    intro cur
    have A := iha (cur + 1)
    have R := ihr (lay a (cur + 1)).cur
    have hA := A.le; have hR := R.le
    refine ⟨by simp only [lay]; omega, ?_, ?_, ?_, ?_, ?_, by simp [lay], ?_⟩
    · intro x hx
      simp only [lay, List.mem_append] at hx
      simp only [lay]
      rcases hx with hx | hx
      · have := A.bnd x hx; omega
      · have := R.bnd x hx; omega

    · simp only [lay]
      rw [nestedArms_append]
      refine ⟨A.nest, R.nest, ?_⟩
      intro x hx y hy
      have := A.bnd x hx; have := R.bnd y hy
      exact disj_of_le (by omega)
    · intro x hx
      simp only [lay, List.mem_append] at hx
      rcases hx with hx | hx
      · exact A.fw x hx
      · exact R.fw x hx
    · simp only [lay]
      refine List.pairwise_cons.mpr ⟨?_, R.asc⟩
      intro s hs
      have := R.sb s hs; omega
    · intro s hs
      simp only [lay, List.mem_cons] at hs
      simp only [lay]
      rcases hs with hs | hs
      · omega
      · have := R.sb s hs; omega
    · intro m hm x hx y hy
      simp only [lay] at hm hx hy
      simp only [List.mem_append] at hy
      cases hrs : (lay rest (lay a (cur + 1)).cur).starts with
      | nil =>
        rw [hrs] at hx
        simp only [switchArms, List.mem_singleton] at hx
        subst hx
        rcases hy with hy | hy
        · have := A.bnd y hy; exact inside_of (by simp; omega) (by simp; omega)
        · have := R.bnd y hy; exact inside_of (by simp; omega) (by simp; omega)
      | cons s' rs =>
        rw [hrs] at hx
        have hs' := R.hd s' rs hrs
        simp only [switchArms, List.mem_cons] at hx
        rcases hx with hx | hx
        · subst hx
          rcases hy with hy | hy
          · have := A.bnd y hy; exact inside_of (by simp; omega) (by simp; omega)
          · have := R.bnd y hy; exact disj_of_le (by simp; omega)
        · have hx' : x ∈ switchArms m (lay rest (lay a (cur + 1)).cur).starts := by
            rw [hrs]; exact hx
          rcases hy with hy | hy
          · have hm1 := (switchArms_mem m _ x hx').1
            have := R.sb _ hm1
            have := A.bnd y hy
            exact disj_of_ge (by omega)
          · exact R.q m hm x hx' y hy

end Mimium.RustGen
