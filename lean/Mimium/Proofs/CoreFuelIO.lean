import Mimium.Proofs.CoreFuelMachine
import Mimium.Model.CoreIO
/-!
Fuel independence of what the driver `drv_prog` actually prints: `runProg P times inputs fuel` (the text compared with
the VM / WASM output by every program-level check) does not depend on the fuel once the fuel suffices.
-/
namespace Mimium.Core

/-- the input stream `runProg` feeds: sample `t` gets `inputs[t]` (no inputs past the end of the list) -/
def streamOf (inputs : List (List UInt64)) : Nat → List UInt64 := fun t => inputs.getD t []

theorem runProg_go_fuel_le (P : Prog) (inputs : List (List UInt64)) (sr : UInt64) {n m : Nat} (h : n ≤ m) :
    ∀ (k : Nat) (mc : Machine) (acc : List String) (nout : Nat),
      runSamples n P sr (streamOf inputs) k mc ≠ .error .fuel →
      runProg.go P inputs m sr k mc.t mc acc nout = runProg.go P inputs n sr k mc.t mc acc nout
  | 0, mc, acc, nout, _ => by rw [runProg.go, runProg.go]
  | k + 1, mc, acc, nout, hnf => by
    rw [runSamples] at hnf
    have hstep : Machine.step n P sr mc (inputs.getD mc.t []) ≠ .error .fuel := by
      intro he
      apply hnf
      show andThen (Machine.step n P sr mc (inputs.getD mc.t [])) _ = _
      rw [he]; rfl
    have hm := step_fuel_le P sr h mc (inputs.getD mc.t []) hstep
    rw [runProg.go, runProg.go, hm]
    cases hs : Machine.step n P sr mc (inputs.getD mc.t []) with
    | error e => rfl
    | ok r =>
      obtain ⟨ws, m1⟩ := r
      simp only
      have ht : m1.t = mc.t + 1 := step_t hs
      rw [← ht]
      apply runProg_go_fuel_le P inputs sr h k m1
      intro he
      apply hnf
      show andThen (Machine.step n P sr mc (inputs.getD mc.t [])) _ = _
      rw [hs]
      simp only [andThen]
      rw [he]

/-- **the printed result is fuel independent**: if the whole execution (initialisation + `times` samples) with fuel `n`
does not run out of fuel, `runProg` prints the same text with every larger fuel -/
theorem runProg_fuel_le (P : Prog) (times : Nat) (inputs : List (List UInt64)) {n m : Nat} (h : n ≤ m)
    (hnf : runFrom0 n P (48000.0 : Float).toBits (streamOf inputs) times ≠ .error .fuel) :
    runProg P times inputs m = runProg P times inputs n := by
  unfold runProg
  simp only
  have hinit : Machine.init n P (48000.0 : Float).toBits ≠ .error .fuel := by
    intro he; apply hnf; unfold runFrom0; rw [he]; rfl
  rw [init_fuel_le P _ h hinit]
  cases hi : Machine.init n P (48000.0 : Float).toBits with
  | error e => rfl
  | ok m0 =>
    simp only
    have ht := (init_t hi).1
    have := runProg_go_fuel_le P inputs (48000.0 : Float).toBits h times m0 [] 0 (by
      intro he; apply hnf; unfold runFrom0; rw [hi]; exact he)
    rw [ht] at this
    exact this

end Mimium.Core
