import Mimium.Proofs.StateTreeSurv
/-!
"Distinct voices": one `FnCall` node whose child pairs either match or share nothing.  The scores are then 0/1, the
table is the classical LCS table, and the greedy backtracking is the textbook one.
Also: from `List.Sublist` to index chains.
-/
namespace Mimium.StateTree

/-! ### index chains from `Sublist` -/

theorem IncFrom.map_right {n m : Nat} : ∀ {cm : List (Nat × Nat)} {i j : Nat}, IncFrom n m i j cm →
    IncFrom n (m+1) i (j+1) (cm.map fun p => (p.1, p.2+1))
  | [], _, _, _ => trivial
  | (o, k) :: rest, i, j, h => by
    simp only [IncFrom] at h
    simp only [List.map_cons, IncFrom]
    exact ⟨h.1, by omega, h.2.2.1, by omega, IncFrom.map_right h.2.2.2.2⟩

theorem IncFrom.map_both {n m : Nat} : ∀ {cm : List (Nat × Nat)} {i j : Nat}, IncFrom n m i j cm →
    IncFrom (n+1) (m+1) (i+1) (j+1) (cm.map fun p => (p.1+1, p.2+1))
  | [], _, _, _ => trivial
  | (o, k) :: rest, i, j, h => by
    simp only [IncFrom] at h
    simp only [List.map_cons, IncFrom]
    exact ⟨by omega, by omega, by omega, by omega, IncFrom.map_both h.2.2.2.2⟩

theorem IncFrom.map_swap {n m : Nat} : ∀ {cm : List (Nat × Nat)} {i j : Nat}, IncFrom n m i j cm →
    IncFrom m n j i (cm.map Prod.swap)
  | [], _, _, _ => trivial
  | (o, k) :: rest, i, j, h => by
    simp only [IncFrom] at h
    simp only [List.map_cons, IncFrom, Prod.swap]
    exact ⟨h.2.1, h.1, h.2.2.2.1, h.2.2.1, IncFrom.map_swap h.2.2.2.2⟩

/-- a sublist gives an order preserving list of index pairs that covers every index of the shorter list -/
theorem chain_of_sublist {α : Type} {l1 l2 : List α} (h : l1.Sublist l2) :
    ∃ cm : List (Nat × Nat), IncFrom l1.length l2.length 0 0 cm ∧ cm.length = l1.length ∧
      ∀ p ∈ cm, l1[p.1]? = l2[p.2]? := by
  induction h with
  | slnil => exact ⟨[], trivial, rfl, by simp⟩
  | @cons l1 l2 a _ ih =>
    obtain ⟨cm, h1, h2, h3⟩ := ih
    refine ⟨cm.map fun p => (p.1, p.2+1), ?_, by simpa using h2, ?_⟩
    · simpa using (IncFrom.map_right h1).mono (Nat.le_refl _) (Nat.zero_le _)
    · intro p hp
      rw [List.mem_map] at hp
      obtain ⟨q, hq, rfl⟩ := hp
      simpa using h3 q hq
  | @cons_cons l1 l2 a _ ih =>
    obtain ⟨cm, h1, h2, h3⟩ := ih
    refine ⟨(0, 0) :: cm.map fun p => (p.1+1, p.2+1), ?_, by simpa using h2, ?_⟩
    · simp only [IncFrom, List.length_cons]
      exact ⟨Nat.le_refl _, Nat.le_refl _, by omega, by omega, IncFrom.map_both h1⟩
    · intro p hp
      rw [List.mem_cons] at hp
      rcases hp with hp | hp
      · subst hp; simp
      · rw [List.mem_map] at hp
        obtain ⟨q, hq, rfl⟩ := hp
        simpa using h3 q hq

theorem wsum_ge_length (s : Nat → Nat → Nat) : ∀ (cm : List (Nat × Nat)), (∀ p ∈ cm, 1 ≤ s p.1 p.2) →
    cm.length ≤ wsum s cm
  | [], _ => by simp [wsum]
  | (i, j) :: rest, h => by
    have h1 := h (i, j) List.mem_cons_self
    have ih := wsum_ge_length s rest (fun q hq => h q (List.mem_cons_of_mem _ hq))
    simp only [wsum, List.length_cons] at *; omega

theorem wsum_eq_length (s : Nat → Nat → Nat) : ∀ (cm : List (Nat × Nat)), (∀ p ∈ cm, s p.1 p.2 = 1) →
    wsum s cm = cm.length
  | [], _ => by simp [wsum]
  | (i, j) :: rest, h => by
    have h1 := h (i, j) List.mem_cons_self
    have ih := wsum_eq_length s rest (fun q hq => h q (List.mem_cons_of_mem _ hq))
    simp only [wsum, List.length_cons] at *; omega

theorem sumTo_one (n : Nat) : sumTo (fun _ => 1) n = n := by
  induction n with
  | zero => rfl
  | succ n ih => simp [ih]

/-! ### distinct voices -/

/-- every pair of children either matches or shares nothing -/
def Distinct (ocs ncs : List Sk) : Prop := ∀ o ∈ ocs, ∀ n ∈ ncs, o.matches n = true ∨ diff o n = []

theorem Distinct.score {ocs ncs : List Sk} (h : Distinct ocs ncs) (i j : Nat) :
    (scoreOf ocs ncs i j = 0) ∨
    (scoreOf ocs ncs i j = 1 ∧ ∃ (hi : i < ocs.length) (hj : j < ncs.length), ocs[i].matches ncs[j] = true) := by
  by_cases hi : i < ocs.length
  · by_cases hj : j < ncs.length
    · rw [scoreOf_eq ocs ncs i j hi hj]
      rcases h ocs[i] (List.getElem_mem hi) ncs[j] (List.getElem_mem hj) with hm | h0
      · right; rw [diff_of_matches _ _ hm]; exact ⟨rfl, hi, hj, hm⟩
      · left; rw [h0]; rfl
    · left; exact scoreOf_oob ocs ncs i j (Or.inr (by omega))
  · left; exact scoreOf_oob ocs ncs i j (Or.inl (by omega))

theorem Distinct.score_le_one {ocs ncs : List Sk} (h : Distinct ocs ncs) (i j : Nat) : scoreOf ocs ncs i j ≤ 1 := by
  rcases h.score i j with h | h <;> omega

theorem Distinct.score_of_matches {ocs ncs : List Sk} {i j : Nat} (hi : i < ocs.length) (hj : j < ncs.length)
    (hm : ocs[i].matches ncs[j] = true) : scoreOf ocs ncs i j = 1 := by
  rw [scoreOf_eq ocs ncs i j hi hj, diff_of_matches _ _ hm]; rfl

theorem mem_collect (ocs ncs : List Sk) (tbl : List (List (List Patch))) (i j : Nat) (q : Patch)
    (hq : q ∈ tblGet tbl i j) : ∀ (cm : List (Nat × Nat)), (i, j) ∈ cm →
    q.shift (offsetOf ocs i) (offsetOf ncs j) ∈ collect ocs ncs tbl cm
  | [], h => by simp at h
  | (a, b) :: rest, h => by
    simp only [collect, List.mem_append]
    rw [List.mem_cons] at h
    rcases h with h | h
    · simp only [Prod.mk.injEq] at h
      obtain ⟨rfl, rfl⟩ := h
      left; exact List.mem_map_of_mem hq
    · right; exact mem_collect ocs ncs tbl i j q hq rest h

/-- a `Common` pair of matching children yields the patch that copies the whole child -/
theorem patch_of_common (ocs ncs : List Sk) (hnm : ¬ (Sk.fn ocs).matches (.fn ncs) = true) (i j : Nat)
    (hi : i < ocs.length) (hj : j < ncs.length) (hm : ocs[i].matches ncs[j] = true)
    (hc : (i, j) ∈ nodeCommons ocs ncs) :
    (⟨offsetOf ocs i, offsetOf ncs j, ocs[i].size⟩ : Patch) ∈ diff (.fn ocs) (.fn ncs) := by
  rw [diff_fn_fn ocs ncs hnm, mem_dedup]
  have hq : (⟨0, 0, ocs[i].size⟩ : Patch) ∈ tblGet (diffTbl ocs ncs) i j := by
    rw [tblGet_diffTbl ocs ncs i j hi hj, diff_of_matches _ _ hm]; simp
  have := mem_collect ocs ncs _ i j _ hq _ hc
  unfold nodeCommons at this
  simpa [Patch.shift] using this

/-- in the distinct-voices situation every `Common` pair is a pair of matching children -/
theorem Distinct.common_matches {ocs ncs : List Sk} (h : Distinct ocs ncs) (p : Nat × Nat)
    (hp : p ∈ nodeCommons ocs ncs) :
    ∃ (hi : p.1 < ocs.length) (hj : p.2 < ncs.length), ocs[p.1].matches ncs[p.2] = true := by
  have hpos := nodeCommons_pos ocs ncs p hp
  rcases h.score p.1 p.2 with h0 | ⟨_, h1⟩
  · omega
  · exact h1

/-- 0/1 scores: the number of `Common` pairs is the table optimum -/
theorem Distinct.commons_length {ocs ncs : List Sk} (h : Distinct ocs ncs) :
    (nodeCommons ocs ncs).length = dpS (scoreOf ocs ncs) ocs.length ncs.length := by
  have hopt := backtrack_opt (scoreOf ocs ncs) (dpTable ocs.length ncs.length (scoreOf ocs ncs))
    ocs.length ncs.length (fun i j hi hj => dpGet_dpTable _ _ _ i j hi hj) (by
      intro i j hpos
      have h1 : scoreOf ocs ncs i j = 1 := by have := h.score_le_one i j; omega
      rw [h1]
      exact ⟨fun j' => h.score_le_one i j', fun i' => h.score_le_one i' j⟩)
    (ocs.length + ncs.length) ocs.length ncs.length [] (Nat.le_refl _) (Nat.le_refl _) (Nat.le_refl _)
  simp only [commons, wsum, Nat.add_zero] at hopt
  rw [← hopt]
  symm
  apply wsum_eq_length
  intro p hp
  have hpos := nodeCommons_pos ocs ncs p hp
  have := h.score_le_one p.1 p.2
  omega

/-- … and no order preserving list of matching pairs is longer -/
theorem Distinct.commons_maximal {ocs ncs : List Sk} (h : Distinct ocs ncs) (cm : List (Nat × Nat))
    (hinc : IncFrom ocs.length ncs.length 0 0 cm)
    (hm : ∀ p ∈ cm, ∃ (hi : p.1 < ocs.length) (hj : p.2 < ncs.length), ocs[p.1].matches ncs[p.2] = true) :
    cm.length ≤ (nodeCommons ocs ncs).length := by
  rw [h.commons_length]
  have h1 := dpS_ge_chain (scoreOf ocs ncs) ocs.length ncs.length cm 0 0 hinc (Nat.zero_le _) (Nat.zero_le _)
  have h2 := wsum_ge_length (scoreOf ocs ncs) cm (by
    intro p hp
    obtain ⟨hi, hj, hmm⟩ := hm p hp
    rw [Distinct.score_of_matches hi hj hmm]; exact Nat.le_refl _)
  simp only [dpS_zero_left] at h1
  omega

/-- pure insertion: the table reaches the number of old children -/
theorem Distinct.full_of_sublist {ocs ncs : List Sk} (h : Distinct ocs ncs) (hs : ocs.Sublist ncs) :
    dpS (scoreOf ocs ncs) ocs.length ncs.length = ocs.length := by
  obtain ⟨cm, hinc, hlen, heq⟩ := chain_of_sublist hs
  have h1 := dpS_ge_chain (scoreOf ocs ncs) ocs.length ncs.length cm 0 0 hinc (Nat.zero_le _) (Nat.zero_le _)
  have h2 := wsum_ge_length (scoreOf ocs ncs) cm (by
    intro p hp
    obtain ⟨_, _, hi, hj⟩ := hinc.mem p hp
    have e := heq p hp
    rw [List.getElem?_eq_getElem hi, List.getElem?_eq_getElem hj, Option.some.injEq] at e
    rw [Distinct.score_of_matches hi hj (by rw [e]; exact matches_refl _)]
    exact Nat.le_refl _)
  have h3 := dpS_le_rows (scoreOf ocs ncs) (fun _ => 1) (fun i j => h.score_le_one i j) ocs.length ncs.length
  rw [sumTo_one] at h3
  simp only [dpS_zero_left] at h1
  omega

/-- pure deletion: the table reaches the number of new children -/
theorem Distinct.full_of_sublist' {ocs ncs : List Sk} (h : Distinct ocs ncs) (hs : ncs.Sublist ocs) :
    dpS (scoreOf ocs ncs) ocs.length ncs.length = ncs.length := by
  obtain ⟨cm, hinc, hlen, heq⟩ := chain_of_sublist hs
  have hinc' := hinc.map_swap
  have h1 := dpS_ge_chain (scoreOf ocs ncs) ocs.length ncs.length _ 0 0 hinc' (Nat.zero_le _) (Nat.zero_le _)
  have h2 := wsum_ge_length (scoreOf ocs ncs) (cm.map Prod.swap) (by
    intro p hp
    rw [List.mem_map] at hp
    obtain ⟨q, hq, rfl⟩ := hp
    obtain ⟨_, _, hj, hi⟩ := hinc.mem q hq
    have e := heq q hq
    rw [List.getElem?_eq_getElem hi, List.getElem?_eq_getElem hj, Option.some.injEq] at e
    simp only [Prod.swap]
    rw [Distinct.score_of_matches hi hj (by rw [e]; exact matches_refl _)]
    exact Nat.le_refl _)
  have h3 := dpS_le_cols (scoreOf ocs ncs) (fun _ => 1) (fun i j => h.score_le_one i j) ocs.length ncs.length
  rw [sumTo_one] at h3
  simp only [dpS_zero_left, List.length_map] at h1 h2
  omega

/-- pure insertion: every old child is in a `Common` pair -/
theorem Distinct.rows_covered {ocs ncs : List Sk} (h : Distinct ocs ncs) (hs : ocs.Sublist ncs) :
    ∀ i, i < ocs.length → ∃ j, (i, j) ∈ nodeCommons ocs ncs := by
  intro i hi
  exact backtrack_rows (scoreOf ocs ncs) _ ocs.length ncs.length
    (fun i j hi hj => dpGet_dpTable _ _ _ i j hi hj) (fun _ => 1)
    (fun i j => by rcases h.score i j with h0 | ⟨h1, _⟩ <;> simp [*]) _ _ _ []
    (Nat.le_refl _) (Nat.le_refl _) (Nat.le_refl _) (by rw [h.full_of_sublist hs, sumTo_one]) i hi (by simp)

/-- pure deletion: every new child is in a `Common` pair -/
theorem Distinct.cols_covered {ocs ncs : List Sk} (h : Distinct ocs ncs) (hs : ncs.Sublist ocs) :
    ∀ j, j < ncs.length → ∃ i, (i, j) ∈ nodeCommons ocs ncs := by
  intro j hj
  exact backtrack_cols (scoreOf ocs ncs) _ ocs.length ncs.length
    (fun i j hi hj => dpGet_dpTable _ _ _ i j hi hj) (fun _ => 1)
    (fun i j => by rcases h.score i j with h0 | ⟨h1, _⟩ <;> simp [*]) _ _ _ []
    (Nat.le_refl _) (Nat.le_refl _) (Nat.le_refl _) (by rw [h.full_of_sublist' hs, sumTo_one]) j hj (by simp)

end Mimium.StateTree
