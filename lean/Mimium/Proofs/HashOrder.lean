/-!
# Order-insensitive consumers of a hash-ordered iteration

A `HashMap`/`HashSet` iteration yields its elements in an order that depends on the per-process `RandomState`
(and a `BTreeMap<Symbol,_>` yields them in interner-id order, i.e. in the order of the process' history).
Two iterations of the same collection are therefore two lists `l₁ ~ l₂` (permutations of each other).
For each KIND of consumer that the translator (`tools/extract.py`, allow-list `tools/hash_sites.json`) accepts,
the consumer's result is proved equal on `l₁` and `l₂`.
-/
namespace Mimium.HashOrder
set_option linter.unusedSectionVars false

variable {β : Type}

/-! ### kind `max_by_strict_key`: `iter().max_by_key(key)` / `min_by_key` with a key injective on the elements -/

/-- `Iterator::max_by_key` (the LAST maximal element wins, as in Rust) -/
def maxBy (key : β → Nat) : List β → Option β
  | [] => none
  | x :: xs => match maxBy key xs with
    | none => some x
    | some m => if key m < key x then some x else some m

theorem maxBy_spec (key : β → Nat) : ∀ (l : List β) (m : β), maxBy key l = some m → m ∈ l ∧ ∀ x ∈ l, key x ≤ key m
  | [], m, h => by simp [maxBy] at h
  | x :: xs, m, h => by
    simp only [maxBy] at h
    cases hm : maxBy key xs with
    | none =>
      rw [hm] at h
      cases xs with
      | nil => simp at h; subst h; simp
      | cons y ys =>
        simp only [maxBy] at hm
        split at hm <;> (try split at hm) <;> simp at hm
    | some m' =>
      rw [hm] at h
      have ih := maxBy_spec key xs m' hm
      by_cases hlt : key m' < key x
      · simp [hlt] at h; subst h
        refine ⟨by simp, ?_⟩
        intro y hy
        rcases List.mem_cons.mp hy with rfl | hy
        · exact Nat.le_refl _
        · exact Nat.le_trans (ih.2 y hy) (Nat.le_of_lt hlt)
      · simp [hlt] at h; subst h
        refine ⟨List.mem_cons_of_mem _ ih.1, ?_⟩
        intro y hy
        rcases List.mem_cons.mp hy with rfl | hy
        · omega
        · exact ih.2 y hy

theorem maxBy_none (key : β → Nat) : ∀ (l : List β), maxBy key l = none → l = []
  | [], _ => rfl
  | x :: xs, h => by
    simp only [maxBy] at h
    split at h <;> (try split at h) <;> simp at h

theorem perm_maxBy_strict (key : β → Nat) {l₁ l₂ : List β} (p : l₁.Perm l₂)
    (inj : ∀ x ∈ l₁, ∀ y ∈ l₁, key x = key y → x = y) : maxBy key l₁ = maxBy key l₂ := by
  cases h1 : maxBy key l₁ with
  | none =>
    have := maxBy_none key l₁ h1
    subst this
    have : l₂ = [] := List.Perm.eq_nil p.symm
    subst this; rfl
  | some m1 =>
    cases h2 : maxBy key l₂ with
    | none =>
      have := maxBy_none key l₂ h2
      subst this
      have : l₁ = [] := List.Perm.eq_nil p
      subst this; simp [maxBy] at h1
    | some m2 =>
      have s1 := maxBy_spec key l₁ m1 h1
      have s2 := maxBy_spec key l₂ m2 h2
      have m2in : m2 ∈ l₁ := p.mem_iff.mpr s2.1
      have a := s1.2 m2 m2in
      have b := s2.2 m1 (p.mem_iff.mp s1.1)
      rw [inj m1 s1.1 m2 m2in (by omega)]

/-! ### kind `find_unique_key`: `iter().find(p)` where at most one element satisfies `p` -/

theorem perm_find_unique (q : β → Bool) {l₁ l₂ : List β} (p : l₁.Perm l₂)
    (uniq : ∀ x ∈ l₁, ∀ y ∈ l₁, q x = true → q y = true → x = y) : l₁.find? q = l₂.find? q := by
  cases h1 : l₁.find? q with
  | none =>
    rw [List.find?_eq_none] at h1
    symm; rw [List.find?_eq_none]
    intro x hx; exact h1 x (p.mem_iff.mpr hx)
  | some a =>
    have ha := List.find?_some h1
    have ham := List.mem_of_find?_eq_some h1
    cases h2 : l₂.find? q with
    | none =>
      rw [List.find?_eq_none] at h2
      exact absurd ha (h2 a (p.mem_iff.mp ham))
    | some b =>
      have hb := List.find?_some h2
      have hbm := p.mem_iff.mpr (List.mem_of_find?_eq_some h2)
      rw [uniq a ham b hbm ha hb]

/-! ### kind `sum`: `sum`, `count`, `fold` with an operation whose applications commute -/

theorem perm_sum {l₁ l₂ : List Nat} (p : l₁.Perm l₂) : l₁.sum = l₂.sum := p.sum_nat

theorem perm_count (q : β → Bool) {l₁ l₂ : List β} (p : l₁.Perm l₂) : l₁.countP q = l₂.countP q := p.countP_eq q

theorem perm_fold_comm {σ : Type} (f : σ → β → σ) (comm : ∀ z x y, f (f z x) y = f (f z y) x)
    {l₁ l₂ : List β} (p : l₁.Perm l₂) (init : σ) : l₁.foldl f init = l₂.foldl f init :=
  p.foldl_eq' (fun x _ y _ z => comm z x y) init

/-! ### kind `any_all` -/

theorem perm_any (q : β → Bool) {l₁ l₂ : List β} (p : l₁.Perm l₂) : l₁.any q = l₂.any q := p.any_eq
theorem perm_all (q : β → Bool) {l₁ l₂ : List β} (p : l₁.Perm l₂) : l₁.all q = l₂.all q := p.all_eq

/-! ### kind `collect_map_set`: `collect::<HashMap>()`, `extend`, a loop of `insert`s (later insert overwrites) -/

variable {κ ν : Type} [DecidableEq κ]

/-- insert the pairs in iteration order into the map `m` (a map is its lookup function) -/
def collectInto (m : κ → Option ν) : List (κ × ν) → (κ → Option ν)
  | [] => m
  | kv :: r => collectInto (fun k => if k = kv.1 then some kv.2 else m k) r

theorem collectInto_not_mem (m : κ → Option ν) (l : List (κ × ν)) (k : κ) (h : k ∉ l.map (·.1)) :
    collectInto m l k = m k := by
  induction l generalizing m with
  | nil => rfl
  | cons kv r ih =>
    simp only [List.map_cons, List.mem_cons, not_or] at h
    rw [collectInto, ih _ h.2]
    simp [h.1]

theorem collectInto_mem (m : κ → Option ν) (l : List (κ × ν)) (k : κ) (v : ν) (nd : (l.map (·.1)).Nodup)
    (h : (k, v) ∈ l) : collectInto m l k = some v := by
  induction l generalizing m with
  | nil => simp at h
  | cons kv r ih =>
    simp only [List.map_cons, List.nodup_cons] at nd
    rcases List.mem_cons.mp h with rfl | h
    · rw [collectInto, collectInto_not_mem _ _ _ nd.1]; simp
    · exact ih _ nd.2 h

/-- with pairwise distinct keys the collected map does not depend on the iteration order -/
theorem perm_collect_map (m : κ → Option ν) {l₁ l₂ : List (κ × ν)} (p : l₁.Perm l₂)
    (nd : (l₁.map (·.1)).Nodup) : collectInto m l₁ = collectInto m l₂ := by
  funext k
  have nd2 : (l₂.map (·.1)).Nodup := (p.map _).nodup_iff.mp nd
  by_cases hk : k ∈ l₁.map (·.1)
  · obtain ⟨kv, hkv, rfl⟩ := List.mem_map.mp hk
    rw [collectInto_mem m l₁ kv.1 kv.2 nd hkv, collectInto_mem m l₂ kv.1 kv.2 nd2 (p.mem_iff.mp hkv)]
  · have hk2 : k ∉ l₂.map (·.1) := fun h => hk ((p.map _).mem_iff.mpr h)
    rw [collectInto_not_mem _ _ _ hk, collectInto_not_mem _ _ _ hk2]

/-- a collected set is its membership predicate -/
theorem perm_collect_set {l₁ l₂ : List κ} (p : l₁.Perm l₂) (k : κ) : (k ∈ l₁) ↔ (k ∈ l₂) := p.mem_iff

/-- `retain`/`filter` with a pure predicate commutes with reordering -/
theorem perm_retain (q : β → Bool) {l₁ l₂ : List β} (p : l₁.Perm l₂) : (l₁.filter q).Perm (l₂.filter q) := p.filter q

/-! ### kind `sort_after_collect`: `collect::<Vec>()` then `sort_by` with a total order that is antisymmetric
on the elements (no two distinct elements compare equal) -/

theorem perm_sort (le : β → β → Bool)
    (trans : ∀ a b c, le a b → le b c → le a c) (total : ∀ a b, le a b || le b a)
    {l₁ l₂ : List β} (p : l₁.Perm l₂)
    (antisymm : ∀ a ∈ l₁, ∀ b ∈ l₁, le a b → le b a → a = b) :
    l₁.mergeSort le = l₂.mergeSort le := by
  apply List.Perm.eq_of_pairwise (le := fun a b => le a b = true)
  · intro a b ha hb hab hba
    have ha' : a ∈ l₁ := (List.mergeSort_perm l₁ le).mem_iff.mp ha
    have hb' : b ∈ l₁ := p.mem_iff.mpr ((List.mergeSort_perm l₂ le).mem_iff.mp hb)
    exact antisymm a ha' b hb' hab hba
  · exact List.pairwise_mergeSort trans total l₁
  · exact List.pairwise_mergeSort trans total l₂
  · exact (List.mergeSort_perm l₁ le).trans (p.trans (List.mergeSort_perm l₂ le).symm)

/-! ### kind `foreach_independent`: a `for` loop whose per-element effects commute -/

theorem perm_foreach {σ : Type} (body : σ → β → σ) {l₁ l₂ : List β} (p : l₁.Perm l₂)
    (comm : ∀ x ∈ l₁, ∀ y ∈ l₁, ∀ z, body (body z x) y = body (body z y) x) (init : σ) :
    l₁.foldl body init = l₂.foldl body init := p.foldl_eq' comm init

end Mimium.HashOrder
