import Mimium.Proofs.CstPrintContent
/-! `print_block_expr`. -/
namespace Mimium.CstPrint
open Mimium.Gen (Kind SK)
open Mimium.Cst (Green)
open SDoc

theorem block_other (c : Ctx) (st : BlockSt) (d : SDoc) (h : st.inBody = true) :
    blockHeld c { st with body := st.body ++ [d] } = blockHeld c st ++ content c d := by
  simp [blockHeld, h, List.append_assoc]

theorem block_step (c : Ctx) (st : BlockSt) (ch : Ch) (hch : ChOk c ch) (hok : blockOk c st ch = true) :
    blockHeld c (blockStep c st ch) = blockHeld c st ++ content c ch.2 := by
  obtain ⟨g, d⟩ := ch
  cases g with
  | node k gs =>
    simp only [blockOk] at hok
    simp only [blockStep, hok, if_true]
    simpa [hok] using block_other c st d hok
  | token ti w =>
    have hd := chOk_token c _ d ti w rfl hch
    simp only [blockOk] at hok
    simp only [blockStep]
    by_cases hb : c.kind ti = .BlockBegin
    · simp only [hb, beq_self_eq_true, if_true, Bool.and_eq_true, Bool.not_eq_true', emp_iff, List.isEmpty_iff] at hok ⊢
      obtain ⟨⟨⟨h1, h2⟩, h3⟩, h4⟩ := hok
      have hf := leadFold c (trailingTrivia c ti) st.openTrivia st.hasOpenTrivia
      simp only [blockHeld, h1, hf.1, h2, h3, hd, tokItems, norm, hb, content_app, content_emitAll]
      simp [List.append_assoc]
    · by_cases he : c.kind ti = .BlockEnd
      · have hne : (Kind.BlockEnd == Kind.BlockBegin) = false := by decide
        simp only [he, hne, beq_self_eq_true, if_true, Bool.false_eq_true, if_false, Bool.and_eq_true, Bool.or_eq_true, emp_iff] at hok ⊢
        obtain ⟨h1, h2⟩ := hok
        simp only [blockHeld, h1, if_true, Bool.false_eq_true, if_false]
        have hi : content c (intersperse st.body hardline) = st.body.flatMap (content c) := content_intersperse c _ _ (by simp)
        cases hbody : st.body.isEmpty
        · cases ho : st.hasOpenTrivia
          · have h2 : content c st.openTrivia = [] := by simpa [ho] using h2
            simp [hi, h2, List.append_assoc]
          · simp [hi, List.append_assoc]
        · have : st.body = [] := by simpa using hbody
          cases ho : st.hasOpenTrivia
          · have h2 : content c st.openTrivia = [] := by simpa [ho] using h2
            simp [this, h2]
          · simp [this]
      · have h1 : (c.kind ti == Kind.BlockBegin) = false := by simpa using hb
        have h2 : (c.kind ti == Kind.BlockEnd) = false := by simpa using he
        simp only [h1, h2, Bool.false_eq_true, if_false] at hok ⊢
        simp only [hok, if_true]
        simpa [hok] using block_other c st d hok

theorem block_content (c : Ctx) (cs : List Ch) (hch : ∀ ch ∈ cs, ChOk c ch)
    (hok : allOk (blockStep c) (blockOk c) {} cs = true) (hfin : (cs.foldl (blockStep c) {}).inBody = false) :
    content c (printBlockExpr c cs) = chContent c cs := by
  have h := loop_held c (blockStep c) (blockOk c) (blockHeld c) (fun _ => True)
    (fun st ch _ h1 h2 => ⟨trivial, block_step c st ch h1 h2⟩) cs {} trivial hch hok
  have h2 := h.2
  simp only [blockHeld, hfin] at h2
  simpa [printBlockExpr] using h2

end Mimium.CstPrint
