import Mimium.Proofs.CoreCheckSound
/-!
Completeness of the algorithmic checker for the ANNOTATED fragment.

`HasTypeA Φ B Γ ρ e τ` is `HasType Φ Γ ρ e τ` with the one non-syntax-directed rule pinned down: the parameter types of a
`lam` are the ones the table `B` gives its parameter names.  Then `inferE Φ B Γ ρ e = some τ ↔ HasTypeA Φ B Γ ρ e τ`
(types are unique), and `checkProg A P = some (Φ, Ψg, τ) ↔ Φ = sigs ∧ WellTypedA A Ψg τ P`, where `WellTypedA` is `WellTyped`
with `HasTypeA` for every body, the signatures `sigOf A d` for EVERY declaration of `P.fns` (also one shadowed by an
earlier declaration of the same name) and a first-order output type.  For lambda-free expressions `HasType` and
`HasTypeA` coincide.
-/
namespace Mimium.Core

/-! ### the checker finds the type of every annotated derivation -/
mutual
theorem inferE_complete {Φ : Sig} {B : Binders} : ∀ {Γ : Ctx} {ρ : Option Ty} {e : Expr} {τ : Ty},
    HasTypeA Φ B Γ ρ e τ → inferE Φ B Γ ρ e = some τ
  | _, _, _, _, .lit => by simp [inferE]
  | _, _, _, _, .var h => by simp [inferE, h]
  | _, _, _, _, .un ha => by simp [inferE, inferE_complete ha]
  | _, _, _, _, .bin ha hb => by simp [inferE, inferE_complete ha, inferE_complete hb]
  | _, _, _, _, .ite hc ha hb => by simp [inferE, inferE_complete hc, inferE_complete ha, inferE_complete hb]
  | _, _, _, _, .letE ha hb => by simp [inferE, inferE_complete ha, inferE_complete hb]
  | _, _, _, _, .letTup ha hl hb => by simp [inferE, inferE_complete ha, hl, inferE_complete hb]
  | _, _, _, _, .tup hes => by simp [inferE, inferL_complete hes]
  | _, _, _, _, .proj ha hi => by simp [inferE, inferE_complete ha, hi]
  | _, _, _, _, .call hΦ hargs => by simp [inferE, hΦ, inferL_complete hargs]
  | _, _, _, _, .app hf hargs => by simp [inferE, inferE_complete hf, inferL_complete hargs]
  | _, _, _, _, .lam hb => by simp [inferE, inferE_complete hb]
  | _, _, _, _, .self => by simp [inferE]
  | _, _, _, _, .mem ha => by simp [inferE, inferE_complete ha]
  | _, _, _, _, .delay ha hb => by simp [inferE, inferE_complete ha, inferE_complete hb]
  | _, _, _, _, .now => by simp [inferE]
  | _, _, _, _, .samplerate => by simp [inferE]
  | _, _, _, _, .assign hx ha hr => by simp [inferE, hx, inferE_complete ha, inferE_complete hr]
theorem inferL_complete {Φ : Sig} {B : Binders} : ∀ {Γ : Ctx} {ρ : Option Ty} {es : List Expr} {τs : List Ty},
    HasTypesA Φ B Γ ρ es τs → inferL Φ B Γ ρ es = some τs
  | _, _, _, _, .nil => by simp [inferL]
  | _, _, _, _, .cons h hs => by simp [inferL, inferE_complete h, inferL_complete hs]
end

theorem inferE_iff {Φ : Sig} {B : Binders} {Γ : Ctx} {ρ : Option Ty} {e : Expr} {τ : Ty} :
    inferE Φ B Γ ρ e = some τ ↔ HasTypeA Φ B Γ ρ e τ := ⟨inferE_soundA Φ B e Γ ρ τ, inferE_complete⟩

theorem inferL_iff {Φ : Sig} {B : Binders} {Γ : Ctx} {ρ : Option Ty} {es : List Expr} {τs : List Ty} :
    inferL Φ B Γ ρ es = some τs ↔ HasTypesA Φ B Γ ρ es τs := ⟨inferL_soundA Φ B es Γ ρ τs, inferL_complete⟩

/-- under annotations an expression has at most one type -/
theorem HasTypeA.unique {Φ : Sig} {B : Binders} {Γ : Ctx} {ρ : Option Ty} {e : Expr} {τ τ' : Ty}
    (h : HasTypeA Φ B Γ ρ e τ) (h' : HasTypeA Φ B Γ ρ e τ') : τ = τ' := by
  have := inferE_complete h; rw [inferE_complete h'] at this; exact (Option.some.inj this).symm

/-! ### lambda-free expressions: every derivation is an annotated one -/
mutual
def noLam : Expr → Bool
  | .lit _ => true
  | .var _ => true
  | .un _ e => noLam e
  | .bin _ a b => noLam a && noLam b
  | .ite c a b => noLam c && (noLam a && noLam b)
  | .letE _ e b => noLam e && noLam b
  | .letTup _ e b => noLam e && noLam b
  | .tup es => noLamL es
  | .proj e _ => noLam e
  | .call _ args _ => noLamL args
  | .app f args => noLam f && noLamL args
  | .lam _ _ => false
  | .self => true
  | .mem e _ => noLam e
  | .delay _ e t _ => noLam e && noLam t
  | .now => true
  | .samplerate => true
  | .assign _ e r => noLam e && noLam r
def noLamL : List Expr → Bool
  | [] => true
  | e :: es => noLam e && noLamL es
end

mutual
theorem HasType.toA {Φ : Sig} (B : Binders) : ∀ {Γ : Ctx} {ρ : Option Ty} {e : Expr} {τ : Ty},
    HasType Φ Γ ρ e τ → noLam e = true → HasTypeA Φ B Γ ρ e τ
  | _, _, _, _, .lit, _ => .lit
  | _, _, _, _, .var h, _ => .var h
  | _, _, _, _, .un ha, hl => .un (ha.toA B (by simpa [noLam] using hl))
  | _, _, _, _, .bin ha hb, hl => by
    simp only [noLam, Bool.and_eq_true] at hl; exact .bin (ha.toA B hl.1) (hb.toA B hl.2)
  | _, _, _, _, .ite hc ha hb, hl => by
    simp only [noLam, Bool.and_eq_true] at hl; exact .ite (hc.toA B hl.1) (ha.toA B hl.2.1) (hb.toA B hl.2.2)
  | _, _, _, _, .letE ha hb, hl => by
    simp only [noLam, Bool.and_eq_true] at hl; exact .letE (ha.toA B hl.1) (hb.toA B hl.2)
  | _, _, _, _, .letTup ha hlen hb, hl => by
    simp only [noLam, Bool.and_eq_true] at hl; exact .letTup (ha.toA B hl.1) hlen (hb.toA B hl.2)
  | _, _, _, _, .tup hes, hl => .tup (hes.toA B (by simpa [noLam] using hl))
  | _, _, _, _, .proj ha hi, hl => .proj (ha.toA B (by simpa [noLam] using hl)) hi
  | _, _, _, _, .call hΦ hargs, hl => .call hΦ (hargs.toA B (by simpa [noLam] using hl))
  | _, _, _, _, .app hf hargs, hl => by
    simp only [noLam, Bool.and_eq_true] at hl; exact .app (hf.toA B hl.1) (hargs.toA B hl.2)
  | _, _, _, _, .lam _ _, hl => by simp [noLam] at hl
  | _, _, _, _, .self, _ => .self
  | _, _, _, _, .mem ha, hl => .mem (ha.toA B (by simpa [noLam] using hl))
  | _, _, _, _, .delay ha hb, hl => by
    simp only [noLam, Bool.and_eq_true] at hl; exact .delay (ha.toA B hl.1) (hb.toA B hl.2)
  | _, _, _, _, .now, _ => .now
  | _, _, _, _, .samplerate, _ => .samplerate
  | _, _, _, _, .assign hx ha hr, hl => by
    simp only [noLam, Bool.and_eq_true] at hl; exact .assign hx (ha.toA B hl.1) (hr.toA B hl.2)
theorem HasTypes.toA {Φ : Sig} (B : Binders) : ∀ {Γ : Ctx} {ρ : Option Ty} {es : List Expr} {τs : List Ty},
    HasTypes Φ Γ ρ es τs → noLamL es = true → HasTypesA Φ B Γ ρ es τs
  | _, _, _, _, .nil, _ => .nil
  | _, _, _, _, .cons h hs, hl => by
    simp only [noLamL, Bool.and_eq_true] at hl; exact .cons (h.toA B hl.1) (hs.toA B hl.2)
end

/-! ### functions, globals, programs -/

/-- `FnOK` with an annotated derivation for the body -/
structure FnOKA (Φ : Sig) (B : Binders) (Γg : Ctx) (d : FnDecl) (τs : List Ty) (τ : Ty) : Prop where
  arity : d.params.length = τs.length
  body : HasTypeA Φ B (bindCtx Γg d.params τs) d.selfTy d.body τ
  selfRet : ∀ sh, d.selfShape = some sh → τ = tyOfShape sh
  agree : Agree (calls d.body)

theorem FnOKA.toFnOK {Φ : Sig} {B : Binders} {Γg : Ctx} {d : FnDecl} {τs : List Ty} {τ : Ty}
    (h : FnOKA Φ B Γg d τs τ) : FnOK Φ Γg d τs τ := ⟨h.arity, h.body.toHasType, h.selfRet, h.agree⟩

theorem checkFn_iff {Φ : Sig} {B : Binders} {Γg : Ctx} {d : FnDecl} {τs : List Ty} {τ : Ty} :
    checkFn Φ B Γg d τs τ = true ↔ FnOKA Φ B Γg d τs τ := by
  simp only [checkFn, Bool.and_eq_true, decide_eq_true_eq]
  constructor
  · rintro ⟨⟨⟨hl, hb⟩, hs⟩, ha⟩
    refine ⟨hl, inferE_iff.1 hb, ?_, (agreeB_iff _).1 ha⟩
    intro sh hsh
    rw [hsh] at hs
    simpa using hs
  · intro h
    refine ⟨⟨⟨h.arity, inferE_iff.2 h.body⟩, ?_⟩, (agreeB_iff _).2 h.agree⟩
    cases hsh : d.selfShape with
    | none => rfl
    | some sh => simpa using h.selfRet sh hsh

/-- `GlobalsOK` with annotated derivations -/
inductive GlobalsOKA (B : Binders) : Ctx → List (String × Expr) → List Ty → Prop
  | nil {Γ} : GlobalsOKA B Γ [] []
  | cons {Γ x e gs τ τs} : HasTypeA [] B Γ none e τ → τ.fo = true → GlobalsOKA B ((x, τ) :: Γ) gs τs →
      GlobalsOKA B Γ ((x, e) :: gs) (τ :: τs)

theorem GlobalsOKA.toGlobalsOK {B : Binders} : ∀ {Γ : Ctx} {gs : List (String × Expr)} {τs : List Ty},
    GlobalsOKA B Γ gs τs → GlobalsOK Γ gs τs
  | _, _, _, .nil => .nil
  | _, _, _, .cons h hfo hgs => .cons h.toHasType hfo hgs.toGlobalsOK

theorem checkGlobals_complete {B : Binders} : ∀ {Γ : Ctx} {gs : List (String × Expr)} {τs : List Ty},
    GlobalsOKA B Γ gs τs → checkGlobals B Γ gs = some τs
  | _, _, _, .nil => by simp [checkGlobals]
  | _, _, _, .cons h hfo hgs => by simp [checkGlobals, inferE_complete h, hfo, checkGlobals_complete hgs]

theorem checkGlobals_soundA (B : Binders) : ∀ (gs : List (String × Expr)) (Γ : Ctx) (Ψg : List Ty),
    checkGlobals B Γ gs = some Ψg → GlobalsOKA B Γ gs Ψg
  | [], Γ, Ψg, h => by
    simp only [checkGlobals, Option.some.injEq] at h; subst h; exact .nil
  | (x, e) :: gs, Γ, Ψg, h => by
    simp only [checkGlobals] at h
    split at h
    · next τ he =>
      split at h
      · next hfo =>
        split at h
        · next τs hgs =>
          simp only [Option.some.injEq] at h; subst h
          exact .cons (inferE_soundA [] B e _ _ _ he) hfo (checkGlobals_soundA B gs _ _ hgs)
        · simp at h
      · simp at h
    · simp at h

/-- `WellTyped` under the annotations `A`: annotated derivations everywhere, the signatures are the annotated ones, EVERY
declaration is checked (also one shadowed by an earlier declaration of the same name), the output type is first-order -/
structure WellTypedA (A : Annot) (Ψg : List Ty) (τout : Ty) (P : Prog) : Prop where
  globals : GlobalsOKA A.binders [] P.globals Ψg
  fns : ∀ d ∈ P.fns, FnOKA (P.fns.map (sigOf A)) A.binders (globalCtx P Ψg) d (sigOf A d).2.1 (sigOf A d).2.2
  dsp : FnOKA (P.fns.map (sigOf A)) A.binders (globalCtx P Ψg) P.dsp (List.replicate P.dsp.params.length .num) τout
  outFo : τout.fo = true

/-- **the checker decides `WellTypedA`** -/
theorem checkProg_iff {A : Annot} {P : Prog} {Φ : Sig} {Ψg : List Ty} {τ : Ty} :
    checkProg A P = some (Φ, Ψg, τ) ↔ Φ = P.fns.map (sigOf A) ∧ WellTypedA A Ψg τ P := by
  constructor
  · intro h
    unfold checkProg at h
    split at h
    · simp at h
    · next Ψg' hg =>
      simp only at h
      split at h
      · next hfns =>
        split at h
        · next τ' hd =>
          split at h
          · next hdsp =>
            simp only [Option.some.injEq, Prod.mk.injEq] at h
            obtain ⟨hΦ, hΨ, hτ⟩ := h
            subst hΦ; subst hΨ; subst hτ
            simp only [Bool.and_eq_true] at hdsp
            rw [List.all_eq_true] at hfns
            exact ⟨rfl, checkGlobals_soundA _ _ _ _ hg, fun d hd => checkFn_iff.1 (hfns d hd), checkFn_iff.1 hdsp.1, hdsp.2⟩
          · simp at h
        · simp at h
      · simp at h
  · rintro ⟨rfl, hW⟩
    have hfns : (P.fns.all fun d => checkFn (P.fns.map (sigOf A)) A.binders (globalCtx P Ψg) d (sigOf A d).2.1 (sigOf A d).2.2) = true := by
      rw [List.all_eq_true]; exact fun d hd => checkFn_iff.2 (hW.fns d hd)
    have hd : dspTy (P.fns.map (sigOf A)) A.binders (globalCtx P Ψg) P.dsp = some τ := inferE_complete hW.dsp.body
    simp [checkProg, checkGlobals_complete hW.globals, hfns, hd, checkFn_iff.2 hW.dsp, hW.outFo]

theorem WellTypedA.toWellTyped {A : Annot} {P : Prog} {Ψg : List Ty} {τ : Ty} (h : WellTypedA A Ψg τ P) :
    WellTyped (P.fns.map (sigOf A)) Ψg τ P := (checkProg_sound (checkProg_iff.2 ⟨rfl, h⟩)).1

/-! ### lambda-free programs with distinct function names: complete w.r.t. the declarative `WellTyped` -/

def noLamProg (P : Prog) : Bool :=
  P.globals.all (fun g => noLam g.2) && P.fns.all (fun d => noLam d.body) && noLam P.dsp.body

theorem GlobalsOK.toA (B : Binders) : ∀ {Γ : Ctx} {gs : List (String × Expr)} {τs : List Ty},
    GlobalsOK Γ gs τs → (gs.all fun g => noLam g.2) = true → GlobalsOKA B Γ gs τs
  | _, _, _, .nil, _ => .nil
  | _, _, _, .cons h hfo hgs, hl => by
    simp only [List.all_cons, Bool.and_eq_true] at hl
    exact .cons (h.toA B hl.1) hfo (hgs.toA B hl.2)

theorem FnOK.toA {Φ : Sig} (B : Binders) {Γg : Ctx} {d : FnDecl} {τs : List Ty} {τ : Ty}
    (h : FnOK Φ Γg d τs τ) (hl : noLam d.body = true) : FnOKA Φ B Γg d τs τ :=
  ⟨h.arity, h.body.toA B hl, h.selfRet, h.agree⟩

/-- with distinct names, every declaration is the one its name finds, in the declarations and in the signatures -/
theorem lookup_sigs_of_mem (A : Annot) : ∀ (fns : List FnDecl), (fns.map (·.name)).Nodup → ∀ d ∈ fns,
    (fns.map (sigOf A)).lookup d.name = some (sigOf A d).2 ∧ findFn fns d.name = some d
  | [], _, d, hd => by simp at hd
  | d₀ :: fns, hn, d, hd => by
    simp only [List.map_cons, List.nodup_cons] at hn
    simp only [List.mem_cons] at hd
    rcases hd with rfl | hd
    · constructor
      · simp [sigOf]
      · simp [findFn]
    · have hne : d.name ≠ d₀.name := by
        intro he
        exact hn.1 (he ▸ List.mem_map_of_mem hd)
      obtain ⟨h1, h2⟩ := lookup_sigs_of_mem A fns hn.2 d hd
      constructor
      · have : (d.name == d₀.name) = false := by simpa using hne
        simp only [sigOf] at h1
        simp only [List.map_cons, sigOf, List.lookup_cons, this]
        exact h1
      · have : (d₀.name == d.name) = false := by simpa using fun h => hne h.symm
        simp only [findFn, List.find?_cons, this] at h2 ⊢
        exact h2

/-- **Completeness w.r.t. the declarative system for lambda-free programs**: if the program is `WellTyped` with the
signatures the annotations name, has no `lam`, distinct function names and a first-order output type, the checker accepts it
with exactly that typing. -/
theorem checkProg_complete_noLam {A : Annot} {P : Prog} {Ψg : List Ty} {τ : Ty}
    (h : WellTyped (P.fns.map (sigOf A)) Ψg τ P) (hl : noLamProg P = true)
    (hn : (P.fns.map (·.name)).Nodup) (hfo : τ.fo = true) :
    checkProg A P = some (P.fns.map (sigOf A), Ψg, τ) := by
  simp only [noLamProg, Bool.and_eq_true] at hl
  obtain ⟨⟨hlg, hlf⟩, hld⟩ := hl
  refine checkProg_iff.2 ⟨rfl, h.globals.toA _ hlg, ?_, h.dsp.toA _ hld, hfo⟩
  intro d hd
  obtain ⟨hlk, hfind⟩ := lookup_sigs_of_mem A P.fns hn d hd
  obtain ⟨d', hf', hok⟩ := h.fns d.name _ _ hlk
  rw [hfind] at hf'
  cases hf'
  rw [List.all_eq_true] at hlf
  exact hok.toA _ (hlf d hd)

end Mimium.Core
