import Mimium.Model.Mir
/-!
The block-step MIR semantics (`Mir.execBlockM`, `Mir.runBlocksM`) IS `RustGen.execBlock` / `RustGen.runCfg` of the function's
control skeleton for the instruction semantics `Mir.mirSem` (errors of the MIR run are the `panic` of the abstract machine).
-/
namespace Mimium.Mir
open Mimium.RustGen

/-- word offset of block `bb`: instructions in the blocks before it -/
def blockOff (bs : List (List Ins)) (bb : Nat) : Nat := (bs.take bb).flatten.length

theorem skelBlocks_getElem? (bs : List (List Ins)) : ∀ (k bb : Nat) (b : List Ins), bs[bb]? = some b →
    (skelBlocks k bs)[bb]? = some (skelBlock (k + blockOff bs bb) b) := by
  induction bs with
  | nil => intro k bb b h; simp at h
  | cons b0 bs ih =>
    intro k bb b h
    cases bb with
    | zero =>
      simp only [List.getElem?_cons_zero, Option.some.injEq] at h
      subst h
      simp [skelBlocks, blockOff]
    | succ bb =>
      simp only [List.getElem?_cons_succ] at h
      have := ih (k + b0.length) bb b h
      simp only [skelBlocks, List.getElem?_cons_succ, this, blockOff, List.take_succ_cons, List.flatten_cons,
        List.length_append, Option.some.injEq]
      congr 1
      omega

theorem skelBlocks_getElem?_none (bs : List (List Ins)) : ∀ (k bb : Nat), bs[bb]? = none →
    (skelBlocks k bs)[bb]? = none := by
  induction bs with
  | nil => intro k bb _; simp [skelBlocks]
  | cons b0 bs ih =>
    intro k bb h
    cases bb with
    | zero => simp at h
    | succ bb =>
      simp only [List.getElem?_cons_succ] at h
      simp [skelBlocks, ih _ bb h]

theorem flatten_getElem? (bs : List (List Ins)) : ∀ (bb : Nat) (b : List Ins) (j : Nat) (i : Ins),
    bs[bb]? = some b → b[j]? = some i → bs.flatten[blockOff bs bb + j]? = some i := by
  induction bs with
  | nil => intro bb b j i h; simp at h
  | cons b0 bs ih =>
    intro bb b j i h hj
    cases bb with
    | zero =>
      simp only [List.getElem?_cons_zero, Option.some.injEq] at h
      subst h
      have hlt : j < b0.length := by
        rcases List.getElem?_eq_some_iff.mp hj with ⟨hlt, _⟩; exact hlt
      simp [blockOff, List.getElem?_append_left hlt, hj]
    | succ bb =>
      simp only [List.getElem?_cons_succ] at h
      have := ih bb b j i h hj
      simp only [blockOff, List.take_succ_cons, List.flatten_cons, List.length_append] at this ⊢
      rw [show b0.length + (List.take bb bs).flatten.length + j = b0.length + ((List.take bb bs).flatten.length + j) by omega]
      rw [List.getElem?_append_right (by omega)]
      simpa using this

/-- the instructions `execBlockM` interprets itself -/
def Ins.isCtl : Ins → Bool
  | .phi .. | .phiSwitch .. | .jmpIf .. | .jmp .. | .switch .. | .ret .. | .retFeed .. => true
  | _ => false

theorem skel_op (i : Ins) (k : Nat) (h : i.isCtl = false) : i.skel k = [.op k] := by
  cases i <;> simp [Ins.isCtl] at h <;> rfl

theorem execBlockM_op (callF : CallF) (P : Prog) (as : List Arm) (preds : List Nat) (bi : Nat) (i : Ins) (rest : List Ins)
    (pred : Nat) (s : MSt) (h : i.isCtl = false) :
    execBlockM callF P as preds bi (i :: rest) pred s =
      match stepIns callF P i s with
      | .ok s' => execBlockM callF P as preds bi rest pred s'
      | .error e => .err e := by
  cases i <;> simp [Ins.isCtl] at h <;> (simp only [execBlockM]; rfl)

theorem execBlock_eq_M (callF : CallF) (P : Prog) (f : Fn) (as : List Arm) (preds : List Nat) (bi : Nat) :
    ∀ (is : List Ins) (k pred : Nat) (s : MSt),
      (∀ j i, is[j]? = some i → f.look (k + j) = some i) →
      execBlock (mirSem callF P f) as preds bi (skelBlock k is) pred s
        = (execBlockM callF P as preds bi is pred s).toFlow := by
  intro is
  induction is with
  | nil =>
    intro k pred s _
    simp only [skelBlock, execBlock, execBlockM]
    cases lastContaining as bi <;> rfl
  | cons i rest ih =>
    intro k pred s h
    have h0 : f.look k = some i := by simpa using h 0 i (by simp)
    have hr : ∀ j i', rest[j]? = some i' → f.look (k + 1 + j) = some i' := by
      intro j i' hj
      have := h (j + 1) i' (by simpa using hj)
      rwa [show k + (j + 1) = k + 1 + j by omega] at this
    have ihr := fun pred s => ih (k + 1) pred s hr
    have hop : (mirSem callF P f).op k s = (stepIns callF P i s).toOption := by simp [mirSem, h0]
    have hres : ∀ s, (mirSem callF P f).result k s = retM i s := by intro s; simp [mirSem, h0]
    by_cases hc : i.isCtl = false
    · rw [skelBlock, skel_op i k hc, execBlockM_op callF P as preds bi i rest pred s hc]
      simp only [List.cons_append, List.nil_append, execBlock, hop]
      cases hst : stepIns callF P i s with
      | error e => simp [Except.toOption, FlowM.toFlow]
      | ok s' => simp only [Except.toOption]; exact ihr _ _
    cases i with
    | phi d l r =>
      simp only [skelBlock, Ins.skel, List.cons_append, List.nil_append, execBlock, execBlockM]
      rcases preds with _ | ⟨p0, _ | ⟨p1, ps⟩⟩ <;> simp only [FlowM.toFlow]
      by_cases hp0 : pred = p0
      · subst hp0; simp only [if_true]; exact ihr _ _
      · by_cases hp1 : pred = p1
        · subst hp1; simp only [hp0, if_false, if_true]; exact ihr _ _
        · simp [hp0, hp1]
    | phiSwitch d ins =>
      simp only [skelBlock, Ins.skel, List.cons_append, List.nil_append, execBlock, execBlockM]
      cases hfind : (preds.zip ins).find? (fun a => a.1 == pred) with
      | none => simp [FlowM.toFlow]
      | some a => simp only; exact ihr _ _
    | jmpIf c t e m =>
      simp only [skelBlock, Ins.skel, List.cons_append, List.nil_append, execBlock, execBlockM, hop]
      cases hst : stepIns callF P (Ins.jmpIf c t e m) s with
      | error e => simp [Except.toOption, FlowM.toFlow]
      | ok s' => simp only [Except.toOption, FlowM.toFlow]; rfl
    | jmp off =>
      simp [skelBlock, Ins.skel, execBlock, execBlockM, FlowM.toFlow]
    | switch c cases d m =>
      simp only [skelBlock, Ins.skel, List.cons_append, List.nil_append, execBlock, execBlockM, hop]
      cases hst : stepIns callF P (Ins.switch c cases d m) s with
      | error e => simp [Except.toOption, FlowM.toFlow]
      | ok s' =>
        simp only [Except.toOption]
        cases hsw : switchTarget cases d (scrutM c s') with
        | none => simp [mirSem, hsw, FlowM.toFlow]
        | some n => simp [mirSem, hsw, FlowM.toFlow]
    | ret src n =>
      simp [skelBlock, Ins.skel, execBlock, execBlockM, FlowM.toFlow, hres]
    | retFeed src n =>
      simp [skelBlock, Ins.skel, execBlock, execBlockM, FlowM.toFlow, hres]
    | _ => simp [Ins.isCtl] at hc

theorem runBlocksM_eq_runCfg (callF : CallF) (P : Prog) (f : Fn) (hc : f.cacheOk) :
    ∀ (n bb pred : Nat) (s : MSt),
      (runBlocksM callF P f n bb pred s).toOut = runCfg (mirSem callF P f) f.cfg n bb pred s := by
  intro n
  induction n with
  | zero => intro bb pred s; rfl
  | succ n ih =>
    intro bb pred s
    simp only [runBlocksM, runCfg]
    cases hb : f.blocks[bb]? with
    | none =>
      have : f.cfg[bb]? = none := skelBlocks_getElem?_none f.blocks 0 bb hb
      simp [this, OutM.toOut]
    | some b =>
      have hcfg : f.cfg[bb]? = some (skelBlock (0 + blockOff f.blocks bb) b) := skelBlocks_getElem? f.blocks 0 bb b hb
      have hlook : ∀ j i, b[j]? = some i → f.look (0 + blockOff f.blocks bb + j) = some i := by
        intro j i hj
        rw [Nat.zero_add]
        exact flatten_getElem? f.blocks bb b j i hb hj
      have hblk := execBlock_eq_M callF P f (arms f.cfg) ((blockPreds f.cfg).getD bb []) bb b
        (0 + blockOff f.blocks bb) pred s hlook
      rw [← hc.1, ← hc.2] at hblk
      simp only [hcfg, ← hc.1, ← hc.2, hblk]
      cases execBlockM callF P f.arms (f.preds.getD bb []) bb b pred s with
      | next bb' pred' s' => simp only [FlowM.toFlow]; exact ih bb' pred' s'
      | ret r => rfl
      | err e => rfl

theorem Fn.build_cacheOk (label : String) (upper : Option Nat) (args : List Nat) (ups : List Opd) (sk : StateTree.Sk)
    (nregs nret : Nat) (blocks : List (List Ins)) : (Fn.build label upper args ups sk nregs nret blocks).cacheOk :=
  ⟨rfl, rfl⟩

end Mimium.Mir
