import Mimium.Proofs.UnifySound
/-! On the fragment without tuples, records, unions, `Boxed`, `Any`, `Failure`, what unification establishes (`Len`) is syntactic
equality modulo the bindings (`SEq`): none of the lenient clauses applies. -/
namespace Mimium.Unify
open Mimium.Occurs (parent Acyclic)

theorem chain_strict {σ : Store} (hS : StrictStore σ) {a r : Ty} (c : Chain σ a r) (h : strict a = true) : strict r = true := by
  induction c with
  | refl t => exact h
  | step hp _ ih => exact ih (hS _ _ hp)

theorem len_strict {σ : Store} (hS : StrictStore σ) {k : Bool} {a b : Ty} (h : Len σ k a b) :
    strict a = true → strict b = true → SEq σ a b := by
  induction h with
  | refl k t => intro _ _; exact .refl t
  | varL hp _ ih => intro _ hb; exact .varL hp (ih (hS _ _ hp) hb)
  | varR hp _ ih => intro ha _; exact .varR hp (ih ha (hS _ _ hp))
  | array _ ih => intro ha hb; exact .array (ih (by simpa [strict] using ha) (by simpa [strict] using hb))
  | ref _ ih => intro ha hb; exact .ref (ih (by simpa [strict] using ha) (by simpa [strict] using hb))
  | code _ ih => intro ha hb; exact .code (ih (by simpa [strict] using ha) (by simpa [strict] using hb))
  | fn _ _ ih1 ih2 =>
    intro ha hb
    simp only [strict, Bool.and_eq_true] at ha hb
    exact .fn (ih1 ha.1 hb.1) (ih2 ha.2 hb.2)
  | args _ ih => exact ih
  | argsSwap c1 _ _ _ => intro ha _; have := chain_strict hS c1 ha; simp [strict] at this
  | _ => intro ha hb; simp [strict] at ha hb

end Mimium.Unify
