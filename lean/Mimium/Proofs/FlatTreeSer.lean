import Mimium.Model.FlatTree
import Mimium.Proofs.FlatRing
/-!
Basic facts about `serialize`: it reads a node only through `lookupCell` at the layout's sites (frame lemmas), its
length is the layout size on conforming trees, and the per-site tree operations keep a tree conforming.
-/
namespace Mimium.FlatTree
open Mimium.Core Mimium.Cells Mimium.StateTree Mimium.Layout Mimium.StateMachine

theorem delayExtra_eq : delayExtra = 2 := by decide

/-! ### accessors of `SNode` -/

@[simp] theorem cells_setCell (st : SNode) (s : Nat) (c : SCell) :
    (st.setCell s c).cells = Core.setCell st.cells s c := by cases st; rfl
@[simp] theorem selfv_setCell (st : SNode) (s : Nat) (c : SCell) : (st.setCell s c).selfv = st.selfv := by cases st; rfl
@[simp] theorem cells_setSelf (st : SNode) (v : Val) : (st.setSelf v).cells = st.cells := by cases st; rfl
@[simp] theorem selfv_setSelf (st : SNode) (v : Val) : (st.setSelf v).selfv = some v := by cases st; rfl

theorem lookup_set_eq (cs : List (Nat × SCell)) (site : Nat) (c : SCell) :
    lookupCell (Core.setCell cs site c) site = some c := by
  induction cs with
  | nil => simp [Core.setCell, lookupCell]
  | cons kc rest ih =>
    obtain ⟨k, c'⟩ := kc
    by_cases h : k = site
    · simp [Core.setCell, lookupCell, h]
    · have : (k == site) = false := by simpa using h
      simp [Core.setCell, lookupCell, this, ih]

theorem lookup_set_ne (cs : List (Nat × SCell)) (s s' : Nat) (c : SCell) (h : s ≠ s') :
    lookupCell (Core.setCell cs s c) s' = lookupCell cs s' := by
  induction cs with
  | nil =>
    have : (s == s') = false := by simpa using h
    simp [Core.setCell, lookupCell, this]
  | cons kc rest ih =>
    obtain ⟨k, c'⟩ := kc
    by_cases hk : k = s
    · subst hk
      have : (k == s') = false := by simpa using h
      simp [Core.setCell, lookupCell, this]
    · have h1 : (k == s) = false := by simpa using hk
      by_cases hk' : k = s'
      · subst hk'
        simp [Core.setCell, lookupCell, h1]
      · have h2 : (k == s') = false := by simpa using hk'
        simp [Core.setCell, lookupCell, h1, h2, ih]

theorem memAt_set (st : SNode) (s : Nat) (x : UInt64) : (st.setCell s (.mem x)).memAt s = x := by
  simp [SNode.memAt, lookup_set_eq]
theorem ringAt_set (st : SNode) (s n : Nat) (r : Ring) : (st.setCell s (.delay r)).ringAt n s = r := by
  simp [SNode.ringAt, lookup_set_eq]
theorem childAt_set (st : SNode) (s : Nat) (nd : SNode) : (st.setCell s (.child nd)).childAt s = nd := by
  simp [SNode.childAt, lookup_set_eq]

/-! ### `serCell`, `Conf` see the node only through `lookupCell` at the cell's site -/

theorem serCell_congr (c : LCell) (st st' : SNode)
    (h : lookupCell st.cells c.site = lookupCell st'.cells c.site) : serCell c st = serCell c st' := by
  cases c with
  | mem s => simp only [LCell.site] at h; simp [serCell, SNode.memAt, h]
  | delay s n => simp only [LCell.site] at h; simp [serCell, SNode.ringAt, h]
  | child s self cells => simp only [LCell.site] at h; simp [serCell, SNode.childAt, h]

theorem serCells_congr : ∀ (cs : List LCell) (st st' : SNode),
    (∀ s ∈ sitesOf cs, lookupCell st.cells s = lookupCell st'.cells s) → serCells cs st = serCells cs st'
  | [], _, _, _ => by simp [serCells]
  | c :: cs, st, st', h => by
    simp only [serCells]
    rw [serCell_congr c st st' (h _ (by simp [sitesOf])),
      serCells_congr cs st st' (fun s hs => h s (by simp [sitesOf, hs]))]

theorem Conf_congr (c : LCell) (st st' : SNode)
    (h : lookupCell st.cells c.site = lookupCell st'.cells c.site) : Conf c st ↔ Conf c st' := by
  cases c with
  | mem s => simp [Conf]
  | delay s n => simp only [LCell.site] at h; simp [Conf, SNode.ringAt, h]
  | child s self cells => simp only [LCell.site] at h; simp [Conf, SNode.childAt, h]

theorem ConfL_congr : ∀ (cs : List LCell) (st st' : SNode),
    (∀ s ∈ sitesOf cs, lookupCell st.cells s = lookupCell st'.cells s) → (ConfL cs st ↔ ConfL cs st')
  | [], _, _, _ => by simp [ConfL]
  | c :: cs, st, st', h => by
    simp only [ConfL]
    rw [Conf_congr c st st' (h _ (by simp [sitesOf])),
      ConfL_congr cs st st' (fun s hs => h s (by simp [sitesOf, hs]))]

/-! ### lengths -/

mutual
theorem flatten_zeroOf : ∀ sh : Shape, flattenVal (zeroOf sh) = List.replicate (shapeSize sh) 0
  | .num => by simp [zeroOf, flattenVal, shapeSize]
  | .tup ss => by simp only [zeroOf, flattenVal, shapeSize]; exact flatten_zeroOfL ss
theorem flatten_zeroOfL : ∀ ss : List Shape, flattenVals (zeroOf.zeroOfL ss) = List.replicate (shapeSizeL ss) 0
  | [] => by simp [zeroOf.zeroOfL, flattenVals, shapeSizeL]
  | s :: ss => by
    simp only [zeroOf.zeroOfL, flattenVals, shapeSizeL, flatten_zeroOf s, flatten_zeroOfL ss, List.replicate_append_replicate]
end

theorem selfWords_length (self : Option Shape) (st : SNode) (h : SelfOk self st) :
    (selfWords self st).length = selfSize self := by
  cases self with
  | none => simp [selfWords, selfSize]
  | some sh =>
    simp only [selfWords]
    cases hv : st.selfv with
    | none => simp [selfSize]
    | some v => exact h v hv

theorem selfWords_initSelf (self : Option Shape) (st : SNode) : selfWords self (initSelf self st) = selfWords self st := by
  cases self with
  | none => simp [selfWords]
  | some sh =>
    cases hv : st.selfv with
    | none => simp [selfWords, initSelf, hv, flatten_zeroOf]
    | some v => simp [initSelf, hv]

theorem cells_initSelf (self : Option Shape) (st : SNode) : (initSelf self st).cells = st.cells := by
  unfold initSelf
  split <;> simp

theorem SelfOk_initSelf (self : Option Shape) (st : SNode) (h : SelfOk self st) : SelfOk self (initSelf self st) := by
  unfold initSelf
  split
  · rename_i sh hv
    intro v hv'
    simp only [selfv_setSelf, Option.some.injEq] at hv'
    subst hv'
    simp [flatten_zeroOf, selfSize]
  · exact h

mutual
theorem serCell_length : ∀ (c : LCell) (st : SNode), Conf c st → (serCell c st).length = c.size
  | .mem s, st, _ => by simp [serCell, LCell.size]
  | .delay s n, st, h => by
    simp only [Conf] at h
    simp [serCell, LCell.size, Ring.words, h.1, delayExtra_eq]; omega
  | .child s self cells, st, h => by
    simp only [Conf] at h
    simp only [serCell, LCell.size, List.length_append, selfWords_length _ _ h.1, serCells_length cells _ h.2]
theorem serCells_length : ∀ (cs : List LCell) (st : SNode), ConfL cs st → (serCells cs st).length = sizeCells cs
  | [], _, _ => by simp [serCells, sizeCells]
  | c :: cs, st, h => by
    simp only [ConfL] at h
    simp only [serCells, sizeCells, List.length_append, serCell_length c st h.1, serCells_length cs st h.2]
end

theorem serialize_length (lay : LNode) (st : SNode) (h : Conforms lay st) : (serialize lay st).length = lay.size := by
  simp only [serialize, LNode.size, List.length_append, selfWords_length _ _ h.1, serCells_length _ _ h.2]

/-! ### the ring update keeps a ring conforming -/

theorem process_conf (r : Ring) (x t : UInt64) (n : Nat) (hn : n < 2 ^ 64) (hl : r.data.length = n)
    (hrd : r.rd < 2 ^ 64) (hwr : r.wr < 2 ^ 64) :
    (r.process x t).2.data.length = n ∧ (r.process x t).2.rd < 2 ^ 64 ∧ (r.process x t).2.wr < 2 ^ 64 := by
  simp only [Ring.process, Ring.processD]
  by_cases h0 : r.data.length = 0
  · simp [h0, hrd, hwr, ← hl]
  · simp only [h0, if_false, List.length_set]
    have hpos : 0 < r.data.length := by omega
    refine ⟨hl, ?_, ?_⟩
    · exact Nat.lt_trans (Nat.mod_lt _ hpos) (by omega)
    · exact Nat.lt_trans (Nat.mod_lt _ hpos) (by omega)

end Mimium.FlatTree
