import Mimium.Proofs.EvalFrame
import Mimium.Proofs.FlatTreeEval
/-!
`SameN cells a b`: the state nodes `a` and `b` hold the same thing at every cell of the labelled layout `cells` (same
`self`, same `memAt` / `ringAt`, recursively the same children) — they may differ at sites the layout does not own (the empty
child nodes the reference semantics creates for calls of stateless functions inside `if` arms).  Such nodes have the same
flat image, conform alike, and stay the same under the per-site tree operations.
-/
namespace Mimium.Publish
open Mimium.Core Mimium.Cells Mimium.StateTree Mimium.FlatTree

mutual
def SameC : LCell → SNode → SNode → Prop
  | .mem s, a, b => a.memAt s = b.memAt s
  | .delay s n, a, b => a.ringAt n s = b.ringAt n s
  | .child s _ cells, a, b => (a.childAt s).selfv = (b.childAt s).selfv ∧ SameL cells (a.childAt s) (b.childAt s)
def SameL : List LCell → SNode → SNode → Prop
  | [], _, _ => True
  | c :: cs, a, b => SameC c a b ∧ SameL cs a b
end

def SameN (cells : List LCell) (a b : SNode) : Prop := a.selfv = b.selfv ∧ SameL cells a b

theorem sameL_iff : ∀ (cs : List LCell) (a b : SNode), SameL cs a b ↔ ∀ c ∈ cs, SameC c a b
  | [], _, _ => by simp [SameL]
  | c :: cs, a, b => by simp [SameL, sameL_iff cs a b]

theorem SameC_congr (c : LCell) (a a' b b' : SNode)
    (ha : lookupCell a.cells c.site = lookupCell a'.cells c.site)
    (hb : lookupCell b.cells c.site = lookupCell b'.cells c.site) : SameC c a b ↔ SameC c a' b' := by
  cases c with
  | mem s => simp only [LCell.site] at ha hb; simp [SameC, SNode.memAt, ha, hb]
  | delay s n => simp only [LCell.site] at ha hb; simp [SameC, SNode.ringAt, ha, hb]
  | child s self cells => simp only [LCell.site] at ha hb; simp [SameC, SNode.childAt, ha, hb]

mutual
theorem SameC.refl : ∀ (c : LCell) (a : SNode), SameC c a a
  | .mem _, _ => by simp [SameC]
  | .delay _ _, _ => by simp [SameC]
  | .child s _ cells, a => by simp only [SameC, true_and]; exact SameL.refl cells _
theorem SameL.refl : ∀ (cs : List LCell) (a : SNode), SameL cs a a
  | [], _ => by simp [SameL]
  | c :: cs, a => by simp only [SameL]; exact ⟨SameC.refl c a, SameL.refl cs a⟩
end

mutual
theorem SameC.symm : ∀ (c : LCell) (a b : SNode), SameC c a b → SameC c b a
  | .mem _, _, _, h => by simp only [SameC] at h ⊢; exact h.symm
  | .delay _ _, _, _, h => by simp only [SameC] at h ⊢; exact h.symm
  | .child s _ cells, a, b, h => by
    simp only [SameC] at h ⊢; exact ⟨h.1.symm, SameL.symm cells _ _ h.2⟩
theorem SameL.symm : ∀ (cs : List LCell) (a b : SNode), SameL cs a b → SameL cs b a
  | [], _, _, _ => by simp [SameL]
  | c :: cs, a, b, h => by simp only [SameL] at h ⊢; exact ⟨SameC.symm c a b h.1, SameL.symm cs a b h.2⟩
end

mutual
theorem SameC.trans : ∀ (c : LCell) (a b d : SNode), SameC c a b → SameC c b d → SameC c a d
  | .mem _, _, _, _, h1, h2 => by simp only [SameC] at h1 h2 ⊢; exact h1.trans h2
  | .delay _ _, _, _, _, h1, h2 => by simp only [SameC] at h1 h2 ⊢; exact h1.trans h2
  | .child s _ cells, a, b, d, h1, h2 => by
    simp only [SameC] at h1 h2 ⊢; exact ⟨h1.1.trans h2.1, SameL.trans cells _ _ _ h1.2 h2.2⟩
theorem SameL.trans : ∀ (cs : List LCell) (a b d : SNode), SameL cs a b → SameL cs b d → SameL cs a d
  | [], _, _, _, _, _ => by simp [SameL]
  | c :: cs, a, b, d, h1, h2 => by
    simp only [SameL] at h1 h2 ⊢; exact ⟨SameC.trans c a b d h1.1 h2.1, SameL.trans cs a b d h1.2 h2.2⟩
end

theorem SameN.refl (cells : List LCell) (a : SNode) : SameN cells a a := ⟨rfl, SameL.refl cells a⟩
theorem SameN.symm {cells : List LCell} {a b : SNode} (h : SameN cells a b) : SameN cells b a :=
  ⟨h.1.symm, SameL.symm cells a b h.2⟩
theorem SameN.trans {cells : List LCell} {a b d : SNode} (h1 : SameN cells a b) (h2 : SameN cells b d) : SameN cells a d :=
  ⟨h1.1.trans h2.1, SameL.trans cells a b d h1.2 h2.2⟩

/-- both sides are changed at most at the site of the cell `c₀`, and hold the same there afterwards -/
theorem same_update (cells : List LCell) (hl : LayOkL cells) (c₀ : LCell) (h0 : c₀ ∈ cells) (a a' b b' : SNode)
    (ha : Frame [c₀.site] a a') (hb : Frame [c₀.site] b b') (hab : SameN cells a b) (hnew : SameC c₀ a' b') :
    SameN cells a' b' := by
  refine ⟨by rw [ha.1, hb.1]; exact hab.1, (sameL_iff _ _ _).2 ?_⟩
  intro c hc
  by_cases e : c.site = c₀.site
  · rw [site_unique cells c c₀ hl hc h0 e]; exact hnew
  · have hn : c.site ∉ [c₀.site] := by simpa using e
    exact (SameC_congr c a a' b b' (ha.2 _ hn).symm (hb.2 _ hn).symm).1 ((sameL_iff _ _ _).1 hab.2 c hc)

/-- a node changed only at sites the layout does not own is the same -/
theorem same_of_frame (cells : List LCell) (J : List Nat) (a b : SNode) (h : Frame J a b)
    (hd : ∀ c ∈ cells, c.site ∉ J) : SameN cells b a := by
  refine ⟨h.1, (sameL_iff _ _ _).2 ?_⟩
  intro c hc
  exact (SameC_congr c a b a a (h.2 _ (hd c hc)).symm rfl).1 (SameC.refl c a)

theorem selfv_setSelf (st : SNode) (v : Val) : (st.setSelf v).selfv = some v := by cases st; rfl
theorem cells_setSelf (st : SNode) (v : Val) : (st.setSelf v).cells = st.cells := by cases st; rfl

theorem sameL_cells (cs : List LCell) (a a' b b' : SNode) (ha : a.cells = a'.cells) (hb : b.cells = b'.cells) :
    SameL cs a b ↔ SameL cs a' b' := by
  simp only [sameL_iff]
  constructor
  · intro h c hc; exact (SameC_congr c a a' b b' (by rw [ha]) (by rw [hb])).1 (h c hc)
  · intro h c hc; exact (SameC_congr c a a' b b' (by rw [ha]) (by rw [hb])).2 (h c hc)

theorem same_initSelf (self : Option Shape) (cells : List LCell) (a b : SNode) (h : SameN cells a b) :
    SameN cells (FlatTree.initSelf self a) (FlatTree.initSelf self b) :=
  ⟨selfv_initSelf_eq self a b h.1, (sameL_cells cells _ _ _ _ (cells_initSelf _ _) (cells_initSelf _ _)).2 h.2⟩

theorem same_finSelf (self : Option Shape) (cells : List LCell) (a b : SNode) (v : Val) (h : SameN cells a b) :
    SameN cells (finSelf self a v) (finSelf self b v) :=
  ⟨selfv_finSelf_eq self a b v h.1, (sameL_cells cells _ _ _ _ (cells_finSelf _ _ _) (cells_finSelf _ _ _)).2 h.2⟩

theorem childAt_setCell (st : SNode) (site : Nat) (n : SNode) : (st.setCell site (.child n)).childAt site = n := by
  simp [SNode.childAt, lookup_set_eq]

theorem memAt_setCell (st : SNode) (site : Nat) (w : UInt64) : (st.setCell site (.mem w)).memAt site = w := by
  simp [SNode.memAt, lookup_set_eq]

theorem ringAt_setCell (st : SNode) (site n : Nat) (r : Ring) : (st.setCell site (.delay r)).ringAt n site = r := by
  simp [SNode.ringAt, lookup_set_eq]

theorem treeNodeWith_fst (self : Option Shape) (body : SNode → SNode × List UInt64) (ret : Val) (st : SNode) :
    (treeNodeWith self body ret st).1 = finSelf self (body (FlatTree.initSelf self st)).1 ret := by
  cases self <;> simp [treeNodeWith, finSelf]

/-! ### the per-site tree operations keep nodes the same -/

mutual
theorem treeCell_same : ∀ (c : LCell) (p : CPay) (cells : List LCell) (x y : SNode),
    LayOkL cells → c ∈ cells → SameN cells x y → SameN cells (treeCell c p x).1 (treeCell c p y).1
  | .mem site, .mem w, cells, x, y, hl, hc, h => by
    simp only [treeCell]
    exact same_update cells hl (.mem site) hc x _ y _ (Frame.set _ _ _) (Frame.set _ _ _) h
      (by simp [SameC, memAt_setCell])
  | .delay site n, .delay w t, cells, x, y, hl, hc, h => by
    simp only [treeCell]
    have e : x.ringAt n site = y.ringAt n site := (sameL_iff _ _ _).1 h.2 _ hc
    exact same_update cells hl (.delay site n) hc x _ y _ (Frame.set _ _ _) (Frame.set _ _ _) h
      (by simp [SameC, ringAt_setCell, e])
  | .child site self cs, .child ret ps, cells, x, y, hl, hc, h => by
    simp only [treeCell]
    have hch : SameC (.child site self cs) x y := (sameL_iff _ _ _).1 h.2 _ hc
    simp only [SameC] at hch
    have hlc : LayOkL cs := by simpa [LayOk] using layOk_of_mem cells _ hl hc
    have h0 := same_initSelf self cs _ _ (show SameN cs (x.childAt site) (y.childAt site) from hch)
    have h1 := treeCells_same cs ps cs _ _ hlc (fun _ hm => hm) h0
    have h2 := same_finSelf self cs _ _ ret h1
    refine same_update cells hl (.child site self cs) hc x _ y _ (Frame.set _ _ _) (Frame.set _ _ _) h ?_
    simp only [SameC, childAt_setCell, treeNodeWith_fst]
    exact h2
  | .mem _, .delay _ _, _, _, _, _, _, h => by simpa [treeCell] using h
  | .mem _, .child _ _, _, _, _, _, _, h => by simpa [treeCell] using h
  | .delay _ _, .mem _, _, _, _, _, _, h => by simpa [treeCell] using h
  | .delay _ _, .child _ _, _, _, _, _, _, h => by simpa [treeCell] using h
  | .child _ _ _, .mem _, _, _, _, _, _, h => by simpa [treeCell] using h
  | .child _ _ _, .delay _ _, _, _, _, _, _, h => by simpa [treeCell] using h
  | .mem _, .skip, _, _, _, _, _, h => by simpa [treeCell] using h
  | .delay _ _, .skip, _, _, _, _, _, h => by simpa [treeCell] using h
  | .child _ _ _, .skip, _, _, _, _, _, h => by simpa [treeCell] using h
theorem treeCells_same : ∀ (seg : List LCell) (ps : List CPay) (cells : List LCell) (x y : SNode),
    LayOkL cells → (∀ c ∈ seg, c ∈ cells) → SameN cells x y →
    SameN cells (treeCells seg ps x).1 (treeCells seg ps y).1
  | [], _, _, _, _, _, _, h => by simpa [treeCells] using h
  | _ :: _, [], _, _, _, _, _, h => by simpa [treeCells] using h
  | c :: seg, p :: ps, cells, x, y, hl, hs, h => by
    simp only [treeCells]
    exact treeCells_same seg ps cells _ _ hl (fun c' hc' => hs c' (List.mem_cons_of_mem _ hc'))
      (treeCell_same c p cells x y hl (hs c (List.mem_cons_self ..)) h)
end

/-! ### visiting stateless cells changes nothing the layout owns -/

mutual
theorem idle_cell : ∀ (c : LCell), statelessCell c = true → ∀ (cells : List LCell) (x : SNode), LayOkL cells → c ∈ cells →
    ∃ p, PayShape c p ∧ SameN cells (treeCell c p x).1 x
  | .mem _, h, _, _, _, _ => by simp [statelessCell] at h
  | .delay _ _, h, _, _, _, _ => by simp [statelessCell] at h
  | .child site self cs, h, cells, x, hl, hc => by
    simp only [statelessCell, Bool.and_eq_true, Option.isNone_iff_eq_none] at h
    obtain ⟨rfl, hcs⟩ := h
    have hlc : LayOkL cs := by simpa [LayOk] using layOk_of_mem cells _ hl hc
    obtain ⟨ps, hp, hsame⟩ := idle_cells cs hcs cs (x.childAt site) hlc (fun _ hm => hm)
    refine ⟨.child (.num 0) ps, by simpa [PayShape] using hp, ?_⟩
    simp only [treeCell]
    refine same_update cells hl (.child site none cs) hc x _ x x (Frame.set _ _ _) (Frame.refl _ _) (SameN.refl _ _) ?_
    simp only [SameC, childAt_setCell, treeNodeWith_fst]
    have e : FlatTree.initSelf none (x.childAt site) = x.childAt site := by
      unfold FlatTree.initSelf; split <;> simp_all
    rw [e]
    simp only [finSelf]
    exact hsame
theorem idle_cells : ∀ (seg : List LCell), statelessCells seg = true → ∀ (cells : List LCell) (x : SNode), LayOkL cells →
    (∀ c ∈ seg, c ∈ cells) → ∃ ps, PayShapeL seg ps ∧ SameN cells (treeCells seg ps x).1 x
  | [], _, cells, x, _, _ => ⟨[], by simp [PayShapeL], by simpa [treeCells] using SameN.refl cells x⟩
  | c :: seg, h, cells, x, hl, hs => by
    simp only [statelessCells, Bool.and_eq_true] at h
    obtain ⟨p, hp, h1⟩ := idle_cell c h.1 cells x hl (hs c (List.mem_cons_self ..))
    obtain ⟨ps, hps, h2⟩ := idle_cells seg h.2 cells (treeCell c p x).1 hl (fun c' hc' => hs c' (List.mem_cons_of_mem _ hc'))
    exact ⟨p :: ps, by simp [PayShapeL, hp, hps], by simpa [treeCells] using h2.trans h1⟩
end

mutual
theorem stateless_size : ∀ c : LCell, statelessCell c = true → c.size = 0
  | .mem _, h => by simp [statelessCell] at h
  | .delay _ _, h => by simp [statelessCell] at h
  | .child _ self cs, h => by
    simp only [statelessCell, Bool.and_eq_true, Option.isNone_iff_eq_none] at h
    obtain ⟨rfl, hcs⟩ := h
    simp [LCell.size, selfSize, stateless_sizeL cs hcs]
theorem stateless_sizeL : ∀ cs : List LCell, statelessCells cs = true → sizeCells cs = 0
  | [], _ => by simp [sizeCells]
  | c :: cs, h => by
    simp only [statelessCells, Bool.and_eq_true] at h
    simp [sizeCells, stateless_size c h.1, stateless_sizeL cs h.2]
end

/-! ### the same nodes have the same flat image and conform alike -/

theorem selfWords_same (self : Option Shape) (a b : SNode) (h : a.selfv = b.selfv) : selfWords self a = selfWords self b := by
  unfold selfWords; rw [h]

mutual
theorem serCell_same : ∀ (c : LCell) (a b : SNode), SameC c a b → serCell c a = serCell c b
  | .mem _, a, b, h => by simp only [SameC] at h; simp [serCell, h]
  | .delay _ _, a, b, h => by simp only [SameC] at h; simp [serCell, h]
  | .child s self cs, a, b, h => by
    simp only [SameC] at h
    simp only [serCell, selfWords_same self _ _ h.1, serCells_same cs _ _ h.2]
theorem serCells_same : ∀ (cs : List LCell) (a b : SNode), SameL cs a b → serCells cs a = serCells cs b
  | [], _, _, _ => by simp [serCells]
  | c :: cs, a, b, h => by
    simp only [SameL] at h
    simp only [serCells, serCell_same c a b h.1, serCells_same cs a b h.2]
end

theorem serialize_same (lay : LNode) (a b : SNode) (h : SameN lay.cells a b) : serialize lay a = serialize lay b := by
  simp only [serialize, selfWords_same lay.self a b h.1, serCells_same lay.cells a b h.2]

theorem selfOk_same (self : Option Shape) (a b : SNode) (h : a.selfv = b.selfv) (ha : SelfOk self a) : SelfOk self b := by
  intro v hv; exact ha v (h ▸ hv)

mutual
theorem conf_same : ∀ (c : LCell) (a b : SNode), SameC c a b → Conf c a → Conf c b
  | .mem _, _, _, _, _ => by simp [Conf]
  | .delay _ _, a, b, h, hc => by simp only [SameC] at h; simp only [Conf] at hc ⊢; rw [← h]; exact hc
  | .child s self cs, a, b, h, hc => by
    simp only [SameC] at h
    simp only [Conf] at hc ⊢
    exact ⟨selfOk_same self _ _ h.1 hc.1, confL_same cs _ _ h.2 hc.2⟩
theorem confL_same : ∀ (cs : List LCell) (a b : SNode), SameL cs a b → ConfL cs a → ConfL cs b
  | [], _, _, _, _ => by simp [ConfL]
  | c :: cs, a, b, h, hc => by
    simp only [SameL] at h
    simp only [ConfL] at hc ⊢
    exact ⟨conf_same c a b h.1 hc.1, confL_same cs a b h.2 hc.2⟩
end

theorem conforms_same (lay : LNode) (a b : SNode) (h : SameN lay.cells a b) (hc : Conforms lay a) : Conforms lay b :=
  ⟨selfOk_same lay.self a b h.1 hc.1, confL_same lay.cells a b h.2 hc.2⟩

end Mimium.Publish
