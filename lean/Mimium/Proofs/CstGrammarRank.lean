import Mimium.Model.CstGrammar
/-!
# A static termination analysis of the ported grammar (`Model/CstGrammar.lean`)

The recursion of the grammar functions is not structural: `parse_statement → parse_expr → … → parse_primary → parse_block_expr →
parse_statement`.  It terminates because on every cycle of the call graph a token is consumed, or — between two tokens — the
calls descend along a fixed order of the functions that depends only on the token under the cursor (`parse_primary` calls
`parse_block_expr` only on `{`, and `parse_block_expr` entered on `{` consumes it before it calls anything).

This file makes that argument a CHECKED analysis: `rank t p` orders the tags for each possible `peek() = p`; `chk t (body t)`
abstractly interprets a body over the domain "`adv` (a token has been consumed since the function was entered, and there was
one to consume) / `ge pk` (the cursor may still be where it was on entry, and then `peek()` is one of `pk`)", refines `pk` at
every condition that tests `peek()`, and requires at every call of a tag `t'` that is not known to be `adv`: `rank t' p < rank t p`
for every `p` still possible.  `all_bodies_checked` runs it on the 73 bodies by evaluation; `Proofs/CstGrammarTerm.lean` proves the
analysis sound (a checked body makes only calls of smaller measure `rankBound · (#tokens − cursor) + rank`).
-/
namespace Mimium.Grammar
open Mimium.Gen (Kind)

/-- a possible value of `peek()` -/
abbrev PK := Option Kind

def allPK : List PK := none :: Mimium.Gen.allKinds.map some

/-- the tokens on which a function consumes before it calls anything (its dispatch tokens) -/
def first : Tag → List Kind
  | .useStmt => [.Use] | .usePath => [.Ident] | .qualifiedPath => [.Ident] | .moduleDecl => [.Mod]
  | .macroDecl => [.Macro] | .functionDecl => [.Function] | .macroExpansion => [.Ident]
  | .bracketExpr => [.BackQuote] | .escapeExpr => [.Dollar] | .letDecl => [.Let]
  | .tuplePattern => [.ParenBegin] | .recordPattern => [.BlockBegin] | .paramList => [.ParenBegin]
  | .unaryExpr => [.OpMinus, .OpSum, .Dollar, .BackQuote]
  | .argList => [.ParenBegin] | .typeAnnotation => [.Colon] | .typeTupleOrParen => [.ParenBegin] | .typeRecord => [.BlockBegin]
  | .lambdaExpr => [.LambdaArgBeginEnd] | .tupleExpr => [.ParenBegin] | .recordExpr => [.BlockBegin] | .blockExpr => [.BlockBegin]
  | .ifExpr => [.If] | .matchExpr => [.Match] | .matchTuplePattern => [.ParenBegin]
  | .typeDecl => [.Type] | .typeAliasDecl => [.Type] | .arrayExpr => [.ArrayBegin]
  | _ => []

/-- rank when entered on one of its `first` tokens -/
def lo : Tag → Nat
  | .unaryExpr => 2 | .macroExpansion => 2
  | _ => 1

/-- rank otherwise -/
def hi : Tag → Nat
  | .typePrimary => 3 | .typeUnion => 4 | .type_ => 5
  | .pattern => 3 | .matchPattern => 3 | .primary => 3
  | .postfixLoop => 2 | .postfixExpr => 4 | .prefixExpr => 5
  | .exprPrec => 6 | .exprPrecNoLb => 6 | .assignmentExpr => 7 | .expr => 8
  | .matchArm => 9 | .statement => 9
  | .matchArmLoop => 10 | .blockLoop => 10 | .moduleLoop => 10 | .programLoop => 10
  | .useStmt => 21 | .macroExpansion => 21
  | t => if (first t).isEmpty then 1 else 20

def rank (t : Tag) : PK → Nat
  | some k => if (first t).contains k then lo t else hi t
  | none => hi t

/-- entered on one of these tokens, the function has consumed a token when it returns -/
def advSet : Tag → List Kind
  | .argList => [.ParenBegin]
  | .typeTupleOrParen => [.ParenBegin]
  | .qualifiedPath => [.Ident]
  | _ => []

/-- can the condition be true (`.1`) / false (`.2`) when `peek() = p`? (exact for the tests of the token under the cursor) -/
def may : Cond → PK → Bool × Bool
  | .peekIn 0 ks, some k => (ks.contains k, !ks.contains k)
  | .peekIn 0 _, none => (false, true)
  | .peekNone 0, p => (p.isNone, p.isSome)
  | .atEnd, none => (true, false)
  | .atEnd, some k => (k == .Eof, !(k == .Eof))
  | .isInfix, some k => ((infixPrec k).isSome, (infixPrec k).isNone)
  | .isInfix, none => (false, true)
  | .infixBelowA, some k => ((infixPrec k).isSome, true)
  | .infixBelowA, none => (false, true)
  | .neg c, p => ((may c p).2, (may c p).1)
  | .both c d, p => ((may c p).1 && (may d p).1, (may c p).2 || (may d p).2)
  | .either c d, p => ((may c p).1 || (may d p).1, (may c p).2 && (may d p).2)
  | _, _ => (true, true)

/-- abstract position of the cursor relative to the entry of the function -/
inductive Abs where
  | adv                    -- a token was consumed since entry, and the entry cursor was in range
  | ge (pk : List PK)      -- not before the entry cursor; if still there (or entry was at the end): `peek() ∈ pk`
deriving Repr, DecidableEq

def Abs.refine (c : Cond) (b : Bool) : Abs → Abs
  | .adv => .adv
  | .ge pk => .ge (pk.filter fun p => if b then (may c p).1 else (may c p).2)

/-- after a `bump` / after the cursor has moved -/
def Abs.moved : Abs → Abs
  | .adv => .adv
  | .ge pk => if pk.contains none then .ge [none] else .adv

def Abs.join : Abs → Abs → Abs
  | .adv, x => x
  | x, .adv => x
  | .ge p, .ge q => .ge (p ++ q)

def Abs.afterCall (t' : Tag) : Abs → Abs
  | .adv => .adv
  | .ge pk => .ge (pk.filter fun p => match p with | some k => !(advSet t').contains k | none => true)

def edgeOk (t t' : Tag) : Abs → Bool
  | .adv => true
  | .ge pk => pk.all fun p => decide (rank t' p < rank t p)

/-- the analysis of the body of `t`: `none` = some call is not justified -/
def chk (t : Tag) : Cmd → Abs → Option Abs
  | .skip, a => some a
  | .seq c d, a => match chk t c a with | some a1 => chk t d a1 | none => none
  | .ite c x y, a =>
    match chk t x (a.refine c true), chk t y (a.refine c false) with
    | some r1, some r2 => some (r1.join r2)
    | _, _ => none
  | .node _ c, a => chk t c a
  | .nodeAtB _ c, a => chk t c a
  | .bump, a => some a.moved
  | .bumpAs _, a => some a.moved
  | .err _, a => some a
  | .call t', a => if edgeOk t t' a then some (a.afterCall t') else none
  | .callA t' _, a => if edgeOk t t' a then some (a.afterCall t') else none
  | .setBMarker, a => some a
  | .setBMarkerPred, a => some a
  | .progress c _ e, a =>
    match chk t c a with
    | none => none
    | some a1 =>
      match chk t e ((a1.refine .atEnd true).join a.moved) with
      | none => none
      | some r2 => some (((a1.refine .atEnd false).moved).join r2)

def Abs.isAdv : Abs → Bool
  | .adv => true
  | .ge pk => pk.isEmpty

/-- the two obligations of a tag: every call of its body is justified from an arbitrary entry, and entered on a token of
`advSet` the body ends in `adv` -/
def tagOk (t : Tag) : Bool :=
  (chk t (body t) (.ge allPK)).isSome &&
  (match chk t (body t) (.ge ((advSet t).map some)) with | some a => a.isAdv | none => false)

def allTags : List Tag := [
  .programLoop, .statement, .moduleDecl, .moduleLoop, .useStmt, .usePath, .usePathLoop, .useMultiLoop, .qualifiedPath,
  .qualifiedPathLoop, .macroDecl, .includeStmt, .stageDecl, .macroExpansion, .macroArgLoop, .bracketExpr, .escapeExpr,
  .functionDecl, .letDecl, .letrecDecl, .pattern, .tuplePattern, .tuplePatternLoop, .recordPattern, .recordPatternLoop,
  .paramList, .paramLoop, .expr, .assignmentExpr, .exprPrec, .prattLoop, .exprPrecNoLb, .prattLoopNoLb, .prefixExpr, .unaryExpr,
  .postfixExpr, .postfixLoop, .argList, .argLoop, .typeAnnotation, .type_, .typeUnion, .typeUnionLoop, .typePrimary,
  .typeIdentLoop, .typeTupleOrParen, .typeTupleLoop, .typeRecord, .typeRecordLoop, .primary, .lambdaExpr, .lambdaParamLoop,
  .tupleExpr, .tupleExprLoop, .recordExpr, .recordUpdateLoop, .recordFieldLoop, .blockExpr, .blockLoop, .ifExpr, .matchExpr,
  .matchArmLoop, .matchArm, .matchPattern, .matchTuplePattern, .matchTuplePatternLoop, .typeDecl, .typeDeclLoop, .typeAliasDecl,
  .variantDef, .variantLoop, .arrayExpr, .arrayLoop]

end Mimium.Grammar
