import Mimium.Proofs.LiveCodingExt
/-!
# lemmas about `Model/LiveCoding.lean` (4): the layout of ALL stateful sites (`fullE`)

* `fullE_covers`: the full layout covers the expression (`Covers`), for EVERY program — no class condition;
* `fullE_good`: sibling sites distinct, ring lengths word-sized, when the sites of every body are (`SitesOk`);
* `pubE_zero`: where the published cells own no word, the full cells own no word either (every program);
* `pubE_ext`: in the wide class (`armsZE`: only zero-sized cells published for `if` arms) the full layout is the published
  layout extended by zero-sized cells (`ExtL`);
* `full_layout_exists`: the facts about `fullFn P dsp` the session theorem needs.
-/
namespace Mimium.LiveCoding
open Mimium.Core Mimium.Cells Mimium.StateTree Mimium.FlatTree Mimium.Publish

/-! ### inversion of `fullE` -/

theorem fullE_bin_inv {tbl op a b seg} (h : fullE tbl (.bin op a b) = some seg) :
    ∃ s1 s2, fullE tbl a = some s1 ∧ fullE tbl b = some s2 ∧ seg = s1 ++ s2 := by
  rw [fullE] at h; exact pub2_inv h
theorem fullE_letE_inv {tbl x a b seg} (h : fullE tbl (.letE x a b) = some seg) :
    ∃ s1 s2, fullE tbl a = some s1 ∧ fullE tbl b = some s2 ∧ seg = s1 ++ s2 := by
  rw [fullE] at h; exact pub2_inv h
theorem fullE_letTup_inv {tbl xs a b seg} (h : fullE tbl (.letTup xs a b) = some seg) :
    ∃ s1 s2, fullE tbl a = some s1 ∧ fullE tbl b = some s2 ∧ seg = s1 ++ s2 := by
  rw [fullE] at h; exact pub2_inv h
theorem fullE_assign_inv {tbl x a b seg} (h : fullE tbl (.assign x a b) = some seg) :
    ∃ s1 s2, fullE tbl a = some s1 ∧ fullE tbl b = some s2 ∧ seg = s1 ++ s2 := by
  rw [fullE] at h; exact pub2_inv h
theorem fullE_app_inv {tbl f args seg} (h : fullE tbl (.app f args) = some seg) :
    ∃ s1 s2, fullE tbl f = some s1 ∧ fullL tbl args = some s2 ∧ seg = s1 ++ s2 := by
  rw [fullE] at h; exact pub2_inv h
theorem fullL_cons_inv {tbl e es seg} (h : fullL tbl (e :: es) = some seg) :
    ∃ s1 s2, fullE tbl e = some s1 ∧ fullL tbl es = some s2 ∧ seg = s1 ++ s2 := by
  rw [fullL] at h; exact pub2_inv h
theorem fullE_ite_inv {tbl c a b seg} (h : fullE tbl (.ite c a b) = some seg) :
    ∃ sc sa sb, fullE tbl c = some sc ∧ fullE tbl a = some sa ∧ fullE tbl b = some sb ∧ seg = sc ++ (sa ++ sb) := by
  rw [fullE] at h
  cases hc : fullE tbl c <;> cases ha : fullE tbl a <;> cases hb : fullE tbl b <;> simp_all
theorem fullE_mem_inv {tbl a site seg} (h : fullE tbl (.mem a site) = some seg) :
    ∃ s, fullE tbl a = some s ∧ seg = s ++ [.mem site] := by
  rw [fullE] at h
  cases ha : fullE tbl a <;> simp_all
theorem fullE_delay_inv {tbl n a t site seg} (h : fullE tbl (.delay n a t site) = some seg) :
    ∃ s1 s2, fullE tbl a = some s1 ∧ fullE tbl t = some s2 ∧ seg = s1 ++ s2 ++ [.delay site n] := by
  rw [fullE] at h
  cases ha : fullE tbl a <;> cases ht : fullE tbl t <;> simp_all
theorem fullE_call_inv {tbl f args site seg} (h : fullE tbl (.call f args site) = some seg) :
    ∃ s lay, fullL tbl args = some s ∧ tbl f = some lay ∧ seg = s ++ [.child site lay.self lay.cells] := by
  rw [fullE] at h
  cases ha : fullL tbl args <;> cases hf : tbl f <;> simp_all

/-! ### the full layout covers the expression -/

def TableCovers (P : Prog) (tbl : Table) : Prop :=
  ∀ f lay, tbl f = some lay → ∀ d, findFn P.fns f = some d → d.selfShape = lay.self ∧ Covers P lay.cells d.body

theorem sub_l {α : Type} {s1 s2 cells : List α} (h : ∀ c ∈ s1 ++ s2, c ∈ cells) : ∀ c ∈ s1, c ∈ cells :=
  fun c hc => h c (List.mem_append_left _ hc)
theorem sub_r {α : Type} {s1 s2 cells : List α} (h : ∀ c ∈ s1 ++ s2, c ∈ cells) : ∀ c ∈ s2, c ∈ cells :=
  fun c hc => h c (List.mem_append_right _ hc)

mutual
theorem fullE_covers (P : Prog) (tbl : Table) (ht : TableCovers P tbl) :
    ∀ (e : Expr) (seg cells : List LCell), fullE tbl e = some seg → (∀ c ∈ seg, c ∈ cells) → Covers P cells e
  | .lit _, _, _, _, _ => .lit
  | .var _, _, _, _, _ => .var
  | .now, _, _, _, _ => .now
  | .samplerate, _, _, _, _ => .samplerate
  | .self, _, _, _, _ => .self
  | .lam _ _, _, _, _, _ => .lam
  | .un _ a, seg, cells, h, hs => by
    rw [fullE] at h; exact .un (fullE_covers P tbl ht a seg cells h hs)
  | .proj a _, seg, cells, h, hs => by
    rw [fullE] at h; exact .proj (fullE_covers P tbl ht a seg cells h hs)
  | .bin _ a b, seg, cells, h, hs => by
    obtain ⟨s1, s2, h1, h2, rfl⟩ := fullE_bin_inv h
    exact .bin (fullE_covers P tbl ht a s1 cells h1 (sub_l hs)) (fullE_covers P tbl ht b s2 cells h2 (sub_r hs))
  | .letE _ a b, seg, cells, h, hs => by
    obtain ⟨s1, s2, h1, h2, rfl⟩ := fullE_letE_inv h
    exact .letE (fullE_covers P tbl ht a s1 cells h1 (sub_l hs)) (fullE_covers P tbl ht b s2 cells h2 (sub_r hs))
  | .letTup _ a b, seg, cells, h, hs => by
    obtain ⟨s1, s2, h1, h2, rfl⟩ := fullE_letTup_inv h
    exact .letTup (fullE_covers P tbl ht a s1 cells h1 (sub_l hs)) (fullE_covers P tbl ht b s2 cells h2 (sub_r hs))
  | .assign _ a b, seg, cells, h, hs => by
    obtain ⟨s1, s2, h1, h2, rfl⟩ := fullE_assign_inv h
    exact .assign (fullE_covers P tbl ht a s1 cells h1 (sub_l hs)) (fullE_covers P tbl ht b s2 cells h2 (sub_r hs))
  | .ite c a b, seg, cells, h, hs => by
    obtain ⟨sc, sa, sb, hc, h1, h2, rfl⟩ := fullE_ite_inv h
    exact .ite (fullE_covers P tbl ht c sc cells hc (sub_l hs)) (fullE_covers P tbl ht a sa cells h1 (sub_l (sub_r hs)))
      (fullE_covers P tbl ht b sb cells h2 (sub_r (sub_r hs)))
  | .tup es, seg, cells, h, hs => by
    rw [fullE] at h; exact .tup (fullL_covers P tbl ht es seg cells h hs)
  | .app f args, seg, cells, h, hs => by
    obtain ⟨s1, s2, h1, h2, rfl⟩ := fullE_app_inv h
    exact .app (fullE_covers P tbl ht f s1 cells h1 (sub_l hs)) (fullL_covers P tbl ht args s2 cells h2 (sub_r hs))
  | .mem a site, seg, cells, h, hs => by
    obtain ⟨s, h1, rfl⟩ := fullE_mem_inv h
    exact .mem (fullE_covers P tbl ht a s cells h1 (sub_l hs)) (hs _ (by simp))
  | .delay n a t site, seg, cells, h, hs => by
    obtain ⟨s1, s2, h1, h2, rfl⟩ := fullE_delay_inv h
    exact .delay (fullE_covers P tbl ht a s1 cells h1 (sub_l (sub_l hs))) (fullE_covers P tbl ht t s2 cells h2 (sub_r (sub_l hs)))
      (hs _ (by simp))
  | .call f args site, seg, cells, h, hs => by
    obtain ⟨s, lay, h1, hf, rfl⟩ := fullE_call_inv h
    exact .call (fullL_covers P tbl ht args s cells h1 (sub_l hs)) (hs _ (by simp))
      (fun d hd => (ht f lay hf d hd).1) (fun d hd => (ht f lay hf d hd).2)
theorem fullL_covers (P : Prog) (tbl : Table) (ht : TableCovers P tbl) :
    ∀ (es : List Expr) (seg cells : List LCell), fullL tbl es = some seg → (∀ c ∈ seg, c ∈ cells) →
      ∀ e ∈ es, Covers P cells e
  | [], _, _, _, _ => by intro e he; simp at he
  | e :: es, seg, cells, h, hs => by
    obtain ⟨s1, s2, h1, h2, rfl⟩ := fullL_cons_inv h
    intro e' he'
    simp only [List.mem_cons] at he'
    rcases he' with rfl | he'
    · exact fullE_covers P tbl ht e' s1 cells h1 (sub_l hs)
    · exact fullL_covers P tbl ht es s2 cells h2 (sub_r hs) e' he'
end

theorem tableF_covers (P : Prog) : ∀ n, TableCovers P (tableF P n)
  | 0 => by intro f lay h; simp [tableF] at h
  | n + 1 => by
    intro f lay h d hd
    simp only [tableF, hd] at h
    cases hb : fullE (tableF P n) d.body with
    | none => simp [hb] at h
    | some cells =>
      simp only [hb, Option.some.injEq] at h
      subst h
      exact ⟨rfl, fullE_covers P _ (tableF_covers P n) d.body cells cells hb (fun _ hc => hc)⟩

/-! ### the full layout is well formed -/

mutual
theorem fullE_good (tbl : Table) (ht : TableOk tbl) :
    ∀ (e : Expr) (seg : List LCell), LensOk (siteLens e) → fullE tbl e = some seg → Good (siteLens e) seg
  | .lit _, seg, _, h => by rw [fullE] at h; cases h; exact Good.nil _
  | .var _, seg, _, h => by rw [fullE] at h; cases h; exact Good.nil _
  | .now, seg, _, h => by rw [fullE] at h; cases h; exact Good.nil _
  | .samplerate, seg, _, h => by rw [fullE] at h; cases h; exact Good.nil _
  | .self, seg, _, h => by rw [fullE] at h; cases h; exact Good.nil _
  | .lam _ _, seg, _, h => by rw [fullE] at h; cases h; exact Good.nil _
  | .un _ a, seg, hl, h => by
    rw [fullE] at h; rw [siteLens] at hl ⊢
    exact fullE_good tbl ht a seg hl h
  | .proj a _, seg, hl, h => by
    rw [fullE] at h; rw [siteLens] at hl ⊢
    exact fullE_good tbl ht a seg hl h
  | .bin _ a b, seg, hl, h => by
    obtain ⟨s1, s2, h1, h2, rfl⟩ := fullE_bin_inv h
    rw [siteLens] at hl ⊢
    exact Good.append hl (fullE_good tbl ht a s1 hl.left h1) (fullE_good tbl ht b s2 hl.right h2)
  | .letE _ a b, seg, hl, h => by
    obtain ⟨s1, s2, h1, h2, rfl⟩ := fullE_letE_inv h
    rw [siteLens] at hl ⊢
    exact Good.append hl (fullE_good tbl ht a s1 hl.left h1) (fullE_good tbl ht b s2 hl.right h2)
  | .letTup _ a b, seg, hl, h => by
    obtain ⟨s1, s2, h1, h2, rfl⟩ := fullE_letTup_inv h
    rw [siteLens] at hl ⊢
    exact Good.append hl (fullE_good tbl ht a s1 hl.left h1) (fullE_good tbl ht b s2 hl.right h2)
  | .assign _ a b, seg, hl, h => by
    obtain ⟨s1, s2, h1, h2, rfl⟩ := fullE_assign_inv h
    rw [siteLens] at hl ⊢
    exact Good.append hl (fullE_good tbl ht a s1 hl.left h1) (fullE_good tbl ht b s2 hl.right h2)
  | .ite c a b, seg, hl, h => by
    obtain ⟨sc, sa, sb, hc, h1, h2, rfl⟩ := fullE_ite_inv h
    rw [siteLens] at hl ⊢
    exact Good.append hl (fullE_good tbl ht c sc hl.left hc)
      (Good.append hl.right (fullE_good tbl ht a sa hl.right.left h1) (fullE_good tbl ht b sb hl.right.right h2))
  | .tup es, seg, hl, h => by
    rw [fullE] at h; rw [siteLens] at hl ⊢
    exact fullL_good tbl ht es seg hl h
  | .app f args, seg, hl, h => by
    obtain ⟨s1, s2, h1, h2, rfl⟩ := fullE_app_inv h
    rw [siteLens] at hl ⊢
    exact Good.append hl (fullE_good tbl ht f s1 hl.left h1) (fullL_good tbl ht args s2 hl.right h2)
  | .mem a site, seg, hl, h => by
    obtain ⟨s, h1, rfl⟩ := fullE_mem_inv h
    rw [siteLens] at hl ⊢
    exact Good.append hl (fullE_good tbl ht a s hl.left h1) (Good.single (.mem site) 0 (by simp [LayOk]))
  | .delay n a t site, seg, hl, h => by
    obtain ⟨s1, s2, h1, h2, rfl⟩ := fullE_delay_inv h
    rw [siteLens] at hl ⊢
    have hn : n < 2 ^ 64 := hl.2 (site, n) (by simp)
    exact Good.append hl (Good.append hl.left (fullE_good tbl ht a s1 hl.left.left h1) (fullE_good tbl ht t s2 hl.left.right h2))
      (Good.single (.delay site n) n (by simpa [LayOk] using hn))
  | .call f args site, seg, hl, h => by
    obtain ⟨s, lay, h1, hf, rfl⟩ := fullE_call_inv h
    rw [siteLens] at hl ⊢
    exact Good.append hl (fullL_good tbl ht args s hl.left h1)
      (Good.single (.child site lay.self lay.cells) 0 (by simpa [LayOk] using ht f lay hf))
theorem fullL_good (tbl : Table) (ht : TableOk tbl) :
    ∀ (es : List Expr) (seg : List LCell), LensOk (siteLensL es) → fullL tbl es = some seg → Good (siteLensL es) seg
  | [], seg, _, h => by rw [fullL] at h; cases h; exact Good.nil _
  | e :: es, seg, hl, h => by
    obtain ⟨s1, s2, h1, h2, rfl⟩ := fullL_cons_inv h
    rw [siteLensL] at hl ⊢
    exact Good.append hl (fullE_good tbl ht e s1 hl.left h1) (fullL_good tbl ht es s2 hl.right h2)
end

theorem tableF_ok (P : Prog) (hs : SitesUnique P) : ∀ n, TableOk (tableF P n)
  | 0 => by intro f lay h; simp [tableF] at h
  | n + 1 => by
    intro f lay h
    simp only [tableF] at h
    cases hd : findFn P.fns f with
    | none => simp [hd] at h
    | some d =>
      simp only [hd] at h
      cases hb : fullE (tableF P n) d.body with
      | none => simp [hb] at h
      | some cells =>
        simp only [hb, Option.some.injEq] at h
        subst h
        exact (fullE_good _ (tableF_ok P hs n) d.body cells (hs d (findFn_mem hd)) hb).1

/-! ### `ExtL`: closure properties -/

theorem extL_nil_nil : ExtL [] [] := by simp [ExtL]

theorem extL_nil_of_zero : ∀ (fs : List LCell), sizeCells fs = 0 → ExtL [] fs
  | [], _ => extL_nil_nil
  | f :: fs, h => by
    simp only [sizeCells] at h
    simp only [ExtL]
    exact Or.inr ⟨by omega, extL_nil_of_zero fs (by omega)⟩

theorem extL_append : ∀ (f1 c1 c2 f2 : List LCell), ExtL c1 f1 → ExtL c2 f2 → ExtL (c1 ++ c2) (f1 ++ f2)
  | [], c1, c2, f2, h1, h2 => by simp only [ExtL] at h1; subst h1; simpa using h2
  | f :: f1, c1, c2, f2, h1, h2 => by
    simp only [ExtL] at h1
    simp only [List.cons_append, ExtL]
    rcases h1 with ⟨c, cs', rfl, hc, hr⟩ | ⟨hz, hr⟩
    · exact Or.inl ⟨c, cs' ++ c2, rfl, hc, extL_append f1 cs' c2 f2 hr h2⟩
    · exact Or.inr ⟨hz, extL_append f1 c1 c2 f2 hr h2⟩

theorem extL_single (c f : LCell) (h : ExtC c f) : ExtL [c] [f] := by
  simp only [ExtL]
  exact Or.inl ⟨c, [], rfl, h, rfl⟩

/-! ### zero-sized published cells: zero-sized full cells (every program) -/

def TableZero (tbl tblF : Table) : Prop :=
  ∀ f lay, tbl f = some lay → ∃ layF, tblF f = some layF ∧ layF.self = lay.self ∧
    (sizeCells lay.cells = 0 → sizeCells layF.cells = 0)

theorem size_append_zero {a b : List LCell} (h : sizeCells (a ++ b) = 0) : sizeCells a = 0 ∧ sizeCells b = 0 := by
  rw [sizeCells_append] at h; omega

mutual
theorem pubE_zero (tbl tblF : Table) (ht : TableZero tbl tblF) :
    ∀ (e : Expr) (seg : List LCell), pubE tbl e = some seg →
      ∃ segF, fullE tblF e = some segF ∧ (sizeCells seg = 0 → sizeCells segF = 0)
  | .lit _, seg, h => by rw [pubE] at h; cases h; exact ⟨[], by rw [fullE], fun _ => rfl⟩
  | .var _, seg, h => by rw [pubE] at h; cases h; exact ⟨[], by rw [fullE], fun _ => rfl⟩
  | .now, seg, h => by rw [pubE] at h; cases h; exact ⟨[], by rw [fullE], fun _ => rfl⟩
  | .samplerate, seg, h => by rw [pubE] at h; cases h; exact ⟨[], by rw [fullE], fun _ => rfl⟩
  | .self, seg, h => by rw [pubE] at h; cases h; exact ⟨[], by rw [fullE], fun _ => rfl⟩
  | .lam _ _, seg, h => by rw [pubE] at h; cases h; exact ⟨[], by rw [fullE], fun _ => rfl⟩
  | .un _ a, seg, h => by
    rw [pubE] at h
    obtain ⟨sF, e1, z1⟩ := pubE_zero tbl tblF ht a seg h
    exact ⟨sF, by rw [fullE, e1], z1⟩
  | .proj a _, seg, h => by
    rw [pubE] at h
    obtain ⟨sF, e1, z1⟩ := pubE_zero tbl tblF ht a seg h
    exact ⟨sF, by rw [fullE, e1], z1⟩
  | .bin _ a b, seg, h => by
    obtain ⟨s1, s2, h1, h2, rfl⟩ := pubE_bin_inv h
    obtain ⟨f1, e1, z1⟩ := pubE_zero tbl tblF ht a s1 h1
    obtain ⟨f2, e2, z2⟩ := pubE_zero tbl tblF ht b s2 h2
    refine ⟨f1 ++ f2, by rw [fullE, e1, e2], fun hz => ?_⟩
    have := size_append_zero hz
    rw [sizeCells_append, z1 this.1, z2 this.2]
  | .letE _ a b, seg, h => by
    obtain ⟨s1, s2, h1, h2, rfl⟩ := pubE_letE_inv h
    obtain ⟨f1, e1, z1⟩ := pubE_zero tbl tblF ht a s1 h1
    obtain ⟨f2, e2, z2⟩ := pubE_zero tbl tblF ht b s2 h2
    refine ⟨f1 ++ f2, by rw [fullE, e1, e2], fun hz => ?_⟩
    have := size_append_zero hz
    rw [sizeCells_append, z1 this.1, z2 this.2]
  | .letTup _ a b, seg, h => by
    obtain ⟨s1, s2, h1, h2, rfl⟩ := pubE_letTup_inv h
    obtain ⟨f1, e1, z1⟩ := pubE_zero tbl tblF ht a s1 h1
    obtain ⟨f2, e2, z2⟩ := pubE_zero tbl tblF ht b s2 h2
    refine ⟨f1 ++ f2, by rw [fullE, e1, e2], fun hz => ?_⟩
    have := size_append_zero hz
    rw [sizeCells_append, z1 this.1, z2 this.2]
  | .assign _ a b, seg, h => by
    obtain ⟨s1, s2, h1, h2, rfl⟩ := pubE_assign_inv h
    obtain ⟨f1, e1, z1⟩ := pubE_zero tbl tblF ht a s1 h1
    obtain ⟨f2, e2, z2⟩ := pubE_zero tbl tblF ht b s2 h2
    refine ⟨f1 ++ f2, by rw [fullE, e1, e2], fun hz => ?_⟩
    have := size_append_zero hz
    rw [sizeCells_append, z1 this.1, z2 this.2]
  | .ite c a b, seg, h => by
    obtain ⟨sc, sa, sb, hc, h1, h2, rfl⟩ := pubE_ite_inv h
    obtain ⟨fc, ec, zc⟩ := pubE_zero tbl tblF ht c sc hc
    obtain ⟨f1, e1, z1⟩ := pubE_zero tbl tblF ht a sa h1
    obtain ⟨f2, e2, z2⟩ := pubE_zero tbl tblF ht b sb h2
    refine ⟨fc ++ (f1 ++ f2), by rw [fullE, ec, e1, e2], fun hz => ?_⟩
    have hz' := size_append_zero hz
    have ha : sizeCells sa = 0 := (size_append_zero hz'.2).1
    have hb : sizeCells sb = 0 := (size_append_zero hz'.2).2
    rw [sizeCells_append, sizeCells_append, zc hz'.1, z1 ha, z2 hb]
  | .tup es, seg, h => by
    rw [pubE] at h
    obtain ⟨sF, e1, z1⟩ := pubL_zero tbl tblF ht es seg h
    exact ⟨sF, by rw [fullE, e1], z1⟩
  | .app f args, seg, h => by
    obtain ⟨s1, s2, h1, h2, rfl⟩ := pubE_app_inv h
    obtain ⟨f1, e1, z1⟩ := pubE_zero tbl tblF ht f s1 h1
    obtain ⟨f2, e2, z2⟩ := pubL_zero tbl tblF ht args s2 h2
    refine ⟨f1 ++ f2, by rw [fullE, e1, e2], fun hz => ?_⟩
    have := size_append_zero hz
    rw [sizeCells_append, z1 this.1, z2 this.2]
  | .mem a site, seg, h => by
    obtain ⟨s, h1, rfl⟩ := pubE_mem_inv h
    obtain ⟨f1, e1, _⟩ := pubE_zero tbl tblF ht a s h1
    refine ⟨f1 ++ [.mem site], by rw [fullE, e1], fun hz => ?_⟩
    have := (size_append_zero hz).2
    simp [sizeCells, LCell.size] at this
  | .delay n a t site, seg, h => by
    obtain ⟨s1, s2, h1, h2, rfl⟩ := pubE_delay_inv h
    obtain ⟨f1, e1, _⟩ := pubE_zero tbl tblF ht a s1 h1
    obtain ⟨f2, e2, _⟩ := pubE_zero tbl tblF ht t s2 h2
    refine ⟨f1 ++ f2 ++ [.delay site n], by rw [fullE, e1, e2], fun hz => ?_⟩
    have := (size_append_zero hz).2
    simp only [sizeCells, Nat.add_zero] at this
    exact absurd this (delay_size_pos site n)
  | .call f args site, seg, h => by
    obtain ⟨s, lay, h1, hf, rfl⟩ := pubE_call_inv h
    obtain ⟨f1, e1, z1⟩ := pubL_zero tbl tblF ht args s h1
    obtain ⟨layF, hF, hself, hz0⟩ := ht f lay hf
    refine ⟨f1 ++ [.child site layF.self layF.cells], by rw [fullE, e1, hF], fun hz => ?_⟩
    have hz' := size_append_zero hz
    have h2 := hz'.2
    simp only [sizeCells, LCell.size, Nat.add_zero] at h2
    rw [sizeCells_append, z1 hz'.1]
    simp only [sizeCells, LCell.size, Nat.add_zero, Nat.zero_add, hself]
    rw [hz0 (by omega)]; omega
theorem pubL_zero (tbl tblF : Table) (ht : TableZero tbl tblF) :
    ∀ (es : List Expr) (seg : List LCell), pubL tbl es = some seg →
      ∃ segF, fullL tblF es = some segF ∧ (sizeCells seg = 0 → sizeCells segF = 0)
  | [], seg, h => by rw [pubL] at h; cases h; exact ⟨[], by rw [fullL], fun _ => rfl⟩
  | e :: es, seg, h => by
    obtain ⟨s1, s2, h1, h2, rfl⟩ := pubL_cons_inv h
    obtain ⟨f1, e1, z1⟩ := pubE_zero tbl tblF ht e s1 h1
    obtain ⟨f2, e2, z2⟩ := pubL_zero tbl tblF ht es s2 h2
    refine ⟨f1 ++ f2, by rw [fullL, e1, e2], fun hz => ?_⟩
    have := size_append_zero hz
    rw [sizeCells_append, z1 this.1, z2 this.2]
end

theorem table_zero (P : Prog) : ∀ n, TableZero (table P n) (tableF P n)
  | 0 => by intro f lay h; simp [table] at h
  | n + 1 => by
    intro f lay h
    simp only [table] at h
    cases hd : findFn P.fns f with
    | none => simp [hd] at h
    | some d =>
      simp only [hd] at h
      cases hb : pubE (table P n) d.body with
      | none => simp [hb] at h
      | some cells =>
        simp only [hb, Option.some.injEq] at h
        subst h
        obtain ⟨cellsF, eF, zF⟩ := pubE_zero _ _ (table_zero P n) d.body cells hb
        exact ⟨⟨d.selfShape, cellsF⟩, by simp [tableF, hd, eF], rfl, zF⟩

/-! ### in the wide class the full layout extends the published one -/

def TableExt (tbl tblF : Table) (ok : String → Bool) : Prop :=
  ∀ f lay, tbl f = some lay → ok f = true → ∃ layF, tblF f = some layF ∧ layF.self = lay.self ∧ ExtL lay.cells layF.cells

mutual
theorem pubE_ext (tbl tblF : Table) (ok : String → Bool) (hz : TableZero tbl tblF) (ht : TableExt tbl tblF ok)
    (hT : StatelessOk tbl ok) :
    ∀ (e : Expr) (seg : List LCell), armsZE tbl ok e = true → pubE tbl e = some seg →
      ∃ segF, fullE tblF e = some segF ∧ ExtL seg segF
  | .lit _, seg, _, h => by rw [pubE] at h; cases h; exact ⟨[], by rw [fullE], extL_nil_nil⟩
  | .var _, seg, _, h => by rw [pubE] at h; cases h; exact ⟨[], by rw [fullE], extL_nil_nil⟩
  | .now, seg, _, h => by rw [pubE] at h; cases h; exact ⟨[], by rw [fullE], extL_nil_nil⟩
  | .samplerate, seg, _, h => by rw [pubE] at h; cases h; exact ⟨[], by rw [fullE], extL_nil_nil⟩
  | .self, seg, _, h => by rw [pubE] at h; cases h; exact ⟨[], by rw [fullE], extL_nil_nil⟩
  | .lam _ _, seg, _, h => by rw [pubE] at h; cases h; exact ⟨[], by rw [fullE], extL_nil_nil⟩
  | .un _ a, seg, ha, h => by
    rw [pubE] at h; rw [armsZE] at ha
    obtain ⟨sF, e1, x1⟩ := pubE_ext tbl tblF ok hz ht hT a seg ha h
    exact ⟨sF, by rw [fullE, e1], x1⟩
  | .proj a _, seg, ha, h => by
    rw [pubE] at h; rw [armsZE] at ha
    obtain ⟨sF, e1, x1⟩ := pubE_ext tbl tblF ok hz ht hT a seg ha h
    exact ⟨sF, by rw [fullE, e1], x1⟩
  | .bin _ a b, seg, ha, h => by
    obtain ⟨s1, s2, h1, h2, rfl⟩ := pubE_bin_inv h
    rw [armsZE, Bool.and_eq_true] at ha
    obtain ⟨f1, e1, x1⟩ := pubE_ext tbl tblF ok hz ht hT a s1 ha.1 h1
    obtain ⟨f2, e2, x2⟩ := pubE_ext tbl tblF ok hz ht hT b s2 ha.2 h2
    exact ⟨f1 ++ f2, by rw [fullE, e1, e2], extL_append _ _ _ _ x1 x2⟩
  | .letE _ a b, seg, ha, h => by
    obtain ⟨s1, s2, h1, h2, rfl⟩ := pubE_letE_inv h
    rw [armsZE, Bool.and_eq_true] at ha
    obtain ⟨f1, e1, x1⟩ := pubE_ext tbl tblF ok hz ht hT a s1 ha.1 h1
    obtain ⟨f2, e2, x2⟩ := pubE_ext tbl tblF ok hz ht hT b s2 ha.2 h2
    exact ⟨f1 ++ f2, by rw [fullE, e1, e2], extL_append _ _ _ _ x1 x2⟩
  | .letTup _ a b, seg, ha, h => by
    obtain ⟨s1, s2, h1, h2, rfl⟩ := pubE_letTup_inv h
    rw [armsZE, Bool.and_eq_true] at ha
    obtain ⟨f1, e1, x1⟩ := pubE_ext tbl tblF ok hz ht hT a s1 ha.1 h1
    obtain ⟨f2, e2, x2⟩ := pubE_ext tbl tblF ok hz ht hT b s2 ha.2 h2
    exact ⟨f1 ++ f2, by rw [fullE, e1, e2], extL_append _ _ _ _ x1 x2⟩
  | .assign _ a b, seg, ha, h => by
    obtain ⟨s1, s2, h1, h2, rfl⟩ := pubE_assign_inv h
    rw [armsZE, Bool.and_eq_true] at ha
    obtain ⟨f1, e1, x1⟩ := pubE_ext tbl tblF ok hz ht hT a s1 ha.1 h1
    obtain ⟨f2, e2, x2⟩ := pubE_ext tbl tblF ok hz ht hT b s2 ha.2 h2
    exact ⟨f1 ++ f2, by rw [fullE, e1, e2], extL_append _ _ _ _ x1 x2⟩
  | .ite c a b, seg, ha, h => by
    obtain ⟨sc, sa, sb, hc, h1, h2, rfl⟩ := pubE_ite_inv h
    rw [armsZE] at ha
    simp only [Bool.and_eq_true] at ha
    obtain ⟨⟨⟨oc, oa⟩, _⟩, eb⟩ := ha
    have ob := armsZE_of_stateless tbl ok hT b sb h2 (stateless_of_isStateless eb h2)
    obtain ⟨fc, ec, xc⟩ := pubE_ext tbl tblF ok hz ht hT c sc oc hc
    obtain ⟨f1, e1, x1⟩ := pubE_ext tbl tblF ok hz ht hT a sa oa h1
    obtain ⟨f2, e2, x2⟩ := pubE_ext tbl tblF ok hz ht hT b sb ob h2
    exact ⟨fc ++ (f1 ++ f2), by rw [fullE, ec, e1, e2], extL_append _ _ _ _ xc (extL_append _ _ _ _ x1 x2)⟩
  | .tup es, seg, ha, h => by
    rw [pubE] at h; rw [armsZE] at ha
    obtain ⟨sF, e1, x1⟩ := pubL_ext tbl tblF ok hz ht hT es seg ha h
    exact ⟨sF, by rw [fullE, e1], x1⟩
  | .app f args, seg, ha, h => by
    obtain ⟨s1, s2, h1, h2, rfl⟩ := pubE_app_inv h
    rw [armsZE, Bool.and_eq_true] at ha
    obtain ⟨f1, e1, x1⟩ := pubE_ext tbl tblF ok hz ht hT f s1 ha.1 h1
    obtain ⟨f2, e2, x2⟩ := pubL_ext tbl tblF ok hz ht hT args s2 ha.2 h2
    exact ⟨f1 ++ f2, by rw [fullE, e1, e2], extL_append _ _ _ _ x1 x2⟩
  | .mem a site, seg, ha, h => by
    obtain ⟨s, h1, rfl⟩ := pubE_mem_inv h
    rw [armsZE] at ha
    obtain ⟨f1, e1, x1⟩ := pubE_ext tbl tblF ok hz ht hT a s ha h1
    exact ⟨f1 ++ [.mem site], by rw [fullE, e1], extL_append _ _ _ _ x1 (extL_single _ _ (by simp [ExtC]))⟩
  | .delay n a t site, seg, ha, h => by
    obtain ⟨s1, s2, h1, h2, rfl⟩ := pubE_delay_inv h
    rw [armsZE, Bool.and_eq_true] at ha
    obtain ⟨f1, e1, x1⟩ := pubE_ext tbl tblF ok hz ht hT a s1 ha.1 h1
    obtain ⟨f2, e2, x2⟩ := pubE_ext tbl tblF ok hz ht hT t s2 ha.2 h2
    exact ⟨f1 ++ f2 ++ [.delay site n], by rw [fullE, e1, e2],
      extL_append _ _ _ _ (extL_append _ _ _ _ x1 x2) (extL_single _ _ (by simp [ExtC]))⟩
  | .call f args site, seg, ha, h => by
    obtain ⟨s, lay, h1, hf, rfl⟩ := pubE_call_inv h
    rw [armsZE, Bool.and_eq_true] at ha
    obtain ⟨f1, e1, x1⟩ := pubL_ext tbl tblF ok hz ht hT args s ha.1 h1
    obtain ⟨layF, hF, hself, hx⟩ := ht f lay hf ha.2
    exact ⟨f1 ++ [.child site layF.self layF.cells], by rw [fullE, e1, hF],
      extL_append _ _ _ _ x1 (extL_single _ _ (by simp [ExtC, hself, hx]))⟩
theorem pubL_ext (tbl tblF : Table) (ok : String → Bool) (hz : TableZero tbl tblF) (ht : TableExt tbl tblF ok)
    (hT : StatelessOk tbl ok) :
    ∀ (es : List Expr) (seg : List LCell), armsZL tbl ok es = true → pubL tbl es = some seg →
      ∃ segF, fullL tblF es = some segF ∧ ExtL seg segF
  | [], seg, _, h => by rw [pubL] at h; cases h; exact ⟨[], by rw [fullL], extL_nil_nil⟩
  | e :: es, seg, ha, h => by
    obtain ⟨s1, s2, h1, h2, rfl⟩ := pubL_cons_inv h
    rw [armsZL, Bool.and_eq_true] at ha
    obtain ⟨f1, e1, x1⟩ := pubE_ext tbl tblF ok hz ht hT e s1 ha.1 h1
    obtain ⟨f2, e2, x2⟩ := pubL_ext tbl tblF ok hz ht hT es s2 ha.2 h2
    exact ⟨f1 ++ f2, by rw [fullL, e1, e2], extL_append _ _ _ _ x1 x2⟩
end

theorem table_ext (P : Prog) : ∀ n, TableExt (table P n) (tableF P n) (okTableZ P n)
  | 0 => by intro f lay h; simp [table] at h
  | n + 1 => by
    intro f lay h hok
    simp only [table] at h
    cases hd : findFn P.fns f with
    | none => simp [hd] at h
    | some d =>
      simp only [hd] at h
      simp only [okTableZ, hd] at hok
      cases hb : pubE (table P n) d.body with
      | none => simp [hb] at h
      | some cells =>
        simp only [hb, Option.some.injEq] at h
        subst h
        obtain ⟨cellsF, eF, xF⟩ := pubE_ext _ _ _ (table_zero P n) (table_ext P n) (table_statelessOk P n) d.body cells hok hb
        exact ⟨⟨d.selfShape, cellsF⟩, by simp [tableF, hd, eF], rfl, xF⟩

/-- **the full layout of a function of the wide class**: it exists, is well formed, covers the body, and is the published
layout extended by zero-sized cells -/
theorem full_layout_exists (n : Nat) (P : Prog) (d : FnDecl) (lay : LNode)
    (hpub : publishFnN n P d = some lay) (harms : noStatefulInArmsN n P d.body = true)
    (hs : SitesUnique P) (hd : SitesOk d.body) :
    ∃ full, fullFnN n P d = some full ∧ full.Ok ∧ full.self = lay.self ∧ d.selfShape = full.self ∧
      ExtL lay.cells full.cells ∧ Covers P full.cells d.body := by
  obtain ⟨hself, hcells⟩ := publishFnN_inv hpub
  obtain ⟨cellsF, eF, xF⟩ := pubE_ext _ _ _ (table_zero P n) (table_ext P n) (table_statelessOk P n) d.body lay.cells harms hcells
  refine ⟨⟨d.selfShape, cellsF⟩, by simp [fullFnN, eF], ?_, hself.symm, rfl, xF, ?_⟩
  · exact (fullE_good _ (tableF_ok P hs n) d.body cellsF hd eF).1
  · exact fullE_covers P _ (tableF_covers P n) d.body cellsF cellsF eF (fun _ hc => hc)

/-! ### after the repair of F3 the published layout IS the layout of all sites -/

mutual
theorem fullE_eq_pubE (tbl : Table) : ∀ e : Expr, fullE tbl e = pubE tbl e
  | .lit _ => by rw [fullE, pubE]
  | .var _ => by rw [fullE, pubE]
  | .now => by rw [fullE, pubE]
  | .samplerate => by rw [fullE, pubE]
  | .self => by rw [fullE, pubE]
  | .lam _ _ => by rw [fullE, pubE]
  | .un _ a => by rw [fullE, pubE, fullE_eq_pubE tbl a]
  | .proj a _ => by rw [fullE, pubE, fullE_eq_pubE tbl a]
  | .bin _ a b => by rw [fullE, pubE, fullE_eq_pubE tbl a, fullE_eq_pubE tbl b]; cases pubE tbl a <;> cases pubE tbl b <;> rfl
  | .letE _ a b => by rw [fullE, pubE, fullE_eq_pubE tbl a, fullE_eq_pubE tbl b]; cases pubE tbl a <;> cases pubE tbl b <;> rfl
  | .letTup _ a b => by rw [fullE, pubE, fullE_eq_pubE tbl a, fullE_eq_pubE tbl b]; cases pubE tbl a <;> cases pubE tbl b <;> rfl
  | .assign _ a b => by rw [fullE, pubE, fullE_eq_pubE tbl a, fullE_eq_pubE tbl b]; cases pubE tbl a <;> cases pubE tbl b <;> rfl
  | .ite c a b => by rw [fullE, pubE, fullE_eq_pubE tbl c, fullE_eq_pubE tbl a, fullE_eq_pubE tbl b]; cases pubE tbl c <;> cases pubE tbl a <;> cases pubE tbl b <;> rfl
  | .tup es => by rw [fullE, pubE, fullL_eq_pubL tbl es]
  | .app f args => by rw [fullE, pubE, fullE_eq_pubE tbl f, fullL_eq_pubL tbl args]; cases pubE tbl f <;> cases pubL tbl args <;> rfl
  | .mem a _ => by rw [fullE, pubE, fullE_eq_pubE tbl a]; cases pubE tbl a <;> rfl
  | .delay _ a t _ => by rw [fullE, pubE, fullE_eq_pubE tbl a, fullE_eq_pubE tbl t]; cases pubE tbl a <;> cases pubE tbl t <;> rfl
  | .call f args _ => by rw [fullE, pubE, fullL_eq_pubL tbl args]; cases pubL tbl args <;> cases tbl f <;> rfl
theorem fullL_eq_pubL (tbl : Table) : ∀ es : List Expr, fullL tbl es = pubL tbl es
  | [] => by rw [fullL, pubL]
  | e :: es => by rw [fullL, pubL, fullE_eq_pubE tbl e, fullL_eq_pubL tbl es]; cases pubE tbl e <;> cases pubL tbl es <;> rfl
end

theorem tableF_eq_table (P : Prog) : ∀ n, tableF P n = table P n
  | 0 => rfl
  | n + 1 => by
    funext f
    simp only [tableF, table, tableF_eq_table P n, fullE_eq_pubE]
    cases findFn P.fns f with
    | none => rfl
    | some d => simp only; cases pubE (table P n) d.body <;> rfl

theorem fullFnN_eq_publishFnN (n : Nat) (P : Prog) (d : FnDecl) : fullFnN n P d = publishFnN n P d := by
  simp only [fullFnN, publishFnN, publishEN, tableF_eq_table, fullE_eq_pubE]
  cases pubE (table P n) d.body <;> rfl

theorem fullFn_eq_publishFn (P : Prog) (d : FnDecl) : fullFn P d = publishFn P d := fullFnN_eq_publishFnN _ P d

/-- **the published layout covers the body, for EVERY program** (no class condition): every stateful construct of the
body, in either arm of any `if`, owns a cell of its kind -/
theorem publishFnN_covers (n : Nat) (P : Prog) (d : FnDecl) (lay : LNode) (hpub : publishFnN n P d = some lay) :
    lay.self = d.selfShape ∧ Covers P lay.cells d.body := by
  obtain ⟨hself, hcells⟩ := publishFnN_inv hpub
  refine ⟨hself, ?_⟩
  have hF : fullE (tableF P n) d.body = some lay.cells := by
    rw [fullE_eq_pubE, tableF_eq_table]; exact hcells
  exact fullE_covers P _ (tableF_covers P n) d.body lay.cells lay.cells hF (fun _ hc => hc)

end Mimium.LiveCoding
