import Mimium.Model.ParserLoops
import Mimium.Proofs.LexerTiling
/-! Progress and termination of the loop shapes of `cst_parser.rs`; the span of a parser error. -/
namespace Mimium.Loops
open Mimium.Cst

/-! ## the cursor -/

theorem exec_bump_current (E : Env) (st : PState) : (exec E st .bump).current = st.current + 1 := by
  simp only [exec]
  cases E.tokenIndices[st.current]? with
  | none => rfl
  | some ti =>
    simp only []
    cases E.widths[ti]? <;> rfl

theorem exec_current_le (E : Env) (st : PState) (o : Op) : st.current ≤ (exec E st o).current := by
  cases o with
  | bump => rw [exec_bump_current]; omega
  | startNode k => simp [exec]
  | startNodeAt p k => simp only [exec]; cases st.stack <;> simp
  | finishNode => simp only [exec]; cases st.stack <;> simp
  | noop => simp [exec]

theorem exec_current_of_ne_bump (E : Env) (st : PState) (o : Op) (h : o ≠ .bump) : (exec E st o).current = st.current := by
  cases o with
  | bump => exact absurd rfl h
  | startNode k => simp [exec]
  | startNodeAt p k => simp only [exec]; cases st.stack <;> simp
  | finishNode => simp only [exec]; cases st.stack <;> simp
  | noop => simp [exec]

/-- no sequence of primitives ever moves the cursor backwards, and it moves it by exactly the number of `bump`s -/
theorem run_current (E : Env) : ∀ (ops : List Op) (st : PState), (run E st ops).current = st.current + ops.count .bump := by
  intro ops
  induction ops with
  | nil => intro st; simp [run]
  | cons o os ih =>
    intro st
    simp only [run, ih]
    by_cases h : o = .bump
    · subst h; rw [exec_bump_current]; simp; omega
    · rw [exec_current_of_ne_bump E st o h, List.count_cons_of_ne h]

theorem run_current_le (E : Env) (ops : List Op) (st : PState) : st.current ≤ (run E st ops).current := by
  rw [run_current]; omega

theorem run_current_lt_of_bump (E : Env) (ops : List Op) (st : PState) (h : Op.bump ∈ ops) :
    st.current < (run E st ops).current := by
  rw [run_current]
  have := List.count_pos_iff.mpr h
  omega

theorem atEnd_iff (E : Env) (st : PState) : atEnd E st = false ↔ st.current < len E := by
  simp [atEnd, len]

/-! ## the generic loop -/

/-- an iteration that is completed starts below the bound and strictly increases the position -/
def Progress {σ : Type} (pos : σ → Nat) (L : Nat) (body : σ → Step σ) : Prop :=
  ∀ s s', body s = .next s' → pos s < L ∧ pos s < pos s'

theorem iterate_total {σ : Type} (pos : σ → Nat) (L : Nat) (body : σ → Step σ) (hp : Progress pos L body) :
    ∀ (fuel : Nat) (s : σ), L - pos s < fuel →
      ∃ r n, iterate body fuel s = some (r, n) ∧ n ≤ L - pos s ∧ ∃ s0, body s0 = .exit r := by
  intro fuel
  induction fuel with
  | zero => intro s h; omega
  | succ fuel ih =>
    intro s h
    simp only [iterate]
    cases hb : body s with
    | exit s' => exact ⟨s', 0, rfl, Nat.zero_le _, s, hb⟩
    | next s' =>
      have ⟨h1, h2⟩ := hp s s' hb
      have ⟨r, n, e, hn, hx⟩ := ih s' (by omega)
      exact ⟨r, n + 1, by simp [e], by omega, hx⟩

/-- more fuel never changes the result -/
theorem iterate_fuel_mono {σ : Type} (body : σ → Step σ) :
    ∀ (fuel : Nat) (s : σ) (x : σ × Nat), iterate body fuel s = some x → ∀ k, iterate body (fuel + k) s = some x := by
  intro fuel
  induction fuel with
  | zero => intro s x h; simp [iterate] at h
  | succ fuel ih =>
    intro s x h k
    have : fuel + 1 + k = (fuel + k) + 1 := by omega
    rw [this]
    simp only [iterate] at h ⊢
    cases hb : body s with
    | exit s' => simpa [hb] using h
    | next s' =>
      simp only [hb] at h ⊢
      cases hi : iterate body fuel s' with
      | none => simp [hi] at h
      | some y =>
        rw [ih s' y hi k]
        simpa [hi] using h

/-- if no step decreases the position, neither does the loop -/
theorem iterate_pos_le {σ : Type} (pos : σ → Nat) (body : σ → Step σ)
    (hm : ∀ s s', (body s = .next s' ∨ body s = .exit s') → pos s ≤ pos s') :
    ∀ (fuel : Nat) (s r : σ) (n : Nat), iterate body fuel s = some (r, n) → pos s ≤ pos r := by
  intro fuel
  induction fuel with
  | zero => intro s r n h; simp [iterate] at h
  | succ fuel ih =>
    intro s r n h
    simp only [iterate] at h
    cases hb : body s with
    | exit s' =>
      simp only [hb, Option.some.injEq, Prod.mk.injEq] at h
      rw [← h.1]; exact hm s s' (Or.inr hb)
    | next s' =>
      simp only [hb] at h
      cases hi : iterate body fuel s' with
      | none => simp [hi] at h
      | some y =>
        obtain ⟨r', n'⟩ := y
        simp only [hi, Option.some.injEq, Prod.mk.injEq] at h
        have := ih s' r' n' hi
        have := hm s s' (Or.inl hb)
        rw [← h.1]; omega

/-! ## the shapes -/

theorem guardedBody_progress (E : Env) (guard : PState → Bool) (stmt post : PState → List Op) :
    Progress PState.current (len E) (guardedBody E guard stmt post) := by
  intro st st' h
  simp only [guardedBody] at h
  split at h
  · rename_i hg
    simp only [Bool.and_eq_true, Bool.not_eq_true'] at hg
    have hlt := (atEnd_iff E st).mp hg.2
    refine ⟨hlt, ?_⟩
    injection h with h
    subst h
    have h1 := run_current_le E (stmt st) st
    refine Nat.lt_of_lt_of_le ?_ (run_current_le E _ _)
    split
    · rename_i hc
      simp only [Bool.and_eq_true, decide_eq_true_eq] at hc
      rw [exec_bump_current]; omega
    · rename_i hc
      simp only [Bool.and_eq_true, decide_eq_true_eq, Bool.not_eq_true', not_and, Bool.not_eq_false] at hc
      by_cases he : (run E st (stmt st)).current = st.current
      · have := hc he
        have := (atEnd_iff E st)
        simp [atEnd, he] at *
        omega
      · omega
  · cases h

theorem guardedBody_exit (E : Env) (guard : PState → Bool) (stmt post : PState → List Op) (st st' : PState)
    (h : guardedBody E guard stmt post st = .exit st') : st' = st ∧ (guard st && !atEnd E st) = false := by
  simp only [guardedBody] at h
  split at h
  · cases h
  · rename_i hg
    injection h with h
    exact ⟨h.symm, by simpa using hg⟩

/-- the side condition of the consuming shapes (checked per loop by the translator: the first statement of the body is
`bump()`, resp. every non-leaving path contains one, and the loop condition needs a token under the cursor) -/
def Consumes (E : Env) (arm : PState → Option (List Op × Bool)) : Prop :=
  ∀ st ops, arm st = some (ops, false) → atEnd E st = false ∧ Op.bump ∈ ops

theorem consumingBody_progress (E : Env) (arm : PState → Option (List Op × Bool)) (hc : Consumes E arm) :
    Progress PState.current (len E) (consumingBody E arm) := by
  intro st st' h
  simp only [consumingBody] at h
  cases ha : arm st with
  | none => simp [ha] at h
  | some p =>
    obtain ⟨ops, leave⟩ := p
    simp only [ha] at h
    cases leave with
    | true => simp at h
    | false =>
      simp only [Bool.false_eq_true, if_false] at h
      injection h with h
      subst h
      have ⟨h1, h2⟩ := hc st ops ha
      exact ⟨(atEnd_iff E st).mp h1, run_current_lt_of_bump E ops st h2⟩

theorem separatorArm_consumes (E : Env) (isSep : PState → Bool) (rest : PState → List Op × Bool) :
    Consumes E (separatorArm E isSep rest) := by
  intro st ops h
  simp only [separatorArm] at h
  split at h
  · rename_i hg
    simp only [Bool.and_eq_true, Bool.not_eq_true'] at hg
    simp only [Option.some.injEq, Prod.mk.injEq] at h
    exact ⟨hg.2, by rw [← h.1]; simp⟩
  · cases h

theorem scanBody_progress (E : Env) (st : PState) (cont : Nat → Option Nat) :
    Progress (fun off => st.current + off) (len E) (scanBody E st cont) := by
  intro off off' h
  simp only [scanBody] at h
  cases hp : peekAhead E st off with
  | none => simp [hp] at h
  | some t =>
    simp only [hp] at h
    cases hc : cont off with
    | none => simp [hc] at h
    | some k =>
      simp only [hc] at h
      injection h with h
      subst h
      have : st.current + off < E.tokenIndices.length := by
        simp only [peekAhead] at hp
        exact (List.getElem?_eq_some_iff.mp hp).1
      refine ⟨this, ?_⟩
      show st.current + off < st.current + (off + k + 1)
      omega

end Mimium.Loops

namespace Mimium.Lexer
open Mimium.Gen (Kind)

theorem IsBoundary.le_len {s : List Char} {n : Nat} (h : IsBoundary s n) : n ≤ utf8Len s := by
  obtain ⟨p, ⟨t, rfl⟩, rfl⟩ := h
  rw [utf8Len_append]; omega

end Mimium.Lexer
