import Mimium.Proofs.UnifyStore
/-! `go` (both unification functions, every arm): the store left by any call — successful or not, with any fuel — is acyclic
and keeps the bindings it started from. -/
namespace Mimium.Unify
open Mimium.Occurs (parent Acyclic)

/-- post-processing of one call -/
theorem pres_of_call {α : Type} {u : U} (hu : Good u) {σ σ' : Store} (hσ : Acyclic (absS σ)) {a b : Ty} {r : Res}
    (h : u σ a b = some (σ', r)) (x : α) : Pres σ (some (σ', x)) := pres_some _ (hu σ a b hσ σ' r h)

theorem structuralD_pres {u : U} (hu : Good u) (σ : Store) (hσ : Acyclic (absS σ)) (t1r t2r : Ty) :
    Pres σ (structuralD u σ t1r t2r) := by
  unfold structuralD
  repeat' split
  all_goals first
    | exact pres_none σ
    | exact pres_some _ (Inv.refl hσ)
    | exact hu _ _ _ hσ
    | exact pres_of_call hu hσ (by assumption) _

theorem structuralC_pres {u : U} (hu : Good u) (σ : Store) (hσ : Acyclic (absS σ)) (t1r t2r : Ty) :
    Pres σ (structuralC u σ t1r t2r) := by
  unfold structuralC
  have hfirst : ∀ (a : Ty) (hit : Res → Bool) (ms : List Ty) (σ : Store), Acyclic (absS σ) →
      Pres σ (firstHit (fun σ m => u σ a m) hit σ ms) :=
    fun a hit ms σ hσ => firstHit_pres (fun σ m hσ => hu σ a m hσ) hit ms σ hσ
  repeat' split
  all_goals first
    | exact pres_none σ
    | exact pres_some _ (Inv.refl hσ)
    | exact hu _ _ _ hσ
    | exact structuralD_pres hu σ hσ _ _
    | exact pres_some _ (hfirst _ _ _ σ hσ _ _ (by assumption))
    | exact pres_some _ (allOf_pres (fun σ m hσ => hfirst m _ _ σ hσ) _ σ hσ _ _ (by assumption))
    | exact pres_some _ (allOf_pres (fun σ m hσ => pres_map hu σ hσ m _ isOk) _ σ hσ _ _ (by assumption))

theorem structuralB_pres {u : U} (hu : Good u) (σ : Store) (hσ : Acyclic (absS σ)) (t1 t2 t1r t2r : Ty) :
    Pres σ (structuralB u σ t1 t2 t1r t2r) := by
  unfold structuralB
  repeat' split
  all_goals first
    | exact pres_some _ (Inv.refl hσ)
    | exact hu _ _ _ hσ
    | exact structuralC_pres hu σ hσ _ _

theorem tupleArm_pres {u : U} (hu : Good u) (σ : Store) (hσ : Acyclic (absS σ)) (a1 a2 : List Ty) : Pres σ (tupleArm u σ a1 a2) := by
  unfold tupleArm
  repeat' split
  all_goals first
    | exact pres_none σ
    | exact pres_some _ (Inv.refl hσ)
    | exact pres_some _ (vecPass_pres hu _ _ σ hσ _ _ (by assumption))

theorem fnArm_pres {u ua : U} (hu : Good u) (hua : Good ua) (σ : Store) (hσ : Acyclic (absS σ)) (a1 r1 a2 r2 : Ty) :
    Pres σ (fnArm u ua σ a1 r1 a2 r2) := by
  unfold fnArm
  cases h1 : ua σ a1 a2 with
  | none => exact pres_none σ
  | some o1 =>
    obtain ⟨σ1, x⟩ := o1
    have i1 := hua σ _ _ hσ σ1 x h1
    simp only
    cases h2 : u σ1 r1 r2 with
    | none => exact pres_none σ
    | some o2 =>
      obtain ⟨σ2, y⟩ := o2
      exact pres_some _ (i1.trans (hu σ1 _ _ i1.1 σ2 y h2))

theorem arrayArm_pres {u : U} (hu : Good u) (σ : Store) (hσ : Acyclic (absS σ)) (a1 a2 : Ty) : Pres σ (arrayArm u σ a1 a2) := by
  unfold arrayArm
  repeat' split
  all_goals first
    | exact pres_none σ
    | exact pres_of_call hu hσ (by assumption) _

theorem structural_pres {u ua : U} (hu : Good u) (hua : Good ua) (σ : Store) (hσ : Acyclic (absS σ)) (t1 t2 t1r t2r : Ty) :
    Pres σ (structural u ua σ t1 t2 t1r t2r) := by
  unfold structural
  repeat' split
  all_goals first
    | exact hu _ _ _ hσ
    | exact arrayArm_pres hu σ hσ _ _
    | exact tupleArm_pres hu σ hσ _ _
    | exact recordArm_pres hu σ hσ _ _
    | exact fnArm_pres hu hua σ hσ _ _ _ _
    | exact structuralB_pres hu σ hσ _ _ _ _

theorem argsTail_pres {u ua : U} (hu : Good u) (hua : Good ua) (σ : Store) (hσ : Acyclic (absS σ)) (t1 t2 t1r t2r : Ty) :
    Pres σ (argsTail u ua σ t1 t2 t1r t2r) := by
  unfold argsTail
  repeat' split
  all_goals first
    | exact pres_none σ
    | exact hu _ _ _ hσ
    | exact hua _ _ _ hσ
    | exact pres_some _ (firstHit_pres (fun σ m hσ => hua σ m _ hσ) _ _ σ hσ _ _ (by assumption))

theorem argsHead_pres {u ua : U} (hu : Good u) (hua : Good ua) (σ : Store) (hσ : Acyclic (absS σ)) (t1 t2 t1r t2r : Ty) (out : Out)
    (h : argsHead u ua σ t1 t2 t1r t2r = some out) : Pres σ out := by
  unfold argsHead at h
  repeat' split at h
  all_goals (cases h; try first | exact hu _ _ _ hσ | exact hua _ _ _ hσ)

/-- every call of `unify_types` / `unify_types_args`, with any fuel -/
theorem go_good (g : Nat) : ∀ (f : Nat) (args : Bool), Good (go g f args) := by
  intro f
  induction f with
  | zero => intro args σ a b _; simp only [go]; exact pres_none σ
  | succ f ih =>
    intro args σ t1 t2 hσ
    cases args with
    | false =>
      simp only [go]
      split
      · rename_i t1r t2r hr1 hr2
        split
        · rename_i out hv
          exact varArms_pres g hσ g g t1 t2 t1r t2r hr1 hr2 out hv
        · exact structural_pres (ih false) (ih true) σ hσ _ _ _ _
      · exact pres_none σ
    | true =>
      simp only [go]
      split
      · rename_i t1r t2r hr1 hr2
        split
        · rename_i out hh
          exact argsHead_pres (ih false) (ih true) σ hσ _ _ _ _ out hh
        · split
          · rename_i out hv
            exact varArms_pres g hσ g g t1 t2 t1r t2r hr1 hr2 out hv
          · exact argsTail_pres (ih false) (ih true) σ hσ _ _ _ _
      · exact pres_none σ

end Mimium.Unify
