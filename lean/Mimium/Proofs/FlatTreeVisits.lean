import Mimium.Proofs.FlatTreeEval
import Mimium.Proofs.FlatTreeTop
/-!
Under the straight-line discipline `Visits`, the state effect of `Core.eval` on a function instance IS the sequence of
per-site tree operations `treeCells` of the visited cells, for the payload of operands the evaluation computes
(`eval_visits`, induction on the fuel over all 18 constructs); composed with the flat = tree theorem this makes the
flat machine a simulation of the evaluator's state.
-/
namespace Mimium.FlatTree
open Mimium.Core Mimium.Cells Mimium.StateTree Mimium.Layout Mimium.StateMachine

theorem andThen_ok {α β : Type} {r : Res α} {f : α → Res β} {x : β} (h : Core.andThen r f = .ok x) :
    ∃ a, r = .ok a ∧ f a = .ok x := by
  cases r <;> simp_all [Core.andThen]

theorem payShapeL_append : ∀ (s1 : List LCell) (p1 : List CPay) (s2 : List LCell) (p2 : List CPay),
    PayShapeL s1 p1 → PayShapeL s2 p2 → PayShapeL (s1 ++ s2) (p1 ++ p2)
  | [], [], _, _, _, h2 => by simpa using h2
  | [], _ :: _, _, _, h1, _ => by simp [PayShapeL] at h1
  | _ :: _, [], _, _, h1, _ => by simp [PayShapeL] at h1
  | c :: s1, p :: p1, s2, p2, h1, h2 => by
    simp only [PayShapeL] at h1
    simp only [List.cons_append, PayShapeL]
    exact ⟨h1.1, payShapeL_append s1 p1 s2 p2 h1.2 h2⟩

theorem treeCells_append_fst : ∀ (s1 : List LCell) (p1 : List CPay) (s2 : List LCell) (p2 : List CPay) (st : SNode),
    PayShapeL s1 p1 → (treeCells (s1 ++ s2) (p1 ++ p2) st).1 = (treeCells s2 p2 (treeCells s1 p1 st).1).1
  | [], [], _, _, _, _ => by simp [treeCells]
  | [], _ :: _, _, _, _, h1 => by simp [PayShapeL] at h1
  | _ :: _, [], _, _, _, h1 => by simp [PayShapeL] at h1
  | c :: s1, p :: p1, s2, p2, st, h1 => by
    simp only [PayShapeL] at h1
    simp only [List.cons_append, treeCells]
    exact treeCells_append_fst s1 p1 s2 p2 _ h1.2

/-- the effect of visiting `seg` -/
def Eff (seg : List LCell) (st st' : SNode) : Prop := ∃ ps, PayShapeL seg ps ∧ st' = (treeCells seg ps st).1

theorem Eff.nil (st : SNode) : Eff [] st st := ⟨[], by simp [PayShapeL], by simp [treeCells]⟩

theorem Eff.seq {s1 s2 : List LCell} {a b c : SNode} (h1 : Eff s1 a b) (h2 : Eff s2 b c) : Eff (s1 ++ s2) a c := by
  obtain ⟨p1, hp1, rfl⟩ := h1
  obtain ⟨p2, hp2, rfl⟩ := h2
  exact ⟨p1 ++ p2, payShapeL_append _ _ _ _ hp1 hp2, (treeCells_append_fst _ _ _ _ _ hp1).symm⟩

theorem Eff.nil_eq {a b : SNode} (h : Eff [] a b) : b = a := by
  obtain ⟨ps, hp, rfl⟩ := h
  cases ps with
  | nil => simp
  | cons p ps => simp [PayShapeL] at hp

theorem Eff.one (c : LCell) (p : CPay) (st : SNode) (hp : PayShape c p) : Eff [c] st (treeCell c p st).1 :=
  ⟨[p], by simp [PayShapeL, hp], by simp [treeCells]⟩

/-- what `eval`'s `call` does to the caller's tree is the tree operation at the child cell -/
theorem call_effect (site : Nat) (self : Option Shape) (cells' : List LCell) (s : SNode) (v : Val) (c1 : SNode)
    (h : Eff cells' (FlatTree.initSelf self (s.childAt site)) c1) :
    Eff [.child site self cells'] s (s.setCell site (.child (finSelf self c1 v))) := by
  obtain ⟨ps, hp, rfl⟩ := h
  refine ⟨[.child v ps], by simp [PayShapeL, PayShape, hp], ?_⟩
  simp only [treeCells, treeCell, treeNodeWith]
  cases self <;> simp [finSelf]

theorem eval_visits (P : Prog) (rt : Rt) : ∀ (fuel : Nat),
    (∀ (e : Expr) (seg : List LCell) (env : Env) (σ : Store) (st : SNode) (v : Val) (σ' : Store) (st' : SNode),
      Visits P e seg → eval fuel P rt env e σ st = .ok (v, σ', st') → Eff seg st st') ∧
    (∀ (es : List Expr) (seg : List LCell) (env : Env) (σ : Store) (st : SNode) (vs : List Val) (σ' : Store) (st' : SNode),
      VisitsL P es seg → evalList fuel P rt env es σ st = .ok (vs, σ', st') → Eff seg st st') := by
  intro fuel
  induction fuel with
  | zero =>
    constructor
    · intro e seg env σ st v σ' st' _ h; rw [eval_zero] at h; simp at h
    · intro es seg env σ st vs σ' st' _ h; rw [evalList_zero] at h; simp at h
  | succ n ih =>
    obtain ⟨ihE, ihL⟩ := ih
    constructor
    · intro e seg env σ st v σ' st' hv h
      cases e with
      | lit b =>
        cases hv; rw [eval_lit] at h
        simp only [Except.ok.injEq, Prod.mk.injEq] at h; obtain ⟨_, _, rfl⟩ := h; exact Eff.nil _
      | var x =>
        cases hv; rw [eval_var] at h
        split at h
        · simp at h
        · split at h
          · simp only [Except.ok.injEq, Prod.mk.injEq] at h; obtain ⟨_, _, rfl⟩ := h; exact Eff.nil _
          · simp at h
      | now =>
        cases hv; rw [eval_now] at h
        simp only [Except.ok.injEq, Prod.mk.injEq] at h; obtain ⟨_, _, rfl⟩ := h; exact Eff.nil _
      | samplerate =>
        cases hv; rw [eval_sr] at h
        simp only [Except.ok.injEq, Prod.mk.injEq] at h; obtain ⟨_, _, rfl⟩ := h; exact Eff.nil _
      | lam ps body =>
        cases hv; rw [eval_lam] at h
        simp only [Except.ok.injEq, Prod.mk.injEq] at h; obtain ⟨_, _, rfl⟩ := h; exact Eff.nil _
      | self =>
        cases hv; rw [eval_self] at h
        split at h
        · simp only [Except.ok.injEq, Prod.mk.injEq] at h; obtain ⟨_, _, rfl⟩ := h; exact Eff.nil _
        · simp at h
      | un op a =>
        cases hv with
        | un ha =>
          rw [eval_un] at h
          obtain ⟨⟨v1, σ1, t1⟩, h1, h⟩ := andThen_ok h
          cases v1 with
          | num x =>
            simp only [Except.ok.injEq, Prod.mk.injEq] at h; obtain ⟨_, _, rfl⟩ := h
            exact ihE a _ _ _ _ _ _ _ ha h1
          | _ => simp at h
      | bin op a b =>
        cases hv with
        | bin ha hb =>
          rw [eval_bin] at h
          obtain ⟨⟨v1, σ1, t1⟩, h1, h⟩ := andThen_ok h
          cases v1 with
          | num x =>
            simp only at h
            obtain ⟨⟨v2, σ2, t2⟩, h2, h⟩ := andThen_ok h
            cases v2 with
            | num y =>
              simp only [Except.ok.injEq, Prod.mk.injEq] at h; obtain ⟨_, _, rfl⟩ := h
              exact (ihE a _ _ _ _ _ _ _ ha h1).seq (ihE b _ _ _ _ _ _ _ hb h2)
            | _ => simp at h
          | _ => simp at h
      | ite c a b =>
        cases hv with
        | ite hc ha hb =>
          rw [eval_ite] at h
          obtain ⟨⟨v1, σ1, t1⟩, h1, h⟩ := andThen_ok h
          cases v1 with
          | num x =>
            simp only at h
            have e1 := ihE c _ _ _ _ _ _ _ hc h1
            split at h
            · rw [(ihE a _ _ _ _ _ _ _ ha h).nil_eq]; exact e1
            · rw [(ihE b _ _ _ _ _ _ _ hb h).nil_eq]; exact e1
          | _ => simp at h
      | letE x a body =>
        cases hv with
        | letE ha hb =>
          rw [eval_letE] at h
          obtain ⟨⟨v1, σ1, t1⟩, h1, h⟩ := andThen_ok h
          exact (ihE a _ _ _ _ _ _ _ ha h1).seq (ihE body _ _ _ _ _ _ _ hb h)
      | letTup xs a body =>
        cases hv with
        | letTup ha hb =>
          rw [eval_letTup] at h
          obtain ⟨⟨v1, σ1, t1⟩, h1, h⟩ := andThen_ok h
          cases v1 with
          | tup vs =>
            simp only at h
            split at h
            · exact (ihE a _ _ _ _ _ _ _ ha h1).seq (ihE body _ _ _ _ _ _ _ hb h)
            · simp at h
          | _ => simp at h
      | assign x a rest =>
        cases hv with
        | assign ha hb =>
          rw [eval_assign] at h
          obtain ⟨⟨v1, σ1, t1⟩, h1, h⟩ := andThen_ok h
          split at h
          · simp at h
          · exact (ihE a _ _ _ _ _ _ _ ha h1).seq (ihE rest _ _ _ _ _ _ _ hb h)
      | proj a i =>
        cases hv with
        | proj ha =>
          rw [eval_proj] at h
          obtain ⟨⟨v1, σ1, t1⟩, h1, h⟩ := andThen_ok h
          cases v1 with
          | tup vs =>
            simp only at h
            split at h
            · simp only [Except.ok.injEq, Prod.mk.injEq] at h; obtain ⟨_, _, rfl⟩ := h
              exact ihE a _ _ _ _ _ _ _ ha h1
            · simp at h
          | _ => simp at h
      | tup es =>
        cases hv with
        | tup hes =>
          rw [eval_tup] at h
          obtain ⟨⟨vs, σ1, t1⟩, h1, h⟩ := andThen_ok h
          simp only [Except.ok.injEq, Prod.mk.injEq] at h; obtain ⟨_, _, rfl⟩ := h
          exact ihL es _ _ _ _ _ _ _ hes h1
      | app f args =>
        cases hv with
        | app hf hargs =>
          rw [eval_app] at h
          obtain ⟨⟨v1, σ1, t1⟩, h1, h⟩ := andThen_ok h
          cases v1 with
          | clo ps body cenv =>
            simp only at h
            obtain ⟨⟨vs, σ2, t2⟩, h2, h⟩ := andThen_ok h
            simp only at h
            split at h
            · simp at h
            · obtain ⟨⟨v3, σ3, t3⟩, _, h⟩ := andThen_ok h
              simp only [Except.ok.injEq, Prod.mk.injEq] at h; obtain ⟨_, _, rfl⟩ := h
              exact (ihE f _ _ _ _ _ _ _ hf h1).seq (ihL args _ _ _ _ _ _ _ hargs h2)
          | _ => simp at h
      | mem a site =>
        cases hv with
        | mem ha =>
          rw [eval_mem] at h
          obtain ⟨⟨v1, σ1, t1⟩, h1, h⟩ := andThen_ok h
          cases v1 with
          | num x =>
            simp only [Except.ok.injEq, Prod.mk.injEq] at h; obtain ⟨_, _, rfl⟩ := h
            refine (ihE a _ _ _ _ _ _ _ ha h1).seq ?_
            have := Eff.one (.mem site) (.mem x) t1 (by simp [PayShape])
            simpa [treeCell] using this
          | _ => simp at h
      | delay k a t site =>
        cases hv with
        | delay ha ht =>
          rw [eval_delay] at h
          obtain ⟨⟨v1, σ1, t1⟩, h1, h⟩ := andThen_ok h
          cases v1 with
          | num x =>
            simp only at h
            obtain ⟨⟨v2, σ2, t2⟩, h2, h⟩ := andThen_ok h
            cases v2 with
            | num tm =>
              simp only [Except.ok.injEq, Prod.mk.injEq] at h; obtain ⟨_, _, rfl⟩ := h
              refine ((ihE a _ _ _ _ _ _ _ ha h1).seq (ihE t _ _ _ _ _ _ _ ht h2)).seq ?_
              have := Eff.one (.delay site k) (.delay x tm) t2 (by simp [PayShape])
              simpa [treeCell] using this
            | _ => simp at h
          | _ => simp at h
      | call f args site =>
        cases hv with
        | call hargs hself hbody =>
          rename_i self cells' s
          rw [eval_call] at h
          obtain ⟨⟨vs, σ1, t1⟩, h1, h⟩ := andThen_ok h
          refine (ihL args _ _ _ _ _ _ _ hargs h1).seq ?_
          simp only [callRest] at h
          cases hf : findFn P.fns f with
          | none => simp [hf] at h
          | some d =>
            simp only [hf] at h
            split at h
            · simp at h
            · obtain ⟨⟨v2, σ2, c1⟩, h2, h⟩ := andThen_ok h
              simp only [Except.ok.injEq, Prod.mk.injEq] at h; obtain ⟨_, _, rfl⟩ := h
              rw [core_initSelf, hself d hf] at h2
              rw [core_finishSelf, hself d hf]
              exact call_effect site self cells' t1 v2 c1 (ihE d.body _ _ _ _ _ _ _ (hbody d hf) h2)
    · intro es seg env σ st vs σ' st' hv h
      cases es with
      | nil =>
        cases hv; rw [evalList_nil] at h
        simp only [Except.ok.injEq, Prod.mk.injEq] at h; obtain ⟨_, _, rfl⟩ := h; exact Eff.nil _
      | cons e es =>
        cases hv with
        | cons he hes =>
          rw [evalList_cons] at h
          obtain ⟨⟨v1, σ1, t1⟩, h1, h⟩ := andThen_ok h
          obtain ⟨⟨vs2, σ2, t2⟩, h2, h⟩ := andThen_ok h
          simp only [Except.ok.injEq, Prod.mk.injEq] at h; obtain ⟨_, _, rfl⟩ := h
          exact (ihE e _ _ _ _ _ _ _ he h1).seq (ihL es _ _ _ _ _ _ _ hes h2)

/-- `PayOkL` = shape + word counts of the returned values; the shape part is what `eval_visits` produces -/
theorem treeNode_of_eff (lay : LNode) (st : SNode) (v : Val) (st1 : SNode)
    (h : Eff lay.cells (FlatTree.initSelf lay.self st) st1) :
    ∃ ps, PayShapeL lay.cells ps ∧ finSelf lay.self st1 v = (treeNode lay ⟨v, ps⟩ st).1 := by
  obtain ⟨ps, hp, rfl⟩ := h
  refine ⟨ps, hp, ?_⟩
  simp only [treeNode, treeNodeWith]
  cases lay.self <;> simp [finSelf]

end Mimium.FlatTree
